(* What property C04 demands, stated from the property text and independent of the shape of the code. *)
From MV Require Import Auth.AuthModel.
Local Open Scope Z_scope.

(* "internal chain validation succeeded": the validator returned success and every certificate of the chain passed *)
Definition internal_failure (v : verdict) : Prop :=
  v_rc v < 0 \/ exists c, In c (v_chain v) /\ cv_status c <> a_PS_CERT_AUTH_PASS.

(* two further reasons for which the chain is not authenticated although the validator is content:
   this peer has no trust anchor at all; the path (chain + its root) is longer than the application allows *)
Definition no_anchor (v : verdict) : Prop := v_ca v = false.
Definition path_depth (v : verdict) : Z :=
  Z.of_nat (length (v_chain v)) + (if last (map cv_self (v_chain v)) true then 0 else 1).
Definition too_deep (v : verdict) : Prop := 0 < v_maxdepth v /\ v_maxdepth v < path_depth v.
Definition auth_failure (v : verdict) : Prop := internal_failure v \/ no_anchor v \/ too_deep v.

Definition continues (o : outcome) : bool := match o with Continue _ => true | Fatal _ => false end.

(* the only two callback answers that let a handshake go on *)
Definition cb_accepts (r : Z) (anon : bool) : Prop :=
  (r = 0 /\ anon = false) \/ (r = a_SSL_ALLOW_ANON_CONNECTION /\ anon = true).

(* proof of possession: a successful check made with the leaf key [k] over this handshake's own data *)
Fixpoint prefix (a b : list nat) : Prop :=
  match a, b with
  | [], _ => True
  | x :: a', y :: b' => x = y /\ prefix a' b'
  | _ :: _, [] => False
  end.

Section PopSpec.
  Variable sig_ok : nat -> nat -> sigdata -> nat -> bool.
  Variable fin_ok : option nat -> list nat -> nat -> bool.

  Definition own_data (c : pcfg) (final_tr : list nat) (d : sigdata) : Prop :=
    match d with
    | DParams cr sr _ => cr = p_cr c /\ sr = p_sr c                                  (* this handshake's randoms *)
    | DTranscript ctx t => ctx = peer_ctx c /\ prefix t final_tr                    (* this handshake's transcript at that point *)
    end.

  Definition possession_proved (c : pcfg) (s : pst) (k : nat) : Prop :=
    exists e, In e (pops s) /\
      match e with
      | PopSig k' alg d sg => k' = k /\ sig_ok k alg d sg = true /\ own_data c (tr s) d /\
                              (p_fix_ske_alg c = true \/ (exists ctx t, d = DTranscript ctx t) -> In alg (p_offered c))
      | PopKeyTransport k' t vd => k' = k /\ fin_ok (Some k) t vd = true /\ prefix t (tr s)
      end.
End PopSpec.
