From MV Require Import Sess.SessModel.
Local Open Scope Z_scope.

(* ------------------------------------------------------------------ small facts about setters *)
Lemma set_err_flags s : err (set_err s) = true /\ closed (set_err s) = closed s /\ rsec (set_err s) = rsec s.
Proof. repeat split. Qed.

Ltac break_if :=
  match goal with
  | H : context [if ?b then _ else _] |- _ => let E := fresh "E" in destruct b eqn:E
  | |- context [if ?b then _ else _] => let E := fresh "E" in destruct b eqn:E
  end.
Ltac break_match :=
  match goal with
  | H : context [match ?x with _ => _ end] |- _ => let E := fresh "E" in destruct x eqn:E
  end.

Definition is_good (r : rec) : bool := match r_prot r with Good => true | _ => false end.

(* the state of the receiver admits application data *)
Definition deliver_state (s : st) : Prop := app_gate12 s = true \/ app_gate13 s = true.

Lemma apply_hs_not_deliver s o s' : apply_hs s o <> (s', Deliver).
Proof. destruct o; cbn; unfold fatal; congruence. Qed.
Lemma apply_hsD_not_deliver s o s' : apply_hsD s o <> (s', Deliver).
Proof. destruct o; cbn; unfold fatal; congruence. Qed.

Lemma recv_alert13_not_deliver s l d s' : recv_alert13 s l d <> (s', Deliver).
Proof. unfold recv_alert13. congruence. Qed.
Lemma recv_alert12_not_deliver s l d s' : recv_alert12 s l d <> (s', Deliver).
Proof. unfold recv_alert12. congruence. Qed.

Ltac kill_nd :=
  try discriminate;
  try (exfalso; eapply apply_hs_not_deliver; eassumption);
  try (exfalso; eapply apply_hsD_not_deliver; eassumption);
  try (exfalso; eapply recv_alert13_not_deliver; eassumption);
  try (exfalso; eapply recv_alert12_not_deliver; eassumption).

Lemma decode12_deliver s r o s' :
  decode12 s r o = (s', Deliver) -> app_gate12 s = true /\ (rsec s = true -> is_good r = true).
Proof.
  unfold decode12, fatal, is_good. intro H.
  destruct (r_hdr r); kill_nd.
  repeat (break_if; kill_nd); repeat break_match; kill_nd;
    try (apply negb_false_iff in E5); try (split; [assumption|]); try (intros; congruence);
    try (split; [apply negb_false_iff; assumption | intros; try congruence]).
  all: try (apply andb_false_iff in E; destruct E as [E|E]; [congruence|apply negb_false_iff in E; destruct (r_prot r); congruence]).
Qed.

Lemma app_gate12_rsec s : app_gate12 s = true -> rsec s = true.
Proof. unfold app_gate12. intro H. apply andb_prop in H. apply H. Qed.
Lemma app_gate13_rsec s : app_gate13 s = true -> rsec s = true.
Proof. unfold app_gate13. intro H. apply andb_prop in H. apply H. Qed.

Lemma decode13_deliver s r o s' :
  decode13 s r o = (s', Deliver) -> app_gate13 s = true /\ is_good r = true.
Proof.
  unfold decode13, fatal, is_good. intro H.
  destruct (r_hdr r); kill_nd;
  repeat (break_if; kill_nd); repeat break_match; kill_nd;
  repeat (break_if; kill_nd);
  match goal with
  | Hn : negb (app_gate13 s) = false |- _ => apply negb_false_iff in Hn
  end;
  try (split; [assumption|reflexivity]);
  try (pose proof (app_gate13_rsec _ ltac:(eassumption)); congruence).
Qed.

(* ------------------------------------------------------------------ DTLS, one step *)
(* which records of a DTLS session reach decryption: the expected epoch with a sequence number the replay window has not seen,
   or a later epoch adopted in the two corner cases of sslDecode.c 725-786 *)
Definition dtls_accepts (s : st) (r : rec) : Prop :=
  (r_epoch r = xepoch s /\ r_replay r = Fresh) \/
  (xepoch s < r_epoch r /\ ((r_outer r = c_SSL_RECORD_TYPE_APPLICATION_DATA /\ hs s = c_SSL_HS_DONE) \/
                            (r_outer r = c_SSL_RECORD_TYPE_HANDSHAKE /\ hs s = c_SSL_HS_FINISHED /\ pccs s = true))).

Lemma decodeD_body_deliver s r o s' :
  decodeD_body s r o = (s', Deliver) ->
  app_gate12 s = true /\ (rsec s = true -> is_good r = true) /\ r_outer r = c_SSL_RECORD_TYPE_APPLICATION_DATA.
Proof.
  unfold decodeD_body, fatal, is_good. intro H.
  destruct (rsec s && negb (match r_prot r with Good => true | _ => false end)) eqn:E0; [discriminate|].
  assert (Hg : rsec s = true -> match r_prot r with Good => true | _ => false end = true).
  { intro Hr. rewrite Hr in E0. cbn in E0. apply negb_false_iff in E0. exact E0. }
  destruct (r_overflow r); [discriminate|].
  destruct (Z.eqb (r_outer r) c_SSL_RECORD_TYPE_CHANGE_CIPHER_SPEC).
  { repeat (break_if; kill_nd). }
  destruct (Z.eqb (r_outer r) c_SSL_RECORD_TYPE_ALERT).
  { repeat (break_if; kill_nd). }
  destruct (Z.eqb (r_outer r) c_SSL_RECORD_TYPE_HANDSHAKE); [kill_nd|].
  destruct (Z.eqb (r_outer r) c_SSL_RECORD_TYPE_APPLICATION_DATA) eqn:Et; [|discriminate].
  apply Z.eqb_eq in Et.
  destruct (negb (app_gate12 s)) eqn:Eg; [discriminate|]. apply negb_false_iff in Eg.
  repeat split; auto.
Qed.

Lemma skipD_not_deliver s0 n ol t s' : skipD s0 n ol t <> (s', Deliver).
Proof. unfold skipD, fatal. repeat break_if; congruence. Qed.

Lemma decodeD_deliver s r o s' :
  decodeD s r o = (s', Deliver) ->
  app_gate12 s = true /\ (rsec s = true -> is_good r = true) /\ r_outer r = c_SSL_RECORD_TYPE_APPLICATION_DATA /\ dtls_accepts s r.
Proof.
  unfold decodeD, fatal. intro H.
  destruct (r_hdr r); try discriminate.
  destruct (Z.eqb (r_epoch r) (xepoch s)) eqn:Ee.
  - apply Z.eqb_eq in Ee. destruct (r_replay r) eqn:Er; [|discriminate].
    apply decodeD_body_deliver in H. destruct H as [H1 [H2 H3]]. repeat split; auto. left. auto.
  - destruct (Z.ltb (xepoch s) (r_epoch r)) eqn:En; cbn [andb] in H.
    + apply Z.ltb_lt in En.
      destruct (Z.eqb (r_outer r) c_SSL_RECORD_TYPE_HANDSHAKE && Z.eqb (hs s) c_SSL_HS_FINISHED) eqn:E1.
      * destruct (negb (pccs s)) eqn:Ep; [discriminate|].
        apply decodeD_body_deliver in H. destruct H as [H1 [H2 H3]].
        apply andb_prop in E1. destruct E1 as [E1 _]. apply Z.eqb_eq in E1. rewrite E1 in H3. vm_compute in H3. discriminate.
      * destruct (Z.eqb (r_outer r) c_SSL_RECORD_TYPE_APPLICATION_DATA && Z.eqb (hs s) c_SSL_HS_DONE) eqn:E2.
        -- apply decodeD_body_deliver in H. destruct H as [H1 [H2 H3]].
           apply andb_prop in E2. destruct E2 as [E2a E2b]. apply Z.eqb_eq in E2a. apply Z.eqb_eq in E2b.
           repeat split; auto. right. split; [assumption|]. left. auto.
        -- destruct (Z.eqb (r_outer r) c_SSL_RECORD_TYPE_HANDSHAKE && Z.eqb (hs s) c_SSL_HS_DONE);
             exfalso; eapply skipD_not_deliver; eassumption.
    + exfalso; eapply skipD_not_deliver; eassumption.
Qed.

(* ------------------------------------------------------------------ C01, one step *)
Lemma decode_deliver s r o s' :
  decode s r o = (s', Deliver) ->
  err s = false /\ closed s = false /\ rsec s = true /\ is_good r = true /\ deliver_state s /\
  (dtls s = true -> dtls_accepts s r).
Proof.
  unfold decode. intro H.
  destruct (err s || closed s) eqn:Eg; [discriminate|].
  apply orb_false_elim in Eg. destruct Eg as [Ee Ec].
  destruct (dtls s) eqn:Ed.
  { apply decodeD_deliver in H. destruct H as [Hg [Hp [_ Ha]]].
    pose proof (app_gate12_rsec _ Hg) as Hr. repeat split; auto. left. assumption. }
  assert (D12 : forall o' s', decode12 s r o' = (s', Deliver) ->
            err s = false /\ closed s = false /\ rsec s = true /\ is_good r = true /\ deliver_state s /\
            (false = true -> dtls_accepts s r)).
  { intros o' s0 H0. apply decode12_deliver in H0. destruct H0 as [Hg Hp].
    pose proof (app_gate12_rsec _ Hg) as Hr. repeat split; auto; [left; assumption|discriminate]. }
  destruct (v13 s).
  - destruct (is_fallback o).
    + eapply D12; eassumption.
    + apply decode13_deliver in H; destruct H as [Hg Hp];
       pose proof (app_gate13_rsec _ Hg) as Hr; repeat split; auto; [right; assumption|discriminate].
  - eapply D12; eassumption.
Qed.

(* pre-states of a run *)
Fixpoint pre_states (s : st) (is : list input) : list st :=
  match is with
  | [] => []
  | (r, o) :: rest => s :: pre_states (fst (decode s r o)) rest
  end.

Lemma run_cons s r o rest :
  run s ((r, o) :: rest) =
    (fst (run (fst (decode s r o)) rest), snd (decode s r o) :: snd (run (fst (decode s r o)) rest)).
Proof.
  cbn [run]. destruct (decode s r o) as [s1 out]. cbn [fst snd].
  destruct (run s1 rest) as [s2 outs]. reflexivity.
Qed.

Theorem run_deliver_gate : forall is s k,
  nth_error (snd (run s is)) k = Some Deliver ->
  exists sk r o, nth_error (pre_states s is) k = Some sk /\ nth_error is k = Some (r, o) /\
                 err sk = false /\ closed sk = false /\ rsec sk = true /\ is_good r = true /\ deliver_state sk /\
                 (dtls sk = true -> dtls_accepts sk r).
Proof.
  induction is as [|[r o] rest IH]; intros s k H.
  - destruct k; discriminate.
  - rewrite run_cons in H. cbn [snd] in H. destruct k as [|k].
    + cbn [nth_error] in H. injection H as H.
      exists s, r, o. cbn [pre_states nth_error]. split; [reflexivity|]. split; [reflexivity|].
      apply (decode_deliver s r o (fst (decode s r o))). destruct (decode s r o); cbn in *; congruence.
    + cbn [nth_error] in H. apply IH in H. destruct H as [sk [r0 [o0 H]]].
      exists sk, r0, o0. cbn [pre_states nth_error]. exact H.
Qed.

(* What a network attacker without the session keys can present to a session in state [s]: a record that does not verify
   under the receiver's read key (plaintext, garbage, a modified record, a record of the other direction or of other keys),
   or - DTLS, where sequence numbers are explicit - a verbatim copy of a record of the expected epoch that the receiver has
   already accepted, which the replay window answers with Dup (C16). *)
Definition attacker_input (s : st) (i : input) : Prop :=
  is_good (fst i) = false \/ (dtls s = true /\ r_replay (fst i) = Dup /\ r_epoch (fst i) = xepoch s).

(* a predicate on (pre-state, input) holds at every step of a run *)
Fixpoint all_steps (P : st -> input -> Prop) (s : st) (is : list input) : Prop :=
  match is with
  | [] => True
  | i :: rest => P s i /\ all_steps P (fst (decode s (fst i) (snd i))) rest
  end.

Lemma all_steps_nth P : forall is s k sk i,
  all_steps P s is -> nth_error (pre_states s is) k = Some sk -> nth_error is k = Some i -> P sk i.
Proof.
  induction is as [|[r o] rest IH]; intros s k sk i Ha Hs Hi.
  - destruct k; discriminate.
  - cbn [all_steps fst snd] in Ha. destruct Ha as [Ha1 Ha2]. destruct k as [|k].
    + cbn in Hs, Hi. injection Hs as Hs. injection Hi as Hi. subst. exact Ha1.
    + cbn [pre_states nth_error] in Hs, Hi. eapply IH; eassumption.
Qed.

Theorem attacker_never_delivers_gen : forall is s,
  all_steps attacker_input s is -> ~ In Deliver (snd (run s is)).
Proof.
  intros is s Ha Hin. apply In_nth_error in Hin. destruct Hin as [k Hk].
  apply run_deliver_gate in Hk. destruct Hk as [sk [r [o [Hs [Hi [_ [_ [_ [Hg [_ Hd]]]]]]]]]].
  pose proof (all_steps_nth _ _ _ _ _ _ Ha Hs Hi) as [Hb|[Hdt [Hdup Hep]]]; cbn [fst] in *.
  - congruence.
  - specialize (Hd Hdt). destruct Hd as [[_ Hf]|[Hlt _]]; [congruence|]. rewrite Hep in Hlt. apply Z.lt_irrefl in Hlt. exact Hlt.
Qed.

Lemma all_steps_of_forall (Q : input -> Prop) (P : st -> input -> Prop) :
  (forall s i, Q i -> P s i) -> forall is s, Forall Q is -> all_steps P s is.
Proof.
  intros HQ. induction is as [|i rest IH]; intros s Hf; [exact I|].
  inversion Hf; subst. cbn [all_steps]. split; [apply HQ; assumption|apply IH; assumption].
Qed.

Theorem attacker_never_delivers : forall is s,
  Forall (fun i => is_good (fst i) = false) is -> ~ In Deliver (snd (run s is)).
Proof.
  intros is s Hf. apply attacker_never_delivers_gen.
  apply (all_steps_of_forall (fun i => is_good (fst i) = false)); [|assumption].
  intros s0 i Hi. left. exact Hi.
Qed.

Theorem encode_gate : forall s, encode_app_ok s = true ->
  err s = false /\ closed s = false /\ (hs s = c_SSL_HS_DONE \/ (v13 s = true /\ (cl_early s = true \/ sv_early s = true))).
Proof.
  intros s H. unfold encode_app_ok in H. destruct (v13 s).
  - apply andb_prop in H. destruct H as [H12 H3]. apply andb_prop in H12. destruct H12 as [H1 H2].
    apply negb_true_iff in H1. apply negb_true_iff in H2. repeat split; auto.
    apply orb_prop in H3. destruct H3 as [H3|H3].
    + apply orb_prop in H3. destruct H3 as [H3|H3]; [left; apply Z.eqb_eq; assumption|right; auto].
    + right; auto.
  - apply andb_prop in H. destruct H as [H12 H3]. apply andb_prop in H12. destruct H12 as [H1 H2].
    apply negb_true_iff in H1. apply negb_true_iff in H2. repeat split; auto. left. apply Z.eqb_eq. assumption.
Qed.

(* read protection is switched on only by a ChangeCipherSpec in the FINISHED state (or the
   ticket-in-limbo shortcut) or by the handshake layer itself *)
Ltac zb := repeat match goal with
  | H : Z.eqb _ _ = true |- _ => apply Z.eqb_eq in H
  | H : andb _ _ = true |- _ => apply andb_prop in H; destruct H
  | H : negb _ = true |- _ => apply negb_true_iff in H
  | H : negb _ = false |- _ => apply negb_false_iff in H
  end.

Lemma apply_hs_rsec s o s' out : apply_hs s o = (s', out) -> rsec s = false -> rsec s' = true ->
  exists h w v resp, o = HsOk h true w v resp.
Proof.
  destruct o; cbn; unfold fatal; intros H Hr Hr'; injection H as H _; subst s'; cbn in Hr'; try congruence.
  subst. eauto.
Qed.
Lemma apply_hsD_rsec s o s' out : apply_hsD s o = (s', out) -> rsec s = false -> rsec s' = true ->
  exists h w v resp, o = HsOk h true w v resp.
Proof.
  destruct o; cbn; unfold fatal; intros H Hr Hr'; injection H as H _; subst s'; cbn in Hr'; try congruence.
  subst. eauto.
Qed.
Lemma recv_alert12_rsec s l d s' out : recv_alert12 s l d = (s', out) -> rsec s' = rsec s.
Proof. unfold recv_alert12. intro H. injection H as H _. subst s'. destruct (Z.eqb l c_SSL_ALERT_LEVEL_FATAL), (Z.eqb d c_SSL_ALERT_CLOSE_NOTIFY); reflexivity. Qed.
Lemma recv_alert13_rsec s l d s' out : recv_alert13 s l d = (s', out) -> rsec s' = rsec s.
Proof. unfold recv_alert13. intro H. injection H as H _. subst s'. destruct (Z.eqb d c_SSL_ALERT_CLOSE_NOTIFY); reflexivity. Qed.

Definition ccs_cause (s : st) (r : rec) : Prop :=
  r_outer r = c_SSL_RECORD_TYPE_CHANGE_CIPHER_SPEC
  /\ (hs s = c_SSL_HS_FINISHED \/ (hs s = c_SSL_HS_CERTIFICATE /\ limbo s = true /\ server s = false)).

Lemma decode12_rsec s r o s' out : decode12 s r o = (s', out) -> rsec s = false -> rsec s' = true ->
  ccs_cause s r \/ exists h w v resp, o = HsOk h true w v resp.
Proof.
  intros H Hr Hr'. unfold decode12, fatal in H.
  destruct (r_hdr r); try (injection H as H _; subst s'; cbn in Hr'; congruence).
  repeat (break_if; try (injection H as H _; subst s'; cbn in Hr'; try congruence)).
  all: try (right; eapply apply_hs_rsec; eassumption).
  all: try (erewrite recv_alert12_rsec in Hr' by eassumption; congruence).
  all: try (cbn in Hr'; congruence).
  all: zb; left; unfold ccs_cause; auto.
Qed.

Lemma decode13_rsec s r o s' out : decode13 s r o = (s', out) -> rsec s = false -> rsec s' = true ->
  exists h w v resp, o = HsOk h true w v resp.
Proof.
  intros H Hr Hr'. unfold decode13, fatal in H. rewrite Hr in H.
  destruct (r_hdr r); try (injection H as H _; subst s'; cbn in Hr'; congruence).
  all: repeat (break_if; try (injection H as H _; subst s'; cbn in Hr'; try congruence)).
  all: try (eapply apply_hs_rsec; eassumption).
  all: try (erewrite recv_alert13_rsec in Hr' by eassumption; congruence).
  all: try (cbn in Hr'; congruence).
Qed.

Lemma decodeD_body_rsec s r o s' out : decodeD_body s r o = (s', out) -> rsec s = false -> rsec s' = true ->
  (r_outer r = c_SSL_RECORD_TYPE_CHANGE_CIPHER_SPEC /\ hs s = c_SSL_HS_FINISHED) \/ exists h w v resp, o = HsOk h true w v resp.
Proof.
  intros H Hr Hr'. unfold decodeD_body, fatal in H.
  repeat (break_if; try (injection H as H _; subst s'; cbn in Hr'; try congruence)).
  all: try (right; eapply apply_hsD_rsec; eassumption).
  all: try (erewrite recv_alert12_rsec in Hr' by eassumption; congruence).
  all: try (cbn in Hr'; congruence).
  all: zb; left; auto.
Qed.

Lemma skipD_rsec s0 n ol t s' out : skipD s0 n ol t = (s', out) -> rsec s' = rsec s0.
Proof. unfold skipD, fatal. intro H. repeat break_if; injection H as H _; subst s'; reflexivity. Qed.

Lemma decodeD_rsec s r o s' out : decodeD s r o = (s', out) -> rsec s = false -> rsec s' = true ->
  ccs_cause s r \/ exists h w v resp, o = HsOk h true w v resp.
Proof.
  intros H Hr Hr'. unfold decodeD, fatal in H.
  assert (B : forall s0, rsec s0 = rsec s -> hs s0 = hs s -> decodeD_body s0 r o = (s', out) ->
              ccs_cause s r \/ exists h w v resp, o = HsOk h true w v resp).
  { intros s0 H1 H2 H3. apply decodeD_body_rsec in H3; try congruence.
    destruct H3 as [[Ha Hb]|H3]; [left; split; [assumption|left; congruence]|right; assumption]. }
  destruct (r_hdr r); try (injection H as H _; subst s'; cbn in Hr'; congruence).
  repeat (break_if; try (injection H as H _; subst s'; cbn in Hr'; try congruence)).
  all: try (destruct (r_replay r); [|injection H as H _; subst s'; congruence]).
  all: try (eapply B; [| |eassumption]; reflexivity).
  all: try (apply skipD_rsec in H; cbn in H; congruence).
Qed.

Theorem rsec_origin : forall s r o s' out,
  decode s r o = (s', out) -> rsec s = false -> rsec s' = true ->
  ((dtls s = true \/ v13 s = false \/ is_fallback o = true) /\ ccs_cause s r) \/ exists h w v resp, legacy_answer o = HsOk h true w v resp.
Proof.
  intros s r o s' out H Hr Hr'. unfold decode in H.
  destruct (err s || closed s); [injection H as H _; subst s'; congruence|].
  destruct (dtls s) eqn:Ed.
  { eapply decodeD_rsec in H; try assumption. destruct H as [H|H]; [left; split; [left; reflexivity|assumption]|].
    right. destruct H as [h [w [v [resp H]]]]. rewrite H. cbn. eauto. }
  destruct (v13 s) eqn:Ev.
  - destruct (is_fallback o) eqn:Ef.
    + eapply decode12_rsec in H; try assumption. destruct H as [H|H]; [left; split; [right; right; reflexivity|assumption]|right; assumption].
    + right. replace (legacy_answer o) with o by (destruct o; try reflexivity; discriminate Ef).
      eapply decode13_rsec; eassumption.
  - eapply decode12_rsec in H; try assumption. destruct H as [H|H]; [left; split; [right; left; reflexivity|assumption]|].
    right. destruct H as [h [w [v [resp H]]]]. rewrite H. cbn. eauto.
Qed.

(* ------------------------------------------------------------------ C15 *)
Lemma decode_dead s r o : err s || closed s = true -> decode s r o = (s, Refuse).
Proof. intro H. unfold decode. rewrite H. reflexivity. Qed.

Theorem dead_stays_dead : forall is s, err s || closed s = true ->
  run s is = (s, repeat Refuse (length is)).
Proof.
  induction is as [|[r o] rest IH]; intros s H; [reflexivity|].
  cbn [run]. rewrite (decode_dead s r o H). rewrite (IH s H). reflexivity.
Qed.

Theorem dead_no_deliver_no_seal : forall is s, err s || closed s = true ->
  ~ In Deliver (snd (run s is)) /\ encode_app_ok (fst (run s is)) = false.
Proof.
  intros is s H. rewrite (dead_stays_dead is s H). cbn [fst snd]. split.
  - intro Hin. apply repeat_spec in Hin. discriminate.
  - unfold encode_app_ok. apply orb_prop in H.
    destruct (v13 s), H as [H|H]; rewrite H; cbn; try reflexivity; destruct (err s); reflexivity.
Qed.

Lemma apply_hs_alertout s o s' d : apply_hs s o = (s', AlertOut d) -> err s' = true.
Proof. destruct o; cbn; unfold fatal; intro H; try discriminate. injection H as H _. subst s'. reflexivity. Qed.
Lemma apply_hsD_alertout s o s' d : apply_hsD s o = (s', AlertOut d) -> err s' = true.
Proof. destruct o; cbn; unfold fatal; intro H; try discriminate. injection H as H _. subst s'. reflexivity. Qed.

Lemma recv_alert12_not_out s l d s' x : recv_alert12 s l d <> (s', AlertOut x).
Proof. unfold recv_alert12. congruence. Qed.
Lemma recv_alert13_not_out s l d s' x : recv_alert13 s l d <> (s', AlertOut x).
Proof. unfold recv_alert13. congruence. Qed.

Ltac leaf_out H s' :=
  first [ discriminate H
        | (injection H as H _; subst s'; reflexivity)
        | (eapply apply_hs_alertout; eassumption)
        | (eapply apply_hsD_alertout; eassumption)
        | (exfalso; eapply recv_alert12_not_out; eassumption)
        | (exfalso; eapply recv_alert13_not_out; eassumption) ].

Lemma decode12_out s r o s' d : decode12 s r o = (s', AlertOut d) -> err s' = true.
Proof.
  intro H. unfold decode12, fatal in H.
  destruct (r_hdr r); try (leaf_out H s').
  repeat (break_if; try (leaf_out H s')).
Qed.

Lemma decode13_out s r o s' d : decode13 s r o = (s', AlertOut d) -> err s' = true.
Proof.
  intro H. unfold decode13, fatal in H.
  destruct (r_hdr r); try (leaf_out H s').
  all: repeat (break_if; try (leaf_out H s')).
  all: destruct (r_prot r); try (leaf_out H s').
  all: repeat (break_if; try (leaf_out H s')).
Qed.

Lemma decodeD_body_out s r o s' d : decodeD_body s r o = (s', AlertOut d) -> err s' = true.
Proof.
  intro H. unfold decodeD_body, fatal in H.
  repeat (break_if; try (leaf_out H s')).
Qed.
Lemma skipD_out s0 n ol t s' d : skipD s0 n ol t = (s', AlertOut d) -> err s' = true.
Proof. unfold skipD, fatal. intro H. repeat (break_if; try (leaf_out H s')). Qed.

Lemma decodeD_out s r o s' d : decodeD s r o = (s', AlertOut d) -> err s' = true.
Proof.
  intro H. unfold decodeD, fatal in H.
  destruct (r_hdr r); try (leaf_out H s').
  repeat (break_if; try (leaf_out H s')).
  all: try (destruct (r_replay r); try (leaf_out H s')).
  all: first [ eapply decodeD_body_out; eassumption | eapply skipD_out; eassumption ].
Qed.

Theorem fatal_out_flags : forall s r o s' d, decode s r o = (s', AlertOut d) -> err s' = true.
Proof.
  intros s r o s' d H. unfold decode in H.
  destruct (err s || closed s); [discriminate|].
  destruct (dtls s); [eapply decodeD_out; eassumption|].
  destruct (v13 s); [destruct (is_fallback o)|]; first [eapply decode13_out; eassumption | eapply decode12_out; eassumption].
Qed.

Definition in12 (s' : st) (lvl d : Z) : Prop :=
  (d = c_SSL_ALERT_CLOSE_NOTIFY -> closed s' = true) /\
  (d <> c_SSL_ALERT_CLOSE_NOTIFY -> lvl = c_SSL_ALERT_LEVEL_FATAL -> err s' = true).
Definition in13 (s' : st) (d : Z) : Prop :=
  (d = c_SSL_ALERT_CLOSE_NOTIFY -> closed s' = true) /\ (d <> c_SSL_ALERT_CLOSE_NOTIFY -> err s' = true).

Lemma recv_alert12_in s0 l0 d0 s' lvl d : recv_alert12 s0 l0 d0 = (s', AlertIn lvl d) -> in12 s' lvl d.
Proof.
  unfold recv_alert12, in12. intro H0. injection H0 as H0 Hl Hd. subst lvl d. split.
  - intro Hc. rewrite Hc in H0. rewrite Z.eqb_refl in H0. subst s'. reflexivity.
  - intros Hn Hf. rewrite Hf in H0. rewrite Z.eqb_refl in H0.
    destruct (Z.eqb d0 c_SSL_ALERT_CLOSE_NOTIFY); subst s'; reflexivity.
Qed.
Lemma recv_alert13_in s0 l0 d0 s' lvl d : recv_alert13 s0 l0 d0 = (s', AlertIn lvl d) -> in13 s' d.
Proof.
  unfold recv_alert13, in13. intro H0. injection H0 as H0 Hl Hd. subst lvl d. split.
  - intro Hc. rewrite Hc in H0. rewrite Z.eqb_refl in H0. subst s'. reflexivity.
  - intro Hn. apply Z.eqb_neq in Hn. rewrite Hn in H0. subst s'. reflexivity.
Qed.
Lemma apply_hs_not_in s o s' l d : apply_hs s o <> (s', AlertIn l d).
Proof. destruct o; cbn; unfold fatal; congruence. Qed.
Lemma apply_hsD_not_in s o s' l d : apply_hsD s o <> (s', AlertIn l d).
Proof. destruct o; cbn; unfold fatal; congruence. Qed.

Ltac leaf_in H :=
  first [ discriminate H
        | (eapply recv_alert12_in; eassumption)
        | (eapply recv_alert13_in; eassumption)
        | (exfalso; eapply apply_hs_not_in; eassumption)
        | (exfalso; eapply apply_hsD_not_in; eassumption) ].

Lemma decode12_in s r o s' lvl d : decode12 s r o = (s', AlertIn lvl d) -> in12 s' lvl d.
Proof.
  intro H. unfold decode12, fatal in H.
  destruct (r_hdr r); try (leaf_in H).
  repeat (break_if; try (leaf_in H)).
Qed.
Lemma decode13_in s r o s' lvl d : decode13 s r o = (s', AlertIn lvl d) -> in13 s' d.
Proof.
  intro H. unfold decode13, fatal in H.
  destruct (r_hdr r); try (leaf_in H).
  all: repeat (break_if; try (leaf_in H)).
  all: destruct (r_prot r); try (leaf_in H).
  all: repeat (break_if; try (leaf_in H)).
Qed.
Lemma decodeD_body_in s r o s' lvl d : decodeD_body s r o = (s', AlertIn lvl d) -> in12 s' lvl d.
Proof.
  intro H. unfold decodeD_body, fatal in H.
  repeat (break_if; try (leaf_in H)).
Qed.
Lemma skipD_not_in s0 n ol t s' l d : skipD s0 n ol t <> (s', AlertIn l d).
Proof. unfold skipD, fatal. repeat break_if; congruence. Qed.
Lemma decodeD_in s r o s' lvl d : decodeD s r o = (s', AlertIn lvl d) -> in12 s' lvl d.
Proof.
  intro H. unfold decodeD, fatal in H.
  destruct (r_hdr r); try (leaf_in H).
  repeat (break_if; try (leaf_in H)).
  all: try (destruct (r_replay r); try (leaf_in H)).
  all: first [ eapply decodeD_body_in; eassumption | exfalso; eapply skipD_not_in; eassumption ].
Qed.

Theorem alert_in_flags : forall s r o s' lvl d, decode s r o = (s', AlertIn lvl d) ->
  (d = c_SSL_ALERT_CLOSE_NOTIFY -> closed s' = true) /\
  (d <> c_SSL_ALERT_CLOSE_NOTIFY -> (dtls s = false /\ v13 s = true /\ is_fallback o = false) \/ lvl = c_SSL_ALERT_LEVEL_FATAL -> err s' = true).
Proof.
  intros s r o s' lvl d H. unfold decode in H.
  destruct (err s || closed s); [discriminate|].
  destruct (dtls s) eqn:Ed.
  { apply decodeD_in in H. destruct H as [H1 H2]. split; [assumption|].
    intros Hn [[Hx _]|Hf]; [discriminate|auto]. }
  destruct (v13 s) eqn:Ev.
  - destruct (is_fallback o) eqn:Ef.
    + apply decode12_in in H. destruct H as [H1 H2]. split; [assumption|].
      intros Hn [[_ [_ Hx]]|Hf]; [congruence|auto].
    + apply decode13_in in H. destruct H as [H1 H2]. split; [assumption|]. intros Hn _. auto.
  - apply decode12_in in H. destruct H as [H1 H2]. split; [assumption|].
    intros Hn [[_ [Hx _]]|Hf]; [discriminate|auto].
Qed.

(* err / closed are never cleared, whatever the handshake layer answers *)
Lemma apply_hs_mono s o : (err s = true -> err (fst (apply_hs s o)) = true) /\ (closed s = true -> closed (fst (apply_hs s o)) = true).
Proof. destruct o; cbn; auto. Qed.

Theorem flags_monotone : forall s r o,
  (err s = true -> err (fst (decode s r o)) = true) /\ (closed s = true -> closed (fst (decode s r o)) = true).
Proof.
  intros s r o. unfold decode. destruct (err s || closed s) eqn:E; [cbn; auto|].
  apply orb_false_elim in E. destruct E as [E1 E2]. split; intro H; congruence.
Qed.

(* the only undecryptable records that do not kill a TLS 1.3 session are early data a server is skipping, within the limit *)
Theorem undecryptable_tolerated_only_early_data : forall s r o s' out,
  dtls s = false -> v13 s = true -> is_fallback o = false -> rsec s = true -> is_good r = false ->
  r_hdr r <> HdrTrunc ->
  r_outer r <> c_SSL_RECORD_TYPE_CHANGE_CIPHER_SPEC ->
  (r_outer r = c_SSL_RECORD_TYPE_ALERT -> r_short_alert r = false) ->
  decode s r o = (s', out) ->
  out = Refuse \/ (exists d, out = AlertOut d /\ err s' = true) \/
  (out = Ignored /\ ed_skip s = true /\ ed_seen s' <= ed_max s /\ ed_seen s' = ed_seen s + r_len r).
Proof.
  intros s r o s' out Hd Hv Ho Hr Hg Htr Hccs Hal H. unfold decode in H.
  destruct (err s || closed s); [injection H as _ H; left; auto|]. rewrite Hd, Hv in H.
  rewrite Ho in H. assert (H13 : decode13 s r o = (s', out)) by assumption. clear H.
  unfold decode13, fatal in H13. rewrite Hr in H13. unfold is_good in Hg.
  destruct (r_prot r) eqn:Ep; try discriminate Hg; cbv beta iota zeta in H13.
  all: destruct (r_hdr r); try congruence; try (injection H13 as H1 H2; subst; right; left; eexists; split; reflexivity).
  all: repeat (break_if; try (injection H13 as H1 H2; subst; right; left; eexists; split; reflexivity)).
  all: zb; try contradiction; try (specialize (Hal ltac:(assumption)); congruence).
  all: try (injection H13; intros; subst; right; right; cbn; repeat split; auto; apply Z.leb_le; assumption).
Qed.

(* ------------------------------------------------------------------ C15, DTLS
   DTLS legitimately drops records without treating them as an error: records of another epoch and sequence numbers the replay
   window has seen (RFC 6347 4.1.2.1 / 4.1.2.6).  Reading of C15 used here: a silently discarded record is not "an error the
   session hit" - the session neither sends nor receives an alert and reports no error - so the session may live on; but
   (1) a discard changes nothing an attacker could profit from (flags, handshake state, write protection, counters), and
   (2) a record that IS taken to decryption and fails kills the session exactly as in TLS: nothing undecryptable is tolerated
       once it has been decrypted. *)
Definition silent (out : outcome) : Prop := out = Ignored \/ out = Resend.

Lemma skipD_state s0 n ol t s' out : skipD s0 n ol t = (s', out) -> silent out -> s' = s0.
Proof.
  unfold skipD, fatal, silent. intros H Hs.
  repeat break_if; injection H as H1 H2; subst; try reflexivity; destruct Hs; discriminate.
Qed.

(* a DTLS record that is not of the expected epoch, or whose sequence number the window has seen, and that is not one of the two
   epoch-adoption cases, never reaches decryption: it is dropped (silently or with a retransmission request), or - a later epoch
   at a server still expecting ClientHello - answered with a fatal alert; a drop changes nothing but the expected epoch *)
Theorem dtls_not_accepted_dropped : forall s r o s' out,
  r_hdr r = HdrOk -> ~ dtls_accepts s r -> decodeD s r o = (s', out) ->
  (exists d, out = AlertOut d /\ err s' = true) \/
  (silent out /\ err s' = err s /\ closed s' = closed s /\ hs s' = hs s /\ rsec s' = rsec s /\ wsec s' = wsec s /\
   pccs s' = pccs s /\ adx s' = adx s /\ ignored s' = ignored s /\ (xepoch s' = xepoch s \/ xepoch s' = r_epoch r)).
Proof.
  intros s r o s' out Hh Hna H. unfold decodeD in H. rewrite Hh in H.
  assert (S : forall s0, (s0 = s \/ s0 = set_xepoch s (r_epoch r)) -> skipD s0 (Z.ltb (xepoch s) (r_epoch r)) (Z.ltb (r_epoch r) (xepoch s)) (r_outer r) = (s', out) ->
     (exists d, out = AlertOut d /\ err s' = true) \/
     (silent out /\ err s' = err s /\ closed s' = closed s /\ hs s' = hs s /\ rsec s' = rsec s /\ wsec s' = wsec s /\
      pccs s' = pccs s /\ adx s' = adx s /\ ignored s' = ignored s /\ (xepoch s' = xepoch s \/ xepoch s' = r_epoch r))).
  { intros s0 Hs0 Hk. destruct out; try (exfalso; revert Hk; unfold skipD, fatal; repeat break_if; congruence).
    - left. eexists. split; [reflexivity|]. eapply skipD_out; eassumption.
    - right. apply skipD_state in Hk; [|left; reflexivity]. subst s'. split; [left; reflexivity|].
      destruct Hs0; subst s0; cbn; repeat split; auto.
    - right. apply skipD_state in Hk; [|right; reflexivity]. subst s'. split; [right; reflexivity|].
      destruct Hs0; subst s0; cbn; repeat split; auto. }
  destruct (Z.eqb (r_epoch r) (xepoch s)) eqn:Ee.
  - apply Z.eqb_eq in Ee. destruct (r_replay r) eqn:Er.
    + exfalso. apply Hna. left. auto.
    + injection H as H1 H2. subst. right. split; [left; reflexivity|]. repeat split; auto.
  - destruct (Z.ltb (xepoch s) (r_epoch r)) eqn:En; cbn [andb] in H.
    + apply Z.ltb_lt in En.
      destruct (Z.eqb (r_outer r) c_SSL_RECORD_TYPE_HANDSHAKE && Z.eqb (hs s) c_SSL_HS_FINISHED) eqn:E1.
      * apply andb_prop in E1. destruct E1 as [E1a E1b]. apply Z.eqb_eq in E1a. apply Z.eqb_eq in E1b.
        destruct (pccs s) eqn:Ep; cbn [negb] in H.
        -- exfalso. apply Hna. right. split; [assumption|]. right. auto.
        -- injection H as H1 H2. subst. right. split; [left; reflexivity|]. repeat split; auto.
      * destruct (Z.eqb (r_outer r) c_SSL_RECORD_TYPE_APPLICATION_DATA && Z.eqb (hs s) c_SSL_HS_DONE) eqn:E2.
        -- apply andb_prop in E2. destruct E2 as [E2a E2b]. apply Z.eqb_eq in E2a. apply Z.eqb_eq in E2b.
           exfalso. apply Hna. right. split; [assumption|]. left. auto.
        -- destruct (Z.eqb (r_outer r) c_SSL_RECORD_TYPE_HANDSHAKE && Z.eqb (hs s) c_SSL_HS_DONE).
           ++ eapply S; [right; reflexivity|eassumption].
           ++ eapply S; [left; reflexivity|eassumption].
    + eapply S; [left; reflexivity|eassumption].
Qed.

(* a DTLS record that reaches decryption on a session with read protection and does not verify is fatal: MatrixSSL does not use
   RFC 6347 4.1.2.7's permission to discard it *)
Lemma decodeD_body_bad s r o s' out :
  rsec s = true -> is_good r = false -> decodeD_body s r o = (s', out) -> exists d, out = AlertOut d /\ err s' = true.
Proof.
  intros Hr Hg H. unfold decodeD_body, fatal in H. unfold is_good in Hg. rewrite Hr, Hg in H. cbn in H.
  injection H as H1 H2. subst. eexists. split; reflexivity.
Qed.

Theorem dtls_undecryptable_kills : forall s r o s' out,
  rsec s = true -> is_good r = false -> r_hdr r = HdrOk -> dtls_accepts s r ->
  decodeD s r o = (s', out) -> exists d, out = AlertOut d /\ err s' = true.
Proof.
  intros s r o s' out Hr Hg Hh Ha H. unfold decodeD in H. rewrite Hh in H.
  destruct Ha as [[He Hf]|[Hlt Hc]].
  - rewrite He, Z.eqb_refl, Hf in H. eapply decodeD_body_bad; eassumption.
  - assert (Ene : Z.eqb (r_epoch r) (xepoch s) = false) by (apply Z.eqb_neq; intro; rewrite H0 in Hlt; apply Z.lt_irrefl in Hlt; exact Hlt).
    rewrite Ene in H. apply Z.ltb_lt in Hlt. rewrite Hlt in H. cbn [andb] in H.
    destruct Hc as [[Ht Hs]|[Ht [Hs Hp]]].
    + rewrite Ht, Hs in H.
      replace (Z.eqb c_SSL_RECORD_TYPE_APPLICATION_DATA c_SSL_RECORD_TYPE_HANDSHAKE) with false in H by reflexivity.
      cbn [andb] in H. rewrite !Z.eqb_refl in H. cbn [andb] in H.
      eapply (decodeD_body_bad (set_xepoch s (r_epoch r))); try eassumption.
    + rewrite Ht, Hs, Hp in H. rewrite !Z.eqb_refl in H. cbn [andb negb] in H.
      eapply (decodeD_body_bad (set_xepoch s (r_epoch r))); try eassumption.
Qed.

(* every outcome of the DTLS decoder that is not a fatal alert / a received alert leaves the flags alone; with the two theorems
   above: a DTLS session is flagged exactly when it sent a fatal alert or received a fatal alert / close_notify *)
Theorem dtls_flags_only_by_alerts : forall s r o s' out,
  decodeD s r o = (s', out) ->
  match out with
  | AlertOut _ => err s' = true
  | AlertIn _ _ => True
  | _ => err s' = err s /\ closed s' = closed s
  end.
Proof.
  intros s r o s' out H. destruct out; try exact I.
  - exfalso. revert H. unfold decodeD, decodeD_body, skipD, apply_hsD, recv_alert12, fatal.
    destruct (r_hdr r); try congruence. repeat break_if; try congruence; destruct (r_replay r); try congruence; destruct o; repeat break_if; congruence.
  - revert H. unfold decodeD, decodeD_body, skipD, apply_hsD, recv_alert12, fatal.
    destruct (r_hdr r); try congruence. repeat break_if; try congruence; try (destruct (r_replay r)); try congruence; try (destruct o); repeat break_if; try congruence;
      intro H; injection H as H; subst s'; split; reflexivity.
  - eapply decodeD_out; eassumption.
  - revert H. unfold decodeD, decodeD_body, skipD, apply_hsD, recv_alert12, fatal.
    destruct (r_hdr r); try congruence. repeat break_if; try congruence; try (destruct (r_replay r)); try congruence; try (destruct o); repeat break_if; try congruence;
      intro H; injection H as H; subst s'; split; reflexivity.
  - revert H. unfold decodeD, decodeD_body, skipD, apply_hsD, recv_alert12, fatal.
    destruct (r_hdr r); try congruence. repeat break_if; try congruence; try (destruct (r_replay r)); try congruence; try (destruct o); repeat break_if; try congruence;
      intro H; injection H as H; subst s'; split; reflexivity.
  - revert H. unfold decodeD, decodeD_body, skipD, apply_hsD, recv_alert12, fatal.
    destruct (r_hdr r); try congruence. repeat break_if; try congruence; try (destruct (r_replay r)); try congruence; try (destruct o); repeat break_if; try congruence;
      intro H; injection H as H; subst s'; split; reflexivity.
Qed.

(* matrixDtlsGetOutdata: a flagged session never has its last flight encoded again (C15 repair in dtls.c) *)
Theorem dtls_getout_dead : forall s pending fd resumed cauth,
  err s || closed s = true -> dtls_getout s pending fd resumed cauth <> GoResend.
Proof.
  intros s p fd rs ca H. unfold dtls_getout. rewrite H.
  destruct p; [discriminate|]. destruct (adx s); [discriminate|]. destruct fd; discriminate.
Qed.
(* and on a live session the flight is rebuilt only when nothing is pending, no application data has been received, the previous
   flight has been handed out completely and the state is a flight boundary *)
Theorem dtls_getout_resend : forall s pending fd resumed cauth,
  dtls_getout s pending fd resumed cauth = GoResend ->
  pending = false /\ adx s = false /\ fd = false /\ err s = false /\ closed s = false /\ can_resend s resumed cauth = true.
Proof.
  intros s p fd rs ca. unfold dtls_getout.
  destruct p; [discriminate|]. destruct (adx s); [discriminate|]. destruct fd; [discriminate|].
  destruct (err s || closed s) eqn:E; [discriminate|]. apply orb_false_elim in E. destruct E.
  destruct (can_resend s rs ca); [|discriminate]. intros _. repeat split; auto.
Qed.

(* ------------------------------------------------------------------ non-vacuity *)
Definition st0 (is13 srv : bool) (h : Z) (r : bool) : st :=
  {| v13 := is13; server := srv; hs := h; rsec := r; wsec := r; err := false; closed := false; ed_skip := false;
     ed_seen := 0; ed_max := 0; limbo := false; ignored := 0; cl_early := false; sv_early := false; ccs_last := false; nst_pending := false;
     dtls := false; xepoch := 0; pccs := false; adx := false |}.
Definition stD (srv : bool) (h : Z) (r : bool) (e : Z) : st :=
  {| v13 := false; server := srv; hs := h; rsec := r; wsec := r; err := false; closed := false; ed_skip := false;
     ed_seen := 0; ed_max := 0; limbo := false; ignored := 0; cl_early := false; sv_early := false; ccs_last := false; nst_pending := false;
     dtls := true; xepoch := e; pccs := r; adx := false |}.
Definition rec_app (p : prot) (inner : Z) : rec :=
  {| r_hdr := HdrOk; r_outer := c_SSL_RECORD_TYPE_APPLICATION_DATA; r_short_alert := false; r_prot := p; r_inner := inner;
     r_ccs_ok := true; r_alert_ok := true; r_alert_level := 0; r_alert_desc := 0; r_overflow := false; r_empty := false; r_len := 5; r_decfail := false;
     r_epoch := 0; r_replay := Fresh |}.
Definition rec_appD (p : prot) (e : Z) (w : replay) : rec :=
  {| r_hdr := HdrOk; r_outer := c_SSL_RECORD_TYPE_APPLICATION_DATA; r_short_alert := false; r_prot := p; r_inner := 0;
     r_ccs_ok := true; r_alert_ok := true; r_alert_level := 0; r_alert_desc := 0; r_overflow := false; r_empty := false; r_len := 5; r_decfail := false;
     r_epoch := e; r_replay := w |}.
Definition no_hs := HsFatal 0.
Example ex_deliver_done13 : snd (decode (st0 true false c_SSL_HS_DONE true) (rec_app Good c_SSL_RECORD_TYPE_APPLICATION_DATA) no_hs) = Deliver.
Proof. vm_compute. reflexivity. Qed.
Example ex_plain_before_sh13 :
  snd (decode (st0 true false c_SSL_HS_TLS_1_3_WAIT_SH false) (rec_app Plain 0) no_hs) = AlertOut c_SSL_ALERT_UNEXPECTED_MESSAGE.
Proof. vm_compute. reflexivity. Qed.
Example ex_deliver_done12 : snd (decode (st0 false true c_SSL_HS_DONE true) (rec_app Good 0) no_hs) = Deliver.
Proof. vm_compute. reflexivity. Qed.
Example ex_bad_mac_kills12 :
  let '(s1, o1) := decode (st0 false true c_SSL_HS_DONE true) (rec_app Bad 0) no_hs in
  o1 = AlertOut c_SSL_ALERT_BAD_RECORD_MAC /\ snd (decode s1 (rec_app Good 0) no_hs) = Refuse.
Proof. vm_compute. split; reflexivity. Qed.
(* DTLS: a genuine record is delivered once; its copy is dropped silently and the session lives on; a forged record of the
   expected epoch with a fresh sequence number kills the session; a plaintext record of epoch 0 is dropped with a retransmission
   request; data of a later epoch is taken (and its epoch adopted) *)
Example ex_dtls_deliver_once :
  let s0 := stD true c_SSL_HS_DONE true 1 in
  let '(s1, o1) := decode s0 (rec_appD Good 1 Fresh) no_hs in
  let '(s2, o2) := decode s1 (rec_appD Good 1 Dup) no_hs in
  let '(s3, o3) := decode s2 (rec_appD Plain 0 Fresh) no_hs in
  let '(s4, o4) := decode s3 (rec_appD Good 2 Fresh) no_hs in
  let '(s5, o5) := decode s4 (rec_appD Bad 2 Fresh) no_hs in
  o1 = Deliver /\ adx s1 = true /\ o2 = Ignored /\ s2 = s1 /\ o3 = Resend /\ s3 = s2 /\ o4 = Deliver /\ xepoch s4 = 2 /\
  o5 = AlertOut c_SSL_ALERT_BAD_RECORD_MAC /\ snd (decode s5 (rec_appD Good 2 Fresh) no_hs) = Refuse.
Proof. vm_compute. repeat split; reflexivity. Qed.
Example ex_dtls_attacker_input : attacker_input (stD true c_SSL_HS_DONE true 1) (rec_appD Good 1 Dup, no_hs).
Proof. right. repeat split; reflexivity. Qed.
Example ex_dtls_getout :
  dtls_getout (stD false c_SSL_HS_SERVER_HELLO false 0) false false false false = GoResend /\
  dtls_getout (set_err (stD false c_SSL_HS_FINISHED false 0)) false false false false = GoRefused.
Proof. vm_compute. split; reflexivity. Qed.
