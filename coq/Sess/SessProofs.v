From MV Require Import Sess.SessModel.
Local Open Scope Z_scope.

(* ------------------------------------------------------------------ small facts about setters *)
Lemma set_err_flags s : err (set_err s) = true /\ closed (set_err s) = closed s /\ rsec (set_err s) = rsec s.
Proof. repeat split. Qed.

Ltac break_if :=
  match goal with
  | H : context [if ?b then _ else _] |- _ => let E := fresh "E" in destruct b eqn:E
  | |- context [if ?b then _ else _] => let E := fresh "E" in destruct b eqn:E
  end.
Ltac break_match :=
  match goal with
  | H : context [match ?x with _ => _ end] |- _ => let E := fresh "E" in destruct x eqn:E
  end.

Definition is_good (r : rec) : bool := match r_prot r with Good => true | _ => false end.

(* the state of the receiver admits application data *)
Definition deliver_state (s : st) : Prop := app_gate12 s = true \/ app_gate13 s = true.

Lemma apply_hs_not_deliver s o s' : apply_hs s o <> (s', Deliver).
Proof. destruct o; cbn; unfold fatal; congruence. Qed.

Lemma recv_alert13_not_deliver s l d s' : recv_alert13 s l d <> (s', Deliver).
Proof. unfold recv_alert13. congruence. Qed.
Lemma recv_alert12_not_deliver s l d s' : recv_alert12 s l d <> (s', Deliver).
Proof. unfold recv_alert12. congruence. Qed.

Ltac kill_nd :=
  try discriminate;
  try (exfalso; eapply apply_hs_not_deliver; eassumption);
  try (exfalso; eapply recv_alert13_not_deliver; eassumption);
  try (exfalso; eapply recv_alert12_not_deliver; eassumption).

Lemma decode12_deliver s r o s' :
  decode12 s r o = (s', Deliver) -> app_gate12 s = true /\ (rsec s = true -> is_good r = true).
Proof.
  unfold decode12, fatal, is_good. intro H.
  destruct (r_hdr r); kill_nd.
  repeat (break_if; kill_nd); repeat break_match; kill_nd;
    try (apply negb_false_iff in E5); try (split; [assumption|]); try (intros; congruence);
    try (split; [apply negb_false_iff; assumption | intros; try congruence]).
  all: try (apply andb_false_iff in E; destruct E as [E|E]; [congruence|apply negb_false_iff in E; destruct (r_prot r); congruence]).
Qed.

Lemma app_gate12_rsec s : app_gate12 s = true -> rsec s = true.
Proof. unfold app_gate12. intro H. apply andb_prop in H. apply H. Qed.
Lemma app_gate13_rsec s : app_gate13 s = true -> rsec s = true.
Proof. unfold app_gate13. intro H. apply andb_prop in H. apply H. Qed.

Lemma decode13_deliver s r o s' :
  decode13 s r o = (s', Deliver) -> app_gate13 s = true /\ is_good r = true.
Proof.
  unfold decode13, fatal, is_good. intro H.
  destruct (r_hdr r); kill_nd;
  repeat (break_if; kill_nd); repeat break_match; kill_nd;
  repeat (break_if; kill_nd);
  match goal with
  | Hn : negb (app_gate13 s) = false |- _ => apply negb_false_iff in Hn
  end;
  try (split; [assumption|reflexivity]);
  try (pose proof (app_gate13_rsec _ ltac:(eassumption)); congruence).
Qed.

(* ------------------------------------------------------------------ C01, one step *)
Lemma decode_deliver s r o s' :
  decode s r o = (s', Deliver) ->
  err s = false /\ closed s = false /\ rsec s = true /\ is_good r = true /\ deliver_state s.
Proof.
  unfold decode. intro H.
  destruct (err s || closed s) eqn:Eg; [discriminate|].
  apply orb_false_elim in Eg. destruct Eg as [Ee Ec].
  assert (D12 : forall s', decode12 s r o = (s', Deliver) ->
            err s = false /\ closed s = false /\ rsec s = true /\ is_good r = true /\ deliver_state s).
  { intros s0 H0. apply decode12_deliver in H0. destruct H0 as [Hg Hp].
    pose proof (app_gate12_rsec _ Hg) as Hr. repeat split; auto. left. assumption. }
  destruct (v13 s).
  - destruct (is_fallback o).
    + assert (D12' : forall o' s', decode12 s r o' = (s', Deliver) ->
            err s = false /\ closed s = false /\ rsec s = true /\ is_good r = true /\ deliver_state s).
      { intros o' s0 H0. apply decode12_deliver in H0. destruct H0 as [Hg Hp].
        pose proof (app_gate12_rsec _ Hg) as Hr. repeat split; auto. left. assumption. }
      eapply D12'; eassumption.
    + apply decode13_deliver in H; destruct H as [Hg Hp];
       pose proof (app_gate13_rsec _ Hg) as Hr; repeat split; auto; right; assumption.
  - apply D12 in H. assumption.
Qed.

(* pre-states of a run *)
Fixpoint pre_states (s : st) (is : list input) : list st :=
  match is with
  | [] => []
  | (r, o) :: rest => s :: pre_states (fst (decode s r o)) rest
  end.

Lemma run_cons s r o rest :
  run s ((r, o) :: rest) =
    (fst (run (fst (decode s r o)) rest), snd (decode s r o) :: snd (run (fst (decode s r o)) rest)).
Proof.
  cbn [run]. destruct (decode s r o) as [s1 out]. cbn [fst snd].
  destruct (run s1 rest) as [s2 outs]. reflexivity.
Qed.

Theorem run_deliver_gate : forall is s k,
  nth_error (snd (run s is)) k = Some Deliver ->
  exists sk r o, nth_error (pre_states s is) k = Some sk /\ nth_error is k = Some (r, o) /\
                 err sk = false /\ closed sk = false /\ rsec sk = true /\ is_good r = true /\ deliver_state sk.
Proof.
  induction is as [|[r o] rest IH]; intros s k H.
  - destruct k; discriminate.
  - rewrite run_cons in H. cbn [snd] in H. destruct k as [|k].
    + cbn [nth_error] in H. injection H as H.
      exists s, r, o. cbn [pre_states nth_error]. split; [reflexivity|]. split; [reflexivity|].
      apply (decode_deliver s r o (fst (decode s r o))). destruct (decode s r o); cbn in *; congruence.
    + cbn [nth_error] in H. apply IH in H. destruct H as [sk [r0 [o0 H]]].
      exists sk, r0, o0. cbn [pre_states nth_error]. exact H.
Qed.

Theorem attacker_never_delivers : forall is s,
  Forall (fun i => is_good (fst i) = false) is -> ~ In Deliver (snd (run s is)).
Proof.
  intros is s Hf Hin. apply In_nth_error in Hin. destruct Hin as [k Hk].
  apply run_deliver_gate in Hk. destruct Hk as [sk [r [o [_ [Hi [_ [_ [_ [Hg _]]]]]]]]].
  apply nth_error_In in Hi. rewrite Forall_forall in Hf. apply Hf in Hi. cbn in Hi. congruence.
Qed.

Theorem encode_gate : forall s, encode_app_ok s = true ->
  err s = false /\ closed s = false /\ (hs s = c_SSL_HS_DONE \/ (v13 s = true /\ (cl_early s = true \/ sv_early s = true))).
Proof.
  intros s H. unfold encode_app_ok in H. destruct (v13 s).
  - apply andb_prop in H. destruct H as [H12 H3]. apply andb_prop in H12. destruct H12 as [H1 H2].
    apply negb_true_iff in H1. apply negb_true_iff in H2. repeat split; auto.
    apply orb_prop in H3. destruct H3 as [H3|H3].
    + apply orb_prop in H3. destruct H3 as [H3|H3]; [left; apply Z.eqb_eq; assumption|right; auto].
    + right; auto.
  - apply andb_prop in H. destruct H as [H12 H3]. apply andb_prop in H12. destruct H12 as [H1 H2].
    apply negb_true_iff in H1. apply negb_true_iff in H2. repeat split; auto. left. apply Z.eqb_eq. assumption.
Qed.

(* read protection is switched on only by a ChangeCipherSpec in the FINISHED state (or the
   ticket-in-limbo shortcut) or by the handshake layer itself *)
Ltac zb := repeat match goal with
  | H : Z.eqb _ _ = true |- _ => apply Z.eqb_eq in H
  | H : andb _ _ = true |- _ => apply andb_prop in H; destruct H
  | H : negb _ = true |- _ => apply negb_true_iff in H
  | H : negb _ = false |- _ => apply negb_false_iff in H
  end.

Lemma apply_hs_rsec s o s' out : apply_hs s o = (s', out) -> rsec s = false -> rsec s' = true ->
  exists h w v resp, o = HsOk h true w v resp.
Proof.
  destruct o; cbn; unfold fatal; intros H Hr Hr'; injection H as H _; subst s'; cbn in Hr'; try congruence.
  subst. eauto.
Qed.
Lemma recv_alert12_rsec s l d s' out : recv_alert12 s l d = (s', out) -> rsec s' = rsec s.
Proof. unfold recv_alert12. intro H. injection H as H _. subst s'. destruct (Z.eqb l c_SSL_ALERT_LEVEL_FATAL), (Z.eqb d c_SSL_ALERT_CLOSE_NOTIFY); reflexivity. Qed.
Lemma recv_alert13_rsec s l d s' out : recv_alert13 s l d = (s', out) -> rsec s' = rsec s.
Proof. unfold recv_alert13. intro H. injection H as H _. subst s'. destruct (Z.eqb d c_SSL_ALERT_CLOSE_NOTIFY); reflexivity. Qed.

Definition ccs_cause (s : st) (r : rec) : Prop :=
  r_outer r = c_SSL_RECORD_TYPE_CHANGE_CIPHER_SPEC
  /\ (hs s = c_SSL_HS_FINISHED \/ (hs s = c_SSL_HS_CERTIFICATE /\ limbo s = true /\ server s = false)).

Lemma decode12_rsec s r o s' out : decode12 s r o = (s', out) -> rsec s = false -> rsec s' = true ->
  ccs_cause s r \/ exists h w v resp, o = HsOk h true w v resp.
Proof.
  intros H Hr Hr'. unfold decode12, fatal in H.
  destruct (r_hdr r); try (injection H as H _; subst s'; cbn in Hr'; congruence).
  repeat (break_if; try (injection H as H _; subst s'; cbn in Hr'; try congruence)).
  all: try (right; eapply apply_hs_rsec; eassumption).
  all: try (erewrite recv_alert12_rsec in Hr' by eassumption; congruence).
  all: try (cbn in Hr'; congruence).
  all: zb; left; unfold ccs_cause; auto.
Qed.

Lemma decode13_rsec s r o s' out : decode13 s r o = (s', out) -> rsec s = false -> rsec s' = true ->
  exists h w v resp, o = HsOk h true w v resp.
Proof.
  intros H Hr Hr'. unfold decode13, fatal in H. rewrite Hr in H.
  destruct (r_hdr r); try (injection H as H _; subst s'; cbn in Hr'; congruence).
  all: repeat (break_if; try (injection H as H _; subst s'; cbn in Hr'; try congruence)).
  all: try (eapply apply_hs_rsec; eassumption).
  all: try (erewrite recv_alert13_rsec in Hr' by eassumption; congruence).
  all: try (cbn in Hr'; congruence).
Qed.

Theorem rsec_origin : forall s r o s' out,
  decode s r o = (s', out) -> rsec s = false -> rsec s' = true ->
  ((v13 s = false \/ is_fallback o = true) /\ ccs_cause s r) \/ exists h w v resp, legacy_answer o = HsOk h true w v resp.
Proof.
  intros s r o s' out H Hr Hr'. unfold decode in H.
  destruct (err s || closed s); [injection H as H _; subst s'; congruence|].
  destruct (v13 s) eqn:Ev.
  - destruct (is_fallback o) eqn:Ef.
    + eapply decode12_rsec in H; try assumption. destruct H as [H|H]; [left; split; [right; reflexivity|assumption]|right; assumption].
    + right. replace (legacy_answer o) with o by (destruct o; try reflexivity; discriminate Ef).
      eapply decode13_rsec; eassumption.
  - eapply decode12_rsec in H; try assumption. destruct H as [H|H]; [left; split; [left; reflexivity|assumption]|].
    right. destruct H as [h [w [v [resp H]]]]. rewrite H. cbn. eauto.
Qed.

(* ------------------------------------------------------------------ C15 *)
Lemma decode_dead s r o : err s || closed s = true -> decode s r o = (s, Refuse).
Proof. intro H. unfold decode. rewrite H. reflexivity. Qed.

Theorem dead_stays_dead : forall is s, err s || closed s = true ->
  run s is = (s, repeat Refuse (length is)).
Proof.
  induction is as [|[r o] rest IH]; intros s H; [reflexivity|].
  cbn [run]. rewrite (decode_dead s r o H). rewrite (IH s H). reflexivity.
Qed.

Theorem dead_no_deliver_no_seal : forall is s, err s || closed s = true ->
  ~ In Deliver (snd (run s is)) /\ encode_app_ok (fst (run s is)) = false.
Proof.
  intros is s H. rewrite (dead_stays_dead is s H). cbn [fst snd]. split.
  - intro Hin. apply repeat_spec in Hin. discriminate.
  - unfold encode_app_ok. apply orb_prop in H.
    destruct (v13 s), H as [H|H]; rewrite H; cbn; try reflexivity; destruct (err s); reflexivity.
Qed.

Lemma apply_hs_alertout s o s' d : apply_hs s o = (s', AlertOut d) -> err s' = true.
Proof. destruct o; cbn; unfold fatal; intro H; try discriminate. injection H as H _. subst s'. reflexivity. Qed.

Lemma recv_alert12_not_out s l d s' x : recv_alert12 s l d <> (s', AlertOut x).
Proof. unfold recv_alert12. congruence. Qed.
Lemma recv_alert13_not_out s l d s' x : recv_alert13 s l d <> (s', AlertOut x).
Proof. unfold recv_alert13. congruence. Qed.

Ltac leaf_out H s' :=
  first [ discriminate H
        | (injection H as H _; subst s'; reflexivity)
        | (eapply apply_hs_alertout; eassumption)
        | (exfalso; eapply recv_alert12_not_out; eassumption)
        | (exfalso; eapply recv_alert13_not_out; eassumption) ].

Lemma decode12_out s r o s' d : decode12 s r o = (s', AlertOut d) -> err s' = true.
Proof.
  intro H. unfold decode12, fatal in H.
  destruct (r_hdr r); try (leaf_out H s').
  repeat (break_if; try (leaf_out H s')).
Qed.

Lemma decode13_out s r o s' d : decode13 s r o = (s', AlertOut d) -> err s' = true.
Proof.
  intro H. unfold decode13, fatal in H.
  destruct (r_hdr r); try (leaf_out H s').
  all: repeat (break_if; try (leaf_out H s')).
  all: destruct (r_prot r); try (leaf_out H s').
  all: repeat (break_if; try (leaf_out H s')).
Qed.

Theorem fatal_out_flags : forall s r o s' d, decode s r o = (s', AlertOut d) -> err s' = true.
Proof.
  intros s r o s' d H. unfold decode in H.
  destruct (err s || closed s); [discriminate|].
  destruct (v13 s); [destruct (is_fallback o)|]; first [eapply decode13_out; eassumption | eapply decode12_out; eassumption].
Qed.

Definition in12 (s' : st) (lvl d : Z) : Prop :=
  (d = c_SSL_ALERT_CLOSE_NOTIFY -> closed s' = true) /\
  (d <> c_SSL_ALERT_CLOSE_NOTIFY -> lvl = c_SSL_ALERT_LEVEL_FATAL -> err s' = true).
Definition in13 (s' : st) (d : Z) : Prop :=
  (d = c_SSL_ALERT_CLOSE_NOTIFY -> closed s' = true) /\ (d <> c_SSL_ALERT_CLOSE_NOTIFY -> err s' = true).

Lemma recv_alert12_in s0 l0 d0 s' lvl d : recv_alert12 s0 l0 d0 = (s', AlertIn lvl d) -> in12 s' lvl d.
Proof.
  unfold recv_alert12, in12. intro H0. injection H0 as H0 Hl Hd. subst lvl d. split.
  - intro Hc. rewrite Hc in H0. rewrite Z.eqb_refl in H0. subst s'. reflexivity.
  - intros Hn Hf. rewrite Hf in H0. rewrite Z.eqb_refl in H0.
    destruct (Z.eqb d0 c_SSL_ALERT_CLOSE_NOTIFY); subst s'; reflexivity.
Qed.
Lemma recv_alert13_in s0 l0 d0 s' lvl d : recv_alert13 s0 l0 d0 = (s', AlertIn lvl d) -> in13 s' d.
Proof.
  unfold recv_alert13, in13. intro H0. injection H0 as H0 Hl Hd. subst lvl d. split.
  - intro Hc. rewrite Hc in H0. rewrite Z.eqb_refl in H0. subst s'. reflexivity.
  - intro Hn. apply Z.eqb_neq in Hn. rewrite Hn in H0. subst s'. reflexivity.
Qed.
Lemma apply_hs_not_in s o s' l d : apply_hs s o <> (s', AlertIn l d).
Proof. destruct o; cbn; unfold fatal; congruence. Qed.

Ltac leaf_in H :=
  first [ discriminate H
        | (eapply recv_alert12_in; eassumption)
        | (eapply recv_alert13_in; eassumption)
        | (exfalso; eapply apply_hs_not_in; eassumption) ].

Lemma decode12_in s r o s' lvl d : decode12 s r o = (s', AlertIn lvl d) -> in12 s' lvl d.
Proof.
  intro H. unfold decode12, fatal in H.
  destruct (r_hdr r); try (leaf_in H).
  repeat (break_if; try (leaf_in H)).
Qed.
Lemma decode13_in s r o s' lvl d : decode13 s r o = (s', AlertIn lvl d) -> in13 s' d.
Proof.
  intro H. unfold decode13, fatal in H.
  destruct (r_hdr r); try (leaf_in H).
  all: repeat (break_if; try (leaf_in H)).
  all: destruct (r_prot r); try (leaf_in H).
  all: repeat (break_if; try (leaf_in H)).
Qed.

Theorem alert_in_flags : forall s r o s' lvl d, decode s r o = (s', AlertIn lvl d) ->
  (d = c_SSL_ALERT_CLOSE_NOTIFY -> closed s' = true) /\
  (d <> c_SSL_ALERT_CLOSE_NOTIFY -> (v13 s = true /\ is_fallback o = false) \/ lvl = c_SSL_ALERT_LEVEL_FATAL -> err s' = true).
Proof.
  intros s r o s' lvl d H. unfold decode in H.
  destruct (err s || closed s); [discriminate|].
  destruct (v13 s) eqn:Ev.
  - destruct (is_fallback o) eqn:Ef.
    + apply decode12_in in H. destruct H as [H1 H2]. split; [assumption|].
      intros Hn [[_ Hx]|Hf]; [congruence|auto].
    + apply decode13_in in H. destruct H as [H1 H2]. split; [assumption|]. intros Hn _. auto.
  - apply decode12_in in H. destruct H as [H1 H2]. split; [assumption|].
    intros Hn [[Hx _]|Hf]; [discriminate|auto].
Qed.

(* err / closed are never cleared, whatever the handshake layer answers *)
Lemma apply_hs_mono s o : (err s = true -> err (fst (apply_hs s o)) = true) /\ (closed s = true -> closed (fst (apply_hs s o)) = true).
Proof. destruct o; cbn; auto. Qed.

Theorem flags_monotone : forall s r o,
  (err s = true -> err (fst (decode s r o)) = true) /\ (closed s = true -> closed (fst (decode s r o)) = true).
Proof.
  intros s r o. unfold decode. destruct (err s || closed s) eqn:E; [cbn; auto|].
  apply orb_false_elim in E. destruct E as [E1 E2]. split; intro H; congruence.
Qed.

(* the only undecryptable records that do not kill a TLS 1.3 session are early data a server is skipping, within the limit *)
Theorem undecryptable_tolerated_only_early_data : forall s r o s' out,
  v13 s = true -> is_fallback o = false -> rsec s = true -> is_good r = false ->
  r_outer r <> c_SSL_RECORD_TYPE_CHANGE_CIPHER_SPEC ->
  (r_outer r = c_SSL_RECORD_TYPE_ALERT -> r_short_alert r = false) ->
  decode s r o = (s', out) ->
  out = Refuse \/ (exists d, out = AlertOut d /\ err s' = true) \/
  (out = Ignored /\ ed_skip s = true /\ ed_seen s' <= ed_max s /\ ed_seen s' = ed_seen s + r_len r).
Proof.
  intros s r o s' out Hv Ho Hr Hg Hccs Hal H. unfold decode in H.
  destruct (err s || closed s); [injection H as _ H; left; auto|]. rewrite Hv in H.
  rewrite Ho in H. assert (H13 : decode13 s r o = (s', out)) by assumption. clear H.
  unfold decode13, fatal in H13. rewrite Hr in H13. unfold is_good in Hg.
  destruct (r_prot r) eqn:Ep; try discriminate Hg; cbv beta iota zeta in H13.
  all: destruct (r_hdr r); try (injection H13 as H1 H2; subst; right; left; eexists; split; reflexivity).
  all: repeat (break_if; try (injection H13 as H1 H2; subst; right; left; eexists; split; reflexivity)).
  all: zb; try contradiction; try (specialize (Hal ltac:(assumption)); congruence).
  all: try (injection H13; intros; subst; right; right; cbn; repeat split; auto; apply Z.leb_le; assumption).
Qed.

(* ------------------------------------------------------------------ non-vacuity *)
Definition st0 (is13 srv : bool) (h : Z) (r : bool) : st :=
  {| v13 := is13; server := srv; hs := h; rsec := r; wsec := r; err := false; closed := false; ed_skip := false;
     ed_seen := 0; ed_max := 0; limbo := false; ignored := 0; cl_early := false; sv_early := false; ccs_last := false; nst_pending := false |}.
Definition rec_app (p : prot) (inner : Z) : rec :=
  {| r_hdr := HdrOk; r_outer := c_SSL_RECORD_TYPE_APPLICATION_DATA; r_short_alert := false; r_prot := p; r_inner := inner;
     r_ccs_ok := true; r_alert_ok := true; r_alert_level := 0; r_alert_desc := 0; r_overflow := false; r_empty := false; r_len := 5; r_decfail := false |}.
Definition no_hs := HsFatal 0.
Example ex_deliver_done13 : snd (decode (st0 true false c_SSL_HS_DONE true) (rec_app Good c_SSL_RECORD_TYPE_APPLICATION_DATA) no_hs) = Deliver.
Proof. vm_compute. reflexivity. Qed.
Example ex_plain_before_sh13 :
  snd (decode (st0 true false c_SSL_HS_TLS_1_3_WAIT_SH false) (rec_app Plain 0) no_hs) = AlertOut c_SSL_ALERT_UNEXPECTED_MESSAGE.
Proof. vm_compute. reflexivity. Qed.
Example ex_deliver_done12 : snd (decode (st0 false true c_SSL_HS_DONE true) (rec_app Good 0) no_hs) = Deliver.
Proof. vm_compute. reflexivity. Qed.
Example ex_bad_mac_kills12 :
  let '(s1, o1) := decode (st0 false true c_SSL_HS_DONE true) (rec_app Bad 0) no_hs in
  o1 = AlertOut c_SSL_ALERT_BAD_RECORD_MAC /\ snd (decode s1 (rec_app Good 0) no_hs) = Refuse.
Proof. vm_compute. split; reflexivity. Qed.
