(* Record-layer session machine shared by C01 (application data only after a completed handshake)
   and C15 (a failed or closed session stays dead).
   C sources followed branch by branch:
     matrixssl/sslDecode.c   matrixSslDecode (entry guard), matrixSslDecodeTls12AndBelow
                              (header validation, decrypt/MAC, switch on rec.type, encodeResponse flagging)
     matrixssl/tls13Decode.c matrixSslDecodeTls13 (CCS skipping, short plaintext alerts, decrypt,
                              early-data skipping, inner type dispatch, encodeResponse), tls13HandleAlert
     matrixssl/sslEncode.c   matrixSslEncode gate;  matrixssl/tls13Encode.c isGoodStateForAppDataEncrypt
     DTLS 1.0 / 1.2 ([decodeD]): the USE_DTLS paths of matrixSslDecodeTls12AndBelow (truncated datagram, epoch comparison,
                              replay window, out-of-order ChangeCipherSpec, DTLS_RETRANSMIT), matrixssl/dtls.c
                              matrixDtlsGetOutdata / canResend ([dtls_getout]), matrixsslApi.c appDataExch
   Handshake-message processing is an oracle ([hsres]) : this file fixes WHEN a handshake handler may
   run and what the record layer does around it, not what the handlers compute (that is C06/C04).
   Keys are symbolic: a record is [Good] iff it verifies under the receiver's current read key and
   sequence number (C02 proves that the byte-level code realises this abstraction). *)
From MV Require Export Base.Bytes Gen.Consts Gen.Defines.
Local Open Scope Z_scope.

Inductive prot := Plain | Good | Bad.
Inductive hdr := HdrOk | HdrBadType | HdrBadVer | HdrBadLen
                | HdrTrunc.   (* the length field exceeds the bytes received: TLS waits for more (SSL_PARTIAL), DTLS refuses the datagram *)
Inductive replay := Fresh | Dup.   (* DTLS: dtlsChkReplayWindow(ssl, rec.rsn) = 1 / otherwise (already seen or left of the window; C16) *)

Record rec := {
  r_hdr : hdr;
  r_outer : Z;            (* record-header content type *)
  r_short_alert : bool;   (* TLS 1.3: outer = alert and rec.len < 2 + 16 *)
  r_prot : prot;
  r_inner : Z;            (* TLS 1.3 inner content type of a Good record; 0 = all-zero plaintext *)
  r_ccs_ok : bool;        (* CCS body is the single byte 01 *)
  r_alert_ok : bool;      (* alert body has at least 2 bytes *)
  r_alert_level : Z;
  r_alert_desc : Z;
  r_overflow : bool;      (* plaintext longer than the maximum fragment *)
  r_empty : bool;         (* zero-length application data *)
  r_len : Z;              (* for the early-data skip budget *)
  r_decfail : bool;       (* <= TLS 1.2, record not Good: the cipher's decrypt call itself fails (AEAD tag, CBC length
                             not a block multiple) rather than the MAC / padding check after it *)
  r_epoch : Z;            (* DTLS: epoch field of the record header *)
  r_replay : replay       (* DTLS: what the replay window answers for the record's sequence number in the receiver's
                             current window (only consulted for records of the expected epoch) *)
}.

Record st := {
  v13 : bool;             (* ACTV_VER(ssl, v_tls_1_3_any) *)
  server : bool;
  hs : Z;                 (* ssl->hsState *)
  rsec : bool;            (* SSL_FLAGS_READ_SECURE *)
  wsec : bool;            (* SSL_FLAGS_WRITE_SECURE *)
  err : bool;             (* SSL_FLAGS_ERROR *)
  closed : bool;          (* SSL_FLAGS_CLOSED *)
  ed_skip : bool;         (* server /\ ~tls13ServerEarlyDataEnabled /\ extFlags.got_early_data *)
  ed_seen : Z;            (* tls13ReceivedEarlyDataLen *)
  ed_max : Z;             (* tls13SessionMaxEarlyData *)
  limbo : bool;           (* sid->sessionTicketState = IN_LIMBO (client sent a ticket) *)
  ignored : Z;            (* ignoredMessageCount *)
  cl_early : bool;        (* tls13ClientEarlyDataEnabled *)
  sv_early : bool;        (* tls13ServerEarlyDataEnabled *)
  ccs_last : bool;        (* ssl->decState = SSL_HS_CCC: the previous record was a ChangeCipherSpec (read off the implementation) *)
  nst_pending : bool;     (* client: sid->sessionTicketState = RECVD_EXT, the server promised a NewSessionTicket not yet received *)
  dtls : bool;            (* ACTV_VER(ssl, v_dtls_any); exclusive with v13 (one active version) *)
  xepoch : Z;             (* DTLS: ssl->expectedEpoch as a number *)
  pccs : bool;            (* DTLS: ssl->parsedCCS *)
  adx : bool              (* DTLS: ssl->appDataExch (application data has been received: no more flight resends) *)
}.

(* what the handshake layer answers when the record layer hands it a handshake record *)
Inductive hsres :=
| HsOk (hs' : Z) (rsec' wsec' v13' : bool) (respond : bool)   (* parsed; new state; a flight is written or not *)
| HsFatal (desc : Z)                                          (* handler set ssl->err *)
| HsFallback (hs' : Z) (rsec' wsec' : bool) (respond : bool)   (* tls13 layer returned SSL_NO_TLS_1_3 (ServerHello selecting
                                                                  <= 1.2): the legacy path re-parses the record, with this result *)
| HsFallbackFatal (desc : Z)
| HsRetransmit.                                               (* DTLS: parseSSLHandshake returned DTLS_RETRANSMIT (a handshake message
                                                                  seen before): nothing changes, the last flight is to be sent again *)

Inductive outcome :=
| Refuse                      (* MATRIXSSL_ERROR / PS_PROTOCOL_FAIL from the entry guard *)
| Deliver                     (* SSL_PROCESS_DATA: plaintext handed to the application *)
| AlertOut (desc : Z)         (* fatal alert encoded towards the peer *)
| AlertIn (level desc : Z)    (* SSL_ALERT: alert received *)
| Ignored                     (* record consumed, nothing happens *)
| Handshake (respond : bool)  (* handshake record(s) consumed *)
| Resend.                     (* DTLS_RETRANSMIT: record consumed, MATRIXSSL_REQUEST_SEND with nothing encoded - the application is asked to
                                 call matrixDtlsGetOutdata, which rebuilds the last flight (sslDecode.c 832, 857, 1572-1587; matrixsslApi.c 1494-1513) *)

Definition set_err (s : st) : st :=
  {| v13 := v13 s; server := server s; hs := hs s; rsec := rsec s; wsec := wsec s; err := true; closed := closed s;
     ed_skip := ed_skip s; ed_seen := ed_seen s; ed_max := ed_max s; limbo := limbo s; ignored := ignored s;
     cl_early := cl_early s; sv_early := sv_early s; ccs_last := ccs_last s; nst_pending := nst_pending s;
     dtls := dtls s; xepoch := xepoch s; pccs := pccs s; adx := adx s |}.
Definition set_closed (s : st) : st :=
  {| v13 := v13 s; server := server s; hs := hs s; rsec := rsec s; wsec := wsec s; err := err s; closed := true;
     ed_skip := ed_skip s; ed_seen := ed_seen s; ed_max := ed_max s; limbo := limbo s; ignored := ignored s;
     cl_early := cl_early s; sv_early := sv_early s; ccs_last := ccs_last s; nst_pending := nst_pending s;
     dtls := dtls s; xepoch := xepoch s; pccs := pccs s; adx := adx s |}.
Definition set_hs (s : st) (h : Z) (r w v : bool) : st :=
  {| v13 := v; server := server s; hs := h; rsec := r; wsec := w; err := err s; closed := closed s;
     ed_skip := ed_skip s; ed_seen := ed_seen s; ed_max := ed_max s; limbo := limbo s; ignored := ignored s;
     cl_early := cl_early s; sv_early := sv_early s; ccs_last := ccs_last s; nst_pending := nst_pending s;
     dtls := dtls s; xepoch := xepoch s; pccs := pccs s; adx := adx s |}.
Definition set_ed_seen (s : st) (n : Z) : st :=
  {| v13 := v13 s; server := server s; hs := hs s; rsec := rsec s; wsec := wsec s; err := err s; closed := closed s;
     ed_skip := ed_skip s; ed_seen := n; ed_max := ed_max s; limbo := limbo s; ignored := ignored s;
     cl_early := cl_early s; sv_early := sv_early s; ccs_last := ccs_last s; nst_pending := nst_pending s;
     dtls := dtls s; xepoch := xepoch s; pccs := pccs s; adx := adx s |}.
Definition set_ignored (s : st) (n : Z) : st :=
  {| v13 := v13 s; server := server s; hs := hs s; rsec := rsec s; wsec := wsec s; err := err s; closed := closed s;
     ed_skip := ed_skip s; ed_seen := ed_seen s; ed_max := ed_max s; limbo := limbo s; ignored := n;
     cl_early := cl_early s; sv_early := sv_early s; ccs_last := ccs_last s; nst_pending := nst_pending s;
     dtls := dtls s; xepoch := xepoch s; pccs := pccs s; adx := adx s |}.
Definition set_xepoch (s : st) (e : Z) : st :=          (* DTLS: expectedEpoch := e *)
  {| v13 := v13 s; server := server s; hs := hs s; rsec := rsec s; wsec := wsec s; err := err s; closed := closed s;
     ed_skip := ed_skip s; ed_seen := ed_seen s; ed_max := ed_max s; limbo := limbo s; ignored := ignored s;
     cl_early := cl_early s; sv_early := sv_early s; ccs_last := ccs_last s; nst_pending := nst_pending s;
     dtls := dtls s; xepoch := e; pccs := pccs s; adx := adx s |}.
Definition set_pccs (s : st) : st :=                      (* DTLS: parsedCCS := 1 *)
  {| v13 := v13 s; server := server s; hs := hs s; rsec := rsec s; wsec := wsec s; err := err s; closed := closed s;
     ed_skip := ed_skip s; ed_seen := ed_seen s; ed_max := ed_max s; limbo := limbo s; ignored := ignored s;
     cl_early := cl_early s; sv_early := sv_early s; ccs_last := ccs_last s; nst_pending := nst_pending s;
     dtls := dtls s; xepoch := xepoch s; pccs := true; adx := adx s |}.
Definition set_adx (s : st) : st :=                       (* DTLS: appDataExch := 1 *)
  {| v13 := v13 s; server := server s; hs := hs s; rsec := rsec s; wsec := wsec s; err := err s; closed := closed s;
     ed_skip := ed_skip s; ed_seen := ed_seen s; ed_max := ed_max s; limbo := limbo s; ignored := ignored s;
     cl_early := cl_early s; sv_early := sv_early s; ccs_last := ccs_last s; nst_pending := nst_pending s;
     dtls := dtls s; xepoch := xepoch s; pccs := pccs s; adx := true |}.
Definition set_limbo_resumed (s : st) : st :=      (* CCS in CERTIFICATE state with a ticket in limbo *)
  {| v13 := v13 s; server := server s; hs := c_SSL_HS_FINISHED; rsec := true; wsec := wsec s; err := err s; closed := closed s;
     ed_skip := ed_skip s; ed_seen := ed_seen s; ed_max := ed_max s; limbo := false; ignored := ignored s;
     cl_early := cl_early s; sv_early := sv_early s; ccs_last := ccs_last s; nst_pending := nst_pending s;
     dtls := dtls s; xepoch := xepoch s; pccs := pccs s; adx := adx s |}.

(* every path through `encodeResponse` with ssl->err set: the alert is written and the session is
   flagged (sslDecode.c 1811-1815; tls13Decode.c encodeResponse after the C15 repair) *)
Definition fatal (s : st) (desc : Z) : st * outcome := (set_err s, AlertOut desc).

Definition valid_type (t : Z) : bool :=
  Z.eqb t c_SSL_RECORD_TYPE_CHANGE_CIPHER_SPEC || Z.eqb t c_SSL_RECORD_TYPE_ALERT ||
  Z.eqb t c_SSL_RECORD_TYPE_HANDSHAKE || Z.eqb t c_SSL_RECORD_TYPE_APPLICATION_DATA.

(* receiving an alert: tls13HandleAlert / the SSL_RECORD_TYPE_ALERT case *)
Definition recv_alert13 (s : st) (lvl desc : Z) : st * outcome :=
  ((if Z.eqb desc c_SSL_ALERT_CLOSE_NOTIFY then set_closed s else set_err s), AlertIn lvl desc).
Definition recv_alert12 (s : st) (lvl desc : Z) : st * outcome :=
  let s1 := if Z.eqb lvl c_SSL_ALERT_LEVEL_FATAL then set_err s else s in
  let s2 := if Z.eqb desc c_SSL_ALERT_CLOSE_NOTIFY then set_closed s1 else s1 in
  (s2, AlertIn lvl desc).

Definition apply_hs (s : st) (o : hsres) : st * outcome :=
  match o with
  | HsOk h r w v resp => (set_hs s h r w v, Handshake resp)
  | HsFatal d => fatal s d
  | HsFallback _ _ _ _ | HsFallbackFatal _ => (s, Ignored)   (* not reached: converted by [decode] *)
  | HsRetransmit => (s, Resend)      (* `case DTLS_RETRANSMIT` of the switch on parseSSLHandshake's result (sslDecode.c 1572-1587);
                                        parseSSLHandshake returns it under DTLS only *)
  end.

Definition is_fallback (o : hsres) : bool :=
  match o with HsFallback _ _ _ _ | HsFallbackFatal _ => true | _ => false end.
Definition legacy_answer (o : hsres) : hsres :=
  match o with
  | HsFallback h r w resp => HsOk h r w false resp
  | HsFallbackFatal d => HsFatal d
  | _ => o
  end.

(* TLS 1.3 application-data gate (tls13Decode.c, application_data branch) *)
Definition app_gate13 (s : st) : bool :=
  rsec s && (Z.eqb (hs s) c_SSL_HS_DONE || Z.eqb (hs s) c_SSL_HS_TLS_1_3_WAIT_EOED).
(* TLS <= 1.2 gate (sslDecode.c 1658-1664) *)
Definition app_gate12 (s : st) : bool :=
  (Z.eqb (hs s) c_SSL_HS_DONE || Z.eqb (hs s) c_SSL_HS_SERVER_HELLO) && rsec s.

Definition max_ignored : Z := d_SSL_MAX_IGNORED_MESSAGE_COUNT.

(* ---- TLS 1.2 and below: matrixSslDecodeTls12AndBelow *)
Definition decode12 (s : st) (r : rec) (o : hsres) : st * outcome :=
  match r_hdr r with
  | HdrBadType => fatal s c_SSL_ALERT_UNEXPECTED_MESSAGE
  | HdrBadVer => fatal s c_SSL_ALERT_ILLEGAL_PARAMETER
  | HdrBadLen => fatal s c_SSL_ALERT_ILLEGAL_PARAMETER
  | HdrTrunc => (s, Ignored)      (* SSL_PARTIAL: nothing is consumed or changed until the rest arrives (chunking is C18's subject) *)
  | HdrOk =>
    if rsec s && negb (match r_prot r with Good => true | _ => false end)
    then fatal s (if r_decfail r then c_SSL_ALERT_DECRYPT_ERROR else c_SSL_ALERT_BAD_RECORD_MAC)
    else if r_overflow r then fatal s c_SSL_ALERT_RECORD_OVERFLOW
    else
      let t := r_outer r in
      if Z.eqb t c_SSL_RECORD_TYPE_CHANGE_CIPHER_SPEC then
        if negb (r_ccs_ok r) then fatal s c_SSL_ALERT_ILLEGAL_PARAMETER
        else if Z.eqb (hs s) c_SSL_HS_FINISHED then
          (* only Finished may follow a ChangeCipherSpec; RFC 5077: a promised NewSessionTicket comes before the CCS *)
          if ccs_last s then fatal s c_SSL_ALERT_UNEXPECTED_MESSAGE
          else if negb (server s) && nst_pending s then fatal s c_SSL_ALERT_UNEXPECTED_MESSAGE
          else (set_hs s (hs s) true (wsec s) (v13 s), Ignored)
        else if Z.eqb (hs s) c_SSL_HS_CERTIFICATE && limbo s && negb (server s) then (set_limbo_resumed s, Ignored)
        else fatal s c_SSL_ALERT_UNEXPECTED_MESSAGE
      else if Z.eqb t c_SSL_RECORD_TYPE_ALERT then
        if negb (r_alert_ok r) then fatal s c_SSL_ALERT_DECODE_ERROR
        else recv_alert12 s (r_alert_level r) (r_alert_desc r)
      else if Z.eqb t c_SSL_RECORD_TYPE_HANDSHAKE then apply_hs s o
      else if Z.eqb t c_SSL_RECORD_TYPE_APPLICATION_DATA then
        if negb (app_gate12 s) then fatal s c_SSL_ALERT_UNEXPECTED_MESSAGE
        else if r_empty r then
          if Z.leb max_ignored (ignored s) then fatal (set_ignored s (ignored s + 1)) c_SSL_ALERT_UNEXPECTED_MESSAGE
          else (set_ignored s (ignored s + 1), Deliver)
        else ((if Z.ltb 0 (ignored s) then set_ignored s (ignored s - 1) else s), Deliver)
      else fatal s c_SSL_ALERT_UNEXPECTED_MESSAGE
  end.

(* ---- TLS 1.3: matrixSslDecodeTls13 *)
Definition decode13 (s : st) (r : rec) (o : hsres) : st * outcome :=
  match r_hdr r with
  | HdrBadLen => fatal s c_SSL_ALERT_ILLEGAL_PARAMETER
  | HdrBadType => fatal s c_SSL_ALERT_UNEXPECTED_MESSAGE
  | HdrTrunc => (s, Ignored)      (* SSL_PARTIAL, as in [decode12] *)
  | HdrBadVer | HdrOk =>                                       (* legacy_version is ignored *)
    let t := r_outer r in
    if negb (valid_type t) then fatal s c_SSL_ALERT_UNEXPECTED_MESSAGE
    else if Z.eqb t c_SSL_RECORD_TYPE_CHANGE_CIPHER_SPEC then
      if r_ccs_ok r then (s, Ignored) else fatal s c_SSL_ALERT_ILLEGAL_PARAMETER
    else if Z.eqb t c_SSL_RECORD_TYPE_ALERT && r_short_alert r then
      if r_alert_ok r then recv_alert13 s (r_alert_level r) (r_alert_desc r) else (s, Refuse)
    else
      let dispatch (inner : Z) :=
        if r_overflow r then fatal s c_SSL_ALERT_RECORD_OVERFLOW
        else if Z.eqb inner c_SSL_RECORD_TYPE_HANDSHAKE then apply_hs s o
        else if Z.eqb inner c_SSL_RECORD_TYPE_APPLICATION_DATA then
          if negb (app_gate13 s) then fatal s c_SSL_ALERT_UNEXPECTED_MESSAGE
          else if Z.eqb (hs s) c_SSL_HS_TLS_1_3_WAIT_EOED then
            if Z.ltb (ed_max s) (ed_seen s + r_len r) then fatal (set_ed_seen s (ed_seen s + r_len r)) c_SSL_ALERT_UNEXPECTED_MESSAGE
            else (set_ed_seen s (ed_seen s + r_len r), Deliver)
          else (s, Deliver)
        else if Z.eqb inner c_SSL_RECORD_TYPE_ALERT then
          if r_alert_ok r then recv_alert13 s (r_alert_level r) (r_alert_desc r) else (s, Refuse)
        else (s, Ignored) in
      if rsec s then
        match r_prot r with
        | Good =>
            (* "no non-zero octet" test: p == decryptTo also holds when the inner plaintext is empty (only the
               type byte), so a zero-length TLSInnerPlaintext of ANY type is refused (tls13Decode.c 330-345) *)
            if Z.eqb (r_inner r) 0 || r_empty r then fatal s c_SSL_ALERT_UNEXPECTED_MESSAGE else dispatch (r_inner r)
        | _ =>
          (* a record no longer than the AEAD tag cannot be protected early data: r_len < 0 marks it (rec.len <= tag length) *)
          let skippable := ed_skip s && Z.leb 0 (r_len r) in
          if skippable && Z.leb (ed_seen s + r_len r) (ed_max s) then (set_ed_seen s (ed_seen s + r_len r), Ignored)
          else fatal (if skippable then set_ed_seen s (ed_seen s + r_len r) else s) c_SSL_ALERT_BAD_RECORD_MAC
        end
      else dispatch t
  end.

(* ---- DTLS 1.0 / 1.2: matrixSslDecodeTls12AndBelow with ACTV_VER(ssl, v_dtls_any)
   One record per datagram (what [step]/[inj] of the harness deliver).  A datagram holding several records is decoded by the
   same code record by record (`goto decodeMore`), except that records behind one that makes MatrixSSL answer, and the Finished
   behind a skipped ChangeCipherSpec, are dropped unread (sslDecode.c 803-831, matrixsslApi.c 1544) - for the safety
   properties proved here that is the network losing those records.
   What DTLS changes against [decode12], in the order of the code:
     693-702   a record longer than the datagram is refused with illegal_parameter (no SSL_PARTIAL)
     715-861   dtlsCompareEpoch(rec.epoch, expectedEpoch): a record of another epoch is skipped WITHOUT being decrypted -
               silently (MATRIXSSL_SUCCESS) or with a retransmission request (DTLS_RETRANSMIT: older epoch, or a
               ChangeCipherSpec while no application data has been received: the 'endgame' case) - except
                 . a later-epoch handshake record in FINISHED after the ChangeCipherSpec was parsed (resent Finished), and
                 . later-epoch application data in DONE,
               which adopt the record's epoch as the expected one (window reset) and go on to decryption; a later-epoch
               handshake record in DONE only adopts the epoch; a later-epoch record at a server still expecting
               ClientHello is answered with unexpected_message.
     863-874   dtlsChkReplayWindow: a sequence number seen before (or left of the window) is skipped silently
     893-1261  decryption / MAC exactly as in TLS: a record of the expected epoch with a fresh sequence number that does not
               verify is FATAL (decrypt_error / bad_record_mac) - MatrixSSL does not use RFC 6347's permission to drop it
     1327-1352 ChangeCipherSpec outside FINISHED is silently ignored (reordering); in FINISHED it sets parsedCCS, increments
               the expected epoch and resets the window; a repeated ChangeCipherSpec is not an error
     1572-1587 parseSSLHandshake may answer DTLS_RETRANSMIT
     matrixsslApi.c 1730-1733  delivering application data sets appDataExch *)
Definition next_epoch (e : Z) : Z := if Z.eqb e 65535 then 0 else e + 1.       (* incrTwoByte, dtls.c 779-805 *)

Definition apply_hsD (s : st) (o : hsres) : st * outcome :=
  match o with
  | HsOk h r w _ resp => (set_hs s h r w (v13 s), Handshake resp)     (* a DTLS session never becomes a TLS 1.3 session *)
  | HsFatal d => fatal s d
  | HsRetransmit => (s, Resend)
  | HsFallback _ _ _ _ | HsFallbackFatal _ => (s, Ignored)             (* SSL_NO_TLS_1_3 does not exist on this path *)
  end.

(* from decryption on (sslDecode.c 893-1772); [s] already carries an adopted epoch *)
Definition decodeD_body (s : st) (r : rec) (o : hsres) : st * outcome :=
  if rsec s && negb (match r_prot r with Good => true | _ => false end)
  then fatal s (if r_decfail r then c_SSL_ALERT_DECRYPT_ERROR else c_SSL_ALERT_BAD_RECORD_MAC)
  else if r_overflow r then fatal s c_SSL_ALERT_RECORD_OVERFLOW
  else
    let t := r_outer r in
    if Z.eqb t c_SSL_RECORD_TYPE_CHANGE_CIPHER_SPEC then
      if negb (r_ccs_ok r) then fatal s c_SSL_ALERT_ILLEGAL_PARAMETER
      else if negb (Z.eqb (hs s) c_SSL_HS_FINISHED) then (s, Ignored)                       (* 1330-1336 *)
      else
        let s1 := set_xepoch (set_pccs s) (next_epoch (xepoch s)) in                      (* 1344-1350 *)
        if negb (server s) && nst_pending s then fatal s1 c_SSL_ALERT_UNEXPECTED_MESSAGE    (* 1372-1382 *)
        else (set_hs s1 (hs s1) true (wsec s1) (v13 s1), Ignored)                           (* 1384 sslActivateReadCipher *)
    else if Z.eqb t c_SSL_RECORD_TYPE_ALERT then
      if negb (r_alert_ok r) then fatal s c_SSL_ALERT_DECODE_ERROR
      else recv_alert12 s (r_alert_level r) (r_alert_desc r)
    else if Z.eqb t c_SSL_RECORD_TYPE_HANDSHAKE then apply_hsD s o
    else if Z.eqb t c_SSL_RECORD_TYPE_APPLICATION_DATA then
      if negb (app_gate12 s) then fatal s c_SSL_ALERT_UNEXPECTED_MESSAGE                    (* 1698-1704, the same gate as TLS *)
      else if r_empty r then
        if Z.leb max_ignored (ignored s) then fatal (set_ignored s (ignored s + 1)) c_SSL_ALERT_UNEXPECTED_MESSAGE
        else (set_adx (set_ignored s (ignored s + 1)), Deliver)
      else (set_adx (if Z.ltb 0 (ignored s) then set_ignored s (ignored s - 1) else s), Deliver)
    else fatal s c_SSL_ALERT_UNEXPECTED_MESSAGE.

(* a record of another epoch that is not decrypted (sslDecode.c 788-861, the record is the last of its datagram) *)
Definition skipD (s0 : st) (newer older : bool) (t : Z) : st * outcome :=
  if Z.eqb t c_SSL_RECORD_TYPE_CHANGE_CIPHER_SPEC && negb (adx s0) then (s0, Resend)           (* 797-833 'endgame' *)
  else if newer && server s0 && Z.eqb (hs s0) c_SSL_HS_CLIENT_HELLO then fatal s0 c_SSL_ALERT_UNEXPECTED_MESSAGE   (* 845-852 *)
  else if older then (s0, Resend)                                                            (* 855-858 *)
  else (s0, Ignored).                                                                        (* 860 *)

Definition decodeD (s : st) (r : rec) (o : hsres) : st * outcome :=
  match r_hdr r with
  | HdrBadType => fatal s c_SSL_ALERT_UNEXPECTED_MESSAGE
  | HdrBadVer => fatal s c_SSL_ALERT_ILLEGAL_PARAMETER
  | HdrBadLen => fatal s c_SSL_ALERT_ILLEGAL_PARAMETER
  | HdrTrunc => fatal s c_SSL_ALERT_ILLEGAL_PARAMETER                                        (* 693-702 *)
  | HdrOk =>
    let t := r_outer r in
    let newer := Z.ltb (xepoch s) (r_epoch r) in
    let older := Z.ltb (r_epoch r) (xepoch s) in
    if Z.eqb (r_epoch r) (xepoch s) then
      match r_replay r with
      | Dup => (s, Ignored)                                                                  (* 863-874 *)
      | Fresh => decodeD_body s r o
      end
    else if newer && Z.eqb t c_SSL_RECORD_TYPE_HANDSHAKE && Z.eqb (hs s) c_SSL_HS_FINISHED then
      if negb (pccs s) then (s, Ignored)                                                     (* 735-740 *)
      else decodeD_body (set_xepoch s (r_epoch r)) r o       (* 747-749: window reset, then CHECK_REPLAY_WINDOW accepts anything *)
    else if newer && Z.eqb t c_SSL_RECORD_TYPE_APPLICATION_DATA && Z.eqb (hs s) c_SSL_HS_DONE then
      decodeD_body (set_xepoch s (r_epoch r)) r o                                            (* 779-786 *)
    else if newer && Z.eqb t c_SSL_RECORD_TYPE_HANDSHAKE && Z.eqb (hs s) c_SSL_HS_DONE then
      skipD (set_xepoch s (r_epoch r)) newer older t                                         (* 764-770 *)
    else skipD s newer older t
  end.

(* ---- matrixSslDecode: the entry guard, then the version dispatch (the active version is ONE version: dtls and v13 exclude
   each other, so the order of the two tests is immaterial; DTLS first keeps that exclusion out of the theorems) *)
Definition decode (s : st) (r : rec) (o : hsres) : st * outcome :=
  if err s || closed s then (s, Refuse)
  else if dtls s then decodeD s r o
  else if v13 s then
    if is_fallback o then decode12 s r (legacy_answer o) else decode13 s r o
  else decode12 s r o.

(* ---- sending application data: matrixSslEncode / isGoodStateForAppDataEncrypt *)
Definition encode_app_ok (s : st) : bool :=
  if v13 s then
    negb (err s) && negb (closed s) && (Z.eqb (hs s) c_SSL_HS_DONE || cl_early s || sv_early s)
  else negb (err s) && negb (closed s) && Z.eqb (hs s) c_SSL_HS_DONE.

(* ---- DTLS: matrixDtlsGetOutdata (dtls.c 1124-1227) - is the last flight encoded again?
   [pending]: ssl->outlen > 0; [flight_done]: ssl->flightDone; [resumed] / [cauth]: SSL_FLAGS_RESUMED / SSL_FLAGS_CLIENT_AUTH *)
Inductive getout := GoNone | GoData | GoResend | GoRefused.
Definition can_resend (s : st) (resumed cauth : bool) : bool :=                              (* canResend, dtls.c 1044-1109 *)
  if server s then
    Z.eqb (hs s) c_SSL_HS_CLIENT_HELLO || (negb resumed && Z.eqb (hs s) c_SSL_HS_DONE) ||
    (if cauth then Z.eqb (hs s) c_SSL_HS_CERTIFICATE else Z.eqb (hs s) c_SSL_HS_CLIENT_KEY_EXCHANGE) ||
    (resumed && Z.eqb (hs s) c_SSL_HS_FINISHED)
  else
    (* a flight can only be rebuilt on a flight boundary: sslEncodeResponse builds it from hsState *)
    Z.eqb (hs s) c_SSL_HS_SERVER_HELLO || (negb resumed && Z.eqb (hs s) c_SSL_HS_FINISHED) || Z.eqb (hs s) c_SSL_HS_DONE.
Definition dtls_getout (s : st) (pending flight_done resumed cauth : bool) : getout :=
  if pending then GoData                                      (* output waiting (e.g. the alert of a dying session) is handed out *)
  else if adx s then GoNone                                   (* 1143-1147 *)
  else if flight_done then GoNone                             (* 1155-1160 *)
  else if err s || closed s then GoRefused                    (* C15 repair: a flagged session encodes nothing any more *)
  else if can_resend s resumed cauth then GoResend            (* 1189-1211 dtlsResendFlight *)
  else GoNone.                                                (* 1191-1196 *)

(* a run: the oracle answers are part of the input history *)
Definition input := (rec * hsres)%type.
Fixpoint run (s : st) (is : list input) : st * list outcome :=
  match is with
  | [] => (s, [])
  | (r, o) :: rest =>
      let '(s1, out) := decode s r o in
      let '(s2, outs) := run s1 rest in
      (s2, out :: outs)
  end.
