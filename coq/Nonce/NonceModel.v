(* C17 - seal-history machine of one TLS connection (both writers), code-shaped, executable.  No proofs here.

   What is modelled (all of it is compared with the compiled library on every check, harness/h_nonce.c):
   * the 8-byte big-endian write sequence number ssl->sec.seq and its increment loop
       for (i = 7; i >= 0; i--) { seq[i]++; if (seq[i] != 0) break; }
     matrixssl/cipherSuite.c csAesGcmEncrypt 243-250, csChacha20Poly1305IetfEncrypt 491-498,
     matrixssl/tls13CipherSuite.c psAesIncrSec 177-189 (called by cs*EncryptTls13 after every seal),
     matrixssl/tls.c tlsHMACSha1 / tlsHMACSha2 (HMAC_CREATE) "Update seq" loops (CBC suites: the MAC binds seq);
   * the three nonce constructions
       TLS 1.2 AES-GCM   nonce = writeIV[0..3] || seq                 cipherSuite.c 200-224 (the explicit part on the
                                                                       wire is the same seq: sslEncode.c psWriteRecordInfo)
       TLS 1.2 ChaCha20  nonce = (0^4 || seq) xor writeIV[0..11]      cipherSuite.c 449-458
       TLS 1.3 (all)     nonce = (0^4 || seq) xor tls13WriteIv        tls13CipherSuite.c tls13MakeWriteNonce 52-63;
   * key activation: sslActivateWriteCipher (tls.c 890-990) installs the new key and IV and does
     Memset(ssl->sec.seq, 0, 8); it is reached from the TLS <= 1.2 ChangeCipherSpec/Finished flight
     (sslEncode.c processFinished 2436-2443) and from tls13ActivateEarlyDataWriteKeys / HsWriteKeys / AppWriteKeys
     (tls13KeySchedule.c 1050-1185);
   * tls13ActivateEarlyDataReadKeys (tls13KeySchedule.c 1080-1108) which ALSO does Memset(ssl->sec.seq, 0, 8) on the
     server although it installs read keys (event WEarlyReadReset: the write sequence number is zeroed, key unchanged);
   * CBC suites in TLS >= 1.1: writeRecordHeader (sslEncode.c 2980-3002) draws the explicit-IV block with
     psGetPrngLocked into the record buffer (event WDrawIv; a failing call leaves the buffer as it was), encryptRecord
     (sslEncode.c 3157-3365) later MACs and encrypts that buffer (event WSeal).  One record is pending per writer
     (handshake flights are encrypted after they were written; only Finished is protected in a TLS <= 1.2 flight).
   Keys are identified by the ordinal of the activation that installed them (per writer); that distinct activations
   install distinct key bytes is checked on every logged run by key fingerprints, it is not a theorem here. *)
From Coq Require Import List NArith Bool.
Import ListNotations.
Local Open Scope N_scope.

(* ------------------------------------------------------------------ sequence number: 8 bytes, big endian *)
Definition zero_seq : list N := [0; 0; 0; 0; 0; 0; 0; 0].

(* the increment loop, from the last byte towards the first, with the unsigned char wrap written out;
   second component: the loop ran off the most significant byte (64-bit wrap to zero) *)
Fixpoint incr_be (l : list N) : list N * bool :=
  match l with
  | [] => ([], true)
  | b :: r =>
      let '(r', carry) := incr_be r in
      if carry then (let b' := (b + 1) mod 256 in (b' :: r', b' =? 0))
      else (b :: r', false)
  end.
Definition incr_seq (s : list N) : list N := fst (incr_be s).

(* value of a big-endian byte string *)
Fixpoint be_val (l : list N) : N :=
  match l with
  | [] => 0
  | b :: r => b * 256 ^ N.of_nat (length r) + be_val r
  end.

(* the n low-order bytes of z, most significant first *)
Fixpoint be_bytes (n : nat) (z : N) : list N :=
  match n with
  | O => []
  | S k => (z / 256 ^ N.of_nat k) mod 256 :: be_bytes k z
  end.

(* ------------------------------------------------------------------ nonce constructions *)
(* for (i = 0; i < len(a); i++) a[i] ^= iv[i]; *)
Fixpoint xor_iv (a iv : list N) : list N :=
  match a with
  | [] => []
  | x :: a' => N.lxor x (hd 0 iv) :: xor_iv a' (tl iv)
  end.
Definition pad_seq (seq : list N) : list N := [0; 0; 0; 0] ++ seq.          (* Memset(nonce, 0, 12); Memcpy(nonce + 4, seq, 8) *)
Definition nonce12_gcm (iv seq : list N) : list N := firstn 4 iv ++ seq.     (* Memcpy(nonce, writeIV, 4); Memcpy(nonce + 4, seq, 8) *)
Definition nonce_chacha (iv seq : list N) : list N := xor_iv (pad_seq seq) iv.
Definition nonce13 (iv seq : list N) : list N := xor_iv (pad_seq seq) iv.

(* ------------------------------------------------------------------ one writer *)
Inductive alg := ANull | AGcm12 | AChacha12 | AAead13 | ACbc (explicit_iv : bool).

Definition is_aead (a : alg) : bool := match a with AGcm12 | AChacha12 | AAead13 => true | _ => false end.

Definition nonce_of (a : alg) (iv seq : list N) : list N :=
  match a with
  | AGcm12 => nonce12_gcm iv seq
  | AChacha12 => nonce_chacha iv seq
  | AAead13 => nonce13 iv seq
  | _ => []
  end.

Record wstate := mkW {
  w_alg : alg;            (* active write cipher (ssl->encrypt / ssl->generateMac) *)
  w_key : nat;            (* ordinal of the activation that installed the current key *)
  w_iv : list N;          (* sec.writeIV / sec.tls13WriteIv *)
  w_seq : list N;         (* sec.seq *)
  w_pend : option nat     (* index of the PRNG output sitting in the not yet encrypted record buffer *)
}.
Definition w_init : wstate := mkW ANull 0 [] zero_seq None.

Inductive wevent :=
| WActivate (a : alg) (iv : list N)     (* sslActivateWriteCipher *)
| WSeal (rt : N)                        (* one record through generateMac / encrypt, rt = record (inner) type *)
| WDrawIv (ok : bool)                   (* writeRecordHeader: psGetPrngLocked into the record buffer succeeded / failed *)
| WEarlyReadReset.                      (* tls13ActivateEarlyDataReadKeys: Memset(ssl->sec.seq, 0, 8) *)

Inductive ivsrc := IvNone | IvPrng (j : nat) | IvStale.

Record seal := mkSeal {
  s_key : nat; s_alg : alg; s_ivfix : list N;
  s_seq : list N;          (* the sequence number bound into the nonce / MAC of this record *)
  s_nonce : list N;        (* AEAD nonce handed to the primitive *)
  s_rt : N;
  s_iv : ivsrc             (* CBC: where the explicit-IV block came from *)
}.

(* Which events touch w_seq:  WActivate sets it to zero TOGETHER WITH a new key ordinal (the only reset);  WSeal under a
   non-null cipher binds the current value into the record and then runs the increment loop;  WEarlyReadReset zeroes it
   without a key change (the code does that) and is therefore admitted by `guardw` only under the null cipher, where the
   number is zero anyway;  nothing else writes it.  Hence within one key activation the bound numbers are 0, 1, 2, ...
   (c17_seq_counts, c17_seq_moves_only_by_seal); an implementation that rewinds ssl->sec.seq under an active key shows up
   as a disagreement on the very next seal (and as a repeated nonce). *)
Definition wstep (pidx : nat) (w : wstate) (e : wevent) : wstate * option seal :=
  match e with
  | WActivate a iv => (mkW a (S (w_key w)) iv zero_seq (w_pend w), None)
  | WSeal rt =>
      match w_alg w with
      | ANull => (w, None)                                   (* csNullGenerateMac / csNullEncrypt: seq untouched *)
      | ACbc eiv =>
          (mkW (w_alg w) (w_key w) (w_iv w) (incr_seq (w_seq w)) None,
           Some (mkSeal (w_key w) (w_alg w) (w_iv w) (w_seq w) [] rt
                   (if eiv then match w_pend w with Some j => IvPrng j | None => IvStale end else IvNone)))
      | a =>
          (mkW a (w_key w) (w_iv w) (incr_seq (w_seq w)) (w_pend w),
           Some (mkSeal (w_key w) a (w_iv w) (w_seq w) (nonce_of a (w_iv w) (w_seq w)) rt IvNone))
      end
  | WDrawIv ok =>
      if ok then (mkW (w_alg w) (w_key w) (w_iv w) (w_seq w) (Some pidx), None) else (w, None)
  | WEarlyReadReset => (mkW (w_alg w) (w_key w) (w_iv w) zero_seq (w_pend w), None)
  end.

(* control-flow facts of the callers, checked on every observed trace (not proved from the C):
   - tls13ActivateEarlyDataReadKeys runs while the server's write cipher is still the null cipher
     (tls13Encode.c 1832-1839: the flight holding ServerHello has been written but not yet encrypted);
   - encryptRecord on a TLS >= 1.1 CBC record runs only after writeRecordHeader obtained the IV block. *)
Definition guardw (w : wstate) (e : wevent) : bool :=
  match e with
  | WEarlyReadReset => match w_alg w with ANull => true | _ => false end
  | WSeal _ => match w_alg w with
               | ACbc true => match w_pend w with Some _ => true | None => false end
               | _ => true
               end
  | _ => true
  end.

(* ------------------------------------------------------------------ the connection: two writers, one PRNG *)
Inductive side := Cl | Sv.
Record cstate := mkC { c_cl : wstate; c_sv : wstate; c_pidx : nat }.
Definition c_init : cstate := mkC w_init w_init 0.

Inductive event :=
| EvW (s : side) (e : wevent)
| EvDraw.                               (* psGetPrngLocked by any other consumer (hello randoms, premaster, ticket IV, ...) *)

Definition getw (c : cstate) (s : side) : wstate := match s with Cl => c_cl c | Sv => c_sv c end.
Definition setw (c : cstate) (s : side) (w : wstate) : cstate :=
  match s with Cl => mkC w (c_sv c) (c_pidx c) | Sv => mkC (c_cl c) w (c_pidx c) end.
Definition bump (c : cstate) : cstate := mkC (c_cl c) (c_sv c) (S (c_pidx c)).

Definition draws (e : wevent) : bool := match e with WDrawIv true => true | _ => false end.

Definition step (c : cstate) (e : event) : cstate * option (side * seal) :=
  match e with
  | EvDraw => (bump c, None)
  | EvW s we =>
      let '(w', o) := wstep (c_pidx c) (getw c s) we in
      let c' := setw c s w' in
      (if draws we then bump c' else c', match o with Some x => Some (s, x) | None => None end)
  end.

Definition guard (c : cstate) (e : event) : bool :=
  match e with EvW s we => guardw (getw c s) we | EvDraw => true end.

Definition olist {A} (o : option A) : list A := match o with Some x => [x] | None => [] end.

Definition exec1 (acc : cstate * list (side * seal) * bool) (e : event) : cstate * list (side * seal) * bool :=
  let '(c, l, ok) := acc in
  let '(c', o) := step c e in
  (c', l ++ olist o, ok && guard c e).

(* state, seal history (oldest first), "every event so far respected the caller facts" *)
Definition exec (evs : list event) : cstate * list (side * seal) * bool :=
  fold_left exec1 evs (c_init, [], true).
