(* C17 - what the property demands of a seal history, independent of how the code produces it.
   A history is the list (oldest first) of (writer, seal); a traffic key is (writer, activation ordinal). *)
From Coq Require Import List NArith Bool Sorted.
From MV Require Import Nonce.NonceModel.
Import ListNotations.
Local Open Scope N_scope.

Definition two64 : N := 2 ^ 64.

Definition side_eqb (a b : side) : bool := match a, b with Cl, Cl | Sv, Sv => true | _, _ => false end.

(* the seals of one writer, oldest first *)
Definition side_seals (s : side) (l : list (side * seal)) : list seal :=
  map snd (filter (fun p => side_eqb (fst p) s) l).
(* ... under one of its keys *)
Definition seals_of (s : side) (k : nat) (l : list (side * seal)) : list seal :=
  filter (fun x => Nat.eqb (s_key x) k) (side_seals s l).

(* the i-th record sealed under a key binds the sequence number i (mod 2^64): numbering starts at 0 with the key,
   advances by one per record whatever its type, and nothing else touches it *)
Definition seq_counts (l : list (side * seal)) : Prop :=
  forall s k i x, nth_error (seals_of s k l) i = Some x ->
    be_val (s_seq x) = N.of_nat i mod two64 /\ length (s_seq x) = 8%nat.

(* the bound sequence number strictly increases for the lifetime of a key (while fewer than 2^64 records were sealed) *)
Definition seq_strict (l : list (side * seal)) : Prop :=
  forall s k i j x y, (i < j)%nat -> N.of_nat j < two64 ->
    nth_error (seals_of s k l) i = Some x -> nth_error (seals_of s k l) j = Some y ->
    be_val (s_seq x) < be_val (s_seq y).

(* no two records sealed under the same key carry the same AEAD nonce *)
Definition nonce_unique (l : list (side * seal)) : Prop :=
  forall s k i j x y, i <> j -> N.of_nat i < two64 -> N.of_nat j < two64 ->
    nth_error (seals_of s k l) i = Some x -> nth_error (seals_of s k l) j = Some y ->
    is_aead (s_alg x) = true -> s_nonce x <> s_nonce y.

(* CBC explicit IVs: indices of the PRNG outputs used, per writer and overall *)
Definition iv_index (x : seal) : list nat := match s_iv x with IvPrng j => [j] | _ => [] end.
Definition ivs_of (s : side) (l : list (side * seal)) : list nat := flat_map iv_index (side_seals s l).
Definition all_ivs (l : list (side * seal)) : list nat := flat_map iv_index (map snd l).

Definition cbc_iv_fresh (l : list (side * seal)) : Prop :=
  (* every TLS >= 1.1 CBC record carries a PRNG output as its explicit IV block ... *)
  (forall s x, In x (side_seals s l) -> s_alg x = ACbc true -> exists j, s_iv x = IvPrng j) /\
  (* ... drawn after the one of the writer's previous record ... *)
  (forall s, StronglySorted lt (ivs_of s l)) /\
  (* ... and no PRNG output serves two records of the connection *)
  NoDup (all_ivs l).

(* the bytes of the explicit IV block, over an arbitrary PRNG stream: a function of the stream and an index only *)
Section Stream.
  Variable prng : nat -> list N.
  Definition explicit_iv (x : seal) : option (list N) :=
    match s_iv x with IvPrng j => Some (prng j) | _ => None end.
End Stream.
