(* C17 - proofs about the seal-history machine. *)
From Coq Require Import List Arith NArith Bool Lia Sorted Permutation.
From MV Require Import Nonce.NonceModel Nonce.NonceSpec.
Import ListNotations.
Local Open Scope N_scope.

Definition byte_ok (b : N) : Prop := b < 256.
Definition bytes_ok (l : list N) : Prop := Forall byte_ok l.

(* ------------------------------------------------------------------ the increment loop is +1 mod 2^(8 len) *)
Lemma pow256_pos : forall n, 0 < 256 ^ n.
Proof. intro n. apply N.neq_0_lt_0. apply N.pow_nonzero. discriminate. Qed.

Lemma be_val_bound : forall l, bytes_ok l -> be_val l < 256 ^ N.of_nat (length l).
Proof.
  induction l as [|b r IH]; intro H; cbn [be_val length].
  - cbn. lia.
  - inversion H as [|? ? Hb Hr]; subst. specialize (IH Hr).
    rewrite Nat2N.inj_succ, N.pow_succ_r'. unfold byte_ok in Hb.
    remember (256 ^ N.of_nat (length r)) as P. nia.
Qed.

Lemma incr_be_spec : forall l, bytes_ok l ->
  let '(l', c) := incr_be l in
  length l' = length l /\ bytes_ok l' /\
  be_val l' + (if c then 256 ^ N.of_nat (length l) else 0) = be_val l + 1.
Proof.
  induction l as [|b r IH]; intro H.
  - cbn. repeat split; try constructor.
  - inversion H as [|? ? Hb Hr]; subst. specialize (IH Hr).
    cbn [incr_be]. destruct (incr_be r) as [r' c]. destruct IH as (Hl & Hok & Hv).
    unfold byte_ok in Hb.
    destruct c.
    + assert (Hcase : b + 1 < 256 \/ b + 1 = 256) by lia.
      destruct Hcase as [Hlt | Heq].
      * rewrite (N.mod_small (b + 1) 256) by exact Hlt.
        assert (Hnz : (b + 1 =? 0) = false) by (apply N.eqb_neq; lia). rewrite Hnz.
        cbn [length be_val]. rewrite Hl. repeat split.
        -- constructor; [unfold byte_ok; lia | exact Hok].
        -- remember (256 ^ N.of_nat (length r)) as P. nia.
      * rewrite Heq. rewrite N.mod_same by discriminate. cbn [N.eqb].
        cbn [length be_val]. rewrite Hl. repeat split.
        -- constructor; [unfold byte_ok; lia | exact Hok].
        -- rewrite Nat2N.inj_succ, N.pow_succ_r'. remember (256 ^ N.of_nat (length r)) as P. nia.
    + cbn [length be_val]. rewrite Hl. repeat split.
      * constructor; assumption.
      * remember (256 ^ N.of_nat (length r)) as P. nia.
Qed.

Lemma incr_seq_length : forall s, bytes_ok s -> length (incr_seq s) = length s.
Proof. intros s H. unfold incr_seq. pose proof (incr_be_spec s H) as S. destruct (incr_be s). cbn. tauto. Qed.

Lemma incr_seq_ok : forall s, bytes_ok s -> bytes_ok (incr_seq s).
Proof. intros s H. unfold incr_seq. pose proof (incr_be_spec s H) as S. destruct (incr_be s). cbn. tauto. Qed.

Lemma two64_256 : two64 = 256 ^ N.of_nat 8.
Proof. reflexivity. Qed.

Lemma incr_seq_val : forall s, length s = 8%nat -> bytes_ok s ->
  be_val (incr_seq s) = (be_val s + 1) mod two64.
Proof.
  intros s Hl H. unfold incr_seq. pose proof (incr_be_spec s H) as S.
  pose proof (be_val_bound s H) as Bs.
  destruct (incr_be s) as [s' c]. cbn [fst]. destruct S as (Hl' & Hok' & Hv).
  pose proof (be_val_bound s' Hok') as Bs'. rewrite Hl' in Bs'. rewrite Hl in *.
  rewrite two64_256. remember (256 ^ N.of_nat 8) as M.
  destruct c.
  - assert (be_val s + 1 = M) by lia. assert (be_val s' = 0) by lia.
    rewrite H0, H1. rewrite N.mod_same; [reflexivity|]. subst M. discriminate.
  - rewrite N.add_0_r in Hv. rewrite <- Hv. rewrite N.mod_small; [reflexivity | lia].
Qed.

Lemma zero_seq_facts : length zero_seq = 8%nat /\ bytes_ok zero_seq /\ be_val zero_seq = 0.
Proof. repeat split. repeat constructor. Qed.

(* ------------------------------------------------------------------ byte strings of numbers *)
Lemma be_bytes_length : forall n z, length (be_bytes n z) = n.
Proof. induction n; intro z; cbn; [reflexivity | now rewrite IHn]. Qed.

Lemma be_val_be_bytes : forall n z, be_val (be_bytes n z) = z mod 256 ^ N.of_nat n.
Proof.
  induction n as [|k IH]; intro z.
  - cbn. now rewrite N.mod_1_r.
  - cbn [be_bytes be_val]. rewrite be_bytes_length, IH.
    rewrite Nat2N.inj_succ, N.pow_succ_r'.
    rewrite (N.mul_comm 256). rewrite N.mod_mul_r.
    + lia.
    + apply N.pow_nonzero. discriminate.
    + discriminate.
Qed.

Lemma be_bytes_inj : forall a b, a < two64 -> b < two64 -> be_bytes 8 a = be_bytes 8 b -> a = b.
Proof.
  intros a b Ha Hb H. apply (f_equal be_val) in H. rewrite !be_val_be_bytes in H.
  rewrite <- two64_256 in H. now rewrite !N.mod_small in H by assumption.
Qed.

(* ------------------------------------------------------------------ nonce constructions are injective in seq *)
Lemma lxor_cancel_r : forall x y k, N.lxor x k = N.lxor y k -> x = y.
Proof.
  intros x y k H.
  rewrite <- (N.lxor_0_r x), <- (N.lxor_nilpotent k), <- N.lxor_assoc, H, N.lxor_assoc, N.lxor_nilpotent, N.lxor_0_r.
  reflexivity.
Qed.

Lemma xor_iv_inj : forall a b iv, length a = length b -> xor_iv a iv = xor_iv b iv -> a = b.
Proof.
  induction a as [|x a IH]; intros [|y b] iv Hl H; cbn in *; try discriminate; [reflexivity|].
  injection H as Hh Ht. f_equal.
  - eapply lxor_cancel_r; eassumption.
  - eapply IH; [lia | eassumption].
Qed.

Lemma nonce_of_inj : forall a iv s1 s2, is_aead a = true -> length s1 = length s2 ->
  nonce_of a iv s1 = nonce_of a iv s2 -> s1 = s2.
Proof.
  intros a iv s1 s2 Ha Hl H. destruct a; cbn in Ha; try discriminate; cbn [nonce_of] in H.
  - unfold nonce12_gcm in H. now apply app_inv_head in H.
  - unfold nonce_chacha in H. apply xor_iv_inj in H.
    + unfold pad_seq in H. now apply app_inv_head in H.
    + unfold pad_seq. rewrite !app_length. lia.
  - unfold nonce13 in H. apply xor_iv_inj in H.
    + unfold pad_seq in H. now apply app_inv_head in H.
    + unfold pad_seq. rewrite !app_length. lia.
Qed.

Lemma nonce_injective_num : forall a iv x y, is_aead a = true -> x < two64 -> y < two64 ->
  nonce_of a iv (be_bytes 8 x) = nonce_of a iv (be_bytes 8 y) -> x = y.
Proof.
  intros a iv x y Ha Hx Hy H. apply be_bytes_inj; try assumption.
  eapply nonce_of_inj; try eassumption. now rewrite !be_bytes_length.
Qed.

(* ------------------------------------------------------------------ list plumbing *)
Lemma side_eqb_refl : forall s, side_eqb s s = true. Proof. destruct s; reflexivity. Qed.
Lemma side_eqb_eq : forall a b, side_eqb a b = true -> a = b. Proof. destruct a, b; cbn; congruence. Qed.

Lemma side_seals_app : forall s l m, side_seals s (l ++ m) = side_seals s l ++ side_seals s m.
Proof. intros. unfold side_seals. now rewrite filter_app, map_app. Qed.

Lemma side_seals_one : forall s s' x, side_seals s [(s', x)] = if side_eqb s' s then [x] else [].
Proof. intros. unfold side_seals. cbn. destruct (side_eqb s' s); reflexivity. Qed.

Lemma exec_snoc : forall evs e, exec (evs ++ [e]) = exec1 (exec evs) e.
Proof. intros. unfold exec. now rewrite fold_left_app. Qed.

(* the writer-local view of one step of the connection *)
Lemma step_getw_same : forall c s we,
  getw (fst (step c (EvW s we))) s = fst (wstep (c_pidx c) (getw c s) we).
Proof.
  intros c s we. cbn [step]. destruct (wstep (c_pidx c) (getw c s) we) as [w' o]. cbn [fst].
  destruct (draws we); destruct s; reflexivity.
Qed.

Lemma step_getw_other : forall c s s' we, s <> s' ->
  getw (fst (step c (EvW s we))) s' = getw c s'.
Proof.
  intros c s s' we Hne. cbn [step]. destruct (wstep (c_pidx c) (getw c s) we) as [w' o]. cbn [fst].
  destruct (draws we); destruct s, s'; try congruence; reflexivity.
Qed.

Lemma step_state : forall c s we,
  fst (step c (EvW s we)) = if draws we then bump (setw c s (fst (wstep (c_pidx c) (getw c s) we)))
                            else setw c s (fst (wstep (c_pidx c) (getw c s) we)).
Proof. intros. cbn [step]. destruct (wstep (c_pidx c) (getw c s) we) as [w' o]. reflexivity. Qed.

Lemma step_out : forall c s we,
  snd (step c (EvW s we)) = match snd (wstep (c_pidx c) (getw c s) we) with Some x => Some (s, x) | None => None end.
Proof. intros. cbn [step]. destruct (wstep (c_pidx c) (getw c s) we) as [w' o]. reflexivity. Qed.

Lemma side_seals_step_same : forall s l (o : option seal),
  side_seals s (l ++ olist (match o with Some x => Some (s, x) | None => None end)) = side_seals s l ++ olist o.
Proof.
  intros. rewrite side_seals_app. destruct o; cbn [olist].
  - now rewrite side_seals_one, side_eqb_refl.
  - reflexivity.
Qed.

Lemma side_seals_step_other : forall s s' l (o : option seal), s <> s' ->
  side_seals s' (l ++ olist (match o with Some x => Some (s, x) | None => None end)) = side_seals s' l.
Proof.
  intros. rewrite side_seals_app. destruct o; cbn [olist].
  - rewrite side_seals_one. destruct (side_eqb s s') eqn:E; [apply side_eqb_eq in E; congruence|]. now rewrite app_nil_r.
  - now rewrite app_nil_r.
Qed.

(* ------------------------------------------------------------------ sequence numbers: the writer-local invariant *)
Definition keyf (k : nat) (x : seal) : bool := Nat.eqb (s_key x) k.

Record PSw (w : wstate) (L : list seal) : Prop := {
  ps_len : length (w_seq w) = 8%nat;
  ps_ok : bytes_ok (w_seq w);
  ps_cur : be_val (w_seq w) = N.of_nat (length (filter (keyf (w_key w)) L)) mod two64;
  ps_null : w_alg w = ANull -> filter (keyf (w_key w)) L = [] /\ w_seq w = zero_seq;
  ps_le : forall x, In x L -> (s_key x <= w_key w)%nat;
  ps_same : forall x, In x (filter (keyf (w_key w)) L) -> s_alg x = w_alg w /\ s_ivfix x = w_iv w;
  ps_cnt : forall k i x, nth_error (filter (keyf k) L) i = Some x ->
             be_val (s_seq x) = N.of_nat i mod two64 /\ length (s_seq x) = 8%nat;
  ps_pair : forall k x y, In x (filter (keyf k) L) -> In y (filter (keyf k) L) ->
             s_alg x = s_alg y /\ s_ivfix x = s_ivfix y;
  ps_nonce : forall x, In x L -> s_nonce x = nonce_of (s_alg x) (s_ivfix x) (s_seq x)
}.

Lemma PSw_init : PSw w_init [].
Proof.
  constructor; cbn; try tauto; try reflexivity.
  - repeat constructor.
  - intros k [|i] x H; discriminate.
Qed.

Lemma filter_keyf_none : forall k L, (forall x, In x L -> (s_key x < k)%nat) -> filter (keyf k) L = [].
Proof.
  induction L as [|x L IH]; intro H; cbn; [reflexivity|].
  unfold keyf at 1. destruct (Nat.eqb (s_key x) k) eqn:E.
  - apply Nat.eqb_eq in E. specialize (H x (or_introl eq_refl)). lia.
  - apply IH. intros y Hy. apply H. now right.
Qed.

Lemma nth_error_snoc : forall {A} (l : list A) a i x, nth_error (l ++ [a]) i = Some x ->
  (nth_error l i = Some x) \/ (i = length l /\ x = a).
Proof.
  intros A l a i x H. destruct (Nat.lt_ge_cases i (length l)) as [Hlt | Hge].
  - left. now rewrite nth_error_app1 in H.
  - rewrite nth_error_app2 in H by exact Hge. destruct (i - length l)%nat eqn:E.
    + cbn in H. right. split; [lia | congruence].
    + cbn in H. destruct n; discriminate.
Qed.

(* appending one seal made under the current key *)
Lemma PSw_seal : forall w L a' pend' rt nonce src,
  PSw w L -> w_alg w <> ANull ->
  nonce = nonce_of (w_alg w) (w_iv w) (w_seq w) ->
  a' = w_alg w ->
  PSw (mkW a' (w_key w) (w_iv w) (incr_seq (w_seq w)) pend')
      (L ++ [mkSeal (w_key w) (w_alg w) (w_iv w) (w_seq w) nonce rt src]).
Proof.
  intros w L a' pend' rt nonce src P Hnn Hnonce Ha'. subst a'. destruct P.
  set (x0 := mkSeal (w_key w) (w_alg w) (w_iv w) (w_seq w) nonce rt src).
  assert (Hf : forall k, filter (keyf k) (L ++ [x0]) = filter (keyf k) L ++ (if Nat.eqb (w_key w) k then [x0] else [])).
  { intro k. rewrite filter_app. cbn. unfold keyf at 2. cbn [s_key x0]. destruct (Nat.eqb (w_key w) k); reflexivity. }
  constructor; cbn [w_alg w_key w_iv w_seq w_pend].
  - now apply incr_seq_length in ps_ok0 as ->.
  - now apply incr_seq_ok.
  - rewrite incr_seq_val by assumption. rewrite ps_cur0. rewrite Hf, Nat.eqb_refl, app_length. cbn [length].
    rewrite Nat.add_1_r, Nat2N.inj_succ, <- N.add_1_r.
    rewrite N.add_mod_idemp_l by discriminate. reflexivity.
  - intro H. contradiction.
  - intros x Hx. apply in_app_or in Hx. destruct Hx as [Hx | [Hx | []]]; [now apply ps_le0 | subst x; cbn; lia].
  - intros x Hx. rewrite Hf, Nat.eqb_refl in Hx. apply in_app_or in Hx. destruct Hx as [Hx | [Hx | []]].
    + now apply ps_same0.
    + subst x. cbn. tauto.
  - intros k i x Hx. rewrite Hf in Hx. destruct (Nat.eqb (w_key w) k) eqn:E.
    + apply Nat.eqb_eq in E. subst k. apply nth_error_snoc in Hx. destruct Hx as [Hx | [Hi Hx]].
      * now apply (ps_cnt0 (w_key w)).
      * subst x i. cbn [s_seq x0]. split; [exact ps_cur0 | exact ps_len0].
    + rewrite app_nil_r in Hx. now apply (ps_cnt0 k).
  - intros k x y Hx Hy. rewrite Hf in Hx, Hy. destruct (Nat.eqb (w_key w) k) eqn:E.
    + apply Nat.eqb_eq in E. subst k.
      apply in_app_or in Hx. apply in_app_or in Hy.
      destruct Hx as [Hx | [Hx | []]], Hy as [Hy | [Hy | []]].
      * now apply (ps_pair0 (w_key w)).
      * subst y. cbn. apply ps_same0 in Hx. tauto.
      * subst x. cbn. apply ps_same0 in Hy. destruct Hy. split; congruence.
      * subst x y. tauto.
    + rewrite app_nil_r in Hx, Hy. now apply (ps_pair0 k).
  - intros x Hx. apply in_app_or in Hx. destruct Hx as [Hx | [Hx | []]]; [now apply ps_nonce0|].
    subst x. cbn. exact Hnonce.
Qed.

Lemma PSw_step : forall p w L e, PSw w L -> guardw w e = true ->
  PSw (fst (wstep p w e)) (L ++ olist (snd (wstep p w e))).
Proof.
  intros p w L e P G. destruct e as [a iv | rt | ok |].
  - (* activation: a new key ordinal, sequence number zero *)
    cbn [wstep fst snd olist]. rewrite app_nil_r. destruct P.
    assert (Hnone : filter (keyf (S (w_key w))) L = []).
    { apply filter_keyf_none. intros x Hx. apply ps_le0 in Hx. lia. }
    constructor; cbn [w_alg w_key w_iv w_seq w_pend]; try assumption.
    + reflexivity.
    + repeat constructor.
    + rewrite Hnone. reflexivity.
    + intros _. split; [exact Hnone | reflexivity].
    + intros x Hx. apply ps_le0 in Hx. lia.
    + intros x Hx. rewrite Hnone in Hx. destruct Hx.
  - (* seal *)
    cbn [wstep]. destruct (w_alg w) eqn:Ea.
    + cbn [fst snd olist]. now rewrite app_nil_r.
    + cbn [fst snd olist]. rewrite <- Ea. eapply PSw_seal; try eassumption; try congruence; try (now rewrite Ea).
    + cbn [fst snd olist]. rewrite <- Ea. eapply PSw_seal; try eassumption; try congruence; try (now rewrite Ea).
    + cbn [fst snd olist]. rewrite <- Ea. eapply PSw_seal; try eassumption; try congruence; try (now rewrite Ea).
    + cbn [fst snd olist]. rewrite <- Ea. eapply PSw_seal; try eassumption; try congruence; try (now rewrite Ea).
  - (* IV draw: sequence numbers untouched *)
    cbn [wstep]. destruct ok; cbn [fst snd olist]; rewrite app_nil_r; [|assumption].
    destruct P. constructor; cbn [w_alg w_key w_iv w_seq w_pend]; assumption.
  - (* early-data read keys: only while the null cipher is active *)
    cbn [wstep fst snd olist]. rewrite app_nil_r. cbn [guardw] in G.
    destruct (w_alg w) eqn:Ea; try discriminate. destruct P.
    destruct (ps_null0 Ea) as [Hnil Hz].
    constructor; cbn [w_alg w_key w_iv w_seq w_pend]; try assumption.
    + reflexivity.
    + repeat constructor.
    + rewrite Hnil. reflexivity.
    + intros _. split; [exact Hnil | reflexivity].
    + rewrite Ea in ps_same0. exact ps_same0.
Qed.

Definition PS (c : cstate) (l : list (side * seal)) : Prop := forall s, PSw (getw c s) (side_seals s l).

Lemma side_dec : forall a b : side, {a = b} + {a <> b}.
Proof. decide equality. Qed.

Lemma exec_PS : forall evs c l ok, exec evs = (c, l, ok) -> ok = true -> PS c l.
Proof.
  induction evs as [|e evs IH] using rev_ind; intros c l ok H Hok.
  - cbn in H. injection H as <- <- _. intro s. destruct s; apply PSw_init.
  - rewrite exec_snoc in H. destruct (exec evs) as [[c0 l0] ok0]. cbn [exec1] in H.
    destruct (step c0 e) as [c1 o] eqn:Es. injection H as <- <- Hk. subst ok.
    apply andb_prop in Hok. destruct Hok as [Hok0 Hg]. specialize (IH c0 l0 ok0 eq_refl Hok0).
    destruct e as [s0 we|].
    + intro s. destruct (side_dec s0 s) as [-> | Hne].
      * pose proof (step_getw_same c0 s we) as G1. pose proof (step_out c0 s we) as G2. rewrite Es in G1, G2. cbn [fst snd] in G1, G2.
        rewrite G1, G2, side_seals_step_same. apply PSw_step; [apply IH | exact Hg].
      * pose proof (step_getw_other c0 s0 s we Hne) as G1. pose proof (step_out c0 s0 we) as G2. rewrite Es in G1, G2. cbn [fst snd] in G1, G2.
        rewrite G1, G2, side_seals_step_other by exact Hne. apply IH.
    + cbn [step] in Es. injection Es as <- <-. cbn [olist]. rewrite app_nil_r. intro s. specialize (IH s). destruct s; exact IH.
Qed.

(* ------------------------------------------------------------------ main results on sequence numbers and nonces *)
Lemma seals_of_keyf : forall s k l, seals_of s k l = filter (keyf k) (side_seals s l).
Proof. reflexivity. Qed.

Theorem exec_seq_counts : forall evs c l, exec evs = (c, l, true) -> seq_counts l.
Proof.
  intros evs c l H s k i x Hx. pose proof (exec_PS evs c l true H eq_refl s) as P.
  rewrite seals_of_keyf in Hx. now apply (ps_cnt _ _ P k).
Qed.

Theorem exec_seq_strict : forall evs c l, exec evs = (c, l, true) -> seq_strict l.
Proof.
  intros evs c l H s k i j x y Hij Hj Hx Hy.
  destruct (exec_seq_counts evs c l H s k i x Hx) as [Vx _].
  destruct (exec_seq_counts evs c l H s k j y Hy) as [Vy _].
  rewrite Vx, Vy. rewrite !N.mod_small; lia.
Qed.

Theorem exec_nonce_unique : forall evs c l, exec evs = (c, l, true) -> nonce_unique l.
Proof.
  intros evs c l H s k i j x y Hij Hi Hj Hx Hy Ha Heq.
  pose proof (exec_PS evs c l true H eq_refl s) as P.
  destruct (exec_seq_counts evs c l H s k i x Hx) as [Vx Lx].
  destruct (exec_seq_counts evs c l H s k j y Hy) as [Vy Ly].
  rewrite seals_of_keyf in Hx, Hy.
  pose proof (nth_error_In _ _ Hx) as Ix. pose proof (nth_error_In _ _ Hy) as Iy.
  destruct (ps_pair _ _ P k x y Ix Iy) as [Ea Ei].
  apply filter_In in Ix. apply filter_In in Iy. destruct Ix as [Ix _], Iy as [Iy _].
  rewrite (ps_nonce _ _ P x Ix), (ps_nonce _ _ P y Iy) in Heq. rewrite <- Ea, <- Ei in Heq.
  apply nonce_of_inj in Heq; [| exact Ha | congruence].
  rewrite Heq in Vx. rewrite Vx in Vy. rewrite !N.mod_small in Vy by assumption.
  apply Nat2N.inj in Vy. congruence.
Qed.

(* ------------------------------------------------------------------ what may move a sequence number
   Within one key activation (the writer's key ordinal does not change over the step) a step either leaves the write
   sequence number alone and seals nothing for that writer, or seals exactly one record that binds the old value and
   advances it by the increment loop.  Only WActivate (sslActivateWriteCipher) sets it back to zero, and it changes the
   key.  (WEarlyReadReset is admitted by the caller fact only under the null cipher, where the number is zero already.) *)
Theorem exec_seq_moves : forall evs c l e, exec evs = (c, l, true) -> guard c e = true ->
  forall s, w_key (getw (fst (step c e)) s) = w_key (getw c s) ->
    (w_seq (getw (fst (step c e)) s) = w_seq (getw c s) /\ forall x, snd (step c e) <> Some (s, x)) \/
    (w_seq (getw (fst (step c e)) s) = incr_seq (w_seq (getw c s)) /\
     exists x, snd (step c e) = Some (s, x) /\ s_seq x = w_seq (getw c s) /\ s_key x = w_key (getw c s)).
Proof.
  intros evs c l e H G s Hk. pose proof (exec_PS evs c l true H eq_refl s) as P.
  destruct e as [s0 we|].
  2:{ left. cbn [step fst snd]. split; [destruct s; reflexivity | intros x Hx; discriminate]. }
  destruct (side_dec s0 s) as [-> | Hne].
  - rewrite step_getw_same in *. rewrite step_out. cbn [guard] in G.
    destruct we as [a iv | rt | ok |]; cbn [wstep fst snd] in *.
    + cbn [w_key] in Hk. exfalso. revert Hk. clear. intro Hk. induction (w_key (getw c s)); [discriminate | injection Hk; auto].
    + destruct (w_alg (getw c s)) eqn:Ea; cbn [fst snd w_seq].
      * left. split; [reflexivity | intros x Hx; discriminate].
      * right. split; [reflexivity|]. eexists. split; [reflexivity|]. cbn. tauto.
      * right. split; [reflexivity|]. eexists. split; [reflexivity|]. cbn. tauto.
      * right. split; [reflexivity|]. eexists. split; [reflexivity|]. cbn. tauto.
      * right. split; [reflexivity|]. eexists. split; [reflexivity|]. cbn. tauto.
    + left. destruct ok; cbn [fst snd w_seq]; (split; [reflexivity | intros x Hx; discriminate]).
    + left. cbn [guardw] in G. destruct (w_alg (getw c s)) eqn:Ea; try discriminate.
      destruct (ps_null _ _ P Ea) as [_ Hz]. cbn [w_seq]. split; [now rewrite Hz | intros x Hx; discriminate].
  - rewrite step_getw_other by exact Hne. left. split; [reflexivity|].
    intros x Hx. rewrite step_out in Hx. destruct (snd (wstep (c_pidx c) (getw c s0) we)); [injection Hx as Hs _; congruence | discriminate].
Qed.

(* ------------------------------------------------------------------ CBC explicit IVs *)
Definition pendl (w : wstate) : list nat := olist (w_pend w).
Definition pends (c : cstate) : list nat := pendl (c_cl c) ++ pendl (c_sv c).

Record PI (c : cstate) (l : list (side * seal)) : Prop := {
  pi_lt : Forall (fun j => (j < c_pidx c)%nat) (all_ivs l ++ pends c);
  pi_sorted : forall s, StronglySorted lt (ivs_of s l ++ pendl (getw c s));
  pi_nodup : NoDup (all_ivs l ++ pends c);
  pi_cbc : forall s x, In x (side_seals s l) -> s_alg x = ACbc true -> exists j, s_iv x = IvPrng j
}.

Lemma ssorted_snoc : forall l b, StronglySorted lt l -> Forall (fun a => (a < b)%nat) l -> StronglySorted lt (l ++ [b]).
Proof.
  induction l as [|a l IH]; intros b S F; cbn.
  - constructor; constructor.
  - inversion S as [|? ? S' Fa]; subst. inversion F as [|? ? Hab F']; subst.
    constructor; [now apply IH|]. apply Forall_app. split; [exact Fa | constructor; [exact Hab | constructor]].
Qed.

Lemma ssorted_prefix : forall l m, StronglySorted lt (l ++ m) -> StronglySorted lt l.
Proof.
  induction l as [|a l IH]; intros m S; [constructor|].
  cbn in S. inversion S as [|? ? S' Fa]; subst. constructor; [eapply IH; eassumption|].
  apply Forall_app in Fa. tauto.
Qed.

Lemma all_ivs_app : forall l m, all_ivs (l ++ m) = all_ivs l ++ all_ivs m.
Proof. intros. unfold all_ivs. now rewrite map_app, flat_map_app. Qed.

Lemma ivs_of_step_same : forall s l (o : option seal),
  ivs_of s (l ++ olist (match o with Some x => Some (s, x) | None => None end)) = ivs_of s l ++ flat_map iv_index (olist o).
Proof. intros. unfold ivs_of. now rewrite side_seals_step_same, flat_map_app. Qed.

Lemma ivs_of_step_other : forall s s' l (o : option seal), s <> s' ->
  ivs_of s' (l ++ olist (match o with Some x => Some (s, x) | None => None end)) = ivs_of s' l.
Proof. intros. unfold ivs_of. now rewrite side_seals_step_other. Qed.

Lemma all_ivs_step : forall s l (o : option seal),
  all_ivs (l ++ olist (match o with Some x => Some (s, x) | None => None end)) = all_ivs l ++ flat_map iv_index (olist o).
Proof. intros. rewrite all_ivs_app. destruct o; reflexivity. Qed.

Lemma ivs_of_sub : forall s l j, In j (ivs_of s l) -> In j (all_ivs l).
Proof.
  intros s l j H. unfold ivs_of in H. unfold all_ivs. apply in_flat_map in H. destruct H as (x & Hx & Hj).
  apply in_flat_map. exists x. split; [|exact Hj].
  unfold side_seals in Hx. apply in_map_iff in Hx. destruct Hx as (p & <- & Hp). apply filter_In in Hp.
  apply in_map. tauto.
Qed.

Lemma Forall_lt_S : forall l n, Forall (fun j => (j < n)%nat) l -> Forall (fun j => (j < S n)%nat) l.
Proof. intros l n H. eapply Forall_impl; [|exact H]. cbn. intros. lia. Qed.

Lemma PI_init : PI c_init [].
Proof.
  constructor; cbn.
  - constructor.
  - intros []; constructor.
  - constructor.
  - intros s x [].
Qed.

(* what one writer event does to the pending slot and to the emitted IV index *)
Lemma wstep_iv_cases : forall p w e,
  let w' := fst (wstep p w e) in let o := snd (wstep p w e) in
  (* nothing emitted, slot unchanged *)
  (flat_map iv_index (olist o) = [] /\ w_pend w' = w_pend w /\ draws e = false) \/
  (* the slot is consumed: its index (if any) is emitted *)
  (flat_map iv_index (olist o) = pendl w /\ w_pend w' = None /\ draws e = false) \/
  (* the slot is dropped *)
  (flat_map iv_index (olist o) = [] /\ w_pend w' = None /\ draws e = false) \/
  (* a successful draw: the slot now holds the current PRNG index *)
  (flat_map iv_index (olist o) = [] /\ w_pend w' = Some p /\ draws e = true).
Proof.
  intros p w e. destruct e as [a iv | rt | ok |]; cbn [wstep draws].
  - left. cbn. tauto.
  - destruct (w_alg w) as [| | | | eiv] eqn:Ea; cbn [fst snd olist flat_map iv_index s_iv app]; try (left; tauto).
    destruct eiv.
    + right; left. unfold pendl. destruct (w_pend w); cbn; tauto.
    + right; right; left. cbn. tauto.
  - destruct ok; cbn [fst snd olist flat_map w_pend].
    + right; right; right. tauto.
    + left. tauto.
  - left. cbn. tauto.
Qed.

Lemma pends_setw : forall c s w, pends (setw c s w) =
  match s with Cl => pendl w ++ pendl (c_sv c) | Sv => pendl (c_cl c) ++ pendl w end.
Proof. intros c [] w; reflexivity. Qed.

Lemma NoDup_app_remove_mid : forall {A} (a b c : list A), NoDup (a ++ b ++ c) -> NoDup (a ++ c).
Proof.
  intros A a b c H. induction b as [|x b IH]; [exact H|].
  apply IH. cbn in H. now apply NoDup_remove_1 in H.
Qed.

Lemma nodup_app_l : forall {A} (a b : list A), NoDup (a ++ b) -> NoDup a.
Proof. intros A a b H. rewrite <- (app_nil_r b) in H. apply NoDup_app_remove_mid in H. now rewrite app_nil_r in H. Qed.

Lemma Forall_app_remove_mid : forall {A} (P : A -> Prop) (a b c : list A), Forall P (a ++ b ++ c) -> Forall P (a ++ c).
Proof. intros A P a b c H. rewrite !Forall_app in *. tauto. Qed.

Lemma exec_PI : forall evs c l ok, exec evs = (c, l, ok) -> ok = true -> PI c l.
Proof.
  induction evs as [|e evs IH] using rev_ind; intros c l ok H Hok.
  - cbn in H. injection H as <- <- _. apply PI_init.
  - rewrite exec_snoc in H. destruct (exec evs) as [[c0 l0] ok0]. cbn [exec1] in H.
    destruct (step c0 e) as [c1 o] eqn:Es. injection H as <- <- Hk. subst ok.
    apply andb_prop in Hok. destruct Hok as [Hok0 Hg]. specialize (IH c0 l0 ok0 eq_refl Hok0).
    destruct e as [s0 we|].
    2:{ (* a foreign draw: only the PRNG index moves *)
        cbn [step] in Es. injection Es as <- <-. cbn [olist]. rewrite app_nil_r. destruct IH.
        constructor; try assumption.
        apply Forall_lt_S. exact pi_lt0. }
    pose proof (step_out c0 s0 we) as Go. rewrite Es in Go. cbn [snd] in Go. subst o.
    pose proof (wstep_iv_cases (c_pidx c0) (getw c0 s0) we) as Cases. cbn zeta in Cases.
    assert (Hc1 : c1 = (if draws we then bump (setw c0 s0 (fst (wstep (c_pidx c0) (getw c0 s0) we)))
                        else setw c0 s0 (fst (wstep (c_pidx c0) (getw c0 s0) we)))).
    { rewrite <- step_state, Es. reflexivity. }
    set (w' := fst (wstep (c_pidx c0) (getw c0 s0) we)) in *.
    set (o' := snd (wstep (c_pidx c0) (getw c0 s0) we)) in *.
    (* the CBC guard gives the first component of freshness *)
    assert (Hcbc : forall s x, In x (side_seals s (l0 ++ olist (match o' with Some x => Some (s0, x) | None => None end))) ->
                               s_alg x = ACbc true -> exists j, s_iv x = IvPrng j).
    { intros s x Hx Ha. destruct (side_dec s0 s) as [<- | Hne].
      - rewrite side_seals_step_same in Hx. apply in_app_or in Hx. destruct Hx as [Hx | Hx]; [now apply (pi_cbc _ _ IH s0)|].
        subst o'. destruct we as [a iv | rt | okd |]; cbn [wstep snd olist] in Hx; try (destruct okd); try contradiction.
        cbn [guard guardw] in Hg.
        destruct (w_alg (getw c0 s0)) as [| | | | eiv] eqn:Ea; cbn [snd olist] in Hx; try contradiction;
          destruct Hx as [<- | []]; cbn [s_alg] in Ha; try congruence.
        injection Ha as ->. cbn [s_iv]. destruct (w_pend (getw c0 s0)); [eauto | discriminate].
      - rewrite side_seals_step_other in Hx by exact Hne. now apply (pi_cbc _ _ IH s). }
    destruct IH.
    assert (Hsub : forall s, Forall (fun j => (j < c_pidx c0)%nat) (ivs_of s l0)).
    { intro s. apply Forall_forall. intros j Hj. apply ivs_of_sub in Hj.
      rewrite Forall_forall in pi_lt0. apply pi_lt0. apply in_or_app. now left. }
    destruct Cases as [(Ho & Hp & Hd) | [(Ho & Hp & Hd) | [(Ho & Hp & Hd) | (Ho & Hp & Hd)]]];
      rewrite Hd in Hc1; subst c1.
    + (* nothing emitted, slot unchanged *)
      assert (Hpl : pendl w' = pendl (getw c0 s0)) by (unfold pendl; now rewrite Hp).
      constructor; try exact Hcbc.
      * rewrite all_ivs_step, Ho, app_nil_r, pends_setw. destruct s0; cbn [getw] in Hpl; rewrite Hpl; exact pi_lt0.
      * intro s. destruct (side_dec s0 s) as [<- | Hne].
        -- rewrite ivs_of_step_same, Ho, app_nil_r. replace (getw (setw c0 s0 w') s0) with w' by (destruct s0; reflexivity).
           rewrite Hpl. apply pi_sorted0.
        -- rewrite ivs_of_step_other by exact Hne. replace (getw (setw c0 s0 w') s) with (getw c0 s) by (destruct s0, s; congruence || reflexivity).
           apply pi_sorted0.
      * rewrite all_ivs_step, Ho, app_nil_r, pends_setw. destruct s0; cbn [getw] in Hpl; rewrite Hpl; exact pi_nodup0.
    + (* the slot is consumed *)
      assert (Hpl : pendl w' = []) by (unfold pendl; now rewrite Hp).
      constructor; try exact Hcbc.
      * rewrite all_ivs_step, Ho, pends_setw, Hpl. unfold pends in pi_lt0.
        destruct s0; cbn [getw]; cbn [c_pidx setw].
        -- rewrite <- app_assoc. exact pi_lt0.
        -- rewrite app_nil_r. rewrite !Forall_app in *. tauto.
      * intro s. destruct (side_dec s0 s) as [<- | Hne].
        -- rewrite ivs_of_step_same, Ho. replace (getw (setw c0 s0 w') s0) with w' by (destruct s0; reflexivity).
           rewrite Hpl, app_nil_r. apply pi_sorted0.
        -- rewrite ivs_of_step_other by exact Hne. replace (getw (setw c0 s0 w') s) with (getw c0 s) by (destruct s0, s; congruence || reflexivity).
           apply pi_sorted0.
      * rewrite all_ivs_step, Ho, pends_setw, Hpl. unfold pends in pi_nodup0.
        destruct s0; cbn [getw].
        -- rewrite <- app_assoc. exact pi_nodup0.
        -- rewrite app_nil_r. rewrite <- app_assoc.
           eapply Permutation_NoDup; [|exact pi_nodup0].
           apply Permutation_app_head. apply Permutation_app_comm.
    + (* the slot is dropped *)
      assert (Hpl : pendl w' = []) by (unfold pendl; now rewrite Hp).
      constructor; try exact Hcbc.
      * rewrite all_ivs_step, Ho, app_nil_r, pends_setw, Hpl. unfold pends in pi_lt0.
        destruct s0; cbn [c_pidx setw app]; rewrite ?app_nil_r; rewrite !Forall_app in *; tauto.
      * intro s. destruct (side_dec s0 s) as [<- | Hne].
        -- rewrite ivs_of_step_same, Ho, app_nil_r. replace (getw (setw c0 s0 w') s0) with w' by (destruct s0; reflexivity).
           rewrite Hpl, app_nil_r. eapply ssorted_prefix. apply pi_sorted0.
        -- rewrite ivs_of_step_other by exact Hne. replace (getw (setw c0 s0 w') s) with (getw c0 s) by (destruct s0, s; congruence || reflexivity).
           apply pi_sorted0.
      * rewrite all_ivs_step, Ho, app_nil_r, pends_setw, Hpl. unfold pends in pi_nodup0.
        destruct s0.
        -- cbn [app]. eapply (NoDup_app_remove_mid _ (pendl (c_cl c0))). exact pi_nodup0.
        -- rewrite app_nil_r. rewrite app_assoc in pi_nodup0. eapply nodup_app_l. exact pi_nodup0.
    + (* a successful draw *)
      assert (Hpl : pendl w' = [c_pidx c0]) by (unfold pendl; now rewrite Hp).
      assert (Hfresh : ~ In (c_pidx c0) (all_ivs l0 ++ pends c0)).
      { intro Hin. rewrite Forall_forall in pi_lt0. apply pi_lt0 in Hin. lia. }
      constructor; try exact Hcbc.
      * rewrite all_ivs_step, Ho, app_nil_r. unfold pends in *. apply Forall_lt_S in pi_lt0.
        destruct s0; cbn [bump setw c_pidx c_cl c_sv]; rewrite Hpl; rewrite !Forall_app in *; repeat split; try tauto;
          constructor; try lia; constructor.
      * intro s. destruct (side_dec s0 s) as [<- | Hne].
        -- rewrite ivs_of_step_same, Ho, app_nil_r.
           replace (getw (bump (setw c0 s0 w')) s0) with w' by (destruct s0; reflexivity).
           rewrite Hpl. apply ssorted_snoc; [eapply ssorted_prefix; apply pi_sorted0 | apply Hsub].
        -- rewrite ivs_of_step_other by exact Hne.
           replace (getw (bump (setw c0 s0 w')) s) with (getw c0 s) by (destruct s0, s; congruence || reflexivity).
           apply pi_sorted0.
      * rewrite all_ivs_step, Ho, app_nil_r. unfold pends in *.
        destruct s0; cbn [bump setw c_cl c_sv]; rewrite Hpl.
        -- apply NoDup_app_remove_mid in pi_nodup0.
           change (NoDup (all_ivs l0 ++ c_pidx c0 :: pendl (c_sv c0))). apply NoDup_Add with (a := c_pidx c0) (l := all_ivs l0 ++ pendl (c_sv c0)).
           ++ apply Add_app.
           ++ split; [exact pi_nodup0|]. intro Hin. apply Hfresh. apply in_app_or in Hin. apply in_or_app.
              destruct Hin; [now left | right; apply in_or_app; now right].
        -- rewrite app_assoc. rewrite app_assoc in pi_nodup0.
           apply NoDup_Add with (a := c_pidx c0) (l := (all_ivs l0 ++ pendl (c_cl c0)) ++ []).
           ++ apply Add_app.
           ++ rewrite app_nil_r. split; [eapply nodup_app_l; exact pi_nodup0|].
              intro Hin. apply Hfresh. rewrite app_assoc. apply in_or_app. now left.
Qed.

Theorem exec_cbc_iv_fresh : forall evs c l, exec evs = (c, l, true) -> cbc_iv_fresh l.
Proof.
  intros evs c l H. pose proof (exec_PI evs c l true H eq_refl) as P. destruct P.
  repeat split.
  - exact pi_cbc0.
  - intro s. eapply ssorted_prefix. apply pi_sorted0.
  - eapply nodup_app_l. exact pi_nodup0.
Qed.

(* over any PRNG stream: the explicit IV block of every TLS >= 1.1 CBC record IS an output of the stream *)
Theorem exec_explicit_iv_is_prng_output : forall (prng : nat -> list N) evs c l, exec evs = (c, l, true) ->
  forall s x, In x (side_seals s l) -> s_alg x = ACbc true -> exists j, explicit_iv prng x = Some (prng j) /\ In j (ivs_of s l).
Proof.
  intros prng evs c l H s x Hx Ha. destruct (exec_cbc_iv_fresh evs c l H) as (F1 & _ & _).
  destruct (F1 s x Hx Ha) as [j Hj]. exists j. unfold explicit_iv. rewrite Hj. split; [reflexivity|].
  unfold ivs_of. apply in_flat_map. exists x. split; [exact Hx|]. unfold iv_index. rewrite Hj. now left.
Qed.

(* ------------------------------------------------------------------ non-vacuity and necessity of the caller facts *)
Definition iv12 : list N := [1; 2; 3; 4; 5; 6; 7; 8; 9; 10; 11; 12].
Definition iv4 : list N := [170; 187; 204; 221].

(* a TLS 1.3 server with accepted early data: ER, handshake keys, flight, application keys, ticket, data, alert *)
Definition ex_tls13 : list event :=
  [EvDraw; EvW Sv WEarlyReadReset; EvW Sv (WSeal 22) (* ServerHello: null cipher *);
   EvW Sv (WActivate AAead13 iv12); EvW Sv (WSeal 22); EvW Sv (WSeal 22); EvW Sv (WActivate AAead13 iv4);
   EvW Cl (WActivate AAead13 iv12); EvW Cl (WSeal 23); EvW Cl (WSeal 23); EvW Cl (WSeal 22);
   EvW Cl (WActivate AAead13 iv12); EvW Cl (WSeal 22); EvW Cl (WActivate AAead13 iv12);
   EvW Sv (WSeal 22); EvW Cl (WSeal 23); EvW Sv (WSeal 23); EvW Cl (WSeal 21)].
Example ex_tls13_ok : snd (exec ex_tls13) = true /\ length (snd (fst (exec ex_tls13))) = 10%nat.
Proof. vm_compute. split; reflexivity. Qed.

(* a TLS 1.2 CBC connection: Finished IV drawn before the key is activated, then data both ways *)
Definition ex_cbc : list event :=
  [EvDraw; EvDraw; EvW Cl (WDrawIv true); EvW Cl (WActivate (ACbc true) iv12); EvW Cl (WSeal 22);
   EvW Sv (WDrawIv true); EvW Sv (WActivate (ACbc true) iv12); EvW Sv (WSeal 22);
   EvW Cl (WDrawIv true); EvW Sv (WDrawIv true); EvW Sv (WSeal 23); EvW Cl (WSeal 23); EvW Cl (WDrawIv true); EvW Cl (WSeal 21)].
Example ex_cbc_ok : snd (exec ex_cbc) = true /\ all_ivs (snd (fst (exec ex_cbc))) = [2; 3; 5; 4; 6]%nat.
Proof. vm_compute. split; reflexivity. Qed.

(* a 64-bit wrap: the increment loop takes ff..ff to 00..00 *)
Example incr_wraps : incr_seq [255; 255; 255; 255; 255; 255; 255; 255] = zero_seq /\ incr_seq [0; 0; 0; 0; 0; 0; 1; 255] = [0; 0; 0; 0; 0; 0; 2; 0].
Proof. vm_compute. split; reflexivity. Qed.

(* without the first caller fact the property fails: zeroing the sequence number under an active key repeats a nonce *)
Lemma reset_under_key_reuses_nonce : exists evs c l x y,
  exec evs = (c, l, false) /\ nth_error (seals_of Sv 1 l) 0 = Some x /\ nth_error (seals_of Sv 1 l) 1 = Some y /\
  is_aead (s_alg x) = true /\ s_nonce x = s_nonce y.
Proof.
  exists [EvW Sv (WActivate AAead13 iv12); EvW Sv (WSeal 22); EvW Sv WEarlyReadReset; EvW Sv (WSeal 23)].
  eexists. eexists. eexists. eexists. vm_compute. repeat split; reflexivity.
Qed.

(* without the second one (a failed psGetPrngLocked that is only logged, as in the tree at the pin) a TLS >= 1.1 CBC record goes
   out with whatever the buffer held *)
Lemma failed_draw_gives_stale_iv : exists evs c l x,
  exec evs = (c, l, false) /\ nth_error (side_seals Cl l) 1 = Some x /\ s_alg x = ACbc true /\ s_iv x = IvStale.
Proof.
  exists [EvW Cl (WDrawIv true); EvW Cl (WActivate (ACbc true) iv12); EvW Cl (WSeal 22); EvW Cl (WDrawIv false); EvW Cl (WSeal 23)].
  eexists. eexists. eexists. vm_compute. repeat split; reflexivity.
Qed.
