(* C11 - instantiations used only by the extracted correspondence driver: the PSS model with the
   Gallina digests of coq/Crypto (C12) plugged in for the Section variable H. *)
From Coq Require Import List NArith ZArith Bool.
From MV Require Import Gen.ConstsPk Pk.PkModel Crypto.CryptoSpec.
Import ListNotations.

Definition pss_hash (hashId : Z) : option (list N -> list N) :=
  if (hashId =? Z.of_N pkn_PKCS1_SHA1_ID)%Z then Some sha1_spec
  else if (hashId =? Z.of_N pkn_PKCS1_MD5_ID)%Z then Some md5_spec
  else if (hashId =? Z.of_N pkn_PKCS1_SHA256_ID)%Z then Some sha256_spec
  else if (hashId =? Z.of_N pkn_PKCS1_SHA384_ID)%Z then Some sha384_spec
  else if (hashId =? Z.of_N pkn_PKCS1_SHA512_ID)%Z then Some sha512_spec
  else None.

(* psPkcs1PssDecode with hash_idx resolved (PS_UNSUPPORTED_FAIL for an unknown id) *)
Definition pss_decode_id (hashId : Z) (mhash em : list N) (saltlen modbits : nat) : res bool :=
  match pss_hash hashId, pss_hashlen hashId with
  | Some H, Some hl => pss_decode H hl mhash em saltlen modbits
  | _, _ => Err pk_PS_UNSUPPORTED_FAIL
  end.

(* psVerifySig with opts->useRsaPss *)
Definition verify_sig_pss (crypt : list N -> res (list N)) (hashId : Z) (k : nat) (msg sig : list N) (saltlen : nat) : res unit :=
  match pss_hash hashId, pss_hashlen hashId with
  | Some H, Some hl => rsa_pss_verify H hl crypt k msg sig saltlen
  | _, _ =>
    (* the length test and psRsaCrypt come first; psPkcs1PssDecode then fails with PS_UNSUPPORTED_FAIL -> PS_FAILURE *)
    if negb (length sig =? k) then Err pk_PS_ARG_FAIL else
    match crypt sig with Ok _ => Err pk_PS_FAILURE | Err e => Err e | Fault => Fault | OutOfFuel => OutOfFuel end
  end.
