(* C11 - lemmas and main theorems about Pk/PkModel.v against Pk/PkSpec.v *)
From Coq Require Import List NArith ZArith Bool Arith Lia.
From MV Require Import Gen.ConstsPk Pk.PkModel Pk.PkSpec.
Import ListNotations.

(* ------------------------------------------------------------------------------------------ *)
(* generic list facts *)

Lemma bytes_eqb_eq : forall a b, bytes_eqb a b = true <-> a = b.
Proof.
  induction a as [|x a IH]; destruct b as [|y b]; simpl; split; intro H; try congruence; try discriminate.
  - apply andb_true_iff in H. destruct H as [H1 H2]. apply N.eqb_eq in H1. apply IH in H2. congruence.
  - inversion H; subst. apply andb_true_iff. split; [apply N.eqb_refl | apply IH; reflexivity].
Qed.

Lemma bytes_eqb_refl : forall a, bytes_eqb a a = true.
Proof. intro a. apply bytes_eqb_eq. reflexivity. Qed.

Lemma nth_error_skipn_cons : forall (A : Type) (l : list A) c x,
  nth_error l c = Some x -> skipn c l = x :: skipn (S c) l.
Proof.
  induction l as [|a l IH]; intros [|c] x H; simpl in *; try discriminate.
  - congruence.
  - apply IH. exact H.
Qed.

Lemma nth_error_app_mid : forall (A : Type) (pre : list A) x rest,
  nth_error (pre ++ x :: rest) (length pre) = Some x.
Proof. intros. rewrite nth_error_app2 by lia. rewrite Nat.sub_diag. reflexivity. Qed.

Lemma skipn_app_exact : forall (A : Type) (a b : list A), skipn (length a) (a ++ b) = b.
Proof. intros. rewrite skipn_app, skipn_all, Nat.sub_diag. reflexivity. Qed.

Lemma firstn_app_exact : forall (A : Type) (a b : list A), firstn (length a) (a ++ b) = a.
Proof. intros. rewrite firstn_app, firstn_all, Nat.sub_diag. simpl. apply app_nil_r. Qed.

(* ------------------------------------------------------------------------------------------ *)
(* the padding scan *)

Definition PUB := pkn_PS_PUBKEY.
Definition PRIV := pkn_PS_PRIVKEY.

Lemma skip_pad_no_fault : forall fuel typ em c, skip_pad fuel typ em c <> Fault.
Proof.
  induction fuel as [|f IH]; intros typ em c; simpl; [discriminate|].
  destruct (c <? length em) eqn:Hc; simpl; [|discriminate].
  apply Nat.ltb_lt in Hc.
  destruct (nth_error em c) as [x|] eqn:Hx.
  - destruct (x =? 0)%N; [discriminate|].
    destruct ((typ =? pkn_PS_PUBKEY)%N && negb (x =? 255)%N); [discriminate|apply IH].
  - apply nth_error_None in Hx. lia.
Qed.

Lemma skip_pad_fuel : forall fuel typ em c, length em - c < fuel -> skip_pad fuel typ em c <> OutOfFuel.
Proof.
  induction fuel as [|f IH]; intros typ em c Hf; [lia|]. simpl.
  destruct (c <? length em) eqn:Hc; simpl; [|discriminate].
  apply Nat.ltb_lt in Hc.
  destruct (nth_error em c) as [x|]; [|discriminate].
  destruct (x =? 0)%N; [discriminate|].
  destruct ((typ =? pkn_PS_PUBKEY)%N && negb (x =? 255)%N); [discriminate|]. apply IH. lia.
Qed.

(* what a successful scan says about the block; [okb] is the per-byte padding condition *)
Definition pad_byte_ok (typ x : N) : Prop := x <> 0%N /\ (typ = pkn_PS_PUBKEY -> x = 255%N).

Lemma skip_pad_ok : forall fuel typ em c c',
  skip_pad fuel typ em c = Ok c' ->
  c <= c' /\ (c <= length em -> c' <= length em) /\
  (exists ps, skipn c em = ps ++ skipn c' em /\ length ps = c' - c /\ Forall (pad_byte_ok typ) ps) /\
  (c' < length em -> nth_error em c' = Some 0%N).
Proof.
  induction fuel as [|f IH]; intros typ em c c' H; simpl in H; [discriminate|].
  destruct (c <? length em) eqn:Hc; simpl in H.
  - apply Nat.ltb_lt in Hc.
    destruct (nth_error em c) as [x|] eqn:Hx; [|discriminate].
    destruct (x =? 0)%N eqn:Hx0.
    + inversion H; subst c'. apply N.eqb_eq in Hx0. subst x.
      repeat split; try lia.
      * exists []. rewrite Nat.sub_diag. repeat split; auto.
      * intros _. exact Hx.
    + destruct ((typ =? pkn_PS_PUBKEY)%N && negb (x =? 255)%N) eqn:Hb; [discriminate|].
      apply IH in H. destruct H as (H1 & H2 & (ps & Hps & Hlen & Hall) & H4).
      repeat split; try lia.
      * exists (x :: ps). rewrite (nth_error_skipn_cons _ _ _ _ Hx), Hps. repeat split.
        -- simpl. lia.
        -- constructor; [|exact Hall]. split.
           ++ apply N.eqb_neq. exact Hx0.
           ++ intro Ht. subst typ. rewrite N.eqb_refl in Hb. simpl in Hb.
              apply negb_false_iff in Hb. apply N.eqb_eq in Hb. exact Hb.
      * exact H4.
  - inversion H; subst c'. apply Nat.ltb_ge in Hc. repeat split; try lia.
    exists []. rewrite Nat.sub_diag. repeat split; auto.
Qed.

Lemma skip_pad_complete : forall ps typ pre rest fuel,
  Forall (pad_byte_ok typ) ps -> length ps < fuel ->
  skip_pad fuel typ (pre ++ ps ++ 0%N :: rest) (length pre) = Ok (length pre + length ps).
Proof.
  induction ps as [|x ps IH]; intros typ pre rest fuel Hall Hf.
  - destruct fuel as [|f]; [simpl in Hf; lia|]. simpl.
    rewrite app_length. simpl.
    replace (length pre <? length pre + S (length rest)) with true by (symmetry; apply Nat.ltb_lt; lia).
    simpl. rewrite nth_error_app_mid. simpl. f_equal. lia.
  - destruct fuel as [|f]; [simpl in Hf; lia|].
    inversion Hall as [|? ? [Hx0 Hxff] Hall']; subst.
    cbn [skip_pad].
    replace (length pre <? length (pre ++ (x :: ps) ++ 0%N :: rest)) with true
      by (symmetry; apply Nat.ltb_lt; rewrite !app_length; simpl; lia).
    cbn [negb]. cbn [app]. rewrite nth_error_app_mid.
    apply N.eqb_neq in Hx0. rewrite Hx0.
    assert (Hb : ((typ =? pkn_PS_PUBKEY)%N && negb (x =? 255)%N) = false).
    { destruct (typ =? pkn_PS_PUBKEY)%N eqn:Ht; [|reflexivity]. apply N.eqb_eq in Ht.
      rewrite (Hxff Ht). reflexivity. }
    rewrite Hb.
    replace (pre ++ x :: ps ++ 0%N :: rest) with ((pre ++ [x]) ++ ps ++ 0%N :: rest)
      by (rewrite <- app_assoc; reflexivity).
    replace (S (length pre)) with (length (pre ++ [x])) by (rewrite app_length; simpl; lia).
    rewrite IH; [|exact Hall'|simpl in Hf; lia]. f_equal. rewrite app_length. simpl. lia.
Qed.

(* ------------------------------------------------------------------------------------------ *)
(* pkcs1UnpadExt *)

(* the general shape accepted by the unpadder, for both block types and both length modes *)
Theorem unpad_iff : forall em outcap outlen typ verify m,
  pkcs1_unpad_ext em outcap outlen typ verify = Ok m <->
  exists ps, em = [0%N; typ] ++ ps ++ [0%N] ++ m /\ Forall (pad_byte_ok typ) ps /\
             length m <= outcap /\
             (if verify then length m = outlen /\ outlen + unpad_min_overhead <= length em
              else length m <= outlen).
Proof.
  intros em outcap outlen typ verify m. unfold pkcs1_unpad_ext. split.
  - intro H.
    destruct (verify && (length em <? outlen + unpad_min_overhead)) eqn:Hv; [discriminate|].
    destruct (nth_error em 0) as [b0|] eqn:H0; [|discriminate].
    destruct (b0 =? 0)%N eqn:Hb0; cbn [negb] in H; [|discriminate]. apply N.eqb_eq in Hb0. subst b0.
    destruct (nth_error em 1) as [b1|] eqn:H1; [|discriminate].
    destruct (b1 =? typ)%N eqn:Hb1; cbn [negb] in H; [|discriminate]. apply N.eqb_eq in Hb1. subst b1.
    destruct (skip_pad (S (length em)) typ em 2) as [c| | |] eqn:Hs; try discriminate.
    destruct (length em <? S c) eqn:Hlen; [discriminate|]. apply Nat.ltb_ge in Hlen.
    destruct (verify && negb (length em - S c =? outlen)) eqn:Hv2; [discriminate|].
    destruct (negb verify && (outlen <? length em - S c)) eqn:Hv3; [discriminate|].
    destruct (outcap <? length em - S c) eqn:Hcap; [discriminate|]. apply Nat.ltb_ge in Hcap.
    apply skip_pad_ok in Hs. destruct Hs as (Hc1 & Hc2 & (ps & Hps & Hpl & Hall) & Hz).
    assert (Hcz : nth_error em c = Some 0%N) by (apply Hz; lia).
    assert (Htl : skipn c em = 0%N :: skipn (S c) em) by (apply nth_error_skipn_cons; exact Hcz).
    assert (Hml : length (skipn (S c) em) = length em - S c) by apply skipn_length.
    remember (skipn (S c) em) as tl eqn:Etl. clear Etl.
    injection H as Hm. subst m.
    exists ps.
    assert (Hem : em = 0%N :: typ :: skipn 2 em).
    { clear - H0 H1. destruct em as [|a [|b r]]; simpl in *; try discriminate. congruence. }
    split; [|split; [exact Hall|split]].
    + rewrite Hem at 1. rewrite Hps, Htl. reflexivity.
    + lia.
    + destruct verify; cbn [andb negb] in *.
      * apply negb_false_iff in Hv2. apply Nat.eqb_eq in Hv2. apply Nat.ltb_ge in Hv. lia.
      * apply Nat.ltb_ge in Hv3. lia.
  - intros (ps & Hem & Hall & Hcap & Hmode).
    assert (Hlen : length em = 3 + length ps + length m).
    { rewrite Hem. simpl. rewrite app_length. simpl. lia. }
    replace (verify && (length em <? outlen + unpad_min_overhead)) with false.
    2:{ symmetry. destruct verify; simpl; [|reflexivity]. apply Nat.ltb_ge. lia. }
    assert (E0 : nth_error em 0 = Some 0%N) by (rewrite Hem; reflexivity).
    assert (E1 : nth_error em 1 = Some typ) by (rewrite Hem; reflexivity).
    rewrite E0, E1. rewrite !N.eqb_refl. cbn [negb].
    assert (Hs : skip_pad (S (length em)) typ em 2 = Ok (2 + length ps)).
    { rewrite Hem at 2. change ([0%N; typ] ++ ps ++ [0%N] ++ m) with ([0%N; typ] ++ ps ++ 0%N :: m).
      change 2 with (length [0%N; typ]) at 1.
      apply skip_pad_complete; [exact Hall | lia]. }
    rewrite Hs.
    replace (length em <? S (2 + length ps)) with false by (symmetry; apply Nat.ltb_ge; lia).
    replace (length em - S (2 + length ps)) with (length m) by lia.
    replace (verify && negb (length m =? outlen)) with false.
    2:{ symmetry. destruct verify; simpl; [|reflexivity]. destruct Hmode as [Hm _]. rewrite Hm, Nat.eqb_refl. reflexivity. }
    replace (negb verify && (outlen <? length m)) with false.
    2:{ symmetry. destruct verify; simpl; [reflexivity|]. apply Nat.ltb_ge. exact Hmode. }
    replace (outcap <? length m) with false by (symmetry; apply Nat.ltb_ge; lia).
    f_equal. rewrite Hem.
    replace (S (2 + length ps)) with (length ([0%N; typ] ++ ps ++ [0%N])) by (rewrite !app_length; simpl; lia).
    replace ([0%N; typ] ++ ps ++ [0%N] ++ m) with (([0%N; typ] ++ ps ++ [0%N]) ++ m)
      by (rewrite <- !app_assoc; reflexivity).
    apply skipn_app_exact.
Qed.

Theorem unpad_no_fault : forall em outcap outlen typ verify,
  2 <= length em -> outlen <= outcap ->
  pkcs1_unpad_ext em outcap outlen typ verify <> Fault /\
  pkcs1_unpad_ext em outcap outlen typ verify <> OutOfFuel.
Proof.
  intros em outcap outlen typ verify Hl Hcap. unfold pkcs1_unpad_ext.
  destruct (verify && (length em <? outlen + unpad_min_overhead)); [split; discriminate|].
  destruct em as [|a [|b r]]; simpl in Hl; try lia. cbn [nth_error].
  destruct (negb (a =? 0)%N); [split; discriminate|].
  destruct (negb (b =? typ)%N); [split; discriminate|].
  remember (a :: b :: r) as em.
  pose proof (skip_pad_no_fault (S (length em)) typ em 2) as Hnf.
  pose proof (skip_pad_fuel (S (length em)) typ em 2) as Hfu.
  destruct (skip_pad (S (length em)) typ em 2) as [c| | |]; try (split; discriminate).
  - destruct (length em <? S c) eqn:Hc; [split; discriminate|]. apply Nat.ltb_ge in Hc.
    destruct (verify && negb (length em - S c =? outlen)) eqn:Hv2; [split; discriminate|].
    destruct (negb verify && (outlen <? length em - S c)) eqn:Hv3; [split; discriminate|].
    replace (outcap <? length em - S c) with false; [split; discriminate|].
    symmetry. apply Nat.ltb_ge. destruct verify; simpl in *.
    + apply negb_false_iff in Hv2. apply Nat.eqb_eq in Hv2. lia.
    + apply Nat.ltb_ge in Hv3. lia.
  - exfalso. apply Hnf. reflexivity.
  - exfalso. apply Hfu; [lia | reflexivity].
Qed.

(* all bytes FF <-> repeat *)
Lemma forall_ff_repeat : forall ps, Forall (pad_byte_ok PUB) ps <-> ps = repeat 255%N (length ps).
Proof.
  induction ps as [|x ps IH]; simpl; split; intro H; auto.
  - inversion H as [|? ? [_ Hx] Hr]; subst. rewrite (Hx eq_refl). f_equal. apply IH. exact Hr.
  - inversion H as [[Hx Hr]]. constructor.
    + split; [discriminate | reflexivity].
    + rewrite <- Hr. apply IH. exact Hr.
Qed.

(* block type 1, no length verification: the whole block is pinned *)
Theorem unpad_pub_iff : forall em outcap outlen m,
  pkcs1_unpad_ext em outcap outlen PUB false = Ok m <->
  length m + 3 <= length em /\ em = emsa_v15 (length em) m /\ length m <= outcap /\ length m <= outlen.
Proof.
  intros. rewrite unpad_iff. unfold emsa_v15. split.
  - intros (ps & Hem & Hall & Hcap & Hol). apply forall_ff_repeat in Hall.
    assert (Hlen : length em = 3 + length ps + length m).
    { rewrite Hem. simpl. rewrite app_length. simpl. lia. }
    repeat split; try lia.
    replace (length em - 3 - length m) with (length ps) by lia. rewrite <- Hall. exact Hem.
  - intros (Hl & Hem & Hcap & Hol). exists (repeat 255%N (length em - 3 - length m)).
    repeat split; auto. apply forall_ff_repeat. rewrite repeat_length. reflexivity.
Qed.

(* ------------------------------------------------------------------------------------------ *)
(* facts about the regenerated tables, checked by computation *)

Definition table_consistent : bool :=
  forallb (fun e => forallb (fun hl =>
      negb (fst (fst e) =? fst hl)%N ||
      ((snd (fst e) =? N.of_nat (length (snd e)) + snd hl)%N && (snd (fst e) <=? pkn_DECRYPTED_BUF)%N))
    hashlen_table) digestinfo_table
  && forallb (fun hl => (snd hl <=? pkn_SHA512_HASH_SIZE)%N) hashlen_table.

Lemma table_consistent_ok : table_consistent = true.
Proof. vm_compute. reflexivity. Qed.

Lemma find_prefix_in : forall len alg p,
  get_digest_info_prefix len alg = Some p -> In ((alg, N.of_nat len), p) digestinfo_table.
Proof.
  intros len alg p H. unfold get_digest_info_prefix in H.
  destruct (find _ digestinfo_table) as [[[a l] q]|] eqn:Hf; [|discriminate].
  inversion H; subst q. apply find_some in Hf. destruct Hf as [Hin Hb]. simpl in Hb.
  apply andb_true_iff in Hb. destruct Hb as [Ha Hl]. apply N.eqb_eq in Ha. apply N.eqb_eq in Hl. subst. exact Hin.
Qed.

Lemma valid_hashlen_in : forall hl alg, valid_hashlen_sigalg hl alg = true -> In (alg, N.of_nat hl) hashlen_table.
Proof.
  intros hl alg H. unfold valid_hashlen_sigalg in H. apply existsb_exists in H.
  destruct H as [[a h] [Hin Hb]]. simpl in Hb. apply andb_true_iff in Hb. destruct Hb as [Ha Hh].
  apply N.eqb_eq in Ha. apply N.eqb_eq in Hh. subst. exact Hin.
Qed.

Lemma prefix_len : forall len alg p hl,
  get_digest_info_prefix len alg = Some p -> valid_hashlen_sigalg hl alg = true ->
  len = length p + hl /\ len <= decrypted_buf /\ hl <= out_buf.
Proof.
  intros len alg p hl Hp Hh. apply find_prefix_in in Hp. apply valid_hashlen_in in Hh.
  pose proof table_consistent_ok as T. unfold table_consistent in T. apply andb_true_iff in T. destruct T as [T1 T2].
  rewrite forallb_forall in T1. specialize (T1 _ Hp). rewrite forallb_forall in T1. specialize (T1 _ Hh).
  rewrite forallb_forall in T2. specialize (T2 _ Hh). simpl in T1, T2.
  rewrite N.eqb_refl in T1. simpl in T1. apply andb_true_iff in T1. destruct T1 as [Ta Tb].
  apply N.eqb_eq in Ta. apply N.leb_le in Tb. apply N.leb_le in T2.
  unfold decrypted_buf, out_buf. lia.
Qed.

(* ------------------------------------------------------------------------------------------ *)
(* psVerifySig, RSA PKCS #1 v1.5 *)

Section RSAProofs.
  Variable crypt : list N -> res (list N).

  Theorem verify_di_iff : forall k sig em msg alg,
    crypt sig = Ok em -> length sig = k -> length em = k ->
    (verify_sig_rsa crypt k msg sig alg true = Ok tt <->
     valid_hashlen_sigalg (length msg) alg = true /\
     exists T, get_digest_info_prefix (length T + length msg) alg = Some T /\
               length T + length msg + 3 <= k /\ em = emsa_v15 k (T ++ msg)).
  Proof.
    intros k sig em msg alg Hc Hs He. unfold verify_sig_rsa, decrypt_signed_element_ext, rsa_decrypt_pub_ext.
    cbn [negb andb].
    destruct (length sig =? 0) eqn:Hz.
    { apply Nat.eqb_eq in Hz. split; [discriminate | intros [_ (T & _ & Hl & _)]; lia]. }
    rewrite Hc, Hs, He, !Nat.eqb_refl. cbn [negb].
    destruct (valid_hashlen_sigalg (length msg) alg) eqn:Hv; cbn [negb].
    2:{ split; [discriminate | intros [H _]; discriminate]. }
    split.
    - intro H.
      destruct (pkcs1_unpad_ext em decrypted_buf decrypted_buf pkn_PS_PUBKEY false) as [dec| | |] eqn:Hu; try discriminate.
      destruct (get_digest_info_prefix (length dec) alg) as [prefix|] eqn:Hp; [|discriminate].
      destruct (prefix_len _ _ _ _ Hp Hv) as (Hlen & Hdb & Hob).
      replace (length dec <? length msg) with false in H by (symmetry; apply Nat.ltb_ge; lia).
      replace (length dec - length msg) with (length prefix) in H by lia.
      rewrite Nat.ltb_irrefl in H. rewrite firstn_all in H.
      destruct (bytes_eqb prefix (firstn (length prefix) dec)) eqn:Hpe; [|discriminate].
      apply bytes_eqb_eq in Hpe.
      destruct (out_buf <? length (skipn (length prefix) dec)); [discriminate|].
      destruct (bytes_eqb msg (skipn (length prefix) dec)) eqn:Hme; [|discriminate].
      apply bytes_eqb_eq in Hme.
      assert (Hdec : dec = prefix ++ msg).
      { rewrite <- (firstn_skipn (length prefix) dec). rewrite <- Hpe, <- Hme. reflexivity. }
      apply unpad_pub_iff in Hu. destruct Hu as (Hl3 & Hem & _ & _).
      split; [reflexivity|]. exists prefix. rewrite <- Hlen. repeat split.
      + exact Hp.
      + rewrite <- He. lia.
      + rewrite Hem, He, Hdec. reflexivity.
    - intros [_ (T & Hp & Hl3 & Hem)].
      destruct (prefix_len _ _ _ _ Hp Hv) as (_ & Hdb & Hob).
      assert (Hu : pkcs1_unpad_ext em decrypted_buf decrypted_buf pkn_PS_PUBKEY false = Ok (T ++ msg)).
      { apply unpad_pub_iff. rewrite app_length, He. repeat split; try lia. exact Hem. }
      rewrite Hu. rewrite app_length, Hp.
      replace (length T + length msg <? length msg) with false by (symmetry; apply Nat.ltb_ge; lia).
      replace (length T + length msg - length msg) with (length T) by lia.
      rewrite Nat.ltb_irrefl, firstn_all, firstn_app_exact, bytes_eqb_refl, skipn_app_exact.
      replace (out_buf <? length msg) with false by (symmetry; apply Nat.ltb_ge; lia).
      rewrite bytes_eqb_refl. reflexivity.
  Qed.

  Theorem verify_raw_iff : forall k sig em msg alg,
    crypt sig = Ok em -> length sig = k -> length em = k ->
    (verify_sig_rsa crypt k msg sig alg false = Ok tt <->
     length msg <= out_buf /\ length msg + 3 <= k /\ em = emsa_v15 k msg).
  Proof.
    intros k sig em msg alg Hc Hs He. unfold verify_sig_rsa, rsa_decrypt_pub, rsa_decrypt_pub_ext.
    cbn [negb andb].
    destruct (out_buf <? length msg) eqn:Hob.
    { apply Nat.ltb_lt in Hob. split; [discriminate | intros [H _]; lia]. }
    apply Nat.ltb_ge in Hob.
    destruct (length sig =? 0) eqn:Hz.
    { apply Nat.eqb_eq in Hz. split; [discriminate | intros (_ & Hl & _); lia]. }
    rewrite Hc, Hs, He, !Nat.eqb_refl. cbn [negb]. split.
    - intro H.
      destruct (pkcs1_unpad_ext em out_buf (length msg) pkn_PS_PUBKEY false) as [m| | |] eqn:Hu; try discriminate.
      destruct (length m =? length msg) eqn:Hlm; cbn [negb] in H; [|discriminate].
      destruct (bytes_eqb msg m) eqn:Hme; [|discriminate]. apply bytes_eqb_eq in Hme. subst m.
      apply unpad_pub_iff in Hu. destruct Hu as (Hl3 & Hem & _ & _). rewrite He in *. auto.
    - intros (_ & Hl3 & Hem).
      assert (Hu : pkcs1_unpad_ext em out_buf (length msg) pkn_PS_PUBKEY false = Ok msg).
      { apply unpad_pub_iff. rewrite He. repeat split; try lia. exact Hem. }
      rewrite Hu, Nat.eqb_refl. cbn [negb]. rewrite bytes_eqb_refl. reflexivity.
  Qed.

  Theorem verify_rsa_no_fault : forall k msg sig alg di,
    2 <= k -> crypt sig <> Fault -> crypt sig <> OutOfFuel ->
    verify_sig_rsa crypt k msg sig alg di <> Fault /\ verify_sig_rsa crypt k msg sig alg di <> OutOfFuel.
  Proof.
    intros k msg sig alg di Hk Hnf Hno.
    unfold verify_sig_rsa, decrypt_signed_element_ext, rsa_decrypt_pub, rsa_decrypt_pub_ext.
    destruct di; cbn [negb andb].
    - destruct (length sig =? 0); [split; discriminate|].
      destruct (valid_hashlen_sigalg (length msg) alg) eqn:Hv; cbn [negb]; [|split; discriminate].
      destruct (length sig =? k) eqn:Hs; cbn [negb]; [|split; discriminate]. apply Nat.eqb_eq in Hs.
      destruct (crypt sig) as [em| | |] eqn:Hc; try (split; discriminate); try congruence.
      destruct (length em =? length sig) eqn:He; cbn [negb]; [|split; discriminate]. apply Nat.eqb_eq in He.
      destruct (unpad_no_fault em decrypted_buf decrypted_buf pkn_PS_PUBKEY false) as [U1 U2]; [lia|lia|].
      destruct (pkcs1_unpad_ext em decrypted_buf decrypted_buf pkn_PS_PUBKEY false) as [dec| | |] eqn:Hu;
        try (split; discriminate); try congruence.
      destruct (get_digest_info_prefix (length dec) alg) as [prefix|] eqn:Hp; [|split; discriminate].
      destruct (prefix_len _ _ _ _ Hp Hv) as (Hlen & Hdb & Hob).
      replace (length dec <? length msg) with false by (symmetry; apply Nat.ltb_ge; lia).
      replace (length dec - length msg) with (length prefix) by lia.
      rewrite Nat.ltb_irrefl.
      destruct (bytes_eqb _ _); [|split; discriminate].
      replace (out_buf <? length (skipn (length prefix) dec)) with false
        by (symmetry; apply Nat.ltb_ge; rewrite skipn_length; lia).
      destruct (bytes_eqb _ _); split; discriminate.
    - destruct (out_buf <? length msg) eqn:Hob; [split; discriminate|]. apply Nat.ltb_ge in Hob.
      destruct (length sig =? 0); [split; discriminate|].
      destruct (length sig =? k) eqn:Hs; cbn [negb]; [|split; discriminate]. apply Nat.eqb_eq in Hs.
      destruct (crypt sig) as [em| | |] eqn:Hc; try (split; discriminate); try congruence.
      destruct (length em =? length sig) eqn:He; cbn [negb]; [|split; discriminate]. apply Nat.eqb_eq in He.
      destruct (unpad_no_fault em out_buf (length msg) pkn_PS_PUBKEY false) as [U1 U2]; [lia|lia|].
      destruct (pkcs1_unpad_ext em out_buf (length msg) pkn_PS_PUBKEY false) as [m| | |] eqn:Hu;
        try (split; discriminate); try congruence.
      destruct (negb (length m =? length msg)); [split; discriminate|].
      destruct (bytes_eqb _ _); split; discriminate.
  Qed.
End RSAProofs.

(* ------------------------------------------------------------------------------------------ *)
(* the library's DigestInfo table is the RFC 8017 table (with and without NULL parameters) *)

Definition table_is_rfc : bool :=
  forallb (fun e =>
    match rfc_digestinfo (fst (fst e)) with
    | Some (p, hl) =>
      (bytes_eqb (snd e) p || bytes_eqb (snd e) (strip_null p)) &&
      (snd (fst e) =? N.of_nat (length (snd e) + hl))%N &&
      existsb (fun h => (fst h =? fst (fst e))%N && (snd h =? N.of_nat hl)%N) hashlen_table
    | None => false
    end) digestinfo_table
  && forallb (fun h =>
       match rfc_digestinfo (fst h) with
       | Some (p, hl) =>
         (snd h =? N.of_nat hl)%N &&
         match get_digest_info_prefix (length p + hl) (fst h), get_digest_info_prefix (length (strip_null p) + hl) (fst h) with
         | Some a, Some b => bytes_eqb a p && bytes_eqb b (strip_null p)
         | _, _ => false
         end
       | None => false
       end) hashlen_table.

Lemma table_is_rfc_ok : table_is_rfc = true.
Proof. vm_compute. reflexivity. Qed.

Lemma prefix_is_rfc : forall len alg T,
  get_digest_info_prefix len alg = Some T ->
  exists p hl, rfc_digestinfo alg = Some (p, hl) /\ (T = p \/ T = strip_null p) /\ len = length T + hl /\
               valid_hashlen_sigalg hl alg = true.
Proof.
  intros len alg T H. apply find_prefix_in in H.
  pose proof table_is_rfc_ok as R. unfold table_is_rfc in R. apply andb_true_iff in R. destruct R as [R _].
  rewrite forallb_forall in R. specialize (R _ H). simpl in R.
  destruct (rfc_digestinfo alg) as [[p hl]|]; [|discriminate].
  apply andb_true_iff in R. destruct R as [R R3]. apply andb_true_iff in R. destruct R as [R1 R2].
  exists p, hl. repeat split.
  - apply orb_true_iff in R1. destruct R1 as [R1|R1]; apply bytes_eqb_eq in R1; auto.
  - apply N.eqb_eq in R2. lia.
  - exact R3.
Qed.

Lemma valid_hashlen_unique : forall a b alg,
  valid_hashlen_sigalg a alg = true -> valid_hashlen_sigalg b alg = true -> a = b.
Proof.
  intros a b alg Ha Hb. apply valid_hashlen_in in Ha. apply valid_hashlen_in in Hb.
  pose proof table_is_rfc_ok as R. unfold table_is_rfc in R. apply andb_true_iff in R. destruct R as [_ R].
  rewrite forallb_forall in R. pose proof (R _ Ha) as Ra. pose proof (R _ Hb) as Rb. simpl in Ra, Rb.
  destruct (rfc_digestinfo alg) as [[p hl]|]; [|discriminate].
  apply andb_true_iff in Ra. destruct Ra as [Ra _]. apply andb_true_iff in Rb. destruct Rb as [Rb _].
  apply N.eqb_eq in Ra. apply N.eqb_eq in Rb. lia.
Qed.

(* every accepted block is one of the two standard encodings, and (for realistic key sizes) has >= 8 FF *)
Theorem verify_di_sound_rfc : forall crypt k sig em msg alg,
  crypt sig = Ok em -> length sig = k -> length em = k -> decrypted_buf + 11 <= k ->
  verify_sig_rsa crypt k msg sig alg true = Ok tt -> rsa_v15_valid k em msg alg.
Proof.
  intros crypt k sig em msg alg Hc Hs He Hk H.
  apply (verify_di_iff crypt k sig em msg alg Hc Hs He) in H. destruct H as [Hv (T & Hp & Hl & Hem)].
  destruct (prefix_len _ _ _ _ Hp Hv) as (_ & Hdb & _).
  destruct (prefix_is_rfc _ _ _ Hp) as (p & hl & Hr & HT & Hlen & Hv2).
  pose proof (valid_hashlen_unique _ _ _ Hv Hv2) as Hhl.
  exists p, hl. repeat split; auto. exists T. repeat split; auto. lia.
Qed.

Theorem verify_di_complete_rfc : forall crypt k sig em msg alg,
  crypt sig = Ok em -> length sig = k -> length em = k ->
  valid_hashlen_sigalg (length msg) alg = true ->
  rsa_v15_valid k em msg alg -> verify_sig_rsa crypt k msg sig alg true = Ok tt.
Proof.
  intros crypt k sig em msg alg Hc Hs He Hv (p & hl & Hr & Hml & T & HT & Hl & Hem).
  apply (verify_di_iff crypt k sig em msg alg Hc Hs He). split; [exact Hv|].
  exists T. repeat split; [|lia|exact Hem].
  apply valid_hashlen_in in Hv.
  pose proof table_is_rfc_ok as R. unfold table_is_rfc in R. apply andb_true_iff in R. destruct R as [_ R].
  rewrite forallb_forall in R. specialize (R _ Hv). simpl in R. rewrite Hr in R.
  apply andb_true_iff in R. destruct R as [_ R]. rewrite Hml.
  destruct (get_digest_info_prefix (length p + hl) alg) as [a|] eqn:Ea; [|discriminate].
  destruct (get_digest_info_prefix (length (strip_null p) + hl) alg) as [b|] eqn:Eb; [|discriminate].
  apply andb_true_iff in R. destruct R as [Ra Rb]. apply bytes_eqb_eq in Ra. apply bytes_eqb_eq in Rb. subst a b.
  destruct HT as [HT|HT]; subst T; assumption.
Qed.

(* the smallest modulus the library accepts leaves room for 8 bytes of FF around the longest DigestInfo *)
Lemma min_rsa_size_ok : decrypted_buf + 11 <= N.to_nat pkn_MIN_RSA_BITS / 8.
Proof. vm_compute. lia. Qed.

(* ------------------------------------------------------------------------------------------ *)
(* RSAES-PKCS1-v1_5 decryption unpadding (psRsaDecryptPriv) *)

Theorem unpad_priv_iff : forall em outlen m,
  pkcs1_unpad_ext em outlen outlen PRIV true = Ok m <-> length m = outlen /\ eme_type2_valid em m.
Proof.
  intros em outlen m. rewrite unpad_iff. unfold eme_type2_valid, unpad_min_overhead. split.
  - intros (ps & Hem & Hall & Hcap & Hm & Hlen). split; [exact Hm|]. exists ps.
    assert (Hl : length em = 3 + length ps + length m) by (rewrite Hem; simpl; rewrite app_length; simpl; lia).
    repeat split; [exact Hem | lia |].
    eapply Forall_impl; [|exact Hall]. intros x [Hx _]. exact Hx.
  - intros (Hm & ps & Hem & Hl8 & Hall). exists ps.
    assert (Hl : length em = 3 + length ps + length m) by (rewrite Hem; simpl; rewrite app_length; simpl; lia).
    repeat split; try lia; [exact Hem|].
    eapply Forall_impl; [|exact Hall]. intros x Hx. split; [exact Hx|]. intro E. discriminate E.
Qed.

(* ------------------------------------------------------------------------------------------ *)
(* ECDSA *)

Lemma bind_ok : forall (A B : Type) (r : res A) (f : A -> res B) b,
  bind r f = Ok b -> exists a, r = Ok a /\ f a = Ok b.
Proof. intros A B r f b H. destruct r; simpl in H; try discriminate. eauto. Qed.

Theorem ecdsa_sound : forall smul cv Q hash sig,
  ecdsa_verify_gen smul cv Q hash sig = Ok true ->
  exists r s w, ecdsa_parse_sig sig = Ok (r, s) /\
    (1 <= r <= cv_n cv - 1)%Z /\ (1 <= s <= cv_n cv - 1)%Z /\ invmod s (cv_n cv) = Some w /\
    let e := be2Z (firstn (N.to_nat (cv_size cv)) hash) in
    let u1 := ((e * w) mod cv_n cv)%Z in let u2 := ((r * w) mod cv_n cv)%Z in
    exists P1 P2 x y, smul (nz u1) (cv_gx cv, cv_gy cv) = Some P1 /\ smul (nz u2) Q = Some P2 /\
      ec_add cv (Some P1) (Some P2) = Some (x, y) /\ (x mod cv_n cv = r)%Z.
Proof.
  intros smul cv Q hash sig H. unfold ecdsa_verify_gen in H.
  apply bind_ok in H. destruct H as [[r s] [Hp H]].
  destruct ((r =? 0)%Z || (s =? 0)%Z || negb (r <? cv_n cv)%Z || negb (s <? cv_n cv)%Z) eqn:Hr; [discriminate|].
  apply orb_false_iff in Hr. destruct Hr as [Hr Hs2]. apply orb_false_iff in Hr. destruct Hr as [Hr Hr2].
  apply orb_false_iff in Hr. destruct Hr as [Hr0 Hs0].
  apply Z.eqb_neq in Hr0. apply Z.eqb_neq in Hs0.
  apply negb_false_iff in Hr2. apply Z.ltb_lt in Hr2. apply negb_false_iff in Hs2. apply Z.ltb_lt in Hs2.
  destruct (invmod s (cv_n cv)) as [w|] eqn:Hw; [|discriminate].
  destruct (smul _ (cv_gx cv, cv_gy cv)) as [P1|] eqn:H1; [|discriminate].
  destruct (smul _ Q) as [P2|] eqn:H2; [|discriminate].
  destruct ((fst P1 - fst P2) mod cv_p cv =? 0)%Z; [discriminate|].
  destruct (ec_add cv (Some P1) (Some P2)) as [[x y]|] eqn:Ha; [|discriminate].
  injection H as Hx. apply Z.eqb_eq in Hx.
  (* r, s are non-negative: they are values of byte strings *)
  exists r, s, w. split; [exact Hp|].
  assert (Hnn : forall b acc, (0 <= acc)%Z -> (0 <= be2Z_acc acc b)%Z).
  { induction b as [|a b IH]; intros acc Hacc; simpl; [exact Hacc|]. apply IH. lia. }
  assert (Hpos : (0 <= r)%Z /\ (0 <= s)%Z).
  { unfold ecdsa_parse_sig in Hp.
    apply bind_ok in Hp. destruct Hp as [cs [_ Hp]].
    apply bind_ok in Hp. destruct Hp as [cr [Hcr Hp]].
    apply bind_ok in Hp. destruct Hp as [cs2 [Hcs2 Hp]]. injection Hp as Er Es.
    assert (Hint : forall b c len c2 v, read_asn_int b c len = Ok (c2, v) -> (0 <= v)%Z).
    { intros b c len c2 v Hi. unfold read_asn_int in Hi.
      destruct (len <? 1); [discriminate|]. destruct (nth_error b c); [|discriminate].
      destruct (negb _); [discriminate|]. destruct (asn_length b (S c) (len - 1)) as [[c1 vl]| | |]; try discriminate.
      destruct (len - 1 <? N.to_nat vl); [discriminate|]. destruct (_ <? _)%N; [discriminate|].
      destruct (length b <? c1 + N.to_nat vl); [discriminate|].
      injection Hi as _ Ev. subst v. apply Hnn. lia. }
    destruct cr as [c2 rv]. destruct cs2 as [c3 sv]. simpl in *. subst.
    split; [eapply Hint; exact Hcr | eapply Hint; exact Hcs2]. }
  repeat split; try lia. exact Hw.
  exists P1, P2, x, y. repeat split; assumption.
Qed.

(* with the Gallina reference as scalar multiplication the accepted signature satisfies the standard
   verification equation, up to the zero-scalar deviation recorded by [nz] *)
Theorem ecdsa_ref_sound : forall cv Q hash sig,
  ecdsa_verify cv Q hash sig = Ok true ->
  exists r s w, ecdsa_parse_sig sig = Ok (r, s) /\
    (1 <= r <= cv_n cv - 1)%Z /\ (1 <= s <= cv_n cv - 1)%Z /\ invmod s (cv_n cv) = Some w /\
    let e := be2Z (firstn (N.to_nat (cv_size cv)) hash) in
    ecdsa_eq cv Q (nz ((e * w) mod cv_n cv)) (nz ((r * w) mod cv_n cv)) r.
Proof.
  intros cv Q hash sig H. unfold ecdsa_verify in H. apply ecdsa_sound in H.
  destruct H as (r & s & w & Hp & Hr & Hs & Hw & P1 & P2 & x & y & H1 & H2 & Ha & Hx).
  exists r, s, w. repeat split; try assumption; try lia.
  unfold ecdsa_eq, ec_mulsum. exists x, y. rewrite H1, H2. split; assumption.
Qed.

(* the ASN.1 front end never reads outside the signature buffer *)
Lemma read_be_no_fault : forall b n c acc, c + n <= length b -> read_be b c n acc <> Fault /\ read_be b c n acc <> OutOfFuel.
Proof.
  intros b n. induction n as [|n IH]; intros c acc H; simpl; [split; discriminate|].
  destruct (nth_error b c) eqn:E; [apply IH; lia|]. apply nth_error_None in E. lia.
Qed.

Lemma asn_length_no_fault : forall b c size, c + size <= length b ->
  asn_length b c size <> Fault /\ asn_length b c size <> OutOfFuel.
Proof.
  intros b c size H. unfold asn_length.
  destruct (size <? 1) eqn:Hs; [split; discriminate|]. apply Nat.ltb_ge in Hs.
  destruct (nth_error b c) as [x|] eqn:E; [|apply nth_error_None in E; lia].
  destruct (128 <=? x)%N.
  - destruct (N.of_nat (size - 1) <? N.land x 127)%N eqn:Hl; [split; discriminate|]. apply N.ltb_ge in Hl.
    destruct ((N.land x 127 =? 0)%N || (4 <? N.land x 127)%N); [split; discriminate|].
    destruct (read_be_no_fault b (N.to_nat (N.land x 127)) (S c) 0%N) as [F1 F2]; [lia|].
    destruct (read_be b (S c) (N.to_nat (N.land x 127)) 0%N); try congruence; try (split; discriminate).
    destruct (_ <? _)%N; split; discriminate.
  - destruct (_ <? _)%N; split; discriminate.
Qed.

Lemma asn_length_bounds : forall b c size c1 l, asn_length b c size = Ok (c1, l) ->
  c < c1 /\ c1 + N.to_nat l <= c + size.
Proof.
  intros b c size c1 l H. unfold asn_length in H.
  destruct (size <? 1) eqn:Hs; [discriminate|]. apply Nat.ltb_ge in Hs.
  destruct (nth_error b c) as [x|]; [|discriminate].
  destruct (128 <=? x)%N.
  - destruct (N.of_nat (size - 1) <? N.land x 127)%N eqn:Hl; [discriminate|]. apply N.ltb_ge in Hl.
    destruct ((N.land x 127 =? 0)%N || (4 <? N.land x 127)%N); [discriminate|].
    destruct (read_be b (S c) (N.to_nat (N.land x 127)) 0%N) as [v| | |]; try discriminate.
    destruct (N.of_nat (size - 1 - N.to_nat (N.land x 127)) <? v)%N eqn:Hv; [discriminate|]. apply N.ltb_ge in Hv.
    injection H as E1 E2. subst. lia.
  - destruct (N.of_nat (size - 1) <? N.land x 127)%N eqn:Hl; [discriminate|]. apply N.ltb_ge in Hl.
    injection H as E1 E2. subst. lia.
Qed.

Lemma read_asn_int_no_fault : forall b c len, c + len <= length b ->
  read_asn_int b c len <> Fault /\ read_asn_int b c len <> OutOfFuel.
Proof.
  intros b c len H. unfold read_asn_int.
  destruct (len <? 1) eqn:Hs; [split; discriminate|]. apply Nat.ltb_ge in Hs.
  destruct (nth_error b c) as [x|] eqn:E; [|apply nth_error_None in E; lia].
  destruct (negb _); [split; discriminate|].
  destruct (asn_length_no_fault b (S c) (len - 1)) as [F1 F2]; [lia|].
  destruct (asn_length b (S c) (len - 1)) as [[c1 vl]| | |] eqn:Ea; try congruence; try (split; discriminate).
  apply asn_length_bounds in Ea.
  destruct (len - 1 <? N.to_nat vl); [split; discriminate|].
  destruct (_ <? _)%N; [split; discriminate|].
  replace (length b <? c1 + N.to_nat vl) with false by (symmetry; apply Nat.ltb_ge; lia).
  split; discriminate.
Qed.

Lemma read_asn_int_bounds : forall b c len c2 v, read_asn_int b c len = Ok (c2, v) -> c2 <= c + len.
Proof.
  intros b c len c2 v H. unfold read_asn_int in H.
  destruct (len <? 1) eqn:Hs; [discriminate|]. apply Nat.ltb_ge in Hs.
  destruct (nth_error b c); [|discriminate]. destruct (negb _); [discriminate|].
  destruct (asn_length b (S c) (len - 1)) as [[c1 vl]| | |] eqn:Ea; try discriminate.
  apply asn_length_bounds in Ea.
  destruct (len - 1 <? N.to_nat vl); [discriminate|]. destruct (_ <? _)%N; [discriminate|].
  destruct (length b <? c1 + N.to_nat vl); [discriminate|].
  injection H as E1 E2. subst. lia.
Qed.

Theorem ecdsa_parse_no_fault : forall sig, ecdsa_parse_sig sig <> Fault /\ ecdsa_parse_sig sig <> OutOfFuel.
Proof.
  intro sig. unfold ecdsa_parse_sig, asn_sequence.
  destruct (length sig <? 1) eqn:Hs; [split; discriminate|]. apply Nat.ltb_ge in Hs.
  destruct (nth_error sig 0) as [t|] eqn:E; [|apply nth_error_None in E; lia].
  destruct (negb _); [split; discriminate|].
  destruct (asn_length_no_fault sig 1 (length sig - 1)) as [F1 F2]; [lia|].
  destruct (asn_length sig 1 (length sig - 1)) as [[c l]| | |] eqn:Ea; try congruence; try (split; discriminate).
  apply asn_length_bounds in Ea. cbn [bind fst].
  destruct (read_asn_int_no_fault sig c (length sig - c)) as [G1 G2]; [lia|].
  destruct (read_asn_int sig c (length sig - c)) as [[c2 r]| | |] eqn:Er; try congruence; try (split; discriminate).
  apply read_asn_int_bounds in Er. cbn [bind fst].
  destruct (read_asn_int_no_fault sig c2 (length sig - c2)) as [K1 K2]; [lia|].
  destruct (read_asn_int sig c2 (length sig - c2)) as [[c3 s]| | |]; try congruence; split; discriminate.
Qed.

Theorem ecdsa_no_fault : forall smul cv Q hash sig,
  ecdsa_verify_gen smul cv Q hash sig <> Fault /\ ecdsa_verify_gen smul cv Q hash sig <> OutOfFuel.
Proof.
  intros. unfold ecdsa_verify_gen. destruct (ecdsa_parse_no_fault sig) as [F1 F2].
  destruct (ecdsa_parse_sig sig) as [[r s]| | |]; try congruence; cbn [bind]; try (split; discriminate).
  destruct (_ || _); [split; discriminate|]. destruct (invmod s (cv_n cv)); [|split; discriminate].
  destruct (smul _ _); [|split; discriminate]. destruct (smul _ _); [|split; discriminate].
  destruct (_ =? 0)%Z; [split; discriminate|]. destruct (ec_add _ _ _) as [[x y]|]; split; discriminate.
Qed.

(* ------------------------------------------------------------------------------------------ *)
(* public point import *)

Definition curve_shape (c : curve) : bool := cv_opt c && (cv_a c =? cv_p c - 3)%Z && (3 <? cv_p c)%Z.
Lemma curves_shape_ok : forallb curve_shape curve_table = true.
Proof. vm_compute. reflexivity. Qed.

(* the table's base points are field-element pairs on their curves (sanity of the regenerated constants) *)
Definition curve_base_ok (c : curve) : bool :=
  on_curve c (cv_gx c, cv_gy c) && (cv_gx c <? cv_p c)%Z && (cv_gy c <? cv_p c)%Z && (0 <=? cv_b c)%Z && (cv_b c <? cv_p c)%Z.
Lemma curves_base_ok : forallb curve_base_ok curve_table = true.
Proof. vm_compute. reflexivity. Qed.

Lemma be2Z_nonneg : forall b, (0 <= be2Z b)%Z.
Proof.
  assert (H : forall b acc, (0 <= acc)%Z -> (0 <= be2Z_acc acc b)%Z).
  { induction b as [|a b IH]; intros acc Hacc; simpl; [exact Hacc|]. apply IH. lia. }
  intro b. apply H. lia.
Qed.

Lemma curve_facts : forall cv, In cv curve_table ->
  cv_opt cv = true /\ cv_a cv = (cv_p cv - 3)%Z /\ (3 < cv_p cv)%Z.
Proof.
  intros cv Hin.
  pose proof curves_shape_ok as C. rewrite forallb_forall in C. specialize (C cv Hin).
  unfold curve_shape in C.
  apply andb_true_iff in C. destruct C as [C C3]. apply andb_true_iff in C. destruct C as [C1 C2].
  split; [exact C1|]. split; [apply Z.eqb_eq; exact C2 | apply Z.ltb_lt; exact C3].
Qed.

Lemma test_point_on_curve : forall p a b x y,
  (3 < p)%Z -> a = (p - 3)%Z ->
  ((y * y - x * (x * x mod p) + 3 * x) mod p = b)%Z ->
  ((y * y) mod p = (x * x * x + a * x + b) mod p)%Z.
Proof.
  intros p a b x y Hp Ha He. subst a. rewrite <- He.
  rewrite Z.add_mod_idemp_r by lia.
  pose proof (Z.div_mod (x * x) p ltac:(lia)) as D.
  remember (x * x / p)%Z as q. remember ((x * x) mod p)%Z as m.
  replace (x * x * x + (p - 3) * x + (y * y - x * m + 3 * x))%Z with (y * y + (x + x * q) * p)%Z.
  2:{ replace (x * x * x)%Z with (x * (x * x))%Z by ring. rewrite D. ring. }
  rewrite Z_mod_plus_full. reflexivity.
Qed.

Lemma import_valid_gen : forall cv inp x y,
  cv_opt cv = true -> cv_a cv = (cv_p cv - 3)%Z -> (3 < cv_p cv)%Z ->
  ecc_import cv inp = Ok (x, y) -> point_valid cv (x, y).
Proof.
  intros cv inp x y Hopt Ha Hp3 H.
  unfold ecc_import in H.
  set (X := be2Z (firstn _ (skipn 1 inp))) in H.
  set (Y := be2Z (firstn _ (skipn _ inp))) in H.
  assert (HX0 : (0 <= X)%Z) by apply be2Z_nonneg.
  assert (HY0 : (0 <= Y)%Z) by apply be2Z_nonneg.
  clearbody X Y.
  destruct (_ || _); [discriminate|]. destruct (nth_error inp 0); [|discriminate].
  destruct (negb _); [discriminate|]. rewrite Hopt in H.
  destruct (ecc_test_point cv X Y) eqn:Ht; [|discriminate]. injection H as Ex Ey. subst X Y.
  unfold ecc_test_point in Ht.
  apply andb_true_iff in Ht. destruct Ht as [Ht He]. apply andb_true_iff in Ht. destruct Ht as [Hx Hy].
  apply Z.ltb_lt in Hx. apply Z.ltb_lt in Hy. apply Z.eqb_eq in He.
  unfold point_valid. cbn [fst snd]. split; [lia|]. split; [lia|].
  unfold on_curve. apply Z.eqb_eq. apply test_point_on_curve; assumption.
Qed.

Theorem import_valid : forall cv inp x y,
  In cv curve_table -> ecc_import cv inp = Ok (x, y) -> point_valid cv (x, y).
Proof.
  intros cv inp x y Hin H. destruct (curve_facts cv Hin) as (H1 & H2 & H3).
  exact (import_valid_gen cv inp x y H1 H2 H3 H).
Qed.

(* ------------------------------------------------------------------------------------------ *)
(* DH public value *)

Theorem dh_check_iff : forall p y, (0 <= y)%Z -> (dh_pub_check p y = true <-> dh_pub_valid p y).
Proof.
  intros p y Hy. unfold dh_pub_check, dh_pub_valid. rewrite andb_true_iff, negb_true_iff, Z.ltb_ge, Z.ltb_lt.
  split.
  - intros [H1 H2]. split; [|lia].
    destruct (Z.le_gt_cases 2 y) as [L|L]; [exact L|].
    assert (Hl : Z.log2 y = 0%Z).
    { destruct (Z.eq_dec y 1) as [E|E]; [subst; reflexivity|]. apply Z.log2_nonpos. lia. }
    lia.
  - intros [H1 H2]. split; [|lia].
    pose proof (Z.log2_le_mono 2 y H1) as L. change (Z.log2 2) with 1%Z in L. lia.
Qed.

(* ------------------------------------------------------------------------------------------ *)
(* RSASSA-PSS: psPkcs1PssDecode accepts exactly the EMSA-PSS encodings (moduli of 8*emLen bits) *)

Lemma nth_error_skipn' : forall (A : Type) n (l : list A) i, nth_error (skipn n l) i = nth_error l (n + i).
Proof. induction n as [|n IH]; intros [|a l] i; simpl; auto. destruct i; reflexivity. Qed.

Lemma Ok_inj : forall (A : Type) (a b : A), @Ok A a = Ok b -> a = b.
Proof. intros A a b E. injection E. auto. Qed.

Lemma skipn_S1 : forall (A : Type) n (l : list A), skipn (S n) l = skipn 1 (skipn n l).
Proof.
  induction n as [|n IH]; intros l; [reflexivity|].
  destruct l as [|a l]; [reflexivity|]. change (skipn (S (S n)) (a :: l)) with (skipn (S n) l).
  change (skipn (S n) (a :: l)) with (skipn n l). apply IH.
Qed.

Lemma xor_bytes_length : forall a b, length (xor_bytes a b) = length a.
Proof. induction a as [|x a IH]; intros [|y b]; simpl; auto. Qed.

Lemma lxor_lxor : forall x m, N.lxor (N.lxor x m) m = x.
Proof. intros. rewrite N.lxor_assoc, N.lxor_nilpotent, N.lxor_0_r. reflexivity. Qed.

Lemma xor_xor : forall a b, length a <= length b -> xor_bytes (xor_bytes a b) b = a.
Proof.
  induction a as [|x a IH]; intros [|y b] Hl; simpl in *; try lia; auto.
  rewrite lxor_lxor, IH by lia. reflexivity.
Qed.

Lemma top_roundtrip : forall x m, N.land (N.lxor (N.land (N.lxor x m) 127) m) 127 = N.land x 127.
Proof.
  intros x m. apply N.bits_inj. intro n.
  rewrite !N.land_spec, !N.lxor_spec, !N.land_spec, !N.lxor_spec.
  destruct (N.testbit x n), (N.testbit m n), (N.testbit 127 n); reflexivity.
Qed.

Lemma land127_small : forall x, (x < 128)%N -> N.land x 127 = x.
Proof. intros x H. change 127%N with (N.ones 7). rewrite N.land_ones. apply N.mod_small. exact H. Qed.

Lemma land127_lt : forall x, (N.land x 127 < 128)%N.
Proof. intro x. change 127%N with (N.ones 7). rewrite N.land_ones. apply N.mod_lt. discriminate. Qed.

Lemma bit7_clear_small : forall b, (b < 256)%N -> N.land b 128 = 0%N -> (b < 128)%N.
Proof.
  intros b Hb H. destruct (N.lt_ge_cases b 128) as [L|G]; [exact L|]. exfalso.
  assert (T : N.testbit (N.land b 128) 7 = true).
  { rewrite N.land_spec. replace (N.testbit 128 7) with true by reflexivity. rewrite andb_true_r.
    apply N.testbit_true. change (2 ^ 7)%N with 128%N.
    assert (E : (b / 128 = 1)%N).
    { symmetry. apply (N.div_unique b 128 1 (b - 128)); lia. }
    rewrite E. reflexivity. }
  rewrite H in T. discriminate T.
Qed.

Lemma clear_roundtrip : forall DB mask, length DB <= length mask ->
  (forall x r, DB = x :: r -> (x < 128)%N) ->
  clear_top (xor_bytes (clear_top (xor_bytes DB mask)) mask) = DB.
Proof.
  intros [|x DB] [|m mask] Hl Hx; simpl in *; try lia; auto.
  rewrite top_roundtrip, xor_xor by lia. rewrite land127_small; [reflexivity|]. eapply Hx. reflexivity.
Qed.

Lemma forallb_zero_repeat : forall l, forallb (fun x => (x =? 0)%N) l = true -> l = repeat 0%N (length l).
Proof.
  induction l as [|x l IH]; simpl; intro H; [reflexivity|].
  apply andb_true_iff in H. destruct H as [H1 H2]. apply N.eqb_eq in H1. subst. f_equal. apply IH. exact H2.
Qed.

Lemma forallb_repeat_zero : forall n, forallb (fun x => (x =? 0)%N) (repeat 0%N n) = true.
Proof. induction n; simpl; auto. Qed.

Section PSSProofs.
  Variable H : list N -> list N.
  Variable hLen : nat.
  Hypothesis Hlen : forall x, length (H x) = hLen.
  Hypothesis Hpos : 1 <= hLen.

  Lemma mgf1_spec_length : forall n seed c, length (mgf1_spec H n seed c) = n * hLen.
  Proof. induction n as [|n IH]; intros; simpl; [reflexivity|]. rewrite app_length, Hlen, IH. reflexivity. Qed.

  Lemma mgf1_spec_prefix : forall a b seed c, a <= b ->
    firstn (a * hLen) (mgf1_spec H b seed c) = mgf1_spec H a seed c.
  Proof.
    induction a as [|a IH]; intros b seed c Hab; [reflexivity|].
    destruct b as [|b]; [lia|]. simpl.
    rewrite firstn_app, Hlen.
    rewrite firstn_all2 by (rewrite Hlen; lia).
    replace (hLen + a * hLen - hLen) with (a * hLen) by lia. rewrite IH by lia. reflexivity.
  Qed.

  Lemma mgf1_firstn_indep : forall n a b seed c, n <= a -> a <= b ->
    firstn n (mgf1_spec H b seed c) = firstn n (mgf1_spec H a seed c).
  Proof.
    intros n a b seed c Hn Hab. rewrite <- (mgf1_spec_prefix a b seed c Hab).
    rewrite firstn_firstn. f_equal. nia.
  Qed.

  Lemma mgf1_loop_spec : forall fuel masklen seed c, masklen < fuel ->
    mgf1_loop H hLen fuel seed c masklen = Ok (firstn masklen (mgf1_spec H masklen seed c)).
  Proof.
    induction fuel as [|f IH]; intros masklen seed c Hf; [lia|].
    destruct masklen as [|m]; [reflexivity|].
    cbn [mgf1_loop]. rewrite Hlen.
    replace (hLen <? Nat.min hLen (S m)) with false by (symmetry; apply Nat.ltb_ge; lia).
    rewrite IH by lia.
    f_equal. cbn [mgf1_spec]. rewrite firstn_app, Hlen.
    destruct (Nat.le_gt_cases hLen (S m)) as [L|G].
    - rewrite Nat.min_l by lia.
      rewrite (firstn_all2 (n := hLen)) by (rewrite Hlen; lia).
      rewrite (firstn_all2 (n := S m)) by (rewrite Hlen; lia). f_equal.
      symmetry. apply mgf1_firstn_indep; lia.
    - rewrite Nat.min_r by lia. replace (S m - S m) with 0 by lia. replace (S m - hLen) with 0 by lia. reflexivity.
  Qed.

  Lemma mgf1_ok : forall seed len, mgf1 H hLen seed len = Ok (mgf1_mask H seed len).
  Proof. intros. unfold mgf1, mgf1_mask. apply mgf1_loop_spec. lia. Qed.

  Lemma mgf1_mask_length : forall seed len, length (mgf1_mask H seed len) = len.
  Proof. intros. unfold mgf1_mask. apply firstn_length_le. rewrite mgf1_spec_length. nia. Qed.

  Lemma modbits_len : forall e, 8 * e / 8 + (if 8 * e mod 8 =? 0 then 0 else 1) = e.
  Proof.
    intro e. rewrite (Nat.mul_comm 8 e), Nat.div_mul by lia. rewrite Nat.mod_mul by lia. simpl. lia.
  Qed.

  Theorem pss_decode_iff : forall mhash em saltlen emLen,
    1 <= emLen -> Forall (fun b => (b < 256)%N) em ->
    (pss_decode H hLen mhash em saltlen (8 * emLen) = Ok true <->
     length em = emLen /\ hLen + saltlen + 2 <= emLen /\
     exists salt, length salt = saltlen /\ em = pss_encode H hLen emLen mhash salt).
  Proof.
    intros mhash em saltlen emLen He1 Hbytes. unfold pss_decode. rewrite modbits_len.
    replace (N.of_nat (8 * emLen - (8 * emLen - 1))) with 1%N by lia.
    change (N.shiftr 255 1) with 127%N. change (N.lxor 255 127) with 128%N.
    split.
    - intro D.
      destruct ((emLen <? saltlen) || (emLen <? hLen + saltlen + 2) || negb (length em =? emLen)) eqn:Hsz; [discriminate|].
      apply orb_false_iff in Hsz. destruct Hsz as [Hsz Hl]. apply orb_false_iff in Hsz. destruct Hsz as [_ Hs2].
      apply Nat.ltb_ge in Hs2. apply negb_false_iff in Hl. apply Nat.eqb_eq in Hl.
      destruct (nth_error em (length em - 1)) as [bc|] eqn:Hbc; [|discriminate].
      destruct (bc =? 188)%N eqn:Ebc; cbn [negb] in D; [|discriminate]. apply N.eqb_eq in Ebc. subst bc.
      destruct (nth_error em 0) as [b0|] eqn:Hb0; [|discriminate].
      destruct (N.land b0 128 =? 0)%N eqn:Etop; cbn [negb] in D; [|discriminate]. apply N.eqb_eq in Etop.
      rewrite mgf1_ok in D.
      set (dblen := emLen - hLen - 1) in *.
      set (DB := firstn dblen em) in *.
      set (hash := firstn hLen (skipn dblen em)) in *.
      set (mask := mgf1_mask H hash dblen) in *.
      set (pslen := emLen - saltlen - hLen - 2) in *.
      change (match xor_bytes DB mask with [] => [] | x :: r => N.land x 127 :: r end) with (clear_top (xor_bytes DB mask)) in D.
      set (DB2 := clear_top (xor_bytes DB mask)) in *.
      destruct (forallb (fun x => (x =? 0)%N) (firstn pslen DB2)) eqn:Hps; cbn [negb] in D; [|discriminate].
      destruct (nth_error DB2 pslen) as [one|] eqn:Hone; [|discriminate].
      destruct (one =? 1)%N eqn:E1; cbn [negb] in D; [|discriminate]. apply N.eqb_eq in E1. subst one.
      set (salt := firstn saltlen (skipn (S pslen) DB2)) in *.
      apply Ok_inj in D. rename D into Dh. apply bytes_eqb_eq in Dh.
      assert (LDB : length DB = dblen) by (apply firstn_length_le; lia).
      assert (Lhash : length hash = hLen).
      { unfold hash. apply firstn_length_le. rewrite skipn_length. lia. }
      assert (Lmask : length mask = dblen) by apply mgf1_mask_length.
      assert (LDB2 : length DB2 = dblen).
      { unfold DB2. destruct (xor_bytes DB mask) eqn:E; pose proof (xor_bytes_length DB mask) as X; rewrite E in X; simpl in *; lia. }
      assert (Hdb : dblen = pslen + 1 + saltlen) by lia.
      assert (Lsalt : length salt = saltlen).
      { unfold salt. apply firstn_length_le. rewrite skipn_length. lia. }
      (* the block splits into maskedDB || H || BC *)
      assert (Eem : em = DB ++ hash ++ [188%N]).
      { rewrite <- (firstn_skipn dblen em) at 1. fold DB. f_equal.
        rewrite <- (firstn_skipn hLen (skipn dblen em)) at 1. fold hash. f_equal.
        remember (skipn hLen (skipn dblen em)) as tl.
        assert (Ltl : length tl = 1) by (subst tl; rewrite !skipn_length; lia).
        assert (Ntl : nth_error tl 0 = Some 188%N).
        { subst tl. rewrite !nth_error_skipn'. rewrite <- Hbc. f_equal. lia. }
        destruct tl as [|t [|t2 tl]]; simpl in *; try lia. congruence. }
      (* DB2 = 0..0 01 salt *)
      assert (EDB2 : DB2 = repeat 0%N pslen ++ [1%N] ++ salt).
      { rewrite <- (firstn_skipn pslen DB2) at 1. f_equal.
        - apply forallb_zero_repeat in Hps. rewrite Hps. f_equal. apply firstn_length_le. lia.
        - assert (X : nth_error (skipn pslen DB2) 0 = Some 1%N) by (rewrite nth_error_skipn'; replace (pslen + 0) with pslen by lia; exact Hone).
          apply nth_error_skipn_cons in X. change (skipn 0 (skipn pslen DB2)) with (skipn pslen DB2) in X.
          rewrite <- skipn_S1 in X. rewrite X. cbn [app]. f_equal.
          unfold salt. symmetry. apply firstn_all2. rewrite skipn_length. lia. }
      assert (Eh : H (repeat 0%N 8 ++ mhash ++ salt) = hash).
      { rewrite <- Dh. symmetry. apply firstn_all2. rewrite Hlen. lia. }
      split; [exact Hl|]. split; [exact Hs2|]. exists salt. split; [exact Lsalt|].
      unfold pss_encode. rewrite Eh, Lsalt. fold pslen. fold dblen. fold mask. rewrite <- EDB2.
      unfold DB2. rewrite clear_roundtrip.
      + exact Eem.
      + lia.
      + intros x r Ex. apply bit7_clear_small.
        * rewrite Forall_forall in Hbytes. apply Hbytes.
          assert (Xe : nth_error em 0 = Some x).
          { unfold DB in Ex. destruct em as [|e0 em']; [destruct dblen; discriminate|].
            destruct dblen; [discriminate|]. simpl in Ex. simpl. congruence. }
          eapply nth_error_In. exact Xe.
        * assert (Xe : b0 = x).
          { unfold DB in Ex. destruct em as [|e0 em']; [destruct dblen; discriminate|].
            destruct dblen; [discriminate|]. simpl in Ex, Hb0. congruence. }
          subst x. exact Etop.
    - intros (Hl & Hs2 & salt & Lsalt & Eem).
      replace ((emLen <? saltlen) || (emLen <? hLen + saltlen + 2) || negb (length em =? emLen)) with false.
      2:{ symmetry. apply orb_false_iff. split; [apply orb_false_iff; split; apply Nat.ltb_ge; lia|].
          rewrite Hl, Nat.eqb_refl. reflexivity. }
      unfold pss_encode in Eem. rewrite Lsalt in Eem.
      set (dblen := emLen - hLen - 1) in *.
      set (pslen := emLen - saltlen - hLen - 2) in *.
      set (h := H (repeat 0%N 8 ++ mhash ++ salt)) in *.
      set (db := repeat 0%N pslen ++ [1%N] ++ salt) in *.
      set (mask := mgf1_mask H h dblen) in *.
      set (mdb := clear_top (xor_bytes db mask)) in *.
      assert (Lh : length h = hLen) by apply Hlen.
      assert (Ldb : length db = dblen).
      { unfold db. rewrite !app_length, repeat_length. simpl. lia. }
      assert (Lmask : length mask = dblen) by apply mgf1_mask_length.
      assert (Lmdb : length mdb = dblen).
      { unfold mdb. destruct (xor_bytes db mask) eqn:E; pose proof (xor_bytes_length db mask) as X; rewrite E in X; simpl in *; lia. }
      assert (Ebc : nth_error em (length em - 1) = Some 188%N).
      { rewrite Eem. rewrite app_assoc. rewrite nth_error_app2; rewrite !app_length, Lmdb, Lh; simpl; [|lia].
        match goal with |- nth_error _ ?i = _ => replace i with 0 by lia end. reflexivity. }
      rewrite Ebc. change (188 =? 188)%N with true. cbn [negb].
      assert (EDB : firstn dblen em = mdb).
      { rewrite Eem. rewrite <- Lmdb. apply firstn_app_exact. }
      assert (Ehash : firstn hLen (skipn dblen em) = h).
      { rewrite Eem. rewrite <- Lmdb, skipn_app_exact. rewrite <- Lh. apply firstn_app_exact. }
      rewrite EDB, Ehash.
      assert (Hmdb0 : exists m0 mr, mdb = m0 :: mr /\ (m0 < 128)%N).
      { unfold mdb. destruct (xor_bytes db mask) as [|x0 xr] eqn:E.
        - pose proof (xor_bytes_length db mask) as X. rewrite E in X. simpl in X. lia.
        - simpl. eexists; eexists; split; [reflexivity | apply land127_lt]. }
      destruct Hmdb0 as (m0 & mr & Emdb & Hm0).
      assert (Eb0 : nth_error em 0 = Some m0) by (rewrite Eem, Emdb; reflexivity).
      rewrite Eb0.
      assert (Etop : N.land m0 128 = 0%N).
      { apply N.bits_inj. intro n. rewrite N.land_spec, N.bits_0.
        destruct (N.eq_dec n 7) as [E7|N7].
        - subst n. replace (N.testbit m0 7) with false; [reflexivity|]. symmetry.
          apply N.bits_above_log2. destruct (N.eq_dec m0 0) as [Z|NZ]; [rewrite Z; reflexivity|].
          apply N.log2_lt_pow2; [lia|]. exact Hm0.
        - replace (N.testbit 128 n) with false; [apply andb_false_r|].
          symmetry. change 128%N with (2 ^ 7)%N. apply N.pow2_bits_false. congruence. }
      rewrite Etop. cbn [N.eqb negb]. rewrite mgf1_ok. fold mask.
      change (match xor_bytes mdb mask with [] => [] | x :: r => N.land x 127 :: r end) with (clear_top (xor_bytes mdb mask)).
      assert (ER : clear_top (xor_bytes mdb mask) = db).
      { unfold mdb. apply clear_roundtrip; [lia|].
        intros x r Ex. unfold db in Ex. destruct pslen; simpl in Ex; injection Ex as Ex0 _; subst x; reflexivity. }
      rewrite ER.
      assert (Eps : firstn pslen db = repeat 0%N pslen).
      { unfold db. rewrite <- (repeat_length 0%N pslen) at 1. apply firstn_app_exact. }
      rewrite Eps, forallb_repeat_zero. cbn [negb].
      assert (E1 : nth_error db pslen = Some 1%N).
      { unfold db. rewrite <- (repeat_length 0%N pslen) at 2. apply nth_error_app_mid. }
      rewrite E1. cbn [N.eqb negb Pos.eqb].
      assert (Es : firstn saltlen (skipn (S pslen) db) = salt).
      { unfold db. replace (repeat 0%N pslen ++ [1%N] ++ salt) with ((repeat 0%N pslen ++ [1%N]) ++ salt) by (rewrite <- app_assoc; reflexivity).
        replace (S pslen) with (length (repeat 0%N pslen ++ [1%N])) by (rewrite app_length, repeat_length; simpl; lia).
        rewrite skipn_app_exact. rewrite <- Lsalt. apply firstn_all. }
      rewrite Es. fold h. rewrite firstn_all2 by lia. rewrite bytes_eqb_refl. reflexivity.
  Qed.
End PSSProofs.

Theorem pss_verify_iff : forall (H : list N -> list N) hLen crypt k msg sig saltlen,
  rsa_pss_verify H hLen crypt k msg sig saltlen = Ok tt <->
  length sig = k /\ exists em, crypt sig = Ok em /\ pss_decode H hLen msg em saltlen (8 * k) = Ok true.
Proof.
  intros. unfold rsa_pss_verify. destruct (length sig =? k) eqn:E; cbn [negb].
  - apply Nat.eqb_eq in E. destruct (crypt sig) as [em| | |] eqn:C.
    + destruct (pss_decode H hLen msg em saltlen (8 * k)) as [[|]| | |] eqn:D; split; try discriminate;
        try (intros [_ (em' & C' & D')]; injection C' as <-; congruence).
      intros _. split; [exact E|]. exists em. split; [reflexivity | exact D].
    + split; [discriminate | intros [_ (em' & C' & _)]; discriminate].
    + split; [discriminate | intros [_ (em' & C' & _)]; discriminate].
    + split; [discriminate | intros [_ (em' & C' & _)]; discriminate].
  - apply Nat.eqb_neq in E. split; [discriminate | intros [E' _]; contradiction].
Qed.

(* ------------------------------------------------------------------------------------------ *)
(* non-vacuity: the hypotheses of the theorems are satisfiable and the models accept something *)

Example ex_rsa_accepts_standard_block :
  let msg := repeat 7%N 32 in let em := emsa_v15 128 (rfc_sha256 ++ msg) in
  verify_sig_rsa (fun _ => Ok em) 128 msg (repeat 1%N 128) pkn_OID_SHA256_RSA_SIG true = Ok tt.
Proof. vm_compute. reflexivity. Qed.

Example ex_rsa_accepts_nonull_block :
  let msg := repeat 7%N 32 in let em := emsa_v15 128 (strip_null rfc_sha256 ++ msg) in
  verify_sig_rsa (fun _ => Ok em) 128 msg (repeat 1%N 128) pkn_OID_SHA256_RSA_SIG true = Ok tt.
Proof. vm_compute. reflexivity. Qed.

(* Bleichenbacher'06 shape: short padding, correct DigestInfo and digest, then garbage *)
Example ex_rsa_rejects_trailing_garbage :
  let msg := repeat 7%N 32 in
  let em := [0; 1]%N ++ repeat 255%N 8 ++ [0%N] ++ rfc_sha256 ++ msg ++ repeat 9%N (128 - 11 - 51) in
  verify_sig_rsa (fun _ => Ok em) 128 msg (repeat 1%N 128) pkn_OID_SHA256_RSA_SIG true = Err pk_PS_FAILURE.
Proof. vm_compute. reflexivity. Qed.

Example ex_pss_roundtrip :
  let H := fun l : list N => firstn 20 (l ++ repeat 5%N 20) in
  let em := pss_encode H 20 64 (repeat 3%N 20) (repeat 9%N 20) in
  Forall (fun b => (b < 256)%N) em /\ pss_decode H 20 (repeat 3%N 20) em 20 (8 * 64) = Ok true.
Proof. split; [|vm_compute; reflexivity]. apply Forall_forall. intros x Hx. vm_compute in Hx.
  repeat (destruct Hx as [Hx|Hx]; [subst x; reflexivity|]). contradiction. Qed.

Example ex_import_base_point :
  forallb (fun c => match ecc_import c (4%N :: map Z.to_N (
      let L := N.to_nat (cv_size c) in
      let fix bytes (n : nat) (v : Z) (acc : list Z) := match n with O => acc | S n' => bytes n' (v / 256)%Z ((v mod 256)%Z :: acc) end in
      bytes L (cv_gx c) [] ++ bytes L (cv_gy c) [])) with Ok (x, y) => (x =? cv_gx c)%Z && (y =? cv_gy c)%Z | _ => false end) curve_table = true.
Proof. vm_compute. reflexivity. Qed.

(* SEC 2 / NIST known answer: 2G on secp256r1 *)
Example ex_p256_double_G :
  ec_double curve_secp256r1 (Some (cv_gx curve_secp256r1, cv_gy curve_secp256r1)) =
  Some (0x7CF27B188D034F7E8A52380304B51AC3C08969E277F21B35A60B48FC47669978,
        0x07775510DB8ED040293D9AC69F7430DBBA7DADE63CE982299E04B79D227873D1)%Z.
Proof. vm_compute. reflexivity. Qed.

Example ex_p256_3G :
  ec_mul curve_secp256r1 3 (Some (cv_gx curve_secp256r1, cv_gy curve_secp256r1)) =
  Some (0x5ECBE4D1A6330A44C8F7EF951D4BF165E6C6B721EFADA985FB41661BC6E7FD6C,
        0x8734640C4998FF7E374B06CE1A64A2ECD82AB036384FB83D9A79B127A27D5032)%Z.
Proof. vm_compute. reflexivity. Qed.

Example ex_dh : dh_pub_check 23 2 = true /\ dh_pub_check 23 21 = true /\ dh_pub_check 23 22 = false /\ dh_pub_check 23 1 = false.
Proof. vm_compute. auto. Qed.
