(* C11 - code-shaped, executable MODELS of the public-key verification front ends (no proofs here).

   Every read of an input buffer goes through [nth_error] with the index the C code uses; a read
   outside the buffer is the distinguished result [Fault] (so "no over-read on truncated input" is a
   theorem about the model, Properties_C11.c11_rsa_no_fault / c11_ecdsa_no_fault).  A write past the
   real capacity of an output buffer is [Fault] too.  Loops run on explicit fuel; [OutOfFuel] is
   distinct and the theorems show it is never returned for the fuel the wrappers supply.

   Modular exponentiation (psRsaCrypt), the hash functions and the projective point arithmetic are
   NOT modelled: they enter as Section variables (exact-integer / reference implementations are
   plugged in by the correspondence driver).

   Modelled code (line numbers of the pinned tree):
     crypto/keyformat/pkcs.c      118-199  pkcs1UnpadExt           -> pkcs1_unpad_ext
     crypto/pubkey/rsa_pub.c       47-105  psRsaDecryptPubExt      -> rsa_decrypt_pub_ext
     crypto/pubkey/rsa_pub.c      129-230  pubRsaDecryptSignedElementExt -> decrypt_signed_element_ext
     crypto/pubkey/rsa_pub.c      304-336  psRsaDecryptPub         -> rsa_decrypt_pub
     crypto/common/digest_info.c  139-233  psGetDigestInfoPrefix   -> get_digest_info_prefix (table from Gen.ConstsPk)
     crypto/common/alg_info.c     272-327  psIsValidHashLenSigAlgCombination -> valid_hashlen_sigalg (table)
     crypto/pubkey/pubkey_verify.c 39-176  psVerifySig, PS_RSA case -> verify_sig_rsa / verify_sig_pss
     crypto/pubkey/rsa_priv.c     241-268  psRsaDecryptPriv (unpad part) -> pkcs1_unpad_ext .. PS_PRIVKEY true
     crypto/keyformat/pkcs.c     1575-1676 pkcs_1_mgf1             -> mgf1
     crypto/keyformat/pkcs.c     2402-2595 psPkcs1PssDecode        -> pss_decode
     crypto/pubkey/rsa_pub.c      339-417  psRsaPssVerify          -> rsa_pss_verify
     crypto/keyformat/asn1.c       96-186  getAsnLength32          -> asn_length
     crypto/keyformat/asn1.c      190-232  getAsnSequence          -> asn_sequence
     crypto/math/pstm.c           531-555  pstm_read_asn           -> read_asn_int
     crypto/pubkey/ecc_pub.c       77-325  psEccDsaVerify          -> ecdsa_verify_gen
     crypto/pubkey/ecc_import.c    63-177  psEccX963ImportKey      -> ecc_import
     crypto/pubkey/ecc_math.c     627-730  eccTestPoint            -> ecc_test_point
     crypto/pubkey/dh_gen_secret.c 51-96   psDhGenSharedSecret (range test) -> dh_pub_check

   psVerifySig is modelled as of commit 393b9fc (the RSA signature is copied before the in-place public
   operation; an empty signature is PS_ARG_FAIL).
   The model describes the code WITH the pending fixes of pending-fixes/C11-*.patch applied:
     - psVerifySig refuses msgInLen > sizeof(out) on the non-DigestInfo RSA path (stack overflow),
     - psRsaPssVerify refuses a signature whose length is not the modulus length,
     - pkcs1UnpadExt (length-verifying mode) requires 8 padding bytes, not 7,
     - eccTestPoint refuses coordinates >= p,
     - the MD5 (MD2) DigestInfo variant without NULL has its length octets corrected (table in Gen.ConstsPk;
       checked against RFC 8017 by PkProofs.table_is_rfc_ok),
     - (not modelled, reference comparison only) psEd25519Verify refuses S >= L.                   *)
From Coq Require Import List NArith ZArith Bool Arith.
From MV Require Import Gen.ConstsPk.
Import ListNotations.

Inductive res (A : Type) : Type :=
| Ok (a : A)
| Err (rc : Z)          (* a negative PS_* return code *)
| Fault                 (* read or write outside a buffer *)
| OutOfFuel.
Arguments Ok {A} a. Arguments Err {A} rc. Arguments Fault {A}. Arguments OutOfFuel {A}.

Definition bind {A B : Type} (r : res A) (f : A -> res B) : res B :=
  match r with Ok a => f a | Err e => Err e | Fault => Fault | OutOfFuel => OutOfFuel end.

(* memcmp(a, b, n) == 0 when both hold exactly the n bytes compared *)
Fixpoint bytes_eqb (a b : list N) : bool :=
  match a, b with
  | [], [] => true
  | x :: a', y :: b' => (x =? y)%N && bytes_eqb a' b'
  | _, _ => false
  end.

(* big-endian bytes -> integer (pstm_read_unsigned_bin) *)
Fixpoint be2Z_acc (acc : Z) (b : list N) : Z :=
  match b with [] => acc | x :: r => be2Z_acc (acc * 256 + Z.of_N x) r end.
Definition be2Z (b : list N) : Z := be2Z_acc 0 b.

(* ------------------------------------------------------------------------------------------ *)
(* PKCS #1 v1.5 unpadding: pkcs1UnpadExt(in, inlen, out, outlen, decryptType, verifyUnpaddedLen) *)

(* `while (c < end && *c != 0x0) { if (decryptType == PS_PUBKEY && *c != 0xFF) return PS_FAILURE; c++; }`
   returns the index at which the loop stops *)
Fixpoint skip_pad (fuel : nat) (typ : N) (em : list N) (c : nat) : res nat :=
  match fuel with
  | O => OutOfFuel
  | S f =>
    if negb (c <? length em) then Ok c
    else match nth_error em c with
         | None => Fault
         | Some x =>
           if (x =? 0)%N then Ok c
           else if (typ =? pkn_PS_PUBKEY)%N && negb (x =? 255)%N then Err pk_PS_FAILURE
           else skip_pad f typ em (S c)
         end
  end.

(* minimum distance inlen - outlen demanded in length-verifying mode: 2 header bytes + 8 padding bytes
   + the 0 separator.  (The pinned tree has 10, which admits 7 padding bytes; fixed to 11.) *)
Definition unpad_min_overhead : nat := 11.

(* [outcap] = real capacity of the out buffer, [outlen] = the length the caller announces *)
Definition pkcs1_unpad_ext (em : list N) (outcap outlen : nat) (typ : N) (verify : bool) : res (list N) :=
  let inlen := length em in
  if verify && (inlen <? outlen + unpad_min_overhead) then Err pk_PS_ARG_FAIL else
  match nth_error em 0 with
  | None => Fault
  | Some b0 =>
    if negb (b0 =? 0)%N then Err pk_PS_FAILURE else            (* *c++ != 0x00 *)
    match nth_error em 1 with
    | None => Fault
    | Some b1 =>
      if negb (b1 =? typ)%N then Err pk_PS_FAILURE else        (* *c != decryptType *)
      match skip_pad (S inlen) typ em 2 with
      | Ok c =>
        let c' := S c in                                       (* c++ : step over the separator *)
        (* (uint32)(end - c) is 2^32-1 when the loop ran to the end (c' = inlen + 1): never equal to,
           always greater than, a 16-bit outlen *)
        if inlen <? c' then Err (if verify then pk_PS_LIMIT_FAIL else pk_PS_OUTPUT_LENGTH) else
        let remaining := inlen - c' in
        if verify && negb (remaining =? outlen) then Err pk_PS_LIMIT_FAIL else
        if negb verify && (outlen <? remaining) then Err pk_PS_OUTPUT_LENGTH else
        if outcap <? remaining then Fault                      (* while (c < end) *out++ = *c++ *)
        else Ok (skipn c' em)
      | Err e => Err e | Fault => Fault | OutOfFuel => OutOfFuel
      end
    end
  end.

(* ------------------------------------------------------------------------------------------ *)
(* tables regenerated from the library *)

Definition get_digest_info_prefix (len : nat) (alg : N) : option (list N) :=
  match find (fun e => (fst (fst e) =? alg)%N && (snd (fst e) =? N.of_nat len)%N) digestinfo_table with
  | Some e => Some (snd e)
  | None => None
  end.

Definition valid_hashlen_sigalg (hl : nat) (alg : N) : bool :=
  existsb (fun e => (fst e =? alg)%N && (snd e =? N.of_nat hl)%N) hashlen_table.

Definition decrypted_buf : nat := N.to_nat pkn_DECRYPTED_BUF.     (* sizeof(decrypted), rsa_pub.c 143 *)
Definition out_buf : nat := N.to_nat pkn_SHA512_HASH_SIZE.        (* sizeof(out), pubkey_verify.c 50 *)

Section RSA.
  (* psRsaCrypt(key, in, inlen, out, &outlen, PS_PUBKEY): the raw public operation on the signature
     bytes, giving the key-size block or a negative code (PS_LIMIT_FAIL when in > N) *)
  Variable crypt : list N -> res (list N).

  (* psRsaDecryptPubExt *)
  Definition rsa_decrypt_pub_ext (k : nat) (sig : list N) (outcap outlen : nat) : res (list N) :=
    if negb (length sig =? k) then Err pk_PS_ARG_FAIL else
    match crypt sig with
    | Ok em =>
      if negb (length em =? length sig) then Err pk_PS_FAILURE       (* ptLen != inlen *)
      else pkcs1_unpad_ext em outcap outlen pkn_PS_PUBKEY false
    | Err e => Err e | Fault => Fault | OutOfFuel => OutOfFuel
    end.

  (* psRsaDecryptPub *)
  Definition rsa_decrypt_pub (k : nat) (sig : list N) (outcap outlen : nat) : res (list N) :=
    match rsa_decrypt_pub_ext k sig outcap outlen with
    | Ok m => if negb (length m =? outlen) then Err pk_PS_FAILURE else Ok m
    | e => e
    end.

  (* pubRsaDecryptSignedElementExt: returns the recovered digest *)
  Definition decrypt_signed_element_ext (k : nat) (sig : list N) (hashOutLen : nat) (alg : N) : res (list N) :=
    if negb (valid_hashlen_sigalg hashOutLen alg) then Err pk_PS_ARG_FAIL else
    match rsa_decrypt_pub_ext k sig decrypted_buf decrypted_buf with
    | Ok dec =>
      match get_digest_info_prefix (length dec) alg with
      | None => Err pk_PS_ARG_FAIL
      | Some prefix =>
        if length dec <? hashOutLen then Fault else              (* decPrefixLen = decryptedLen - hashOutLen wraps *)
        let plen := length dec - hashOutLen in
        if length prefix <? plen then Fault else                 (* memcmpct past the static table entry *)
        if bytes_eqb (firstn plen prefix) (firstn plen dec)
        then Ok (skipn plen dec)                                 (* Memcpy(hashOut, decrypted + decPrefixLen, hashOutLen) *)
        else Err pk_PS_FAILURE
      end
    | e => e
    end.

  (* psVerifySig, case PS_RSA without opts->useRsaPss.  Ok tt = rc PS_SUCCESS and *verifyResult = PS_TRUE *)
  Definition verify_sig_rsa (k : nat) (msg sig : list N) (alg : N) (di : bool) : res unit :=
    let msgInLen := length msg in
    if negb di && (out_buf <? msgInLen) then Err pk_PS_ARG_FAIL else    (* FIX (C11): out[] is 64 bytes *)
    if length sig =? 0 then Err pk_PS_ARG_FAIL else                      (* sigLen == 0 (the signature is copied before use) *)
    let r :=
      if di then
        match decrypt_signed_element_ext k sig msgInLen alg with
        | Ok h => if out_buf <? length h then Fault else Ok h   (* hashOut = out[SHA512_HASH_SIZE] *)
        | Err _ => Err pk_PS_FAILURE
        | e => e
        end
      else match rsa_decrypt_pub k sig out_buf msgInLen with
           | Err _ => Err pk_PS_FAILURE
           | e => e
           end in
    match r with
    | Ok out => if bytes_eqb msg out then Ok tt else Err pk_PS_VERIFICATION_FAILED     (* memcmpct(msgIn, out, msgInLen) *)
    | Err e => Err e | Fault => Fault | OutOfFuel => OutOfFuel
    end.
End RSA.

(* ------------------------------------------------------------------------------------------ *)
(* RSASSA-PSS *)

Definition be32 (x : N) : list N :=
  [(x / 16777216) mod 256; (x / 65536) mod 256; (x / 256) mod 256; x mod 256]%N.

Fixpoint xor_bytes (a b : list N) : list N :=
  match a, b with
  | x :: a', y :: b' => N.lxor x y :: xor_bytes a' b'
  | _, _ => a                                   (* for (y = 0; y < len; y++) DB[y] ^= mask[y] : mask has len bytes *)
  end.

Section PSS.
  Variable H : list N -> list N.       (* the digest selected by hash_idx *)
  Variable hLen : nat.                 (* psPssHashAlgToHashLen(hash_idx) *)

  (* pkcs_1_mgf1: while (masklen > 0) { buf = H(seed || counter++); copy min(hLen, masklen) bytes } *)
  Fixpoint mgf1_loop (fuel : nat) (seed : list N) (ctr : N) (masklen : nat) : res (list N) :=
    match masklen with
    | O => Ok []
    | _ =>
      match fuel with
      | O => OutOfFuel
      | S f =>
        let buf := H (seed ++ be32 ctr) in
        let take := Nat.min hLen masklen in
        if length buf <? take then Fault else
        match mgf1_loop f seed (ctr + 1)%N (masklen - take) with
        | Ok r => Ok (firstn take buf ++ r)
        | e => e
        end
      end
    end.
  Definition mgf1 (seed : list N) (masklen : nat) : res (list N) := mgf1_loop (S masklen) seed 0%N masklen.

  (* psPkcs1PssDecode(msghash, msghashlen, sig = em, siglen, saltlen, hash_idx, modulus_bitlen, &res) *)
  Definition pss_decode (mhash em : list N) (saltlen modbits : nat) : res bool :=
    let mlen := modbits / 8 + (if modbits mod 8 =? 0 then 0 else 1) in
    let siglen := length em in
    if (mlen <? saltlen) || (mlen <? hLen + saltlen + 2) || negb (siglen =? mlen) then Err pk_PS_ARG_FAIL else
    match nth_error em (siglen - 1) with
    | None => Fault
    | Some bc =>
      if negb (bc =? 188)%N then Err pk_PS_FAILURE else                          (* 0xBC *)
      let dblen := mlen - hLen - 1 in
      let DB := firstn dblen em in                                               (* Memcpy(DB, sig, dblen) *)
      let hash := firstn hLen (skipn dblen em) in                                (* Memcpy(hash, sig + dblen, hLen) *)
      let sh := N.of_nat (8 * mlen - (modbits - 1)) in
      match nth_error em 0 with
      | None => Fault
      | Some b0 =>
        if negb (N.land b0 (N.lxor 255 (N.shiftr 255 sh)) =? 0)%N then Err pk_PS_FAILURE else
        match mgf1 hash dblen with
        | Ok mask =>
          let DB1 := xor_bytes DB mask in
          let DB2 := match DB1 with [] => [] | x :: r => N.land x (N.shiftr 255 sh) :: r end in
          let pslen := mlen - saltlen - hLen - 2 in
          if negb (forallb (fun x => (x =? 0)%N) (firstn pslen DB2)) then Err pk_PS_FAILURE else
          match nth_error DB2 pslen with
          | None => Fault
          | Some one =>
            if negb (one =? 1)%N then Err pk_PS_FAILURE else
            let salt := firstn saltlen (skipn (S pslen) DB2) in
            let h2 := H (repeat 0%N 8 ++ mhash ++ salt) in
            Ok (bytes_eqb (firstn hLen h2) hash)                                 (* Memcmp(mask, hash, hLen) == 0 *)
          end
        | Err e => Err e | Fault => Fault | OutOfFuel => OutOfFuel
        end
      end
    end.

  Variable crypt : list N -> res (list N).

  (* psRsaPssVerify as reached from psVerifySig (opts->useRsaPss) *)
  Definition rsa_pss_verify (k : nat) (msg sig : list N) (saltlen : nat) : res unit :=
    if negb (length sig =? k) then Err pk_PS_ARG_FAIL else                       (* FIX: RFC 8017 8.1.2 step 1 *)
    match crypt sig with
    | Ok em =>
      match pss_decode msg em saltlen (8 * k) with
      | Ok true => Ok tt
      | Ok false => Err pk_PS_VERIFICATION_FAILED
      | Err _ => Err pk_PS_FAILURE
      | Fault => Fault | OutOfFuel => OutOfFuel
      end
    | Err e => Err e | Fault => Fault | OutOfFuel => OutOfFuel
    end.
End PSS.

Definition pss_hashlen (hashId : Z) : option nat :=
  match find (fun e => (fst e =? hashId)%Z) pss_hashlen_table with
  | Some e => Some (N.to_nat (snd e))
  | None => None
  end.

(* ------------------------------------------------------------------------------------------ *)
(* ASN.1 front end of psEccDsaVerify *)

(* read n (1..4) length bytes big-endian starting at c *)
Fixpoint read_be (b : list N) (c n : nat) (acc : N) : res N :=
  match n with
  | O => Ok acc
  | S n' => match nth_error b c with
            | None => Fault
            | Some x => read_be b (S c) n' (acc * 256 + x)%N
            end
  end.

(* getAsnLength32(&c, size, &len, 0): [size] bytes are announced from offset c.  Ok (offset of value, len) *)
Definition asn_length (b : list N) (c size : nat) : res (nat * N) :=
  if size <? 1 then Err pk_PS_LIMIT_FAIL else
  match nth_error b c with
  | None => Fault
  | Some x =>
    let l := N.land x 127 in
    if (128 <=? x)%N then
      let c1 := S c in
      if (N.of_nat (size - 1) <? l)%N then Err pk_PS_LIMIT_FAIL else
      if (l =? 0)%N || (4 <? l)%N then Err pk_PS_LIMIT_FAIL else
      match read_be b c1 (N.to_nat l) 0%N with
      | Ok v => let c2 := c1 + N.to_nat l in
                if (N.of_nat (size - 1 - N.to_nat l) <? v)%N then Err pk_PS_LIMIT_FAIL else Ok (c2, v)
      | Err e => Err e | Fault => Fault | OutOfFuel => OutOfFuel
      end
    else
      if (N.of_nat (size - 1) <? l)%N then Err pk_PS_LIMIT_FAIL else Ok (S c, l)
  end.

(* getAsnSequence(&c, size, &len) *)
Definition asn_sequence (b : list N) (c size : nat) : res (nat * N) :=
  if size <? 1 then Err pk_PS_PARSE_FAIL else
  match nth_error b c with
  | None => Fault
  | Some t =>
    if negb (t =? N.lor pkn_ASN_SEQUENCE pkn_ASN_CONSTRUCTED)%N then Err pk_PS_PARSE_FAIL else
    asn_length b (S c) (size - 1)
  end.

(* pstm_read_asn(&c, len, &a): Ok (offset after the value, unsigned value of the content bytes) *)
Definition read_asn_int (b : list N) (c len : nat) : res (nat * Z) :=
  if len <? 1 then Err pk_PS_PARSE_FAIL else
  match nth_error b c with
  | None => Fault
  | Some t =>
    if negb (t =? pkn_ASN_INTEGER)%N then Err pk_PS_PARSE_FAIL else
    match asn_length b (S c) (len - 1) with
    | Ok (c1, vlen) =>
      let vl := N.to_nat vlen in
      if len - 1 <? vl then Err pk_PS_PARSE_FAIL else
      (* pstm_init_for_read_unsigned_bin -> pstm_init_size refuses more than PSTM_MAX_SIZE digits (pstm.c 411-424, 62) *)
      if (pkn_PSTM_MAX_SIZE <? (vlen / pkn_PSTM_DIGIT_BYTES) * (pkn_PSTM_DIGIT_BYTES * 8) / pkn_DIGIT_BIT + 2)%N
      then Err pk_PS_MEM_FAIL else
      if length b <? c1 + vl then Fault else                  (* pstm_read_unsigned_bin reads vlen bytes *)
      Ok (c1 + vl, be2Z (firstn vl (skipn c1 b)))
    | Err _ => Err pk_PS_PARSE_FAIL
    | Fault => Fault | OutOfFuel => OutOfFuel
    end
  end.

(* the two INTEGERs of Ecdsa-Sig-Value as the code extracts them *)
Definition ecdsa_parse_sig (sig : list N) : res (Z * Z) :=
  let siglen := length sig in
  bind (asn_sequence sig 0 siglen) (fun cs =>
  let c := fst cs in
  bind (read_asn_int sig c (siglen - c)) (fun cr =>
  let c2 := fst cr in
  bind (read_asn_int sig c2 (siglen - c2)) (fun cs2 =>
  Ok (snd cr, snd cs2)))).

(* ------------------------------------------------------------------------------------------ *)
(* modular inverse (pstm_invmod), extended Euclid on fuel *)
Fixpoint egcd (fuel : nat) (r0 r1 t0 t1 : Z) : Z * Z :=
  match fuel with
  | O => (r0, t0)
  | S f => if (r1 =? 0)%Z then (r0, t0)
           else let q := (r0 / r1)%Z in egcd f r1 (r0 - q * r1)%Z t1 (t0 - q * t1)%Z
  end.
Definition invmod (a m : Z) : option Z :=
  let '(g, t) := egcd (2 * Z.to_nat (Z.log2 m) + 4) m (a mod m)%Z 0%Z 1%Z in
  if (g =? 1)%Z then Some (t mod m)%Z else None.

(* ------------------------------------------------------------------------------------------ *)
(* executable affine reference for short Weierstrass curves over Z mod p; None = point at infinity *)
Definition point := option (Z * Z).

Definition on_curve (cv : curve) (P : Z * Z) : bool :=
  let '(x, y) := P in
  ((y * y) mod cv_p cv =? (x * x * x + cv_a cv * x + cv_b cv) mod cv_p cv)%Z.

Definition ec_double (cv : curve) (P : point) : point :=
  match P with
  | None => None
  | Some (x, y) =>
    let p := cv_p cv in
    if (y mod p =? 0)%Z then None else
    match invmod (2 * y) p with
    | None => None
    | Some i =>
      let lam := ((3 * x * x + cv_a cv) * i mod p)%Z in
      let x3 := ((lam * lam - 2 * x) mod p)%Z in
      Some (x3, ((lam * (x - x3) - y) mod p)%Z)
    end
  end.

Definition ec_add (cv : curve) (P Q : point) : point :=
  match P, Q with
  | None, _ => Q
  | _, None => P
  | Some (x1, y1), Some (x2, y2) =>
    let p := cv_p cv in
    if ((x1 - x2) mod p =? 0)%Z then
      if ((y1 + y2) mod p =? 0)%Z then None else ec_double cv P
    else
      match invmod (x2 - x1) p with
      | None => None
      | Some i =>
        let lam := ((y2 - y1) * i mod p)%Z in
        let x3 := ((lam * lam - x1 - x2) mod p)%Z in
        Some (x3, ((lam * (x1 - x3) - y1) mod p)%Z)
      end
  end.

Fixpoint ec_mul_pos (cv : curve) (k : positive) (P : point) : point :=
  match k with
  | xH => P
  | xO k' => ec_double cv (ec_mul_pos cv k' P)
  | xI k' => ec_add cv P (ec_double cv (ec_mul_pos cv k' P))
  end.
Definition ec_mul (cv : curve) (k : Z) (P : point) : point :=
  match k with Zpos k' => ec_mul_pos cv k' P | _ => None end.

(* u1*G + u2*Q *)
Definition ec_mulsum (cv : curve) (u1 u2 : Z) (Q : Z * Z) : point :=
  ec_add cv (ec_mul cv u1 (Some (cv_gx cv, cv_gy cv))) (ec_mul cv u2 (Some Q)).

(* ------------------------------------------------------------------------------------------ *)
(* psEccDsaVerify.  [smul k P] stands for eccMulmod(k, P, map = 0) followed by the affine view of the
   Jacobian result (None = the point at infinity); the final eccProjectiveAddPoint + eccMap is modelled
   with its two degenerate behaviours:
     - eccMulmodCt (ecc_math.c 95-330) walks the digits of k; for k = 0 there are none and the result is
       the base point itself, i.e. a zero scalar acts as 1 ([nz]);
     - eccProjectiveAddPoint (ecc_math.c 740-790) only "doubles instead" when the two Jacobian triples
       are identical; the two ladder results have unrelated z, so equal (or opposite) points go through
       the generic addition, give z = 0, and eccMap fails on pstm_invmod(0) with PS_LIMIT_FAIL. *)
Definition nz (u : Z) : Z := if (u =? 0)%Z then 1%Z else u.

Section ECDSA.
  Variable smul : Z -> Z * Z -> point.

  (* Ok true: *status = 1; Ok false: rc 0, *status = -1 *)
  Definition ecdsa_verify_gen (cv : curve) (Q : Z * Z) (hash sig : list N) : res bool :=
    bind (ecdsa_parse_sig sig) (fun rs =>
    let '(r, s) := rs in
    let n := cv_n cv in
    if (r =? 0)%Z || (s =? 0)%Z || negb (r <? n)%Z || negb (s <? n)%Z then Err pk_PS_PARSE_FAIL else
    (* if (buflen > key->curve->size) buflen = key->curve->size; *)
    let e := be2Z (firstn (N.to_nat (cv_size cv)) hash) in
    match invmod s n with
    | None => Err pk_PS_FAILURE
    | Some w =>
      let u1 := ((e * w) mod n)%Z in
      let u2 := ((r * w) mod n)%Z in
      match smul (nz u1) (cv_gx cv, cv_gy cv), smul (nz u2) Q with
      | Some P1, Some P2 =>
        if ((fst P1 - fst P2) mod cv_p cv =? 0)%Z then Err pk_PS_LIMIT_FAIL else
        match ec_add cv (Some P1) (Some P2) with
        | Some (x, _) => Ok ((x mod n =? r)%Z)
        | None => Err pk_PS_LIMIT_FAIL
        end
      | _, _ => Err pk_PS_LIMIT_FAIL
      end
    end).
End ECDSA.

(* the same with the Gallina affine reference as scalar multiplication *)
Definition ecdsa_verify (cv : curve) (Q : Z * Z) (hash sig : list N) : res bool :=
  ecdsa_verify_gen (fun k P => ec_mul cv k (Some P)) cv Q hash sig.

(* ------------------------------------------------------------------------------------------ *)
(* psEccX963ImportKey + eccTestPoint *)

(* y^2 - x^3 + 3x == b (mod p); FIX: both coordinates must be < p *)
Definition ecc_test_point (cv : curve) (x y : Z) : bool :=
  let p := cv_p cv in
  (x <? p)%Z && (y <? p)%Z && ((y * y - x * (x * x mod p) + 3 * x) mod p =? cv_b cv)%Z.

Definition ecc_import (cv : curve) (inp : list N) : res (Z * Z) :=
  let inlen := length inp in
  if (inlen <? 2 * (N.to_nat pkn_MIN_ECC_BITS / 8) + 1) || Nat.even inlen then Err pk_PS_ARG_FAIL else
  match nth_error inp 0 with
  | None => Fault
  | Some t =>
    if negb (t =? pkn_ANSI_UNCOMPRESSED)%N then Err pk_PS_UNSUPPORTED_FAIL else
    let cl := (inlen - 1) / 2 in
    let x := be2Z (firstn cl (skipn 1 inp)) in
    let y := be2Z (firstn cl (skipn (1 + cl) inp)) in
    if cv_opt cv then
      if ecc_test_point cv x y then Ok (x, y) else Err pk_PS_LIMIT_FAIL
    else Ok (x, y)                                           (* "WARNING: ECC public key not validated" *)
  end.

(* ------------------------------------------------------------------------------------------ *)
(* psDhGenSharedSecret: the range test applied to the peer's public value before pstm_exptmod *)
Definition dh_pub_check (p pub : Z) : bool :=
  negb (Z.log2 pub + 1 <? 2)%Z                          (* pstm_count_bits(pub) < 2 -> fail *)
  && (pub + 1 <? p)%Z.                                   (* pstm_cmp(p, pub + 1) != PSTM_GT -> fail *)
