(* C11 - what the property demands, written independently of the code's shape.

   RSA PKCS #1 v1.5 (RFC 8017 9.2):  EM = 00 01 FF..FF 00 || T,  at least 8 bytes of FF,
     T = DigestInfo(hash) || H.  The DigestInfo prefixes are those of RFC 8017 9.2 note 1; the only
     tolerated alternative is the same AlgorithmIdentifier with the NULL parameters omitted
     (RFC 8017 A.2.4 asks implementations to accept both).  Both variants are fixed byte strings, so a
     given (algorithm, digest, key size) has exactly two acceptable blocks and no free byte.
   RSAES-PKCS1-v1_5 decryption (RFC 8017 7.2.2):  EM = 00 02 PS 00 M, PS non-zero, |PS| >= 8.
   RSASSA-PSS (RFC 8017 9.1.1): EM = maskedDB || H || BC built from a salt.
   ECDSA (FIPS 186-4 6.4.2): 1 <= r,s <= n-1 and x(u1 G + u2 Q) mod n = r.
   Public point: coordinates in [0,p-1] satisfying the curve equation (SEC 1 3.2.2.1); the affine
     representation has no encoding of the point at infinity.
   DH public value: 2 <= y <= p-2 (RFC 7919 5.1 / SP 800-56A 5.6.2.3.1). *)
From Coq Require Import List NArith ZArith Bool Arith.
From MV Require Import Gen.ConstsPk Pk.PkModel.
Import ListNotations.

(* EMSA-PKCS1-v1_5 block of k bytes around the payload T *)
Definition emsa_v15 (k : nat) (T : list N) : list N :=
  [0; 1]%N ++ repeat 255%N (k - 3 - length T) ++ [0%N] ++ T.

(* RFC 8017 section 9.2, note 1 *)
Definition rfc_md5    : list N := [48;32;48;12;6;8;42;134;72;134;247;13;2;5;5;0;4;16]%N.
Definition rfc_sha1   : list N := [48;33;48;9;6;5;43;14;3;2;26;5;0;4;20]%N.
Definition rfc_sha224 : list N := [48;45;48;13;6;9;96;134;72;1;101;3;4;2;4;5;0;4;28]%N.
Definition rfc_sha256 : list N := [48;49;48;13;6;9;96;134;72;1;101;3;4;2;1;5;0;4;32]%N.
Definition rfc_sha384 : list N := [48;65;48;13;6;9;96;134;72;1;101;3;4;2;2;5;0;4;48]%N.
Definition rfc_sha512 : list N := [48;81;48;13;6;9;96;134;72;1;101;3;4;2;3;5;0;4;64]%N.

(* the same DigestInfo without the NULL parameters: 30 L 30 M <oid> 05 00 04 h -> 30 L-2 30 M-2 <oid> 04 h *)
Definition strip_null (p : list N) : list N :=
  match p with
  | t0 :: l0 :: t1 :: l1 :: rest =>
    let n := length rest in
    t0 :: (l0 - 2)%N :: t1 :: (l1 - 2)%N :: firstn (n - 4) rest ++ skipn (n - 2) rest
  | _ => p
  end.

(* (prefix with NULL, digest length) selected by the library's signature-algorithm identifier *)
Definition rfc_digestinfo (alg : N) : option (list N * nat) :=
  if (alg =? pkn_OID_MD5_RSA_SIG)%N then Some (rfc_md5, 16)
  else if (alg =? pkn_OID_SHA1_RSA_SIG)%N then Some (rfc_sha1, 20)
  else if (alg =? pkn_OID_SHA224_RSA_SIG)%N then Some (rfc_sha224, 28)
  else if (alg =? pkn_OID_SHA256_RSA_SIG)%N then Some (rfc_sha256, 32)
  else if (alg =? pkn_OID_SHA384_RSA_SIG)%N then Some (rfc_sha384, 48)
  else if (alg =? pkn_OID_SHA512_RSA_SIG)%N then Some (rfc_sha512, 64)
  else None.

(* the block is one of the two standard encodings of digest h under algorithm alg, with >= 8 bytes of FF *)
Definition rsa_v15_valid (k : nat) (em h : list N) (alg : N) : Prop :=
  exists p hl, rfc_digestinfo alg = Some (p, hl) /\ length h = hl /\
    exists T, (T = p \/ T = strip_null p) /\ length T + hl + 11 <= k /\ em = emsa_v15 k (T ++ h).

(* block type 1 around a bare payload (no DigestInfo), >= 8 bytes of FF *)
Definition rsa_raw_valid (k : nat) (em m : list N) : Prop :=
  length m + 11 <= k /\ em = emsa_v15 k m.

(* RSAES-PKCS1-v1_5 decoding succeeds with message m *)
Definition eme_type2_valid (em m : list N) : Prop :=
  exists ps, em = [0; 2]%N ++ ps ++ [0%N] ++ m /\ 8 <= length ps /\ Forall (fun x => x <> 0%N) ps.

(* EMSA-PSS-ENCODE (RFC 8017 9.1.1) for moduli whose bit length is a multiple of 8 (emBits = 8*emLen - 1) *)
Section PSSSpec.
  Variable H : list N -> list N.
  Variable hLen : nat.
  Fixpoint mgf1_spec (n : nat) (seed : list N) (ctr : N) : list N :=
    match n with O => [] | S n' => H (seed ++ be32 ctr) ++ mgf1_spec n' seed (ctr + 1)%N end.
  Definition mgf1_mask (seed : list N) (len : nat) : list N := firstn len (mgf1_spec len seed 0%N).
  Definition clear_top (l : list N) : list N :=
    match l with [] => [] | x :: r => N.land x 127 :: r end.
  Definition pss_encode (emLen : nat) (mhash salt : list N) : list N :=
    let h := H (repeat 0%N 8 ++ mhash ++ salt) in
    let db := repeat 0%N (emLen - length salt - hLen - 2) ++ [1%N] ++ salt in
    clear_top (xor_bytes db (mgf1_mask h (emLen - hLen - 1))) ++ h ++ [188%N].
End PSSSpec.

(* ECDSA verification equation over the affine reference *)
Definition ecdsa_eq (cv : curve) (Q : Z * Z) (u1 u2 r : Z) : Prop :=
  exists x y, ec_mulsum cv u1 u2 Q = Some (x, y) /\ (x mod cv_n cv = r)%Z.

Definition point_valid (cv : curve) (P : Z * Z) : Prop :=
  (0 <= fst P < cv_p cv)%Z /\ (0 <= snd P < cv_p cv)%Z /\ on_curve cv P = true.

Definition dh_pub_valid (p y : Z) : Prop := (2 <= y <= p - 2)%Z.
