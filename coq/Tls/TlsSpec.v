(* C10 - the TLS key derivations, Finished values, signed contents and record protection layouts,
   TRANSCRIBED FROM THE RFCs over the C12 primitive specifications (Crypto/CryptoSpec.v, CryptoSym.v).
   Nothing here is shaped after MatrixSSL; section numbers refer to the RFC text each definition copies.

     RFC 2246/4346 5      PRF of TLS 1.0/1.1 (P_MD5 xor P_SHA-1 over the two halves of the secret)
     RFC 5246 5           P_hash, PRF of TLS 1.2 (P_SHA256 / the cipher suite's PRF hash)
     RFC 5246 8.1, 6.3    master secret, key block and its partition
     RFC 7627 4           extended master secret (session_hash = handshake messages up to ClientKeyExchange)
     RFC 5246 7.4.9       Finished verify_data (12 bytes), RFC 4346 7.4.9 (MD5 || SHA-1 of the messages)
     RFC 5246 7.4.3/7.4.8 ServerKeyExchange signed content, CertificateVerify content
     RFC 8017 9.2         DigestInfo prefixes
     RFC 5246 6.2.3.2     CBC block cipher records (explicit IV, MAC-then-encrypt)
     RFC 5288 3           AES-GCM in TLS 1.2 (salt || explicit nonce; AAD = seq || type || version || length)
     RFC 7905 2           ChaCha20-Poly1305 in TLS 1.2 (nonce = IV xor padded sequence number)
     RFC 8446 7.1         HKDF-Expand-Label, Derive-Secret, the key schedule
     RFC 8446 4.4.1       Transcript-Hash, the message_hash substitution after HelloRetryRequest
     RFC 8446 4.4.4       Finished, 4.4.3 CertificateVerify content, 4.2.11.2 PSK binder, 4.6.1 resumption PSK
     RFC 8446 7.3         traffic keys, 5.2/5.3 record payload protection, per-record nonce

   Byte strings are `list N`; a handshake message is the byte string  type(1) || length(3) || body. *)
From Coq Require Import String Ascii.
From Coq Require Import List NArith Arith Bool.
From MV Require Import Crypto.CryptoPrims Crypto.CryptoSpec Crypto.CryptoSym.
Import ListNotations.
Local Open Scope nat_scope.

Definition bytes := list N.
Definition str (s : string) : bytes := map N_of_ascii (list_ascii_of_string s).
Definition be16 (n : nat) : bytes := [N.of_nat (n / 256 mod 256); N.of_nat (n mod 256)].
Definition seq64 (s : N) : bytes := be64 s.

(* ------------------------------------------------------------------ hashes *)
Inductive halg := SHA256 | SHA384.
Definition Hash (h : halg) : bytes -> bytes := match h with SHA256 => sha256_spec | SHA384 => sha384_spec end.
Definition HMAC (h : halg) : bytes -> bytes -> bytes := match h with SHA256 => hmac_sha256_spec | SHA384 => hmac_sha384_spec end.
Definition hlen (h : halg) : nat := match h with SHA256 => 32 | SHA384 => 48 end.
Definition HKDF_Extract (h : halg) : bytes -> bytes -> bytes :=
  match h with SHA256 => hkdf_extract_sha256_spec | SHA384 => hkdf_extract_sha384_spec end.
Definition HKDF_Expand (h : halg) : bytes -> bytes -> nat -> bytes :=
  match h with SHA256 => hkdf_expand_sha256_spec | SHA384 => hkdf_expand_sha384_spec end.

(* ================================================================== the labels, by the role of what is derived
   RFC 5246 8.1 / 6.3 / 7.4.9, RFC 7627 4, RFC 8446 7.1 / 7.2 / 7.3 / 4.4.3 / 4.4.4 / 4.6.1 / 4.2.11.2.
   Every definition below uses these constants; rfc_labels is the same set as a table (role name, label) for the
   run-time tie: the label bytes the library passes at each derivation site are compared with it. *)
Definition LBL_master_secret : bytes := str "master secret".
Definition LBL_extended_master_secret : bytes := str "extended master secret".
Definition LBL_key_expansion : bytes := str "key expansion".
Definition LBL_client_finished : bytes := str "client finished".
Definition LBL_server_finished : bytes := str "server finished".
Definition LBL_tls13_prefix : bytes := str "tls13 ".
Definition LBL_derived : bytes := str "derived".
Definition LBL_c_e_traffic : bytes := str "c e traffic".
Definition LBL_e_exp_master : bytes := str "e exp master".
Definition LBL_c_hs_traffic : bytes := str "c hs traffic".
Definition LBL_s_hs_traffic : bytes := str "s hs traffic".
Definition LBL_c_ap_traffic : bytes := str "c ap traffic".
Definition LBL_s_ap_traffic : bytes := str "s ap traffic".
Definition LBL_exp_master : bytes := str "exp master".
Definition LBL_res_master : bytes := str "res master".
Definition LBL_key : bytes := str "key".
Definition LBL_iv : bytes := str "iv".
Definition LBL_finished : bytes := str "finished".
Definition LBL_resumption : bytes := str "resumption".
Definition LBL_res_binder : bytes := str "res binder".
Definition LBL_ext_binder : bytes := str "ext binder".
Definition LBL_traffic_upd : bytes := str "traffic upd".
Definition LBL_cv_server : bytes := str "TLS 1.3, server CertificateVerify".
Definition LBL_cv_client : bytes := str "TLS 1.3, client CertificateVerify".
Definition rfc_labels : list (bytes * bytes) :=
  [(str "master", LBL_master_secret); (str "ext_master", LBL_extended_master_secret); (str "key_block", LBL_key_expansion);
   (str "client_finished", LBL_client_finished); (str "server_finished", LBL_server_finished);
   (str "hkdf_prefix", LBL_tls13_prefix); (str "derived", LBL_derived); (str "res_binder", LBL_res_binder); (str "ext_binder", LBL_ext_binder);
   (str "c_e_traffic", LBL_c_e_traffic); (str "e_exp_master", LBL_e_exp_master); (str "c_hs_traffic", LBL_c_hs_traffic);
   (str "s_hs_traffic", LBL_s_hs_traffic); (str "c_ap_traffic", LBL_c_ap_traffic); (str "s_ap_traffic", LBL_s_ap_traffic);
   (str "exp_master", LBL_exp_master); (str "res_master", LBL_res_master); (str "finished", LBL_finished); (str "key", LBL_key);
   (str "iv", LBL_iv); (str "resumption", LBL_resumption); (str "traffic_upd", LBL_traffic_upd);
   (str "cv_server", LBL_cv_server); (str "cv_client", LBL_cv_client)].

(* ================================================================== TLS 1.0 - 1.2 *)
(* RFC 5246 5:   P_hash(secret, seed) = HMAC_hash(secret, A(1) + seed) + HMAC_hash(secret, A(2) + seed) + ...
                 A(0) = seed,  A(i) = HMAC_hash(secret, A(i-1)) *)
Section PHash.
  Variable hmac : bytes -> bytes -> bytes.
  (* a = A(i-1); produces the terms i, i+1, ..., i+n-1 *)
  Fixpoint p_hash_terms (secret seed a : bytes) (n : nat) : bytes :=
    match n with
    | O => []
    | S n' => let a' := hmac secret a in hmac secret (a' ++ seed) ++ p_hash_terms secret seed a' n'
    end.
  (* "P_hash can be iterated as many times as necessary to produce the required quantity of data ...
     discarding the last bytes of the final iteration" *)
  Definition p_hash (hl : nat) (secret seed : bytes) (L : nat) : bytes :=
    firstn L (p_hash_terms secret seed seed ((L + hl - 1) / hl)).
End PHash.

(* RFC 5246 5:  PRF(secret, label, seed) = P_<hash>(secret, label + seed) *)
Definition prf12 (h : halg) (secret label seed : bytes) (L : nat) : bytes :=
  p_hash (HMAC h) (hlen h) secret (label ++ seed) L.

(* RFC 2246/4346 5:  L_S1 = L_S2 = ceil(L_S / 2); S1 the first L_S1 bytes, S2 the last L_S2 bytes;
   PRF(secret, label, seed) = P_MD5(S1, label + seed) XOR P_SHA-1(S2, label + seed) *)
Definition prf10 (secret label seed : bytes) (L : nat) : bytes :=
  let n := length secret in
  let half := (n + 1) / 2 in
  let s1 := firstn half secret in
  let s2 := skipn (n - half) secret in
  xor_lists (p_hash hmac_md5_spec 16 s1 (label ++ seed) L) (p_hash hmac_sha1_spec 20 s2 (label ++ seed) L).

Inductive tlsver := TLS10 | TLS11 | TLS12.
Definition ver_bytes (v : tlsver) : bytes := match v with TLS10 => [3; 1] | TLS11 => [3; 2] | TLS12 => [3; 3] end%N.
Definition tls_prf (v : tlsver) (h : halg) : bytes -> bytes -> bytes -> nat -> bytes :=
  match v with TLS12 => prf12 h | _ => prf10 end.
(* the hash of the handshake messages that goes into Finished / session_hash:
   TLS 1.2: the PRF hash; before: MD5(messages) + SHA-1(messages) *)
Definition hs_hash (v : tlsver) (h : halg) (m : bytes) : bytes :=
  match v with TLS12 => Hash h m | _ => md5_spec m ++ sha1_spec m end.

(* RFC 5246 8.1 *)
Definition master_secret (v : tlsver) (h : halg) (pms cr sr : bytes) : bytes :=
  tls_prf v h pms LBL_master_secret (cr ++ sr) 48.
(* RFC 7627 4:  master_secret = PRF(pre_master_secret, "extended master secret", session_hash)[0..47] *)
Definition extended_master_secret (v : tlsver) (h : halg) (pms session_hash : bytes) : bytes :=
  tls_prf v h pms LBL_extended_master_secret session_hash 48.
(* RFC 5246 6.3:  key_block = PRF(master_secret, "key expansion", server_random + client_random) *)
Definition key_block (v : tlsver) (h : halg) (ms cr sr : bytes) (L : nat) : bytes :=
  tls_prf v h ms LBL_key_expansion (sr ++ cr) L.

(* RFC 5246 6.3: client_write_MAC_key, server_write_MAC_key, client_write_key, server_write_key,
   client_write_IV, server_write_IV - in this order *)
Record keys12 := { k_cmac : bytes; k_smac : bytes; k_ckey : bytes; k_skey : bytes; k_civ : bytes; k_siv : bytes }.
Definition take (off len : nat) (b : bytes) : bytes := firstn len (skipn off b).
Definition partition_key_block (mac key iv : nat) (kb : bytes) : keys12 :=
  {| k_cmac := take 0 mac kb;
     k_smac := take mac mac kb;
     k_ckey := take (2 * mac) key kb;
     k_skey := take (2 * mac + key) key kb;
     k_civ := take (2 * mac + 2 * key) iv kb;
     k_siv := take (2 * mac + 2 * key + iv) iv kb |}.

(* ------------------------------------------------------------------ cipher suites (IANA registry + defining RFCs) *)
Inductive cipher := AES_CBC | AES_GCM | CHACHA20_POLY1305.
Inductive machash := MAC_SHA1 | MAC_SHA256 | MAC_SHA384 | MAC_AEAD.
Record suite := { s_cipher : cipher; s_keylen : nat; s_mac : machash; s_prf : halg }.
Definition mk := Build_suite.
Definition suite_of (id : N) : option suite :=
  match id with
  (* AES_128_CBC_SHA: RFC 5246 A.5 (RSA), RFC 4279 (PSK), RFC 8422 (ECDH_ECDSA, ECDHE_ECDSA, ECDH_RSA, ECDHE_RSA) *)
  | 0x002F | 0x008C | 0xC004 | 0xC009 | 0xC00E | 0xC013 => Some (mk AES_CBC 16 MAC_SHA1 SHA256)
  | 0x0035 | 0x008D | 0xC005 | 0xC00A | 0xC00F | 0xC014 => Some (mk AES_CBC 32 MAC_SHA1 SHA256)
  (* AES_128_CBC_SHA256: RFC 5246, RFC 5487 (PSK), RFC 5289 *)
  | 0x003C | 0x00AE | 0xC023 | 0xC025 | 0xC027 | 0xC029 => Some (mk AES_CBC 16 MAC_SHA256 SHA256)
  | 0x003D => Some (mk AES_CBC 32 MAC_SHA256 SHA256)
  (* AES_256_CBC_SHA384 (PRF SHA-384): RFC 5487, RFC 5289 *)
  | 0x00AF | 0xC024 | 0xC026 | 0xC028 | 0xC02A => Some (mk AES_CBC 32 MAC_SHA384 SHA384)
  (* AES_128_GCM_SHA256 / AES_256_GCM_SHA384: RFC 5288, RFC 5289 *)
  | 0x009C | 0x009E | 0xC02B | 0xC02D | 0xC02F | 0xC031 => Some (mk AES_GCM 16 MAC_AEAD SHA256)
  | 0x009D | 0x009F | 0xC02C | 0xC02E | 0xC030 | 0xC032 => Some (mk AES_GCM 32 MAC_AEAD SHA384)
  | 0xCCA8 | 0xCCA9 | 0xCCAA => Some (mk CHACHA20_POLY1305 32 MAC_AEAD SHA256)   (* RFC 7905 *)
  | 0x1301 => Some (mk AES_GCM 16 MAC_AEAD SHA256)                                (* RFC 8446 B.4 *)
  | 0x1302 => Some (mk AES_GCM 32 MAC_AEAD SHA384)
  | 0x1303 => Some (mk CHACHA20_POLY1305 32 MAC_AEAD SHA256)
  | _ => None
  end%N.
Definition mac_len (m : machash) : nat := match m with MAC_SHA1 => 20 | MAC_SHA256 => 32 | MAC_SHA384 => 48 | MAC_AEAD => 0 end.
(* SecurityParameters.fixed_iv_length: 4 for GCM (RFC 5288 3), 12 for ChaCha20-Poly1305 (RFC 7905 2);
   CBC: 0 from TLS 1.1 on (the IV is explicit, RFC 4346 6.2.3.2), the block size in TLS 1.0 *)
Definition fixed_iv_len (v : tlsver) (c : cipher) : nat :=
  match c with AES_GCM => 4 | CHACHA20_POLY1305 => 12 | AES_CBC => match v with TLS10 => 16 | _ => 0 end end.
Definition key_block_len (v : tlsver) (s : suite) : nat :=
  2 * mac_len (s_mac s) + 2 * s_keylen s + 2 * fixed_iv_len v (s_cipher s).

(* ------------------------------------------------------------------ handshake messages *)
Definition msg_type (m : bytes) : N := hd 0%N m.
Definition HT_CLIENT_HELLO := 1%N.   Definition HT_SERVER_HELLO := 2%N.   Definition HT_NEW_SESSION_TICKET := 4%N.
Definition HT_END_OF_EARLY_DATA := 5%N. Definition HT_CERTIFICATE_VERIFY := 15%N. Definition HT_CLIENT_KEY_EXCHANGE := 16%N.
Definition HT_FINISHED := 20%N.      Definition HT_MESSAGE_HASH := 254%N.
Definition is_type (t : N) (m : bytes) : bool := (msg_type m =? t)%N.

(* the messages strictly before the k-th (k = 0, 1, ..) message satisfying p, and that message *)
Fixpoint split_nth (p : bytes -> bool) (k : nat) (msgs : list bytes) : option (list bytes * bytes) :=
  match msgs with
  | [] => None
  | m :: r =>
    if p m then match k with
                | O => Some ([], m)
                | S k' => match split_nth p k' r with Some (pre, x) => Some (m :: pre, x) | None => None end
                end
    else match split_nth p k r with Some (pre, x) => Some (m :: pre, x) | None => None end
  end.
Definition before_nth p k msgs : list bytes := match split_nth p k msgs with Some (pre, _) => pre | None => msgs end.
Definition through_nth p k msgs : list bytes := match split_nth p k msgs with Some (pre, x) => pre ++ [x] | None => msgs end.
Definition the_nth p k msgs : option bytes := match split_nth p k msgs with Some (_, x) => Some x | None => None end.
Definition msg_body (m : bytes) : bytes := skipn 4 m.

(* ------------------------------------------------------------------ TLS 1.0-1.2 handshake: everything derived *)
Record hs12 := {
  h_session_hash : bytes;        (* RFC 7627 3: hash of ClientHello .. ClientKeyExchange (empty when not used) *)
  h_master : bytes;
  h_keys : keys12;
  h_client_finished : bytes;     (* verify_data *)
  h_server_finished : bytes;
  h_cv_content_hash : bytes      (* hs_hash of the messages before the client's CertificateVerify (empty if none) *)
}.
(* `secret` = the premaster secret of a full handshake, the session's master secret of an abbreviated one
   (RFC 5246 7.3, F.1.4: no ClientKeyExchange is sent when a session is resumed) *)
Definition tls12_handshake (v : tlsver) (s : suite) (ems : bool) (secret cr sr : bytes) (msgs : list bytes) : hs12 :=
  let h := s_prf s in
  let full := existsb (is_type HT_CLIENT_KEY_EXCHANGE) msgs in
  let session_hash := hs_hash v h (concat (through_nth (is_type HT_CLIENT_KEY_EXCHANGE) 0 msgs)) in
  let master := if full then (if ems then extended_master_secret v h secret session_hash else master_secret v h secret cr sr)
                else secret in
  let kb := key_block v h master cr sr (key_block_len v s) in
  (* RFC 5246 7.4.9: verify_data = PRF(master_secret, finished_label, Hash(handshake_messages))[0..11];
     handshake_messages = all messages up to but not including this one.  Full handshake: the client's Finished is
     the first, abbreviated: the server's *)
  let fin (k : nat) (label : bytes) :=
      tls_prf v h master label (hs_hash v h (concat (before_nth (is_type HT_FINISHED) k msgs))) 12 in
  {| h_session_hash := if full && ems then session_hash else [];
     h_master := master;
     h_keys := partition_key_block (mac_len (s_mac s)) (s_keylen s) (fixed_iv_len v (s_cipher s)) kb;
     h_client_finished := fin (if full then 0 else 1) LBL_client_finished;
     h_server_finished := fin (if full then 1 else 0) LBL_server_finished;
     h_cv_content_hash := match split_nth (is_type HT_CERTIFICATE_VERIFY) 0 msgs with
                          | Some (pre, _) => hs_hash v h (concat pre) | None => [] end |}.

(* RFC 5246 7.4.3: the ServerKeyExchange signature covers client_random + server_random + ServerParams *)
Definition ske_signed_content (cr sr params : bytes) : bytes := cr ++ sr ++ params.

(* RFC 8017 9.2 note 1: DER DigestInfo prefixes (T = prefix || H) *)
Inductive dihash := DI_MD5 | DI_SHA1 | DI_SHA256 | DI_SHA384 | DI_SHA512.
Definition digest_info_prefix (a : dihash) : bytes :=
  match a with
  | DI_MD5 => [0x30; 0x20; 0x30; 0x0c; 0x06; 0x08; 0x2a; 0x86; 0x48; 0x86; 0xf7; 0x0d; 0x02; 0x05; 0x05; 0x00; 0x04; 0x10]
  | DI_SHA1 => [0x30; 0x21; 0x30; 0x09; 0x06; 0x05; 0x2b; 0x0e; 0x03; 0x02; 0x1a; 0x05; 0x00; 0x04; 0x14]
  | DI_SHA256 => [0x30; 0x31; 0x30; 0x0d; 0x06; 0x09; 0x60; 0x86; 0x48; 0x01; 0x65; 0x03; 0x04; 0x02; 0x01; 0x05; 0x00; 0x04; 0x20]
  | DI_SHA384 => [0x30; 0x41; 0x30; 0x0d; 0x06; 0x09; 0x60; 0x86; 0x48; 0x01; 0x65; 0x03; 0x04; 0x02; 0x02; 0x05; 0x00; 0x04; 0x30]
  | DI_SHA512 => [0x30; 0x51; 0x30; 0x0d; 0x06; 0x09; 0x60; 0x86; 0x48; 0x01; 0x65; 0x03; 0x04; 0x02; 0x03; 0x05; 0x00; 0x04; 0x40]
  end%N.
Definition digest_info (a : dihash) (h : bytes) : bytes := digest_info_prefix a ++ h.

(* ------------------------------------------------------------------ TLS 1.1/1.2 record protection *)
Definition aead_seal (c : cipher) (key nonce aad pt : bytes) : bytes :=
  match c with
  | CHACHA20_POLY1305 => chachapoly_seal_spec key nonce aad pt
  | _ => let r := aes_gcm_encrypt_spec key nonce aad pt 16 in fst r ++ snd r
  end.
Definition aead_open (c : cipher) (key nonce aad sealed : bytes) : option bytes :=
  match c with
  | CHACHA20_POLY1305 => chachapoly_open_spec key nonce aad sealed
  | _ => let n := length sealed - 16 in
         if length sealed <? 16 then None else aes_gcm_decrypt_spec key nonce aad (firstn n sealed) (skipn n sealed)
  end.
Definition rec_header (ctype : N) (ver : bytes) (len : nat) : bytes := ctype :: ver ++ be16 len.
(* RFC 5246 6.2.3.3: additional_data = seq_num + TLSCompressed.type + TLSCompressed.version + TLSCompressed.length *)
Definition aad12 (seq ctype : N) (ver : bytes) (len : nat) : bytes := seq64 seq ++ ctype :: ver ++ be16 len.

(* RFC 5288 3: nonce = salt(4, client/server_write_IV) || nonce_explicit(8, carried in the record) *)
Definition seal12_gcm (key salt explicit : bytes) (seq ctype : N) (ver content : bytes) : bytes :=
  rec_header ctype ver (8 + length content + 16) ++ explicit ++
  aead_seal AES_GCM key (salt ++ explicit) (aad12 seq ctype ver (length content)) content.
(* RFC 7905 2: the 64-bit record sequence number is padded on the left with four 0x00 bytes and XORed with the
   client/server_write_IV; nothing explicit is sent *)
Definition nonce_xor (iv : bytes) (seq : N) : bytes := xor_lists iv (repeat 0%N 4 ++ seq64 seq).
Definition seal12_chacha (key iv : bytes) (seq ctype : N) (ver content : bytes) : bytes :=
  rec_header ctype ver (length content + 16) ++
  aead_seal CHACHA20_POLY1305 key (nonce_xor iv seq) (aad12 seq ctype ver (length content)) content.

(* RFC 5246 6.2.3.1 / 6.2.3.2:  MAC(MAC_write_key, seq_num + type + version + length + fragment);
   block-ciphered struct = IV || enc(content || MAC || padding || padding_length), every padding byte = padding_length *)
Definition mac_fn (m : machash) : bytes -> bytes -> bytes :=
  match m with MAC_SHA1 => hmac_sha1_spec | MAC_SHA256 => hmac_sha256_spec | MAC_SHA384 => hmac_sha384_spec | MAC_AEAD => fun _ _ => [] end.
Definition record_mac (m : machash) (mackey : bytes) (seq ctype : N) (ver content : bytes) : bytes :=
  mac_fn m mackey (aad12 seq ctype ver (length content) ++ content).
Definition seal12_cbc (m : machash) (mackey key iv : bytes) (padlen : nat) (seq ctype : N) (ver content : bytes) : bytes :=
  let plain := content ++ record_mac m mackey seq ctype ver content ++ repeat (N.of_nat padlen) (padlen + 1) in
  rec_header ctype ver (16 + length plain) ++ iv ++ aes_cbc_encrypt_spec key iv plain.
(* the receiving direction: the content of a record iff padding and MAC are what 6.2.3.2 prescribes *)
Definition open12_cbc (m : machash) (mackey key : bytes) (seq ctype : N) (ver record : bytes) : option bytes :=
  let frag := skipn 5 record in
  let iv := firstn 16 frag in
  let ct := skipn 16 frag in
  if negb (bytes_eqb (firstn 5 record) (rec_header ctype ver (length frag))) then None
  else if (length ct mod 16 =? 0) && (0 <? length ct) then
    let plain := aes_cbc_decrypt_spec key iv ct in
    let padlen := N.to_nat (last plain 0%N) in
    let clen := length plain - (padlen + 1) - mac_len m in
    if length plain <? padlen + 1 + mac_len m then None
    else if negb (bytes_eqb (skipn (length plain - (padlen + 1)) plain) (repeat (N.of_nat padlen) (padlen + 1))) then None
    else let content := firstn clen plain in
         if bytes_eqb (take clen (mac_len m) plain) (record_mac m mackey seq ctype ver content) then Some content else None
  else None.

(* length of the protected record body for a fragment of n bytes (minimal CBC padding) *)
Definition body_len12 (s : suite) (n : nat) : nat :=
  match s_cipher s with
  | AES_GCM => 8 + n + 16
  | CHACHA20_POLY1305 => n + 16
  | AES_CBC => let m := n + mac_len (s_mac s) in 16 + m + (16 - m mod 16)
  end.

(* ================================================================== TLS 1.3 *)
(* RFC 8446 7.1:
     struct { uint16 length = Length; opaque label<7..255> = "tls13 " + Label; opaque context<0..255> = Context; } HkdfLabel;
     HKDF-Expand-Label(Secret, Label, Context, Length) = HKDF-Expand(Secret, HkdfLabel, Length) *)
Definition hkdf_label (L : nat) (label context : bytes) : bytes :=
  be16 L ++ N.of_nat (6 + length label) :: LBL_tls13_prefix ++ label ++ N.of_nat (length context) :: context.
Definition hkdf_expand_label (h : halg) (secret label context : bytes) (L : nat) : bytes :=
  HKDF_Expand h secret (hkdf_label L label context) L.
(* Derive-Secret(Secret, Label, Messages) = HKDF-Expand-Label(Secret, Label, Transcript-Hash(Messages), Hash.length);
   here on the transcript hash value *)
Definition derive_secret_h (h : halg) (secret label th : bytes) : bytes := hkdf_expand_label h secret label th (hlen h).

(* RFC 8446 4.1.3: the ServerHello.random of a HelloRetryRequest = SHA-256("HelloRetryRequest") *)
Definition hrr_random : bytes :=
  [0xCF; 0x21; 0xAD; 0x74; 0xE5; 0x9A; 0x61; 0x11; 0xBE; 0x1D; 0x8C; 0x02; 0x1E; 0x65; 0xB8; 0x91;
   0xC2; 0xA2; 0x11; 0x16; 0x7A; 0xBB; 0x8C; 0x5E; 0x07; 0x9E; 0x09; 0xE2; 0xC8; 0xA8; 0x33; 0x9C]%N.
Definition is_hrr (m : bytes) : bool := is_type HT_SERVER_HELLO m && bytes_eqb (take 6 32 m) hrr_random.
Definition is_server_hello (m : bytes) : bool := is_type HT_SERVER_HELLO m && negb (is_hrr m).

(* RFC 8446 4.4.1:  Transcript-Hash(M1, .., Mn) = Hash(M1 || .. || Mn); when the server answered ClientHello1 with a
   HelloRetryRequest:  Hash(message_hash || 00 00 Hash.length || Hash(ClientHello1) || HelloRetryRequest || ... || Mn) *)
Definition transcript_bytes (h : halg) (msgs : list bytes) : bytes :=
  match msgs with
  | ch1 :: hrr :: rest =>
    if is_hrr hrr then (HT_MESSAGE_HASH :: 0 :: 0 :: N.of_nat (hlen h) :: Hash h ch1)%N ++ concat (hrr :: rest)
    else concat msgs
  | _ => concat msgs
  end.
Definition transcript_hash (h : halg) (msgs : list bytes) : bytes := Hash h (transcript_bytes h msgs).
Definition derive_secret (h : halg) (secret label : bytes) (msgs : list bytes) : bytes :=
  derive_secret_h h secret label (transcript_hash h msgs).

(* RFC 8446 7.1, the schedule on transcript-hash values (this form is pinned to the RFC 8448 trace below).
   psk / ecdhe = None : "the corresponding input is a string of Hash.length zero bytes" *)
Record sched13 := {
  e_early : bytes; e_binder_key : bytes; e_c_e_traffic : bytes; e_e_exp_master : bytes;
  e_handshake : bytes; e_c_hs_traffic : bytes; e_s_hs_traffic : bytes;
  e_master : bytes; e_c_ap_traffic : bytes; e_s_ap_traffic : bytes; e_exp_master : bytes; e_res_master : bytes }.
Definition zeros (n : nat) : bytes := repeat 0%N n.
Definition schedule13 (h : halg) (psk : option bytes) (resumption_psk : bool) (ecdhe : option bytes)
           (th_ch th_ch_sh th_ch_sfin th_ch_cfin : bytes) : sched13 :=
  let z := zeros (hlen h) in
  let empty := Hash h [] in
  let early := HKDF_Extract h z (match psk with Some p => p | None => z end) in
  let hs := HKDF_Extract h (derive_secret_h h early LBL_derived empty) (match ecdhe with Some e => e | None => z end) in
  let master := HKDF_Extract h (derive_secret_h h hs LBL_derived empty) z in
  {| e_early := early;
     e_binder_key := derive_secret_h h early (if resumption_psk then LBL_res_binder else LBL_ext_binder) empty;
     e_c_e_traffic := derive_secret_h h early LBL_c_e_traffic th_ch;
     e_e_exp_master := derive_secret_h h early LBL_e_exp_master th_ch;
     e_handshake := hs;
     e_c_hs_traffic := derive_secret_h h hs LBL_c_hs_traffic th_ch_sh;
     e_s_hs_traffic := derive_secret_h h hs LBL_s_hs_traffic th_ch_sh;
     e_master := master;
     e_c_ap_traffic := derive_secret_h h master LBL_c_ap_traffic th_ch_sfin;
     e_s_ap_traffic := derive_secret_h h master LBL_s_ap_traffic th_ch_sfin;
     e_exp_master := derive_secret_h h master LBL_exp_master th_ch_sfin;
     e_res_master := derive_secret_h h master LBL_res_master th_ch_cfin |}.

(* RFC 8446 7.3:  [sender]_write_key = HKDF-Expand-Label(Secret, "key", "", key_length);  _iv: "iv", iv_length = 12 *)
Definition traffic_key (h : halg) (secret : bytes) (keylen : nat) : bytes := hkdf_expand_label h secret LBL_key [] keylen.
Definition traffic_iv (h : halg) (secret : bytes) : bytes := hkdf_expand_label h secret LBL_iv [] 12.
(* RFC 8446 4.4.4:  finished_key = HKDF-Expand-Label(BaseKey, "finished", "", Hash.length);
                    verify_data = HMAC(finished_key, Transcript-Hash(Handshake Context, Certificate?, CertificateVerify?) ) *)
Definition finished_key (h : halg) (base : bytes) : bytes := hkdf_expand_label h base LBL_finished [] (hlen h).
Definition verify_data13 (h : halg) (base th : bytes) : bytes := HMAC h (finished_key h base) th.
(* RFC 8446 7.2:  application_traffic_secret_N+1 = HKDF-Expand-Label(application_traffic_secret_N, "traffic upd", "", Hash.length)
   (KeyUpdate; MatrixSSL does not implement it - no tie) *)
Definition next_traffic_secret (h : halg) (secret : bytes) : bytes := hkdf_expand_label h secret LBL_traffic_upd [] (hlen h).
(* RFC 8446 4.6.1:  PSK = HKDF-Expand-Label(resumption_master_secret, "resumption", ticket_nonce, Hash.length) *)
Definition resumption_psk (h : halg) (res_master nonce : bytes) : bytes :=
  hkdf_expand_label h res_master LBL_resumption nonce (hlen h).
(* NewSessionTicket: ticket_lifetime(4) ticket_age_add(4) ticket_nonce<0..255> ... *)
Definition nst_nonce (m : bytes) : bytes := let b := msg_body m in take 9 (N.to_nat (nth 8 b 0%N)) b.
(* RFC 8446 4.4.3: 64 x 0x20 || context string || 0x00 || Transcript-Hash(Handshake Context, Certificate) *)
Definition cv13_content (server : bool) (th : bytes) : bytes :=
  repeat 0x20%N 64 ++ (if server then LBL_cv_server else LBL_cv_client) ++ 0%N :: th.

(* RFC 8446 4.2.11 / 4.1.3: the server announces the PSK it SELECTED by a pre_shared_key extension (selected_identity) in
   its ServerHello; without it no PSK is in use, whatever the client offered, and 7.1 applies: "if a given secret is not
   available, then the 0-value consisting of a string of Hash.length bytes set to zeros is used" for the PSK.
   ServerHello body: legacy_version(2) random(32) legacy_session_id_echo<0..32> cipher_suite(2) compression(1) extensions<6..2^16-1> *)
Definition u16_at (b : bytes) (off : nat) : nat := N.to_nat (nth off b 0%N) * 256 + N.to_nat (nth (S off) b 0%N).
Fixpoint ext_types (fuel : nat) (b : bytes) : list nat :=
  match fuel with
  | O => []
  | S f => match b with
           | _ :: _ :: _ :: _ :: _ => u16_at b 0 :: ext_types f (skipn (4 + u16_at b 2) b)
           | _ => []
           end
  end.
Definition server_hello_ext_types (m : bytes) : list nat :=
  let b := msg_body m in
  let off := 35 + N.to_nat (nth 34 b 0%N) + 3 in
  ext_types (length b) (firstn (u16_at b off) (skipn (off + 2) b)).
Definition EXT_PRE_SHARED_KEY : nat := 41.
Definition psk_selected (msgs : list bytes) : bool :=
  match the_nth is_server_hello 0 msgs with
  | Some sh => existsb (Nat.eqb EXT_PRE_SHARED_KEY) (server_hello_ext_types sh)
  | None => false
  end.
Definition selected_psk (offered : option bytes) (msgs : list bytes) : option bytes := if psk_selected msgs then offered else None.
(* RFC 8446 4.2.8 / 4.2.9: a ServerHello without key_share means PSK-only key establishment (psk_ke): no (EC)DHE secret
   exists and 7.1 puts Hash.length zero bytes in its place *)
Definition EXT_KEY_SHARE : nat := 51.
Definition dhe_selected (msgs : list bytes) : bool :=
  match the_nth is_server_hello 0 msgs with
  | Some sh => existsb (Nat.eqb EXT_KEY_SHARE) (server_hello_ext_types sh)
  | None => false
  end.
Definition selected_dhe (shared : option bytes) (msgs : list bytes) : option bytes := if dhe_selected msgs then shared else None.
(* Early Secret and the salt of the Handshake Secret extraction for a given PSK-in-use *)
Definition early_secret_of (h : halg) (psk : option bytes) : bytes :=
  HKDF_Extract h (zeros (hlen h)) (match psk with Some p => p | None => zeros (hlen h) end).
Definition handshake_salt (h : halg) (psk : option bytes) : bytes :=
  derive_secret_h h (early_secret_of h psk) LBL_derived (Hash h []).

(* everything RFC 8446 derives from (offered PSK, (EC)DHE, the handshake messages in order) *)
Record hs13 := {
  t_psk_selected : bool; t_dhe_selected : bool;
  t_offered : sched13;                   (* the schedule started from the OFFERED PSK: binder key and early traffic (4.2.11.2, 4.2.10) *)
  t_hs_salt : bytes;                     (* Derive-Secret(Early Secret, "derived", "") that salts the Handshake Secret *)
  t_sched : sched13;
  t_binder : bytes;                      (* PskBinderEntry of the (last) ClientHello, [] without PSK *)
  t_c_e_key : bytes; t_c_e_iv : bytes;
  t_c_hs_key : bytes; t_c_hs_iv : bytes; t_s_hs_key : bytes; t_s_hs_iv : bytes;
  t_c_ap_key : bytes; t_c_ap_iv : bytes; t_s_ap_key : bytes; t_s_ap_iv : bytes;
  t_server_finished : bytes; t_client_finished : bytes;
  t_server_cv_content : bytes; t_client_cv_content : bytes     (* [] when the message is absent *)
}.
(* binders_len = length of the `binders` field (with its 2 length bytes) at the end of the last ClientHello:
   RFC 8446 4.2.11.2 Truncate() removes exactly that *)
Definition tls13_handshake (h : halg) (keylen : nat) (psk_offered : option bytes) (resumption : bool) (ecdhe : option bytes)
           (binders_len : nat) (msgs : list bytes) : hs13 :=
  let psk := selected_psk psk_offered msgs in
  let ecdhe := selected_dhe ecdhe msgs in
  let fin := is_type HT_FINISHED in
  let th_ch := transcript_hash h (through_nth (is_type HT_CLIENT_HELLO) 0 msgs) in
  let th_sh := transcript_hash h (through_nth is_server_hello 0 msgs) in
  let th_sfin := transcript_hash h (through_nth fin 0 msgs) in
  let th_cfin := transcript_hash h (through_nth fin 1 msgs) in
  let s := schedule13 h psk resumption ecdhe th_ch th_sh th_sfin th_cfin in
  let so := schedule13 h psk_offered resumption ecdhe th_ch th_sh th_sfin th_cfin in
  (* the ClientHello carrying the binders is the last one before the ServerHello *)
  let upto_ch := match split_nth is_server_hello 0 msgs with Some (pre, _) => pre | None => msgs end in
  let trunc := firstn (length (transcript_bytes h upto_ch) - binders_len) (transcript_bytes h upto_ch) in
  let cv (server : bool) (lo hi : list bytes) :=      (* the CertificateVerify among the messages hi \ lo *)
      match split_nth (is_type HT_CERTIFICATE_VERIFY) 0 (skipn (length lo) hi) with
      | Some (pre, _) => cv13_content server (transcript_hash h (lo ++ pre))
      | None => [] end in
  let pre_sfin := before_nth fin 0 msgs in
  let pre_cfin := before_nth fin 1 msgs in
  {| t_psk_selected := psk_selected msgs; t_dhe_selected := dhe_selected msgs;
     t_offered := so;
     t_hs_salt := handshake_salt h psk;
     t_sched := s;
     t_binder := match psk_offered with Some _ => verify_data13 h (e_binder_key so) (Hash h trunc) | None => [] end;
     t_c_e_key := traffic_key h (e_c_e_traffic so) keylen; t_c_e_iv := traffic_iv h (e_c_e_traffic so);
     t_c_hs_key := traffic_key h (e_c_hs_traffic s) keylen; t_c_hs_iv := traffic_iv h (e_c_hs_traffic s);
     t_s_hs_key := traffic_key h (e_s_hs_traffic s) keylen; t_s_hs_iv := traffic_iv h (e_s_hs_traffic s);
     t_c_ap_key := traffic_key h (e_c_ap_traffic s) keylen; t_c_ap_iv := traffic_iv h (e_c_ap_traffic s);
     t_s_ap_key := traffic_key h (e_s_ap_traffic s) keylen; t_s_ap_iv := traffic_iv h (e_s_ap_traffic s);
     t_server_finished := verify_data13 h (e_s_hs_traffic s) (transcript_hash h pre_sfin);
     t_client_finished := verify_data13 h (e_c_hs_traffic s) (transcript_hash h pre_cfin);
     t_server_cv_content := cv true [] pre_sfin;
     t_client_cv_content := cv false (through_nth fin 0 msgs) pre_cfin |}.

(* ------------------------------------------------------------------ RFC 8446 5.2 / 5.3 record protection *)
(* 5.3: the 64-bit sequence number in network byte order, padded to the left with zeros to iv_length, XORed with the
   static client/server_write_iv *)
Definition nonce13 : bytes -> N -> bytes := nonce_xor.
(* 5.2: additional_data = TLSCiphertext.opaque_type || legacy_record_version || length  =  17 03 03 len *)
Definition aad13 (len : nat) : bytes := rec_header 23%N [3; 3]%N len.
(* TLSInnerPlaintext = content || type || zeros *)
Definition seal13 (c : cipher) (key iv : bytes) (seq : N) (content : bytes) (ctype : N) (pad : nat) : bytes :=
  let inner := content ++ ctype :: zeros pad in
  let hdr := aad13 (length inner + 16) in
  hdr ++ aead_seal c key (nonce13 iv seq) hdr inner.
(* "the receiving implementation scans the field from the end toward the beginning until it finds a non-zero octet" *)
Definition strip_trailing_zeros (l : bytes) : bytes :=
  fold_right (fun b acc => match acc with [] => if (b =? 0)%N then [] else [b] | _ => b :: acc end) [] l.
(* (content, content type) of a protected record; None if the header is not 17 03 03 len, the AEAD check fails
   or the inner plaintext has no non-zero byte *)
Definition open13 (c : cipher) (key iv : bytes) (seq : N) (record : bytes) : option (bytes * N) :=
  let body := skipn 5 record in
  if negb (bytes_eqb (firstn 5 record) (aad13 (length body))) then None else
  match aead_open c key (nonce13 iv seq) (firstn 5 record) body with
  | None => None
  | Some inner => match strip_trailing_zeros inner with
                  | [] => None
                  | l => Some (removelast l, last l 0%N)
                  end
  end.
Definition body_len13 (n pad : nat) : nat := n + 1 + pad + 16.

(* ================================================================== pinning the transcription to published vectors *)
Definition hexd (c : ascii) : N :=
  let n := N_of_ascii c in
  if (48 <=? n)%N && (n <=? 57)%N then n - 48 else if (97 <=? n)%N && (n <=? 102)%N then n - 87 else n - 55.
Fixpoint unhex_l (l : list ascii) : bytes :=
  match l with a :: b :: r => (16 * hexd a + hexd b)%N :: unhex_l r | _ => [] end.
Definition hex (s : string) : bytes := unhex_l (list_ascii_of_string s).

(* TLS 1.2 PRF with SHA-256: the widely published vector (IETF TLS WG list, "TLS 1.2 PRF test vectors") *)
Example kat_prf12_sha256 :
  prf12 SHA256 (hex "9bbe436ba940f017b17652849a71db35") (str "test label") (hex "a0ba9f936cda311827a6f796ffd5198c") 100 =
  hex "e3f229ba727be17b8d122620557cd453c2aab21d07c3d495329b52d4e61edb5a6b301791e90d35c9c9a46b4e14baf9af0fa022f7077def17abfd3797c0564bab4fbc91666e9def9b97fce34f796789baa48082d122ee42c5a72e5a5110fff70187347b66".
Proof. vm_compute. reflexivity. Qed.

(* RFC 8448 section 3, "Simple 1-RTT Handshake" *)
Definition rfc8448_sched : sched13 :=
  schedule13 SHA256 None false (Some (hex "8bd4054fb55b9d63fdfbacf9f04b9f0d35e6d63f537563efd46272900f89492d"))
    []                                                                                     (* no early data in this trace *)
    (hex "860c06edc07858ee8e78f0e7428c58edd6b43f2ca3e6e95f02ed063cf0e1cad8")          (* ClientHello..ServerHello *)
    (hex "9608102a0f1ccc6db6250b7b7e417b1a000eaada3daae4777a7686c9ff83df13")          (* ..server Finished *)
    (hex "209145a96ee8e2a122ff810047cc952684658d6049e86429426db87c54ad143d").         (* ..client Finished *)
Example rfc8448_early : e_early rfc8448_sched = hex "33ad0a1c607ec03b09e6cd9893680ce210adf300aa1f2660e1b22e10f170f92a".
Proof. vm_compute. reflexivity. Qed.
Example rfc8448_handshake : e_handshake rfc8448_sched = hex "1dc826e93606aa6fdc0aadc12f741b01046aa6b99f691ed221a9f0ca043fbeac".
Proof. vm_compute. reflexivity. Qed.
Example rfc8448_c_hs : e_c_hs_traffic rfc8448_sched = hex "b3eddb126e067f35a780b3abf45e2d8f3b1a950738f52e9600746a0e27a55a21".
Proof. vm_compute. reflexivity. Qed.
Example rfc8448_s_hs : e_s_hs_traffic rfc8448_sched = hex "b67b7d690cc16c4e75e54213cb2d37b4e9c912bcded9105d42befd59d391ad38".
Proof. vm_compute. reflexivity. Qed.
Example rfc8448_master : e_master rfc8448_sched = hex "18df06843d13a08bf2a449844c5f8a478001bc4d4c627984d5a41da8d0402919".
Proof. vm_compute. reflexivity. Qed.
Example rfc8448_c_ap : e_c_ap_traffic rfc8448_sched = hex "9e40646ce79a7f9dc05af8889bce6552875afa0b06df0087f792ebb7c17504a5".
Proof. vm_compute. reflexivity. Qed.
Example rfc8448_s_ap : e_s_ap_traffic rfc8448_sched = hex "a11af9f05531f856ad47116b45a950328204b4f44bfb6b3a4b4f1f3fcb631643".
Proof. vm_compute. reflexivity. Qed.
Example rfc8448_exp : e_exp_master rfc8448_sched = hex "fe22f881176eda18eb8f44529e6792c50c9a3f89452f68d8ae311b4309d3cf50".
Proof. vm_compute. reflexivity. Qed.
Example rfc8448_res : e_res_master rfc8448_sched = hex "7df235f2031d2a051287d02b0241b0bfdaf86cc856231f2d5aba46c434ec196c".
Proof. vm_compute. reflexivity. Qed.
Example rfc8448_server_hs_key :
  (traffic_key SHA256 (e_s_hs_traffic rfc8448_sched) 16, traffic_iv SHA256 (e_s_hs_traffic rfc8448_sched)) =
  (hex "3fce516009c21727d0f2e4e86ee403bc", hex "5d313eb2671276ee13000b30").
Proof. vm_compute. reflexivity. Qed.
Example rfc8448_server_finished :
  verify_data13 SHA256 (e_s_hs_traffic rfc8448_sched) (hex "edb7725fa7a3473b031ec8ef65a2485493900138a2b91291407d7951a06110ed") =
  hex "9b9b141d906337fbd2cbdce71df4deda4ab42c309572cb7fffee5454b78f0718".
Proof. vm_compute. reflexivity. Qed.
Example rfc8448_client_finished :
  verify_data13 SHA256 (e_c_hs_traffic rfc8448_sched) (hex "9608102a0f1ccc6db6250b7b7e417b1a000eaada3daae4777a7686c9ff83df13") =
  hex "a8ec436d677634ae525ac1fcebe11a039ec17694fac6e98527b642f2edd5ce61".
Proof. vm_compute. reflexivity. Qed.
Example rfc8448_resumption_psk :
  resumption_psk SHA256 (e_res_master rfc8448_sched) [0; 0]%N = hex "4ecd0eb6ec3b4d87f5d6028f922ca4c5851a277fd41311c9e62d2c9492e1c4f3".
Proof. vm_compute. reflexivity. Qed.
(* SHA-256("HelloRetryRequest") *)
Example hrr_random_is_the_hash : sha256_spec (str "HelloRetryRequest") = hrr_random.
Proof. vm_compute. reflexivity. Qed.
(* RFC 8017 9.2: the DigestInfo of a SHA-256 digest is 51 bytes, 0x30 0x31 .. 0x04 0x20 || H *)
Example strip_zeros_example : strip_trailing_zeros [1; 0; 2; 23; 0; 0]%N = [1; 0; 2; 23]%N /\ strip_trailing_zeros [0; 0]%N = [].
Proof. split; reflexivity. Qed.
(* ServerHello extension scan: supported_versions, key_share, pre_shared_key -> selected; without the last -> not selected *)
Example server_hello_exts_example :
  server_hello_ext_types (hex "0200003a03030000000000000000000000000000000000000000000000000000000000000000001301000012002b00020304003300020017002900020000") = [43; 51; 41] /\
  psk_selected [[1%N]; hex "0200003a03030000000000000000000000000000000000000000000000000000000000000000001301000012002b00020304003300020017002900020000"] = true /\ psk_selected [[1%N]; hex "020000340303000000000000000000000000000000000000000000000000000000000000000000130100000c002b00020304003300020017"] = false.
Proof. vm_compute. repeat split. Qed.
Example digest_info_sha256_len : length (digest_info DI_SHA256 (sha256_spec [])) = 51.
Proof. vm_compute. reflexivity. Qed.
