(* C10 - code-shaped Gallina models of MatrixSSL's TLS key derivation (no proofs here):
     matrixssl/prf.c              pMd5 75-139, pSha1 145-210, prf 216-250, pSha2 259-387, prf2 394-430
     matrixssl/tls.c              genKeyBlock 62-201, tlsDeriveKeys 207-289, tlsExtendedDeriveKeys 292-400
     matrixssl/hsHash.c           tlsGenerateFinishedHash 258-417, extMasterSecretSnapshotHSHash 421-472
     crypto/digest/hkdf.c         psHkdfExpandLabel 176-272
     matrixssl/tls13KeySchedule.c tls13DeriveSecret 93-150, tls13GenerateEarlySecret 152-236, tls13DeriveEarlySecrets 240-300,
                                  tls13DeriveHandshakeTrafficSecrets 302-432, tls13DeriveAppTrafficSecrets 434-548,
                                  tls13DeriveResumptionMasterSecret 550-580, tls13DeriveHandshakeKeys/AppKeys 582-690/808-918,
                                  tls13DeriveEarlyDataSecret 692-752, tls13DeriveBinderKey 920-981, tls13DeriveFinishedKey 983-1048
     matrixssl/tls13Encode.c      tls13WriteFinished 1317-1400 (verify_data), matrixssl/tls13Resume.c tls13DeriveResumptionPsk 43-86
     matrixssl/tls13TrHash.c      tls13TranscriptHashReinit 98-166
     matrixssl/tls13SigVer.c      tls13MakeTbs 207-251
     matrixssl/cipherSuite.c      csAesGcmEncrypt 178-252 (nonce, AAD), csChacha20Poly1305IetfEncrypt 414-500
     matrixssl/tls13CipherSuite.c tls13MakeWriteNonce 52-62, tls13MakeEncryptAad 78-85
   Label strings, their length constants, the hard-coded digests of the empty string and the cipher table come from
   coq/Gen/TlsLabels.v and coq/Gen/ConstsTls.v (regenerated from the source on every run).
   The HMAC / digest / HKDF building blocks are the C12 models of crypto/digest/{hmac,hkdf}.c (Crypto/CryptoModel.v). *)
From Coq Require Import List NArith Arith Bool.
From MV Require Import Crypto.CryptoPrims Crypto.CryptoSpec Crypto.CryptoModel Crypto.CryptoSym Gen.ConstsTls Gen.TlsLabels.
Import ListNotations.
Local Open Scope nat_scope.

(* ------------------------------------------------------------------ the bytes passed at each derivation site
   Gen/TlsLabels.v lists, per role, the distinct (label, length) byte strings the code hands over (resolved from the
   source: literals, #defines, named constants, sizeof / strlen lengths - a length covering the terminator yields the NUL).
   A well-formed tree has exactly one per role; anything else makes the model use the empty label, which no RFC has. *)
Definition the_lbl (l : list (list N)) : list N := match l with [x] => x | _ => [] end.
Definition l_master := the_lbl lbl_master.            Definition l_ext_master := the_lbl lbl_ext_master.
Definition l_key_block := the_lbl lbl_key_block.      Definition l_client_finished := the_lbl lbl_client_finished.
Definition l_server_finished := the_lbl lbl_server_finished.
Definition l_derived := the_lbl lbl_derived.          Definition l_res_binder := the_lbl lbl_res_binder.
Definition l_ext_binder := the_lbl lbl_ext_binder.    Definition l_c_e_traffic := the_lbl lbl_c_e_traffic.
Definition l_c_hs_traffic := the_lbl lbl_c_hs_traffic. Definition l_s_hs_traffic := the_lbl lbl_s_hs_traffic.
Definition l_c_ap_traffic := the_lbl lbl_c_ap_traffic. Definition l_s_ap_traffic := the_lbl lbl_s_ap_traffic.
Definition l_res_master := the_lbl lbl_res_master.    Definition l_finished := the_lbl lbl_finished.
Definition l_key := the_lbl lbl_key.                  Definition l_iv := the_lbl lbl_iv.
Definition l_resumption := the_lbl lbl_resumption.
Definition l_cv_server := the_lbl lbl_cv_server.      Definition l_cv_client := the_lbl lbl_cv_client.

(* ================================================================== prf.c *)
Section PModel.
  Variable hctx : Type.
  Variable hinit : hctx.
  Variable hupdate : hctx -> list N -> hctx.
  Variable hfinal : hctx -> list N.
  Variable B hlen : nat.
  Local Notation ps_hmac := (ps_hmac hctx hinit hupdate hfinal B hlen).
  Local Notation hmac_init := (hmac_init hctx hinit hupdate hfinal B).
  Local Notation hmac_update := (hmac_update hctx hupdate).
  Local Notation hmac_final := (hmac_final hctx hinit hupdate hfinal).

  (* for (keyIter = 1; (uint16_t) (HASH_SIZE * keyIter) < outLen; ) keyIter++;    (psSize_t is 16 bits wide) *)
  Fixpoint key_iter_loop (fuel k outLen : nat) : option nat :=
    match fuel with
    | O => None
    | S f => if (hlen * k) mod (256 * 256) <? outLen then key_iter_loop f (S k) outLen else Some k
    end.
  Definition key_iter (outLen : nat) : option nat := key_iter_loop (S outLen) 1 outLen.

  (* for (i = 0; i < keyIter; i++): a = A(i+1) on entry; out = bytes written so far *)
  Fixpoint p_loop (fuel i keyIter : nat) (key a text out : list N) (outLen : nat) : res (list N) :=
    match fuel with
    | O => Ok out
    | S f =>
      bind (hmac_init key) (fun c =>                                        (* psHmac<H>Init(&ctx, key, keyLen) *)
        let mac := hmac_final (hmac_update (hmac_update c a) text) in        (* Update(a); Update(text); Final(mac) *)
        if i =? keyIter - 1
        then Ok (out ++ firstn (outLen - hlen * i) mac)                      (* Memcpy(out + H*i, mac, outLen - H*i); last turn *)
        else bind (ps_hmac key a) (fun r =>                                  (* Memcpy(.., mac, H); psHmac<H>(key, a, H, a, ..) *)
               p_loop f (S i) keyIter key (fst r) text (out ++ mac) outLen))
    end.

  (* pMd5 / pSha1 / pSha2 *)
  Definition p_model (key text : list N) (outLen : nat) : res (list N) :=
    match key_iter outLen with
    | None => OutOfFuel
    | Some keyIter =>
      bind (ps_hmac key text) (fun r =>                                      (* a = A(1); hmacKey, hmacKeyLen *)
        let a := fst r in
        let key' := if snd r =? length key then key                          (* if (hmacKeyLen != keyLen) *)
                    else hfinal (hupdate hinit key) in                       (*   key = hmacKey (the hashed key) *)
        p_loop keyIter 0 keyIter key' a text [] outLen)
    end.
End PModel.

Definition pMd5    := p_model (ctx st4) md5_init md5_update md5_final 64 16.
Definition pSha1   := p_model (ctx st5) sha1_init sha1_update sha1_final 64 20.
Definition pSha256 := p_model sha256_ctx sha256_init sha256_update sha256_final 64 32.
Definition pSha384 := p_model (ctx st8) sha384_init sha384_update sha384_final 128 48.
(* pSha2(..., flags): flags & CRYPTO_FLAGS_SHA3 selects SHA-384 *)
Definition pSha2 (sha3 : bool) := if sha3 then pSha384 else pSha256.

(* prf2: the P_hash goes to sha2out[SSL_MAX_KEY_BLOCK_SIZE], then out[i] = sha2out[i], i < outLen *)
Definition prf2_model (sec seed : list N) (outLen : nat) (sha3 : bool) : res (list N) :=
  if t_SSL_MAX_KEY_BLOCK_SIZE <? outLen then Fault else
  bind (pSha2 sha3 sec seed outLen) (fun o => Ok (firstn outLen o)).

(* prf: sLen = secLen/2 + secLen%2; s1 = sec; s2 = sec + sLen - secLen%2; out[i] = md5out[i] ^ sha1out[i] *)
Definition prf_model (sec seed : list N) (outLen : nat) : res (list N) :=
  if t_SSL_MAX_KEY_BLOCK_SIZE <? outLen then Fault else
  let secLen := length sec in
  let sLen := secLen / 2 + secLen mod 2 in
  let s1 := firstn sLen sec in
  let s2 := firstn sLen (skipn (sLen - secLen mod 2) sec) in
  bind (pMd5 s1 seed outLen) (fun m =>
  bind (pSha1 s2 seed outLen) (fun s =>
    Ok (xor_lists (firstn outLen m) (firstn outLen s)))).

(* NGTD_VER(ssl, v_tls_with_tls_1_2_prf) ? prf2(.., ssl->cipher->flags) : prf(..) *)
Definition tls_prf_model (tls12 sha3 : bool) (sec seed : list N) (outLen : nat) : res (list N) :=
  if tls12 then prf2_model sec seed outLen sha3 else prf_model sec seed outLen.

(* ================================================================== tls.c *)
(* tlsDeriveKeys: msSeed = "master secret"[0..LABEL_SIZE) + clientRandom + serverRandom; PRF to masterSecret[48] *)
Definition derive_master_model (tls12 sha3 : bool) (premaster cr sr : list N) : res (list N) :=
  tls_prf_model tls12 sha3 premaster (l_master ++ cr ++ sr) t_SSL_HS_MASTER_SIZE.

(* a running transcript hash = the chunks sslUpdateHSHash was called with *)
Definition md5sha1_final (chunks : list (list N)) : list N :=
  md5_final (fold_left md5_update chunks md5_init) ++ sha1_final (fold_left sha1_update chunks sha1_init).
(* extMasterSecretSnapshotHSHash / the copy-and-Final in tlsGenerateFinishedHash *)
Definition hs_snapshot_model (tls12 sha3 : bool) (chunks : list (list N)) : list N :=
  if tls12 then (if sha3 then sha384_final (fold_left sha384_update chunks sha384_init)
                 else sha256_final (fold_left sha256_update chunks sha256_init))
  else md5sha1_final chunks.
(* tlsExtendedDeriveKeys: msSeed = "extended master secret" + hash *)
Definition derive_ext_master_model (tls12 sha3 : bool) (premaster : list N) (chunks : list (list N)) : res (list N) :=
  tls_prf_model tls12 sha3 premaster
                (l_ext_master ++ hs_snapshot_model tls12 sha3 chunks) t_SSL_HS_MASTER_SIZE.

(* genKeyBlock: reqKeyLen = 2 macSize + 2 keySize + 2 ivSize of ssl->cipher; PS_MEM_FAIL (here LimitFail) if it does not fit *)
Definition req_key_len (mac key iv : nat) : nat := 2 * mac + 2 * key + 2 * iv.
Definition gen_key_block_model (tls12 sha3 : bool) (mac key iv : nat) (master cr sr : list N) : res (list N) :=
  if t_SSL_MAX_KEY_BLOCK_SIZE <? req_key_len mac key iv then LimitFail else
  tls_prf_model tls12 sha3 master (l_key_block ++ sr ++ cr) (req_key_len mac key iv).

(* the pointers into keyBlock set at the end of genKeyBlock *)
Record kb_ptrs := { p_wMAC : list N; p_rMAC : list N; p_wKey : list N; p_rKey : list N; p_wIV : list N; p_rIV : list N }.
Definition slice (off len : nat) (b : list N) : list N := firstn len (skipn off b).
Definition key_block_ptrs (is_server : bool) (mac key iv : nat) (kb : list N) : kb_ptrs :=
  if is_server then
    {| p_rMAC := slice 0 mac kb;                    p_wMAC := slice mac mac kb;
       p_rKey := slice (mac + mac) key kb;          p_wKey := slice (mac + mac + key) key kb;
       p_rIV := slice (mac + mac + key + key) iv kb; p_wIV := slice (mac + mac + key + key + iv) iv kb |}
  else
    {| p_wMAC := slice 0 mac kb;                    p_rMAC := slice mac mac kb;
       p_wKey := slice (mac + mac) key kb;          p_rKey := slice (mac + mac + key) key kb;
       p_wIV := slice (mac + mac + key + key) iv kb; p_rIV := slice (mac + mac + key + key + iv) iv kb |}.

(* sizes of a suite of this build (ssl->cipher->macSize, keySize, ivSize, flags & CRYPTO_FLAGS_SHA3) *)
Definition cipher_sizes (id : N) : option (nat * nat * nat * nat * bool * nat) :=
  match find (fun e => (fst e =? id)%N) t_cipher_table with Some e => Some (snd e) | None => None end.

(* ================================================================== hsHash.c *)
(* tlsGenerateFinishedHash, senderFlag >= 0: tmp = label[0..15) + snapshot; prf/prf2 to 12 bytes *)
Definition finished_model (tls12 sha3 : bool) (master : list N) (chunks : list (list N)) (sender_is_server : bool) : res (list N) :=
  let label := if sender_is_server then l_server_finished else l_client_finished in
  tls_prf_model tls12 sha3 master (label ++ hs_snapshot_model tls12 sha3 chunks) t_TLS_HS_FINISHED_SIZE.

(* ================================================================== TLS 1.3: hkdf.c, tls13KeySchedule.c *)
(* psDynBufAppendTlsVector(db, minLen, maxLen < 256, data, len): one length octet *)
Definition tls_vector1 (minLen maxLen : nat) (d : list N) : res (list N) :=
  if (length d <? minLen) || (maxLen <? length d) then ArgFail else Ok (N.of_nat (length d mod 256) :: d).

Definition hkdf_extract_model (sha3 : bool) := if sha3 then hkdf_extract_sha384 else hkdf_extract_sha256.
Definition hkdf_expand_model (sha3 : bool) := if sha3 then hkdf_expand_sha384 else hkdf_expand_sha256.
Definition ps_hmac_model (sha3 : bool) := if sha3 then ps_hmac_sha384 else ps_hmac_sha256.
Definition hash_size (sha3 : bool) : nat := if sha3 then t_SHA384_HASH_SIZE else t_SHA256_HASH_SIZE.

(* psHkdfExpandLabel *)
Definition hkdf_expand_label_model (sha3 : bool) (secret label context : list N) (length_ : nat) : res (list N) :=
  bind (tls_vector1 7 255 (s_hkdf_prefix ++ label)) (fun v1 =>
  bind (tls_vector1 0 255 context) (fun v2 =>
    hkdf_expand_model sha3 secret
      ([N.of_nat (length_ / 256 mod 256); N.of_nat (length_ mod 256)] ++ v1 ++ v2) length_)).

(* tls13DeriveSecret: an empty trHash is replaced by the hard-coded digest of the empty string *)
Definition derive_secret_model (sha3 : bool) (secret label trHash : list N) : res (list N) :=
  let h := match trHash with [] => if sha3 then s_sha384OfEmptyInput else s_sha256OfEmptyInput | _ => trHash end in
  hkdf_expand_label_model sha3 secret label h (hash_size sha3).

Definition zero_bytes (n : nat) : list N := repeat 0%N n.
(* tls13GenerateEarlySecret: HKDF-Extract(zeroSalt[hashLen], psk or dummyPsk[hashLen]); the LENGTHS passed with the all-zero
   buffers are read off the call sites (Gen/TlsLabels.v zlen_*: a function of the hash length) *)
Definition early_secret_model (sha3 : bool) (psk : option (list N)) : res (list N) :=
  hkdf_extract_model sha3 (zero_bytes (zlen_early_salt (hash_size sha3)))                    (* zeroSalt, hashLen *)
                     (match psk with Some p => p | None => zero_bytes (zlen_dummy_psk (hash_size sha3)) end).   (* dummyPsk, pskValLen *)
(* ------------------------------------------------------------------ which PSK the stored Early Secret comes from
   tls13GenerateEarlySecret 152-236 keeps the Early Secret across calls (tls13KsState.generateEarlySecretDone) and
   regenerates it only `if (tls13DidEncodePsk && !tls13UsingPsk)`: "we tried to use a PSK (and thus bootstrapped our key
   schedule with it), but ended up with a non-PSK handshake".
     es_from  = the PSK the stored secret was extracted from (None = the all-zero dummyPsk)
   tls13EncodeExt.c tls13WritePskIdentity sets tls13DidEncodePsk for every identity written (ticket or external);
   tls13DecodeExt.c tls13ParsePreSharedKey (client, ServerHello) sets tls13ChosenPsk / tls13UsingPsk when the server selected,
   tls13Encode.c selectKeyExchangeMode / tls13ServerFoundSupportedPsk do so on the server. *)
Record es_state := { es_done : bool; es_from : option (list N); es_value : list N }.
Definition es_init : es_state := {| es_done := false; es_from := None; es_value := [] |}.
Definition generate_early_secret_model (sha3 : bool) (st : es_state) (didEncodePsk usingPsk : bool) (psk : option (list N)) : res es_state :=
  if es_done st && (negb didEncodePsk || usingPsk) then Ok st                   (* return PS_SUCCESS: keep what we have *)
  else bind (early_secret_model sha3 psk) (fun v => Ok {| es_done := true; es_from := psk; es_value := v |}).

(* client: binders of the offered PSK while writing the ClientHello, then - ServerHello parsed, tls13ClientActivateHsReadKeys -
   tls13GenerateEarlySecret(ssl, tls13ChosenPsk) before tls13DeriveHandshakeTrafficSecrets (which calls it once more) *)
Definition client_early_secret_model (sha3 : bool) (offered : option (list N)) (selected : bool) : res es_state :=
  let did := match offered with Some _ => true | None => false end in
  bind (match offered with
        | Some p => generate_early_secret_model sha3 es_init did false (Some p)    (* tls13WritePreSharedKey: binder key *)
        | None => Ok es_init end) (fun st1 =>
  let chosen := if selected then offered else None in
  let use_psk := selected && did in
  bind (generate_early_secret_model sha3 st1 did use_psk chosen) (fun st2 =>       (* tls13ClientActivateHsReadKeys *)
  generate_early_secret_model sha3 st2 did use_psk chosen)).                        (* tls13DeriveEarlySecrets again *)
(* server: tls13VerifyBinder -> tls13DeriveEarlySecrets(chosen) only when it found a PSK; then the same call from
   tls13DeriveHandshakeTrafficSecrets with tls13ChosenPsk (NULL when it declined) *)
Definition server_early_secret_model (sha3 : bool) (offered : option (list N)) (selected : bool) : res es_state :=
  let chosen := if selected then offered else None in
  let use_psk := match chosen with Some _ => true | None => false end in
  bind (match chosen with
        | Some p => generate_early_secret_model sha3 es_init false use_psk (Some p)
        | None => Ok es_init end) (fun st1 =>
  generate_early_secret_model sha3 st1 false use_psk chosen).
(* tls13DeriveEarlySecrets: the binder secret (label by psk->isResumptionPsk) *)
Definition binder_secret_model (sha3 isres : bool) (early : list N) : res (list N) :=
  derive_secret_model sha3 early
    (if isres then l_res_binder else l_ext_binder) [].
(* tls13DeriveEarlyDataSecret *)
Definition early_traffic_model (sha3 : bool) (early snapCH : list N) : res (list N) :=
  derive_secret_model sha3 early l_c_e_traffic snapCH.

Record hs_secrets := { m_handshake : list N; m_c_hs : list N; m_s_hs : list N }.
(* tls13DeriveHandshakeTrafficSecrets: shared = the (EC)DHE secret, or secretLen zero bytes in psk_ke mode *)
Definition hs_secrets_model (sha3 : bool) (early : list N) (shared : option (list N)) (snapCHtoSH : list N) : res hs_secrets :=
  bind (derive_secret_model sha3 early l_derived []) (fun derived =>
  bind (hkdf_extract_model sha3 derived (match shared with Some s => s | None => zero_bytes (zlen_pskke_ikm (hash_size sha3)) end)) (fun hs =>
  bind (derive_secret_model sha3 hs l_c_hs_traffic snapCHtoSH) (fun c =>
  bind (derive_secret_model sha3 hs l_s_hs_traffic snapCHtoSH) (fun s =>
    Ok {| m_handshake := hs; m_c_hs := c; m_s_hs := s |})))).

(* the Handshake Secret and the two handshake traffic secrets a side ends up with *)
Definition side_hs_secrets_model (sha3 is_server : bool) (offered : option (list N)) (selected : bool)
           (shared : option (list N)) (snapCHtoSH : list N) : res hs_secrets :=
  bind ((if is_server then server_early_secret_model else client_early_secret_model) sha3 offered selected) (fun st =>
  hs_secrets_model sha3 (es_value st) shared snapCHtoSH).

Record app_secrets := { m_master : list N; m_c_ap : list N; m_s_ap : list N }.
(* tls13DeriveAppTrafficSecrets: snapshot = tls13TrHashSnapshot taken after the server Finished *)
Definition app_secrets_model (sha3 : bool) (hs snapshot : list N) : res app_secrets :=
  bind (derive_secret_model sha3 hs l_derived []) (fun derived =>
  bind (hkdf_extract_model sha3 derived (zero_bytes (zlen_master_ikm (hash_size sha3)))) (fun master =>
  bind (derive_secret_model sha3 master l_c_ap_traffic snapshot) (fun c =>
  bind (derive_secret_model sha3 master l_s_ap_traffic snapshot) (fun s =>
    Ok {| m_master := master; m_c_ap := c; m_s_ap := s |})))).
(* tls13DeriveResumptionMasterSecret: snapshot after the client Finished *)
Definition res_master_model (sha3 : bool) (master snapshot : list N) : res (list N) :=
  derive_secret_model sha3 master l_res_master snapshot.

(* tls13DeriveHandshakeKeys / tls13DeriveAppKeys / tls13DeriveEarlyDataKeys: (key, iv) from one traffic secret *)
Definition traffic_keys_model (sha3 : bool) (secret : list N) (keySize ivSize : nat) : res (list N * list N) :=
  bind (hkdf_expand_label_model sha3 secret l_key [] keySize) (fun k =>
  bind (hkdf_expand_label_model sha3 secret l_iv [] ivSize) (fun iv => Ok (k, iv))).
(* which secret feeds the read / write side: isServer ? (read = client secret, write = server secret) : the reverse *)
Definition rw_keys_model (sha3 is_server : bool) (c_secret s_secret : list N) (keySize ivSize : nat)
  : res ((list N * list N) * (list N * list N)) :=                                           (* (read, write) *)
  let rd := if is_server then c_secret else s_secret in
  let wr := if is_server then s_secret else c_secret in
  bind (traffic_keys_model sha3 rd keySize ivSize) (fun r => bind (traffic_keys_model sha3 wr keySize ivSize) (fun w => Ok (r, w))).

(* tls13DeriveFinishedKey / tls13DeriveBinderKey *)
Definition finished_key_model (sha3 : bool) (base : list N) : res (list N) :=
  hkdf_expand_label_model sha3 base l_finished [] (hash_size sha3).
(* tls13WriteFinished / tls13ParseFinished: psHmacSingle(alg, tls13FinishedKey, hmacLen, trHash, hmacLen, out) *)
Definition verify_data_model (sha3 : bool) (base trHash : list N) : res (list N) :=
  bind (finished_key_model sha3 base) (fun fk => bind (ps_hmac_model sha3 fk trHash) (fun r => Ok (fst r))).
(* tls13DeriveResumptionPsk *)
Definition resumption_psk_model (sha3 : bool) (res_master nonce : list N) : res (list N) :=
  hkdf_expand_label_model sha3 res_master l_resumption nonce (hash_size sha3).

(* tls13TranscriptHashReinit: Finish into tls13TrHashSnapshotCH1, Init, Update(254 00 00 hashlen || snapshot) *)
Definition sha2_stream (sha3 : bool) (chunks : list (list N)) : list N :=
  if sha3 then sha384_final (fold_left sha384_update chunks sha384_init) else sha256_final (fold_left sha256_update chunks sha256_init).
Definition reinit_chunk_model (sha3 : bool) (chunks_ch1 : list (list N)) : list N :=
  [254; 0; 0; N.of_nat (hash_size sha3)]%N ++ sha2_stream sha3 chunks_ch1.

(* tls13MakeTbs *)
Definition make_tbs_model (contextString trHash : list N) : list N := repeat 0x20%N 64 ++ contextString ++ [0%N] ++ trHash.

(* ================================================================== nonces and additional data *)
(* csAesGcmEncrypt: Memcpy(nonce, writeIV, 4); Memcpy(nonce + 4, seq, TLS_EXPLICIT_NONCE_LEN);
   aad = seq[8] outRecType maj min ptLen>>8 ptLen&0xff *)
Definition gcm12_nonce_model (writeIV seq : list N) : list N := firstn 4 writeIV ++ firstn t_TLS_EXPLICIT_NONCE_LEN seq.
Definition aad12_model (seq : list N) (recType maj min : N) (ptLen : nat) : list N :=
  firstn 8 seq ++ [recType; maj; min; N.of_nat (ptLen / 256 mod 256); N.of_nat (ptLen mod 256)].
(* csChacha20Poly1305IetfEncrypt: nonce = 0^12; Memcpy(nonce + 12 - 8, seq, 8); nonce[i] ^= writeIV[i], i < 12 *)
Definition chacha12_nonce_model (writeIV seq : list N) : list N :=
  xor_lists (zero_bytes (t_CHACHA20POLY1305_IETF_IV_FIXED_LENGTH - t_TLS_AEAD_SEQNB_LEN) ++ firstn t_TLS_AEAD_SEQNB_LEN seq)
            (firstn t_CHACHA20POLY1305_IETF_IV_FIXED_LENGTH writeIV).
(* tls13MakeWriteNonce: Memset(nonce, 0, 12); Memcpy(nonce + 4, seq, 8); nonce[i] ^= tls13WriteIv[i] *)
Definition tls13_nonce_model (iv seq : list N) : list N := xor_lists (zero_bytes 4 ++ firstn 8 seq) (firstn 12 iv).
(* tls13MakeEncryptAad: 23 03 03 (outRecLen & 0xff00) >> 8, outRecLen & 0xff *)
Definition tls13_aad_model (outRecLen : nat) : list N :=
  [N.of_nat t_SSL_RECORD_TYPE_APPLICATION_DATA; 3; 3; N.of_nat (outRecLen / 256 mod 256); N.of_nat (outRecLen mod 256)]%N.
