(* C10 - proofs: the code-shaped models of TlsModel.v (prf.c, tls.c, hsHash.c, hkdf.c, tls13KeySchedule.c, nonce / AAD
   makers) compute what the RFC transcription TlsSpec.v prescribes, for all inputs in the stated ranges.
   Built on the C12 results (Crypto/CryptoProofs.v): streaming digests = one-shot hashes for every chunking,
   psHmac* / Init-Update-Final HMAC = RFC 2104 for every key length, psHkdfExpand/Extract = RFC 5869. *)
From Coq Require Import String Ascii.
From Coq Require Import List NArith ZArith Arith Bool Lia.
From MV Require Import Crypto.CryptoPrims Crypto.CryptoSpec Crypto.CryptoModel Crypto.CryptoSym Crypto.CryptoProofs
     Gen.ConstsTls Gen.TlsLabels Tls.TlsSpec Tls.TlsModel.
Import ListNotations.
Local Open Scope nat_scope.

(* ================================================================== P_hash: prf.c loops = RFC 5246 section 5 *)
Section PProofs.
  Variable hctx : Type.
  Variable hinit : hctx.
  Variable hupdate : hctx -> list N -> hctx.
  Variable hfinal : hctx -> list N.
  Variable B : nat.
  Variable hlen : nat.
  Variable H : list N -> list N.
  Hypothesis Hchunks : forall chunks, hfinal (fold_left hupdate chunks hinit) = H (concat chunks).
  Hypothesis Hlen : forall m, length (H m) = hlen.
  Hypothesis HlenB : hlen <= B.
  Hypothesis Hpos : 0 < hlen.

  Local Notation mac := (hmac_spec H B).
  Local Notation terms := (p_hash_terms mac).
  Local Notation p_model := (p_model hctx hinit hupdate hfinal B hlen).
  Local Notation p_loop := (p_loop hctx hinit hupdate hfinal B hlen).
  Local Notation key_iter_loop := (key_iter_loop hlen).

  Lemma mac_length : forall k m, length (mac k m) = hlen.
  Proof. intros. unfold hmac_spec. apply Hlen. Qed.

  Lemma mac_hashed_key : forall key m, B < length key -> mac (H key) m = mac key m.
  Proof.
    intros key m Hk. unfold hmac_spec.
    rewrite (k0_hashed B hlen H Hlen HlenB Hpos key Hk). reflexivity.
  Qed.

  Lemma terms_length : forall n s seed a, length (terms s seed a n) = hlen * n.
  Proof. induction n; intros; cbn [p_hash_terms]; [cbn [length]; rewrite Nat.mul_0_r; reflexivity|]. rewrite app_length, mac_length, IHn, Nat.mul_succ_r. lia. Qed.

  Lemma firstn_terms_more : forall n k R s seed a, R <= hlen * n ->
    firstn R (terms s seed a (n + k)) = firstn R (terms s seed a n).
  Proof.
    induction n; intros k R s seed a HR.
    - assert (R = 0) by lia. subst R. reflexivity.
    - cbn [p_hash_terms Nat.add]. rewrite !firstn_app_len, mac_length. f_equal. apply IHn. lia.
  Qed.
  Lemma firstn_terms_enough : forall n1 n2 R s seed a, R <= hlen * n1 -> R <= hlen * n2 ->
    firstn R (terms s seed a n1) = firstn R (terms s seed a n2).
  Proof.
    intros n1 n2 R s seed a H1 H2. destruct (Nat.le_ge_cases n1 n2) as [Hle|Hle].
    - replace n2 with (n1 + (n2 - n1)) by lia. symmetry. apply firstn_terms_more. exact H1.
    - replace n1 with (n2 + (n1 - n2)) by lia. apply firstn_terms_more. exact H2.
  Qed.

  (* a longer P_hash output starts with the shorter one (used for the key block) *)
  Lemma p_hash_prefix : forall s seed L1 L2, L1 <= L2 ->
    firstn L1 (p_hash mac hlen s seed L2) = p_hash mac hlen s seed L1.
  Proof.
    intros s seed L1 L2 HL. unfold p_hash. rewrite firstn_firstn. replace (Nat.min L1 L2) with L1 by lia.
    apply firstn_terms_enough.
    - pose proof (ceil_mul_ge L2 hlen Hpos) as Hc. rewrite (Nat.mul_comm _ hlen) in Hc. lia.
    - pose proof (ceil_mul_ge L1 hlen Hpos) as Hc. rewrite (Nat.mul_comm _ hlen) in Hc. lia.
  Qed.
  Lemma p_hash_length : forall s seed L, length (p_hash mac hlen s seed L) = L.
  Proof.
    intros. unfold p_hash. rewrite firstn_length, terms_length. pose proof (ceil_mul_ge L hlen Hpos) as Hc.
    rewrite (Nat.mul_comm _ hlen) in Hc. apply Nat.min_l. exact Hc.
  Qed.

  (* the keyIter loop finds the least k >= 1 with hlen * k >= outLen (no 16-bit wrap below 65536 - hlen) *)
  Lemma key_iter_loop_ok : forall fuel k outLen, outLen + hlen < 256 * 256 -> 1 <= k ->
    (k = 1 \/ hlen * (k - 1) < outLen) -> outLen + 1 < fuel + k ->
    exists k', key_iter_loop fuel k outLen = Some k' /\ 1 <= k' /\ outLen <= hlen * k' /\ (k' = 1 \/ hlen * (k' - 1) < outLen).
  Proof.
    induction fuel as [|f IH]; intros k outLen Hb Hk Hinv Hf.
    - exfalso. assert (hlen * (k - 1) >= k - 1) by nia. destruct Hinv; [subst; lia|]. lia.
    - cbn [TlsModel.key_iter_loop].
      assert (Hsmall : hlen * k < 256 * 256).
      { destruct Hinv as [->|Hinv]; [rewrite Nat.mul_1_r; lia|]. replace (hlen * k) with (hlen * (k - 1) + hlen) by nia. lia. }
      rewrite Nat.mod_small by exact Hsmall.
      destruct (hlen * k <? outLen) eqn:E.
      + apply Nat.ltb_lt in E. apply IH; [lia|lia|right; replace (S k - 1) with k by lia; exact E|lia].
      + apply Nat.ltb_ge in E. exists k. split; [reflexivity|]. split; [lia|]. split; [lia|exact Hinv].
  Qed.
  Lemma key_iter_ok : forall outLen, outLen + hlen < 256 * 256 ->
    exists k', key_iter hlen outLen = Some k' /\ 1 <= k' /\ outLen <= hlen * k' /\ (k' = 1 \/ hlen * (k' - 1) < outLen).
  Proof. intros. unfold key_iter. apply key_iter_loop_ok; try lia. Qed.

  (* one turn of the for loop: HMAC over a ++ text through Init/Update/Update/Final *)
  Lemma turn_mac : forall key a text,
    exists c, hmac_init hctx hinit hupdate hfinal B key = Ok c /\
              hmac_final hctx hinit hupdate hfinal (hmac_update hctx hupdate (hmac_update hctx hupdate c a) text) = mac key (a ++ text).
  Proof.
    intros key a text.
    destruct (hmac_stream_eq hctx hinit hupdate hfinal B hlen H Hchunks Hlen HlenB Hpos key [a; text]) as [c [E1 E2]].
    exists c. split; [exact E1|]. cbn [fold_left concat] in E2. rewrite app_nil_r in E2. exact E2.
  Qed.

  (* the for loop from turn i with a = A(i+1) = HMAC(key, ap), ap = A(i) *)
  Lemma p_loop_ok : forall fuel i keyIter key ap text out outLen,
    fuel = keyIter - i -> i < keyIter ->
    (keyIter = 1 \/ hlen * (keyIter - 1) < outLen) ->
    p_loop fuel i keyIter key (mac key ap) text out outLen =
      Ok (out ++ firstn (outLen - hlen * i) (terms key text ap (keyIter - i))).
  Proof.
    induction fuel as [|f IH]; intros i keyIter key ap text out outLen Hf Hi Hinv; [lia|].
    cbn [TlsModel.p_loop].
    destruct (turn_mac key (mac key ap) text) as [c [E1 E2]]. rewrite E1. cbn [bind]. rewrite E2.
    destruct (i =? keyIter - 1) eqn:E.
    - apply Nat.eqb_eq in E. replace (keyIter - i) with 1 by lia. cbn [p_hash_terms]. rewrite app_nil_r. reflexivity.
    - apply Nat.eqb_neq in E.
      rewrite (ps_hmac_eq hctx hinit hupdate hfinal B hlen H Hchunks Hlen HlenB Hpos). cbn [bind fst].
      rewrite (IH (S i) keyIter key (mac key ap) text (out ++ mac key (mac key ap ++ text)) outLen); [|lia|lia|exact Hinv].
      replace (keyIter - i) with (S (keyIter - S i)) by lia. cbn [p_hash_terms].
      rewrite <- app_assoc. f_equal. f_equal.
      rewrite firstn_app_len, mac_length.
      assert (Hge : hlen * S i <= outLen).
      { destruct Hinv as [->|Hinv]; [lia|]. assert (hlen * S i <= hlen * (keyIter - 1)) by (apply Nat.mul_le_mono_l; lia). lia. }
      rewrite (firstn_all2 (n := outLen - hlen * i) (mac key (mac key ap ++ text))) by (rewrite mac_length; nia).
      f_equal. f_equal. nia.
  Qed.

  Theorem p_model_eq : forall key text outLen, outLen + hlen < 256 * 256 ->
    p_model key text outLen = Ok (p_hash mac hlen key text outLen).
  Proof.
    intros key text outLen Hb. unfold TlsModel.p_model.
    destruct (key_iter_ok outLen Hb) as [k [Ek [Hk1 [Hk2 Hk3]]]]. rewrite Ek.
    rewrite (ps_hmac_eq hctx hinit hupdate hfinal B hlen H Hchunks Hlen HlenB Hpos). cbn [bind fst snd].
    pose proof (hash1 hctx hinit hupdate hfinal H Hchunks key) as Eh. rewrite Eh.
    assert (Eres : forall key', (forall m, mac key' m = mac key m) ->
              p_loop k 0 k key' (mac key text) text [] outLen = Ok (p_hash mac hlen key text outLen)).
    { intros key' Hsame. rewrite <- (Hsame text).
      rewrite (p_loop_ok k 0 k key' text text [] outLen); [|lia|lia|exact Hk3].
      cbn [app]. rewrite Nat.mul_0_r, !Nat.sub_0_r. unfold p_hash. f_equal.
      assert (Et : forall n a, terms key' text a n = terms key text a n).
      { induction n; intros; cbn [p_hash_terms]; [reflexivity|]. rewrite !Hsame, IHn. reflexivity. }
      rewrite Et. apply firstn_terms_enough; [lia|]. pose proof (ceil_mul_ge outLen hlen Hpos) as Hc. rewrite (Nat.mul_comm _ hlen) in Hc. exact Hc. }
    destruct (B <? length key) eqn:E.
    - apply Nat.ltb_lt in E. destruct (hlen =? length key) eqn:E2; [apply Nat.eqb_eq in E2; lia|].
      apply Eres. intro m. apply mac_hashed_key. exact E.
    - rewrite Nat.eqb_refl. apply Eres. reflexivity.
  Qed.
End PProofs.

Lemma pSha256_eq : forall key text outLen, outLen <= 4096 ->
  pSha256 key text outLen = Ok (p_hash hmac_sha256_spec 32 key text outLen).
Proof. intros. apply p_model_eq; first [exact sha256_chunks|exact sha256_spec_len|lia]. Qed.
Lemma pSha384_eq : forall key text outLen, outLen <= 4096 ->
  pSha384 key text outLen = Ok (p_hash hmac_sha384_spec 48 key text outLen).
Proof. intros. apply p_model_eq; first [exact sha384_chunks|exact sha384_spec_len|lia]. Qed.
Lemma pSha1_eq : forall key text outLen, outLen <= 4096 ->
  pSha1 key text outLen = Ok (p_hash hmac_sha1_spec 20 key text outLen).
Proof. intros. apply p_model_eq; first [exact sha1_chunks|exact sha1_spec_len|lia]. Qed.
Lemma pMd5_eq : forall key text outLen, outLen <= 4096 ->
  pMd5 key text outLen = Ok (p_hash hmac_md5_spec 16 key text outLen).
Proof. intros. apply p_model_eq; first [exact md5_chunks|exact md5_spec_len|lia]. Qed.

Definition halg_of (sha3 : bool) : halg := if sha3 then SHA384 else SHA256.
Definition ver_of (tls12 : bool) : tlsver := if tls12 then TLS12 else TLS11.

Lemma max_kb : t_SSL_MAX_KEY_BLOCK_SIZE <= 4096.
Proof. apply Nat.leb_le. vm_compute. reflexivity. Qed.

Lemma p_hash_len_sha256 : forall s seed L, length (p_hash hmac_sha256_spec 32 s seed L) = L.
Proof. intros. unfold hmac_sha256_spec. apply p_hash_length; first [exact sha256_spec_len|lia]. Qed.
Lemma p_hash_len_sha384 : forall s seed L, length (p_hash hmac_sha384_spec 48 s seed L) = L.
Proof. intros. unfold hmac_sha384_spec. apply p_hash_length; first [exact sha384_spec_len|lia]. Qed.
Lemma p_hash_len_sha1 : forall s seed L, length (p_hash hmac_sha1_spec 20 s seed L) = L.
Proof. intros. unfold hmac_sha1_spec. apply p_hash_length; first [exact sha1_spec_len|lia]. Qed.
Lemma p_hash_len_md5 : forall s seed L, length (p_hash hmac_md5_spec 16 s seed L) = L.
Proof. intros. unfold hmac_md5_spec. apply p_hash_length; first [exact md5_spec_len|lia]. Qed.

(* prf2 = the TLS 1.2 PRF *)
Theorem prf2_model_eq : forall sha3 sec label seed outLen, outLen <= t_SSL_MAX_KEY_BLOCK_SIZE ->
  prf2_model sec (label ++ seed) outLen sha3 = Ok (prf12 (halg_of sha3) sec label seed outLen).
Proof.
  intros sha3 sec label seed outLen Hb. unfold prf2_model.
  destruct (t_SSL_MAX_KEY_BLOCK_SIZE <? outLen) eqn:E; [apply Nat.ltb_lt in E; lia|].
  pose proof max_kb. unfold pSha2, prf12. destruct sha3; cbn [halg_of HMAC TlsSpec.hlen].
  - rewrite pSha384_eq by lia. cbn [bind]. rewrite firstn_all2; [reflexivity|]. fold hmac_sha384_spec. rewrite p_hash_len_sha384. lia.
  - rewrite pSha256_eq by lia. cbn [bind]. rewrite firstn_all2; [reflexivity|]. fold hmac_sha256_spec. rewrite p_hash_len_sha256. lia.
Qed.

Lemma half_split : forall n, n / 2 + n mod 2 = (n + 1) / 2.
Proof.
  intro n. pose proof (Nat.div_mod n 2 ltac:(lia)). pose proof (Nat.mod_upper_bound n 2 ltac:(lia)).
  pose proof (Nat.div_mod (n + 1) 2 ltac:(lia)). pose proof (Nat.mod_upper_bound (n + 1) 2 ltac:(lia)). lia.
Qed.

(* prf = the TLS 1.0 / 1.1 PRF *)
Theorem prf_model_eq : forall sec label seed outLen, outLen <= t_SSL_MAX_KEY_BLOCK_SIZE ->
  prf_model sec (label ++ seed) outLen = Ok (prf10 sec label seed outLen).
Proof.
  intros sec label seed outLen Hb. unfold prf_model.
  destruct (t_SSL_MAX_KEY_BLOCK_SIZE <? outLen) eqn:E; [apply Nat.ltb_lt in E; lia|].
  pose proof max_kb. rewrite pMd5_eq by lia. cbn [bind]. rewrite pSha1_eq by lia. cbn [bind].
  unfold prf10. rewrite half_split.
  set (n := length sec). set (half := (n + 1) / 2).
  assert (Hh : half <= n /\ n - half = half - n mod 2).
  { subst half. pose proof (half_split n). pose proof (Nat.div_mod n 2 ltac:(lia)). pose proof (Nat.mod_upper_bound n 2 ltac:(lia)). lia. }
  destruct Hh as [Hh1 Hh2]. rewrite <- Hh2.
  rewrite (firstn_all2 (n := half) (skipn (n - half) sec)) by (rewrite skipn_length; subst n; lia).
  rewrite (firstn_all2 (n := outLen) (p_hash hmac_md5_spec 16 _ _ outLen)) by (rewrite p_hash_len_md5; lia).
  rewrite (firstn_all2 (n := outLen) (p_hash hmac_sha1_spec 20 _ _ outLen)) by (rewrite p_hash_len_sha1; lia).
  reflexivity.
Qed.

Theorem tls_prf_model_eq : forall tls12 sha3 sec label seed outLen, outLen <= t_SSL_MAX_KEY_BLOCK_SIZE ->
  tls_prf_model tls12 sha3 sec (label ++ seed) outLen = Ok (tls_prf (ver_of tls12) (halg_of sha3) sec label seed outLen).
Proof. intros. destruct tls12; cbn [tls_prf_model ver_of tls_prf]; [apply prf2_model_eq|apply prf_model_eq]; assumption. Qed.

(* ================================================================== labels and constants regenerated from the C source
   equal the RFC's literals (a changed string in prf.c / tls.c / hsHash.c / tls13KeySchedule.c breaks these) *)
Lemma lbl_master : l_master = str "master secret". Proof. vm_compute. reflexivity. Qed.
Lemma lbl_keyexp : l_key_block = str "key expansion". Proof. vm_compute. reflexivity. Qed.
Lemma lbl_ems : l_ext_master = str "extended master secret". Proof. vm_compute. reflexivity. Qed.
Lemma lbl_cfin : l_client_finished = str "client finished". Proof. vm_compute. reflexivity. Qed.
Lemma lbl_sfin : l_server_finished = str "server finished". Proof. vm_compute. reflexivity. Qed.
Lemma lbl_prefix : s_hkdf_prefix = LBL_tls13_prefix. Proof. vm_compute. reflexivity. Qed.
Lemma lbl_derived : l_derived = str "derived". Proof. vm_compute. reflexivity. Qed.
Lemma lbl_extb : l_ext_binder = str "ext binder". Proof. vm_compute. reflexivity. Qed.
Lemma lbl_resb : l_res_binder = str "res binder". Proof. vm_compute. reflexivity. Qed.
Lemma lbl_cet : l_c_e_traffic = str "c e traffic". Proof. vm_compute. reflexivity. Qed.
Lemma lbl_chs : l_c_hs_traffic = str "c hs traffic". Proof. vm_compute. reflexivity. Qed.
Lemma lbl_shs : l_s_hs_traffic = str "s hs traffic". Proof. vm_compute. reflexivity. Qed.
Lemma lbl_cap : l_c_ap_traffic = str "c ap traffic". Proof. vm_compute. reflexivity. Qed.
Lemma lbl_sap : l_s_ap_traffic = str "s ap traffic". Proof. vm_compute. reflexivity. Qed.
Lemma lbl_res : l_res_master = str "res master". Proof. vm_compute. reflexivity. Qed.
Lemma lbl_fin : l_finished = str "finished". Proof. vm_compute. reflexivity. Qed.
Lemma lbl_key : l_key = str "key". Proof. vm_compute. reflexivity. Qed.
Lemma lbl_iv : l_iv = str "iv". Proof. vm_compute. reflexivity. Qed.
Lemma lbl_resumption : l_resumption = str "resumption". Proof. vm_compute. reflexivity. Qed.
Lemma lbl_cv_server : l_cv_server = str "TLS 1.3, server CertificateVerify". Proof. vm_compute. reflexivity. Qed.
Lemma lbl_cv_client : l_cv_client = str "TLS 1.3, client CertificateVerify". Proof. vm_compute. reflexivity. Qed.
(* the all-zero inputs are passed with the hash length (RFC 8446 7.1: "a string of Hash.length bytes set to zeros") *)
Lemma zlen_ok : forall h, zlen_early_salt h = h /\ zlen_dummy_psk h = h /\ zlen_pskke_ikm h = h /\ zlen_master_ikm h = h.
Proof. intro h. repeat split; reflexivity. Qed.
Ltac zlen := repeat (rewrite (proj1 (zlen_ok _)) || rewrite (proj1 (proj2 (zlen_ok _))) || rewrite (proj1 (proj2 (proj2 (zlen_ok _)))) || rewrite (proj2 (proj2 (proj2 (zlen_ok _))))).
Lemma empty_hash_256 : s_sha256OfEmptyInput = sha256_spec []. Proof. vm_compute. reflexivity. Qed.
Lemma empty_hash_384 : s_sha384OfEmptyInput = sha384_spec []. Proof. vm_compute. reflexivity. Qed.
Lemma sizes_ok : t_SSL_HS_MASTER_SIZE = 48 /\ t_TLS_HS_FINISHED_SIZE = 12 /\ t_SHA256_HASH_SIZE = 32 /\ t_SHA384_HASH_SIZE = 48 /\
                 t_SSL_RECORD_TYPE_APPLICATION_DATA = 23 /\ t_TLS_EXPLICIT_NONCE_LEN = 8 /\ t_TLS_AEAD_SEQNB_LEN = 8 /\
                 t_CHACHA20POLY1305_IETF_IV_FIXED_LENGTH = 12 /\ 48 <= t_SSL_MAX_KEY_BLOCK_SIZE.
Proof. repeat split; try (vm_compute; reflexivity). apply Nat.leb_le. vm_compute. reflexivity. Qed.

(* ================================================================== tls.c / hsHash.c *)
Lemma hs_snapshot_eq : forall tls12 sha3 chunks,
  hs_snapshot_model tls12 sha3 chunks = hs_hash (ver_of tls12) (halg_of sha3) (concat chunks).
Proof.
  intros. unfold hs_snapshot_model, md5sha1_final. destruct tls12; cbn [ver_of hs_hash].
  - destruct sha3; cbn [halg_of Hash]; [apply sha384_chunks|apply sha256_chunks].
  - rewrite md5_chunks, sha1_chunks. reflexivity.
Qed.

Theorem derive_master_eq : forall tls12 sha3 pms cr sr,
  derive_master_model tls12 sha3 pms cr sr = Ok (master_secret (ver_of tls12) (halg_of sha3) pms cr sr).
Proof.
  intros. unfold derive_master_model, master_secret. rewrite lbl_master.
  destruct sizes_ok as [-> [_ [_ [_ [_ [_ [_ [_ Hm]]]]]]]]. apply tls_prf_model_eq. exact Hm.
Qed.

Theorem derive_ext_master_eq : forall tls12 sha3 pms chunks,
  derive_ext_master_model tls12 sha3 pms chunks =
  Ok (extended_master_secret (ver_of tls12) (halg_of sha3) pms (hs_hash (ver_of tls12) (halg_of sha3) (concat chunks))).
Proof.
  intros. unfold derive_ext_master_model, extended_master_secret. rewrite lbl_ems, hs_snapshot_eq.
  destruct sizes_ok as [-> [_ [_ [_ [_ [_ [_ [_ Hm]]]]]]]]. apply tls_prf_model_eq. exact Hm.
Qed.

Theorem gen_key_block_eq : forall tls12 sha3 mac key iv master cr sr,
  req_key_len mac key iv <= t_SSL_MAX_KEY_BLOCK_SIZE ->
  gen_key_block_model tls12 sha3 mac key iv master cr sr =
  Ok (key_block (ver_of tls12) (halg_of sha3) master cr sr (req_key_len mac key iv)).
Proof.
  intros until sr. intro Hb. unfold gen_key_block_model, key_block.
  destruct (t_SSL_MAX_KEY_BLOCK_SIZE <? req_key_len mac key iv) eqn:E; [apply Nat.ltb_lt in E; lia|].
  rewrite lbl_keyexp. apply tls_prf_model_eq. exact Hb.
Qed.

Lemma firstn_xor_lists : forall n a b, firstn n (xor_lists a b) = xor_lists (firstn n a) (firstn n b).
Proof.
  induction n; intros a b; [reflexivity|]. destruct a as [|x a]; [reflexivity|]. destruct b as [|y b]; [reflexivity|].
  cbn [xor_lists firstn]. rewrite IHn. reflexivity.
Qed.

(* generating more key block than the RFC's partition needs does not change the part the RFC defines *)
Theorem key_block_prefix : forall v h ms cr sr L1 L2, L1 <= L2 ->
  firstn L1 (key_block v h ms cr sr L2) = key_block v h ms cr sr L1.
Proof.
  intros v h ms cr sr L1 L2 HL. unfold key_block.
  assert (H12 : forall h', firstn L1 (prf12 h' ms (str "key expansion") (sr ++ cr) L2) = prf12 h' ms (str "key expansion") (sr ++ cr) L1).
  { intro h'. unfold prf12. destruct h'; cbn [HMAC TlsSpec.hlen].
    - unfold hmac_sha256_spec. apply p_hash_prefix; first [exact sha256_spec_len|lia].
    - unfold hmac_sha384_spec. apply p_hash_prefix; first [exact sha384_spec_len|lia]. }
  assert (H10 : firstn L1 (prf10 ms (str "key expansion") (sr ++ cr) L2) = prf10 ms (str "key expansion") (sr ++ cr) L1).
  { unfold prf10. rewrite firstn_xor_lists. f_equal.
    - unfold hmac_md5_spec. apply p_hash_prefix; first [exact md5_spec_len|lia].
    - unfold hmac_sha1_spec. apply p_hash_prefix; first [exact sha1_spec_len|lia]. }
  destruct v; cbn [tls_prf]; auto.
Qed.

(* the pointers genKeyBlock sets = the RFC 5246 6.3 partition, seen from each side *)
Theorem key_block_ptrs_eq : forall mac key iv kb,
  let k := partition_key_block mac key iv kb in
  key_block_ptrs false mac key iv kb =
    {| p_wMAC := k_cmac k; p_rMAC := k_smac k; p_wKey := k_ckey k; p_rKey := k_skey k; p_wIV := k_civ k; p_rIV := k_siv k |} /\
  key_block_ptrs true mac key iv kb =
    {| p_wMAC := k_smac k; p_rMAC := k_cmac k; p_wKey := k_skey k; p_rKey := k_ckey k; p_wIV := k_siv k; p_rIV := k_civ k |}.
Proof.
  intros. subst k. unfold key_block_ptrs, partition_key_block, slice, take. cbn [k_cmac k_smac k_ckey k_skey k_civ k_siv].
  replace (2 * mac) with (mac + mac) by lia. replace (2 * key) with (key + key) by lia.
  rewrite !Nat.add_assoc. split; reflexivity.
Qed.

(* every suite of THIS build (Gen/ConstsTls.v, from sslGetDefinedCipherSpec) has the sizes and PRF hash its defining
   RFC gives it; ivSize: the TLS 1.0 block size for CBC (unused from TLS 1.1 on), 4 for GCM, 12 for the TLS 1.3 suites *)
Definition suite_consistent (e : N * (nat * nat * nat * nat * bool * nat)) : bool :=
  match suite_of (fst e) with
  | None => false
  | Some s =>
    let '(mac, key, iv, blk, sha3, aead) := snd e in
    (mac =? mac_len (s_mac s)) && (key =? s_keylen s) &&
    Bool.eqb sha3 (match s_prf s with SHA384 => true | SHA256 => false end) &&
    (iv =? (if (0x1301 <=? fst e)%N && (fst e <=? 0x1303)%N then 12 else fixed_iv_len TLS10 (s_cipher s))) &&
    (aead =? match s_cipher s with AES_CBC => 0 | AES_GCM => 1 | CHACHA20_POLY1305 => 2 end) &&
    (req_key_len mac key iv <=? t_SSL_MAX_KEY_BLOCK_SIZE)
  end.
Theorem cipher_table_consistent : forallb suite_consistent t_cipher_table = true.
Proof. vm_compute. reflexivity. Qed.

Theorem finished_eq : forall tls12 sha3 master chunks srv,
  finished_model tls12 sha3 master chunks srv =
  Ok (tls_prf (ver_of tls12) (halg_of sha3) master (str (if srv then "server finished" else "client finished"))
              (hs_hash (ver_of tls12) (halg_of sha3) (concat chunks)) 12).
Proof.
  intros. unfold finished_model. rewrite hs_snapshot_eq.
  destruct sizes_ok as [_ [-> [_ [_ [_ [_ [_ [_ Hm]]]]]]]].
  destruct srv; [rewrite lbl_sfin|rewrite lbl_cfin]; apply tls_prf_model_eq; lia.
Qed.

(* ================================================================== TLS 1.3: hkdf.c psHkdfExpandLabel, tls13KeySchedule.c *)
Lemma str_length_prefix : length LBL_tls13_prefix = 6. Proof. reflexivity. Qed.

Lemma HMAC_length : forall h k m, length (HMAC h k m) = TlsSpec.hlen h.
Proof.
  intros. destruct h; cbn [HMAC TlsSpec.hlen]; [unfold hmac_sha256_spec|unfold hmac_sha384_spec]; unfold hmac_spec;
    [apply sha256_spec_len|apply sha384_spec_len].
Qed.
Lemma extract_length : forall h s i, length (HKDF_Extract h s i) = TlsSpec.hlen h.
Proof. intros. destruct h; cbn [HKDF_Extract]; apply (HMAC_length SHA256) || apply (HMAC_length SHA384). Qed.
Lemma hash_size_eq : forall sha3, hash_size sha3 = TlsSpec.hlen (halg_of sha3).
Proof. destruct sha3; reflexivity. Qed.
Lemma Hash_length : forall h m, length (Hash h m) = TlsSpec.hlen h.
Proof. destruct h; intro m; [apply sha256_spec_len|apply sha384_spec_len]. Qed.

Lemma hkdf_expand_model_eq : forall sha3 prk info L,
  length info <= 80 -> TlsSpec.hlen (halg_of sha3) <= length prk -> L <= 255 * 32 ->
  hkdf_expand_model sha3 prk info L = Ok (HKDF_Expand (halg_of sha3) prk info L).
Proof.
  intros sha3 prk info L Hi Hp HL. destruct sha3; cbn [hkdf_expand_model halg_of HKDF_Expand TlsSpec.hlen] in *.
  - apply hkdf_sha384_eq; lia.
  - apply hkdf_sha256_eq; lia.
Qed.

(* psHkdfExpandLabel = HKDF-Expand-Label for every label / context that fits psHkdfExpand's 80-byte info limit *)
Theorem hkdf_expand_label_model_eq : forall sha3 secret label context L,
  1 <= length label -> length label + length context <= 70 -> TlsSpec.hlen (halg_of sha3) <= length secret -> L <= 255 * 32 ->
  hkdf_expand_label_model sha3 secret label context L = Ok (hkdf_expand_label (halg_of sha3) secret label context L).
Proof.
  intros sha3 secret label context L Hl Hlc Hs HL. unfold hkdf_expand_label_model, tls_vector1, hkdf_expand_label, hkdf_label.
  rewrite lbl_prefix, app_length, str_length_prefix.
  destruct (6 + length label <? 7) eqn:E1; [apply Nat.ltb_lt in E1; lia|].
  destruct (255 <? 6 + length label) eqn:E2; [apply Nat.ltb_lt in E2; lia|]. cbn [orb bind].
  destruct (length context <? 0) eqn:E3; [apply Nat.ltb_lt in E3; lia|].
  destruct (255 <? length context) eqn:E4; [apply Nat.ltb_lt in E4; lia|]. cbn [orb bind].
  rewrite (Nat.mod_small (6 + length label)) by lia. rewrite (Nat.mod_small (length context)) by lia.
  set (info := _ ++ _ ++ _).
  assert (Einfo : info = be16 L ++ N.of_nat (6 + length label) :: LBL_tls13_prefix ++ label ++ N.of_nat (length context) :: context).
  { subst info. unfold be16. cbn [app]. rewrite <- app_assoc. reflexivity. }
  rewrite Einfo. apply hkdf_expand_model_eq; try assumption.
  unfold be16. cbn [app length]. rewrite !app_length. cbn [length]. rewrite str_length_prefix. lia.
Qed.

Theorem derive_secret_model_eq : forall sha3 secret label th,
  1 <= length label <= 22 -> TlsSpec.hlen (halg_of sha3) <= length secret -> length th = TlsSpec.hlen (halg_of sha3) ->
  derive_secret_model sha3 secret label th = Ok (derive_secret_h (halg_of sha3) secret label th).
Proof.
  intros sha3 secret label th Hl Hs Hth. unfold derive_secret_model, derive_secret_h.
  destruct th as [|x t]; [destruct sha3; discriminate|].
  rewrite hash_size_eq. apply hkdf_expand_label_model_eq; try lia; try assumption.
  - rewrite Hth. destruct sha3; cbn; lia.
  - destruct sha3; cbn; lia.
Qed.
(* an empty context: the hard-coded digests are Hash("") *)
Theorem derive_secret_model_empty : forall sha3 secret label,
  1 <= length label <= 22 -> TlsSpec.hlen (halg_of sha3) <= length secret ->
  derive_secret_model sha3 secret label [] = Ok (derive_secret_h (halg_of sha3) secret label (Hash (halg_of sha3) [])).
Proof.
  intros sha3 secret label Hl Hs. unfold derive_secret_model, derive_secret_h.
  replace (if sha3 then s_sha384OfEmptyInput else s_sha256OfEmptyInput) with (Hash (halg_of sha3) [])
    by (destruct sha3; [rewrite empty_hash_384|rewrite empty_hash_256]; reflexivity).
  rewrite hash_size_eq. apply hkdf_expand_label_model_eq; try lia; try assumption.
  - rewrite Hash_length. destruct sha3; cbn; lia.
  - destruct sha3; cbn; lia.
Qed.

Lemma hkdf_extract_model_eq : forall sha3 salt ikm,
  hkdf_extract_model sha3 salt ikm = Ok (HKDF_Extract (halg_of sha3) salt ikm).
Proof. destruct sha3; intros; [apply hkdf_extract_sha384_eq|apply hkdf_extract_sha256_eq]. Qed.

Lemma str_len : forall s, length (str s) = String.length s.
Proof. induction s; [reflexivity|]. cbn. f_equal. exact IHs. Qed.

Ltac lbl_range := rewrite str_len; cbn; lia.

(* the whole key schedule: each tls13Derive... function = the RFC 8446 7.1 value of the same role *)
Theorem schedule_model_eq : forall sha3 psk isres ecdhe th_ch th_sh th_sfin th_cfin,
  let h := halg_of sha3 in
  length th_ch = TlsSpec.hlen h -> length th_sh = TlsSpec.hlen h -> length th_sfin = TlsSpec.hlen h -> length th_cfin = TlsSpec.hlen h ->
  let S := schedule13 h psk isres ecdhe th_ch th_sh th_sfin th_cfin in
  early_secret_model sha3 psk = Ok (e_early S) /\
  binder_secret_model sha3 isres (e_early S) = Ok (e_binder_key S) /\
  early_traffic_model sha3 (e_early S) th_ch = Ok (e_c_e_traffic S) /\
  hs_secrets_model sha3 (e_early S) ecdhe th_sh = Ok {| m_handshake := e_handshake S; m_c_hs := e_c_hs_traffic S; m_s_hs := e_s_hs_traffic S |} /\
  app_secrets_model sha3 (e_handshake S) th_sfin = Ok {| m_master := e_master S; m_c_ap := e_c_ap_traffic S; m_s_ap := e_s_ap_traffic S |} /\
  res_master_model sha3 (e_master S) th_cfin = Ok (e_res_master S).
Proof.
  intros sha3 psk isres ecdhe th_ch th_sh th_sfin th_cfin h H1 H2 H3 H4 S.
  assert (Ez : zero_bytes (hash_size sha3) = zeros (TlsSpec.hlen h)) by (rewrite hash_size_eq; reflexivity).
  assert (Le : length (e_early S) = TlsSpec.hlen h) by apply extract_length.
  assert (Lh : length (e_handshake S) = TlsSpec.hlen h) by apply extract_length.
  assert (Lm : length (e_master S) = TlsSpec.hlen h) by apply extract_length.
  repeat split.
  - unfold early_secret_model. zlen. rewrite hkdf_extract_model_eq, Ez. reflexivity.
  - unfold binder_secret_model. destruct isres; [rewrite lbl_resb|rewrite lbl_extb];
      (rewrite derive_secret_model_empty; [reflexivity|lbl_range|fold h; lia]).
  - unfold early_traffic_model. rewrite lbl_cet. rewrite derive_secret_model_eq; [reflexivity|lbl_range|fold h; lia|exact H1].
  - unfold hs_secrets_model. zlen. rewrite lbl_derived, lbl_chs, lbl_shs.
    rewrite derive_secret_model_empty; [|lbl_range|fold h; lia]. cbn [bind].
    rewrite hkdf_extract_model_eq, Ez. cbn [bind]. fold h.
    rewrite !derive_secret_model_eq; first [reflexivity|lbl_range|exact H2|rewrite extract_length; fold h; lia].
  - unfold app_secrets_model. zlen. rewrite lbl_derived, lbl_cap, lbl_sap.
    rewrite derive_secret_model_empty; [|lbl_range|fold h; lia]. cbn [bind].
    rewrite hkdf_extract_model_eq, Ez. cbn [bind]. fold h.
    rewrite !derive_secret_model_eq; first [reflexivity|lbl_range|exact H3|rewrite extract_length; fold h; lia].
  - unfold res_master_model. rewrite lbl_res. rewrite derive_secret_model_eq; [reflexivity|lbl_range|fold h; lia|exact H4].
Qed.

(* traffic keys (RFC 8446 7.3) and which side reads with which *)
Theorem traffic_keys_model_eq : forall sha3 secret keySize,
  length secret = TlsSpec.hlen (halg_of sha3) -> keySize <= 32 ->
  traffic_keys_model sha3 secret keySize 12 = Ok (traffic_key (halg_of sha3) secret keySize, traffic_iv (halg_of sha3) secret).
Proof.
  intros sha3 secret keySize Hs Hk. unfold traffic_keys_model, traffic_key, traffic_iv. rewrite lbl_key, lbl_iv.
  rewrite !hkdf_expand_label_model_eq; try reflexivity; try (cbn; lia).
Qed.
Theorem rw_keys_model_eq : forall sha3 is_server c_secret s_secret keySize,
  length c_secret = TlsSpec.hlen (halg_of sha3) -> length s_secret = TlsSpec.hlen (halg_of sha3) -> keySize <= 32 ->
  let h := halg_of sha3 in
  let ck := (traffic_key h c_secret keySize, traffic_iv h c_secret) in
  let sk := (traffic_key h s_secret keySize, traffic_iv h s_secret) in
  rw_keys_model sha3 is_server c_secret s_secret keySize 12 = Ok (if is_server then (ck, sk) else (sk, ck)).
Proof.
  intros sha3 is_server c s keySize Hc Hs Hk h ck sk. unfold rw_keys_model.
  destruct is_server; rewrite !traffic_keys_model_eq by assumption; reflexivity.
Qed.

Lemma ps_hmac_model_eq : forall sha3 key msg, exists n, ps_hmac_model sha3 key msg = Ok (HMAC (halg_of sha3) key msg, n).
Proof. destruct sha3; intros; eexists; [apply ps_hmac_sha384_eq|apply ps_hmac_sha256_eq]. Qed.

(* Finished / binder: finished_key and verify_data (RFC 8446 4.4.4) *)
Theorem verify_data_model_eq : forall sha3 base th, length base = TlsSpec.hlen (halg_of sha3) ->
  finished_key_model sha3 base = Ok (finished_key (halg_of sha3) base) /\
  verify_data_model sha3 base th = Ok (verify_data13 (halg_of sha3) base th).
Proof.
  intros sha3 base th Hb.
  assert (E : finished_key_model sha3 base = Ok (finished_key (halg_of sha3) base)).
  { unfold finished_key_model, finished_key. rewrite lbl_fin, hash_size_eq.
    apply hkdf_expand_label_model_eq; try (cbn; lia). destruct sha3; cbn; lia. }
  split; [exact E|]. unfold verify_data_model. rewrite E. cbn [bind].
  destruct (ps_hmac_model_eq sha3 (finished_key (halg_of sha3) base) th) as [n En]. rewrite En. reflexivity.
Qed.

Theorem resumption_psk_model_eq : forall sha3 res_master nonce,
  length res_master = TlsSpec.hlen (halg_of sha3) -> length nonce <= 60 ->
  resumption_psk_model sha3 res_master nonce = Ok (resumption_psk (halg_of sha3) res_master nonce).
Proof.
  intros sha3 rm nonce Hr Hn. unfold resumption_psk_model, resumption_psk. rewrite lbl_resumption, hash_size_eq.
  apply hkdf_expand_label_model_eq; try (cbn; lia). destruct sha3; cbn; lia.
Qed.

(* tls13TranscriptHashReinit: what is hashed in place of ClientHello1 = the message_hash message of RFC 8446 4.4.1 *)
Theorem reinit_chunk_model_eq : forall sha3 chunks_ch1 hrr rest,
  is_hrr hrr = true ->
  reinit_chunk_model sha3 chunks_ch1 ++ concat (hrr :: rest) = transcript_bytes (halg_of sha3) (concat chunks_ch1 :: hrr :: rest).
Proof.
  intros sha3 chunks hrr rest Hh. unfold reinit_chunk_model, transcript_bytes. rewrite Hh.
  unfold sha2_stream. rewrite hash_size_eq.
  destruct sha3; cbn [halg_of Hash TlsSpec.hlen]; [rewrite sha384_chunks|rewrite sha256_chunks]; reflexivity.
Qed.

Theorem make_tbs_model_eq : forall th,
  make_tbs_model l_cv_server th = cv13_content true th /\ make_tbs_model l_cv_client th = cv13_content false th.
Proof.
  intro th. rewrite lbl_cv_server, lbl_cv_client.
  unfold make_tbs_model, cv13_content. split; reflexivity.
Qed.

(* ================================================================== nonces and additional data *)
Lemma be64_length : forall s, length (be64 s) = 8. Proof. reflexivity. Qed.

Theorem nonce_aad_model_eq : forall (iv : list N) (s : N) (ctype maj min : N) (n : nat),
  (* TLS 1.2 AES-GCM (RFC 5288): salt || explicit nonce, where MatrixSSL's explicit nonce is the sequence number *)
  (length iv = 4 -> gcm12_nonce_model iv (be64 s) = iv ++ be64 s) /\
  (* TLS 1.2 additional data (RFC 5246 6.2.3.3) *)
  aad12_model (be64 s) ctype maj min n = aad12 s ctype [maj; min] n /\
  (* TLS 1.2 ChaCha20-Poly1305 (RFC 7905) and TLS 1.3 (RFC 8446 5.3) per-record nonce *)
  (length iv = 12 -> chacha12_nonce_model iv (be64 s) = nonce_xor iv s) /\
  (length iv = 12 -> tls13_nonce_model iv (be64 s) = nonce13 iv s) /\
  (* TLS 1.3 additional data (RFC 8446 5.2) *)
  tls13_aad_model n = aad13 n.
Proof.
  intros iv s ctype maj min n. destruct sizes_ok as [_ [_ [_ [_ [E23 [E8 [E8' [E12 _]]]]]]]].
  assert (Hx : forall a b : list N, length a = length b -> xor_lists a b = xor_lists b a).
  { induction a; destruct b; intro Hl; try discriminate; [reflexivity|]. cbn [xor_lists]. rewrite N.lxor_comm, IHa by (cbn in Hl; lia). reflexivity. }
  split; [|split; [|split; [|split]]].
  - intro Hl. unfold gcm12_nonce_model. rewrite E8. rewrite (firstn_all2 (n := 4) iv) by lia.
    rewrite (firstn_all2 (n := 8) (be64 s)) by (rewrite be64_length; lia). reflexivity.
  - unfold aad12_model, aad12, seq64, be16. rewrite (firstn_all2 (n := 8) (be64 s)) by (rewrite be64_length; lia). reflexivity.
  - intro Hl. unfold chacha12_nonce_model, nonce_xor, seq64. rewrite E12, E8'. cbn [Nat.sub].
    rewrite (firstn_all2 (n := 8) (be64 s)) by (rewrite be64_length; lia). rewrite (firstn_all2 (n := 12) iv) by lia.
    apply Hx. rewrite app_length. cbn. lia.
  - intro Hl. unfold tls13_nonce_model, nonce13, nonce_xor, seq64.
    rewrite (firstn_all2 (n := 8) (be64 s)) by (rewrite be64_length; lia). rewrite (firstn_all2 (n := 12) iv) by lia.
    apply Hx. rewrite app_length. cbn. lia.
  - unfold tls13_aad_model, aad13, rec_header, be16. rewrite E23. reflexivity.
Qed.

(* ================================================================== which PSK the Early Secret is derived from
   tls13GenerateEarlySecret's keep-or-regenerate logic, run through the calls a client / a server makes: the secret the
   Handshake Secret is finally extracted from is Early(selected PSK), Early(0) when the server declined the offer *)
Lemma early_secret_model_eq : forall sha3 psk, early_secret_model sha3 psk = Ok (early_secret_of (halg_of sha3) psk).
Proof.
  intros. unfold early_secret_model, early_secret_of. zlen. rewrite hkdf_extract_model_eq, hash_size_eq. reflexivity.
Qed.

Definition side_early_secret_model (is_server : bool) : bool -> option (list N) -> bool -> res es_state :=
  if is_server then server_early_secret_model else client_early_secret_model.
Theorem early_secret_selection_eq : forall sha3 is_server (offered : option (list N)) (selected : bool),
  let sel := if selected then offered else None in
  exists st, side_early_secret_model is_server sha3 offered selected = Ok st /\
             es_from st = sel /\ es_value st = early_secret_of (halg_of sha3) sel.
Proof.
  intros sha3 is_server offered selected sel. subst sel.
  unfold side_early_secret_model. destruct is_server; [unfold server_early_secret_model|unfold client_early_secret_model];
    destruct offered as [p|]; destruct selected; unfold generate_early_secret_model;
    cbn [es_done es_init andb orb negb bind]; rewrite ?early_secret_model_eq; cbn [bind es_done andb orb negb];
    rewrite ?early_secret_model_eq; cbn [bind es_done andb orb negb]; rewrite ?early_secret_model_eq; cbn [bind];
    eexists; (split; [reflexivity|split; reflexivity]).
Qed.

Theorem side_hs_secrets_eq : forall sha3 is_server (offered : option (list N)) (selected : bool) isres ecdhe th_ch th_sh th_sfin th_cfin,
  let h := halg_of sha3 in
  length th_ch = TlsSpec.hlen h -> length th_sh = TlsSpec.hlen h -> length th_sfin = TlsSpec.hlen h -> length th_cfin = TlsSpec.hlen h ->
  let S := schedule13 h (if selected then offered else None) isres ecdhe th_ch th_sh th_sfin th_cfin in
  side_hs_secrets_model sha3 is_server offered selected ecdhe th_sh =
    Ok {| m_handshake := e_handshake S; m_c_hs := e_c_hs_traffic S; m_s_hs := e_s_hs_traffic S |} /\
  e_handshake S = HKDF_Extract h (handshake_salt h (if selected then offered else None))
                               (match ecdhe with Some e => e | None => zeros (TlsSpec.hlen h) end).
Proof.
  intros sha3 is_server offered selected isres ecdhe th_ch th_sh th_sfin th_cfin h H1 H2 H3 H4 S.
  split; [|reflexivity].
  unfold side_hs_secrets_model.
  destruct (early_secret_selection_eq sha3 is_server offered selected) as [st [E [_ Ev]]]. unfold side_early_secret_model in E. rewrite E. cbn [bind]. rewrite Ev.
  destruct (schedule_model_eq sha3 (if selected then offered else None) isres ecdhe th_ch th_sh th_sfin th_cfin H1 H2 H3 H4)
    as [_ [_ [_ [Hhs _]]]].
  exact Hhs.
Qed.
