(* C09 - lemmas and main theorems about coq/Asn/AsnModel.v *)
From Coq Require Import Lia ZifyBool ZifyN ZifyNat.
From MV Require Import Base.Bytes Gen.Consts Gen.ConstsAsn Gen.B64Map Asn.AsnModel Asn.AsnSpec.
Local Open Scope N_scope.
Ltac Zify.zify_post_hook ::= Z.div_mod_to_equations.

(* ------------------------------------------------------------------------------------------ post calculus *)
Lemma post_bind {A B} (Q : B -> Prop) (r : res A) (f : A -> res B) :
  post (fun a => post Q (f a)) r -> post Q (bind r f).
Proof. destruct r; cbn; auto. Qed.

Lemma post_weaken {A} (Q Q' : A -> Prop) (r : res A) :
  post Q r -> (forall a, Q a -> Q' a) -> post Q' r.
Proof. destruct r; cbn; auto. Qed.

Lemma post_remap {A} (Q : A -> Prop) rc (r : res A) : post Q r -> post Q (remap rc r).
Proof. destruct r; cbn; auto. Qed.

Lemma post_if {A} (Q : A -> Prop) (b : bool) (x y : res A) :
  (b = true -> post Q x) -> (b = false -> post Q y) -> post Q (if b then x else y).
Proof. destruct b; auto. Qed.

Lemma post_safe {A} (Q : A -> Prop) (r : res A) : post Q r -> safe r.
Proof. destruct r; cbn; unfold safe; intuition congruence. Qed.

Lemma lenN_app (a b : bytes) : lenN (a ++ b) = lenN a + lenN b.
Proof. unfold lenN. rewrite app_length. lia. Qed.

Lemma post_rd (Q : N -> Prop) buf limit i :
  holds buf limit -> i < limit ->
  (forall b, nth_error buf (N.to_nat i) = Some b -> Q b) ->
  post Q (rd buf limit i).
Proof.
  unfold holds, rd. intros Hh Hi HQ.
  destruct (N.ltb_spec i limit); [|lia].
  destruct (N.ltb_spec i (lenN buf)); [|lia].
  unfold lenN in *.
  destruct (nth_error buf (N.to_nat i)) eqn:E.
  - cbn. auto.
  - apply nth_error_None in E. lia.
Qed.

Lemma sub_bytes_length buf p n : p + n <= lenN buf -> lenN (sub_bytes buf p n) = n.
Proof.
  unfold sub_bytes, lenN. intros H.
  rewrite firstn_length, skipn_length. lia.
Qed.

Lemma post_slice (Q : bytes -> Prop) buf limit p n :
  holds buf limit -> p + n <= limit ->
  (lenN (sub_bytes buf p n) = n -> Q (sub_bytes buf p n)) ->
  post Q (slice buf limit p n).
Proof.
  unfold holds, slice. intros Hh Hi HQ.
  destruct (N.leb_spec (p + n) limit); [|lia].
  destruct (N.leb_spec (p + n) (lenN buf)); [|lia].
  cbn. apply HQ. apply sub_bytes_length. lia.
Qed.

Lemma slice_ok buf limit p n s : slice buf limit p n = Ok s -> s = sub_bytes buf p n /\ p + n <= limit /\ lenN s = n.
Proof.
  unfold slice. destruct (N.leb_spec (p + n) limit); [|discriminate].
  destruct (N.leb_spec (p + n) (lenN buf)); [|discriminate].
  intros E; inversion E; subst. repeat split; auto. apply sub_bytes_length; auto.
Qed.

Lemma u32sub_small a b : b <= a -> a < two32 -> u32sub a b = a - b.
Proof. unfold u32sub, two32. intros. lia. Qed.

Ltac b2p :=
  repeat match goal with
  | H : (_ || _) = true |- _ => apply orb_true_iff in H
  | H : (_ || _) = false |- _ => apply orb_false_iff in H; destruct H
  | H : (_ && _) = true |- _ => apply andb_true_iff in H; destruct H
  | H : (_ && _) = false |- _ => apply andb_false_iff in H
  | H : negb _ = true |- _ => apply negb_true_iff in H
  | H : negb _ = false |- _ => apply negb_false_iff in H
  | H : (_ <? _) = true |- _ => apply N.ltb_lt in H
  | H : (_ <? _) = false |- _ => apply N.ltb_ge in H
  | H : (_ <=? _) = true |- _ => apply N.leb_le in H
  | H : (_ <=? _) = false |- _ => apply N.leb_gt in H
  | H : (_ =? _) = true |- _ => apply N.eqb_eq in H
  | H : (_ =? _) = false |- _ => apply N.eqb_neq in H
  end.

Ltac u32 :=
  repeat match goal with
  | H : context [u32sub ?a ?b] |- _ => rewrite (u32sub_small a b) in H by lia
  | |- context [u32sub ?a ?b] => rewrite (u32sub_small a b) by lia
  end.
Ltac splits := repeat match goal with |- _ /\ _ => split end.

(* one step of symbolic execution of a model function under [post] *)
Ltac pstep :=
  lazymatch goal with
  | |- post _ (Err _) => exact I
  | |- post _ (if _ then _ else _) => apply post_if; intro
  | |- post _ (bind _ _) => apply post_bind
  | |- post _ (remap _ _) => apply post_remap
  | |- post _ (rd _ _ _) => apply post_rd; [assumption | | intros ? ?]
  | |- post _ (slice _ _ _ _) => apply post_slice; [assumption | | intros ?]
  | |- post _ (Ok _) => cbn [post]
  | |- post _ (let _ := _ in _) => cbv zeta
  end; cbv beta.

(* ------------------------------------------------------------------------------------------ asn1.c *)
Definition len32_post (c size : N) (indef : bool) (r : Z * N * N) : Prop :=
  let '(rc, len, c') := r in
  c < c' /\ c' <= c + size /\ c' <= c + 5 /\ len < two32 /\
  (indef = false -> rc = 0%Z /\ c' + len <= c + size) /\
  (rc = 0%Z \/ (rc = z_ASN_UNKNOWN_LEN /\ indef = true)).

Lemma getAsnLength32_spec buf c size indef :
  holds buf (c + size) ->
  post (len32_post c size indef) (getAsnLength32 buf c size indef).
Proof.
  intros Hh. unfold getAsnLength32.
  pstep; [pstep|]. b2p.
  pstep. pstep; [lia|].
  assert (Hfin : forall l c', c < c' -> c' <= c + size -> c' <= c + 5 -> l < two32 ->
     post (len32_post c size indef)
       (if negb indef && (c + size <? c' + l) then Err c_PS_LIMIT_FAIL else Ok (0%Z, l, c'))).
  { intros l c' H1 H2 H3 H4. pstep; [pstep|]. pstep. unfold len32_post.
    split; [lia|]. split; [lia|]. split; [lia|]. split; [lia|]. split; [|left; reflexivity].
    intros ->. split; [reflexivity|lia]. }
  pstep.
  - pstep; [pstep|]. b2p. pstep.
    + destruct indef; [|pstep]. pstep. unfold len32_post. b2p.
      splits; try lia; try (apply N.mod_lt; discriminate); try discriminate.
    + pstep; [|pstep]. b2p. pstep. pstep; [lia|].
      apply Hfin; try lia. apply N.mod_lt. discriminate.
  - b2p. apply Hfin; try lia.
    assert (b mod 128 < 128) by (apply N.mod_lt; discriminate). unfold two32. lia.
Qed.

Definition len16_post (c size : N) (r : N * N) : Prop :=
  let '(len, c') := r in c < c' /\ c' <= c + size /\ c' + len <= c + size /\ len < two16.

Lemma mod16_le x : x mod two16 <= x.
Proof. apply N.mod_le. discriminate. Qed.
Lemma mod16_lt x : x mod two16 < two16.
Proof. apply N.mod_lt. discriminate. Qed.

Lemma getAsnLength_spec buf c size :
  holds buf (c + size) -> post (len16_post c size) (getAsnLength buf c size).
Proof.
  intros Hh. unfold getAsnLength. pstep.
  eapply post_weaken; [apply getAsnLength32_spec; auto|].
  intros [[rc len] c'] HS. cbn in HS. destruct HS as (S1 & S2 & S3 & S4 & S5 & S6).
  destruct (S5 eq_refl). cbn. pose proof (mod16_le len). pose proof (mod16_lt len). lia.
Qed.

(* SEQUENCE / SET headers *)
Definition cons32_post (c size : N) (indef : bool) (r : Z * N * N) : Prop :=
  let '(rc, len, c') := r in
  c + 1 < c' /\ c' <= c + size /\ c' <= c + 6 /\ len < two32 /\
  (indef = false -> rc = 0%Z /\ c' + len <= c + size).

Lemma getAsnConstructed32_spec is_set buf c size indef :
  holds buf (c + size) ->
  post (cons32_post c size indef) (getAsnConstructed32 is_set buf c size indef).
Proof.
  intros Hh. unfold getAsnConstructed32.
  pstep; [pstep|]. b2p.
  pstep. pstep; [lia|].
  pstep; [pstep|].
  pstep.
  eapply post_weaken; [apply getAsnLength32_spec|].
  { unfold holds in *. replace (c + 1 + (size - 1)) with (c + size) by lia. auto. }
  intros [[rc len] p] HS. cbn in HS. destruct HS as (S1 & S2 & S3 & S4 & S5 & S6).
  destruct is_set.
  - pstep; [pstep|]. pstep. unfold cons32_post. splits; try lia; try (intros E; destruct (S5 E); splits; first [assumption|lia]).
  - pstep; [pstep|]. pstep. unfold cons32_post. splits; try lia; try (intros E; destruct (S5 E); splits; first [assumption|lia]).
Qed.

Definition cons16_post (c size : N) (r : N * N) : Prop :=
  let '(len, c') := r in c + 1 < c' /\ c' <= c + size /\ c' + len <= c + size /\ len < two16.

Lemma getAsnSequence_spec buf c size :
  holds buf (c + size) -> post (cons16_post c size) (getAsnSequence buf c size).
Proof.
  intros Hh. unfold getAsnSequence, getAsnSequence32. pstep.
  eapply post_weaken; [apply getAsnConstructed32_spec; auto|].
  intros [[rc len] c'] HS. cbn in HS. destruct HS as (S1 & S2 & S3 & S4 & S5).
  destruct (S5 eq_refl). cbn. pose proof (mod16_le len). pose proof (mod16_lt len). lia.
Qed.

Lemma getAsnSet_spec buf c size :
  holds buf (c + size) -> post (cons16_post c size) (getAsnSet buf c size).
Proof.
  intros Hh. unfold getAsnSet, getAsnSet32. pstep.
  eapply post_weaken; [apply getAsnConstructed32_spec; auto|].
  intros [[rc len] c'] HS. cbn in HS. destruct HS as (S1 & S2 & S3 & S4 & S5).
  destruct (S5 eq_refl). cbn. pose proof (mod16_le len). pose proof (mod16_lt len). lia.
Qed.

(* INTEGER / ENUMERATED *)
Lemma getAsnIntLike_spec tag buf c size :
  holds buf (c + size) -> c + size < two32 ->
  post (fun r => c + 2 < snd r /\ snd r <= c + size) (getAsnIntLike tag true buf c size).
Proof.
  intros Hh Hs. unfold getAsnIntLike.
  pstep; [pstep|]. b2p.
  pstep. pstep; [lia|].
  pstep; [pstep|].
  pstep.
  eapply post_weaken; [apply getAsnLength32_spec|].
  { unfold holds in *. replace (c + 1 + (size - 1)) with (c + size) by lia. auto. }
  intros [[rc vlen] p] HS. cbn in HS. destruct HS as (S1 & S2 & S3 & S4 & S5 & S6).
  destruct (S5 eq_refl) as [_ S7].
  pstep; [pstep|]. b2p. u32.
  pstep; [pstep|].
  pstep. pstep; [lia|].
  pstep. pstep; [lia|].
  pstep. cbn [snd]. lia.
Qed.

(* OBJECT IDENTIFIER / AlgorithmIdentifier *)
Lemma getAsnOID_spec buf c size chk :
  holds buf (c + size) ->
  post (fun r => let '(_, plen, c') := r in c + 1 < c' /\ c' <= c + size /\ plen < two16 /\ plen <= c + size - c')
       (getAsnOID buf c size chk).
Proof.
  intros Hh. unfold getAsnOID.
  pstep; [pstep|]. b2p.
  pstep. pstep; [lia|].
  pstep; [pstep|].
  pstep.
  eapply post_weaken; [apply getAsnLength32_spec|].
  { unfold holds in *. replace (c + 1 + (c + size - (c + 1))) with (c + size) by lia. auto. }
  intros [[rc arcLen] p] HS. cbn in HS. destruct HS as (S1 & S2 & S3 & S4 & S5 & S6).
  destruct (S5 eq_refl) as [_ S7].
  pstep; [pstep|]. pstep; [pstep|]. b2p.
  pstep. pstep; [lia|].
  pose proof (mod16_le (c + size - (p + arcLen))). pose proof (mod16_lt (c + size - (p + arcLen))).
  destruct chk.
  - pstep.
    + pstep. lia.
    + b2p. pstep. pstep; [lia|].
      pstep; [pstep; lia|].
      pstep; [pstep|]. pstep; [pstep|]. b2p. pstep. lia.
  - pstep. unfold two16. lia.
Qed.

Lemma getAsnAlgorithmIdentifier_spec buf c size :
  holds buf (c + size) ->
  post (fun r => let '(_, plen, c') := r in c + 3 < c' /\ c' <= c + size /\ plen < two16)
       (getAsnAlgorithmIdentifier buf c size).
Proof.
  intros Hh. unfold getAsnAlgorithmIdentifier.
  pstep; [pstep|]. b2p. pstep.
  eapply post_weaken; [apply getAsnConstructed32_spec; auto|].
  intros [[rc llen] p] HS. cbn in HS. destruct HS as (S1 & S2 & S3 & S4 & S5).
  destruct (S5 eq_refl) as [_ S7].
  pstep; [pstep|]. b2p.
  eapply post_weaken; [apply getAsnOID_spec|].
  { unfold holds in *. lia. }
  intros [[oi plen] c'] (A & B & C & D). lia.
Qed.

(* getAsnTagLenUnsafe is safe exactly under the contract stated at its only call site: the pointer
   is at a TLV whose header was validated (here: at least the header bytes are inside the block) *)
Lemma getAsnTagLenUnsafe_spec buf limit c :
  holds buf limit -> c + 5 <= limit ->
  post (fun _ => True) (getAsnTagLenUnsafe buf limit c).
Proof.
  intros Hh Hc. unfold getAsnTagLenUnsafe.
  pstep. pstep; [lia|].
  pstep; [pstep; auto|].
  pstep. pstep; [lia|].
  pstep; [|pstep; auto].
  pstep; [pstep; auto|]. b2p.
  pstep. pstep; [lia|]. pstep. auto.
Qed.

(* asnCopyOid: all stores stay inside the MAX_OID_BYTES array, for every (unbounded) derlen *)
Lemma oid_put_append (Q : bytes -> Prop) written idx v :
  idx = lenN written -> idx < n_MAX_OID_BYTES -> Q (written ++ [v]) -> post Q (oid_put written idx v).
Proof.
  intros E H HQ. unfold oid_put.
  destruct (N.ltb_spec idx n_MAX_OID_BYTES); [|lia].
  destruct (N.eqb_spec idx (lenN written)); [exact HQ|lia].
Qed.

Lemma oid_copy_loop_spec data : forall i len w,
  lenN w = 2 + i -> 2 + i + lenN data <= n_MAX_OID_BYTES ->
  post (fun r => snd r = w ++ data /\ fst r <= len + lenN data) (oid_copy_loop data i len w).
Proof.
  induction data as [|ch r IH]; intros i len w Hw Hb; cbn [oid_copy_loop].
  - cbn [post fst snd]. rewrite app_nil_r. split; [reflexivity|lia].
  - assert (L : lenN (ch :: r) = 1 + lenN r) by (unfold lenN; cbn [length]; lia).
    pstep. apply oid_put_append; [lia|lia|].
    eapply post_weaken; [apply IH|].
    + rewrite lenN_app. change (lenN [ch]) with 1. lia.
    + lia.
    + intros [l' w']. cbn [fst snd]. intros [E1 E2]. split.
      * rewrite E1, <- app_assoc. reflexivity.
      * destruct (128 <=? ch); lia.
Qed.

Definition oidcopy_post (buf : bytes) (p derlen : N) (r : N * bytes) : Prop :=
  let '(ret, w) := r in
  lenN w <= n_MAX_OID_BYTES /\ ret < 256 /\
  (0 < ret -> 1 <= derlen /\ derlen + 2 <= n_MAX_OID_BYTES /\ w = [n_ASN_OID; derlen] ++ sub_bytes buf p derlen).

Lemma asnCopyOid_spec buf limit p derlen :
  holds buf limit -> p + derlen <= limit ->
  post (oidcopy_post buf p derlen) (asnCopyOid buf limit p derlen).
Proof.
  intros Hh Hp. unfold asnCopyOid.
  assert (M : 2 < n_MAX_OID_BYTES) by (unfold n_MAX_OID_BYTES; lia).
  pstep.
  - pstep. apply oid_put_append; [reflexivity|lia|].
    pstep. apply oid_put_append; [reflexivity|lia|].
    pstep. unfold oidcopy_post. change (lenN ([] ++ [0] ++ [0])) with 2. change (lenN (([] ++ [0]) ++ [0])) with 2. change (lenN [0; 0]) with 2. splits; try lia.
  - b2p. pstep. apply oid_put_append; [reflexivity|lia|].
    pstep. apply oid_put_append; [reflexivity|lia|].
    pstep. pstep; [lia|].
    pstep. eapply post_weaken; [apply (oid_copy_loop_spec _ 0 1); [reflexivity|lia]|].
    intros [len w]. cbn [fst snd]. intros [E1 E2].
    assert (D : derlen mod 256 = derlen) by (apply N.mod_small; unfold n_MAX_OID_BYTES in *; lia).
    assert (LW : lenN w = 2 + derlen) by (rewrite E1, lenN_app; unfold lenN at 1; cbn [app length]; lia).
    assert (ML : len mod 256 < 256) by (apply N.mod_lt; discriminate).
    pstep; pstep; unfold oidcopy_post; splits; try lia.
    intros _. splits; try lia. rewrite E1, D. reflexivity.
Qed.

(* ------------------------------------------------------------------------------------------ GeneralNames *)
Lemma printable_spec c : printable c = true <-> printable_byte c.
Proof. unfold printable, printable_byte. lia. Qed.

Lemma ia5_scan_spec d : forall t,
  ia5_scan 1 d = Some t ->
  (t = 1 /\ Forall printable_byte d) \/
  (t = 0 /\ exists d', d = d' ++ [0] /\ Forall printable_byte d').
Proof.
  induction d as [|c r IH]; intros t H; cbn [ia5_scan] in H.
  - inversion H. left. split; auto.
  - destruct (printable c) eqn:P.
    + apply printable_spec in P. destruct (IH _ H) as [[-> F]|[-> [d' [-> F]]]].
      * left. split; auto.
      * right. split; auto. exists (c :: d'). split; auto.
    + unfold f_DISABLE_X509_GENERAL_NAME_SUPPORT_C_NULL in H. cbn [negb andb] in H.
      destruct (N.eqb_spec c 0); [|discriminate]. destruct r; [|discriminate].
      inversion H. subst. right. split; auto. exists []. split; auto.
Qed.

Lemma firstn_lenN_app (a b : bytes) : firstn (N.to_nat (lenN a)) (a ++ b) = a.
Proof.
  unfold lenN. rewrite Nat2N.id. rewrite firstn_app, Nat.sub_diag, firstn_all. cbn. apply app_nil_r.
Qed.

Lemma firstn_lenN_all (a : bytes) n : lenN a <= n -> firstn (N.to_nat n) a = a.
Proof. unfold lenN. intros. apply firstn_all2. lia. Qed.

Definition gn_other_post (p len : N) (extEnd : N) (r : bytes * N * N) : Prop :=
  let '(_, p', len') := r in p < p' /\ p' <= extEnd /\ p' + len' = p + len.

Lemma gn_other_spec buf extEnd p len :
  holds buf extEnd -> extEnd < two32 -> p <= extEnd ->
  post (gn_other_post p len extEnd) (gn_other buf extEnd p len).
Proof.
  intros Hh H32 Hp. unfold gn_other.
  pstep. pstep. u32.
  eapply post_weaken; [apply getAsnLength_spec; unfold holds in *; lia|].
  intros [l1 p1] (A1 & A2 & A3 & A4).
  pstep; [pstep|]. b2p. u32.
  pstep. pstep; [lia|].
  pstep; [pstep|].
  pstep. pstep. u32.
  eapply post_weaken; [apply getAsnLength_spec; unfold holds in *; lia|].
  intros [oidLen p2] (B1 & B2 & B3 & B4).
  pstep; [pstep|]. b2p. u32.
  pstep. pstep; [lia|].
  pstep; [pstep|]. b2p. u32.
  pstep. pstep; [lia|].
  pstep; [pstep|].
  pstep. pstep. u32.
  eapply post_weaken; [apply getAsnLength_spec; unfold holds in *; lia|].
  intros [l3 p3] (C1 & C2 & C3 & C4).
  pstep; [pstep|]. b2p. u32.
  pstep; [pstep|]. b2p. u32.
  pstep; [pstep|]. b2p.
  pstep. unfold gn_other_post. lia.
Qed.

Definition gn_one_post (p len extEnd : N) (r : gname * N * N * N) : Prop :=
  let '(g, p', len', _) := r in p < p' /\ p' <= extEnd /\ p' + len' = p + len /\ gn_clean g.

Lemma gn_one_spec buf extEnd p len :
  holds buf extEnd -> extEnd < two32 -> p + len <= extEnd -> 3 <= len ->
  post (gn_one_post p len extEnd) (gn_one buf extEnd p len 1).
Proof.
  intros Hh H32 Hp H3. unfold gn_one.
  pstep. pstep; [lia|].
  pstep.
  apply post_weaken with (Q := fun r : bytes * N * N => let '(_, p1, len1) := r in p + 1 <= p1 /\ p1 <= extEnd /\ p1 + len1 = p + len).
  { pstep.
    - eapply post_weaken; [apply gn_other_spec; auto; lia|].
      intros [[o p1] len1]. unfold gn_other_post. lia.
    - pstep. lia. }
  intros [[oid p1] len1] (A1 & A2 & A3).
  pstep. pstep. u32.
  eapply post_weaken; [apply getAsnLength_spec; unfold holds in *; lia|].
  intros [dataLen p2] (B1 & B2 & B3 & B4).
  pstep; [pstep|]. b2p. u32.
  pstep; [pstep|]. b2p.
  pstep; [pstep|]. b2p.
  pstep. pstep; [lia|].
  set (data := sub_bytes buf p2 dataLen) in *.
  pstep.
  apply post_weaken with (Q := fun tn =>
     (tn = 1 /\ (is_ia5_kind (b mod 16) = true -> Forall printable_byte data)) \/
     (tn = 0 /\ exists d', data = d' ++ [0] /\ Forall printable_byte d')).
  { pstep.
    - destruct (ia5_scan 1 data) as [t|] eqn:E; [|exact I].
      cbn [post]. destruct (ia5_scan_spec _ _ E) as [[-> F]|[-> F]]; auto.
    - pstep; [pstep|]. pstep. left. split; auto. congruence. }
  intros tn Htn. pstep.
  unfold gn_one_post. splits; try lia.
  unfold gn_clean. cbn [g_buf g_len g_id].
  unfold f_DISABLE_X509_GENERAL_NAME_SUPPORT_C_NULL. cbn [negb andb].
  destruct Htn as [[-> F]|[-> [d' [E F]]]].
  - exists data. cbn [N.eqb]. splits; auto.
    apply firstn_lenN_all. rewrite lenN_app. cbn. lia.
  - exists d'. cbn [N.eqb]. rewrite N.add_0_r.
    assert (L : lenN data = lenN d' + 1) by (rewrite E, lenN_app; reflexivity).
    splits; auto.
    + rewrite <- H5. rewrite firstn_lenN_app. exact E.
    + lia.
Qed.

Lemma gn_loop_spec fuel : forall buf extEnd endp p len tn limit acc,
  holds buf extEnd -> extEnd < two32 -> p + len <= extEnd ->
  (N.to_nat len < fuel)%nat -> Forall gn_clean acc ->
  post (fun r => Forall gn_clean (fst r)) (gn_loop fuel true buf extEnd endp p len tn limit acc).
Proof.
  induction fuel as [|f IH]; intros buf extEnd endp p len tn limit acc Hh H32 Hp Hf Hacc; [lia|].
  cbn [gn_loop]. pstep.
  - pstep. cbn [fst]. apply Forall_rev. auto.
  - b2p. pstep.
    eapply post_weaken; [apply gn_one_spec; auto|].
    intros [[[g p'] len'] tn'] (A1 & A2 & A3 & A4).
    pstep.
    + pstep. cbn [fst]. apply Forall_rev. auto.
    + apply IH; auto; lia.
Qed.

Theorem parse_general_names_spec buf extEnd p len limit :
  holds buf extEnd -> extEnd < two32 -> p + len <= extEnd ->
  post (fun r => Forall gn_clean (fst r)) (parse_general_names buf extEnd p len limit).
Proof.
  intros. unfold parse_general_names, parse_general_names_gen.
  apply gn_loop_spec; auto; lia.
Qed.

(* ------------------------------------------------------------------------------------------ DN attributes *)
Lemma holds_le buf a b : holds buf b -> a <= b -> holds buf a.
Proof. unfold holds. lia. Qed.

Lemma cstr_full (data t : bytes) :
  length (cstr (data ++ 0 :: t)) = length data -> Forall (fun b => b <> 0) data.
Proof.
  induction data as [|x r IH]; intros H; [constructor|].
  cbn [app cstr] in H. destruct (N.eqb_spec x 0).
  - cbn in H. discriminate.
  - cbn [length] in H. constructor; auto.
Qed.

Definition dn_step_ok (s : dn_step) : Prop :=
  match s with DnStored a => dn_terminated a | _ => True end.

Lemma dn_value_spec buf dnEnd p id :
  holds buf dnEnd -> dnEnd < two32 -> p <= dnEnd -> dnEnd < p + 65536 ->
  post (fun r => p < snd r /\ snd r <= dnEnd /\ dn_step_ok (fst r)) (dn_value buf dnEnd p id).
Proof.
  intros Hh H32 Hp H16. unfold dn_value.
  pstep; [pstep|]. b2p.
  pstep. pstep; [lia|].
  pstep. pstep. u32.
  eapply post_weaken; [apply getAsnLength_spec; eapply holds_le; eauto; lia|].
  intros [llen p2] (B1 & B2 & B3 & B4).
  pstep; [pstep|]. b2p. u32.
  pstep; [pstep|].
  pstep; [|pstep].
  pstep. pstep; [lia|].
  set (data := sub_bytes buf p2 llen) in *.
  pstep; [pstep|].
  pstep. cbn [fst snd]. splits; try lia.
  destruct (dn_is_stored id); cbn [dn_step_ok]; auto.
  unfold dn_terminated. cbn [d_str d_len d_type].
  exists data. change (repeat 0 (N.to_nat n_DN_NUM_TERMINATING_NULLS)) with [0; 0].
  change n_DN_NUM_TERMINATING_NULLS with 2.
  assert (E : (llen + 2) mod two16 = llen + 2) by (apply N.mod_small; unfold two16; lia).
  rewrite E. splits; auto; try lia.
  intros Hc. rewrite Hc in H5. cbn [andb] in H5. b2p.
  change (repeat 0 (N.to_nat n_DN_NUM_TERMINATING_NULLS)) with [0; 0] in H5.
  apply cstr_full with (t := [0]). unfold lenN in *. lia.
Qed.

Lemma dn_attr_spec buf dnEnd p :
  holds buf dnEnd -> dnEnd < two32 -> p <= dnEnd -> dnEnd < p + 65536 ->
  post (fun r => p < snd r /\ snd r <= dnEnd /\ dn_step_ok (fst r)) (dn_attr buf dnEnd p).
Proof.
  intros Hh H32 Hp H16. unfold dn_attr.
  pstep; [pstep|]. b2p.
  pstep. pstep; [lia|].
  pstep; [pstep|].
  pstep. pstep. u32.
  eapply post_weaken; [apply getAsnLength_spec; eapply holds_le; eauto; lia|].
  intros [arcLen p2] (B1 & B2 & B3 & B4).
  pstep; [pstep|]. b2p. u32.
  pstep; [pstep|]. b2p.
  pstep.
  apply post_weaken with (Q := fun dc : bool => dc = true -> arcLen = 10).
  { pstep.
    - b2p. pstep. pstep; [lia|]. pstep. auto.
    - pstep. discriminate. }
  intros dc Hdc. pstep.
  - specialize (Hdc H4).
    eapply post_weaken; [apply dn_value_spec; auto; lia|].
    intros [s p3]; cbn [fst snd]; intros (X1 & X2 & X3); splits; auto; lia.
  - pstep. pstep; [lia|].
    pstep. pstep; [lia|].
    pstep.
    + pstep; [pstep|]. b2p. u32.
      pstep. pstep. u32.
      eapply post_weaken; [apply getAsnLength_spec; eapply holds_le; eauto; lia|].
      intros [llen p3] (C1 & C2 & C3 & C4).
      pstep; [pstep|]. b2p. u32.
      pstep. cbn [fst snd dn_step_ok]. lia.
    + pstep; [pstep|]. b2p.
      pstep. pstep; [lia|].
      eapply post_weaken; [apply dn_value_spec; auto; lia|].
      intros [s p3]; cbn [fst snd]; intros (X1 & X2 & X3); splits; auto; lia.
Qed.

Lemma dn_loop_spec fuel : forall buf dnEnd base p inset setlen moreInSet acc,
  holds buf dnEnd -> dnEnd < two32 -> base <= p -> p <= dnEnd -> dnEnd < base + 65536 ->
  (N.to_nat (dnEnd - p) < fuel)%nat -> Forall dn_terminated acc ->
  post (fun r => Forall dn_terminated (fst r) /\ p <= snd r /\ snd r <= dnEnd)
       (dn_loop fuel buf dnEnd p inset setlen moreInSet acc).
Proof.
  induction fuel as [|f IH]; intros buf dnEnd base p inset setlen moreInSet acc Hh H32 Hb Hp H16 Hf Hacc; [lia|].
  cbn [dn_loop]. pstep.
  - pstep. cbn [fst snd]. splits; try lia. apply Forall_rev. auto.
  - pstep.
    apply post_weaken with (Q := fun r : N * N => p <= snd r /\ snd r <= dnEnd).
    { pstep.
      - pstep. cbn [snd]. lia.
      - pstep. u32.
        eapply post_weaken; [apply getAsnSet_spec; eapply holds_le; eauto; lia|].
        intros [sl p1] (A1 & A2 & A3 & A4). cbn [snd]. lia. }
    intros [setlen' p1]. cbn [snd]. intros [A1 A2].
    pstep. pstep. u32.
    eapply post_weaken; [apply getAsnSequence_spec; eapply holds_le; eauto; lia|].
    intros [llen p2] (B1 & B2 & B3 & B4).
    pstep.
    eapply post_weaken; [apply dn_attr_spec; auto; lia|].
    intros [step p3]. cbn [fst snd]. intros (C1 & C2 & C3).
    destruct step; cbn [dn_step_ok] in C3.
    + eapply post_weaken; [eapply (IH buf dnEnd base p3); auto; try lia|].
      intros [l q]. cbn [fst snd]. intros (D1 & D2 & D3). splits; auto; lia.
    + eapply post_weaken; [eapply (IH buf dnEnd base p3); auto; try lia|].
      intros [l q]. cbn [fst snd]. intros (D1 & D2 & D3). splits; auto; lia.
    + eapply post_weaken; [eapply (IH buf dnEnd base p3); auto; try lia|].
      intros [l q]. cbn [fst snd]. intros (D1 & D2 & D3). splits; auto; lia.
Qed.

Theorem dn_attributes_spec buf c len :
  holds buf (c + len) -> c + len < two32 -> len < 65536 ->
  post (fun r => Forall dn_terminated (fst r) /\ c < snd r /\ snd r <= c + len) (dn_attributes buf c len).
Proof.
  intros Hh H32 H16. unfold dn_attributes.
  pstep. pstep.
  eapply post_weaken; [apply getAsnSequence_spec; auto|].
  intros [llen p] (A1 & A2 & A3 & A4).
  eapply post_weaken; [eapply (dn_loop_spec _ buf (p + llen) c p); auto; try lia|].
  - eapply holds_le; eauto.
  - intros [l q]. cbn [fst snd]. intros (D1 & D2 & D3). splits; auto; lia.
Qed.

(* ------------------------------------------------------------------------------------------ CRL revoked entries *)
Lemma wrap_sub ilen d : d <= ilen -> ilen < two32 ->
  (ilen + two32 - d mod two32) mod two32 = ilen - d.
Proof. unfold two32. intros. lia. Qed.

Lemma getSerialNum_spec buf c len :
  holds buf (c + len) ->
  post (fun r => c + 1 < snd r /\ snd r <= c + len) (getSerialNum buf c len).
Proof.
  intros Hh. unfold getSerialNum.
  pstep; [pstep|]. b2p.
  pstep. pstep; [lia|].
  pstep; [pstep|].
  pstep. pstep.
  eapply post_weaken; [apply getAsnLength_spec; eapply holds_le; eauto; lia|].
  intros [vlen p] (A1 & A2 & A3 & A4).
  pstep; [pstep|]. b2p.
  pstep. pstep; [lia|].
  pstep. cbn [snd]. lia.
Qed.

Lemma crl_entry_spec buf endp p :
  holds buf endp -> endp < two32 -> p <= endp ->
  post (fun r => let '(_, p', used) := r in p + 2 <= p' /\ p' <= endp /\ used = p' - p) (crl_entry true buf endp p).
Proof.
  intros Hh H32 Hp. unfold crl_entry.
  pstep. pstep. u32.
  eapply post_weaken; [apply getAsnConstructed32_spec; eapply holds_le; eauto; lia|].
  intros [[rc ilen] p1] HS. cbn in HS. destruct HS as (S1 & S2 & S3 & S4 & S5). destruct (S5 eq_refl) as [_ S6].
  pose proof (mod16_le ilen) as M.
  pstep.
  eapply post_weaken; [apply getSerialNum_spec; eapply holds_le; eauto; lia|].
  intros [serial p2]. cbn [snd]. intros [B1 B2].
  pstep; [pstep|]. b2p.
  pstep. pstep; [lia|].
  pstep; [pstep|].
  pstep. pstep. u32.
  eapply post_weaken; [apply getAsnLength_spec; eapply holds_le; eauto; lia|].
  intros [timelen p3] (C1 & C2 & C3 & C4).
  clear M.
  assert (U1 : u32sub endp p3 = endp - p3) by (apply u32sub_small; lia).
  assert (U2 : u32sub p3 p1 = p3 - p1) by (apply u32sub_small; lia).
  rewrite U1, U2.
  pstep; [pstep|]. b2p.
  pstep. pstep; [lia|].
  pstep; [pstep|].
  pstep; [pstep|]. cbn [andb] in *. b2p.
  pstep.
  assert (E : (ilen + two32 - (p3 - p1) mod two32) mod two32 = ilen - (p3 - p1)) by (apply wrap_sub; lia).
  rewrite E.
  repeat match goal with H : time_import _ _ = _ |- _ => clear H | H : nth_error _ _ = _ |- _ => clear H | H : lenN _ = _ |- _ => clear H end.
  clear E U1 U2 S5 H1.
  assert (B2' : p2 <= p1 + ilen) by (pose proof (mod16_le ilen); lia). clear B2.
  assert (U3 : u32sub (p3 + (ilen - (p3 - p1))) p = p3 + (ilen - (p3 - p1)) - p) by (apply u32sub_small; unfold two32 in *; lia).
  rewrite U3. unfold two16, two32 in *. splits; lia.
Qed.

Lemma crl_entries_spec fuel : forall buf endp p glen acc,
  holds buf endp -> endp < two32 -> p <= endp -> (N.to_nat glen < fuel)%nat ->
  post (fun r => p <= snd r /\ snd r <= endp) (crl_entries fuel true buf endp p glen acc).
Proof.
  induction fuel as [|f IH]; intros buf endp p glen acc Hh H32 Hp Hf; [lia|].
  cbn [crl_entries]. pstep.
  - pstep. cbn [snd]. lia.
  - b2p. pstep.
    eapply post_weaken; [apply crl_entry_spec; auto|].
    intros [[serial p'] used] (A1 & A2 & A3).
    pstep; [pstep|]. b2p.
    eapply post_weaken; [apply IH; auto; lia|].
    intros [l q]. cbn [snd]. lia.
Qed.

Theorem crl_revoked_spec buf endp p glen :
  holds buf endp -> endp < two32 -> p <= endp ->
  post (fun r => p <= snd r /\ snd r <= endp) (crl_revoked buf endp p glen).
Proof. intros. unfold crl_revoked, crl_revoked_gen. apply crl_entries_spec; auto. Qed.

(* the pre-fix loop: an entry SEQUENCE shorter than its serial number + date moves the cursor 4 GB away; the
   next header read is outside the block *)
Definition crl_underflow_witness : bytes :=       (* SEQ(3){ INTEGER 01 02 03 ..., UTCTime "200101000000Z" } SEQ ... *)
  [48; 3; 2; 1; 5; 23; 13; 50;48;48;49;48;49;48;48;48;48;48;48;90; 48; 0; 0; 0].
Theorem crl_revoked_unfixed_witness :
  crl_revoked_unfixed crl_underflow_witness 24 0 24 = Fault /\
  crl_revoked crl_underflow_witness 24 0 24 = Err c_PS_PARSE_FAIL.
Proof. split; vm_compute; reflexivity. Qed.

Example ex_crl_revoked :    (* two entries: serial 05 and serial 00 81 *)
  crl_revoked [48;18; 2;1;5; 23;13;50;48;48;49;48;49;48;48;48;48;48;48;90;  48;19; 2;2;0;129; 23;13;50;48;48;49;48;49;48;48;48;48;48;48;90] 41 0 41
  = Ok ([[5]; [0; 129]], 41).
Proof. vm_compute. reflexivity. Qed.

(* ------------------------------------------------------------------------------------------ base64 *)
Lemma b64_put_spec (Q : bytes * N -> Prop) cap acc z v :
  z < cap -> Q (v :: acc, z + 1) -> post Q (b64_put cap (acc, z) v).
Proof. intros H HQ. unfold b64_put. destruct (N.ltb_spec z cap); [exact HQ|lia]. Qed.

(* writes stay inside the output block of [cap] bytes, for every input *)
Lemma b64_loop_safe inp : forall cap t y g acc z,
  z <= cap -> 1 <= g <= 3 ->
  post (fun _ => True) (b64_loop inp cap t y g (acc, z)).
Proof.
  induction inp as [|x r IH]; intros cap t y g acc z Hz Hg; cbn [b64_loop].
  - pstep; [pstep|pstep]; auto.
  - pstep; [apply IH; auto|].
    pstep; [apply IH; auto|].
    pstep.
    apply post_weaken with (Q := fun cg : N * N => 1 <= snd cg <= 3).
    { pstep.
      - pstep; [pstep|]. b2p. pstep. cbn [snd]. lia.
      - pstep; [pstep|]. pstep. cbn [snd]. lia. }
    intros [c' g'] Hg'. cbn [snd] in Hg'.
    pstep; [|apply IH; auto].
    cbn [snd]. pstep; [pstep|]. b2p.
    pstep. apply b64_put_spec; [lia|].
    pstep.
    apply post_weaken with (Q := fun st : bytes * N => snd st <= z + 2 /\ z + 1 <= snd st /\ (snd st = z + 2 <-> 1 < g')).
    { pstep.
      - b2p. apply b64_put_spec; [lia|]. cbn [snd]. lia.
      - pstep. cbn [snd]. b2p. lia. }
    intros [acc1 z1]. cbn [snd]. intros (A1 & A2 & A3).
    pstep.
    apply post_weaken with (Q := fun st : bytes * N => snd st <= cap).
    { pstep.
      - b2p. apply b64_put_spec; [lia|]. cbn [snd]. lia.
      - pstep. cbn [snd]. b2p. lia. }
    intros [acc2 z2]. cbn [snd]. intros B1.
    apply IH; auto.
Qed.

Theorem b64_decode_safe buf limit len cap :
  holds buf limit -> len <= limit -> post (fun _ => True) (b64_decode buf limit len cap).
Proof.
  intros Hh Hl. unfold b64_decode. pstep. pstep; [lia|].
  apply b64_loop_safe; lia.
Qed.

(* ------------------------------------------------------------------------------------------ PEM framing *)
Lemma cmp_at_safe needle : forall buf limit i,
  holds buf limit -> post (fun _ => True) (cmp_at buf limit i needle).
Proof.
  induction needle as [|n r IH]; intros buf limit i Hh; cbn [cmp_at].
  - pstep. auto.
  - pstep; [pstep; auto|]. b2p. pstep. pstep; [lia|].
    pstep; [apply IH; auto|pstep; auto].
Qed.

Lemma strnstr_from_spec fuel : forall buf limit from needle,
  holds buf limit -> (N.to_nat (limit - from) < fuel)%nat ->
  post (fun r => match r with Some q => from <= q /\ q < limit | None => True end)
       (strnstr_from fuel buf limit from needle).
Proof.
  induction fuel as [|f IH]; intros buf limit from needle Hh Hf; [lia|].
  cbn [strnstr_from]. pstep; [pstep; auto|]. b2p.
  pstep. pstep; [lia|].
  pstep; [pstep; auto|].
  pstep. eapply post_weaken; [apply cmp_at_safe; auto|].
  intros m _. pstep.
  - pstep. lia.
  - eapply post_weaken; [apply IH; auto; lia|].
    intros [q|]; auto. lia.
Qed.

Lemma pem_strnstr_spec buf limit from needle :
  holds buf limit ->
  post (fun r => match r with Some q => from <= q /\ q < limit | None => True end)
       (pem_strnstr buf limit from needle).
Proof. intros. unfold pem_strnstr. apply strnstr_from_spec; auto. Qed.

Lemma skip_while_spec fuel : forall buf limit stop p set,
  holds buf limit -> stop <= limit -> (N.to_nat (stop - p) < fuel)%nat ->
  post (fun q => p <= q /\ (q <= stop \/ q = p)) (skip_while fuel buf limit stop p set).
Proof.
  induction fuel as [|f IH]; intros buf limit stop p set Hh Hs Hf; [lia|].
  cbn [skip_while]. pstep; [pstep; lia|]. b2p.
  pstep. pstep; [lia|].
  pstep.
  - eapply post_weaken; [apply IH; auto; lia|]. intros q; cbv beta; lia.
  - pstep. lia.
Qed.

Definition frame_post (limit from : N) (r : option (N * N * N)) : Prop :=
  match r with
  | Some (start, endp, endTmp) => from <= start /\ start <= endp /\ endp <= endTmp /\ endTmp < limit
  | None => True
  end.

Lemma pem_frame_spec buf limit from label :
  holds buf limit -> post (frame_post limit from) (pem_frame buf limit from label).
Proof.
  intros Hh. unfold pem_frame.
  pstep. eapply post_weaken; [apply pem_strnstr_spec; auto|]. intros [b|] Hb; [|pstep; exact I].
  pstep. eapply post_weaken; [apply pem_strnstr_spec; auto|]. intros [s|] Hs; [|pstep; exact I].
  pstep. eapply post_weaken; [apply pem_strnstr_spec; auto|]. intros [e|] He; [|pstep; exact I].
  pstep. eapply post_weaken; [apply pem_strnstr_spec; auto|]. intros [l|] Hl; [|pstep; exact I].
  pstep. cbn. lia.
Qed.

Definition check_post (limit : N) (r : option (N * N)) : Prop :=
  match r with Some (s, e) => s <= e /\ e < limit | None => True end.

Lemma pem_check_ok_spec buf limit pemType :
  holds buf limit -> post (check_post limit) (pem_check_ok buf limit pemType).
Proof.
  intros Hh. unfold pem_check_ok.
  assert (Hfin : forall allowed label se, frame_post limit 0 (Some se) ->
     post (check_post limit)
      (let '(start, endp, _) := se in
       if negb allowed then Ok None else
       let start0 := start + lenN label in
       if endp <? start0 then Ok None else
       do s <- skip_while (S (N.to_nat limit)) buf limit endp start0 [13; 10];
       Ok (Some (s, endp)))).
  { intros allowed label [[start endp] endTmp] (A1 & A2 & A3 & A4).
    pstep; [pstep; exact I|]. pstep.
    pstep; [pstep; exact I|]. b2p.
    pstep. eapply post_weaken; [apply skip_while_spec; auto; lia|].
    intros q Hq; cbv beta in Hq. pstep. cbn [check_post]. lia. }
  pstep. eapply post_weaken; [apply pem_frame_spec; auto|]. intros [se|] H1.
  { apply Hfin; auto. }
  pstep. eapply post_weaken; [apply pem_frame_spec; auto|]. intros [se|] H2.
  { apply Hfin; auto. }
  pstep. eapply post_weaken; [apply pem_frame_spec; auto|]. intros [se|] H3.
  { apply Hfin; auto. }
  pstep. exact I.
Qed.

Theorem pem_decode_safe buf limit :
  holds buf limit -> post (fun _ => True) (pem_decode buf limit).
Proof.
  intros Hh. unfold pem_decode.
  pstep. eapply post_weaken; [apply pem_check_ok_spec; auto|].
  intros [[start endp]|] Hc; [|pstep].
  cbn in Hc.
  pstep. eapply post_weaken; [apply pem_strnstr_spec; auto|]. intros p1 _.
  pstep.
  apply post_weaken with (Q := fun _ : bool => True).
  { destruct p1; [|pstep; auto].
    pstep. eapply post_weaken; [apply pem_strnstr_spec; auto|]. intros p2 _. pstep. auto. }
  intros enc _. pstep; [pstep|].
  pose proof (mod16_le (endp - start)).
  pstep. pstep; [lia|].
  apply b64_loop_safe; lia.
Qed.

(* encrypted-PEM headers *)
Lemma hex_to_bin_spec n : forall buf limit p acc,
  holds buf limit -> p + 2 * N.of_nat n <= limit ->
  post (fun r => match r with Some b => lenN b = lenN acc + N.of_nat n | None => True end)
       (hex_to_bin n buf limit p acc).
Proof.
  induction n as [|k IH]; intros buf limit p acc Hh Hp; cbn [hex_to_bin].
  - cbn. unfold lenN. rewrite rev_length. lia.
  - pstep. pstep; [lia|].
    destruct (hex_digit b) as [hv|]; [|cbn; exact I].
    pstep. pstep; [lia|].
    destruct (hex_digit b0) as [lv|]; [|cbn; exact I].
    eapply post_weaken; [apply IH; auto; lia|].
    intros [bb|]; auto. unfold lenN. cbn [length]. lia.
Qed.

Definition pempw_post (r : N * bytes * bytes) : Prop :=
  let '(k, iv, out) := r in
  (k = 0 /\ iv = []) \/ (k = 1 /\ lenN iv = 8 /\ lenN out mod 8 = 0) \/ (k = 2 /\ lenN iv = 16 /\ lenN out mod 16 = 0).

Theorem pem_decode_pw_spec haspw buf limit :
  holds buf limit -> post pempw_post (pem_decode_pw haspw buf limit).
Proof.
  intros Hh. unfold pem_decode_pw.
  pstep. eapply post_weaken; [apply pem_check_ok_spec; auto|].
  intros [[start0 endp]|] Hc; [|pstep].
  cbn in Hc.
  pstep. eapply post_weaken; [apply pem_strnstr_spec; auto|]. intros p1 _.
  pstep.
  apply post_weaken with (Q := fun _ : bool => True).
  { destruct p1; [|pstep; auto].
    pstep. eapply post_weaken; [apply pem_strnstr_spec; auto|]. intros p2 _. pstep. auto. }
  intros enc _. pstep.
  - pose proof (mod16_le (endp - start0)).
    pstep. pstep; [lia|].
    pstep. eapply post_weaken; [apply b64_loop_safe; lia|]. intros out _.
    pstep. unfold pempw_post. left. auto.
  - pstep; [pstep|].
    pstep. eapply post_weaken; [apply pem_strnstr_spec; auto|]. intros d Hd.
    pstep.
    apply post_weaken with (Q := fun h : option (N * N * N) =>
       match h with Some (k, s, ivl) => (k = 1 /\ ivl = 8) \/ (k = 2 /\ ivl = 16) | None => True end).
    { destruct d as [q|].
      - pstep. left. auto.
      - pstep. eapply post_weaken; [apply pem_strnstr_spec; auto|]. intros [q|] _; pstep; auto. }
    intros [[[kind s] ivlen]|] Hk; [|pstep].
    pstep; [pstep|]. b2p.
    pstep.
    apply post_weaken with (Q := fun r : option bytes => match r with Some b => lenN b = ivlen | None => True end).
    { eapply post_weaken; [apply hex_to_bin_spec; auto|].
      - rewrite N2Nat.id. lia.
      - intros [bb|]; auto. cbv beta. rewrite N2Nat.id. change (lenN []) with 0. lia. }
    intros [ivb|] Hiv; [|pstep].
    pstep; [pstep|]. b2p.
    pose proof (mod16_le (endp - (s + 2 * ivlen))).
    pstep. pstep; [lia|].
    pstep. eapply post_weaken; [apply b64_loop_safe; lia|]. intros out _.
    pstep; [pstep|]. b2p.
    pstep. unfold pempw_post. right.
    destruct Hk as [[-> ->]|[-> ->]]; [left|right]; auto.
Qed.

Lemma pem_list_loop_spec fuel : forall buf limit pos acc,
  holds buf limit -> (N.to_nat (limit - pos) < fuel)%nat ->
  post (fun _ => True) (pem_list_loop fuel buf limit pos acc).
Proof.
  induction fuel as [|f IH]; intros buf limit pos acc Hh Hf; [lia|].
  cbn [pem_list_loop]. pstep; [pstep; auto|]. b2p.
  pstep. eapply post_weaken; [apply pem_frame_spec; auto|].
  intros [[[start0 endp] endTmp]|] Hfr; [|pstep].
  cbn in Hfr. destruct Hfr as (A1 & A2 & A3 & A4).
  pstep; [pstep|]. b2p.
  pstep. eapply post_weaken; [apply skip_while_spec; auto; lia|].
  intros nxt Hn.
  pose proof (mod16_le (endp - (start0 + 16))).
  pstep. pstep; [lia|].
  pose proof (b64_loop_safe (sub_bytes buf (start0 + 16) ((endp - (start0 + 16)) mod two16))
                ((endp - (start0 + 16)) mod two16) 0 0 3 [] 0) as Hb.
  destruct (b64_loop _ _ _ _ _ _) as [item|e| |].
  - cbv beta in Hn. apply IH; auto. lia.
  - exact I.
  - apply Hb; lia.
  - apply Hb; lia.
Qed.

Theorem pem_cert_list_safe buf limit :
  holds buf limit -> post (fun _ => True) (pem_cert_list buf limit).
Proof.
  intros Hh. unfold pem_cert_list.
  pose proof (pem_list_loop_spec (S (N.to_nat limit)) buf limit 0 [] Hh) as H.
  destruct (pem_list_loop _ _ _ _ _) as [[|x l]|e| |]; cbn in *; auto; apply H; lia.
Qed.

(* ------------------------------------------------------------------------------------------ base64 round trip *)
Lemma forall_lt64 (P : N -> bool) :
  forallb P (map N.of_nat (seq 0 64)) = true -> forall v, v < 64 -> P v = true.
Proof.
  intros H v Hv. rewrite forallb_forall in H. apply H.
  apply in_map_iff. exists (N.to_nat v). split; [lia|]. apply in_seq. lia.
Qed.

Lemma b64_char_facts v : v < 64 ->
  (b64_max_index <? b64_char v) = false /\ b64_lookup (b64_char v) = v.
Proof.
  intros Hv.
  pose proof (forall_lt64 (fun v => negb (b64_max_index <? b64_char v) && (b64_lookup (b64_char v) =? v))) as H.
  specialize (H eq_refl v Hv). cbv beta in H. b2p. split; [apply N.ltb_ge; assumption|assumption].
Qed.

(* one alphabet character with g = 3 *)
Lemma b64_step_char v r cap t y st : v < 64 ->
  b64_loop (b64_char v :: r) cap t y 3 st =
  (let t' := (t * 64 + v) mod two32 in
   if y + 1 =? 4 then
     if cap <? snd st + 3 then Err c_PS_LIMIT_FAIL else
     do st <- b64_put cap st ((t' / 65536) mod 256);
     do st <- b64_put cap st ((t' / 256) mod 256);
     do st <- b64_put cap st (t' mod 256);
     b64_loop r cap 0 0 3 st
   else b64_loop r cap t' (y + 1) 3 st).
Proof.
  intros Hv. destruct (b64_char_facts v Hv) as [E1 E2].
  cbn [b64_loop]. rewrite E1, E2.
  assert (E3 : (v =? 255) = false) by lia. assert (E4 : (v =? 254) = false) by lia.
  rewrite E3, E4. reflexivity.
Qed.

Lemma b64_step_pad r cap t y g st : 1 < g ->
  b64_loop (61 :: r) cap t y g st =
  (let t' := (t * 64) mod two32 in
   if y + 1 =? 4 then
     if cap <? snd st + (g - 1) then Err c_PS_LIMIT_FAIL else
     do st <- b64_put cap st ((t' / 65536) mod 256);
     do st <- (if 1 <? g - 1 then b64_put cap st ((t' / 256) mod 256) else Ok st);
     do st <- (if 2 <? g - 1 then b64_put cap st (t' mod 256) else Ok st);
     b64_loop r cap 0 0 (g - 1) st
   else b64_loop r cap t' (y + 1) (g - 1) st).
Proof.
  intros Hg. cbn [b64_loop].
  change (b64_max_index <? 61) with false. change (b64_lookup 61) with 254.
  change (254 =? 255) with false. change (254 =? 254) with true. cbv iota.
  assert (E : (g <=? 1) = false) by lia. rewrite E. cbn [bind]. rewrite N.add_0_r. reflexivity.
Qed.

Lemma put_ok cap acc z v : z < cap -> b64_put cap (acc, z) v = Ok (v :: acc, z + 1).
Proof. intros. unfold b64_put. destruct (N.ltb_spec z cap); [reflexivity|lia]. Qed.

Lemma b64_group a b c r cap acc z :
  a < 256 -> b < 256 -> c < 256 -> z + 3 <= cap ->
  b64_loop (b64_char (a / 4) :: b64_char ((a mod 4) * 16 + b / 16) :: b64_char ((b mod 16) * 4 + c / 64) :: b64_char (c mod 64) :: r)
           cap 0 0 3 (acc, z)
  = b64_loop r cap 0 0 3 (c :: b :: a :: acc, z + 3).
Proof.
  intros Ha Hb Hc Hz.
  rewrite b64_step_char by lia. cbv zeta. change (0 + 1 =? 4) with false. cbv iota.
  rewrite b64_step_char by lia. cbv zeta. change (0 + 1 + 1 =? 4) with false. cbv iota.
  rewrite b64_step_char by lia. cbv zeta. change (0 + 1 + 1 + 1 =? 4) with false. cbv iota.
  rewrite b64_step_char by lia. cbv zeta. change (0 + 1 + 1 + 1 + 1 =? 4) with true. cbv iota.
  cbn [snd]. assert (E : (cap <? z + 3) = false) by lia. rewrite E.
  set (t := ((((0 * 64 + a / 4) mod two32 * 64 + (a mod 4 * 16 + b / 16)) mod two32 * 64 + (b mod 16 * 4 + c / 64)) mod two32 * 64 + c mod 64) mod two32).
  assert (T : t = a * 65536 + b * 256 + c) by (subst t; unfold two32; lia).
  clearbody t.
  assert (T1 : (t / 65536) mod 256 = a) by lia.
  assert (T2 : (t / 256) mod 256 = b) by lia.
  assert (T3 : t mod 256 = c) by lia.
  rewrite T1, T2, T3.
  rewrite put_ok by lia. cbn [bind]. rewrite put_ok by lia. cbn [bind]. rewrite put_ok by lia. cbn [bind].
  replace (z + 1 + 1 + 1) with (z + 3) by lia. reflexivity.
Qed.

Lemma b64_tail1 a cap acc z :
  a < 256 -> z + 1 <= cap ->
  b64_loop [b64_char (a / 4); b64_char ((a mod 4) * 16); 61; 61] cap 0 0 3 (acc, z) = Ok (rev (a :: acc)).
Proof.
  intros Ha Hz.
  rewrite b64_step_char by lia. cbv zeta. change (0 + 1 =? 4) with false. cbv iota.
  rewrite b64_step_char by lia. cbv zeta. change (0 + 1 + 1 =? 4) with false. cbv iota.
  rewrite b64_step_pad by lia. cbv zeta. change (0 + 1 + 1 + 1 =? 4) with false. cbv iota.
  rewrite b64_step_pad by lia. cbv zeta. change (0 + 1 + 1 + 1 + 1 =? 4) with true. cbv iota.
  change (3 - 1 - 1) with 1. change (3 - 1) with 2. change (1 <? 1) with false. change (2 <? 1) with false. cbv iota.
  cbn [snd]. assert (E : (cap <? z + 1) = false) by lia. rewrite E.
  set (t := ((((0 * 64 + a / 4) mod two32 * 64 + a mod 4 * 16) mod two32 * 64) mod two32 * 64) mod two32).
  assert (T : t = a * 65536) by (subst t; unfold two32; lia).
  clearbody t.
  assert (T1 : (t / 65536) mod 256 = a) by lia.
  rewrite T1. rewrite put_ok by lia. cbn [bind b64_loop fst]. reflexivity.
Qed.

Lemma b64_tail2 a b cap acc z :
  a < 256 -> b < 256 -> z + 2 <= cap ->
  b64_loop [b64_char (a / 4); b64_char ((a mod 4) * 16 + b / 16); b64_char ((b mod 16) * 4); 61] cap 0 0 3 (acc, z)
  = Ok (rev (b :: a :: acc)).
Proof.
  intros Ha Hb Hz.
  rewrite b64_step_char by lia. cbv zeta. change (0 + 1 =? 4) with false. cbv iota.
  rewrite b64_step_char by lia. cbv zeta. change (0 + 1 + 1 =? 4) with false. cbv iota.
  rewrite b64_step_char by lia. cbv zeta. change (0 + 1 + 1 + 1 =? 4) with false. cbv iota.
  rewrite b64_step_pad by lia. cbv zeta. change (0 + 1 + 1 + 1 + 1 =? 4) with true. cbv iota.
  change (3 - 1) with 2. change (1 <? 2) with true. change (2 <? 2) with false. cbv iota.
  cbn [snd]. assert (E : (cap <? z + 2) = false) by lia. rewrite E.
  set (t := ((((0 * 64 + a / 4) mod two32 * 64 + (a mod 4 * 16 + b / 16)) mod two32 * 64 + b mod 16 * 4) mod two32 * 64) mod two32).
  assert (T : t = a * 65536 + b * 256) by (subst t; unfold two32; lia).
  clearbody t.
  assert (T1 : (t / 65536) mod 256 = a) by lia.
  assert (T2 : (t / 256) mod 256 = b) by lia.
  rewrite T1, T2. rewrite put_ok by lia. cbn [bind]. rewrite put_ok by lia. cbn [bind b64_loop fst]. reflexivity.
Qed.

Lemma list_ind3 (P : bytes -> Prop) :
  P [] -> (forall a, P [a]) -> (forall a b, P [a; b]) ->
  (forall a b c r, P r -> P (a :: b :: c :: r)) -> forall l, P l.
Proof.
  intros H0 H1 H2 H3.
  assert (forall n l, (length l <= n)%nat -> P l) as H.
  { induction n as [|n IH]; intros l Hl.
    - destruct l; [auto|cbn in Hl; lia].
    - destruct l as [|a [|b [|c r]]]; auto. apply H3. apply IH. cbn in Hl. lia. }
  intros l. apply (H (length l)). lia.
Qed.

Lemma b64_roundtrip_gen data : forall cap acc z,
  is_bytes data -> z + lenN data <= cap ->
  b64_loop (b64_encode data) cap 0 0 3 (acc, z) = Ok (rev acc ++ data).
Proof.
  induction data as [| a | a b | a b c r IH] using list_ind3; intros cap acc z Hb Hz.
  - cbn. rewrite app_nil_r. reflexivity.
  - inversion Hb; subst. cbn [b64_encode]. rewrite b64_tail1; auto.
    all: try (unfold lenN in Hz; cbn in Hz; lia).
  - inversion Hb as [|? ? Ha Hb']; subst. inversion Hb'; subst.
    cbn [b64_encode]. rewrite b64_tail2; auto.
    all: try (unfold lenN in Hz; cbn in Hz; lia).
    all: try (cbn [rev]; rewrite <- !app_assoc; reflexivity).
  - inversion Hb as [|? ? Ha Hb1]; subst. inversion Hb1 as [|? ? Hb2 Hb3]; subst. inversion Hb3 as [|? ? Hc Hr]; subst.
    cbn [b64_encode]. unfold lenN in Hz. cbn [length] in Hz.
    rewrite b64_group by (auto; lia).
    rewrite IH; auto.
    all: try (unfold lenN; lia).
    all: try (cbn [rev]; rewrite <- !app_assoc; reflexivity).
Qed.

Theorem b64_roundtrip data cap :
  is_bytes data -> lenN data <= cap ->
  b64_loop (b64_encode data) cap 0 0 3 ([], 0) = Ok data.
Proof. intros. rewrite b64_roundtrip_gen; auto. Qed.

(* ------------------------------------------------------------------------------------------ packaged statements *)
(* every modelled asn1.c primitive, on every byte string, inside any block that really holds the
   [size] bytes it was told about: never reads outside, never loops *)
Theorem prim_no_fault buf c size indef chk :
  holds buf (c + size) -> c + size < two32 ->
  safe (getAsnLength32 buf c size indef) /\ safe (getAsnLength buf c size) /\
  safe (getAsnSequence32 buf c size indef) /\ safe (getAsnSet32 buf c size indef) /\
  safe (getAsnSequence buf c size) /\ safe (getAsnSet buf c size) /\
  safe (getAsnInteger buf c size) /\ safe (getAsnEnumerated buf c size) /\
  safe (getAsnOID buf c size chk) /\ safe (getAsnAlgorithmIdentifier buf c size).
Proof.
  intros Hh H32. splits; eapply post_safe.
  - apply getAsnLength32_spec; auto.
  - apply getAsnLength_spec; auto.
  - apply getAsnConstructed32_spec; auto.
  - apply getAsnConstructed32_spec; auto.
  - apply getAsnSequence_spec; auto.
  - apply getAsnSet_spec; auto.
  - apply getAsnIntLike_spec; auto.
  - apply getAsnIntLike_spec; auto.
  - apply getAsnOID_spec; auto.
  - apply getAsnAlgorithmIdentifier_spec; auto.
Qed.

Lemma post_ok {A} (Q : A -> Prop) r a : post Q r -> r = Ok a -> Q a.
Proof. intros H ->. exact H. Qed.

Theorem prim_progress buf c size indef chk :
  holds buf (c + size) -> c + size < two32 ->
  (forall rc len c', getAsnLength32 buf c size indef = Ok (rc, len, c') -> progress c size c') /\
  (forall len c', getAsnLength buf c size = Ok (len, c') -> progress c size c') /\
  (forall rc len c', getAsnSequence32 buf c size indef = Ok (rc, len, c') -> progress c size c') /\
  (forall rc len c', getAsnSet32 buf c size indef = Ok (rc, len, c') -> progress c size c') /\
  (forall len c', getAsnSequence buf c size = Ok (len, c') -> progress c size c') /\
  (forall len c', getAsnSet buf c size = Ok (len, c') -> progress c size c') /\
  (forall v c', getAsnInteger buf c size = Ok (v, c') -> progress c size c') /\
  (forall v c', getAsnEnumerated buf c size = Ok (v, c') -> progress c size c') /\
  (forall oi plen c', getAsnOID buf c size chk = Ok (oi, plen, c') -> progress c size c') /\
  (forall oi plen c', getAsnAlgorithmIdentifier buf c size = Ok (oi, plen, c') -> progress c size c').
Proof.
  intros Hh H32. unfold progress. splits; intros.
  - pose proof (post_ok _ _ _ (getAsnLength32_spec buf c size indef Hh) H) as P. cbn in P. lia.
  - pose proof (post_ok _ _ _ (getAsnLength_spec buf c size Hh) H) as P. cbn in P. lia.
  - pose proof (post_ok _ _ _ (getAsnConstructed32_spec false buf c size indef Hh) H) as P. cbn in P. lia.
  - pose proof (post_ok _ _ _ (getAsnConstructed32_spec true buf c size indef Hh) H) as P. cbn in P. lia.
  - pose proof (post_ok _ _ _ (getAsnSequence_spec buf c size Hh) H) as P. cbn in P. lia.
  - pose proof (post_ok _ _ _ (getAsnSet_spec buf c size Hh) H) as P. cbn in P. lia.
  - pose proof (post_ok _ _ _ (getAsnIntLike_spec _ buf c size Hh H32) H) as P. cbn in P. lia.
  - pose proof (post_ok _ _ _ (getAsnIntLike_spec _ buf c size Hh H32) H) as P. cbn in P. lia.
  - pose proof (post_ok _ _ _ (getAsnOID_spec buf c size chk Hh) H) as P. cbn in P. lia.
  - pose proof (post_ok _ _ _ (getAsnAlgorithmIdentifier_spec buf c size Hh) H) as P. cbn in P. lia.
Qed.

(* the 16-bit narrowing wrappers: whatever length they return lies inside the remaining block *)
Theorem len16_inside buf c size :
  holds buf (c + size) ->
  (forall len c', getAsnLength buf c size = Ok (len, c') -> inside c size len c' /\ len < 65536) /\
  (forall len c', getAsnSequence buf c size = Ok (len, c') -> inside c size len c' /\ len < 65536) /\
  (forall len c', getAsnSet buf c size = Ok (len, c') -> inside c size len c' /\ len < 65536).
Proof.
  intros Hh. unfold inside. splits; intros.
  - pose proof (post_ok _ _ _ (getAsnLength_spec buf c size Hh) H) as P. cbn in P. unfold two16 in P. lia.
  - pose proof (post_ok _ _ _ (getAsnSequence_spec buf c size Hh) H) as P. cbn in P. unfold two16 in P. lia.
  - pose proof (post_ok _ _ _ (getAsnSet_spec buf c size Hh) H) as P. cbn in P. unfold two16 in P. lia.
Qed.

(* ... and they are exact (no narrowing happens) whenever the caller's size fits 16 bits, which is
   the case for every call made while parsing one X.509 certificate (x509.c 720: certificates
   longer than 0xFFFF are refused; getExplicitExtensions takes a psSize_t) *)
Theorem len16_exact buf c size len c' :
  holds buf (c + size) -> size < 65536 ->
  getAsnLength buf c size = Ok (len, c') -> getAsnLength32 buf c size false = Ok (0%Z, len, c').
Proof.
  intros Hh Hs. unfold getAsnLength.
  pose proof (getAsnLength32_spec buf c size false Hh) as P.
  destruct (getAsnLength32 buf c size false) as [[[rc l] q]|e| |]; cbn [bind]; try discriminate.
  cbn in P. destruct P as (P1 & P2 & P3 & P4 & P5 & P6). destruct (P5 eq_refl) as [-> P7].
  intros E. inversion E; subst. rewrite N.mod_small; [reflexivity|unfold two16; lia].
Qed.

(* the narrowing is real for larger sizes: a DER length of 0x10005 is reported as 5 *)
Definition misframe_witness : bytes := [132; 0; 1; 0; 5] ++ repeat 0 (N.to_nat 65541).
Theorem len16_misframe_witness :
  getAsnLength32 misframe_witness 0 (lenN misframe_witness) false = Ok (0%Z, 65541, 5) /\
  getAsnLength misframe_witness 0 (lenN misframe_witness) = Ok (5, 5).
Proof. split; vm_compute; reflexivity. Qed.

(* the pre-fix code (terminating_nils initialised once): a later name is left unterminated and its
   length is cut by one *)
Definition gn_witness : bytes := [130; 2; 97; 0; 130; 2; 98; 99].      (* dNSName "a\0", dNSName "bc" *)
Theorem generalnames_unfixed_witness :
  exists names p, parse_general_names_unfixed gn_witness 8 0 8 (-1)%Z = Ok (names, p) /\
                  nth_error names 1 = Some (mkGname 2 [98; 99] 1 []).
Proof. eexists. eexists. split; vm_compute; reflexivity. Qed.

Lemma gn_witness_not_clean : ~ gn_clean (mkGname 2 [98; 99] 1 []).
Proof.
  intros [data [E _]]. cbn in E.
  assert (L : length (data ++ [0]) = 2%nat) by (rewrite <- E; reflexivity).
  rewrite app_length in L. cbn in L.
  destruct data as [|x [|y r]]; cbn in L; try lia.
  cbn in E. inversion E.
Qed.

(* the pre-fix getAsnEnumerated: ENUMERATED with an empty value at the end of the block *)
Theorem enumerated_unfixed_witness : getAsnEnumerated_unfixed [10; 0] 0 2 = Fault.
Proof. vm_compute. reflexivity. Qed.

(* ---- non-vacuity: the hypotheses of the theorems are satisfiable and the functions do accept input *)
Example ex_len32 : getAsnLength32 [130; 1; 0] 0 3 true = Ok (0%Z, 256, 3).
Proof. vm_compute. reflexivity. Qed.
Example ex_int : getAsnInteger [2; 2; 255; 127] 0 4 = Ok ((-129)%Z, 4).
Proof. vm_compute. reflexivity. Qed.
Example ex_gn : exists names, parse_general_names gn_witness 8 0 8 (-1)%Z = Ok (names, 8) /\
   map g_len names = [1; 2] /\ map g_buf names = [[97; 0]; [98; 99; 0]].
Proof. eexists. split; [vm_compute; reflexivity|]. split; reflexivity. Qed.
Example ex_dn :   (* SEQUENCE { SET { SEQUENCE { OID 2.5.4.3, UTF8String "x" } } } *)
  exists l, dn_attributes [48; 12; 49; 10; 48; 8; 6; 3; 85; 4; 3; 12; 1; 120] 0 14 = Ok (l, 14) /\
            map d_str l = [[120; 0; 0]] /\ map d_len l = [3].
Proof. eexists. split; [vm_compute; reflexivity|]. split; reflexivity. Qed.
Example ex_b64 : b64_encode [77; 97; 110; 33] = [84; 87; 70; 117; 73; 81; 61; 61] /\
                 b64_decode [84; 87; 70; 117; 73; 81; 61; 61] 8 8 4 = Ok [77; 97; 110; 33].
Proof. split; vm_compute; reflexivity. Qed.

(* ------------------------------------------------------------------------------------------ statements used verbatim by Properties_C09.v *)
Lemma p09_taglen_unsafe_partial : forall buf limit c,
  holds buf limit -> c + 5 <= limit -> safe (getAsnTagLenUnsafe buf limit c).
Proof. intros. eapply post_safe. apply getAsnTagLenUnsafe_spec; auto. Qed.

Lemma p09_len16_exact_refuted : exists buf,
  getAsnLength32 buf 0 (lenN buf) false = Ok (0%Z, 65541, 5) /\ getAsnLength buf 0 (lenN buf) = Ok (5, 5).
Proof. exists misframe_witness. exact len16_misframe_witness. Qed.

Lemma p09_generalnames_clean : forall buf extEnd p len limit,
  holds buf extEnd -> extEnd < two32 -> p + len <= extEnd ->
  safe (parse_general_names buf extEnd p len limit) /\
  (forall names p', parse_general_names buf extEnd p len limit = Ok (names, p') ->
     Forall (fun g => exists data : bytes,
               g_buf g = data ++ [0] /\ g_len g = lenN data /\
               (is_ia5_kind (g_id g) = true -> Forall (fun b => 32 <= b <= 126) data)) names).
Proof.
  intros buf extEnd p len limit H1 H2 H3.
  pose proof (parse_general_names_spec buf extEnd p len limit H1 H2 H3) as P.
  split; [eapply post_safe; exact P|]. intros names p' E. rewrite E in P. exact P.
Qed.

Lemma p09_generalnames_clean_unfixed_refuted : exists buf names p g,
  parse_general_names_unfixed buf (lenN buf) 0 (lenN buf) (-1)%Z = Ok (names, p) /\ In g names /\ ~ gn_clean g.
Proof.
  destruct generalnames_unfixed_witness as [names [p [E N]]].
  exists gn_witness, names, p, (mkGname 2 [98; 99] 1 []).
  split; [exact E|]. split; [eapply nth_error_In; exact N|exact gn_witness_not_clean].
Qed.

Lemma p09_dn_strings_terminated : forall buf c len,
  holds buf (c + len) -> c + len < two32 -> len < 65536 ->
  safe (dn_attributes buf c len) /\
  (forall attrs p', dn_attributes buf c len = Ok (attrs, p') ->
     c < p' /\ p' <= c + len /\
     Forall (fun a => exists data : bytes,
               d_str a = data ++ [0; 0] /\ d_len a = lenN data + 2 /\ d_len a < 65536 /\
               (dn_check_hidden (d_type a) = true -> Forall (fun b => b <> 0) data)) attrs).
Proof.
  intros buf c len H1 H2 H3.
  pose proof (dn_attributes_spec buf c len H1 H2 H3) as P.
  split; [eapply post_safe; exact P|]. intros attrs p' E. rewrite E in P. cbn in P. tauto.
Qed.

Lemma p09_enumerated_unfixed_refuted : exists buf, getAsnEnumerated_unfixed buf 0 (lenN buf) = Fault.
Proof. exists [10; 0]. exact enumerated_unfixed_witness. Qed.

Lemma p09_b64_no_fault : forall buf limit len cap,
  holds buf limit -> len <= limit -> safe (b64_decode buf limit len cap).
Proof. intros. eapply post_safe. apply b64_decode_safe; auto. Qed.

Lemma p09_b64_roundtrip : forall data cap,
  Forall (fun b => b < 256) data -> lenN data <= cap ->
  b64_decode (b64_encode data) (lenN (b64_encode data)) (lenN (b64_encode data)) cap = Ok data.
Proof.
  intros data cap H1 H2. unfold b64_decode, slice.
  rewrite N.add_0_l, N.leb_refl. unfold sub_bytes, lenN. cbn [N.to_nat skipn].
  rewrite Nat2N.id, firstn_all. cbn [bind]. apply b64_roundtrip; auto.
Qed.

Lemma p09_pem_no_fault : forall buf limit pemType,
  holds buf limit ->
  safe (pem_check_ok buf limit pemType) /\ safe (pem_decode buf limit) /\ safe (pem_cert_list buf limit).
Proof.
  intros buf limit pemType H. splits; eapply post_safe.
  - apply pem_check_ok_spec; auto.
  - apply pem_decode_safe; auto.
  - apply pem_cert_list_safe; auto.
Qed.

Lemma p09_oid_copy_bounded : forall buf limit p derlen,
  holds buf limit -> p + derlen <= limit ->
  safe (asnCopyOid buf limit p derlen) /\
  (forall ret oid, asnCopyOid buf limit p derlen = Ok (ret, oid) ->
     lenN oid <= n_MAX_OID_BYTES /\ ret < 256 /\
     (0 < ret -> 1 <= derlen /\ derlen + 2 <= n_MAX_OID_BYTES /\ oid = [n_ASN_OID; derlen] ++ sub_bytes buf p derlen)).
Proof.
  intros buf limit p derlen H1 H2.
  pose proof (asnCopyOid_spec buf limit p derlen H1 H2) as P.
  split; [eapply post_safe; exact P|]. intros ret oid E. rewrite E in P. exact P.
Qed.

Example ex_oidcopy : asnCopyOid [85; 29; 17] 3 0 3 = Ok (4, [6; 3; 85; 29; 17]) /\
                     asnCopyOid (repeat 3 (N.to_nat 260)) 260 0 260 = Ok (0, [0; 0]).
Proof. split; vm_compute; reflexivity. Qed.

Lemma p09_pem_encrypted_no_fault : forall haspw buf limit,
  holds buf limit ->
  safe (pem_decode_pw haspw buf limit) /\
  (forall k iv out, pem_decode_pw haspw buf limit = Ok (k, iv, out) ->
     (k = 0 /\ iv = []) \/ (k = 1 /\ lenN iv = 8 /\ lenN out mod 8 = 0) \/ (k = 2 /\ lenN iv = 16 /\ lenN out mod 16 = 0)).
Proof.
  intros haspw buf limit H.
  pose proof (pem_decode_pw_spec haspw buf limit H) as P.
  split; [eapply post_safe; exact P|]. intros k iv out E. rewrite E in P. exact P.
Qed.

Lemma p09_crl_revoked_no_fault : forall buf endp p glen,
  holds buf endp -> endp < two32 -> p <= endp ->
  safe (crl_revoked buf endp p glen) /\
  (forall serials p', crl_revoked buf endp p glen = Ok (serials, p') -> p <= p' /\ p' <= endp).
Proof.
  intros buf endp p glen H1 H2 H3.
  pose proof (crl_revoked_spec buf endp p glen H1 H2 H3) as P.
  split; [eapply post_safe; exact P|]. intros serials p' E. rewrite E in P. exact P.
Qed.

Lemma p09_crl_revoked_unfixed_refuted : exists buf,
  crl_revoked_unfixed buf (lenN buf) 0 (lenN buf) = Fault /\ crl_revoked buf (lenN buf) 0 (lenN buf) = Err c_PS_PARSE_FAIL.
Proof. exists crl_underflow_witness. exact crl_revoked_unfixed_witness. Qed.
