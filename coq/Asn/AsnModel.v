(* C09 - executable, code-shaped models of the credential-parsing primitives of /repo.

   Discipline (DESIGN.md 2.3): a C buffer is an immutable [list N] of bytes, a C pointer is an offset
   (N), the end pointer the function was told about is an explicit [limit]; EVERY read goes through
   [rd buf limit i] / [slice buf limit p n], whose out-of-range result is the distinguished [Fault].
   Loops run on explicit fuel; running out of it is the distinct result [OutOfFuel].
   Error returns of the C code are [Err rc] with the C return code.

   No proofs in this file.  Sources modelled (line numbers of the pinned tree):
     crypto/keyformat/asn1.c      getAsnTagLenUnsafe 39-73, getAsnLength 83-94, getAsnLength32 96-181,
                                  getAsnSequence32 190-218, getAsnSequence 220-231, getAsnSet32 238-258,
                                  getAsnSet 260-271, getAsnEnumerated 276-331, getAsnInteger 337-397,
                                  getAsnAlgorithmIdentifier 403-425, asnCopyOid 516-552, getAsnOID 719-802
     crypto/keyformat/x509.c      parseGeneralNames 2921-3192, psX509GetDNAttributes 5285-5828
     crypto/keyformat/base64.c    psBase64decode 67-139 (table from Gen/B64Map.v)
     crypto/keyformat/pem_decode_mem.c  psPemCheckOk 80-158, psPemDecode (unencrypted path) 160-310,
                                  psPemCertBufToList 313-391
   The model is of the code WITH the pending fixes C09-*.patch applied; [parse_general_names] keeps the
   pre-fix behaviour available through its [reset] argument so that the defect stays stated. *)
From MV Require Import Base.Bytes Gen.Consts Gen.ConstsAsn Gen.B64Map.
Local Open Scope N_scope.

(* ------------------------------------------------------------------------------------------ results *)
Inductive res (A : Type) : Type :=
| Ok (a : A)
| Err (rc : Z)          (* the C function returned this (negative) code *)
| Fault                 (* a read or write outside the buffer it was given *)
| OutOfFuel.
Arguments Ok {A} a. Arguments Err {A} rc. Arguments Fault {A}. Arguments OutOfFuel {A}.

Definition bind {A B : Type} (r : res A) (f : A -> res B) : res B :=
  match r with Ok a => f a | Err e => Err e | Fault => Fault | OutOfFuel => OutOfFuel end.
Notation "'do' x <- r ; k" := (bind r (fun x => k)) (at level 200, x pattern, r at level 100, k at level 200).

(* any C error of [r] is replaced by [rc] (the caller's `if (f(...) < 0) return rc;`) *)
Definition remap {A : Type} (rc : Z) (r : res A) : res A :=
  match r with Err _ => Err rc | x => x end.

Definition lenN (b : bytes) : N := N.of_nat (length b).

(* the only ways the models look at a buffer *)
Definition rd (buf : bytes) (limit i : N) : res N :=
  if i <? limit then
    (if i <? lenN buf then          (* an offset beyond the block is a Fault whatever [limit] claims *)
       match nth_error buf (N.to_nat i) with Some b => Ok b | None => Fault end
     else Fault)
  else Fault.

Definition sub_bytes (buf : bytes) (p n : N) : bytes := firstn (N.to_nat n) (skipn (N.to_nat p) buf).

(* n bytes starting at p (a Memcpy source, or a `for (c = p; c < p + n; c++) *c` scan) *)
Definition slice (buf : bytes) (limit p n : N) : res bytes :=
  if p + n <=? limit then
    (if p + n <=? lenN buf then Ok (sub_bytes buf p n) else Fault)
  else Fault.

Definition two16 : N := 65536.
Definition two32 : N := 4294967296.
(* (uint32) (a - b) for pointers a, b into the same buffer *)
Definition u32sub (a b : N) : N := (a + two32 - b mod two32) mod two32.
(* big-endian value of a byte string *)
Definition be_val (l : bytes) : N := fold_left (fun acc b => acc * 256 + b) l 0.

(* ------------------------------------------------------------------------------------------ asn1.c *)

(* getAsnLength32 (asn1.c 96-181).  Result: (rc, len, c') with rc = 0 or ASN_UNKNOWN_LEN.
   `end - c < l` is a signed 64-bit comparison in C, hence written [endp <? c + l]. *)
Definition getAsnLength32 (buf : bytes) (c size : N) (indef : bool) : res (Z * N * N) :=
  let endp := c + size in
  if size <? 1 then Err c_PS_LIMIT_FAIL else
  do b0 <- rd buf endp c;
  let l := b0 mod 128 in
  let finish (l c : N) : res (Z * N * N) :=
      if negb indef && (endp <? c + l) then Err c_PS_LIMIT_FAIL else Ok (0%Z, l, c) in
  if 128 <=? b0 then
    let c := c + 1 in
    if endp <? c + l then Err c_PS_LIMIT_FAIL else
    if l =? 0 then
      (if indef then Ok (z_ASN_UNKNOWN_LEN, (size - 1) mod two32, c) else Err c_PS_LIMIT_FAIL)
    else if l <=? 4 then
      do bs <- slice buf endp c l;
      finish (be_val bs mod two32) (c + l)
    else Err c_PS_LIMIT_FAIL
  else finish l (c + 1).

(* getAsnLength (asn1.c 83-94): *len = (uint16_t) (len32 & 0xFFFF) *)
Definition getAsnLength (buf : bytes) (c size : N) : res (N * N) :=
  do r <- getAsnLength32 buf c size false;
  let '(_, len, c') := r in Ok (len mod two16, c').

(* getAsnSequence32 / getAsnSet32 (asn1.c 190-218, 238-258); they differ in the tag and in the final
   length test: sequence `!indefinite && (size - (uint32)(p - *pp)) < *len`,
                set      `size < (uint32)(p - *pp) + *len`  (32-bit addition: wraps) *)
Definition getAsnConstructed32 (is_set : bool) (buf : bytes) (c size : N) (indef : bool) : res (Z * N * N) :=
  let tag := (if is_set then n_ASN_SET else n_ASN_SEQUENCE) + n_ASN_CONSTRUCTED in
  if size <? 1 then Err c_PS_PARSE_FAIL else
  do t <- rd buf (c + size) c;
  if negb (t =? tag) then Err c_PS_PARSE_FAIL else
  do r <- getAsnLength32 buf (c + 1) (size - 1) indef;
  let '(rc, len, p) := r in
  if is_set then
    (if size <? (((p - c) mod two32) + len) mod two32 then Err c_PS_LIMIT_FAIL else Ok (rc, len, p))
  else
    (if negb f_DISABLE_STRICT_ASN_LENGTH_CHECK && negb indef && (size - (p - c) mod two32 <? len)
     then Err c_PS_LIMIT_FAIL else Ok (rc, len, p)).

Definition getAsnSequence32 := getAsnConstructed32 false.
Definition getAsnSet32 := getAsnConstructed32 true.

Definition getAsnSequence (buf : bytes) (c size : N) : res (N * N) :=
  do r <- getAsnSequence32 buf c size false;
  let '(_, len, c') := r in Ok (len mod two16, c').
Definition getAsnSet (buf : bytes) (c size : N) : res (N * N) :=
  do r <- getAsnSet32 buf c size false;
  let '(_, len, c') := r in Ok (len mod two16, c').

(* getAsnInteger / getAsnEnumerated (asn1.c 337-397 / 276-331).  [need_nonempty] = the `vlen == 0`
   rejection (present in getAsnInteger; added to getAsnEnumerated by C09-enumerated-empty-value.patch,
   without it the sign test `*p & 0x80` reads one byte past the value). *)
Definition asn_int_value (first : N) (bs : bytes) : Z :=
  let ui_neg := be_val (map (fun x => 255 - x mod 256) bs) in     (* ui = (ui << 8) | (p[0] ^ 0xFF) *)
  let ui_pos := be_val bs in
  if 128 <=? first then Z.opp (Z.of_N ui_neg + 1) else Z.of_N ui_pos.

Definition getAsnIntLike (tag : N) (need_nonempty : bool) (buf : bytes) (c size : N) : res (Z * N) :=
  let endp := c + size in
  if size <? 1 then Err c_PS_PARSE_FAIL else
  do t <- rd buf endp c;
  if negb (t =? tag) then Err c_PS_PARSE_FAIL else
  do r <- getAsnLength32 buf (c + 1) (size - 1) false;
  let '(_, vlen, p) := r in
  if (4 <? vlen) || (u32sub endp p <? vlen) then Err c_PS_LIMIT_FAIL else
  if need_nonempty && (vlen =? 0) then Err c_PS_PARSE_FAIL else
  do first <- rd buf endp p;            (* the sign test on the first value byte *)
  do bs <- slice buf endp p vlen;
  Ok (asn_int_value first bs, p + vlen).

Definition getAsnInteger := getAsnIntLike n_ASN_INTEGER true.
Definition getAsnEnumerated := getAsnIntLike n_ASN_ENUMERATED true.
(* the code before C09-enumerated-empty-value.patch *)
Definition getAsnEnumerated_unfixed := getAsnIntLike n_ASN_ENUMERATED false.

(* getAsnOID (asn1.c 719-802).  Result: (oid byte sum, paramLen, c').  The OID database lookup only
   changes *oi and is not modelled. *)
Definition getAsnOID (buf : bytes) (c size : N) (checkForParams : bool) : res (N * N * N) :=
  let endp := c + size in
  if size <? 1 then Err c_PS_PARSE_FAIL else
  do t <- rd buf endp c;
  if negb (t =? n_ASN_OID) then Err c_PS_PARSE_FAIL else
  do r <- getAsnLength32 buf (c + 1) (endp - (c + 1)) false;
  let '(_, arcLen, p) := r in
  if endp <? p + arcLen then Err c_PS_LIMIT_FAIL else
  if endp <? p + 2 then Err c_PS_LIMIT_FAIL else
  do arcs <- slice buf endp p arcLen;
  let oi := fold_left N.add arcs 0 in
  let p := p + arcLen in
  if checkForParams then
    let paramLen := (endp - p) mod two16 in          (* psSize_t *)
    if paramLen <? 1 then Ok (oi, paramLen, p) else
    do nb <- rd buf endp p;
    if negb (nb =? n_ASN_NULL) then Ok (oi, paramLen, p) else
    if endp <? p + 2 then Err c_PS_LIMIT_FAIL else
    if paramLen <? 2 then Err c_PS_LIMIT_FAIL else
    Ok (oi, paramLen - 2, p + 2)
  else Ok (oi, 0, p).

(* getAsnAlgorithmIdentifier (asn1.c 403-425) *)
Definition getAsnAlgorithmIdentifier (buf : bytes) (c size : N) : res (N * N * N) :=
  let endp := c + size in
  if size <? 1 then Err c_PS_PARSE_FAIL else
  do r <- getAsnSequence32 buf c size false;
  let '(_, llen, p) := r in
  if endp <? p + 1 then Err c_PS_LIMIT_FAIL else
  getAsnOID buf p llen true.

(* getAsnTagLenUnsafe (asn1.c 39-73): no size argument; [limit] is the end of the block the pointer
   points into (what the caller must have validated). *)
Definition getAsnTagLenUnsafe (buf : bytes) (limit c : N) : res N :=
  do b0 <- rd buf limit c;
  if b0 =? 0 then Ok 0 else
  do len <- rd buf limit (c + 1);
  if 128 <=? len then
    let k := len - 128 in
    if (k =? 0) || (4 <=? k) then Ok 0 else
    do bs <- slice buf limit (c + 2) k;
    Ok ((k + 2 + be_val bs) mod two32)
  else Ok (len + 2).

(* asnCopyOid (asn1.c 516-552): copies the content octets of an OBJECT IDENTIFIER into the caller's
   psAsnOid_t, an array of MAX_OID_BYTES octets (tag, length octet, content).  [derlen] is a
   psSizeL_t: it is an UNBOUNDED N here and the size test is made on that number, not on the octet
   that ends up in oid[1].  Every store goes through [oid_put], which is a Fault outside the array.
   Result: (return value, the prefix of oid[] that was written). *)
Definition oid_put (written : bytes) (idx v : N) : res bytes :=
  if idx <? n_MAX_OID_BYTES then
    (if idx =? lenN written then Ok (written ++ [v]) else
     if idx <? lenN written then Ok (firstn (N.to_nat idx) written ++ v :: skipn (S (N.to_nat idx)) written)
     else Fault)                      (* the model only ever appends or overwrites *)
  else Fault.

Fixpoint oid_copy_loop (data : bytes) (i len : N) (written : bytes) : res (N * bytes) :=
  match data with
  | [] => Ok (len, written)
  | ch :: r =>
      do w <- oid_put written (2 + i) ch;
      oid_copy_loop r (i + 1) (len + (if 128 <=? ch then 0 else 1)) w
  end.

Definition asnCopyOid (buf : bytes) (limit p derlen : N) : res (N * bytes) :=
  if (derlen <? 1) || (n_MAX_OID_BYTES - 2 <? derlen) then
    do w <- oid_put [] 0 0; do w <- oid_put w 1 0; Ok (0, w)
  else
    do w <- oid_put [] 0 n_ASN_OID;
    do w <- oid_put w 1 (derlen mod 256);
    do data <- slice buf limit p derlen;
    do r <- oid_copy_loop data 0 1 w;
    let '(len, w) := r in
    if 128 <=? last data 0 then Ok (0, w) else Ok (len mod 256, w).

(* ------------------------------------------------------------------------------------------ crl.c: revoked entries *)
(* parse_digits / parsedate_zulu / mdays (core/src/corelib_date.c 168-190, 283-470), non-strict mode as used by
   psBrokenDownTimeImport(.., opts without STRICT_ZULU): only the verdict is modelled.  [two] = 2-digit year (UTCTime). *)
Fixpoint beq_bytes_plain (a b : bytes) : bool :=
  match a, b with
  | [], [] => true
  | x :: a', y :: b' => (x =? y) && beq_bytes_plain a' b'
  | _, _ => false
  end.
Fixpoint digits_val (l : bytes) (acc : N) : option N :=
  match l with
  | [] => Some acc
  | c :: r => if (48 <=? c) && (c <=? 57) then digits_val r (acc * 10 + (c - 48)) else None
  end.
Definition parse_digits (s : bytes) (pos n lo hi : N) : option N :=
  match digits_val (sub_bytes s pos n) 0 with
  | Some v => if (v <? lo) || (hi <? v) then None else Some v
  | None => None
  end.
Definition s_INDEFINITE : bytes := [57;57;57;57;49;50;51;49;50;51;53;57;53;57;90].       (* "99991231235959Z" *)
Definition month_days (year1900 mon0 : N) : N :=
  let d := nth (N.to_nat mon0) [31;28;31;30;31;30;31;31;30;31;30;31] 0 in
  if d =? 28 then
    let y := year1900 + 1900 in
    if (y mod 4 =? 0) && (negb (y mod 100 =? 0) || (y mod 400 =? 0)) then 29 else 28
  else d.
Definition time_import (two : bool) (s : bytes) : bool :=
  let len := lenN s in
  if 255 <? len then false else
  if (if two then len <? 12 else len <? 14) then false else
  let indefinite := negb two && (len =? 15) && beq_bytes_plain s s_INDEFINITE in
  let ylen := if two then 2 else 4 in
  match (if indefinite then Some 8099 else if two then parse_digits s 0 2 0 99 else parse_digits s 0 4 1900 2999) with
  | None => false
  | Some year =>
  match parse_digits s ylen 2 1 12, parse_digits s (ylen + 2) 2 1 31, parse_digits s (ylen + 4) 2 0 23,
        parse_digits s (ylen + 6) 2 0 59, parse_digits s (ylen + 8) 2 0 60 with
  | Some month, Some mday, Some _, Some _, Some _ =>
      let y1900 := if indefinite then Some year
                   else if year <? 50 then Some (year + 100)
                   else if 1900 <=? year then Some (year - 1900)
                   else if 100 <=? year then None
                   else Some year in
      match y1900 with
      | None => false
      | Some y => mday <=? month_days y (month - 1)
      end
  | _, _, _, _, _ => false
  end end.

(* getSerialNum (x509.c 4947-4990): INTEGER or [2] IMPLICIT, value copied.  Result: (serial bytes, p') *)
Definition getSerialNum (buf : bytes) (c len : N) : res (bytes * N) :=
  if len <? 1 then Err c_PS_PARSE_FAIL else
  do t <- rd buf (c + len) c;
  if negb (t =? n_ASN_CONTEXT_SPECIFIC + 2) && negb (t =? n_ASN_INTEGER) then Err c_PS_PARSE_FAIL else
  do r <- remap c_PS_PARSE_FAIL (getAsnLength buf (c + 1) (len - 1));
  let '(vlen, p) := r in
  if len - 1 <? vlen then Err c_PS_PARSE_FAIL else
  do sn <- slice buf (c + len) p vlen;
  Ok (sn, p + vlen).

(* one revoked entry (crl.c 1082-1140).  [fixed] = with C09-crl-revoked-entry-underflow.patch (the serial number
   and the date must lie inside the entry); without it `p += ilen - (uint32)(p - start)` wraps.
   Result: (serial, p', bytes consumed from glen) *)
Definition crl_entry (fixed : bool) (buf : bytes) (endp p : N) : res (bytes * N * N) :=
  let revStart := p in
  do r <- remap c_PS_PARSE_FAIL (getAsnSequence32 buf p (u32sub endp p) false);
  let '(_, ilen, p) := r in
  let start := p in
  do s <- getSerialNum buf p (ilen mod two16);          (* psSize_t len parameter *)
  let '(serial, p) := s in
  if endp <? p + 1 then Err c_PS_PARSE_FAIL else
  do tag <- rd buf endp p;
  if negb (tag =? n_ASN_UTCTIME) && negb (tag =? n_ASN_GENERALIZEDTIME) then Err c_PS_PARSE_FAIL else
  let p := p + 1 in
  do r <- remap c_PS_PARSE_FAIL (getAsnLength buf p (u32sub endp p));
  let '(timelen, p) := r in
  if u32sub endp p <? timelen then Err c_PS_PARSE_FAIL else
  do ts <- slice buf endp p timelen;
  if negb (time_import (tag =? n_ASN_UTCTIME) ts) then Err c_PS_PARSE_FAIL else
  if fixed && ((ilen <? u32sub p start) || (ilen - u32sub p start <? timelen)) then Err c_PS_PARSE_FAIL else
  let p := p + (ilen + two32 - u32sub p start mod two32) mod two32 in      (* p += ilen - (uint32)(p - start) *)
  Ok (serial, p, u32sub p revStart).

(* the while (glen > 0) loop.  Result: serial numbers in order, final p *)
Fixpoint crl_entries (fuel : nat) (fixed : bool) (buf : bytes) (endp p glen : N) (acc : list bytes) : res (list bytes * N) :=
  if glen =? 0 then Ok (rev acc, p) else
  match fuel with
  | O => OutOfFuel
  | S f =>
      do e <- crl_entry fixed buf endp p;
      let '(serial, p', used) := e in
      if glen <? used then Err c_PS_PARSE_FAIL
      else crl_entries f fixed buf endp p' (glen - used) (serial :: acc)
  end.
Definition crl_revoked_gen (fixed : bool) (buf : bytes) (endp p glen : N) : res (list bytes * N) :=
  crl_entries (S (N.to_nat glen)) fixed buf endp p glen [].
Definition crl_revoked := crl_revoked_gen true.
Definition crl_revoked_unfixed := crl_revoked_gen false.

(* ------------------------------------------------------------------------------------------ x509.c: GeneralNames *)
Record gname : Type := mkGname {
  g_id : N;            (* activeName->id = tag & 0xF *)
  g_buf : bytes;       (* the block allocated for activeName->data: dataLen + terminating_nils bytes,
                          zero-filled, then the dataLen content bytes copied in *)
  g_len : N;           (* activeName->dataLen as finally recorded *)
  g_oid : bytes        (* otherName type-id bytes (activeName->oid, oidLen) *)
}.

Definition printable (c : N) : bool := (32 <=? c) && (c <=? 126).

(* the scan of x509.c 3123-3146; [tn] is terminating_nils on entry, result = its value afterwards *)
Fixpoint ia5_scan (tn : N) (d : bytes) : option N :=
  match d with
  | [] => Some tn
  | c :: r =>
      if printable c then ia5_scan tn r
      else if negb f_DISABLE_X509_GENERAL_NAME_SUPPORT_C_NULL && (c =? 0) && (match r with [] => true | _ => false end)
           then Some 0
           else None
  end.

Definition is_ia5_kind (id : N) : bool := (id =? n_GN_EMAIL) || (id =? n_GN_DNS) || (id =? n_GN_URI).

(* the otherName prefix (x509.c 2980-3049): returns (oid bytes, p, len) *)
Definition gn_other (buf : bytes) (extEnd p len : N) : res (bytes * N * N) :=
  let save := p in
  do r <- remap c_PS_PARSE_FAIL (getAsnLength buf p (u32sub extEnd p));
  let '(otherNameLen, p) := r in
  if (otherNameLen <? 1) || (u32sub extEnd p <? otherNameLen) then Err c_PS_PARSE_FAIL else
  do t <- rd buf extEnd p;
  let p := p + 1 in
  if negb (t =? n_ASN_OID) then Err (-1)%Z else
  do r <- remap (-1)%Z (getAsnLength buf p (u32sub extEnd p));
  let '(oidLen, p) := r in
  if u32sub extEnd p <? oidLen then Err (-1)%Z else
  do oid <- slice buf extEnd p oidLen;
  let p := p + oidLen in
  if u32sub extEnd p <? 1 then Err c_PS_PARSE_FAIL else
  do t <- rd buf extEnd p;
  if negb (t =? 160) then Err c_PS_PARSE_FAIL else
  let p := p + 1 in
  do r <- remap c_PS_PARSE_FAIL (getAsnLength buf p (u32sub extEnd p));
  let '(otherNameLen, p) := r in
  if (otherNameLen <? 1) || (u32sub extEnd p <? otherNameLen) then Err c_PS_PARSE_FAIL else
  if u32sub extEnd p <? 1 then Err c_PS_PARSE_FAIL else
  let p := p + 1 in                                   (* jump over TYPE *)
  if len <=? p - save then Err c_PS_PARSE_FAIL else
  Ok (oid, p, len - (p - save)).

(* one iteration of the while loop (x509.c 2942-3189) for len >= 3; [tn] = terminating_nils on entry.
   Result: (entry, p, len, terminating_nils afterwards) *)
Definition gn_one (buf : bytes) (extEnd p len tn : N) : res (gname * N * N * N) :=
  do tag <- rd buf extEnd p;
  let id := tag mod 16 in
  let p := p + 1 in
  let len := len - 1 in
  do o <- (if id =? n_GN_OTHER then gn_other buf extEnd p len else Ok ([], p, len));
  let '(oid, p, len) := o in
  let save := p in
  do r <- remap c_PS_PARSE_FAIL (getAsnLength buf p (u32sub extEnd p));
  let '(dataLen, p) := r in
  if (dataLen <? 1) || (u32sub extEnd p <? dataLen) then Err c_PS_PARSE_FAIL else
  if len <=? p - save then Err c_PS_PARSE_FAIL else
  let len := len - (p - save) in
  if len <? dataLen then Err c_PS_PARSE_FAIL else
  do data <- slice buf extEnd p dataLen;
  do tn <- (if is_ia5_kind id then
              match ia5_scan tn data with Some t => Ok t | None => Err c_PS_PARSE_FAIL end
            else if (id =? n_GN_IP) && (dataLen <? 4) then Err c_PS_PARSE_FAIL
            else Ok tn);
  let block := firstn (N.to_nat (dataLen + tn)) (data ++ [0]) in       (* Memset 0 ; Memcpy *)
  let rec_len := if negb f_DISABLE_X509_GENERAL_NAME_SUPPORT_C_NULL && (tn =? 0) then dataLen - 1 else dataLen in
  Ok (mkGname id block rec_len oid, p + dataLen, len - dataLen, tn).

(* the loop.  [reset] = true is the code with C09-generalnames-terminating-nils.patch (terminating_nils
   set to 1 at the top of every iteration); false is the pre-fix code (set once before the loop).
   [limit] is the `limit` argument (entries to parse; <= 0 = all). *)
Fixpoint gn_loop (fuel : nat) (reset : bool) (buf : bytes) (extEnd endp p len tn : N) (limit : Z) (acc : list gname)
  : res (list gname * N) :=
  if len <? 3 then Ok (rev acc, p) else
  match fuel with
  | O => OutOfFuel
  | S f =>
      do r <- gn_one buf extEnd p len (if reset then 1 else tn);
      let '(g, p', len', tn') := r in
      if (0 <? limit)%Z && (limit - 1 =? 0)%Z then Ok (rev (g :: acc), endp)
      else gn_loop f reset buf extEnd endp p' len' tn' (if (0 <? limit)%Z then limit - 1 else limit)%Z (g :: acc)
  end.

Definition parse_general_names_gen (reset : bool) (buf : bytes) (extEnd p len : N) (limit : Z) : res (list gname * N) :=
  gn_loop (S (N.to_nat len)) reset buf extEnd (p + len) p len 1 limit [].
Definition parse_general_names := parse_general_names_gen true.
Definition parse_general_names_unfixed := parse_general_names_gen false.

(* ------------------------------------------------------------------------------------------ x509.c: DN attributes *)
Record dnattr : Type := mkDnattr {
  d_id : N;            (* attribute id (last OID arc, or ATTRIB_DOMAIN_COMPONENT) *)
  d_type : N;          (* ASN.1 string type *)
  d_str : bytes;       (* the allocated string: llen + DN_NUM_TERMINATING_NULLS bytes *)
  d_len : N            (* the recorded length field (psSize_t) *)
}.

Definition dc_oid_prefix : bytes := [9; 146; 38; 137; 147; 242; 44; 100; 1].   (* 0.9.2342.19200300.100.1 *)

Fixpoint beq_bytes (a b : bytes) : bool :=
  match a, b with
  | [], [] => true
  | x :: a', y :: b' => (x =? y) && beq_bytes a' b'
  | _, _ => false
  end.

Definition dn_is_stored (id : N) : bool :=
  (id =? n_ATTRIB_COUNTRY_NAME) || (id =? n_ATTRIB_ORGANIZATION) || (id =? n_ATTRIB_ORG_UNIT) ||
  (id =? n_ATTRIB_DN_QUALIFIER) || (id =? n_ATTRIB_STATE_PROVINCE) || (id =? n_ATTRIB_COMMON_NAME) ||
  (id =? n_ATTRIB_SERIALNUMBER) || (id =? n_ATTRIB_DOMAIN_COMPONENT) ||
  (f_USE_EXTRA_DN_ATTRIBUTES_RFC5280_SHOULD &&
     ((id =? n_ATTRIB_LOCALITY) || (id =? n_ATTRIB_TITLE) || (id =? n_ATTRIB_SURNAME) || (id =? n_ATTRIB_GIVEN_NAME) ||
      (id =? n_ATTRIB_INITIALS) || (id =? n_ATTRIB_PSEUDONYM) || (id =? n_ATTRIB_GEN_QUALIFIER))) ||
  (f_USE_EXTRA_DN_ATTRIBUTES &&
     ((id =? n_ATTRIB_STREET_ADDRESS) || (id =? n_ATTRIB_POSTAL_ADDRESS) || (id =? n_ATTRIB_TELEPHONE_NUMBER) ||
      (id =? n_ATTRIB_UID) || (id =? n_ATTRIB_NAME) || (id =? n_ATTRIB_EMAIL))).

Definition dn_check_hidden (stringType : N) : bool :=
  (stringType =? n_ASN_PRINTABLESTRING) || (stringType =? n_ASN_UTF8STRING) ||
  (stringType =? n_ASN_IA5STRING) || (stringType =? n_ASN_T61STRING).

(* what one attribute SEQUENCE does after its header was read; x509.c 5361-5578.
   Result: (Some attribute | None when skipped/ignored, p) *)
Inductive dn_step : Type := DnStored (a : dnattr) | DnIgnored | DnSkipped.

(* value part, from `oid_parsing_done:` on (x509.c 5474-5578) *)
Definition dn_value (buf : bytes) (dnEnd p id : N) : res (dn_step * N) :=
  if dnEnd <? p + 1 then Err c_PS_LIMIT_FAIL else          (* C09-dn-attribute-value-bound.patch *)
  do stringType <- rd buf dnEnd p;
  let p := p + 1 in
  do r <- remap c_PS_LIMIT_FAIL (getAsnLength buf p (u32sub dnEnd p));
  let '(llen, p) := r in
  if u32sub dnEnd p <? llen then Err c_PS_LIMIT_FAIL else
  if (stringType =? n_ASN_BMPSTRING) && negb f_USE_ASN_BMPSTRING_DN_ATTRIBS then Err c_PS_UNSUPPORTED_FAIL else
  if dn_check_hidden stringType || (stringType =? n_ASN_BIT_STRING) then
    do data <- slice buf dnEnd p llen;
    let str := data ++ repeat 0 (N.to_nat n_DN_NUM_TERMINATING_NULLS) in
    if dn_check_hidden stringType && negb (lenN (cstr str) =? llen) then Err c_PS_PARSE_FAIL else
    let p := p + llen in
    let llen := (llen + n_DN_NUM_TERMINATING_NULLS) mod two16 in
    Ok (if dn_is_stored id then DnStored (mkDnattr id stringType str llen) else DnIgnored, p)
  else Err c_PS_UNSUPPORTED_FAIL.       (* incl. BMPString when enabled: psToUtf8String is not modelled *)

(* from the attribute's OID on (x509.c 5361-5473) *)
Definition dn_attr (buf : bytes) (dnEnd p : N) : res (dn_step * N) :=
  if dnEnd <=? p then Err c_PS_PARSE_FAIL else
  do t <- rd buf dnEnd p;
  let p := p + 1 in
  if negb (t =? n_ASN_OID) then Err c_PS_PARSE_FAIL else
  do r <- remap c_PS_PARSE_FAIL (getAsnLength buf p (u32sub dnEnd p));
  let '(arcLen, p) := r in
  if u32sub dnEnd p <? arcLen then Err c_PS_PARSE_FAIL else
  let pp := p in
  if dnEnd <? p + 2 then Err c_PS_LIMIT_FAIL else
  do dc <- (if arcLen =? 10 then
              do o <- slice buf dnEnd p 10;
              Ok (beq_bytes (firstn 9 o) dc_oid_prefix && (nth 9 o 0 =? 25))
            else Ok false);
  if dc then dn_value buf dnEnd (p + 10) n_ATTRIB_DOMAIN_COMPONENT else
  do b0 <- rd buf dnEnd p;
  do b1 <- rd buf dnEnd (p + 1);
  if negb (b0 =? 85) || negb (b1 =? 4) then
    (* OIDs we are not parsing: skip OID, string tag, length, value *)
    let p := pp in
    if u32sub dnEnd p <? arcLen + 1 then Err c_PS_LIMIT_FAIL else
    let p := p + arcLen + 1 in
    do r <- remap c_PS_PARSE_FAIL (getAsnLength buf p (u32sub dnEnd p));
    let '(llen, p) := r in
    if u32sub dnEnd p <? llen then Err c_PS_PARSE_FAIL else
    Ok (DnSkipped, p + llen)
  else
    let p := p + 2 in
    if negb (arcLen =? 3) || (dnEnd <? p + 2) then Err c_PS_LIMIT_FAIL else
    do id <- rd buf dnEnd p;
    dn_value buf dnEnd (p + 1) id.

(* the while loop with its MORE_IN_SET goto (x509.c 5333-5813).  [inset] = entered through the goto. *)
Fixpoint dn_loop (fuel : nat) (buf : bytes) (dnEnd p : N) (inset : bool) (setlen : N) (moreInSet : Z) (acc : list dnattr)
  : res (list dnattr * N) :=
  if negb inset && negb (p <? dnEnd) then Ok (rev acc, p) else
  match fuel with
  | O => OutOfFuel
  | S f =>
      do s <- (if inset then Ok (setlen, p)
               else remap c_PS_PARSE_FAIL (getAsnSet buf p (u32sub dnEnd p)));
      let '(setlen, p) := s in
      let moreInSetPtr := p in
      do r <- remap c_PS_PARSE_FAIL (getAsnSequence buf p (u32sub dnEnd p));
      let '(llen, p) := r in
      let hdr := Z.of_N (p - moreInSetPtr) in
      let moreInSet :=
          (if 0 <? moreInSet then moreInSet - (Z.of_N llen + hdr)
           else if negb (Z.of_N setlen =? Z.of_N llen + hdr) then Z.of_N setlen - hdr - Z.of_N llen
           else moreInSet)%Z in
      do a <- dn_attr buf dnEnd p;
      let '(step, p) := a in
      match step with
      | DnSkipped => dn_loop f buf dnEnd p false setlen moreInSet acc          (* `continue` *)
      | DnIgnored => dn_loop f buf dnEnd p (negb (moreInSet =? 0)%Z) setlen moreInSet acc
      | DnStored x => dn_loop f buf dnEnd p (negb (moreInSet =? 0)%Z) setlen moreInSet (x :: acc)
      end
  end.

(* psX509GetDNAttributes (flags without CERT_STORE_DN_BUFFER); [len] is the psSize_t argument.
   Result: stored attributes in parse order, final *pp *)
Definition dn_attributes (buf : bytes) (c len : N) : res (list dnattr * N) :=
  do r <- remap c_PS_PARSE_FAIL (getAsnSequence buf c len);
  let '(llen, p) := r in
  let dnEnd := p + llen in
  dn_loop (S (N.to_nat len)) buf dnEnd p false 0 0%Z [].

(* ------------------------------------------------------------------------------------------ base64.c *)
Definition b64_lookup (x : N) : N := nth (N.to_nat x) b64_map 255.

(* one write through `out[z++]` into a block of [cap] bytes *)
Definition b64_put (cap : N) (st : bytes * N) (v : N) : res (bytes * N) :=
  let '(acc, z) := st in if z <? cap then Ok (v :: acc, z + 1) else Fault.

(* the for loop of psBase64decode over the (already fetched) input bytes; acc = output reversed *)
Fixpoint b64_loop (inp : bytes) (cap t y g : N) (st : bytes * N) : res bytes :=
  match inp with
  | [] => if negb (y =? 0) then Err c_PS_PARSE_FAIL else Ok (rev (fst st))
  | x :: r =>
      if b64_max_index <? x then b64_loop r cap t y g st else
      let c := b64_lookup x in
      if c =? 255 then b64_loop r cap t y g st else
      do cg <- (if c =? 254 then (if g <=? 1 then Err c_PS_LIMIT_FAIL else Ok (0, g - 1))    (* `if (--g < 1)`: C09-base64-triple-pad.patch *)
                else if negb (g =? 3) then Err c_PS_PARSE_FAIL else Ok (c, g));
      let '(c, g) := cg in
      let t := (t * 64 + c) mod two32 in
      if y + 1 =? 4 then
        if cap <? snd st + g then Err c_PS_LIMIT_FAIL else
        do st <- b64_put cap st ((t / 65536) mod 256);
        do st <- (if 1 <? g then b64_put cap st ((t / 256) mod 256) else Ok st);
        do st <- (if 2 <? g then b64_put cap st (t mod 256) else Ok st);
        b64_loop r cap 0 0 g st
      else b64_loop r cap t (y + 1) g st
  end.

(* psBase64decode(in, len, out, &outlen): [limit] = size of the input block, [cap] = *outlen on entry *)
Definition b64_decode (buf : bytes) (limit len cap : N) : res bytes :=
  do inp <- slice buf limit 0 len;
  b64_loop inp cap 0 0 3 ([], 0).

(* ------------------------------------------------------------------------------------------ pem_decode_mem.c *)
(* The code with C09-pem-bounded-framing.patch: every search is confined to [0, limit) by pemStrnstr
   (it also stops at a NUL byte, as strstr does), the skip loops are bounded, and a frame whose
   "-----END" overlaps the header label ("KEY-----END") is refused. *)

(* the inner for loop of pemStrnstr: does [needle] match at position i (inside [0,limit)) ? *)
Fixpoint cmp_at (buf : bytes) (limit i : N) (needle : bytes) : res bool :=
  match needle with
  | [] => Ok true
  | n :: r => if limit <=? i then Ok false else
              do b <- rd buf limit i;
              if b =? n then cmp_at buf limit (i + 1) r else Ok false
  end.

(* pemStrnstr(buf + from, buf + limit, needle) *)
Fixpoint strnstr_from (fuel : nat) (buf : bytes) (limit from : N) (needle : bytes) : res (option N) :=
  if limit <=? from then Ok None else
  match fuel with
  | O => OutOfFuel
  | S f =>
      do b <- rd buf limit from;
      if b =? 0 then Ok None else
      do m <- cmp_at buf limit from needle;
      if m then Ok (Some from) else strnstr_from f buf limit (from + 1) needle
  end.
Definition pem_strnstr (buf : bytes) (limit from : N) (needle : bytes) : res (option N) :=
  strnstr_from (S (N.to_nat (limit - from))) buf limit from needle.

(* while (p < stop and p[0] in set) p++ *)
Fixpoint skip_while (fuel : nat) (buf : bytes) (limit stop p : N) (set : bytes) : res N :=
  if stop <=? p then Ok p else
  match fuel with
  | O => OutOfFuel
  | S f => do b <- rd buf limit p;
           if existsb (N.eqb b) set then skip_while f buf limit stop (p + 1) set else Ok p
  end.

Definition s_BEGIN : bytes := [45;45;45;45;45;66;69;71;73;78].                                    (* "-----BEGIN" *)
Definition s_END : bytes := [45;45;45;45;45;69;78;68].                                           (* "-----END" *)
Definition s_PRIVKEY : bytes := [80;82;73;86;65;84;69;32;75;69;89;45;45;45;45;45].               (* "PRIVATE KEY-----" *)
Definition s_PUBKEY : bytes := [80;85;66;76;73;67;32;75;69;89;45;45;45;45;45].                   (* "PUBLIC KEY-----" *)
Definition s_CERT : bytes := [67;69;82;84;73;70;73;67;65;84;69;45;45;45;45;45].                  (* "CERTIFICATE-----" *)
Definition s_PROCTYPE : bytes := [80;114;111;99;45;84;121;112;101;58].                           (* "Proc-Type:" *)
Definition s_ENCRYPTED : bytes := [52;44;69;78;67;82;89;80;84;69;68].                            (* "4,ENCRYPTED" *)

(* one alternative of psPemCheckOk: Some (position of the label, position of -----END) *)
Definition pem_frame (buf : bytes) (limit from : N) (label : bytes) : res (option (N * N * N)) :=
  do b <- pem_strnstr buf limit from s_BEGIN;
  match b with None => Ok None | Some _ =>
  do s <- pem_strnstr buf limit from label;
  match s with None => Ok None | Some start =>
  do e <- pem_strnstr buf limit start s_END;
  match e with None => Ok None | Some endp =>
  do l <- pem_strnstr buf limit endp label;
  match l with None => Ok None | Some endTmp => Ok (Some (start, endp, endTmp)) end end end end.

(* psPemCheckOk: None = PS_FALSE, Some (start, end) = PS_TRUE with *startp, *endp *)
Definition pem_check_ok (buf : bytes) (limit pemType : N) : res (option (N * N)) :=
  let fin (allowed : bool) (label : bytes) (se : N * N * N) : res (option (N * N)) :=
      let '(start, endp, _) := se in
      if negb allowed then Ok None else
      let start := start + lenN label in
      if endp <? start then Ok None else
      do s <- skip_while (S (N.to_nat limit)) buf limit endp start [13; 10];
      Ok (Some (s, endp)) in
  do f1 <- pem_frame buf limit 0 s_PRIVKEY;
  match f1 with
  | Some se => fin ((pemType =? n_PEM_TYPE_KEY) || (pemType =? n_PEM_TYPE_PRIVATE_KEY) || (pemType =? n_PEM_TYPE_ANY)) s_PRIVKEY se
  | None =>
  do f2 <- pem_frame buf limit 0 s_PUBKEY;
  match f2 with
  | Some se => fin ((pemType =? n_PEM_TYPE_PUBLIC_KEY) || (pemType =? n_PEM_TYPE_KEY) || (pemType =? n_PEM_TYPE_ANY)) s_PUBKEY se
  | None =>
  do f3 <- pem_frame buf limit 0 s_CERT;
  match f3 with
  | Some se => fin ((pemType =? n_PEM_TYPE_CERTIFICATE) || (pemType =? n_PEM_TYPE_ANY)) s_CERT se
  | None => Ok None
  end end end.

(* psPemDecode with password == NULL: frame, refuse encrypted input (PS_ARG_FAIL), base64-decode
   [start,end).  The decode length is PEMlen narrowed to psSize_t (outlenPsSize). *)
Definition pem_decode (buf : bytes) (limit : N) : res bytes :=
  do f <- pem_check_ok buf limit n_PEM_TYPE_ANY;
  match f with
  | None => Err c_PS_PARSE_FAIL
  | Some (start, endp) =>
      do p1 <- pem_strnstr buf limit 0 s_PROCTYPE;
      do enc <- (match p1 with None => Ok false | Some _ =>
                   do p2 <- pem_strnstr buf limit 0 s_ENCRYPTED; Ok (match p2 with Some _ => true | None => false end) end);
      if enc then Err c_PS_ARG_FAIL
      else
        let n16 := (endp - start) mod two16 in
        do inp <- slice buf limit start n16;
        b64_loop inp n16 0 0 3 ([], 0)
  end.

(* ---- psPemDecode WITH the encrypted-PEM headers (pem_decode_mem.c 225-290, 300-340).
   [haspw] = a password was supplied (the password itself only enters PBKDF1 and the cipher, which are
   not parsing and are not modelled).  Result: (cipher kind 0 none / 1 DES-EDE3-CBC / 2 AES-128-CBC,
   IV parsed from DEK-Info, base64-decoded body before decryption). *)
Definition s_DES3HDR : bytes :=      (* "DEK-Info: DES-EDE3-CBC," *)
  [68;69;75;45;73;110;102;111;58;32;68;69;83;45;69;68;69;51;45;67;66;67;44].
Definition s_AESHDR : bytes :=       (* "DEK-Info: AES-128-CBC," *)
  [68;69;75;45;73;110;102;111;58;32;65;69;83;45;49;50;56;45;67;66;67;44].

Definition hex_digit (c : N) : option N :=
  if (48 <=? c) && (c <=? 57) then Some (c - 48)
  else if (97 <=? c) && (c <=? 102) then Some (c - 87)
  else if (65 <=? c) && (c <=? 70) then Some (c - 55)
  else None.

(* psHexToBinary(buf + p, bin, nbytes) (core/src/corelib_strings.c 354-390): reads 2*nbytes characters
   one at a time, stops at the first non-hex one.  Ok None = PS_FAILURE. *)
Fixpoint hex_to_bin (nbytes : nat) (buf : bytes) (limit p : N) (acc : bytes) : res (option bytes) :=
  match nbytes with
  | O => Ok (Some (rev acc))
  | S k =>
      do h <- rd buf limit p;
      match hex_digit h with None => Ok None | Some hv =>
      do l <- rd buf limit (p + 1);
      match hex_digit l with None => Ok None | Some lv =>
      hex_to_bin k buf limit (p + 2) ((hv * 16 + lv) :: acc) end end
  end.

Definition pem_decode_pw (haspw : bool) (buf : bytes) (limit : N) : res (N * bytes * bytes) :=
  do f <- pem_check_ok buf limit n_PEM_TYPE_ANY;
  match f with
  | None => Err c_PS_PARSE_FAIL
  | Some (start0, endp) =>
      do p1 <- pem_strnstr buf limit 0 s_PROCTYPE;
      do enc <- (match p1 with None => Ok false | Some _ =>
                   do p2 <- pem_strnstr buf limit 0 s_ENCRYPTED; Ok (match p2 with Some _ => true | None => false end) end);
      if negb enc then
        let n16 := (endp - start0) mod two16 in
        do inp <- slice buf limit start0 n16;
        do out <- b64_loop inp n16 0 0 3 ([], 0);
        Ok (0, [], out)
      else if negb haspw then Err c_PS_ARG_FAIL
      else
        do d <- pem_strnstr buf limit 0 s_DES3HDR;
        do hdr <- (match d with
                   | Some q => Ok (Some (1, q + lenN s_DES3HDR, 8))
                   | None => do a <- pem_strnstr buf limit 0 s_AESHDR;
                             Ok (match a with Some q => Some (2, q + lenN s_AESHDR, 16) | None => None end)
                   end);
        match hdr with
        | None => Err c_PS_PARSE_FAIL                       (* unrecognised cipher *)
        | Some (kind, s, ivlen) =>
            if limit <? s + 2 * ivlen then Err c_PS_PARSE_FAIL else       (* keyBufEnd - start < 2 * IVLEN *)
            do iv <- hex_to_bin (N.to_nat ivlen) buf limit s [];
            match iv with
            | None => Err c_PS_FAILURE
            | Some ivb =>
                let start := s + 2 * ivlen in
                if endp <? start then Err c_PS_PARSE_FAIL else
                let n16 := (endp - start) mod two16 in
                do inp <- slice buf limit start n16;
                do out <- b64_loop inp n16 0 0 3 ([], 0);
                (* C09-pem-cipher-block-length.patch: the ciphers work on whole blocks *)
                if negb (lenN out mod ivlen =? 0) then Err c_PS_PARSE_FAIL
                else Ok (kind, ivb, out)
            end
        end
  end.

(* psPemCertBufToList: [limit] = the caller's length argument.  Result: decoded certificates in order. *)
Fixpoint pem_list_loop (fuel : nat) (buf : bytes) (limit pos : N) (acc : list bytes) : res (list bytes) :=
  if limit <=? pos then Ok (rev acc) else                      (* while (len > 0), len = bufEnd - buf *)
  match fuel with
  | O => OutOfFuel
  | S f =>
      do fr <- pem_frame buf limit pos s_CERT;
      match fr with
      | None => Err c_PS_PARSE_FAIL
      | Some (start0, endp, endTmp) =>
        let start := start0 + 16 in
        if endp <? start then Err c_PS_PARSE_FAIL else
        let clen := (endp - start) mod two16 in                   (* (uint16_t)(end - start) *)
        do nxt <- skip_while (S (N.to_nat limit)) buf limit limit (endTmp + 16) [13; 10; 9; 32];
        do inp <- slice buf limit start clen;
        match b64_loop inp clen 0 0 3 ([], 0) with
        | Ok item => pem_list_loop f buf limit nxt (item :: acc)
        | Err _ => Err c_PS_PARSE_FAIL
        | Fault => Fault
        | OutOfFuel => OutOfFuel
        end
      end
  end.

(* the list head is allocated before the loop: with len = 0 the result is one empty item *)
Definition pem_cert_list (buf : bytes) (limit : N) : res (list bytes) :=
  match pem_list_loop (S (N.to_nat limit)) buf limit 0 [] with
  | Ok [] => Ok [[]]
  | r => r
  end.
