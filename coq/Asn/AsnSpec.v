(* C09 - what the property demands of the modelled parsing primitives, independent of the code's shape.

   "memory-safe and total": on every byte string the function's result is neither [Fault] (a read or
   write outside the block it was given) nor [OutOfFuel] (the loop bound supplied by the wrapper
   suffices).  "every recorded length lies inside its buffer": a returned (len, cursor) pair denotes a
   range inside the block.  "every string exposed as a C string is terminated": the allocated block
   is the data followed by NUL(s) and the recorded length is the number of data bytes. *)
From MV Require Import Base.Bytes Gen.ConstsAsn Asn.AsnModel.
Local Open Scope N_scope.

Definition safe {A : Type} (r : res A) : Prop := r <> Fault /\ r <> OutOfFuel.

(* [post Q r]: r is safe, and if the function succeeded its result satisfies Q *)
Definition post {A : Type} (Q : A -> Prop) (r : res A) : Prop :=
  match r with Ok a => Q a | Err _ => True | Fault => False | OutOfFuel => False end.

(* the block really holds [limit] bytes *)
Definition holds (buf : bytes) (limit : N) : Prop := limit <= lenN buf.

(* a successful primitive moved the cursor forward and stayed inside [c, c + size] *)
Definition progress (c size c' : N) : Prop := c < c' /\ c' <= c + size.

(* a (len, cursor) result denotes bytes inside the block *)
Definition inside (c size len c' : N) : Prop := c' + len <= c + size.

(* ---- GeneralNames (x509GeneralName_t.data / dataLen) *)
Definition printable_byte (b : N) : Prop := 32 <= b <= 126.

(* the block is data ++ [0]; dataLen counts exactly the data bytes; for dNSName / rfc822Name / URI
   all data bytes are printable ASCII (so in particular there is no NUL before data[dataLen]) *)
Definition gn_clean (g : gname) : Prop :=
  exists data : bytes,
    g_buf g = data ++ [0] /\ g_len g = lenN data /\
    (is_ia5_kind (g_id g) = true -> Forall printable_byte data).

(* ---- DN attribute strings *)
Definition dn_terminated (a : dnattr) : Prop :=
  exists data : bytes,
    d_str a = data ++ [0; 0] /\ d_len a = lenN data + 2 /\ d_len a < 65536 /\
    (dn_check_hidden (d_type a) = true -> Forall (fun b => b <> 0) data).

(* ---- base64 (RFC 4648 section 4), as the specification of what psBase64decode must invert *)
Definition b64_alphabet : bytes :=
  [65;66;67;68;69;70;71;72;73;74;75;76;77;78;79;80;81;82;83;84;85;86;87;88;89;90;
   97;98;99;100;101;102;103;104;105;106;107;108;109;110;111;112;113;114;115;116;117;118;119;120;121;122;
   48;49;50;51;52;53;54;55;56;57;43;47].
Definition b64_char (v : N) : N := nth (N.to_nat v) b64_alphabet 0.

Fixpoint b64_encode (l : bytes) : bytes :=
  match l with
  | [] => []
  | [a] => [b64_char (a / 4); b64_char ((a mod 4) * 16); 61; 61]
  | [a; b] => [b64_char (a / 4); b64_char ((a mod 4) * 16 + b / 16); b64_char ((b mod 16) * 4); 61]
  | a :: b :: c :: r =>
      b64_char (a / 4) :: b64_char ((a mod 4) * 16 + b / 16) :: b64_char ((b mod 16) * 4 + c / 64) :: b64_char (c mod 64)
      :: b64_encode r
  end.

Definition is_bytes (l : bytes) : Prop := Forall (fun b => b < 256) l.
