(* C12 - symmetric primitives and one-shot SPECIFICATIONS: AES (FIPS 197), CBC (SP 800-38A 6.2),
   GCM with 96-bit IV (SP 800-38D 7.1/7.2, GF(2^128) multiplication by shift/xor as in 6.3),
   ChaCha20 / Poly1305 / AEAD_CHACHA20_POLY1305 (RFC 8439 2.3, 2.5, 2.8).
   Gallina transcriptions of the standards' pseudo-code on byte lists, validated by the standards'
   known answers (CryptoKAT.v) and against the library on every run; shared by spec and model. *)
From Coq Require Import List NArith Arith Bool.
From MV Require Import Crypto.CryptoPrims Crypto.CryptoSpec.
Import ListNotations.
Local Open Scope N_scope.

(* ------------------------------------------------------------------ AES *)
Definition aes_sbox : list N := [
  0x63; 0x7c; 0x77; 0x7b; 0xf2; 0x6b; 0x6f; 0xc5; 0x30; 0x01; 0x67; 0x2b; 0xfe; 0xd7; 0xab; 0x76;
  0xca; 0x82; 0xc9; 0x7d; 0xfa; 0x59; 0x47; 0xf0; 0xad; 0xd4; 0xa2; 0xaf; 0x9c; 0xa4; 0x72; 0xc0;
  0xb7; 0xfd; 0x93; 0x26; 0x36; 0x3f; 0xf7; 0xcc; 0x34; 0xa5; 0xe5; 0xf1; 0x71; 0xd8; 0x31; 0x15;
  0x04; 0xc7; 0x23; 0xc3; 0x18; 0x96; 0x05; 0x9a; 0x07; 0x12; 0x80; 0xe2; 0xeb; 0x27; 0xb2; 0x75;
  0x09; 0x83; 0x2c; 0x1a; 0x1b; 0x6e; 0x5a; 0xa0; 0x52; 0x3b; 0xd6; 0xb3; 0x29; 0xe3; 0x2f; 0x84;
  0x53; 0xd1; 0x00; 0xed; 0x20; 0xfc; 0xb1; 0x5b; 0x6a; 0xcb; 0xbe; 0x39; 0x4a; 0x4c; 0x58; 0xcf;
  0xd0; 0xef; 0xaa; 0xfb; 0x43; 0x4d; 0x33; 0x85; 0x45; 0xf9; 0x02; 0x7f; 0x50; 0x3c; 0x9f; 0xa8;
  0x51; 0xa3; 0x40; 0x8f; 0x92; 0x9d; 0x38; 0xf5; 0xbc; 0xb6; 0xda; 0x21; 0x10; 0xff; 0xf3; 0xd2;
  0xcd; 0x0c; 0x13; 0xec; 0x5f; 0x97; 0x44; 0x17; 0xc4; 0xa7; 0x7e; 0x3d; 0x64; 0x5d; 0x19; 0x73;
  0x60; 0x81; 0x4f; 0xdc; 0x22; 0x2a; 0x90; 0x88; 0x46; 0xee; 0xb8; 0x14; 0xde; 0x5e; 0x0b; 0xdb;
  0xe0; 0x32; 0x3a; 0x0a; 0x49; 0x06; 0x24; 0x5c; 0xc2; 0xd3; 0xac; 0x62; 0x91; 0x95; 0xe4; 0x79;
  0xe7; 0xc8; 0x37; 0x6d; 0x8d; 0xd5; 0x4e; 0xa9; 0x6c; 0x56; 0xf4; 0xea; 0x65; 0x7a; 0xae; 0x08;
  0xba; 0x78; 0x25; 0x2e; 0x1c; 0xa6; 0xb4; 0xc6; 0xe8; 0xdd; 0x74; 0x1f; 0x4b; 0xbd; 0x8b; 0x8a;
  0x70; 0x3e; 0xb5; 0x66; 0x48; 0x03; 0xf6; 0x0e; 0x61; 0x35; 0x57; 0xb9; 0x86; 0xc1; 0x1d; 0x9e;
  0xe1; 0xf8; 0x98; 0x11; 0x69; 0xd9; 0x8e; 0x94; 0x9b; 0x1e; 0x87; 0xe9; 0xce; 0x55; 0x28; 0xdf;
  0x8c; 0xa1; 0x89; 0x0d; 0xbf; 0xe6; 0x42; 0x68; 0x41; 0x99; 0x2d; 0x0f; 0xb0; 0x54; 0xbb; 0x16].
Definition aes_inv_sbox : list N := [
  0x52; 0x09; 0x6a; 0xd5; 0x30; 0x36; 0xa5; 0x38; 0xbf; 0x40; 0xa3; 0x9e; 0x81; 0xf3; 0xd7; 0xfb;
  0x7c; 0xe3; 0x39; 0x82; 0x9b; 0x2f; 0xff; 0x87; 0x34; 0x8e; 0x43; 0x44; 0xc4; 0xde; 0xe9; 0xcb;
  0x54; 0x7b; 0x94; 0x32; 0xa6; 0xc2; 0x23; 0x3d; 0xee; 0x4c; 0x95; 0x0b; 0x42; 0xfa; 0xc3; 0x4e;
  0x08; 0x2e; 0xa1; 0x66; 0x28; 0xd9; 0x24; 0xb2; 0x76; 0x5b; 0xa2; 0x49; 0x6d; 0x8b; 0xd1; 0x25;
  0x72; 0xf8; 0xf6; 0x64; 0x86; 0x68; 0x98; 0x16; 0xd4; 0xa4; 0x5c; 0xcc; 0x5d; 0x65; 0xb6; 0x92;
  0x6c; 0x70; 0x48; 0x50; 0xfd; 0xed; 0xb9; 0xda; 0x5e; 0x15; 0x46; 0x57; 0xa7; 0x8d; 0x9d; 0x84;
  0x90; 0xd8; 0xab; 0x00; 0x8c; 0xbc; 0xd3; 0x0a; 0xf7; 0xe4; 0x58; 0x05; 0xb8; 0xb3; 0x45; 0x06;
  0xd0; 0x2c; 0x1e; 0x8f; 0xca; 0x3f; 0x0f; 0x02; 0xc1; 0xaf; 0xbd; 0x03; 0x01; 0x13; 0x8a; 0x6b;
  0x3a; 0x91; 0x11; 0x41; 0x4f; 0x67; 0xdc; 0xea; 0x97; 0xf2; 0xcf; 0xce; 0xf0; 0xb4; 0xe6; 0x73;
  0x96; 0xac; 0x74; 0x22; 0xe7; 0xad; 0x35; 0x85; 0xe2; 0xf9; 0x37; 0xe8; 0x1c; 0x75; 0xdf; 0x6e;
  0x47; 0xf1; 0x1a; 0x71; 0x1d; 0x29; 0xc5; 0x89; 0x6f; 0xb7; 0x62; 0x0e; 0xaa; 0x18; 0xbe; 0x1b;
  0xfc; 0x56; 0x3e; 0x4b; 0xc6; 0xd2; 0x79; 0x20; 0x9a; 0xdb; 0xc0; 0xfe; 0x78; 0xcd; 0x5a; 0xf4;
  0x1f; 0xdd; 0xa8; 0x33; 0x88; 0x07; 0xc7; 0x31; 0xb1; 0x12; 0x10; 0x59; 0x27; 0x80; 0xec; 0x5f;
  0x60; 0x51; 0x7f; 0xa9; 0x19; 0xb5; 0x4a; 0x0d; 0x2d; 0xe5; 0x7a; 0x9f; 0x93; 0xc9; 0x9c; 0xef;
  0xa0; 0xe0; 0x3b; 0x4d; 0xae; 0x2a; 0xf5; 0xb0; 0xc8; 0xeb; 0xbb; 0x3c; 0x83; 0x53; 0x99; 0x61;
  0x17; 0x2b; 0x04; 0x7e; 0xba; 0x77; 0xd6; 0x26; 0xe1; 0x69; 0x14; 0x63; 0x55; 0x21; 0x0c; 0x7d].

Definition tab_get (t : list N) (x : N) : N := nth (N.to_nat x) t 0.
Definition xtime (x : N) : N :=
  let y := N.land (N.shiftl x 1) 0xFF in if 0x80 <=? x then N.lxor y 0x1b else y.
Definition gm2 := xtime.
Definition gm3 (x : N) := N.lxor (xtime x) x.
Definition gm4 (x : N) := xtime (xtime x).
Definition gm8 (x : N) := xtime (gm4 x).
Definition gm9 (x : N) := N.lxor (gm8 x) x.
Definition gm11 (x : N) := N.lxor (N.lxor (gm8 x) (gm2 x)) x.
Definition gm13 (x : N) := N.lxor (N.lxor (gm8 x) (gm4 x)) x.
Definition gm14 (x : N) := N.lxor (N.lxor (gm8 x) (gm4 x)) (gm2 x).

(* the state is the 16 input bytes in order: s[r,c] = in[r + 4c] (FIPS 197 3.4) *)
Definition permute (idx : list nat) (s : list N) : list N := map (fun i => nth i s 0) idx.
Definition shift_rows := permute [0; 5; 10; 15; 4; 9; 14; 3; 8; 13; 2; 7; 12; 1; 6; 11]%nat.
Definition inv_shift_rows := permute [0; 13; 10; 7; 4; 1; 14; 11; 8; 5; 2; 15; 12; 9; 6; 3]%nat.
Definition sub_bytes := map (tab_get aes_sbox).
Definition inv_sub_bytes := map (tab_get aes_inv_sbox).
Fixpoint mix_columns (s : list N) : list N :=
  match s with
  | a0 :: a1 :: a2 :: a3 :: r =>
      N.lxor (N.lxor (gm2 a0) (gm3 a1)) (N.lxor a2 a3) ::
      N.lxor (N.lxor a0 (gm2 a1)) (N.lxor (gm3 a2) a3) ::
      N.lxor (N.lxor a0 a1) (N.lxor (gm2 a2) (gm3 a3)) ::
      N.lxor (N.lxor (gm3 a0) a1) (N.lxor a2 (gm2 a3)) :: mix_columns r
  | _ => []
  end.
Fixpoint inv_mix_columns (s : list N) : list N :=
  match s with
  | a0 :: a1 :: a2 :: a3 :: r =>
      N.lxor (N.lxor (gm14 a0) (gm11 a1)) (N.lxor (gm13 a2) (gm9 a3)) ::
      N.lxor (N.lxor (gm9 a0) (gm14 a1)) (N.lxor (gm11 a2) (gm13 a3)) ::
      N.lxor (N.lxor (gm13 a0) (gm9 a1)) (N.lxor (gm14 a2) (gm11 a3)) ::
      N.lxor (N.lxor (gm11 a0) (gm13 a1)) (N.lxor (gm9 a2) (gm14 a3)) :: inv_mix_columns r
  | _ => []
  end.

(* key expansion (FIPS 197 5.2); words are 4-byte lists; [ws] holds w[i-1], w[i-2], ... (newest first) *)
Definition sub_word := map (tab_get aes_sbox).
Definition rot_word (w : list N) : list N := match w with a :: r => r ++ [a] | [] => [] end.
Fixpoint key_words (fuel : nat) (nk i : nat) (rcon : N) (ws : list (list N)) : list (list N) :=
  match fuel with
  | O => ws
  | S f =>
    let prev := nth 0 ws [] in
    let back := nth (nk - 1)%nat ws [] in
    if (i mod nk =? 0)%nat then
      let t := xor_lists (sub_word (rot_word prev)) [rcon; 0; 0; 0] in
      key_words f nk (S i) (xtime rcon) (xor_lists back t :: ws)
    else if (6 <? nk)%nat && (i mod nk =? 4)%nat then
      key_words f nk (S i) rcon (xor_lists back (sub_word prev) :: ws)
    else key_words f nk (S i) rcon (xor_lists back prev :: ws)
  end.
Fixpoint chunk4 (b : list N) : list (list N) :=
  match b with a :: b0 :: c :: d :: r => [a; b0; c; d] :: chunk4 r | _ => [] end.
Fixpoint chunk16 (fuel : nat) (b : list N) : list (list N) :=
  match fuel with
  | O => []
  | S f => match b with [] => [] | _ => firstn 16 b :: chunk16 f (skipn 16 b) end
  end.
(* round keys 0 .. Nr, 16 bytes each; key of 16 / 24 / 32 bytes *)
Definition aes_round_keys (key : list N) : list (list N) :=
  let nk := (length key / 4)%nat in
  let total := (4 * (nk + 7))%nat in
  let ws := key_words (total - nk)%nat nk nk 1 (rev (chunk4 key)) in
  chunk16 (nk + 7)%nat (concat (rev ws)).

Definition add_round_key := xor_lists.

Fixpoint aes_enc_rounds (rks : list (list N)) (s : list N) : list N :=
  match rks with
  | [] => s
  | [k] => add_round_key (shift_rows (sub_bytes s)) k
  | k :: rest => aes_enc_rounds rest (add_round_key (mix_columns (shift_rows (sub_bytes s))) k)
  end.
Definition aes_encrypt_block (key blk : list N) : list N :=
  match aes_round_keys key with
  | k0 :: rest => aes_enc_rounds rest (add_round_key blk k0)
  | [] => blk
  end.

(* inverse cipher (FIPS 197 5.3), round keys taken in reverse *)
Fixpoint aes_dec_rounds (rks : list (list N)) (s : list N) : list N :=
  match rks with
  | [] => s
  | [k] => add_round_key (inv_sub_bytes (inv_shift_rows s)) k
  | k :: rest => aes_dec_rounds rest (inv_mix_columns (add_round_key (inv_sub_bytes (inv_shift_rows s)) k))
  end.
Definition aes_decrypt_block (key blk : list N) : list N :=
  match rev (aes_round_keys key) with
  | kl :: rest => aes_dec_rounds rest (add_round_key blk kl)
  | [] => blk
  end.

(* ------------------------------------------------------------------ CBC, SP 800-38A 6.2 (whole blocks) *)
Section CbcSpec.
  Variable E D : list N -> list N.        (* forward / inverse cipher under the key *)
  (* C_1 = E(P_1 xor IV), C_j = E(P_j xor C_{j-1});  n = number of blocks *)
  Fixpoint cbc_encrypt_spec (n : nat) (iv pt : list N) : list N :=
    match n with
    | O => []
    | S n' => let c := E (xor_lists (firstn 16 pt) iv) in c ++ cbc_encrypt_spec n' c (skipn 16 pt)
    end.
  (* P_1 = D(C_1) xor IV, P_j = D(C_j) xor C_{j-1} *)
  Fixpoint cbc_decrypt_spec (n : nat) (iv ct : list N) : list N :=
    match n with
    | O => []
    | S n' => let c := firstn 16 ct in xor_lists (D c) iv ++ cbc_decrypt_spec n' c (skipn 16 ct)
    end.
End CbcSpec.
Definition aes_cbc_encrypt_spec (key iv pt : list N) : list N :=
  cbc_encrypt_spec (aes_encrypt_block key) (length pt / 16)%nat iv pt.
Definition aes_cbc_decrypt_spec (key iv ct : list N) : list N :=
  cbc_decrypt_spec (aes_decrypt_block key) (length ct / 16)%nat iv ct.

(* ------------------------------------------------------------------ GCM, SP 800-38D *)
(* a 16-byte block as a number, first byte most significant; bit 0 of the standard = bit 127 of the number *)
Fixpoint be_num (b : list N) (acc : N) : N :=
  match b with [] => acc | x :: r => be_num r (N.lor (N.shiftl acc 8) x) end.
Definition blk_num (b : list N) : N := be_num (firstn 16 (b ++ repeat 0 16)) 0.     (* zero-padded on the right *)
Fixpoint num_bytes (n : nat) (x : N) (acc : list N) : list N :=
  match n with O => acc | S n' => num_bytes n' (N.shiftr x 8) (N.land x 0xFF :: acc) end.
Definition num_blk (x : N) : list N := num_bytes 16 x [].

Definition gcm_R : N := N.shiftl 0xE1 120.
(* X . Y  (6.3, Algorithm 1) *)
Fixpoint gf_mul_loop (n : nat) (i : N) (x z v : N) : N :=
  match n with
  | O => z
  | S n' =>
    let z' := if N.testbit x i then N.lxor z v else z in
    let v' := if N.testbit v 0 then N.lxor (N.shiftr v 1) gcm_R else N.shiftr v 1 in
    gf_mul_loop n' (i - 1) x z' v'
  end.
Definition gf_mul (x y : N) : N := gf_mul_loop 128 127 x 0 y.

(* GHASH_H over whole blocks (6.4) *)
Fixpoint ghash_blocks (fuel : nat) (h y : N) (b : list N) : N :=
  match fuel with
  | O => y
  | S f => match b with [] => y | _ => ghash_blocks f h (gf_mul (N.lxor y (blk_num b)) h) (skipn 16 b) end
  end.
Definition ghash (h y : N) (b : list N) : N := ghash_blocks (S (length b)) h y b.

Definition inc32 (cb : list N) : list N :=
  firstn 12 cb ++ be32 (w32 (be_num (skipn 12 cb) 0 + 1)).
(* GCTR_K(ICB, X) (6.5) *)
Fixpoint gctr (E : list N -> list N) (fuel : nat) (cb x : list N) : list N :=
  match fuel with
  | O => []
  | S f => match x with [] => [] | _ => xor_lists (firstn 16 x) (E cb) ++ gctr E f (inc32 cb) (skipn 16 x) end
  end.

Section GcmSpec.
  Variable E : list N -> list N.
  Definition gcm_H : N := blk_num (E (repeat 0 16)).
  Definition gcm_J0 (iv : list N) : list N := iv ++ [0; 0; 0; 1].            (* len(IV) = 96 *)
  Definition gcm_lenblock (a c : list N) : list N :=
    be64 (w64 (8 * N.of_nat (length a))) ++ be64 (w64 (8 * N.of_nat (length c))).
  (* S = GHASH_H(A || 0^v || C || 0^u || [len(A)]_64 || [len(C)]_64); T = MSB_t(GCTR_K(J0, S)) *)
  Definition gcm_tag (iv aad ct : list N) : list N :=
    let s := ghash gcm_H (ghash gcm_H (ghash gcm_H 0 aad) ct) (gcm_lenblock aad ct) in
    xor_lists (num_blk s) (E (gcm_J0 iv)).
  Definition gcm_encrypt_spec (iv aad pt : list N) (t : nat) : list N * list N :=
    let ct := gctr E (S (length pt)) (inc32 (gcm_J0 iv)) pt in
    (ct, firstn t (gcm_tag iv aad ct)).
  (* 7.2: returns the plaintext only when the tag matches *)
  Definition bytes_eqb (a b : list N) : bool :=
    (length a =? length b)%nat && forallb (fun p => fst p =? snd p) (combine a b).
  Definition gcm_decrypt_spec (iv aad ct tag : list N) : option (list N) :=
    if bytes_eqb (firstn (length tag) (gcm_tag iv aad ct)) tag
    then Some (gctr E (S (length ct)) (inc32 (gcm_J0 iv)) ct) else None.
End GcmSpec.
Definition aes_gcm_encrypt_spec (key : list N) := gcm_encrypt_spec (aes_encrypt_block key).
Definition aes_gcm_decrypt_spec (key : list N) := gcm_decrypt_spec (aes_encrypt_block key).

(* ------------------------------------------------------------------ ChaCha20-Poly1305, RFC 8439 *)
Definition qround (a b c d : N) : N * N * N * N :=
  let a := add32 a b in let d := rotl32 (N.lxor d a) 16 in
  let c := add32 c d in let b := rotl32 (N.lxor b c) 12 in
  let a := add32 a b in let d := rotl32 (N.lxor d a) 8 in
  let c := add32 c d in let b := rotl32 (N.lxor b c) 7 in
  (a, b, c, d).
Definition chacha_double (s : list N) : list N :=
  match s with
  | [x0; x1; x2; x3; x4; x5; x6; x7; x8; x9; x10; x11; x12; x13; x14; x15] =>
    let '(x0, x4, x8, x12) := qround x0 x4 x8 x12 in
    let '(x1, x5, x9, x13) := qround x1 x5 x9 x13 in
    let '(x2, x6, x10, x14) := qround x2 x6 x10 x14 in
    let '(x3, x7, x11, x15) := qround x3 x7 x11 x15 in
    let '(x0, x5, x10, x15) := qround x0 x5 x10 x15 in
    let '(x1, x6, x11, x12) := qround x1 x6 x11 x12 in
    let '(x2, x7, x8, x13) := qround x2 x7 x8 x13 in
    let '(x3, x4, x9, x14) := qround x3 x4 x9 x14 in
    [x0; x1; x2; x3; x4; x5; x6; x7; x8; x9; x10; x11; x12; x13; x14; x15]
  | _ => s
  end.
Fixpoint iter_n {A : Type} (n : nat) (f : A -> A) (x : A) : A :=
  match n with O => x | S n' => iter_n n' f (f x) end.
Fixpoint add32_lists (a b : list N) : list N :=
  match a, b with x :: a', y :: b' => add32 x y :: add32_lists a' b' | _, _ => [] end.
(* 2.3: the ChaCha20 block function, 64 bytes of key stream *)
Definition chacha20_block (key : list N) (counter : N) (nonce : list N) : list N :=
  let st := [0x61707865; 0x3320646e; 0x79622d32; 0x6b206574] ++ words_le32 key ++ [w32 counter] ++ words_le32 nonce in
  flat_map le32 (add32_lists (iter_n 10 chacha_double st) st).
(* 2.4 *)
Fixpoint chacha20_xor (fuel : nat) (key : list N) (counter : N) (nonce data : list N) : list N :=
  match fuel with
  | O => []
  | S f => match data with
           | [] => []
           | _ => xor_lists (firstn 64 data) (chacha20_block key counter nonce)
                  ++ chacha20_xor f key (counter + 1) nonce (skipn 64 data)
           end
  end.
(* little-endian number of a byte string *)
Fixpoint le_num (b : list N) : N := match b with [] => 0 | x :: r => x + 256 * le_num r end.
Definition poly_p : N := 2 ^ 130 - 5.
(* 2.5.1 *)
Fixpoint poly1305_blocks (fuel : nat) (r a : N) (m : list N) : N :=
  match fuel with
  | O => a
  | S f => match m with
           | [] => a
           | _ => let blk := firstn 16 m in
                  poly1305_blocks f r (((a + le_num (blk ++ [1])) * r) mod poly_p) (skipn 16 m)
           end
  end.
Definition poly1305_mac (key msg : list N) : list N :=
  let r := N.land (le_num (firstn 16 key)) 0x0ffffffc0ffffffc0ffffffc0fffffff in
  let s := le_num (skipn 16 key) in
  let a := poly1305_blocks (S (length msg)) r 0 msg in
  rev (num_bytes 16 ((a + s) mod 2 ^ 128) []).
Definition pad16 (b : list N) : list N := b ++ repeat 0 ((16 - length b mod 16) mod 16)%nat.
(* 2.8 *)
Definition chachapoly_tag (key nonce aad ct : list N) : list N :=
  let otk := firstn 32 (chacha20_block key 0 nonce) in
  poly1305_mac otk (pad16 aad ++ pad16 ct ++ le64 (w64 (N.of_nat (length aad))) ++ le64 (w64 (N.of_nat (length ct)))).
Definition chachapoly_seal_spec (key nonce aad pt : list N) : list N :=
  let ct := chacha20_xor (S (length pt)) key 1 nonce pt in
  ct ++ chachapoly_tag key nonce aad ct.
(* sealed = ct || tag(16); None when the tag does not verify (or sealed is shorter than a tag) *)
Definition chachapoly_open_spec (key nonce aad sealed : list N) : option (list N) :=
  if (length sealed <? 16)%nat then None else
  let n := (length sealed - 16)%nat in
  let ct := firstn n sealed in
  if bytes_eqb (chachapoly_tag key nonce aad ct) (skipn n sealed)
  then Some (chacha20_xor (S n) key 1 nonce ct) else None.
