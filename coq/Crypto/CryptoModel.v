(* C12 - code-shaped, executable MODELS of the C contexts (no proofs in this file).

   Digests (crypto/digest/sha256.c 233-356, sha1.c 170-291, sha512.c 178-283, md5.c 45-175):
   the libtomcrypt-style context (state, curlen, buf, length) with Init / Update / Final.
   [buf c] holds the curlen valid bytes of the C array buf[] (curlen = length (buf c)); bytes of
   buf[] at and above curlen are never read by the C code before being overwritten, so they are
   not represented.  [len c] is the uint64 bit counter `length` (reduced mod 2^64 at each step).

   HMAC (crypto/digest/hmac.c): the streaming psHmac<H>Init/Update/Final (pad[] + inner digest
   context) and the one-shot psHmac<H>() that hashes keys longer than the block first and reports
   the key it used.  The Init modelled here is the FIXED one (pending-fixes/C12-hmac-long-key.patch):
   keys longer than the block are hashed before being copied into pad[]; a write past the end of
   pad[] is the distinguished result [Fault].

   HKDF (crypto/digest/hkdf.c 44-146, 148-178), PBKDF2 (crypto/keyformat/pkcs.c 1411-1464). *)
From Coq Require Import List NArith ZArith Arith Bool.
From MV Require Import Crypto.CryptoPrims Crypto.CryptoSpec.
Import ListNotations.

Inductive res (A : Type) : Type :=
| Ok (a : A)
| Fault                (* out-of-bounds write / read *)
| ArgFail              (* PS_ARG_FAIL *)
| LimitFail            (* PS_LIMIT_FAIL *)
| OutOfFuel.
Arguments Ok {A} a.
Arguments Fault {A}.
Arguments ArgFail {A}.
Arguments LimitFail {A}.
Arguments OutOfFuel {A}.

(* propagate a non-Ok result (`if (rc < 0) return rc;`) *)
Definition bind {A C : Type} (r : res A) (f : A -> res C) : res C :=
  match r with
  | Ok a => f a
  | Fault => Fault | ArgFail => ArgFail | LimitFail => LimitFail | OutOfFuel => OutOfFuel
  end.

Section MDModel.
  Variable state : Type.
  Variable B : nat.                       (* sizeof(buf): 64 / 128 *)
  Variable T : nat.                       (* the `curlen > 56` / `> 112` threshold in Final *)
  Variable Z : nat.                       (* zero fill limit, where the 64-bit length is stored: 56 / 120 *)
  Variable fast : bool.                   (* Update has the "curlen == 0 && len >= B" fast path (sha256.c, sha512.c) *)
  Variable compress : state -> list N -> state.
  Variable store64 : N -> list N.         (* STORE64H / STORE64L *)
  Variable iv : state.
  Variable out : state -> list N.

  Record ctx : Type := { st : state; buf : list N; len : N }.

  Definition md_init : ctx := {| st := iv; buf := []; len := 0 |}.

  Definition bump (l : N) : N := ((l + 8 * N.of_nat B) mod 2 ^ 64)%N.      (* length += 512 / 1024 *)

  (* while (len > 0) { ... }  -- fuel = S (length d) always suffices (every turn consumes >= 1 byte) *)
  Fixpoint update_fuel (fuel : nat) (c : ctx) (d : list N) : ctx :=
    match fuel with
    | O => c
    | S f =>
      match d with
      | [] => c
      | _ =>
        if fast && (length (buf c) =? 0) && (B <=? length d) then
          (* compress directly from the caller's buffer *)
          update_fuel f {| st := compress (st c) (firstn B d); buf := []; len := bump (len c) |} (skipn B d)
        else
          let n := Nat.min (length d) (B - length (buf c)) in
          let b := buf c ++ firstn n d in                                   (* Memcpy(buf + curlen, in, n) *)
          if length b =? B then
            update_fuel f {| st := compress (st c) b; buf := []; len := bump (len c) |} (skipn n d)
          else
            update_fuel f {| st := st c; buf := b; len := len c |} (skipn n d)
      end
    end.
  Definition md_update (c : ctx) (d : list N) : ctx := update_fuel (S (length d)) c d.

  Definition md_final (c : ctx) : list N :=
    let l := ((len c + 8 * N.of_nat (length (buf c))) mod 2 ^ 64)%N in      (* length += curlen << 3 *)
    let b := buf c ++ [128%N] in                                            (* buf[curlen++] = 0x80 *)
    let sb :=
      if T <? length b                                                      (* if (curlen > 56) *)
      then (compress (st c) (b ++ repeat 0%N (B - length b)), [])           (*   zero fill, compress, curlen = 0 *)
      else (st c, b) in
    let b2 := snd sb ++ repeat 0%N (Z - length (snd sb)) in                 (* while (curlen < 56) buf[curlen++] = 0 *)
    out (compress (fst sb) (b2 ++ store64 l)).                              (* STORE64H(length, buf+56); compress; output *)

  (* the one-call convenience used by other models: Init; Update(all); Final *)
  Definition md_oneshot (m : list N) : list N := md_final (md_update md_init m).
End MDModel.

Arguments st {state}. Arguments buf {state}. Arguments len {state}.

(* instances *)
Definition sha256_ctx := ctx st8.
Definition sha256_init   := md_init st8 sha256_iv.
Definition sha256_update := md_update st8 64 true sha256_compress.
Definition sha256_final  := md_final st8 64 56 56 sha256_compress be64 sha256_out.

Definition sha1_init   := md_init st5 sha1_iv.
Definition sha1_update := md_update st5 64 false sha1_compress.
Definition sha1_final  := md_final st5 64 56 56 sha1_compress be64 sha1_out.

Definition sha512_init   := md_init st8 sha512_iv.
Definition sha512_update := md_update st8 128 true sha512_compress.
Definition sha512_final  := md_final st8 128 112 120 sha512_compress be64 sha512_out.

(* psSha384Final: psSha512Final into a 64-byte buffer, Memcpy(out, buf, SHA384_HASHLEN) *)
Definition sha384_init   := md_init st8 sha384_iv.
Definition sha384_update := sha512_update.
Definition sha384_final  := md_final st8 128 112 120 sha512_compress be64 (fun s => firstn 48 (sha512_out s)).

Definition md5_init   := md_init st4 md5_iv.
Definition md5_update := md_update st4 64 false md5_compress.
Definition md5_final  := md_final st4 64 56 56 md5_compress le64 md5_out.

(* ------------------------------------------------------------------ HMAC *)
Section HmacModel.
  Variable hctx : Type.
  Variable hinit : hctx.
  Variable hupdate : hctx -> list N -> hctx.
  Variable hfinal : hctx -> list N.
  Variable B : nat.                       (* sizeof(pad) = block size *)
  Variable hlen : nat.                    (* <H>_HASHLEN *)

  Record hmac_ctx : Type := { pad : list N; hc : hctx }.

  (* psHmacSha256Init etc. (fixed): hmac.c 490-516 + the long-key step *)
  Definition hmac_init (key : list N) : res hmac_ctx :=
    let key := if B <? length key                                           (* if (keyLen > padLen) *)
               then hfinal (hupdate hinit key)                              (*   Init; Update(key); Final(hashedKey); key = hashedKey *)
               else key in
    if B <? length key then Fault                                           (* ctx->pad[i], i >= sizeof(pad) *)
    else
      let ipad := xor_bytes 0x36 key ++ repeat 0x36%N (B - length key) in
      Ok {| pad := xor_bytes 0x5c key ++ repeat 0x5c%N (B - length key);    (* second pair of loops *)
            hc := hupdate hinit ipad |}.

  Definition hmac_update (c : hmac_ctx) (d : list N) : hmac_ctx :=
    {| pad := pad c; hc := hupdate (hc c) d |}.

  (* Final(inner); Init; Update(pad, B); Update(inner, hashlen); Final *)
  Definition hmac_final (c : hmac_ctx) : list N :=
    let inner := hfinal (hc c) in
    hfinal (hupdate (hupdate hinit (pad c)) inner).

  (* one-shot psHmacSha256(key, keyLen, buf, len, hash, hmacKey, &hmacKeyLen): hmac.c 441-488.
     Result: the MAC and *hmacKeyLen (the TLS PRF in matrixssl/prf.c relies on the latter) *)
  Definition ps_hmac (key msg : list N) : res (list N * nat) :=
    let hk := if B <? length key
              then (hfinal (hupdate hinit key), hlen)                       (* *hmacKeyLen = SHA256_HASHLEN *)
              else (key, length key) in
    bind (hmac_init (fst hk)) (fun c => Ok (hmac_final (hmac_update c msg), snd hk)).

  (* ---------------------------------------------------------------- HKDF, hkdf.c *)
  Definition HKDF_MAX_INFO_LEN : nat := 80.

  (* psHkdfExtract: psHmac(alg, salt, saltLen, ikm, ikmLen, prk); *prkLen = hashLen *)
  Definition hkdf_extract (salt ikm : list N) : res (list N) :=
    bind (ps_hmac salt ikm) (fun r => Ok (fst r)).

  (* the while(1) loop of psHkdfExpand: i = block counter, okm = bytes written so far *)
  Fixpoint hkdf_loop (fuel : nat) (prk info : list N) (L : nat) (i : N) (okm : list N) : res (list N) :=
    match fuel with
    | O => OutOfFuel
    | S f =>
      let prev := if (i =? 1)%N then [] else skipn (length okm - hlen) okm in   (* Memcpy(p, out - hashLen, hashLen) *)
      let b := prev ++ info ++ [(i mod 256)%N] in                               (* *p = i  (unsigned char) *)
      bind (ps_hmac prk b) (fun r =>
          let t := fst r in
          let still := L - length okm in                                        (* stillNeeded = outEnd - out *)
          if still <? hlen then Ok (okm ++ firstn still t)                      (* Memcpy(out, T, stillNeeded); break *)
          else hkdf_loop f prk info L (i + 1)%N (okm ++ t))
    end.

  Definition hkdf_expand (prk info : list N) (L : nat) : res (list N) :=
    if HKDF_MAX_INFO_LEN <? length info then LimitFail
    else if (length prk <? hlen) || (hlen * 255 <? L) then ArgFail
    else hkdf_loop 257 prk info L 1%N [].

  (* ---------------------------------------------------------------- PBKDF2, pkcs.c 1411-1464
     (the C function is HMAC-SHA1 only; the model is generic in the hash) *)
  Definition prf_stream (pw : list N) (parts : list (list N)) : res (list N) :=
    bind (hmac_init pw)                                                      (* psHmacSha1Init(&hmac, password, pLen) *)
         (fun c => Ok (hmac_final (fold_left hmac_update parts c))).        (* Update ... ; Final *)

  (* for (itts = 1; itts < rounds; ++itts): n = remaining turns; b0 = buf[0], b1 = buf[1] *)
  Fixpoint pbkdf2_inner (n : nat) (pw b0 b1 : list N) : res (list N) :=
    match n with
    | O => Ok b1
    | S n' =>
      bind (prf_stream pw [b0]) (fun b0' => pbkdf2_inner n' pw b0' (xor_lists b1 b0'))
    end.

  (* while (left != 0) *)
  Fixpoint pbkdf2_loop (fuel : nat) (pw salt : list N) (rounds : Z) (left : nat) (blkno : N) (key : list N)
    : res (list N) :=
    if left =? 0 then Ok key else
    match fuel with
    | O => OutOfFuel
    | S f =>
      let cnt := be32 blkno in                                               (* STORE32H(blkno, buf[1]); ++blkno *)
      bind (prf_stream pw [salt; cnt]) (fun b0 =>
      bind (pbkdf2_inner (Z.to_nat (rounds - 1)) pw b0 b0) (fun b1 =>
        let n := Nat.min hlen left in                                       (* for (i = 0; i < HASH_SIZE && left != 0; ++i) *)
        pbkdf2_loop f pw salt rounds (left - n) ((blkno + 1) mod 2 ^ 32)%N (key ++ firstn n b1)))
    end.

  Definition pbkdf2 (pw salt : list N) (rounds : Z) (kLen : nat) : res (list N) :=
    pbkdf2_loop (S kLen) pw salt rounds kLen 1%N [].
End HmacModel.

Arguments pad {hctx}. Arguments hc {hctx}.

Definition hmac_sha256_init   := hmac_init sha256_ctx sha256_init sha256_update sha256_final 64.
Definition hmac_sha256_update := hmac_update sha256_ctx sha256_update.
Definition hmac_sha256_final  := hmac_final sha256_ctx sha256_init sha256_update sha256_final.
Definition ps_hmac_sha256     := ps_hmac sha256_ctx sha256_init sha256_update sha256_final 64 32.

Definition hmac_sha1_init   := hmac_init (ctx st5) sha1_init sha1_update sha1_final 64.
Definition hmac_sha1_update := hmac_update (ctx st5) sha1_update.
Definition hmac_sha1_final  := hmac_final (ctx st5) sha1_init sha1_update sha1_final.
Definition ps_hmac_sha1     := ps_hmac (ctx st5) sha1_init sha1_update sha1_final 64 20.

Definition hmac_sha384_init   := hmac_init (ctx st8) sha384_init sha384_update sha384_final 128.
Definition hmac_sha384_update := hmac_update (ctx st8) sha384_update.
Definition hmac_sha384_final  := hmac_final (ctx st8) sha384_init sha384_update sha384_final.
Definition ps_hmac_sha384     := ps_hmac (ctx st8) sha384_init sha384_update sha384_final 128 48.

Definition hmac_md5_init   := hmac_init (ctx st4) md5_init md5_update md5_final 64.
Definition hmac_md5_update := hmac_update (ctx st4) md5_update.
Definition hmac_md5_final  := hmac_final (ctx st4) md5_init md5_update md5_final.
Definition ps_hmac_md5     := ps_hmac (ctx st4) md5_init md5_update md5_final 64 16.

Definition hkdf_extract_sha256 := hkdf_extract sha256_ctx sha256_init sha256_update sha256_final 64 32.
Definition hkdf_expand_sha256  := hkdf_expand sha256_ctx sha256_init sha256_update sha256_final 64 32.
Definition hkdf_extract_sha384 := hkdf_extract (ctx st8) sha384_init sha384_update sha384_final 128 48.
Definition hkdf_expand_sha384  := hkdf_expand (ctx st8) sha384_init sha384_update sha384_final 128 48.
Definition hkdf_extract_sha1   := hkdf_extract (ctx st5) sha1_init sha1_update sha1_final 64 20.
Definition hkdf_expand_sha1    := hkdf_expand (ctx st5) sha1_init sha1_update sha1_final 64 20.

Definition pbkdf2_sha1 := pbkdf2 (ctx st5) sha1_init sha1_update sha1_final 64 20.
