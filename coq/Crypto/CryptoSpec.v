(* C12 - one-shot functional SPECIFICATIONS on byte lists, written after the standards' text and
   independent of the shape of the C code:
     Merkle-Damgaard hashing with the FIPS 180-4 5.1 / RFC 1321 3.1-3.2 padding  (md_spec)
     SHA-256, SHA-1, SHA-384, SHA-512, MD5 as instances
     HMAC (RFC 2104 section 2), HKDF-Extract / HKDF-Expand (RFC 5869 2.2, 2.3), PBKDF2 (RFC 8018 5.2).
   Lengths: the standards define the hashes for messages shorter than 2^64 bits (2^128 for
   SHA-384/512); the length field is written here as (8*len) mod 2^64, which is the standard's
   value whenever len < 2^61 bytes. *)
From Coq Require Import List NArith Arith Bool.
From MV Require Import Crypto.CryptoPrims.
Import ListNotations.

Section MDSpec.
  Variable state : Type.
  Variable B : nat.                       (* block size in bytes: 64 / 128 *)
  Variable T : nat.                       (* offset of the length field in the last block: 56 / 112 *)
  Variable compress : state -> list N -> state.
  Variable lenfield : N -> list N.        (* the B-T bytes holding the bit length *)
  Variable iv : state.
  Variable out : state -> list N.

  (* split into B-byte blocks and fold the compression function; a trailing partial block is
     returned untouched *)
  Fixpoint absorb_fuel (fuel : nat) (s : state) (m : list N) : state * list N :=
    match fuel with
    | O => (s, m)
    | S f => if B <=? length m then absorb_fuel f (compress s (firstn B m)) (skipn B m) else (s, m)
    end.
  Definition absorb (s : state) (m : list N) : state * list N := absorb_fuel (length m) s m.

  (* k zero bytes, k minimal with (n + 1 + k) mod B = T *)
  Definition padzeros (n : nat) : nat := (T + B - 1 - n mod B) mod B.
  Definition md_pad (n : nat) : list N :=
    128%N :: repeat 0%N (padzeros n) ++ lenfield ((8 * N.of_nat n) mod 2 ^ 64)%N.

  Definition md_spec (m : list N) : list N := out (fst (absorb iv (m ++ md_pad (length m)))).
End MDSpec.

(* length fields *)
Definition lenfield_be64 (bits : N) : list N := be64 bits.                       (* SHA-1, SHA-256 *)
Definition lenfield_le64 (bits : N) : list N := le64 bits.                       (* MD5 *)
Definition lenfield_be128 (bits : N) : list N := repeat 0%N 8 ++ be64 bits.      (* SHA-384/512; bits < 2^64 *)

Definition sha256_spec : list N -> list N := md_spec st8 64 56 sha256_compress lenfield_be64 sha256_iv sha256_out.
Definition sha1_spec   : list N -> list N := md_spec st5 64 56 sha1_compress lenfield_be64 sha1_iv sha1_out.
Definition sha512_spec : list N -> list N := md_spec st8 128 112 sha512_compress lenfield_be128 sha512_iv sha512_out.
Definition sha384_spec : list N -> list N := md_spec st8 128 112 sha512_compress lenfield_be128 sha384_iv sha384_out.
Definition md5_spec    : list N -> list N := md_spec st4 64 56 md5_compress lenfield_le64 md5_iv md5_out.

(* ------------------------------------------------------------------ HMAC, RFC 2104 *)
Definition xor_bytes (c : N) (l : list N) : list N := map (fun x => N.lxor x c) l.
Fixpoint xor_lists (a b : list N) : list N :=
  match a, b with
  | x :: a', y :: b' => N.lxor x y :: xor_lists a' b'
  | _, _ => []
  end.

Section HmacSpec.
  Variable H : list N -> list N.
  Variable B : nat.                       (* block size of H in bytes *)

  (* (1) "append zeros to the end of K to create a B byte string"; keys longer than B are first
     hashed (RFC 2104 section 2, second paragraph) *)
  Definition hmac_k0 (key : list N) : list N :=
    let k := if B <? length key then H key else key in
    k ++ repeat 0%N (B - length k).

  Definition hmac_spec (key msg : list N) : list N :=
    let k0 := hmac_k0 key in
    H (xor_bytes 0x5c k0 ++ H (xor_bytes 0x36 k0 ++ msg)).

  (* ---------------------------------------------------------------- HKDF, RFC 5869 *)
  Variable hlen : nat.                    (* output length of H *)

  Definition hkdf_extract_spec (salt ikm : list N) : list N := hmac_spec salt ikm.

  (* T(i) .. T(i+n-1) concatenated; prev = T(i-1) *)
  Fixpoint hkdf_T (prk info prev : list N) (i : N) (n : nat) : list N :=
    match n with
    | O => []
    | S n' => let t := hmac_spec prk (prev ++ info ++ [i]) in t ++ hkdf_T prk info t (i + 1) n'
    end.
  (* N = ceil(L/HashLen); OKM = first L octets of T(1) | ... | T(N); defined for L <= 255*HashLen *)
  Definition hkdf_expand_spec (prk info : list N) (L : nat) : list N :=
    firstn L (hkdf_T prk info [] 1 ((L + hlen - 1) / hlen)).

  (* ---------------------------------------------------------------- PBKDF2, RFC 8018 5.2 *)
  (* U_2 xor ... : acc already holds U_1 xor .. xor U_j, u = U_j *)
  Fixpoint pbkdf2_U (P u acc : list N) (n : nat) : list N :=
    match n with
    | O => acc
    | S n' => let u' := hmac_spec P u in pbkdf2_U P u' (xor_lists acc u') n'
    end.
  (* F(P, S, c, i) *)
  Definition pbkdf2_F (P S : list N) (c : nat) (i : N) : list N :=
    let u1 := hmac_spec P (S ++ be32 i) in pbkdf2_U P u1 u1 (c - 1).
  Fixpoint pbkdf2_Ts (P S : list N) (c : nat) (i : N) (n : nat) : list N :=
    match n with
    | O => []
    | S n' => pbkdf2_F P S c i ++ pbkdf2_Ts P S c (i + 1) n'
    end.
  (* DK = T_1 || ... || T_l truncated to dkLen, l = ceil(dkLen/hLen); c >= 1 *)
  Definition pbkdf2_spec (P S : list N) (c : nat) (dkLen : nat) : list N :=
    firstn dkLen (pbkdf2_Ts P S c 1 ((dkLen + hlen - 1) / hlen)).
End HmacSpec.

Definition hmac_sha256_spec := hmac_spec sha256_spec 64.
Definition hmac_sha1_spec   := hmac_spec sha1_spec 64.
Definition hmac_sha384_spec := hmac_spec sha384_spec 128.
Definition hmac_md5_spec    := hmac_spec md5_spec 64.
Definition hkdf_extract_sha256_spec := hkdf_extract_spec sha256_spec 64.
Definition hkdf_expand_sha256_spec := hkdf_expand_spec sha256_spec 64 32.
Definition hkdf_extract_sha384_spec := hkdf_extract_spec sha384_spec 128.
Definition hkdf_expand_sha384_spec := hkdf_expand_spec sha384_spec 128 48.
Definition hkdf_expand_sha1_spec := hkdf_expand_spec sha1_spec 64 20.
Definition pbkdf2_sha1_spec := pbkdf2_spec sha1_spec 64 20.
