(* C12 - the remaining legacy digest entry points built in this configuration (no proofs in this file):
   MD5||SHA-1 (crypto/digest/md5sha1.c 50-96, the TLS < 1.2 handshake hash) and the PBKDF1-style
   psPkcs5Pbkdf1 (crypto/keyformat/pkcs.c 1399-1437: OpenSSL's EVP_BytesToKey with MD5, count 1, 24 key bytes,
   used for `DEK-Info: DES-EDE3-CBC` PEM private keys).  Specification and code-shaped model side by side. *)
From Coq Require Import List NArith Arith Bool.
From MV Require Import Crypto.CryptoPrims Crypto.CryptoSpec Crypto.CryptoModel.
Import ListNotations.

(* ---- spec *)
Definition md5sha1_spec (m : list N) : list N := md5_spec m ++ sha1_spec m.
(* D_1 = MD5(pass || salt), D_2 = MD5(D_1 || pass || salt); key = first 24 bytes of D_1 || D_2 *)
Definition pbkdf1_md5_spec (pass salt8 : list N) : list N :=
  let d1 := md5_spec (pass ++ salt8) in
  let d2 := md5_spec (d1 ++ pass ++ salt8) in
  firstn 24 (d1 ++ d2).

(* ---- model *)
Record md5sha1_ctx : Type := { ms_md5 : ctx st4; ms_sha1 : ctx st5 }.
Definition md5sha1_init : md5sha1_ctx := {| ms_md5 := md5_init; ms_sha1 := sha1_init |}.
Definition md5sha1_update (c : md5sha1_ctx) (d : list N) : md5sha1_ctx :=
  {| ms_md5 := md5_update (ms_md5 c) d; ms_sha1 := sha1_update (ms_sha1 c) d |}.
(* psMd5Final(&md->md5, hash); psSha1Final(&md->sha1, hash + MD5_HASHLEN) *)
Definition md5sha1_final (c : md5sha1_ctx) : list N := md5_final (ms_md5 c) ++ sha1_final (ms_sha1 c).

(* psPkcs5Pbkdf1(pass, passlen, salt, iter = 1, key): salt is read as 8 bytes *)
Definition pbkdf1_md5 (pass salt : list N) : list N :=
  let salt8 := firstn 8 salt in
  let md5a := md5_final (md5_update (md5_update md5_init pass) salt8) in                 (* Memcpy(key, md5, 16) *)
  let md5b := md5_final (md5_update (md5_update (md5_update md5_init md5a) pass) salt8) in
  md5a ++ firstn (24 - 16) md5b.                                                          (* Memcpy(key + 16, md5, 24 - 16) *)
