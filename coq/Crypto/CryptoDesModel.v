(* C12 - code-shaped MODEL of crypto/symmetric/des3.c (no proofs in this file).

   deskey (1317-1383), cookey (1290-1315), desfunc (1385-1500, the bit-trick IP/FP path that is compiled
   when PS_3DES_IMPROVE_PERF_INCREASE_CODESIZE is off), psDes3InitKey (1642-1659), psDes3EncryptBlock /
   psDes3DecryptBlock (1661-1687), psDes3Init / psDes3Encrypt / psDes3Decrypt (1505-1617).
   The tables bytebit, bigbyte, pc1, pc2, totrot, SP1..SP8 come from Gen/ConstsDes3.v, regenerated from the
   source on every run.  uint32 variables are N reduced with w32 wherever the C operation can overflow.
   The three-stage composition and the CBC drivers are written over an abstract (deskey, desfunc) pair
   (Section Des3Model) so that the proofs about key order and chaining do not depend on the S-box network;
   the instances at the end plug in the concrete code-shaped functions. *)
From Coq Require Import List NArith Arith Bool.
From MV Require Import Gen.ConstsDes3 Crypto.CryptoPrims Crypto.CryptoSpec Crypto.CryptoModel.
Import ListNotations.

(* the model is about the path compiled in this configuration *)
Example des3_compiled_path : f_USE_MATRIX_3DES = true /\ f_PS_3DES_IMPROVE_PERF_INCREASE_CODESIZE = false.
Proof. split; reflexivity. Qed.

Definition EN0 : bool := false.
Definition DE1 : bool := true.

Fixpoint upd {A : Type} (l : list A) (i : nat) (v : A) : list A :=
  match l, i with
  | [], _ => []
  | _ :: r, O => v :: r
  | x :: r, S i' => x :: upd r i' v
  end.

(* ------------------------------------------------------------------ deskey *)
(* pc1m[j] = (key[l >> 3] & bytebit[l & 7]) == bytebit[l & 7],  l = pc1[j] *)
Definition c_pc1m (key : list N) : list bool :=
  map (fun l => let bb := nth (l mod 8) des3_bytebit 0%N in (N.land (nth (l / 8) key 0%N) bb =? bb)%N) des3_pc1.

(* pcr[j], j = 0..55, for rotation amount rot = totrot[i] *)
Definition c_pcr (pc1m : list bool) (rot : nat) : list bool :=
  map (fun j => let l := j + rot in
                if j <? 28 then (if l <? 28 then nth l pc1m false else nth (l - 28) pc1m false)
                else (if l <? 56 then nth l pc1m false else nth (l - 28) pc1m false))
      (seq 0 56).

(* kn[m] |= bigbyte[j] for the j < 24 with pcr[pc2[j + off]] != 0 *)
Definition c_knword (pcr : list bool) (off : nat) : N :=
  fold_left (fun acc j => if nth (nth (j + off) des3_pc2 0) pcr false then N.lor acc (nth j des3_bigbyte 0%N) else acc)
            (seq 0 24) 0%N.

(* for (i = 0; i < 16; i++): m = (edf == DE1 ? 15 - i : i) << 1; n = m + 1 *)
Definition c_kn (key : list N) (edf : bool) : list N :=
  let pc1m := c_pc1m key in
  fold_left (fun kn i =>
               let m := 2 * (if edf then 15 - i else i) in
               let pcr := c_pcr pc1m (nth i des3_totrot 0) in
               upd (upd kn m (c_knword pcr 0)) (m + 1) (c_knword pcr 24))
            (seq 0 16) (repeat 0%N 32).

(* cookey: two raw words -> two cooked words, 16 times *)
Fixpoint c_cookey (raw : list N) : list N :=
  match raw with
  | r0 :: r1 :: rest =>
      N.lor (N.lor (N.shiftl (N.land r0 0x00fc0000) 6) (N.shiftl (N.land r0 0x00000fc0) 10))
            (N.lor (N.shiftr (N.land r1 0x00fc0000) 10) (N.shiftr (N.land r1 0x00000fc0) 6)) ::
      N.lor (N.lor (N.shiftl (N.land r0 0x0003f000) 12) (N.shiftl (N.land r0 0x0000003f) 16))
            (N.lor (N.shiftr (N.land r1 0x0003f000) 4) (N.land r1 0x0000003f)) :: c_cookey rest
  | _ => []
  end.

Definition c_deskey (key : list N) (edf : bool) : list N := c_cookey (c_kn key edf).

(* ------------------------------------------------------------------ desfunc *)
Definition sp (t : list N) (work : N) (sh : N) : N := nth (N.to_nat (N.land (N.shiftr work sh) 0x3f)) t 0%N.
Definition c_spA (work : N) : N :=      (* SP7[w & 0x3f] ^ SP5[(w >> 8) & 0x3f] ^ SP3[(w >> 16) & 0x3f] ^ SP1[(w >> 24) & 0x3f] *)
  N.lxor (N.lxor (sp des3_SP7 work 0) (sp des3_SP5 work 8)) (N.lxor (sp des3_SP3 work 16) (sp des3_SP1 work 24)).
Definition c_spB (work : N) : N :=      (* SP8 / SP6 / SP4 / SP2 *)
  N.lxor (N.lxor (sp des3_SP8 work 0) (sp des3_SP6 work 8)) (N.lxor (sp des3_SP4 work 16) (sp des3_SP2 work 24)).

(* for (cur_round = 0; cur_round < 8; cur_round++): four key words per turn *)
Fixpoint c_rounds (n : nat) (keys : list N) (leftt rightt : N) : N * N :=
  match n, keys with
  | S n', k0 :: k1 :: k2 :: k3 :: rest =>
      let leftt := N.lxor leftt (c_spA (N.lxor (rotr32 rightt 4) k0)) in
      let leftt := N.lxor leftt (c_spB (N.lxor rightt k1)) in
      let rightt := N.lxor rightt (c_spA (N.lxor (rotr32 leftt 4) k2)) in
      let rightt := N.lxor rightt (c_spB (N.lxor leftt k3)) in
      c_rounds n' rest leftt rightt
  | _, _ => (leftt, rightt)
  end.

Definition shl32 (x n : N) : N := w32 (N.shiftl x n).

(* block = (block[0], block[1]) *)
Definition c_desfunc (keys : list N) (block : N * N) : N * N :=
  let '(leftt, rightt) := block in
  let work := N.land (N.lxor (N.shiftr leftt 4) rightt) 0x0f0f0f0f in
  let rightt := N.lxor rightt work in let leftt := N.lxor leftt (shl32 work 4) in
  let work := N.land (N.lxor (N.shiftr leftt 16) rightt) 0x0000ffff in
  let rightt := N.lxor rightt work in let leftt := N.lxor leftt (shl32 work 16) in
  let work := N.land (N.lxor (N.shiftr rightt 2) leftt) 0x33333333 in
  let leftt := N.lxor leftt work in let rightt := N.lxor rightt (shl32 work 2) in
  let work := N.land (N.lxor (N.shiftr rightt 8) leftt) 0x00ff00ff in
  let leftt := N.lxor leftt work in let rightt := N.lxor rightt (shl32 work 8) in
  let rightt := rotl32 rightt 1 in
  let work := N.land (N.lxor leftt rightt) 0xaaaaaaaa in
  let leftt := N.lxor leftt work in let rightt := N.lxor rightt work in
  let leftt := rotl32 leftt 1 in
  let '(leftt, rightt) := c_rounds 8 keys leftt rightt in
  let rightt := rotr32 rightt 1 in
  let work := N.land (N.lxor leftt rightt) 0xaaaaaaaa in
  let leftt := N.lxor leftt work in let rightt := N.lxor rightt work in
  let leftt := rotr32 leftt 1 in
  let work := N.land (N.lxor (N.shiftr leftt 8) rightt) 0x00ff00ff in
  let rightt := N.lxor rightt work in let leftt := N.lxor leftt (shl32 work 8) in
  let work := N.land (N.lxor (N.shiftr leftt 2) rightt) 0x33333333 in
  let rightt := N.lxor rightt work in let leftt := N.lxor leftt (shl32 work 2) in
  let work := N.land (N.lxor (N.shiftr rightt 16) leftt) 0x0000ffff in
  let leftt := N.lxor leftt work in let rightt := N.lxor rightt (shl32 work 16) in
  let work := N.land (N.lxor (N.shiftr rightt 4) leftt) 0x0f0f0f0f in
  let leftt := N.lxor leftt work in let rightt := N.lxor rightt (shl32 work 4) in
  (w32 rightt, w32 leftt).                                  (* block[0] = right; block[1] = leftt  (uint32) *)

(* LOAD32H(work[0], p); LOAD32H(work[1], p + 4)  /  STORE32H *)
Definition load_block (b : list N) : N * N :=
  match b with
  | a0 :: a1 :: a2 :: a3 :: b0 :: b1 :: b2 :: b3 :: _ => (ld32be a0 a1 a2 a3, ld32be b0 b1 b2 b3)
  | _ => (0%N, 0%N)
  end.
Definition store_block (w : N * N) : list N := be32 (fst w) ++ be32 (snd w).

(* ------------------------------------------------------------------ the three-key composition and CBC,
   over an abstract key schedule *)
Section Des3Model.
  Variable sched : Type.
  Variable blk : Type.                                     (* the uint32 work[2] pair *)
  Variable deskey : list N -> bool -> sched.               (* deskey(key, edf, out) *)
  Variable desfunc : sched -> blk -> blk.                  (* desfunc(block, keys) *)
  Variable load : list N -> blk.
  Variable store : blk -> list N.
  Variable sched0 : sched.                                 (* Memset(des3, 0) *)

  Record des3_key : Type := { ek : list sched; dk : list sched }.

  (* psDes3InitKey: six deskey calls, each writing one slot of ek[3] / dk[3] *)
  Definition des3_init_key (key : list N) : des3_key :=
    let k1 := firstn 8 key in let k2 := firstn 8 (skipn 8 key) in let k3 := firstn 8 (skipn 16 key) in
    let ek0 := repeat sched0 3 in let dk0 := repeat sched0 3 in
    let ek1 := upd ek0 0 (deskey k1 EN0) in                (* deskey(key,      EN0, skey->ek[0]) *)
    let ek2 := upd ek1 1 (deskey k2 DE1) in                (* deskey(key + 8,  DE1, skey->ek[1]) *)
    let ek3 := upd ek2 2 (deskey k3 EN0) in                (* deskey(key + 16, EN0, skey->ek[2]) *)
    let dk1 := upd dk0 2 (deskey k1 DE1) in                (* deskey(key,      DE1, skey->dk[2]) *)
    let dk2 := upd dk1 1 (deskey k2 EN0) in                (* deskey(key + 8,  EN0, skey->dk[1]) *)
    let dk3 := upd dk2 0 (deskey k3 DE1) in                (* deskey(key + 16, DE1, skey->dk[0]) *)
    {| ek := ek3; dk := dk3 |}.

  Definition des3_encrypt_block (k : des3_key) (pt : list N) : list N :=
    let w := load pt in
    let w := desfunc (nth 0 (ek k) sched0) w in
    let w := desfunc (nth 1 (ek k) sched0) w in
    let w := desfunc (nth 2 (ek k) sched0) w in
    store w.
  Definition des3_decrypt_block (k : des3_key) (ct : list N) : list N :=
    let w := load ct in
    let w := desfunc (nth 0 (dk k) sched0) w in
    let w := desfunc (nth 1 (dk k) sched0) w in
    let w := desfunc (nth 2 (dk k) sched0) w in
    store w.
End Des3Model.

Arguments ek {sched}. Arguments dk {sched}.

(* ------------------------------------------------------------------ CBC calls on a context (key, IV), any
   block size bs; memory at block granularity as in CryptoSymModel.v: an in-place call reads block i from
   <output so far> ++ <rest of the input>, and reads it completely (tmp / tmp2) before writing block i *)
Section CbcNModel.
  Variable bs : nat.
  Variable E D : list N -> list N.
  Definition cbcn_mem (inplace : bool) (inp outs : list N) : list N :=
    if inplace then outs ++ skipn (length outs) inp else inp.
  Fixpoint cbcn_enc_blocks (n : nat) (inplace : bool) (inp outs iv : list N) : list N * list N :=
    match n with
    | O => (outs, iv)
    | S n' =>
      let p := firstn bs (skipn (length outs) (cbcn_mem inplace inp outs)) in
      let c := E (xor_lists p iv) in                      (* tmp = pt ^ IV; EncryptBlock(tmp, ct) *)
      cbcn_enc_blocks n' inplace inp (outs ++ c) c        (* IV = ct *)
    end.
  Fixpoint cbcn_dec_blocks (n : nat) (inplace : bool) (inp outs iv : list N) : list N * list N :=
    match n with
    | O => (outs, iv)
    | S n' =>
      let c := firstn bs (skipn (length outs) (cbcn_mem inplace inp outs)) in
      let p := xor_lists (D c) iv in                      (* DecryptBlock(ct, tmp); tmp2 = ct; pt = tmp ^ IV *)
      cbcn_dec_blocks n' inplace inp (outs ++ p) c        (* IV = tmp2 *)
    end.
  Definition cbcn_encrypt_call (inplace : bool) (iv inp : list N) := cbcn_enc_blocks (length inp / bs) inplace inp [] iv.
  Definition cbcn_decrypt_call (inplace : bool) (iv inp : list N) := cbcn_dec_blocks (length inp / bs) inplace inp [] iv.
  Fixpoint cbcn_encrypt_calls (inplace : bool) (iv : list N) (chunks : list (list N)) : list N * list N :=
    match chunks with
    | [] => ([], iv)
    | c :: r => let '(o, iv') := cbcn_encrypt_call inplace iv c in
                let '(o2, iv'') := cbcn_encrypt_calls inplace iv' r in (o ++ o2, iv'')
    end.
  Fixpoint cbcn_decrypt_calls (inplace : bool) (iv : list N) (chunks : list (list N)) : list N * list N :=
    match chunks with
    | [] => ([], iv)
    | c :: r => let '(o, iv') := cbcn_decrypt_call inplace iv c in
                let '(o2, iv'') := cbcn_decrypt_calls inplace iv' r in (o ++ o2, iv'')
    end.
End CbcNModel.

(* ------------------------------------------------------------------ the concrete instances *)
Definition ps_des3_init_key := des3_init_key (list N) c_deskey [].
Definition ps_des3_encrypt_block := des3_encrypt_block (list N) (N * N) c_desfunc load_block store_block [].
Definition ps_des3_decrypt_block := des3_decrypt_block (list N) (N * N) c_desfunc load_block store_block [].
(* psDes3Init(ctx, IV, key); psDes3Encrypt / psDes3Decrypt calls *)
Definition ps_des3_encrypt_calls (key : list N) (inplace : bool) (iv : list N) (chunks : list (list N)) :=
  cbcn_encrypt_calls 8 (ps_des3_encrypt_block (ps_des3_init_key key)) inplace (firstn 8 iv) chunks.
Definition ps_des3_decrypt_calls (key : list N) (inplace : bool) (iv : list N) (chunks : list (list N)) :=
  cbcn_decrypt_calls 8 (ps_des3_decrypt_block (ps_des3_init_key key)) inplace (firstn 8 iv) chunks.
