(* C12 - code-shaped MODELS of crypto/symmetric/aesCBC.c and aesGCM.c (no proofs in this file).

   CBC (aesCBC.c 84-160): one call processes len/16 blocks and leaves the last ciphertext block in
   ctx->IV for the next call.  The caller's memory is modelled at block granularity: after i blocks
   an in-place call (ct == pt) reads from  <output so far> ++ <rest of the input>, an out-of-place
   call from the untouched input; block i is read completely (tmp / tmp2 copies) before block i of
   the output is written.

   GCM (aesGCM.c 65-290, 334-560): psAesInitGCM / psAesReadyGCM / psAesEncryptGCM /
   psAesDecryptGCMtagless / psAesGetGCMTag / psAesDecryptGCM / psAesDecryptGCM2 with the context
   fields the code keeps: H, saved J0, byte-wise CTR key stream (EncCtr incremented over all 16
   bytes, CtrBlock, OutputBufferCount - reset by the FIXED psAesReadyGCM), GHASH accumulator, the lazy
   128-byte input buffer of flf_blocker, and the two 32+32-bit bit counters (FIXED arithmetic). *)
From Coq Require Import List NArith ZArith Arith Bool.
From MV Require Import Crypto.CryptoPrims Crypto.CryptoSpec Crypto.CryptoModel Crypto.CryptoSym.
Import ListNotations.

(* ------------------------------------------------------------------ CBC *)
Section CbcModel.
  Variable E D : list N -> list N.

  (* the buffer the input pointer points into, after [outs] has been written *)
  Definition cbc_mem (inplace : bool) (inp outs : list N) : list N :=
    if inplace then outs ++ skipn (length outs) inp else inp.

  (* for (i = 0; i < len; i += 16): returns (output, ctx->IV) *)
  Fixpoint cbc_enc_blocks (n : nat) (inplace : bool) (inp outs iv : list N) : list N * list N :=
    match n with
    | O => (outs, iv)
    | S n' =>
      let p := firstn 16 (skipn (length outs) (cbc_mem inplace inp outs)) in
      let c := E (xor_lists p iv) in                                  (* tmp = pt ^ IV; psAesEncryptBlock(tmp, ct) *)
      cbc_enc_blocks n' inplace inp (outs ++ c) c                    (* IV = ct *)
    end.
  Fixpoint cbc_dec_blocks (n : nat) (inplace : bool) (inp outs iv : list N) : list N * list N :=
    match n with
    | O => (outs, iv)
    | S n' =>
      let c := firstn 16 (skipn (length outs) (cbc_mem inplace inp outs)) in
      let p := xor_lists (D c) iv in                                  (* psAesDecryptBlock(ct, tmp); tmp2 = ct; pt = tmp ^ IV *)
      cbc_dec_blocks n' inplace inp (outs ++ p) c                    (* IV = tmp2 *)
    end.

  (* one psAesEncryptCBC / psAesDecryptCBC call on a context holding [iv] *)
  Definition cbc_encrypt_call (inplace : bool) (iv inp : list N) : list N * list N :=
    cbc_enc_blocks (length inp / 16) inplace inp [] iv.
  Definition cbc_decrypt_call (inplace : bool) (iv inp : list N) : list N * list N :=
    cbc_dec_blocks (length inp / 16) inplace inp [] iv.

  (* successive calls on one context: (all output, final IV) *)
  Fixpoint cbc_encrypt_calls (inplace : bool) (iv : list N) (chunks : list (list N)) : list N * list N :=
    match chunks with
    | [] => ([], iv)
    | c :: r => let '(o, iv') := cbc_encrypt_call inplace iv c in
                let '(o2, iv'') := cbc_encrypt_calls inplace iv' r in (o ++ o2, iv'')
    end.
  Fixpoint cbc_decrypt_calls (inplace : bool) (iv : list N) (chunks : list (list N)) : list N * list N :=
    match chunks with
    | [] => ([], iv)
    | c :: r => let '(o, iv') := cbc_decrypt_call inplace iv c in
                let '(o2, iv'') := cbc_decrypt_calls inplace iv' r in (o ++ o2, iv'')
    end.
End CbcModel.

Definition aes_cbc_encrypt_calls (key : list N) := cbc_encrypt_calls (aes_encrypt_block key).
Definition aes_cbc_decrypt_calls (key : list N) := cbc_decrypt_calls (aes_decrypt_block key).

(* ------------------------------------------------------------------ GCM *)
Record gcm_ctx : Type := {
  g_H : N;                 (* Hash_SubKey, as a 128-bit number *)
  g_j0 : list N;           (* ctx->IV = nonce || 00 00 00 01 *)
  g_ctr : list N;          (* EncCtr *)
  g_cblk : list N;         (* CtrBlock *)
  g_ocnt : nat;            (* OutputBufferCount *)
  g_y : N;                 (* TagTemp *)
  g_alo : N; g_ahi : N;    (* ProcessedBitCount[0], [1] : AAD bits *)
  g_clo : N; g_chi : N;    (* ProcessedBitCount[2], [3] : ciphertext bits *)
  g_ibuf : list N          (* Input.Buffer[0 .. InputBufferCount) *)
}.

(* increaseCountBytes (aesGCM.c, FIXED by pending-fixes/C12-gcm-bit-counter.patch): the 64-bit counter
   held in two 32-bit words is advanced by NBytes*8 in unsigned 64-bit arithmetic.  (The unfixed code
   added only (NBytes & 0x0FFFFFFF) << 3 and detected the carry into the high word with a SIGNED
   comparison of the old and new low words: wrong length block from 2^31 bits on.) *)
Definition gcm_count_add (lo hi nbytes : N) : N * N :=
  let bits := ((hi * 2 ^ 32 + lo + nbytes * 8) mod 2 ^ 64)%N in          (* ((uint64) hi << 32 | lo) + ((uint64) NBytes << 3) *)
  ((bits mod 2 ^ 32)%N, (bits / 2 ^ 32)%N).                               (* (uint32) bits, (uint32) (bits >> 32) *)

(* the unfixed counter, kept to state what was wrong (c12_gcm_count_unfixed_refuted) *)
Definition sgn32 (x : N) : Z := if (x <? 2 ^ 31)%N then Z.of_N x else (Z.of_N x - 2 ^ 32)%Z.
Definition gcm_count_add_unfixed (lo hi nbytes : N) : N * N :=
  let bits := (N.land nbytes 0x0FFFFFFF * 8)%N in
  let lo' := ((lo + bits) mod 2 ^ 32)%N in
  if (sgn32 lo >? sgn32 lo')%Z then (lo', ((hi + 1) mod 2 ^ 32)%N) else (lo', hi).

(* UpdateFunc: while (Size >= 16) { Y = (Y ^ block) . H } *)
Fixpoint ghash_upd (fuel : nat) (h y : N) (b : list N) : N :=
  match fuel with
  | O => y
  | S f => if 16 <=? length b then ghash_upd f h (gf_mul (N.lxor y (be_num (firstn 16 b) 0)) h) (skipn 16 b) else y
  end.

(* flf_blocker: fill the 128-byte buffer; a full buffer is hashed only when more data arrives *)
Fixpoint gcm_blocker (fuel : nat) (h y : N) (ibuf data : list N) : N * list N :=
  match fuel with
  | O => (y, ibuf)
  | S f =>
    match data with
    | [] => (y, ibuf)
    | _ =>
      let '(y1, ib1) := if length ibuf =? 128 then (ghash_upd 8 h y ibuf, []) else (y, ibuf) in
      let n := Nat.min (length data) (128 - length ib1) in
      gcm_blocker f h y1 (ib1 ++ firstn n data) (skipn n data)
    end
  end.

Definition with_ghash (c : gcm_ctx) (y : N) (ib : list N) : gcm_ctx :=
  {| g_H := g_H c; g_j0 := g_j0 c; g_ctr := g_ctr c; g_cblk := g_cblk c; g_ocnt := g_ocnt c; g_y := y;
     g_alo := g_alo c; g_ahi := g_ahi c; g_clo := g_clo c; g_chi := g_chi c; g_ibuf := ib |}.

(* psGhashUpdate(ctx, data, len, type) *)
Definition gcm_ghash_update (c : gcm_ctx) (data : list N) (is_aad : bool) : gcm_ctx :=
  let n := N.of_nat (length data) in
  let '(alo, ahi) := if is_aad then gcm_count_add (g_alo c) (g_ahi c) n else (g_alo c, g_ahi c) in
  let '(clo, chi) := if is_aad then (g_clo c, g_chi c) else gcm_count_add (g_clo c) (g_chi c) n in
  let '(y, ib) := gcm_blocker (S (length data)) (g_H c) (g_y c) (g_ibuf c) data in
  {| g_H := g_H c; g_j0 := g_j0 c; g_ctr := g_ctr c; g_cblk := g_cblk c; g_ocnt := g_ocnt c; g_y := y;
     g_alo := alo; g_ahi := ahi; g_clo := clo; g_chi := chi; g_ibuf := ib |}.

(* psGhashPad: while ((InputBufferCount & 15) != 0) flf_blocker(&zero, 1) *)
Fixpoint gcm_pad (fuel : nat) (h y : N) (ibuf : list N) : N * list N :=
  match fuel with
  | O => (y, ibuf)
  | S f => if length ibuf mod 16 =? 0 then (y, ibuf)
           else let '(y1, ib1) := gcm_blocker 2 h y ibuf [0%N] in gcm_pad f h y1 ib1
  end.
Definition gcm_ghash_pad (c : gcm_ctx) : gcm_ctx :=
  let '(y, ib) := gcm_pad 16 (g_H c) (g_y c) (g_ibuf c) in with_ghash c y ib.

(* psAesInitGCM: Memset(ctx, 0); H = E(0^128) *)
Definition gcm_init (E : list N -> list N) : gcm_ctx :=
  {| g_H := be_num (E (repeat 0%N 16)) 0; g_j0 := repeat 0%N 16; g_ctr := repeat 0%N 16; g_cblk := repeat 0%N 16;
     g_ocnt := 0; g_y := 0; g_alo := 0; g_ahi := 0; g_clo := 0; g_chi := 0; g_ibuf := [] |}.

(* psAesReadyGCM(ctx, IV[12], aad, aadLen): GHASH state and counters restart; the FIXED function
   (pending-fixes/C12-gcm-ready-stale-keystream.patch) also sets OutputBufferCount = 0 - the unfixed one
   left it, so a message following a tag shorter than 16 bytes (or an unfinished message) started with
   left-over key stream; CtrBlock is left as it is (dead once OutputBufferCount = 0) *)
Definition gcm_ready (c : gcm_ctx) (iv aad : list N) : gcm_ctx :=
  let c1 := {| g_H := g_H c; g_j0 := firstn 12 iv ++ [0; 0; 0; 1]%N; g_ctr := firstn 12 iv ++ [0; 0; 0; 2]%N;
               g_cblk := g_cblk c; g_ocnt := 0; g_y := 0;
               g_alo := 0; g_ahi := 0; g_clo := 0; g_chi := 0; g_ibuf := [] |} in
  gcm_ghash_pad (gcm_ghash_update c1 aad true).

(* CTR incr over all 16 bytes, last byte first *)
Fixpoint incr_rev (b : list N) : list N :=
  match b with
  | [] => []
  | x :: r => let x' := N.land (x + 1) 255 in if (x' =? 0)%N then x' :: incr_rev r else x' :: r
  end.
Definition ctr_incr (ctr : list N) : list N := rev (incr_rev (rev ctr)).

(* the while (len) loop of psAesEncryptGCMx: returns output bytes (reversed accumulator) and the new stream state *)
Fixpoint gcm_stream (E : list N -> list N) (data : list N) (ctr cblk : list N) (ocnt : nat) (acc : list N)
  : list N * list N * list N * nat :=
  match data with
  | [] => (rev acc, ctr, cblk, ocnt)
  | x :: r =>
    let '(ctr1, cblk1, ocnt1) := if ocnt =? 0 then (ctr_incr ctr, E ctr, 16) else (ctr, cblk, ocnt) in
    gcm_stream E r ctr1 cblk1 (ocnt1 - 1) (N.lxor x (nth (16 - ocnt1) cblk1 0%N) :: acc)
  end.

(* psAesEncryptGCMx(ctx, in, out, len, direction): direction 1 = encrypt (GHASH over the output),
   0 = decrypt (GHASH over the input, before the loop) *)
Definition gcm_crypt (E : list N -> list N) (c : gcm_ctx) (data : list N) (encrypt : bool) : gcm_ctx * list N :=
  let c1 := if encrypt then c else gcm_ghash_update c data false in
  let '(out, ctr, cblk, ocnt) := gcm_stream E data (g_ctr c1) (g_cblk c1) (g_ocnt c1) [] in
  let c2 := {| g_H := g_H c1; g_j0 := g_j0 c1; g_ctr := ctr; g_cblk := cblk; g_ocnt := ocnt; g_y := g_y c1;
               g_alo := g_alo c1; g_ahi := g_ahi c1; g_clo := g_clo c1; g_chi := g_chi c1; g_ibuf := g_ibuf c1 |} in
  (if encrypt then gcm_ghash_update c2 out false else c2, out).

(* psGhashFinal + psAesGetGCMTag(ctx, tagBytes, tag); tagBytes <= 16 is the caller's obligation
   (tag[] and TagTemp are 16 bytes): more is a Fault *)
Definition gcm_final_y (c1 : gcm_ctx) : N :=                              (* psGhashFinal on a padded context *)
  let lenblk := be32 (g_ahi c1) ++ be32 (g_alo c1) ++ be32 (g_chi c1) ++ be32 (g_clo c1) in
  ghash_upd 1 (g_H c1) (ghash_upd 8 (g_H c1) (g_y c1) (g_ibuf c1)) lenblk.
(* TagTemp ^ E(J0): the 16 bytes the loop of psAesGetGCMTag reads from *)
Definition gcm_full_tag (E : list N -> list N) (c : gcm_ctx) : list N :=
  let c1 := gcm_ghash_pad c in xor_lists (num_blk (gcm_final_y c1)) (E (g_j0 c1)).
Definition gcm_after_tag (E : list N -> list N) (c : gcm_ctx) (tagBytes : nat) : gcm_ctx :=
  let c1 := gcm_ghash_pad c in
  {| g_H := g_H c1; g_j0 := g_j0 c1; g_ctr := g_ctr c1;
     g_cblk := if tagBytes =? 0 then g_cblk c1 else E (g_j0 c1);
     g_ocnt := if tagBytes =? 0 then 0 else 16 - tagBytes;
     g_y := gcm_final_y c1; g_alo := g_alo c1; g_ahi := g_ahi c1; g_clo := g_clo c1; g_chi := g_chi c1; g_ibuf := [] |}.
Definition gcm_get_tag (E : list N -> list N) (c : gcm_ctx) (tagBytes : nat) : res (gcm_ctx * list N) :=
  if 16 <? tagBytes then Fault
  else Ok (gcm_after_tag E c tagBytes, firstn tagBytes (gcm_full_tag E c)).

(* memcmpct(a, b, n) == 0 *)
Definition ct_eq (a b : list N) : bool := bytes_eqb a b.

(* psAesDecryptGCM(ctx, ct, ctLen, pt, ptLen): ct = ciphertext || tag, tagLen = ctLen - ptLen *)
Definition gcm_decrypt (E : list N -> list N) (c : gcm_ctx) (ct tag : list N) : res (option (list N)) :=
  if length tag =? 0 then ArgFail else                                (* ctLen > ptLen *)
  let '(c1, pt) := gcm_crypt E c ct false in
  bind (gcm_get_tag E c1 (length tag)) (fun r =>
    Ok (if ct_eq (snd r) tag then Some pt else None)).

(* psAesDecryptGCM2(ctx, ct, pt, len, tag, tagLen): full tag computed, tagLen bytes compared *)
Definition gcm_decrypt2 (E : list N -> list N) (c : gcm_ctx) (ct tag : list N) : res (option (list N)) :=
  if 16 <? length tag then Fault else
  let '(c1, pt) := gcm_crypt E c ct false in
  bind (gcm_get_tag E c1 16) (fun r =>
    Ok (if ct_eq (firstn (length tag) (snd r)) tag then Some pt else None)).

(* whole operations as the harness drives them *)
Definition gcm_fold_crypt (E : list N -> list N) (c : gcm_ctx) (chunks : list (list N)) (encrypt : bool) : gcm_ctx * list N :=
  fold_left (fun (st : gcm_ctx * list N) d => let '(c', o) := gcm_crypt E (fst st) d encrypt in (c', snd st ++ o)) chunks (c, []).

Definition aes_gcm_encrypt (key iv aad : list N) (chunks : list (list N)) (tagBytes : nat) : res (list N * list N) :=
  let E := aes_encrypt_block key in
  let '(c, ct) := gcm_fold_crypt E (gcm_ready (gcm_init E) iv aad) chunks true in
  bind (gcm_get_tag E c tagBytes) (fun r => Ok (ct, snd r)).
Definition aes_gcm_decrypt (key iv aad ct tag : list N) : res (option (list N)) :=
  let E := aes_encrypt_block key in gcm_decrypt E (gcm_ready (gcm_init E) iv aad) ct tag.
(* all chunks but the last through psAesDecryptGCMtagless, the last through psAesDecryptGCM2 *)
Definition aes_gcm_decrypt2 (key iv aad : list N) (chunks : list (list N)) (last tag : list N) : res (option (list N)) :=
  let E := aes_encrypt_block key in
  let '(c, pt) := gcm_fold_crypt E (gcm_ready (gcm_init E) iv aad) chunks false in
  bind (gcm_decrypt2 E c last tag) (fun r => Ok (match r with Some p => Some (pt ++ p) | None => None end)).
(* one context, two messages: Init; Ready(iv1); Encrypt(pt1); GetTag(t1); Ready(iv2, aad2); Encrypt(pt2); GetTag(16) *)
Definition aes_gcm_reuse (key iv1 pt1 : list N) (t1 : nat) (iv2 aad2 pt2 : list N) : res (list N * list N) :=
  let E := aes_encrypt_block key in
  let '(c1, _) := gcm_crypt E (gcm_ready (gcm_init E) iv1 []) pt1 true in
  bind (gcm_get_tag E c1 t1) (fun r1 =>
    let '(c2, ct2) := gcm_crypt E (gcm_ready (fst r1) iv2 aad2) pt2 true in
    bind (gcm_get_tag E c2 16) (fun r2 => Ok (ct2, snd r2))).
