(* C12 - proofs for CryptoLegacy.v *)
From Coq Require Import List NArith Arith Bool Lia.
From MV Require Import Crypto.CryptoPrims Crypto.CryptoSpec Crypto.CryptoModel Crypto.CryptoProofs Crypto.CryptoLegacy.
Import ListNotations.

Lemma fold_md5sha1_update : forall chunks c,
  fold_left md5sha1_update chunks c =
    {| ms_md5 := fold_left md5_update chunks (ms_md5 c); ms_sha1 := fold_left sha1_update chunks (ms_sha1 c) |}.
Proof. induction chunks as [|d r IH]; intro c; cbn [fold_left]; [destruct c; reflexivity|]. rewrite IH. reflexivity. Qed.

Theorem md5sha1_chunks : forall chunks,
  md5sha1_final (fold_left md5sha1_update chunks md5sha1_init) = md5sha1_spec (concat chunks).
Proof.
  intro chunks. rewrite fold_md5sha1_update. unfold md5sha1_final, md5sha1_spec, md5sha1_init. cbn [ms_md5 ms_sha1].
  rewrite md5_chunks, sha1_chunks. reflexivity.
Qed.

Theorem pbkdf1_md5_eq : forall pass salt, length salt = 8 -> pbkdf1_md5 pass salt = pbkdf1_md5_spec pass salt.
Proof.
  intros pass salt Hs. unfold pbkdf1_md5, pbkdf1_md5_spec. rewrite (firstn_all2 salt) by lia.
  pose proof (md5_chunks [pass; salt]) as E1. cbn [fold_left concat] in E1. rewrite app_nil_r in E1. rewrite E1.
  pose proof (md5_chunks [md5_spec (pass ++ salt); pass; salt]) as E2. cbn [fold_left concat] in E2. rewrite app_nil_r in E2. rewrite E2.
  rewrite firstn_app, md5_spec_len. rewrite (firstn_all2 (md5_spec (pass ++ salt))) by (rewrite md5_spec_len; lia).
  reflexivity.
Qed.
