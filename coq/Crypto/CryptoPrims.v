(* C12 - primitives shared by the specs and by the code-shaped models: word arithmetic on [N]
   with explicit reduction modulo 2^32 / 2^64, byte <-> word conversion, and the compression
   functions of SHA-256 (FIPS 180-4 6.2.2), SHA-1 (6.1.2), SHA-512 (6.4.2) and MD5 (RFC 1321 3.4).
   The Gallina text below IS the standard's pseudo-code; it is validated by the standards'
   known answers in CryptoKAT.v and by the correspondence run against the library.
   crypto/digest/sha256.c:77-225 (sha256_compress), sha1.c:44-160, sha512.c:96-166, md5.c. *)
From Coq Require Import List NArith Bool.
Import ListNotations.
Local Open Scope N_scope.

(* ---- words.  [w32 x] is x mod 2^32 (lemma w32_mod in CryptoProofs.v); written with [land]
   because the extracted driver runs it ~10^5 times per second *)
Definition w32 (x : N) : N := N.land x 0xFFFFFFFF.
Definition w64 (x : N) : N := N.land x 0xFFFFFFFFFFFFFFFF.
Definition add32 (a b : N) : N := w32 (a + b).
Definition add64 (a b : N) : N := w64 (a + b).
Definition rotr32 (x n : N) : N := w32 (N.lor (N.shiftr x n) (N.shiftl x (32 - n))).
Definition rotl32 (x n : N) : N := w32 (N.lor (N.shiftl x n) (N.shiftr x (32 - n))).
Definition rotr64 (x n : N) : N := w64 (N.lor (N.shiftr x n) (N.shiftl x (64 - n))).
Definition not32 (x : N) : N := N.lxor (w32 x) 0xFFFFFFFF.
Definition byte_of (x : N) : N := N.land x 0xFF.

(* big-endian / little-endian load and store (LOAD32H/STORE32H/STORE64H/LOAD32L/STORE32L/STORE64L, cryptolib.h) *)
Definition be32 (x : N) : list N :=
  [byte_of (N.shiftr x 24); byte_of (N.shiftr x 16); byte_of (N.shiftr x 8); byte_of x].
Definition le32 (x : N) : list N :=
  [byte_of x; byte_of (N.shiftr x 8); byte_of (N.shiftr x 16); byte_of (N.shiftr x 24)].
Definition be64 (x : N) : list N := be32 (N.shiftr x 32) ++ be32 x.
Definition le64 (x : N) : list N := le32 x ++ le32 (N.shiftr x 32).
Definition ld32be (a b c d : N) : N := N.lor (N.lor (N.shiftl a 24) (N.shiftl b 16)) (N.lor (N.shiftl c 8) d).
Definition ld32le (a b c d : N) : N := ld32be d c b a.

Fixpoint words_be32 (b : list N) : list N :=
  match b with
  | a :: b0 :: c :: d :: r => ld32be a b0 c d :: words_be32 r
  | _ => []
  end.
Fixpoint words_le32 (b : list N) : list N :=
  match b with
  | a :: b0 :: c :: d :: r => ld32le a b0 c d :: words_le32 r
  | _ => []
  end.
Fixpoint words_be64 (b : list N) : list N :=
  match b with
  | a :: b0 :: c :: d :: e :: f :: g :: h :: r =>
      N.lor (N.shiftl (ld32be a b0 c d) 32) (ld32be e f g h) :: words_be64 r
  | _ => []
  end.

(* ------------------------------------------------------------------ SHA-256 *)
Definition st8 : Type := (N * N * N * N * N * N * N * N)%type.

Definition sha256_K : list N := [
  0x428a2f98; 0x71374491; 0xb5c0fbcf; 0xe9b5dba5; 0x3956c25b; 0x59f111f1;
  0x923f82a4; 0xab1c5ed5; 0xd807aa98; 0x12835b01; 0x243185be; 0x550c7dc3;
  0x72be5d74; 0x80deb1fe; 0x9bdc06a7; 0xc19bf174; 0xe49b69c1; 0xefbe4786;
  0x0fc19dc6; 0x240ca1cc; 0x2de92c6f; 0x4a7484aa; 0x5cb0a9dc; 0x76f988da;
  0x983e5152; 0xa831c66d; 0xb00327c8; 0xbf597fc7; 0xc6e00bf3; 0xd5a79147;
  0x06ca6351; 0x14292967; 0x27b70a85; 0x2e1b2138; 0x4d2c6dfc; 0x53380d13;
  0x650a7354; 0x766a0abb; 0x81c2c92e; 0x92722c85; 0xa2bfe8a1; 0xa81a664b;
  0xc24b8b70; 0xc76c51a3; 0xd192e819; 0xd6990624; 0xf40e3585; 0x106aa070;
  0x19a4c116; 0x1e376c08; 0x2748774c; 0x34b0bcb5; 0x391c0cb3; 0x4ed8aa4a;
  0x5b9cca4f; 0x682e6ff3; 0x748f82ee; 0x78a5636f; 0x84c87814; 0x8cc70208;
  0x90befffa; 0xa4506ceb; 0xbef9a3f7; 0xc67178f2].

Definition sha256_iv : st8 :=
  (0x6A09E667, 0xBB67AE85, 0x3C6EF372, 0xA54FF53A, 0x510E527F, 0x9B05688C, 0x1F83D9AB, 0x5BE0CD19).

Definition Ch (x y z : N) : N := N.lxor (N.land x y) (N.land (not32 x) z).
Definition Maj (x y z : N) : N := N.lxor (N.lxor (N.land x y) (N.land x z)) (N.land y z).
Definition bsig0 (x : N) := N.lxor (N.lxor (rotr32 x 2) (rotr32 x 13)) (rotr32 x 22).
Definition bsig1 (x : N) := N.lxor (N.lxor (rotr32 x 6) (rotr32 x 11)) (rotr32 x 25).
Definition ssig0 (x : N) := N.lxor (N.lxor (rotr32 x 7) (rotr32 x 18)) (N.shiftr x 3).
Definition ssig1 (x : N) := N.lxor (N.lxor (rotr32 x 17) (rotr32 x 19)) (N.shiftr x 10).

Definition sha256_round (s : st8) (k w : N) : st8 :=
  let '(a, b, c, d, e, f, g, h) := s in
  let t1 := add32 (add32 (add32 h (bsig1 e)) (add32 (Ch e f g) k)) w in
  let t2 := add32 (bsig0 a) (Maj a b c) in
  (add32 t1 t2, a, b, c, add32 d t1, e, f, g).

(* W is kept as a sliding window of the last 16 schedule words, oldest first *)
Fixpoint sha256_rounds (ks : list N) (w : list N) (s : st8) : st8 :=
  match ks with
  | [] => s
  | k :: ks' =>
    match w with
    | w0 :: ((w1 :: _ :: _ :: _ :: _ :: _ :: _ :: _ :: w9 :: _ :: _ :: _ :: _ :: w14 :: _ :: _) as tl) =>
        let wn := add32 (add32 (ssig1 w14) w9) (add32 (ssig0 w1) w0) in
        sha256_rounds ks' (tl ++ [wn]) (sha256_round s k w0)
    | _ => s
    end
  end.

Definition sha256_compress (s : st8) (blk : list N) : st8 :=
  let '(a, b, c, d, e, f, g, h) := s in
  let '(a', b', c', d', e', f', g', h') := sha256_rounds sha256_K (words_be32 blk) s in
  (add32 a a', add32 b b', add32 c c', add32 d d', add32 e e', add32 f f', add32 g g', add32 h h').

Definition sha256_out (s : st8) : list N :=
  let '(a, b, c, d, e, f, g, h) := s in
  be32 a ++ be32 b ++ be32 c ++ be32 d ++ be32 e ++ be32 f ++ be32 g ++ be32 h.

(* ------------------------------------------------------------------ SHA-1 *)
Definition st5 : Type := (N * N * N * N * N)%type.
Definition sha1_iv : st5 := (0x67452301, 0xefcdab89, 0x98badcfe, 0x10325476, 0xc3d2e1f0).
Definition Parity (x y z : N) : N := N.lxor (N.lxor x y) z.

Definition sha1_f (t : nat) (b c d : N) : N :=
  if Nat.ltb t 20 then Ch b c d else if Nat.ltb t 40 then Parity b c d
  else if Nat.ltb t 60 then Maj b c d else Parity b c d.
Definition sha1_k (t : nat) : N :=
  if Nat.ltb t 20 then 0x5a827999 else if Nat.ltb t 40 then 0x6ed9eba1
  else if Nat.ltb t 60 then 0x8f1bbcdc else 0xca62c1d6.

Fixpoint sha1_rounds (n : nat) (t : nat) (w : list N) (s : st5) : st5 :=
  match n with
  | O => s
  | S n' =>
    match w with
    | w0 :: ((_ :: w2 :: _ :: _ :: _ :: _ :: _ :: w8 :: _ :: _ :: _ :: _ :: w13 :: _ :: _) as tl) =>
        let '(a, b, c, d, e) := s in
        let tmp := add32 (add32 (add32 (rotl32 a 5) (sha1_f t b c d)) (add32 e (sha1_k t))) w0 in
        let wn := rotl32 (N.lxor (N.lxor w13 w8) (N.lxor w2 w0)) 1 in
        sha1_rounds n' (S t) (tl ++ [wn]) (tmp, a, rotl32 b 30, c, d)
    | _ => s
    end
  end.

Definition sha1_compress (s : st5) (blk : list N) : st5 :=
  let '(a, b, c, d, e) := s in
  let '(a', b', c', d', e') := sha1_rounds 80 0 (words_be32 blk) s in
  (add32 a a', add32 b b', add32 c c', add32 d d', add32 e e').

Definition sha1_out (s : st5) : list N :=
  let '(a, b, c, d, e) := s in be32 a ++ be32 b ++ be32 c ++ be32 d ++ be32 e.

(* ------------------------------------------------------------------ SHA-512 / SHA-384 *)
Definition sha512_K : list N := [
  0x428a2f98d728ae22; 0x7137449123ef65cd; 0xb5c0fbcfec4d3b2f; 0xe9b5dba58189dbbc;
  0x3956c25bf348b538; 0x59f111f1b605d019; 0x923f82a4af194f9b; 0xab1c5ed5da6d8118;
  0xd807aa98a3030242; 0x12835b0145706fbe; 0x243185be4ee4b28c; 0x550c7dc3d5ffb4e2;
  0x72be5d74f27b896f; 0x80deb1fe3b1696b1; 0x9bdc06a725c71235; 0xc19bf174cf692694;
  0xe49b69c19ef14ad2; 0xefbe4786384f25e3; 0x0fc19dc68b8cd5b5; 0x240ca1cc77ac9c65;
  0x2de92c6f592b0275; 0x4a7484aa6ea6e483; 0x5cb0a9dcbd41fbd4; 0x76f988da831153b5;
  0x983e5152ee66dfab; 0xa831c66d2db43210; 0xb00327c898fb213f; 0xbf597fc7beef0ee4;
  0xc6e00bf33da88fc2; 0xd5a79147930aa725; 0x06ca6351e003826f; 0x142929670a0e6e70;
  0x27b70a8546d22ffc; 0x2e1b21385c26c926; 0x4d2c6dfc5ac42aed; 0x53380d139d95b3df;
  0x650a73548baf63de; 0x766a0abb3c77b2a8; 0x81c2c92e47edaee6; 0x92722c851482353b;
  0xa2bfe8a14cf10364; 0xa81a664bbc423001; 0xc24b8b70d0f89791; 0xc76c51a30654be30;
  0xd192e819d6ef5218; 0xd69906245565a910; 0xf40e35855771202a; 0x106aa07032bbd1b8;
  0x19a4c116b8d2d0c8; 0x1e376c085141ab53; 0x2748774cdf8eeb99; 0x34b0bcb5e19b48a8;
  0x391c0cb3c5c95a63; 0x4ed8aa4ae3418acb; 0x5b9cca4f7763e373; 0x682e6ff3d6b2b8a3;
  0x748f82ee5defb2fc; 0x78a5636f43172f60; 0x84c87814a1f0ab72; 0x8cc702081a6439ec;
  0x90befffa23631e28; 0xa4506cebde82bde9; 0xbef9a3f7b2c67915; 0xc67178f2e372532b;
  0xca273eceea26619c; 0xd186b8c721c0c207; 0xeada7dd6cde0eb1e; 0xf57d4f7fee6ed178;
  0x06f067aa72176fba; 0x0a637dc5a2c898a6; 0x113f9804bef90dae; 0x1b710b35131c471b;
  0x28db77f523047d84; 0x32caab7b40c72493; 0x3c9ebe0a15c9bebc; 0x431d67c49c100d4c;
  0x4cc5d4becb3e42b6; 0x597f299cfc657e2a; 0x5fcb6fab3ad6faec; 0x6c44198c4a475817].

Definition sha512_iv : st8 :=
  (0x6a09e667f3bcc908, 0xbb67ae8584caa73b, 0x3c6ef372fe94f82b, 0xa54ff53a5f1d36f1,
   0x510e527fade682d1, 0x9b05688c2b3e6c1f, 0x1f83d9abfb41bd6b, 0x5be0cd19137e2179).
Definition sha384_iv : st8 :=
  (0xcbbb9d5dc1059ed8, 0x629a292a367cd507, 0x9159015a3070dd17, 0x152fecd8f70e5939,
   0x67332667ffc00b31, 0x8eb44a8768581511, 0xdb0c2e0d64f98fa7, 0x47b5481dbefa4fa4).

Definition not64 (x : N) : N := N.lxor (w64 x) 0xFFFFFFFFFFFFFFFF.
Definition Ch64 (x y z : N) : N := N.lxor (N.land x y) (N.land (not64 x) z).
Definition bsig0_64 (x : N) := N.lxor (N.lxor (rotr64 x 28) (rotr64 x 34)) (rotr64 x 39).
Definition bsig1_64 (x : N) := N.lxor (N.lxor (rotr64 x 14) (rotr64 x 18)) (rotr64 x 41).
Definition ssig0_64 (x : N) := N.lxor (N.lxor (rotr64 x 1) (rotr64 x 8)) (N.shiftr x 7).
Definition ssig1_64 (x : N) := N.lxor (N.lxor (rotr64 x 19) (rotr64 x 61)) (N.shiftr x 6).

Definition sha512_round (s : st8) (k w : N) : st8 :=
  let '(a, b, c, d, e, f, g, h) := s in
  let t1 := add64 (add64 (add64 h (bsig1_64 e)) (add64 (Ch64 e f g) k)) w in
  let t2 := add64 (bsig0_64 a) (Maj a b c) in
  (add64 t1 t2, a, b, c, add64 d t1, e, f, g).

Fixpoint sha512_rounds (ks : list N) (w : list N) (s : st8) : st8 :=
  match ks with
  | [] => s
  | k :: ks' =>
    match w with
    | w0 :: ((w1 :: _ :: _ :: _ :: _ :: _ :: _ :: _ :: w9 :: _ :: _ :: _ :: _ :: w14 :: _ :: _) as tl) =>
        let wn := add64 (add64 (ssig1_64 w14) w9) (add64 (ssig0_64 w1) w0) in
        sha512_rounds ks' (tl ++ [wn]) (sha512_round s k w0)
    | _ => s
    end
  end.

Definition sha512_compress (s : st8) (blk : list N) : st8 :=
  let '(a, b, c, d, e, f, g, h) := s in
  let '(a', b', c', d', e', f', g', h') := sha512_rounds sha512_K (words_be64 blk) s in
  (add64 a a', add64 b b', add64 c c', add64 d d', add64 e e', add64 f f', add64 g g', add64 h h').

Definition sha512_out (s : st8) : list N :=
  let '(a, b, c, d, e, f, g, h) := s in
  be64 a ++ be64 b ++ be64 c ++ be64 d ++ be64 e ++ be64 f ++ be64 g ++ be64 h.
Definition sha384_out (s : st8) : list N :=
  let '(a, b, c, d, e, f, g, h) := s in
  be64 a ++ be64 b ++ be64 c ++ be64 d ++ be64 e ++ be64 f.

(* ------------------------------------------------------------------ MD5 (RFC 1321) *)
Definition st4 : Type := (N * N * N * N)%type.
Definition md5_iv : st4 := (0x67452301, 0xefcdab89, 0x98badcfe, 0x10325476).
(* T[i] = floor(2^32 * |sin(i+1)|) *)
Definition md5_T : list N := [
  0xd76aa478; 0xe8c7b756; 0x242070db; 0xc1bdceee; 0xf57c0faf; 0x4787c62a;
  0xa8304613; 0xfd469501; 0x698098d8; 0x8b44f7af; 0xffff5bb1; 0x895cd7be;
  0x6b901122; 0xfd987193; 0xa679438e; 0x49b40821; 0xf61e2562; 0xc040b340;
  0x265e5a51; 0xe9b6c7aa; 0xd62f105d; 0x02441453; 0xd8a1e681; 0xe7d3fbc8;
  0x21e1cde6; 0xc33707d6; 0xf4d50d87; 0x455a14ed; 0xa9e3e905; 0xfcefa3f8;
  0x676f02d9; 0x8d2a4c8a; 0xfffa3942; 0x8771f681; 0x6d9d6122; 0xfde5380c;
  0xa4beea44; 0x4bdecfa9; 0xf6bb4b60; 0xbebfbc70; 0x289b7ec6; 0xeaa127fa;
  0xd4ef3085; 0x04881d05; 0xd9d4d039; 0xe6db99e5; 0x1fa27cf8; 0xc4ac5665;
  0xf4292244; 0x432aff97; 0xab9423a7; 0xfc93a039; 0x655b59c3; 0x8f0ccc92;
  0xffeff47d; 0x85845dd1; 0x6fa87e4f; 0xfe2ce6e0; 0xa3014314; 0x4e0811a1;
  0xf7537e82; 0xbd3af235; 0x2ad7d2bb; 0xeb86d391].
Definition md5_S : list N :=
  [7; 12; 17; 22; 7; 12; 17; 22; 7; 12; 17; 22; 7; 12; 17; 22;
   5; 9; 14; 20; 5; 9; 14; 20; 5; 9; 14; 20; 5; 9; 14; 20;
   4; 11; 16; 23; 4; 11; 16; 23; 4; 11; 16; 23; 4; 11; 16; 23;
   6; 10; 15; 21; 6; 10; 15; 21; 6; 10; 15; 21; 6; 10; 15; 21].

Definition md5_fg (i : nat) (b c d : N) : N * nat :=
  if Nat.ltb i 16 then (N.lor (N.land b c) (N.land (not32 b) d), i)
  else if Nat.ltb i 32 then (N.lor (N.land d b) (N.land (not32 d) c), Nat.modulo (5 * i + 1) 16)
  else if Nat.ltb i 48 then (N.lxor (N.lxor b c) d, Nat.modulo (3 * i + 5) 16)
  else (N.lxor c (N.lor b (not32 d)), Nat.modulo (7 * i) 16).

Fixpoint md5_rounds (ts ss : list N) (i : nat) (m : list N) (s : st4) : st4 :=
  match ts, ss with
  | t :: ts', sh :: ss' =>
      let '(a, b, c, d) := s in
      let '(f, g) := md5_fg i b c d in
      let x := add32 (add32 a f) (add32 t (nth g m 0)) in
      md5_rounds ts' ss' (S i) m (d, add32 b (rotl32 x sh), b, c)
  | _, _ => s
  end.

Definition md5_compress (s : st4) (blk : list N) : st4 :=
  let '(a, b, c, d) := s in
  let '(a', b', c', d') := md5_rounds md5_T md5_S 0 (words_le32 blk) s in
  (add32 a a', add32 b b', add32 c c', add32 d d').

Definition md5_out (s : st4) : list N :=
  let '(a, b, c, d) := s in le32 a ++ le32 b ++ le32 c ++ le32 d.
