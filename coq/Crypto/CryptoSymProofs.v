(* C12 - proofs about the CBC and GCM models (CryptoSymModel.v) against the specifications of CryptoSym.v. *)
From Coq Require Import List NArith ZArith Arith Bool Lia.
From MV Require Import Crypto.CryptoPrims Crypto.CryptoSpec Crypto.CryptoModel Crypto.CryptoProofs
                       Crypto.CryptoSym Crypto.CryptoSymModel.
Import ListNotations.

Lemma skipn_add : forall (A : Type) a b (l : list A), skipn a (skipn b l) = skipn (b + a) l.
Proof.
  intros A a b. induction b as [|b IH]; intro l; [reflexivity|].
  destruct l; [rewrite !skipn_nil; reflexivity|]. cbn [skipn Nat.add]. apply IH.
Qed.

Lemma xor_lists_cancel : forall a b, length a = length b -> xor_lists (xor_lists a b) b = a.
Proof.
  induction a as [|x a IH]; intros [|y b] H; cbn in *; try discriminate; [reflexivity|].
  rewrite IH by lia. f_equal. rewrite N.lxor_assoc, N.lxor_nilpotent, N.lxor_0_r. reflexivity.
Qed.

Lemma div16_exact : forall n, n mod 16 = 0 -> n = 16 * (n / 16).
Proof. intros n H. pose proof (Nat.div_mod n 16 ltac:(lia)). lia. Qed.

(* ================================================================== CBC *)
Section CbcProofs.
  Variable E D : list N -> list N.
  Hypothesis Elen : forall b, length (E b) = 16.
  Hypothesis Dlen : forall b, length (D b) = 16.
  (* the inverse cipher undoes the forward cipher on 16-byte blocks (FIPS 197 5.3) *)
  Hypothesis DE : forall b, length b = 16 -> D (E b) = b.

  Lemma cbc_mem_read : forall inplace inp outs,
    skipn (length outs) (cbc_mem inplace inp outs) = skipn (length outs) inp.
  Proof. intros [|] inp outs; unfold cbc_mem; [apply skipn_len_app|reflexivity]. Qed.

  (* in place (ct == pt) and out of place produce the same output and leave the same IV *)
  Theorem cbc_enc_inplace_eq : forall n inp outs iv,
    cbc_enc_blocks E n true inp outs iv = cbc_enc_blocks E n false inp outs iv.
  Proof.
    induction n as [|n IH]; intros; cbn [cbc_enc_blocks]; [reflexivity|].
    rewrite !cbc_mem_read. apply IH.
  Qed.
  Theorem cbc_dec_inplace_eq : forall n inp outs iv,
    cbc_dec_blocks D n true inp outs iv = cbc_dec_blocks D n false inp outs iv.
  Proof.
    induction n as [|n IH]; intros; cbn [cbc_dec_blocks]; [reflexivity|].
    rewrite !cbc_mem_read. apply IH.
  Qed.

  (* chaining value after n blocks *)
  Fixpoint cbc_enc_iv (n : nat) (iv pt : list N) : list N :=
    match n with O => iv | S n' => cbc_enc_iv n' (E (xor_lists (firstn 16 pt) iv)) (skipn 16 pt) end.
  Fixpoint cbc_dec_iv (n : nat) (iv ct : list N) : list N :=
    match n with O => iv | S n' => cbc_dec_iv n' (firstn 16 ct) (skipn 16 ct) end.

  Lemma cbc_enc_blocks_spec : forall n ip inp outs iv,
    cbc_enc_blocks E n ip inp outs iv =
      (outs ++ cbc_encrypt_spec E n iv (skipn (length outs) inp), cbc_enc_iv n iv (skipn (length outs) inp)).
  Proof.
    induction n as [|n IH]; intros; cbn [cbc_enc_blocks cbc_encrypt_spec cbc_enc_iv]; [rewrite app_nil_r; reflexivity|].
    rewrite cbc_mem_read. rewrite IH. rewrite app_length, Elen, <- skipn_add, <- app_assoc. reflexivity.
  Qed.

  Lemma cbc_dec_blocks_spec : forall n ip inp outs iv,
    length iv = 16 -> length outs + 16 * n <= length inp ->
    cbc_dec_blocks D n ip inp outs iv =
      (outs ++ cbc_decrypt_spec D n iv (skipn (length outs) inp), cbc_dec_iv n iv (skipn (length outs) inp)).
  Proof.
    induction n as [|n IH]; intros ip inp outs iv Hiv Hlen;
      cbn [cbc_dec_blocks cbc_decrypt_spec cbc_dec_iv]; [rewrite app_nil_r; reflexivity|].
    rewrite cbc_mem_read.
    set (c := firstn 16 (skipn (length outs) inp)).
    assert (Hc : length c = 16) by (unfold c; rewrite firstn_length, skipn_length; lia).
    assert (Hp : length (xor_lists (D c) iv) = 16) by (rewrite xor_lists_length, Dlen, Hiv; reflexivity).
    rewrite IH; [|exact Hc|rewrite app_length, Hp; lia].
    rewrite app_length, Hp, <- skipn_add, <- app_assoc. reflexivity.
  Qed.

  Lemma cbc_enc_iv_len : forall n iv pt, length iv = 16 -> length (cbc_enc_iv n iv pt) = 16.
  Proof. induction n; intros; cbn [cbc_enc_iv]; [assumption|]. apply IHn. apply Elen. Qed.
  Lemma cbc_encrypt_spec_len : forall n iv pt, length (cbc_encrypt_spec E n iv pt) = 16 * n.
  Proof. induction n; intros; cbn [cbc_encrypt_spec]; [reflexivity|]. rewrite app_length, Elen, IHn. lia. Qed.

  (* n1 blocks, then n2 more starting from the chaining value *)
  Lemma cbc_encrypt_spec_app : forall n1 n2 iv a b, length a = 16 * n1 ->
    cbc_encrypt_spec E (n1 + n2) iv (a ++ b) =
      cbc_encrypt_spec E n1 iv a ++ cbc_encrypt_spec E n2 (cbc_enc_iv n1 iv a) b.
  Proof.
    induction n1 as [|n1 IH]; intros n2 iv a b Ha.
    - destruct a; [reflexivity|cbn in Ha; lia].
    - cbn [Nat.add cbc_encrypt_spec cbc_enc_iv].
      rewrite firstn_app, skipn_app. replace (16 - length a) with 0 by lia. change (firstn 0 b) with (@nil N). change (skipn 0 b) with b. rewrite app_nil_r.
      rewrite IH by (rewrite skipn_length; lia). rewrite <- app_assoc. reflexivity.
  Qed.
  Lemma cbc_enc_iv_app : forall n1 n2 iv a b, length a = 16 * n1 ->
    cbc_enc_iv (n1 + n2) iv (a ++ b) = cbc_enc_iv n2 (cbc_enc_iv n1 iv a) b.
  Proof.
    induction n1 as [|n1 IH]; intros n2 iv a b Ha.
    - destruct a; [reflexivity|cbn in Ha; lia].
    - cbn [Nat.add cbc_enc_iv].
      rewrite firstn_app, skipn_app. replace (16 - length a) with 0 by lia. change (firstn 0 b) with (@nil N). change (skipn 0 b) with b. rewrite app_nil_r.
      apply IH. rewrite skipn_length. lia.
  Qed.

  (* any way of cutting whole blocks into successive psAesEncryptCBC calls, in place or not,
     gives SP 800-38A's ciphertext of the concatenation *)
  Theorem cbc_encrypt_calls_spec : forall chunks ip iv,
    Forall (fun c => length c mod 16 = 0) chunks ->
    cbc_encrypt_calls E ip iv chunks =
      (cbc_encrypt_spec E (length (concat chunks) / 16) iv (concat chunks),
       cbc_enc_iv (length (concat chunks) / 16) iv (concat chunks)).
  Proof.
    induction chunks as [|c r IH]; intros ip iv Hall; [reflexivity|].
    inversion Hall as [|? ? Hc Hr]; subst.
    cbn [cbc_encrypt_calls concat]. unfold cbc_encrypt_call.
    rewrite cbc_enc_blocks_spec. cbn [length skipn app].
    rewrite (IH ip _ Hr).
    pose proof (div16_exact _ Hc) as Ec.
    assert (Ediv : length (c ++ concat r) / 16 = length c / 16 + length (concat r) / 16).
    { rewrite app_length. rewrite Ec at 1. rewrite (Nat.mul_comm 16), Nat.div_add_l by lia. reflexivity. }
    rewrite Ediv, cbc_encrypt_spec_app, cbc_enc_iv_app by exact Ec. reflexivity.
  Qed.

  (* decryption undoes encryption (whole blocks) *)
  Theorem cbc_inverse : forall n iv pt, length iv = 16 -> length pt = 16 * n ->
    cbc_decrypt_spec D n iv (cbc_encrypt_spec E n iv pt) = pt.
  Proof.
    induction n as [|n IH]; intros iv pt Hiv Hpt.
    - destruct pt; [reflexivity|cbn in Hpt; lia].
    - cbn [cbc_encrypt_spec cbc_decrypt_spec].
      set (c := E (xor_lists (firstn 16 pt) iv)).
      assert (Hc : length c = 16) by apply Elen.
      rewrite firstn_app, skipn_app. rewrite Hc, Nat.sub_diag, firstn_O, skipn_O.
      rewrite (firstn_all2 c) by lia. rewrite (skipn_all2 c) by lia. rewrite app_nil_r. cbn [app].
      assert (Hx : length (xor_lists (firstn 16 pt) iv) = 16)
        by (rewrite xor_lists_length, firstn_length, Hiv; lia).
      unfold c at 1. rewrite DE by exact Hx.
      rewrite xor_lists_cancel by (rewrite firstn_length, Hiv; lia).
      rewrite IH; [apply firstn_skipn|exact Hc|rewrite skipn_length; lia].
  Qed.

  (* the model: decrypting (in place or not, one call) what the model encrypted (any calls) returns the plaintext *)
  Theorem cbc_model_roundtrip : forall chunks ip1 ip2 iv,
    length iv = 16 -> Forall (fun c => length c mod 16 = 0) chunks ->
    fst (cbc_decrypt_call D ip2 iv (fst (cbc_encrypt_calls E ip1 iv chunks))) = concat chunks.
  Proof.
    intros chunks ip1 ip2 iv Hiv Hall. rewrite cbc_encrypt_calls_spec by exact Hall. cbn [fst].
    assert (Hm : length (concat chunks) mod 16 = 0).
    { clear -Hall. induction chunks as [|c r IH]; [reflexivity|]. inversion Hall; subst. cbn [concat].
      rewrite app_length. rewrite <- Nat.add_mod_idemp_l, H1 by lia. cbn [Nat.add]. apply IH. assumption. }
    pose proof (div16_exact _ Hm) as En. set (n := length (concat chunks) / 16) in *.
    unfold cbc_decrypt_call. rewrite cbc_encrypt_spec_len.
    replace (16 * n / 16) with n by (rewrite Nat.mul_comm, Nat.div_mul; lia).
    rewrite cbc_dec_blocks_spec; [|exact Hiv|rewrite cbc_encrypt_spec_len; cbn; lia].
    cbn [fst length skipn app]. apply cbc_inverse; assumption.
  Qed.
End CbcProofs.

(* ================================================================== GCM *)
Lemma bytes_eqb_eq : forall a b, bytes_eqb a b = true <-> a = b.
Proof.
  unfold bytes_eqb. induction a as [|x a IH]; intros [|y b]; cbn; split; intro H; try discriminate; try reflexivity.
  - apply andb_prop in H. destruct H as [H1 H2]. apply andb_prop in H2. destruct H2 as [H2 H3].
    apply N.eqb_eq in H2. subst y. f_equal. apply IH. rewrite H1, H3. reflexivity.
  - inversion H; subst. rewrite N.eqb_refl. cbn. apply (proj2 (IH b) eq_refl).
Qed.

(* the FIXED bit counter is exact: the two words hold (old + 8*nbytes) mod 2^64 *)
Theorem gcm_count_add_exact : forall lo hi n,
  let r := gcm_count_add lo hi n in
  (snd r * 2 ^ 32 + fst r = (hi * 2 ^ 32 + lo + 8 * n) mod 2 ^ 64)%N /\ (fst r < 2 ^ 32)%N /\ (snd r < 2 ^ 32)%N.
Proof.
  intros lo hi n. unfold gcm_count_add. cbn [fst snd].
  replace (n * 8)%N with (8 * n)%N by lia.
  set (bits := ((hi * 2 ^ 32 + lo + 8 * n) mod 2 ^ 64)%N).
  assert (Hb : (bits < 2 ^ 64)%N) by (apply N.mod_upper_bound; discriminate).
  split; [|split].
  - rewrite N.mul_comm. symmetry. apply N.div_mod. discriminate.
  - apply N.mod_upper_bound. discriminate.
  - apply N.div_lt_upper_bound; [discriminate|]. exact Hb.
Qed.

(* what the unfixed counter did: crossing 2^31 bits (256 MiB) sets the high word, and a single call of
   2^28 + 16 bytes counts 16 bytes *)
Theorem gcm_count_unfixed_refuted :
  gcm_count_add_unfixed (2 ^ 31 - 128) 0 16 <> gcm_count_add (2 ^ 31 - 128) 0 16 /\
  gcm_count_add_unfixed 0 0 (2 ^ 28 + 16) <> gcm_count_add 0 0 (2 ^ 28 + 16).
Proof. split; vm_compute; discriminate. Qed.

(* tag comparison: psAesDecryptGCM2 releases the plaintext exactly when the first |tag| bytes of the
   computed 16-byte tag equal the received tag - every bit of those bytes matters, no other does *)
Theorem gcm_decrypt2_tag : forall E c ct tag,
  length tag <= 16 ->
  let c1 := fst (gcm_crypt E c ct false) in let pt := snd (gcm_crypt E c ct false) in
  gcm_decrypt2 E c ct tag = Ok (if bytes_eqb (firstn (length tag) (gcm_full_tag E c1)) tag then Some pt else None) /\
  (bytes_eqb (firstn (length tag) (gcm_full_tag E c1)) tag = true <-> firstn (length tag) (gcm_full_tag E c1) = tag).
Proof.
  intros E c ct tag Hl c1 pt. split; [|apply bytes_eqb_eq].
  unfold gcm_decrypt2. destruct (16 <? length tag) eqn:E1; [apply Nat.ltb_lt in E1; lia|].
  subst c1 pt. destruct (gcm_crypt E c ct false) as [c1 pt]. cbn [fst snd].
  unfold gcm_get_tag. change (16 <? 16) with false. cbn [bind snd]. unfold ct_eq.
  rewrite firstn_firstn. replace (Nat.min (length tag) 16) with (length tag) by lia. reflexivity.
Qed.

(* psAesDecryptGCM (tag appended, tagLen = ctLen - ptLen in 1..16): compares exactly tagLen bytes *)
Theorem gcm_decrypt_tag : forall E c ct tag,
  0 < length tag <= 16 ->
  let c1 := fst (gcm_crypt E c ct false) in let pt := snd (gcm_crypt E c ct false) in
  gcm_decrypt E c ct tag = Ok (if bytes_eqb (firstn (length tag) (gcm_full_tag E c1)) tag then Some pt else None).
Proof.
  intros E c ct tag Hl c1 pt.
  unfold gcm_decrypt. destruct (length tag =? 0) eqn:E1; [apply Nat.eqb_eq in E1; lia|].
  subst c1 pt. destruct (gcm_crypt E c ct false) as [c1 pt]. cbn [fst snd].
  unfold gcm_get_tag. destruct (16 <? length tag) eqn:E2; [apply Nat.ltb_lt in E2; lia|].
  reflexivity.
Qed.

(* the tag handed out for tagBytes <= 16 is the prefix of the full tag (truncation = MSB_t) *)
Theorem gcm_get_tag_prefix : forall E c t, t <= 16 ->
  gcm_get_tag E c t = Ok (gcm_after_tag E c t, firstn t (gcm_full_tag E c)) /\
  length (firstn t (gcm_full_tag E c)) <= t.
Proof.
  intros E c t Ht. unfold gcm_get_tag.
  destruct (16 <? t) eqn:E1; [apply Nat.ltb_lt in E1; lia|].
  split; [reflexivity|]. rewrite firstn_length. lia.
Qed.

(* after the FIXED psAesReadyGCM the key stream restarts at a block boundary whatever the context did before *)
Theorem gcm_ready_resets : forall c iv aad, g_ocnt (gcm_ready c iv aad) = 0.
Proof.
  intros. unfold gcm_ready, gcm_ghash_pad, gcm_ghash_update.
  repeat match goal with |- context [let '(_, _) := ?x in _] => destruct x end. reflexivity.
Qed.

(* ================================================================== GCM: splitting the input across calls *)
(* ---- byte-wise CTR: splitting the input across calls does not change the stream *)
Lemma gcm_stream_app : forall E a b ctr cblk ocnt acc,
  gcm_stream E (a ++ b) ctr cblk ocnt acc =
    let '(o1, ctr1, cblk1, ocnt1) := gcm_stream E a ctr cblk ocnt acc in
    gcm_stream E b ctr1 cblk1 ocnt1 (rev o1).
Proof.
  induction a as [|x a IH]; intros b ctr cblk ocnt acc.
  - cbn [app gcm_stream]. rewrite rev_involutive. reflexivity.
  - cbn [app gcm_stream]. destruct (ocnt =? 0); apply IH.
Qed.

Lemma gcm_stream_acc : forall E a ctr cblk ocnt acc,
  gcm_stream E a ctr cblk ocnt acc =
    let '(o, c1, b1, n1) := gcm_stream E a ctr cblk ocnt [] in (rev acc ++ o, c1, b1, n1).
Proof.
  induction a as [|x a IH]; intros ctr cblk ocnt acc.
  - cbn [gcm_stream rev]. rewrite app_nil_r. reflexivity.
  - cbn [gcm_stream]. destruct (ocnt =? 0).
    + rewrite IH. rewrite (IH _ _ _ [_]).
      destruct (gcm_stream E a (ctr_incr ctr) (E ctr) (16 - 1) []) as [[[o c1] b1] n1].
      cbn [rev app]. rewrite <- app_assoc. reflexivity.
    + rewrite IH. rewrite (IH _ _ _ [_]).
      destruct (gcm_stream E a ctr cblk (ocnt - 1) []) as [[[o c1] b1] n1].
      cbn [rev app]. rewrite <- app_assoc. reflexivity.
Qed.

(* ---- flf_blocker *)
Lemma blocker_nil : forall f h y ib, gcm_blocker f h y ib [] = (y, ib).
Proof. intros. destruct f; reflexivity. Qed.

Definition blk_step (h y : N) (ib data : list N) : N * list N * list N :=
  let '(y1, ib1) := if length ib =? 128 then (ghash_upd 8 h y ib, []) else (y, ib) in
  let n := Nat.min (length data) (128 - length ib1) in
  (y1, ib1 ++ firstn n data, skipn n data).

Lemma blocker_S : forall f h y ib data, data <> [] ->
  gcm_blocker (S f) h y ib data =
    let '(y1, ib1, rest) := blk_step h y ib data in gcm_blocker f h y1 ib1 rest.
Proof.
  intros f h y ib data Hd. destruct data as [|x d]; [congruence|].
  unfold blk_step. cbn [gcm_blocker]. destruct (length ib =? 128); reflexivity.
Qed.

Lemma blocker_fuel : forall f1 f2 h y ib data, length ib <= 128 -> length data < f1 -> length data < f2 ->
  gcm_blocker f1 h y ib data = gcm_blocker f2 h y ib data.
Proof.
  induction f1 as [|f1 IH]; intros f2 h y ib data Hib H1 H2; [lia|].
  destruct f2 as [|f2]; [lia|].
  destruct data as [|x d] eqn:Ed; [reflexivity|]. rewrite <- Ed in *.
  assert (Hne : data <> []) by (subst; discriminate).
  rewrite !blocker_S by exact Hne. unfold blk_step.
  destruct (length ib =? 128) eqn:E128.
  - cbn [length]. rewrite Nat.sub_0_r. cbn [app].
    apply IH; [rewrite firstn_length; lia| |]; rewrite skipn_length; assert (0 < length data) by (subst; cbn; lia); lia.
  - apply Nat.eqb_neq in E128.
    apply IH; [rewrite app_length, firstn_length; lia| |]; rewrite skipn_length; assert (0 < length data) by (subst; cbn; lia); lia.
Qed.

Lemma blocker_len : forall f h y ib data, length ib <= 128 -> length (snd (gcm_blocker f h y ib data)) <= 128.
Proof.
  induction f as [|f IH]; intros h y ib data Hib; [exact Hib|].
  destruct data as [|x d] eqn:Ed; [exact Hib|]. rewrite <- Ed in *.
  rewrite blocker_S by (subst; discriminate). unfold blk_step.
  destruct (length ib =? 128) eqn:E128.
  - apply IH. cbn [length app]. rewrite firstn_length. lia.
  - apply Nat.eqb_neq in E128. apply IH. rewrite app_length, firstn_length. lia.
Qed.

Lemma blocker_app : forall n x z f h y ib, length x = n -> length ib <= 128 -> length (x ++ z) < f ->
  gcm_blocker f h y ib (x ++ z) =
    let '(y1, ib1) := gcm_blocker f h y ib x in gcm_blocker f h y1 ib1 z.
Proof.
  induction n as [n IH] using lt_wf_ind. intros x z f h y ib Hn Hib Hf.
  destruct x as [|x0 x'] eqn:Ex.
  - cbn [app]. rewrite blocker_nil. reflexivity.
  - rewrite <- Ex in *. assert (Hx : 0 < length x) by (subst x; cbn; lia).
    destruct f as [|f]; [lia|].
    rewrite (blocker_S f h y ib (x ++ z)) by (subst x; discriminate).
    rewrite (blocker_S f h y ib x) by (subst x; discriminate).
    unfold blk_step.
    set (yb := if length ib =? 128 then (ghash_upd 8 h y ib, []) else (y, ib)).
    assert (Hyb : length (snd yb) < 128 \/ (length (snd yb) = 0)).
    { unfold yb. destruct (length ib =? 128) eqn:E; cbn [snd length]; [right; reflexivity|left; apply Nat.eqb_neq in E; lia]. }
    assert (Hyb' : length (snd yb) < 128) by lia. clear Hyb.
    destruct yb as [y1 ib1]. cbn [snd] in Hyb'.
    set (room := 128 - length ib1). assert (Hroom : 0 < room) by (unfold room; lia).
    rewrite app_length in *.
    destruct (le_lt_dec room (length x)) as [Hge|Hlt].
    + (* x fills the room *)
      replace (Nat.min (length x + length z) room) with room by lia.
      replace (Nat.min (length x) room) with room by lia.
      rewrite firstn_app, skipn_app. replace (room - length x) with 0 by lia.
      rewrite firstn_O, skipn_O, app_nil_r.
      assert (Hib2 : length (ib1 ++ firstn room x) <= 128) by (rewrite app_length, firstn_length; unfold room; lia).
      rewrite (IH (length (skipn room x))); [|rewrite skipn_length; lia|reflexivity|exact Hib2|rewrite app_length, skipn_length; lia].
      pose proof (blocker_len f h y1 (ib1 ++ firstn room x) (skipn room x) Hib2) as Hl.
      destruct (gcm_blocker f h y1 (ib1 ++ firstn room x) (skipn room x)) as [y0 ib0]. cbn [snd] in Hl.
      apply blocker_fuel; [exact Hl|lia|lia].
    + (* x fits with room to spare *)
      replace (Nat.min (length x) room) with (length x) by lia.
      rewrite (firstn_all2 (n := length x) x) by lia. rewrite (skipn_all2 (n := length x) x) by lia.
      rewrite blocker_nil.
      destruct z as [|z0 z'] eqn:Ez.
      * rewrite app_nil_r. cbn [length]. rewrite Nat.add_0_r.
        replace (Nat.min (length x) room) with (length x) by lia.
        rewrite firstn_all2 by lia. rewrite skipn_all2 by lia. rewrite !blocker_nil. reflexivity.
      * rewrite <- Ez in *. assert (Hz : 0 < length z) by (subst z; cbn; lia).
        set (m := Nat.min (length x + length z) room).
        assert (Hm : length x <= m) by (unfold m; lia).
        rewrite firstn_app, skipn_app.
        rewrite (firstn_all2 (n := m) x) by lia. rewrite (skipn_all2 (n := m) x) by lia. cbn [app].
        (* right-hand side: one more step of the blocker on z *)
        rewrite (blocker_S f h y1 (ib1 ++ x) z) by (subst z; discriminate).
        unfold blk_step.
        destruct (length (ib1 ++ x) =? 128) eqn:E; [apply Nat.eqb_eq in E; rewrite app_length in E; unfold room in *; lia|].
        replace (Nat.min (length z) (128 - length (ib1 ++ x))) with (m - length x)
          by (rewrite app_length; unfold m, room; lia).
        rewrite <- app_assoc. reflexivity.
Qed.

(* ---- counters *)
Lemma gcm_count_add_add : forall lo hi n1 n2,
  gcm_count_add (fst (gcm_count_add lo hi n1)) (snd (gcm_count_add lo hi n1)) n2 = gcm_count_add lo hi (n1 + n2).
Proof.
  intros lo hi n1 n2. unfold gcm_count_add. cbn [fst snd].
  set (b1 := ((hi * 2 ^ 32 + lo + n1 * 8) mod 2 ^ 64)%N).
  assert (E1 : (b1 / 2 ^ 32 * 2 ^ 32 + b1 mod 2 ^ 32 = b1)%N).
  { rewrite N.mul_comm. symmetry. apply N.div_mod. discriminate. }
  rewrite E1. unfold b1. rewrite N.add_mod_idemp_l by discriminate.
  replace (hi * 2 ^ 32 + lo + n1 * 8 + n2 * 8)%N with (hi * 2 ^ 32 + lo + (n1 + n2) * 8)%N by lia.
  reflexivity.
Qed.

(* ---- psGhashUpdate over a split input *)
Definition set_stream (c : gcm_ctx) (ctr cblk : list N) (ocnt : nat) : gcm_ctx :=
  {| g_H := g_H c; g_j0 := g_j0 c; g_ctr := ctr; g_cblk := cblk; g_ocnt := ocnt; g_y := g_y c;
     g_alo := g_alo c; g_ahi := g_ahi c; g_clo := g_clo c; g_chi := g_chi c; g_ibuf := g_ibuf c |}.

Lemma ghash_update_ibuf : forall c d a, length (g_ibuf c) <= 128 -> length (g_ibuf (gcm_ghash_update c d a)) <= 128.
Proof.
  intros c d a H. unfold gcm_ghash_update.
  pose proof (blocker_len (S (length d)) (g_H c) (g_y c) (g_ibuf c) d H) as L.
  destruct (gcm_blocker (S (length d)) (g_H c) (g_y c) (g_ibuf c) d) as [y ib]. cbn [snd] in L.
  destruct a; destruct (gcm_count_add _ _ _); cbn [g_ibuf]; exact L.
Qed.

Lemma ghash_update_app : forall c x z a, length (g_ibuf c) <= 128 ->
  gcm_ghash_update c (x ++ z) a = gcm_ghash_update (gcm_ghash_update c x a) z a.
Proof.
  intros c x z a Hib.
  assert (Hbl : gcm_blocker (S (length (x ++ z))) (g_H c) (g_y c) (g_ibuf c) (x ++ z) =
                let '(y1, ib1) := gcm_blocker (S (length x)) (g_H c) (g_y c) (g_ibuf c) x in
                gcm_blocker (S (length z)) (g_H c) y1 ib1 z).
  { rewrite (blocker_app (length x) x z) by (try reflexivity; try exact Hib; lia).
    rewrite (blocker_fuel (S (length (x ++ z))) (S (length x)) _ _ _ x) by (try exact Hib; rewrite ?app_length; lia).
    pose proof (blocker_len (S (length x)) (g_H c) (g_y c) (g_ibuf c) x Hib) as L.
    destruct (gcm_blocker (S (length x)) (g_H c) (g_y c) (g_ibuf c) x) as [y1 ib1]. cbn [snd] in L.
    apply blocker_fuel; [exact L|rewrite app_length; lia|lia]. }
  unfold gcm_ghash_update at 1. rewrite Hbl. clear Hbl.
  unfold gcm_ghash_update.
  destruct (gcm_blocker (S (length x)) (g_H c) (g_y c) (g_ibuf c) x) as [y1 ib1].
  assert (EN : N.of_nat (length (x ++ z)) = (N.of_nat (length x) + N.of_nat (length z))%N) by (rewrite app_length; lia).
  rewrite EN.
  destruct a.
  - rewrite <- (gcm_count_add_add (g_alo c) (g_ahi c)).
    destruct (gcm_count_add (g_alo c) (g_ahi c) (N.of_nat (length x))) as [l1 h1]. cbn [fst snd g_H g_y g_ibuf g_alo g_ahi g_clo g_chi g_j0 g_ctr g_cblk g_ocnt].
    destruct (gcm_count_add l1 h1 (N.of_nat (length z))) as [l2 h2].
    destruct (gcm_blocker (S (length z)) (g_H c) y1 ib1 z) as [y2 ib2]. reflexivity.
  - rewrite <- (gcm_count_add_add (g_clo c) (g_chi c)).
    destruct (gcm_count_add (g_clo c) (g_chi c) (N.of_nat (length x))) as [l1 h1]. cbn [fst snd g_H g_y g_ibuf g_alo g_ahi g_clo g_chi g_j0 g_ctr g_cblk g_ocnt].
    destruct (gcm_count_add l1 h1 (N.of_nat (length z))) as [l2 h2].
    destruct (gcm_blocker (S (length z)) (g_H c) y1 ib1 z) as [y2 ib2]. reflexivity.
Qed.

Lemma ghash_update_set_stream : forall c d a ctr cblk ocnt,
  gcm_ghash_update (set_stream c ctr cblk ocnt) d a = set_stream (gcm_ghash_update c d a) ctr cblk ocnt.
Proof.
  intros. unfold gcm_ghash_update, set_stream. cbn [g_H g_y g_ibuf g_alo g_ahi g_clo g_chi g_j0 g_ctr g_cblk g_ocnt].
  destruct a; destruct (gcm_count_add _ _ _); destruct (gcm_blocker _ _ _ _ _); reflexivity.
Qed.

Lemma gcm_crypt_unfold : forall E c data enc,
  gcm_crypt E c data enc =
    let c1 := if enc then c else gcm_ghash_update c data false in
    let '(out, ctr, cblk, ocnt) := gcm_stream E data (g_ctr c1) (g_cblk c1) (g_ocnt c1) [] in
    let c2 := set_stream c1 ctr cblk ocnt in
    (if enc then gcm_ghash_update c2 out false else c2, out).
Proof. intros. unfold gcm_crypt, set_stream. destruct (gcm_stream _ _ _ _ _ _) as [[[o a] b] n]. reflexivity. Qed.

Lemma ghash_update_stream_fields : forall c d a,
  g_ctr (gcm_ghash_update c d a) = g_ctr c /\ g_cblk (gcm_ghash_update c d a) = g_cblk c /\ g_ocnt (gcm_ghash_update c d a) = g_ocnt c.
Proof.
  intros. unfold gcm_ghash_update. destruct a; destruct (gcm_count_add _ _ _); destruct (gcm_blocker _ _ _ _ _); repeat split.
Qed.

Lemma set_stream_set_stream : forall c a b n a' b' n', set_stream (set_stream c a b n) a' b' n' = set_stream c a' b' n'.
Proof. reflexivity. Qed.
Lemma set_stream_ibuf : forall c a b n, g_ibuf (set_stream c a b n) = g_ibuf c.
Proof. reflexivity. Qed.

(* one call on a ++ b = a call on a followed by a call on b: same context, same output *)
Theorem gcm_crypt_app : forall E c a b enc, length (g_ibuf c) <= 128 ->
  gcm_crypt E c (a ++ b) enc =
    let '(c1, o1) := gcm_crypt E c a enc in let '(c2, o2) := gcm_crypt E c1 b enc in (c2, o1 ++ o2).
Proof.
  intros E c a b enc Hib. rewrite !gcm_crypt_unfold. destruct enc; cbv zeta.
  - rewrite gcm_stream_app.
    destruct (gcm_stream E a (g_ctr c) (g_cblk c) (g_ocnt c) []) as [[[o1 ctr1] cblk1] n1].
    rewrite gcm_stream_acc, rev_involutive.
    rewrite gcm_crypt_unfold. cbv zeta.
    destruct (ghash_update_stream_fields (set_stream c ctr1 cblk1 n1) o1 false) as [F1 [F2 F3]].
    rewrite F1, F2, F3. cbn [set_stream g_ctr g_cblk g_ocnt].
    destruct (gcm_stream E b ctr1 cblk1 n1 []) as [[[o2 ctr2] cblk2] n2].
    f_equal.
    rewrite ghash_update_app by exact Hib.
    rewrite !ghash_update_set_stream. reflexivity.
  - rewrite ghash_update_app by exact Hib.
    destruct (ghash_update_stream_fields (gcm_ghash_update c a false) b false) as [G1 [G2 G3]].
    destruct (ghash_update_stream_fields c a false) as [F1 [F2 F3]].
    rewrite G1, G2, G3, F1, F2, F3.
    rewrite gcm_stream_app.
    destruct (gcm_stream E a (g_ctr c) (g_cblk c) (g_ocnt c) []) as [[[o1 ctr1] cblk1] n1].
    rewrite gcm_stream_acc, rev_involutive.
    rewrite gcm_crypt_unfold. cbv zeta.
    rewrite ghash_update_set_stream.
    destruct (ghash_update_stream_fields (gcm_ghash_update c a false) b false) as [K1 [K2 K3]].
    cbn [set_stream g_ctr g_cblk g_ocnt].
    destruct (gcm_stream E b ctr1 cblk1 n1 []) as [[[o2 ctr2] cblk2] n2].
    reflexivity.
Qed.

Lemma gcm_crypt_ibuf : forall E c d enc, length (g_ibuf c) <= 128 -> length (g_ibuf (fst (gcm_crypt E c d enc))) <= 128.
Proof.
  intros E c d enc H. rewrite gcm_crypt_unfold. cbv zeta. destruct enc.
  - destruct (gcm_stream E d (g_ctr c) (g_cblk c) (g_ocnt c) []) as [[[o ctr] cblk] n]. cbn [fst].
    apply ghash_update_ibuf. exact H.
  - destruct (gcm_stream E d _ _ _ []) as [[[o ctr] cblk] n]. cbn [fst]. rewrite set_stream_ibuf.
    apply ghash_update_ibuf. exact H.
Qed.

Definition crypt_step (E : list N -> list N) (enc : bool) (st : gcm_ctx * list N) (d : list N) : gcm_ctx * list N :=
  let '(c', o) := gcm_crypt E (fst st) d enc in (c', snd st ++ o).

Lemma fold_crypt_acc : forall E enc rest c0 o0,
  fold_left (crypt_step E enc) rest (c0, o0) =
    let '(c', o') := fold_left (crypt_step E enc) rest (c0, []) in (c', o0 ++ o').
Proof.
  induction rest as [|e r IH]; intros c0 o0; cbn [fold_left].
  - rewrite app_nil_r. reflexivity.
  - unfold crypt_step at 2 4. cbn [fst snd]. destruct (gcm_crypt E c0 e enc) as [c1 o1]. cbn [app].
    rewrite IH. rewrite (IH c1 o1). destruct (fold_left (crypt_step E enc) r (c1, [])) as [c' o'].
    rewrite app_assoc. reflexivity.
Qed.

Lemma fold_crypt_concat : forall E enc rest d c, length (g_ibuf c) <= 128 ->
  fold_left (crypt_step E enc) rest (crypt_step E enc (c, []) d) = gcm_crypt E c (d ++ concat rest) enc.
Proof.
  induction rest as [|e r IH]; intros d c Hib; cbn [fold_left concat].
  - rewrite app_nil_r. unfold crypt_step. cbn [fst snd app]. destruct (gcm_crypt E c d enc); reflexivity.
  - rewrite gcm_crypt_app by exact Hib.
    pose proof (gcm_crypt_ibuf E c d enc Hib) as Hib1.
    unfold crypt_step at 3. cbn [fst snd app].
    destruct (gcm_crypt E c d enc) as [c1 o1]. cbn [fst] in Hib1.
    rewrite <- (IH e c1 Hib1).
    unfold crypt_step at 2 4. cbn [fst snd app].
    destruct (gcm_crypt E c1 e enc) as [c2 o2].
    rewrite fold_crypt_acc. rewrite (fold_crypt_acc E enc r c2 o2).
    destruct (fold_left (crypt_step E enc) r (c2, [])) as [c' o']. rewrite app_assoc. reflexivity.
Qed.

Lemma gcm_fold_crypt_is_fold : forall E c chunks enc,
  gcm_fold_crypt E c chunks enc = fold_left (crypt_step E enc) chunks (c, []).
Proof. reflexivity. Qed.

(* however the input is cut into psAesEncryptGCM / psAesDecryptGCMtagless calls (at least one), context and
   output are those of a single call on the concatenation *)
Theorem gcm_chunks_eq : forall E c d chunks enc, length (g_ibuf c) <= 128 ->
  gcm_fold_crypt E c (d :: chunks) enc = gcm_crypt E c (concat (d :: chunks)) enc.
Proof.
  intros E c d chunks enc Hib. rewrite gcm_fold_crypt_is_fold. cbn [fold_left concat].
  apply fold_crypt_concat. exact Hib.
Qed.

Lemma gcm_pad_len : forall f h y ib, length ib <= 128 -> length (snd (gcm_pad f h y ib)) <= 128.
Proof.
  induction f as [|f IH]; intros h y ib H; [exact H|]. cbn [gcm_pad].
  destruct (length ib mod 16 =? 0); [exact H|].
  pose proof (blocker_len 2 h y ib [0%N] H) as L.
  destruct (gcm_blocker 2 h y ib [0%N]) as [y1 ib1]. apply IH. exact L.
Qed.

Lemma gcm_ready_ibuf : forall c iv aad, length (g_ibuf (gcm_ready c iv aad)) <= 128.
Proof.
  intros. unfold gcm_ready, gcm_ghash_pad.
  set (c1 := gcm_ghash_update _ aad true).
  assert (H1 : length (g_ibuf c1) <= 128) by (apply ghash_update_ibuf; cbn; lia).
  pose proof (gcm_pad_len 16 (g_H c1) (g_y c1) (g_ibuf c1) H1) as L.
  destruct (gcm_pad 16 (g_H c1) (g_y c1) (g_ibuf c1)) as [y ib]. exact L.
Qed.

Theorem aes_gcm_encrypt_chunks : forall key iv aad d chunks t,
  aes_gcm_encrypt key iv aad (d :: chunks) t = aes_gcm_encrypt key iv aad [concat (d :: chunks)] t.
Proof.
  intros. unfold aes_gcm_encrypt. cbv zeta.
  rewrite gcm_chunks_eq by apply gcm_ready_ibuf.
  rewrite (gcm_chunks_eq _ _ (concat (d :: chunks)) []) by apply gcm_ready_ibuf.
  cbn [concat]. rewrite app_nil_r. reflexivity.
Qed.

Theorem aes_gcm_decrypt2_chunks : forall key iv aad d chunks last tag,
  aes_gcm_decrypt2 key iv aad (d :: chunks) last tag = aes_gcm_decrypt2 key iv aad [] (concat (d :: chunks) ++ last) tag.
Proof.
  intros. unfold aes_gcm_decrypt2. cbv zeta.
  set (E := aes_encrypt_block key). set (c0 := gcm_ready (gcm_init E) iv aad).
  rewrite gcm_chunks_eq by apply gcm_ready_ibuf.
  change (gcm_fold_crypt E c0 [] false) with (c0, @nil N).
  unfold gcm_decrypt2. destruct (16 <? length tag); [destruct (gcm_crypt E c0 (concat (d :: chunks)) false); reflexivity|].
  rewrite (gcm_crypt_app E c0 (concat (d :: chunks)) last false) by apply gcm_ready_ibuf.
  destruct (gcm_crypt E c0 (concat (d :: chunks)) false) as [c1 p0].
  destruct (gcm_crypt E c1 last false) as [c2 p1].
  unfold gcm_get_tag. change (16 <? 16) with false. cbn [bind snd fst].
  destruct (ct_eq _ tag); reflexivity.
Qed.
