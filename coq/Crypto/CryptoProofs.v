(* C12 - proofs: the code-shaped models of CryptoModel.v compute the one-shot specifications of
   CryptoSpec.v for every input and every way of splitting the input across Update calls. *)
From Coq Require Import List NArith ZArith Arith Bool Lia.
From MV Require Import Crypto.CryptoPrims Crypto.CryptoSpec Crypto.CryptoModel.
Import ListNotations.

(* ------------------------------------------------------------------ small list facts *)
Lemma firstn_len_app : forall (A : Type) (a b : list A), firstn (length a) (a ++ b) = a.
Proof. induction a; intros; cbn; [destruct b|rewrite IHa]; reflexivity. Qed.
Lemma skipn_len_app : forall (A : Type) (a b : list A), skipn (length a) (a ++ b) = b.
Proof. induction a; intros; cbn; [|rewrite IHa]; reflexivity. Qed.
Lemma firstn_app_len : forall (A : Type) n (a b : list A),
  firstn n (a ++ b) = firstn n a ++ firstn (n - length a) b.
Proof. intros. apply firstn_app. Qed.
Lemma repeat_plus : forall (A : Type) (x : A) n m, repeat x (n + m) = repeat x n ++ repeat x m.
Proof. induction n; intros; cbn; [|rewrite IHn]; reflexivity. Qed.
Lemma skipn_last_block : forall (A : Type) (a t : list A) h, length t = h ->
  skipn (length (a ++ t) - h) (a ++ t) = t.
Proof.
  intros A a t h Hh. rewrite app_length. replace (length a + length t - h) with (length a) by lia.
  apply skipn_len_app.
Qed.

(* w32 / w64 are reduction modulo 2^32 / 2^64 *)
Lemma w32_mod : forall x, w32 x = (x mod 2 ^ 32)%N.
Proof. intro x. unfold w32. change 0xFFFFFFFF%N with (N.ones 32). apply N.land_ones. Qed.
Lemma w64_mod : forall x, w64 x = (x mod 2 ^ 64)%N.
Proof. intro x. unfold w64. change 0xFFFFFFFFFFFFFFFF%N with (N.ones 64). apply N.land_ones. Qed.

(* ceil(n/h)*h >= n *)
Lemma ceil_mul_ge : forall n h, 0 < h -> n <= ((n + h - 1) / h) * h.
Proof.
  intros n h Hh. pose proof (Nat.div_mod (n + h - 1) h ltac:(lia)) as E.
  pose proof (Nat.mod_upper_bound (n + h - 1) h ltac:(lia)) as U.
  rewrite (Nat.mul_comm _ h). lia.
Qed.

(* ================================================================== Merkle-Damgaard contexts *)
Section MDProofs.
  Variable state : Type.
  Variables B T Z : nat.
  Variable fast : bool.
  Variable compress : state -> list N -> state.
  Variable store64 : N -> list N.
  Variable iv : state.
  Variable out : state -> list N.
  Hypothesis Bpos : 0 < B.
  Hypothesis HTZ : T <= Z.
  Hypothesis HZB : Z <= B.
  Hypothesis Hstore : forall n, length (store64 n) = B - Z.

  Local Notation absorbf := (absorb_fuel state B compress).
  Local Notation absorb := (absorb state B compress).
  Local Notation ctx := (ctx state).
  Local Notation update_fuel := (update_fuel state B fast compress).
  Local Notation md_update := (md_update state B fast compress).
  Local Notation md_final := (md_final state B T Z compress store64 out).
  Local Notation md_init := (md_init state iv).
  Local Notation bump := (bump B).
  Definition lenfield_of (n : N) : list N := repeat 0%N (Z - T) ++ store64 n.
  Local Notation md_spec := (md_spec state B T compress lenfield_of iv out).

  Lemma absorb_fuel_mono : forall f1 f2 s m, length m <= f1 -> length m <= f2 ->
    absorbf f1 s m = absorbf f2 s m.
  Proof.
    pose proof Bpos as HB.
    induction f1 as [|f1 IH]; intros f2 s m H1 H2.
    - destruct m; [|cbn in H1; lia]. destruct f2; cbn; [reflexivity|].
      destruct (B <=? 0) eqn:E; [apply Nat.leb_le in E; lia|reflexivity].
    - destruct f2 as [|f2].
      + destruct m; [|cbn in H2; lia]. cbn.
        destruct (B <=? 0) eqn:E; [apply Nat.leb_le in E; lia|reflexivity].
      + cbn. destruct (B <=? length m) eqn:E; [|reflexivity].
        apply Nat.leb_le in E. apply IH; rewrite skipn_length; lia.
  Qed.

  Lemma absorb_fuel_enough : forall f s m, length m <= f -> absorbf f s m = absorb s m.
  Proof. intros. unfold CryptoSpec.absorb. apply absorb_fuel_mono; lia. Qed.

  Lemma absorb_step : forall s m, B <= length m ->
    absorb s m = absorb (compress s (firstn B m)) (skipn B m).
  Proof.
    pose proof Bpos as HB. intros s m H. unfold CryptoSpec.absorb at 1. destruct (length m) eqn:E; [lia|].
    cbn. rewrite E. destruct (B <=? S n) eqn:E2; [|apply Nat.leb_gt in E2; lia].
    apply absorb_fuel_enough. rewrite skipn_length. lia.
  Qed.

  Lemma absorb_short : forall s m, length m < B -> absorb s m = (s, m).
  Proof.
    pose proof Bpos as HB. intros s m H. unfold CryptoSpec.absorb. destruct (length m) eqn:E; [reflexivity|].
    cbn. rewrite E. destruct (B <=? S n) eqn:E2; [apply Nat.leb_le in E2; lia|reflexivity].
  Qed.

  Lemma absorb_block : forall s blk rest, length blk = B ->
    absorb s (blk ++ rest) = absorb (compress s blk) rest.
  Proof.
    intros s blk rest H. rewrite absorb_step by (rewrite app_length; lia).
    rewrite <- H, firstn_len_app, skipn_len_app. reflexivity.
  Qed.

  Lemma absorb_app : forall m s d,
    absorb s (m ++ d) = absorb (fst (absorb s m)) (snd (absorb s m) ++ d).
  Proof.
    pose proof Bpos as HB. intros m. remember (length m) as n eqn:Hn. revert m Hn.
    induction n as [n IH] using lt_wf_ind. intros m Hn s d.
    destruct (le_lt_dec B (length m)) as [Hge|Hlt].
    - rewrite (absorb_step s m Hge).
      rewrite (absorb_step s (m ++ d)) by (rewrite app_length; lia).
      rewrite firstn_app, skipn_app.
      replace (B - length m) with 0 by lia. cbn [firstn skipn]. rewrite app_nil_r.
      apply (IH (length (skipn B m))); [rewrite skipn_length; lia|reflexivity].
    - rewrite (absorb_short s m Hlt). reflexivity.
  Qed.

  Lemma absorb_rest_len : forall m s, length (snd (absorb s m)) = length m mod B.
  Proof.
    pose proof Bpos as HB. intros m. remember (length m) as n eqn:Hn. revert m Hn.
    induction n as [n IH] using lt_wf_ind. intros m Hn s.
    destruct (le_lt_dec B (length m)) as [Hge|Hlt].
    - rewrite (absorb_step s m Hge).
      rewrite (IH (length (skipn B m))) with (m := skipn B m); [|rewrite skipn_length; lia|reflexivity].
      rewrite skipn_length. subst n.
      replace (length m) with ((length m - B) + 1 * B) at 2 by lia.
      rewrite Nat.mod_add by lia. reflexivity.
    - rewrite (absorb_short s m Hlt). cbn [snd]. subst n. symmetry. apply Nat.mod_small. exact Hlt.
  Qed.

  (* the context represents "message m absorbed so far" *)
  Definition rep (c : ctx) (m : list N) : Prop :=
    absorb iv m = (st c, buf c) /\ length (buf c) < B /\
    exists k, len c = ((8 * N.of_nat k) mod 2 ^ 64)%N /\ k + length (buf c) = length m.

  Lemma bump_count : forall k, bump ((8 * N.of_nat k) mod 2 ^ 64)%N = ((8 * N.of_nat (k + B)) mod 2 ^ 64)%N.
  Proof.
    intro k. unfold CryptoModel.bump. rewrite N.add_mod_idemp_l by (apply N.pow_nonzero; discriminate).
    f_equal. lia.
  Qed.

  Lemma rep_init : rep md_init [].
  Proof.
    unfold rep, CryptoModel.md_init. cbn [st buf len length]. repeat split.
    - exact Bpos.
    - exists 0. split; reflexivity.
  Qed.

  Definition upd_body (f : nat) (c : ctx) (d : list N) : ctx :=
    if fast && (length (buf c) =? 0) && (B <=? length d) then
      update_fuel f {| st := compress (st c) (firstn B d); buf := []; len := bump (len c) |} (skipn B d)
    else
      let n := Nat.min (length d) (B - length (buf c)) in
      let b := buf c ++ firstn n d in
      if length b =? B then update_fuel f {| st := compress (st c) b; buf := []; len := bump (len c) |} (skipn n d)
      else update_fuel f {| st := st c; buf := b; len := len c |} (skipn n d).

  Lemma update_fuel_S : forall f c d, d <> [] -> update_fuel (S f) c d = upd_body f c d.
  Proof. intros f c d H. destruct d; [congruence|reflexivity]. Qed.

  Lemma update_fuel_rep : forall f c d m, length d < f -> rep c m -> rep (update_fuel f c d) (m ++ d).
  Proof.
    pose proof Bpos as HB. induction f as [|f IH]; intros c d m Hf [Hab [Hlen [k [Hk Hkl]]]]; [lia|].
    destruct d as [|x d'] eqn:Ed; [cbn; rewrite app_nil_r; repeat split; [assumption|assumption|exists k; auto]|].
    rewrite <- Ed in *. assert (Hd : 0 < length d) by (subst d; cbn; lia).
    rewrite update_fuel_S by (subst d; discriminate). unfold upd_body.
    clear Ed x d'.
    destruct (fast && (length (buf c) =? 0) && (B <=? length d)) eqn:E.
    - apply andb_prop in E. destruct E as [E1 E2]. apply andb_prop in E1. destruct E1 as [_ E1].
      apply Nat.eqb_eq in E1. apply Nat.leb_le in E2.
      destruct (buf c) eqn:Eb; [|cbn in E1; lia].
      replace (m ++ d) with ((m ++ firstn B d) ++ skipn B d) by (rewrite <- app_assoc, firstn_skipn; reflexivity).
      apply IH; [rewrite skipn_length; lia|].
      unfold rep; cbn [st buf len length]. split; [|split; [lia|]].
      + rewrite absorb_app, Hab. cbn [fst snd app].
        rewrite absorb_step by (rewrite firstn_length; lia).
        rewrite firstn_firstn, Nat.min_id.
        rewrite skipn_all2 by (rewrite firstn_length; lia).
        apply absorb_short. cbn. lia.
      + exists (k + B). split; [rewrite Hk; apply bump_count|].
        rewrite app_length, firstn_length. cbn in Hkl. lia.
    - set (n := Nat.min (length d) (B - length (buf c))).
      assert (Hn : 0 < n) by (subst n; lia).
      assert (Hn2 : n <= length d) by (subst n; lia).
      assert (Hbl : length (buf c ++ firstn n d) = length (buf c) + n)
        by (rewrite app_length, firstn_length; lia).
      cbv zeta.
      destruct (length (buf c ++ firstn n d) =? B) eqn:E3.
      + apply Nat.eqb_eq in E3.
        replace (m ++ d) with ((m ++ firstn n d) ++ skipn n d) by (rewrite <- app_assoc, firstn_skipn; reflexivity).
        apply IH; [rewrite skipn_length; lia|].
        unfold rep; cbn [st buf len length]. split; [|split; [lia|]].
        * rewrite absorb_app, Hab. cbn [fst snd].
          rewrite absorb_step by lia.
          rewrite firstn_all2 by lia. rewrite skipn_all2 by lia.
          apply absorb_short. cbn. lia.
        * exists (k + B). split; [rewrite Hk; apply bump_count|].
          rewrite app_length, firstn_length. lia.
      + apply Nat.eqb_neq in E3.
        replace (m ++ d) with ((m ++ firstn n d) ++ skipn n d) by (rewrite <- app_assoc, firstn_skipn; reflexivity).
        apply IH; [rewrite skipn_length; lia|].
        assert (length (buf c ++ firstn n d) < B) by (subst n; lia).
        unfold rep; cbn [st buf len length]. split; [|split; [assumption|]].
        * rewrite absorb_app, Hab. cbn [fst snd]. apply absorb_short. assumption.
        * exists k. split; [exact Hk|]. rewrite app_length, firstn_length, app_length, firstn_length. lia.
  Qed.

  Lemma update_chunks_rep : forall chunks c m, rep c m ->
    rep (fold_left md_update chunks c) (m ++ concat chunks).
  Proof.
    induction chunks as [|d ds IH]; intros c m H; cbn [fold_left concat].
    - rewrite app_nil_r. exact H.
    - rewrite app_assoc. apply IH. unfold CryptoModel.md_update. apply update_fuel_rep; [lia|exact H].
  Qed.

  Lemma padzeros_lo : forall n, n mod B + 1 <= T -> padzeros B T n = T - 1 - n mod B.
  Proof.
    intros n H. unfold padzeros.
    replace (T + B - 1 - n mod B) with ((T - 1 - n mod B) + 1 * B) by lia.
    rewrite Nat.mod_add by lia. apply Nat.mod_small. lia.
  Qed.
  Lemma padzeros_hi : forall n, T < n mod B + 1 -> padzeros B T n = T + B - 1 - n mod B.
  Proof.
    intros n H. unfold padzeros. apply Nat.mod_small.
    pose proof (Nat.mod_upper_bound n B ltac:(lia)). lia.
  Qed.

  Lemma final_rep : forall c m, rep c m -> md_final c = md_spec m.
  Proof.
    pose proof Bpos as HB. intros c m [Hab [Hlen [k [Hk Hkl]]]].
    assert (Hr : length (buf c) = length m mod B).
    { pose proof (absorb_rest_len m iv) as R. rewrite Hab in R. exact R. }
    assert (Hl : ((len c + 8 * N.of_nat (length (buf c))) mod 2 ^ 64 = (8 * N.of_nat (length m)) mod 2 ^ 64)%N).
    { rewrite Hk. rewrite N.add_mod_idemp_l by (apply N.pow_nonzero; discriminate). f_equal. lia. }
    unfold CryptoSpec.md_spec, md_pad. rewrite absorb_app, Hab. cbn [fst snd].
    unfold CryptoModel.md_final. cbv zeta. rewrite Hl.
    set (L := ((8 * N.of_nat (length m)) mod 2 ^ 64)%N).
    set (r := length (buf c)) in *.
    assert (Hb1 : length (buf c ++ [128%N]) = r + 1) by (rewrite app_length; reflexivity).
    rewrite Hb1.
    destruct (T <? r + 1) eqn:E.
    - apply Nat.ltb_lt in E. cbn [fst snd length]. f_equal.
      rewrite padzeros_hi by (rewrite <- Hr; exact E). rewrite <- Hr. fold r.
      replace (T + B - 1 - r) with ((B - (r + 1)) + T) by lia.
      rewrite repeat_plus. unfold lenfield_of.
      replace (buf c ++ 128%N :: (repeat 0%N (B - (r + 1)) ++ repeat 0%N T) ++ repeat 0%N (Z - T) ++ store64 L)
        with (((buf c ++ [128%N]) ++ repeat 0%N (B - (r + 1))) ++ ((repeat 0%N T ++ repeat 0%N (Z - T)) ++ store64 L) ++ [])
        by (rewrite app_nil_r, <- !app_assoc; reflexivity).
      rewrite absorb_block by (rewrite app_length, Hb1, repeat_length; lia).
      rewrite absorb_block by (rewrite !app_length, !repeat_length, Hstore; lia).
      rewrite absorb_short by (cbn; lia). cbn [fst app].
      rewrite <- repeat_plus. replace (T + (Z - T)) with Z by lia. rewrite Nat.sub_0_r. reflexivity.
    - apply Nat.ltb_ge in E. cbn [fst snd]. f_equal.
      rewrite padzeros_lo by (rewrite <- Hr; exact E). rewrite <- Hr. fold r. unfold lenfield_of.
      replace (buf c ++ 128%N :: repeat 0%N (T - 1 - r) ++ repeat 0%N (Z - T) ++ store64 L)
        with ((((buf c ++ [128%N]) ++ repeat 0%N (Z - (r + 1))) ++ store64 L) ++ []).
      2:{ rewrite app_nil_r, <- !app_assoc. cbn [app]. do 2 f_equal. rewrite app_assoc, <- repeat_plus.
          do 2 f_equal. lia. }
      rewrite absorb_block by (rewrite 2 app_length, Hb1, repeat_length, Hstore; lia).
      rewrite absorb_short by (cbn; lia). cbn [fst]. rewrite Hb1. reflexivity.
  Qed.

  (* every way of splitting a message across Update calls yields the one-shot specification *)
  Theorem md_chunks_correct : forall chunks,
    md_final (fold_left md_update chunks md_init) = md_spec (concat chunks).
  Proof.
    intro chunks. apply final_rep. apply (update_chunks_rep chunks md_init [] rep_init).
  Qed.
End MDProofs.

Lemma md_spec_out_ext : forall state B T compress lenfield iv (out1 out2 : state -> list N) m,
  (forall s, out1 s = out2 s) ->
  md_spec state B T compress lenfield iv out1 m = md_spec state B T compress lenfield iv out2 m.
Proof. intros. unfold md_spec. apply H. Qed.

(* ------------------------------------------------------------------ instances *)
Theorem sha256_chunks : forall chunks,
  sha256_final (fold_left sha256_update chunks sha256_init) = sha256_spec (concat chunks).
Proof.
  intro chunks.
  exact (md_chunks_correct st8 64 56 56 true sha256_compress be64 sha256_iv sha256_out
           ltac:(lia) ltac:(lia) ltac:(lia) (fun n => eq_refl) chunks).
Qed.

Theorem sha1_chunks : forall chunks,
  sha1_final (fold_left sha1_update chunks sha1_init) = sha1_spec (concat chunks).
Proof.
  intro chunks.
  exact (md_chunks_correct st5 64 56 56 false sha1_compress be64 sha1_iv sha1_out
           ltac:(lia) ltac:(lia) ltac:(lia) (fun n => eq_refl) chunks).
Qed.

Theorem md5_chunks : forall chunks,
  md5_final (fold_left md5_update chunks md5_init) = md5_spec (concat chunks).
Proof.
  intro chunks.
  exact (md_chunks_correct st4 64 56 56 false md5_compress le64 md5_iv md5_out
           ltac:(lia) ltac:(lia) ltac:(lia) (fun n => eq_refl) chunks).
Qed.

Theorem sha512_chunks : forall chunks,
  sha512_final (fold_left sha512_update chunks sha512_init) = sha512_spec (concat chunks).
Proof.
  intro chunks.
  exact (md_chunks_correct st8 128 112 120 true sha512_compress be64 sha512_iv sha512_out
           ltac:(lia) ltac:(lia) ltac:(lia) (fun n => eq_refl) chunks).
Qed.

Theorem sha384_chunks : forall chunks,
  sha384_final (fold_left sha384_update chunks sha384_init) = sha384_spec (concat chunks).
Proof.
  intro chunks.
  pose proof (md_chunks_correct st8 128 112 120 true sha512_compress be64 sha384_iv
                (fun s => firstn 48 (sha512_out s))
                ltac:(lia) ltac:(lia) ltac:(lia) (fun n => eq_refl) chunks) as H.
  unfold sha384_final, sha384_update, sha512_update, sha384_init. rewrite H.
  unfold sha384_spec. apply md_spec_out_ext.
  intros [[[[[[[a b] c] d] e] f] g] h]. reflexivity.
Qed.

Lemma sha256_spec_len : forall m, length (sha256_spec m) = 32.
Proof. intro m. unfold sha256_spec, md_spec. destruct (fst _) as [[[[[[[a b] c] d] e] f] g] h]. reflexivity. Qed.
Lemma sha1_spec_len : forall m, length (sha1_spec m) = 20.
Proof. intro m. unfold sha1_spec, md_spec. destruct (fst _) as [[[[a b] c] d] e]. reflexivity. Qed.
Lemma sha384_spec_len : forall m, length (sha384_spec m) = 48.
Proof. intro m. unfold sha384_spec, md_spec. destruct (fst _) as [[[[[[[a b] c] d] e] f] g] h]. reflexivity. Qed.
Lemma sha512_spec_len : forall m, length (sha512_spec m) = 64.
Proof. intro m. unfold sha512_spec, md_spec. destruct (fst _) as [[[[[[[a b] c] d] e] f] g] h]. reflexivity. Qed.
Lemma md5_spec_len : forall m, length (md5_spec m) = 16.
Proof. intro m. unfold md5_spec, md_spec. destruct (fst _) as [[[a b] c] d]. reflexivity. Qed.

(* ================================================================== HMAC / HKDF / PBKDF2 *)
Lemma xor_bytes_pad : forall c k n, xor_bytes c (k ++ repeat 0%N n) = xor_bytes c k ++ repeat c n.
Proof.
  intros c k n. unfold xor_bytes. rewrite map_app. f_equal.
  induction n; cbn [repeat map]; [reflexivity|]. rewrite IHn. reflexivity.
Qed.

Lemma xor_lists_length : forall a b, length (xor_lists a b) = Nat.min (length a) (length b).
Proof. induction a; destruct b; cbn; try reflexivity. rewrite IHa. reflexivity. Qed.

Section HmacProofs.
  Variable hctx : Type.
  Variable hinit : hctx.
  Variable hupdate : hctx -> list N -> hctx.
  Variable hfinal : hctx -> list N.
  Variable B : nat.
  Variable hlen : nat.
  Variable H : list N -> list N.
  (* the digest context computes H whatever the chunking (md_chunks_correct) *)
  Hypothesis Hchunks : forall chunks, hfinal (fold_left hupdate chunks hinit) = H (concat chunks).
  Hypothesis Hlen : forall m, length (H m) = hlen.
  Hypothesis HlenB : hlen <= B.
  Hypothesis Hpos : 0 < hlen.

  Local Notation hmac_init := (hmac_init hctx hinit hupdate hfinal B).
  Local Notation hmac_update := (hmac_update hctx hupdate).
  Local Notation hmac_final := (hmac_final hctx hinit hupdate hfinal).
  Local Notation ps_hmac := (ps_hmac hctx hinit hupdate hfinal B hlen).
  Local Notation mac := (hmac_spec H B).
  Local Notation k0 := (hmac_k0 H B).

  Lemma hash1 : forall m, hfinal (hupdate hinit m) = H m.
  Proof. intro m. pose proof (Hchunks [m]) as E. cbn in E. rewrite app_nil_r in E. exact E. Qed.
  Lemma hash2 : forall a b, hfinal (hupdate (hupdate hinit a) b) = H (a ++ b).
  Proof. intros a b. pose proof (Hchunks [a; b]) as E. cbn in E. rewrite app_nil_r in E. exact E. Qed.
  Lemma hash_fold : forall a chunks, hfinal (fold_left hupdate chunks (hupdate hinit a)) = H (a ++ concat chunks).
  Proof. intros a chunks. exact (Hchunks (a :: chunks)). Qed.

  Lemma mac_len : forall k m, length (mac k m) = hlen.
  Proof. intros. unfold hmac_spec. apply Hlen. Qed.

  Lemma hmac_init_ok : forall key,
    hmac_init key = Ok {| pad := xor_bytes 0x5c (k0 key); hc := hupdate hinit (xor_bytes 0x36 (k0 key)) |}.
  Proof.
    intro key. unfold CryptoModel.hmac_init, hmac_k0. rewrite hash1.
    destruct (B <? length key) eqn:E.
    - rewrite Hlen. destruct (B <? hlen) eqn:E2; [apply Nat.ltb_lt in E2; lia|].
      rewrite !xor_bytes_pad. reflexivity.
    - rewrite E. rewrite !xor_bytes_pad. reflexivity.
  Qed.

  Lemma k0_hashed : forall key, B < length key -> k0 (H key) = k0 key.
  Proof.
    intros key Hk. unfold hmac_k0. rewrite Hlen.
    destruct (B <? hlen) eqn:E2; [apply Nat.ltb_lt in E2; lia|].
    apply Nat.ltb_lt in Hk. rewrite Hk. rewrite Hlen. reflexivity.
  Qed.

  Lemma fold_hmac_update : forall chunks c,
    fold_left hmac_update chunks c = {| pad := pad c; hc := fold_left hupdate chunks (hc c) |}.
  Proof.
    induction chunks as [|d ds IH]; intro c; cbn [fold_left]; [destruct c; reflexivity|].
    rewrite IH. reflexivity.
  Qed.

  (* streaming HMAC: Init(key); Update(chunk)*; Final  =  RFC 2104, for every key length *)
  Theorem hmac_stream_eq : forall key chunks,
    exists c, hmac_init key = Ok c /\ hmac_final (fold_left hmac_update chunks c) = mac key (concat chunks).
  Proof.
    intros key chunks. eexists. split; [apply hmac_init_ok|].
    rewrite fold_hmac_update. unfold CryptoModel.hmac_final. cbn [pad hc].
    rewrite hash_fold, hash2. reflexivity.
  Qed.

  Lemma prf_stream_eq : forall key parts,
    prf_stream hctx hinit hupdate hfinal B key parts = Ok (mac key (concat parts)).
  Proof.
    intros key parts. unfold prf_stream. destruct (hmac_stream_eq key parts) as [c [E1 E2]].
    rewrite E1. cbn [bind]. rewrite E2. reflexivity.
  Qed.

  (* one-shot psHmac<H>(): MAC and the key length it reports *)
  Theorem ps_hmac_eq : forall key msg,
    ps_hmac key msg = Ok (mac key msg, if B <? length key then hlen else length key).
  Proof.
    intros key msg. unfold CryptoModel.ps_hmac. rewrite hash1.
    destruct (B <? length key) eqn:E; cbn [fst snd].
    - destruct (hmac_stream_eq (H key) [msg]) as [c [E1 E2]]. rewrite E1. cbn [bind].
      cbn [fold_left concat] in E2. rewrite app_nil_r in E2. rewrite E2.
      unfold hmac_spec. rewrite k0_hashed by (apply Nat.ltb_lt; exact E). reflexivity.
    - destruct (hmac_stream_eq key [msg]) as [c [E1 E2]]. rewrite E1. cbn [bind].
      cbn [fold_left concat] in E2. rewrite app_nil_r in E2. rewrite E2. reflexivity.
  Qed.

  (* ---------------------------------------------------------------- HKDF *)
  Local Notation hkdf_T := (hkdf_T H B).

  Lemma hkdf_T_length : forall n prk info prev i, length (hkdf_T prk info prev i n) = n * hlen.
  Proof. induction n; intros; cbn [CryptoSpec.hkdf_T]; [reflexivity|]. rewrite app_length, mac_len, IHn. reflexivity. Qed.

  Lemma firstn_T_more : forall n k R prk info prev i, R <= n * hlen ->
    firstn R (hkdf_T prk info prev i (n + k)) = firstn R (hkdf_T prk info prev i n).
  Proof.
    induction n; intros k R prk info prev i HR.
    - assert (R = 0) by lia. subst R. reflexivity.
    - cbn [CryptoSpec.hkdf_T Nat.add]. rewrite !firstn_app_len, mac_len. f_equal.
      apply IHn. cbn in HR. lia.
  Qed.

  Lemma firstn_T_enough : forall n1 n2 R prk info prev i, R <= n1 * hlen -> R <= n2 * hlen ->
    firstn R (hkdf_T prk info prev i n1) = firstn R (hkdf_T prk info prev i n2).
  Proof.
    intros n1 n2 R prk info prev i H1 H2. destruct (Nat.le_ge_cases n1 n2) as [Hle|Hle].
    - replace n2 with (n1 + (n2 - n1)) by lia. symmetry. apply firstn_T_more. exact H1.
    - replace n1 with (n2 + (n1 - n2)) by lia. apply firstn_T_more. exact H2.
  Qed.

  Local Notation hkdf_loop := (hkdf_loop hctx hinit hupdate hfinal B hlen).

  Lemma hkdf_loop_ok : forall n fuel prk info L i okm R,
    n < fuel -> length okm + R = L -> n * hlen <= R -> R < S n * hlen ->
    (1 <= i)%N -> ((i + N.of_nat n <= 255)%N \/ ((i + N.of_nat n = 256)%N /\ R = n * hlen)) ->
    hkdf_loop fuel prk info L i okm =
      Ok (okm ++ firstn R (hkdf_T prk info (if (i =? 1)%N then [] else skipn (length okm - hlen) okm) i (S n))).
  Proof.
    induction n as [|n IH]; intros fuel prk info L i okm R Hf HL Hlo Hhi Hi Hcnt.
    - destruct fuel as [|f]; [lia|]. cbn [CryptoModel.hkdf_loop CryptoSpec.hkdf_T].
      rewrite ps_hmac_eq. cbn [bind fst].
      replace (L - length okm) with R by lia.
      destruct (R <? hlen) eqn:E; [|apply Nat.ltb_ge in E; cbn in Hhi; lia].
      rewrite app_nil_r.
      destruct Hcnt as [Hc|[Hc HR]].
      + rewrite N.mod_small by lia. reflexivity.
      + cbn in HR. subst R. reflexivity.
    - destruct fuel as [|f]; [lia|]. cbn [CryptoModel.hkdf_loop].
      rewrite ps_hmac_eq. cbn [bind fst].
      replace (L - length okm) with R by lia.
      assert (Hge : hlen <= R) by (cbn in Hlo; lia).
      destruct (R <? hlen) eqn:E; [apply Nat.ltb_lt in E; lia|].
      assert (Hi255 : (i <= 255)%N) by lia.
      rewrite N.mod_small by lia.
      set (prev := if (i =? 1)%N then [] else skipn (length okm - hlen) okm).
      set (t := mac prk (prev ++ info ++ [i])).
      assert (Ht : length t = hlen) by apply mac_len.
      rewrite (IH f prk info L (i + 1)%N (okm ++ t) (R - hlen)).
      + replace ((i + 1 =? 1)%N) with false by (symmetry; apply N.eqb_neq; lia).
        rewrite (skipn_last_block _ okm t hlen Ht).
        cbn [CryptoSpec.hkdf_T]. fold prev. fold t.
        rewrite (firstn_app_len _ R t). rewrite Ht.
        rewrite (firstn_all2 t) by lia. rewrite <- app_assoc. reflexivity.
      + lia.
      + rewrite app_length. lia.
      + cbn in Hlo. lia.
      + cbn in Hhi. cbn. lia.
      + lia.
      + destruct Hcnt as [Hc|[Hc HR]]; [left; lia|right; split; [lia|cbn in HR; lia]].
  Qed.

  Theorem hkdf_expand_eq : forall prk info L,
    length info <= 80 -> hlen <= length prk -> L <= 255 * hlen ->
    hkdf_expand hctx hinit hupdate hfinal B hlen prk info L = Ok (hkdf_expand_spec H B hlen prk info L).
  Proof.
    intros prk info L Hi Hp HL. unfold hkdf_expand, HKDF_MAX_INFO_LEN.
    destruct (80 <? length info) eqn:E1; [apply Nat.ltb_lt in E1; lia|].
    destruct (length prk <? hlen) eqn:E2; [apply Nat.ltb_lt in E2; lia|].
    destruct (hlen * 255 <? L) eqn:E3; [apply Nat.ltb_lt in E3; lia|]. cbn [orb].
    pose proof (Nat.div_mod L hlen ltac:(lia)) as Ediv.
    pose proof (Nat.mod_upper_bound L hlen ltac:(lia)) as Emod.
    assert (Hn : L / hlen <= 255) by (apply Nat.div_le_upper_bound; lia).
    remember (L / hlen) as n eqn:En. remember (L mod hlen) as r eqn:Er. clear En Er.
    assert (Hmul : S n * hlen = hlen + hlen * n) by (cbn [Nat.mul]; lia).
    rewrite (hkdf_loop_ok n 257 prk info L 1%N [] L).
    - cbn [app length N.eqb Pos.eqb]. unfold hkdf_expand_spec. f_equal.
      apply firstn_T_enough; [lia|]. apply ceil_mul_ge. exact Hpos.
    - lia.
    - reflexivity.
    - lia.
    - lia.
    - lia.
    - destruct (Nat.eq_dec n 255) as [E|E]; [right|left; lia].
      split; [lia|]. subst n. lia.
  Qed.

  Theorem hkdf_extract_eq : forall salt ikm,
    hkdf_extract hctx hinit hupdate hfinal B hlen salt ikm = Ok (hkdf_extract_spec H B salt ikm).
  Proof. intros. unfold hkdf_extract. rewrite ps_hmac_eq. reflexivity. Qed.

  (* ---------------------------------------------------------------- PBKDF2 *)
  Local Notation prf_stream := (prf_stream hctx hinit hupdate hfinal B).
  Local Notation pbkdf2_inner := (pbkdf2_inner hctx hinit hupdate hfinal B).
  Local Notation pbkdf2_loop := (pbkdf2_loop hctx hinit hupdate hfinal B hlen).

  Lemma pbkdf2_inner_eq : forall n pw b0 b1, pbkdf2_inner n pw b0 b1 = Ok (pbkdf2_U H B pw b0 b1 n).
  Proof.
    induction n; intros; cbn [CryptoModel.pbkdf2_inner pbkdf2_U]; [reflexivity|].
    rewrite prf_stream_eq. cbn [bind concat]. rewrite app_nil_r. apply IHn.
  Qed.

  Lemma pbkdf2_U_length : forall n pw u acc, length u = hlen -> length acc = hlen ->
    length (pbkdf2_U H B pw u acc n) = hlen.
  Proof.
    induction n; intros pw u acc Hu Ha; cbn [pbkdf2_U]; [exact Ha|].
    apply IHn; [apply mac_len|]. rewrite xor_lists_length, Ha, mac_len. apply Nat.min_id.
  Qed.

  Lemma pbkdf2_F_length : forall pw salt c i, length (pbkdf2_F H B pw salt c i) = hlen.
  Proof. intros. unfold pbkdf2_F. apply pbkdf2_U_length; apply mac_len. Qed.

  Lemma pbkdf2_loop_done : forall fuel pw salt rounds blkno key, pbkdf2_loop fuel pw salt rounds 0 blkno key = Ok key.
  Proof. intros. destruct fuel; reflexivity. Qed.

  Lemma pbkdf2_loop_ok : forall fuel pw salt rounds left blkno key n,
    left < fuel -> (N.of_nat left + blkno <= 2 ^ 32)%N -> left <= n * hlen ->
    pbkdf2_loop fuel pw salt rounds left blkno key =
      Ok (key ++ firstn left (pbkdf2_Ts H B pw salt (Z.to_nat rounds) blkno n)).
  Proof.
    induction fuel as [|f IH]; intros pw salt rounds left blkno key n Hf Hb Hn; [lia|].
    destruct left as [|l'] eqn:El; [rewrite pbkdf2_loop_done, app_nil_r; reflexivity|].
    rewrite <- El in *. assert (Hl0 : 0 < left) by lia. clear El l'.
    destruct n as [|n']; [cbn in Hn; lia|].
    cbn [CryptoModel.pbkdf2_loop].
    destruct (left =? 0) eqn:E0; [apply Nat.eqb_eq in E0; lia|].
    rewrite prf_stream_eq. cbn [bind concat]. rewrite app_nil_r.
    rewrite pbkdf2_inner_eq. cbn [bind].
    replace (Z.to_nat (rounds - 1)) with (Z.to_nat rounds - 1) by lia.
    change (pbkdf2_U H B pw (mac pw (salt ++ be32 blkno)) (mac pw (salt ++ be32 blkno)) (Z.to_nat rounds - 1))
      with (pbkdf2_F H B pw salt (Z.to_nat rounds) blkno).
    set (F := pbkdf2_F H B pw salt (Z.to_nat rounds) blkno).
    assert (HF : length F = hlen) by apply pbkdf2_F_length.
    cbn [pbkdf2_Ts]. fold F.
    rewrite (firstn_app_len _ left F), HF.
    destruct (Nat.eq_dec (left - Nat.min hlen left) 0) as [Ez|Ez].
    - rewrite Ez, pbkdf2_loop_done.
      assert (left <= hlen) by lia.
      replace (left - hlen) with 0 by lia. replace (Nat.min hlen left) with left by lia.
      cbn [firstn]. rewrite app_nil_r. reflexivity.
    - assert (Hgt : hlen < left) by lia.
      replace (Nat.min hlen left) with hlen in * by lia.
      rewrite N.mod_small by lia.
      rewrite (IH pw salt rounds (left - hlen) (blkno + 1)%N (key ++ firstn hlen F) n'); [|lia|lia|lia].
      rewrite (firstn_all2 F) by lia. rewrite (firstn_all2 F) by lia. rewrite <- app_assoc. reflexivity.
  Qed.

  Theorem pbkdf2_eq : forall pw salt rounds kLen,
    (1 <= rounds)%Z -> (N.of_nat kLen < 2 ^ 32)%N ->
    pbkdf2 hctx hinit hupdate hfinal B hlen pw salt rounds kLen
      = Ok (pbkdf2_spec H B hlen pw salt (Z.to_nat rounds) kLen).
  Proof.
    intros pw salt rounds kLen Hr Hk. unfold pbkdf2, pbkdf2_spec.
    rewrite (pbkdf2_loop_ok (S kLen) pw salt rounds kLen 1%N [] ((kLen + hlen - 1) / hlen)); try lia.
    - reflexivity.
    - apply ceil_mul_ge. exact Hpos.
  Qed.
End HmacProofs.

(* ------------------------------------------------------------------ HMAC / HKDF / PBKDF2 instances *)
Theorem hmac_sha256_stream_eq : forall key chunks,
  exists c, hmac_sha256_init key = Ok c /\
            hmac_sha256_final (fold_left hmac_sha256_update chunks c) = hmac_sha256_spec key (concat chunks).
Proof. apply hmac_stream_eq with (hlen := 32); first [exact sha256_chunks|exact sha256_spec_len|lia]. Qed.

Theorem hmac_sha1_stream_eq : forall key chunks,
  exists c, hmac_sha1_init key = Ok c /\
            hmac_sha1_final (fold_left hmac_sha1_update chunks c) = hmac_sha1_spec key (concat chunks).
Proof. apply hmac_stream_eq with (hlen := 20); first [exact sha1_chunks|exact sha1_spec_len|lia]. Qed.

Theorem hmac_sha384_stream_eq : forall key chunks,
  exists c, hmac_sha384_init key = Ok c /\
            hmac_sha384_final (fold_left hmac_sha384_update chunks c) = hmac_sha384_spec key (concat chunks).
Proof. apply hmac_stream_eq with (hlen := 48); first [exact sha384_chunks|exact sha384_spec_len|lia]. Qed.

Theorem hmac_md5_stream_eq : forall key chunks,
  exists c, hmac_md5_init key = Ok c /\
            hmac_md5_final (fold_left hmac_md5_update chunks c) = hmac_md5_spec key (concat chunks).
Proof. apply hmac_stream_eq with (hlen := 16); first [exact md5_chunks|exact md5_spec_len|lia]. Qed.

Theorem ps_hmac_sha256_eq : forall key msg,
  ps_hmac_sha256 key msg = Ok (hmac_sha256_spec key msg, if 64 <? length key then 32 else length key).
Proof. apply ps_hmac_eq; first [exact sha256_chunks|exact sha256_spec_len|lia]. Qed.
Theorem ps_hmac_sha1_eq : forall key msg,
  ps_hmac_sha1 key msg = Ok (hmac_sha1_spec key msg, if 64 <? length key then 20 else length key).
Proof. apply ps_hmac_eq; first [exact sha1_chunks|exact sha1_spec_len|lia]. Qed.
Theorem ps_hmac_sha384_eq : forall key msg,
  ps_hmac_sha384 key msg = Ok (hmac_sha384_spec key msg, if 128 <? length key then 48 else length key).
Proof. apply ps_hmac_eq; first [exact sha384_chunks|exact sha384_spec_len|lia]. Qed.
Theorem ps_hmac_md5_eq : forall key msg,
  ps_hmac_md5 key msg = Ok (hmac_md5_spec key msg, if 64 <? length key then 16 else length key).
Proof. apply ps_hmac_eq; first [exact md5_chunks|exact md5_spec_len|lia]. Qed.

Theorem hkdf_sha256_eq : forall prk info L,
  length info <= 80 -> 32 <= length prk -> L <= 255 * 32 ->
  hkdf_expand_sha256 prk info L = Ok (hkdf_expand_sha256_spec prk info L).
Proof. apply hkdf_expand_eq; first [exact sha256_chunks|exact sha256_spec_len|lia]. Qed.
Theorem hkdf_sha384_eq : forall prk info L,
  length info <= 80 -> 48 <= length prk -> L <= 255 * 48 ->
  hkdf_expand_sha384 prk info L = Ok (hkdf_expand_sha384_spec prk info L).
Proof. apply hkdf_expand_eq; first [exact sha384_chunks|exact sha384_spec_len|lia]. Qed.
Theorem hkdf_sha1_eq : forall prk info L,
  length info <= 80 -> 20 <= length prk -> L <= 255 * 20 ->
  hkdf_expand_sha1 prk info L = Ok (hkdf_expand_sha1_spec prk info L).
Proof. apply hkdf_expand_eq; first [exact sha1_chunks|exact sha1_spec_len|lia]. Qed.
Theorem hkdf_extract_sha256_eq : forall salt ikm,
  hkdf_extract_sha256 salt ikm = Ok (hkdf_extract_sha256_spec salt ikm).
Proof. apply hkdf_extract_eq; first [exact sha256_chunks|exact sha256_spec_len|lia]. Qed.
Theorem hkdf_extract_sha384_eq : forall salt ikm,
  hkdf_extract_sha384 salt ikm = Ok (hkdf_extract_sha384_spec salt ikm).
Proof. apply hkdf_extract_eq; first [exact sha384_chunks|exact sha384_spec_len|lia]. Qed.

Theorem pbkdf2_sha1_eq : forall pw salt rounds kLen,
  (1 <= rounds)%Z -> (N.of_nat kLen < 2 ^ 32)%N ->
  pbkdf2_sha1 pw salt rounds kLen = Ok (pbkdf2_sha1_spec pw salt (Z.to_nat rounds) kLen).
Proof. apply pbkdf2_eq; first [exact sha1_chunks|exact sha1_spec_len|lia]. Qed.
