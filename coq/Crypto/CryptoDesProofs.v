(* C12 - proofs about the des3.c model (CryptoDesModel.v) against TDEA / CBC (CryptoDes.v). *)
From Coq Require Import List NArith ZArith Arith Bool Lia.
From MV Require Import Crypto.CryptoPrims Crypto.CryptoSpec Crypto.CryptoModel Crypto.CryptoProofs
                       Crypto.CryptoSym Crypto.CryptoSymProofs Crypto.CryptoDes Crypto.CryptoDesModel.
Import ListNotations.

(* ================================================================== CBC over blocks of bs bytes *)
Section CbcNProofs.
  Variable bs : nat.
  Variable E D : list N -> list N.
  Hypothesis bs_pos : 0 < bs.
  Hypothesis Elen : forall b, length (E b) = bs.
  Hypothesis Dlen : forall b, length (D b) = bs.

  Lemma divbs_exact : forall n, n mod bs = 0 -> n = bs * (n / bs).
  Proof. intros n H. pose proof (Nat.div_mod n bs ltac:(lia)). lia. Qed.

  Lemma cbcn_mem_read : forall inplace inp outs,
    skipn (length outs) (cbcn_mem inplace inp outs) = skipn (length outs) inp.
  Proof. intros [|] inp outs; unfold cbcn_mem; [apply skipn_len_app|reflexivity]. Qed.

  Theorem cbcn_enc_inplace_eq : forall n inp outs iv,
    cbcn_enc_blocks bs E n true inp outs iv = cbcn_enc_blocks bs E n false inp outs iv.
  Proof. induction n as [|n IH]; intros; cbn [cbcn_enc_blocks]; [reflexivity|]. rewrite !cbcn_mem_read. apply IH. Qed.
  Theorem cbcn_dec_inplace_eq : forall n inp outs iv,
    cbcn_dec_blocks bs D n true inp outs iv = cbcn_dec_blocks bs D n false inp outs iv.
  Proof. induction n as [|n IH]; intros; cbn [cbcn_dec_blocks]; [reflexivity|]. rewrite !cbcn_mem_read. apply IH. Qed.

  (* chaining value (ctx->IV) after n blocks *)
  Fixpoint cbcn_enc_iv (n : nat) (iv pt : list N) : list N :=
    match n with O => iv | S n' => cbcn_enc_iv n' (E (xor_lists (firstn bs pt) iv)) (skipn bs pt) end.
  Fixpoint cbcn_dec_iv (n : nat) (iv ct : list N) : list N :=
    match n with O => iv | S n' => cbcn_dec_iv n' (firstn bs ct) (skipn bs ct) end.

  Lemma cbcn_enc_blocks_spec : forall n ip inp outs iv,
    cbcn_enc_blocks bs E n ip inp outs iv =
      (outs ++ cbcn_encrypt_spec bs E n iv (skipn (length outs) inp), cbcn_enc_iv n iv (skipn (length outs) inp)).
  Proof.
    induction n as [|n IH]; intros; cbn [cbcn_enc_blocks cbcn_encrypt_spec cbcn_enc_iv]; [rewrite app_nil_r; reflexivity|].
    rewrite cbcn_mem_read. rewrite IH. rewrite app_length, Elen, <- skipn_add, <- app_assoc. reflexivity.
  Qed.

  Lemma cbcn_dec_blocks_spec : forall n ip inp outs iv,
    length iv = bs -> length outs + bs * n <= length inp ->
    cbcn_dec_blocks bs D n ip inp outs iv =
      (outs ++ cbcn_decrypt_spec bs D n iv (skipn (length outs) inp), cbcn_dec_iv n iv (skipn (length outs) inp)).
  Proof.
    induction n as [|n IH]; intros ip inp outs iv Hiv Hlen;
      cbn [cbcn_dec_blocks cbcn_decrypt_spec cbcn_dec_iv]; [rewrite app_nil_r; reflexivity|].
    rewrite cbcn_mem_read. rewrite Nat.mul_succ_r in Hlen.
    set (c := firstn bs (skipn (length outs) inp)).
    assert (Hc : length c = bs) by (unfold c; rewrite firstn_length, skipn_length; lia).
    assert (Hp : length (xor_lists (D c) iv) = bs) by (rewrite xor_lists_length, Dlen, Hiv; apply Nat.min_id).
    rewrite IH; [|exact Hc|rewrite app_length, Hp; lia].
    rewrite app_length, Hp, <- skipn_add, <- app_assoc. reflexivity.
  Qed.

  Lemma cbcn_encrypt_spec_len : forall n iv pt, length (cbcn_encrypt_spec bs E n iv pt) = bs * n.
  Proof. induction n; intros; cbn [cbcn_encrypt_spec]; [rewrite Nat.mul_0_r; reflexivity|]. rewrite app_length, Elen, IHn. lia. Qed.
  Lemma cbcn_enc_iv_len : forall n iv pt, length iv = bs -> length (cbcn_enc_iv n iv pt) = bs.
  Proof. induction n; intros; cbn [cbcn_enc_iv]; [assumption|]. apply IHn. apply Elen. Qed.
  Lemma cbcn_dec_iv_len : forall n iv ct, length iv = bs -> bs * n <= length ct -> length (cbcn_dec_iv n iv ct) = bs.
  Proof.
    induction n; intros iv ct Hiv Hl; cbn [cbcn_dec_iv]; [assumption|]. rewrite Nat.mul_succ_r in Hl.
    apply IHn; [rewrite firstn_length; lia|rewrite skipn_length; lia].
  Qed.

  Lemma firstn_skipn_app_ge : forall (a b : list N), bs <= length a ->
    firstn bs (a ++ b) = firstn bs a /\ skipn bs (a ++ b) = skipn bs a ++ b.
  Proof.
    intros a b H. rewrite firstn_app, skipn_app. replace (bs - length a) with 0 by lia.
    rewrite firstn_O, skipn_O, app_nil_r. split; reflexivity.
  Qed.

  Lemma cbcn_encrypt_spec_app : forall n1 n2 iv a b, length a = bs * n1 ->
    cbcn_encrypt_spec bs E (n1 + n2) iv (a ++ b) =
      cbcn_encrypt_spec bs E n1 iv a ++ cbcn_encrypt_spec bs E n2 (cbcn_enc_iv n1 iv a) b.
  Proof.
    induction n1 as [|n1 IH]; intros n2 iv a b Ha.
    - destruct a; [reflexivity|cbn in Ha; lia].
    - cbn [Nat.add cbcn_encrypt_spec cbcn_enc_iv].
      destruct (firstn_skipn_app_ge a b ltac:(lia)) as [F S']. rewrite F, S'.
      rewrite IH by (rewrite skipn_length; lia). rewrite <- app_assoc. reflexivity.
  Qed.
  Lemma cbcn_enc_iv_app : forall n1 n2 iv a b, length a = bs * n1 ->
    cbcn_enc_iv (n1 + n2) iv (a ++ b) = cbcn_enc_iv n2 (cbcn_enc_iv n1 iv a) b.
  Proof.
    induction n1 as [|n1 IH]; intros n2 iv a b Ha.
    - destruct a; [reflexivity|cbn in Ha; lia].
    - cbn [Nat.add cbcn_enc_iv].
      destruct (firstn_skipn_app_ge a b ltac:(lia)) as [F S']. rewrite F, S'.
      apply IH. rewrite skipn_length. lia.
  Qed.
  Lemma cbcn_decrypt_spec_app : forall n1 n2 iv a b, length a = bs * n1 ->
    cbcn_decrypt_spec bs D (n1 + n2) iv (a ++ b) =
      cbcn_decrypt_spec bs D n1 iv a ++ cbcn_decrypt_spec bs D n2 (cbcn_dec_iv n1 iv a) b.
  Proof.
    induction n1 as [|n1 IH]; intros n2 iv a b Ha.
    - destruct a; [reflexivity|cbn in Ha; lia].
    - cbn [Nat.add cbcn_decrypt_spec cbcn_dec_iv].
      destruct (firstn_skipn_app_ge a b ltac:(lia)) as [F S']. rewrite F, S'.
      rewrite IH by (rewrite skipn_length; lia). rewrite <- app_assoc. reflexivity.
  Qed.
  Lemma cbcn_dec_iv_app : forall n1 n2 iv a b, length a = bs * n1 ->
    cbcn_dec_iv (n1 + n2) iv (a ++ b) = cbcn_dec_iv n2 (cbcn_dec_iv n1 iv a) b.
  Proof.
    induction n1 as [|n1 IH]; intros n2 iv a b Ha.
    - destruct a; [reflexivity|cbn in Ha; lia].
    - cbn [Nat.add cbcn_dec_iv].
      destruct (firstn_skipn_app_ge a b ltac:(lia)) as [F S']. rewrite F, S'.
      apply IH. rewrite skipn_length. lia.
  Qed.

  Lemma div_app : forall (c r : list N), length c mod bs = 0 ->
    length (c ++ r) / bs = length c / bs + length r / bs.
  Proof.
    intros c r Hc. rewrite app_length. rewrite (divbs_exact _ Hc) at 1.
    rewrite (Nat.mul_comm bs), Nat.div_add_l by lia. reflexivity.
  Qed.

  (* any way of cutting whole blocks into successive Encrypt calls on one context, in place or not:
     SP 800-38A's ciphertext of the concatenation, and ctx->IV = its last block *)
  Theorem cbcn_encrypt_calls_spec : forall chunks ip iv,
    Forall (fun c => length c mod bs = 0) chunks ->
    cbcn_encrypt_calls bs E ip iv chunks =
      (cbcn_encrypt_spec bs E (length (concat chunks) / bs) iv (concat chunks),
       cbcn_enc_iv (length (concat chunks) / bs) iv (concat chunks)).
  Proof.
    induction chunks as [|c r IH]; intros ip iv Hall.
    - cbn. rewrite Nat.div_0_l by lia. reflexivity.
    - inversion Hall as [|? ? Hc Hr]; subst.
      cbn [cbcn_encrypt_calls concat]. unfold cbcn_encrypt_call.
      rewrite cbcn_enc_blocks_spec. cbn [length skipn app].
      rewrite (IH ip _ Hr). rewrite (div_app c (concat r) Hc).
      rewrite cbcn_encrypt_spec_app, cbcn_enc_iv_app by (apply divbs_exact; exact Hc). reflexivity.
  Qed.

  (* the same for Decrypt calls: the IV carried from call to call is the last ciphertext block *)
  Theorem cbcn_decrypt_calls_spec : forall chunks ip iv,
    length iv = bs -> Forall (fun c => length c mod bs = 0) chunks ->
    cbcn_decrypt_calls bs D ip iv chunks =
      (cbcn_decrypt_spec bs D (length (concat chunks) / bs) iv (concat chunks),
       cbcn_dec_iv (length (concat chunks) / bs) iv (concat chunks)).
  Proof.
    induction chunks as [|c r IH]; intros ip iv Hiv Hall.
    - cbn. rewrite Nat.div_0_l by lia. reflexivity.
    - inversion Hall as [|? ? Hc Hr]; subst.
      cbn [cbcn_decrypt_calls concat]. unfold cbcn_decrypt_call.
      pose proof (divbs_exact _ Hc) as Ec.
      rewrite cbcn_dec_blocks_spec by (cbn [length]; lia). cbn [length skipn app].
      rewrite (IH ip); [|apply cbcn_dec_iv_len; [exact Hiv|lia]|exact Hr].
      rewrite (div_app c (concat r) Hc).
      rewrite cbcn_decrypt_spec_app, cbcn_dec_iv_app by exact Ec. reflexivity.
  Qed.

  (* decryption undoes encryption when D inverts E on blocks *)
  Hypothesis DE : forall b, length b = bs -> D (E b) = b.

  Theorem cbcn_inverse : forall n iv pt, length iv = bs -> length pt = bs * n ->
    cbcn_decrypt_spec bs D n iv (cbcn_encrypt_spec bs E n iv pt) = pt.
  Proof.
    induction n as [|n IH]; intros iv pt Hiv Hpt.
    - destruct pt; [reflexivity|cbn in Hpt; lia].
    - cbn [cbcn_encrypt_spec cbcn_decrypt_spec].
      set (c := E (xor_lists (firstn bs pt) iv)).
      assert (Hc : length c = bs) by apply Elen.
      rewrite firstn_app, skipn_app. rewrite Hc, Nat.sub_diag, firstn_O, skipn_O.
      rewrite (firstn_all2 c) by lia. rewrite (skipn_all2 c) by lia. rewrite app_nil_r. cbn [app].
      assert (Hx : length (xor_lists (firstn bs pt) iv) = bs)
        by (rewrite xor_lists_length, firstn_length, Hiv; lia).
      unfold c at 1. rewrite DE by exact Hx.
      rewrite xor_lists_cancel by (rewrite firstn_length, Hiv; lia).
      rewrite IH; [apply firstn_skipn|exact Hc|rewrite skipn_length; lia].
  Qed.

  Lemma concat_mod : forall chunks, Forall (fun c : list N => length c mod bs = 0) chunks -> length (concat chunks) mod bs = 0.
  Proof.
    induction chunks as [|c r IH]; intro Hall; [cbn; apply Nat.mod_0_l; lia|].
    inversion Hall; subst. cbn [concat]. rewrite app_length.
    rewrite <- Nat.add_mod_idemp_l, H1 by lia. cbn [Nat.add]. apply IH. assumption.
  Qed.

  (* encrypt in any calls, then decrypt in any (other) calls, each in place or not: the plaintext *)
  Theorem cbcn_model_roundtrip : forall chunks chunks2 ip1 ip2 iv,
    length iv = bs -> Forall (fun c => length c mod bs = 0) chunks ->
    Forall (fun c => length c mod bs = 0) chunks2 ->
    concat chunks2 = fst (cbcn_encrypt_calls bs E ip1 iv chunks) ->
    fst (cbcn_decrypt_calls bs D ip2 iv chunks2) = concat chunks.
  Proof.
    intros chunks chunks2 ip1 ip2 iv Hiv Hall Hall2 Hcat.
    rewrite cbcn_decrypt_calls_spec by assumption. cbn [fst]. rewrite Hcat.
    rewrite cbcn_encrypt_calls_spec by assumption. cbn [fst].
    pose proof (divbs_exact _ (concat_mod chunks Hall)) as En. set (n := length (concat chunks) / bs) in *.
    rewrite cbcn_encrypt_spec_len. replace (bs * n / bs) with n by (rewrite Nat.mul_comm, Nat.div_mul; lia).
    apply cbcn_inverse; assumption.
  Qed.
End CbcNProofs.

(* ================================================================== three-key composition *)
Section Des3Proofs.
  Variable sched : Type.
  Variable blk : Type.
  Variable deskey : list N -> bool -> sched.
  Variable desfunc : sched -> blk -> blk.
  Variable load : list N -> blk.
  Variable store : blk -> list N.
  Variable sched0 : sched.

  Local Notation init := (des3_init_key sched deskey sched0).
  Local Notation encb := (des3_encrypt_block sched blk desfunc load store sched0).
  Local Notation decb := (des3_decrypt_block sched blk desfunc load store sched0).
  (* what one stage is, in terms of the code's own single-DES machinery *)
  Definition stage_enc (k : list N) (w : blk) : blk := desfunc (deskey k EN0) w.
  Definition stage_dec (k : list N) (w : blk) : blk := desfunc (deskey k DE1) w.

  (* KEY ORDER and DIRECTION: psDes3InitKey + psDes3EncryptBlock is E_K3(D_K2(E_K1(.))), and
     psDes3DecryptBlock is D_K1(E_K2(D_K3(.))), K1 || K2 || K3 = the 24 key bytes - for every key and block *)
  Theorem des3_block_key_order : forall key b,
    encb (init key) b = store (tdea_encrypt_spec stage_enc stage_dec
                                (firstn 8 key) (firstn 8 (skipn 8 key)) (firstn 8 (skipn 16 key)) (load b)) /\
    decb (init key) b = store (tdea_decrypt_spec stage_enc stage_dec
                                (firstn 8 key) (firstn 8 (skipn 8 key)) (firstn 8 (skipn 16 key)) (load b)).
  Proof. intros. split; reflexivity. Qed.

  (* byte level, GIVEN that one stage computes the DES of the standard ([des dec key block]) *)
  Variable des : bool -> list N -> list N -> list N.
  Hypothesis Hdes : forall k edf b, length b = 8 -> store (desfunc (deskey k edf) (load b)) = des edf k b.
  Hypothesis Hwf : forall s w, load (store (desfunc s w)) = desfunc s w.
  Hypothesis des_len : forall edf k b, length (des edf k b) = 8.

  Lemma stage_bytes : forall k edf b, length b = 8 -> desfunc (deskey k edf) (load b) = load (des edf k b).
  Proof. intros. rewrite <- Hdes by assumption. symmetry. apply Hwf. Qed.

  Theorem des3_block_eq_spec : forall key b, length b = 8 ->
    encb (init key) b = tdea_encrypt_spec (des false) (des true)
                          (firstn 8 key) (firstn 8 (skipn 8 key)) (firstn 8 (skipn 16 key)) b /\
    decb (init key) b = tdea_decrypt_spec (des false) (des true)
                          (firstn 8 key) (firstn 8 (skipn 8 key)) (firstn 8 (skipn 16 key)) b.
  Proof.
    intros key b Hb. destruct (des3_block_key_order key b) as [He Hd]. rewrite He, Hd.
    unfold tdea_encrypt_spec, tdea_decrypt_spec, stage_enc, stage_dec, EN0, DE1. split.
    - rewrite (stage_bytes _ false b Hb). rewrite (stage_bytes _ true _ (des_len _ _ _)).
      apply Hdes. apply des_len.
    - rewrite (stage_bytes _ true b Hb). rewrite (stage_bytes _ false _ (des_len _ _ _)).
      apply Hdes. apply des_len.
  Qed.
End Des3Proofs.

(* TDEA decryption inverts TDEA encryption when single-key decryption inverts single-key encryption *)
Theorem tdea_inverse : forall (Blk : Type) (Enc Dec : list N -> Blk -> Blk),
  (forall k b, Dec k (Enc k b) = b) -> (forall k b, Enc k (Dec k b) = b) ->
  forall k1 k2 k3 b, tdea_decrypt_spec Enc Dec k1 k2 k3 (tdea_encrypt_spec Enc Dec k1 k2 k3 b) = b.
Proof. intros Blk Enc Dec H1 H2 k1 k2 k3 b. unfold tdea_decrypt_spec, tdea_encrypt_spec. rewrite H1, H2, H1. reflexivity. Qed.

(* ================================================================== the concrete des3.c instance *)
Lemma testbit_255 : forall n, N.testbit 255 n = (n <? 8)%N.
Proof.
  intro n. change 255%N with (N.ones 8). destruct (n <? 8)%N eqn:E.
  - apply N.ones_spec_low. apply N.ltb_lt. exact E.
  - apply N.ones_spec_high. apply N.ltb_ge. exact E.
Qed.
Lemma testbit_ones32 : forall n, N.testbit 0xFFFFFFFF n = (n <? 32)%N.
Proof.
  intro n. change 0xFFFFFFFF%N with (N.ones 32). destruct (n <? 32)%N eqn:E.
  - apply N.ones_spec_low. apply N.ltb_lt. exact E.
  - apply N.ones_spec_high. apply N.ltb_ge. exact E.
Qed.

(* LOAD32H of STORE32H is the value reduced to 32 bits *)
Lemma ld32be_be32 : forall x,
  ld32be (byte_of (N.shiftr x 24)) (byte_of (N.shiftr x 16)) (byte_of (N.shiftr x 8)) (byte_of x) = w32 x.
Proof.
  intro x. apply N.bits_inj. intro n. unfold ld32be, byte_of, w32.
  rewrite !N.lor_spec.
  assert (B : forall a b : bool, a && true = a /\ a && false = false) by (intros [|] ?; split; reflexivity).
  destruct (N.lt_ge_cases n 8) as [H8|H8].
  - rewrite !N.shiftl_spec_low by lia. rewrite !N.land_spec, testbit_255, testbit_ones32.
    replace (n <? 8)%N with true by (symmetry; apply N.ltb_lt; lia).
    replace (n <? 32)%N with true by (symmetry; apply N.ltb_lt; lia). reflexivity.
  - destruct (N.lt_ge_cases n 16) as [H16|H16].
    + rewrite (N.shiftl_spec_low _ 24), (N.shiftl_spec_low _ 16) by lia.
      rewrite N.shiftl_spec_high' by lia. rewrite !N.land_spec, !testbit_255, testbit_ones32, N.shiftr_spec'.
      replace (n - 8 + 8)%N with n by lia.
      replace (n - 8 <? 8)%N with true by (symmetry; apply N.ltb_lt; lia).
      replace (n <? 8)%N with false by (symmetry; apply N.ltb_ge; lia).
      replace (n <? 32)%N with true by (symmetry; apply N.ltb_lt; lia).
      destruct (N.testbit x n); reflexivity.
    + destruct (N.lt_ge_cases n 24) as [H24|H24].
      * rewrite (N.shiftl_spec_low _ 24) by lia.
        rewrite (N.shiftl_spec_high' _ 16), (N.shiftl_spec_high' _ 8) by lia.
        rewrite !N.land_spec, !testbit_255, testbit_ones32, !N.shiftr_spec'.
        replace (n - 16 + 16)%N with n by lia. replace (n - 8 + 8)%N with n by lia.
        replace (n - 16 <? 8)%N with true by (symmetry; apply N.ltb_lt; lia).
        replace (n - 8 <? 8)%N with false by (symmetry; apply N.ltb_ge; lia).
        replace (n <? 8)%N with false by (symmetry; apply N.ltb_ge; lia).
        replace (n <? 32)%N with true by (symmetry; apply N.ltb_lt; lia).
        destruct (N.testbit x n); reflexivity.
      * rewrite (N.shiftl_spec_high' _ 24), (N.shiftl_spec_high' _ 16), (N.shiftl_spec_high' _ 8) by lia.
        rewrite !N.land_spec, !testbit_255, testbit_ones32, !N.shiftr_spec'.
        replace (n - 24 + 24)%N with n by lia. replace (n - 16 + 16)%N with n by lia. replace (n - 8 + 8)%N with n by lia.
        replace (n - 16 <? 8)%N with false by (symmetry; apply N.ltb_ge; lia).
        replace (n - 8 <? 8)%N with false by (symmetry; apply N.ltb_ge; lia).
        replace (n <? 8)%N with false by (symmetry; apply N.ltb_ge; lia).
        destruct (N.lt_ge_cases n 32) as [H32|H32].
        -- replace (n - 24 <? 8)%N with true by (symmetry; apply N.ltb_lt; lia).
           replace (n <? 32)%N with true by (symmetry; apply N.ltb_lt; lia). destruct (N.testbit x n); reflexivity.
        -- replace (n - 24 <? 8)%N with false by (symmetry; apply N.ltb_ge; lia).
           replace (n <? 32)%N with false by (symmetry; apply N.ltb_ge; lia). destruct (N.testbit x n); reflexivity.
Qed.

Lemma w32_idem : forall x, w32 (w32 x) = w32 x.
Proof. intro x. unfold w32. rewrite <- N.land_assoc, N.land_diag. reflexivity. Qed.

Lemma load_store_w32 : forall a b, load_block (store_block (w32 a, w32 b)) = (w32 a, w32 b).
Proof.
  intros a b. unfold store_block, be32. cbn [fst snd app load_block].
  rewrite !ld32be_be32, !w32_idem. reflexivity.
Qed.

(* the code's desfunc hands back two uint32: storing and reloading them changes nothing *)
Lemma c_desfunc_wf : forall ks w, load_block (store_block (c_desfunc ks w)) = c_desfunc ks w.
Proof.
  intros ks [l r]. unfold c_desfunc.
  repeat match goal with |- context [let '(_, _) := ?x in _] => destruct x end.
  apply load_store_w32.
Qed.

(* ================================================================== DES deciphering inverts enciphering *)
Lemma bperm_length : forall t x, length (bperm t x) = length t.
Proof. intros. unfold bperm. apply map_length. Qed.

Lemma xorb_lists_length : forall a b, length (xorb_lists a b) = Nat.min (length a) (length b).
Proof. induction a; destruct b; cbn; try reflexivity. rewrite IHa. reflexivity. Qed.
Lemma xorb_lists_cancel : forall a b, length a = length b -> xorb_lists (xorb_lists a b) b = a.
Proof.
  induction a as [|x a IH]; intros [|y b] H; cbn in *; try discriminate; [reflexivity|].
  rewrite IH by lia. f_equal. destruct x, y; reflexivity.
Qed.

Lemma des_f_length : forall r k, length (des_f r k) = 32.
Proof. intros. unfold des_f. rewrite bperm_length. reflexivity. Qed.

Lemma des_rounds_snoc : forall ks k l r,
  des_rounds (ks ++ [k]) l r = let '(l1, r1) := des_rounds ks l r in (r1, xorb_lists l1 (des_f r1 k)).
Proof. induction ks as [|k0 ks IH]; intros; cbn [app des_rounds]; [reflexivity|]. apply IH. Qed.

Lemma des_rounds_length : forall ks l r, length l = 32 -> length r = 32 ->
  length (fst (des_rounds ks l r)) = 32 /\ length (snd (des_rounds ks l r)) = 32.
Proof.
  induction ks as [|k ks IH]; intros l r Hl Hr; cbn [des_rounds]; [split; assumption|].
  apply IH; [exact Hr|]. rewrite xorb_lists_length, des_f_length, Hl. reflexivity.
Qed.

(* the Feistel ladder run with the sub-keys reversed, on the swapped halves, undoes itself *)
Lemma des_rounds_inverse : forall ks l r, length l = 32 -> length r = 32 ->
  des_rounds (rev ks) (snd (des_rounds ks l r)) (fst (des_rounds ks l r)) = (r, l).
Proof.
  induction ks as [|k ks IH]; intros l r Hl Hr; [reflexivity|].
  cbn [des_rounds rev]. rewrite des_rounds_snoc.
  rewrite IH; [|exact Hr|rewrite xorb_lists_length, des_f_length, Hl; reflexivity].
  rewrite xorb_lists_cancel by (rewrite des_f_length; exact Hl). reflexivity.
Qed.

Lemma list64 : forall (x : list bool), length x = 64 -> exists
  a0 a1 a2 a3 a4 a5 a6 a7 a8 a9 a10 a11 a12 a13 a14 a15 a16 a17 a18 a19 a20 a21 a22 a23 a24 a25 a26 a27 a28 a29 a30 a31
  a32 a33 a34 a35 a36 a37 a38 a39 a40 a41 a42 a43 a44 a45 a46 a47 a48 a49 a50 a51 a52 a53 a54 a55 a56 a57 a58 a59 a60 a61 a62 a63,
  x = [a0;a1;a2;a3;a4;a5;a6;a7;a8;a9;a10;a11;a12;a13;a14;a15;a16;a17;a18;a19;a20;a21;a22;a23;a24;a25;a26;a27;a28;a29;a30;a31;
       a32;a33;a34;a35;a36;a37;a38;a39;a40;a41;a42;a43;a44;a45;a46;a47;a48;a49;a50;a51;a52;a53;a54;a55;a56;a57;a58;a59;a60;a61;a62;a63].
Proof.
  intros x H.
  do 64 (destruct x as [|? x]; [discriminate H|]). destruct x; [|discriminate H].
  repeat eexists.
Qed.

Lemma des_FP_IP : forall x, length x = 64 -> bperm des_FP (bperm des_IP x) = x.
Proof.
  intros x H. destruct (list64 x H) as
   [a0 [a1 [a2 [a3 [a4 [a5 [a6 [a7 [a8 [a9 [a10 [a11 [a12 [a13 [a14 [a15 [a16 [a17 [a18 [a19 [a20 [a21 [a22 [a23 [a24 [a25 [a26 [a27 [a28 [a29 [a30 [a31
   [a32 [a33 [a34 [a35 [a36 [a37 [a38 [a39 [a40 [a41 [a42 [a43 [a44 [a45 [a46 [a47 [a48 [a49 [a50 [a51 [a52 [a53 [a54 [a55 [a56 [a57 [a58 [a59 [a60 [a61 [a62 [a63 E]]]]]]]]]]]]]]]]]]]]]]]]]]]]]]]]]]]]]]]]]]]]]]]]]]]]]]]]]]]]]]]].
  subst x. reflexivity.
Qed.
Lemma des_IP_FP : forall x, length x = 64 -> bperm des_IP (bperm des_FP x) = x.
Proof.
  intros x H. destruct (list64 x H) as
   [a0 [a1 [a2 [a3 [a4 [a5 [a6 [a7 [a8 [a9 [a10 [a11 [a12 [a13 [a14 [a15 [a16 [a17 [a18 [a19 [a20 [a21 [a22 [a23 [a24 [a25 [a26 [a27 [a28 [a29 [a30 [a31
   [a32 [a33 [a34 [a35 [a36 [a37 [a38 [a39 [a40 [a41 [a42 [a43 [a44 [a45 [a46 [a47 [a48 [a49 [a50 [a51 [a52 [a53 [a54 [a55 [a56 [a57 [a58 [a59 [a60 [a61 [a62 [a63 E]]]]]]]]]]]]]]]]]]]]]]]]]]]]]]]]]]]]]]]]]]]]]]]]]]]]]]]]]]]]]]]].
  subst x. reflexivity.
Qed.

(* bytes <-> bits *)
Lemma byte_bits_num : forall b7 b6 b5 b4 b3 b2 b1 b0,
  byte_bits (bits_num [b7; b6; b5; b4; b3; b2; b1; b0] 0) = [b7; b6; b5; b4; b3; b2; b1; b0].
Proof. intros. destruct b7, b6, b5, b4, b3, b2, b1, b0; reflexivity. Qed.

Lemma bits_of_bytes_of_bits : forall n bits, length bits = 8 * n -> bits_of_bytes (bytes_of_bits n bits) = bits.
Proof.
  induction n as [|n IH]; intros bits H.
  - destruct bits; [reflexivity|cbn in H; lia].
  - replace (8 * S n) with (8 + 8 * n) in H by lia.
    do 8 (destruct bits as [|? bits]; [cbn in H; lia|]).
    cbn [bytes_of_bits firstn skipn]. unfold bits_of_bytes. cbn [flat_map]. rewrite byte_bits_num.
    cbn [app]. do 8 f_equal. apply IH. cbn [length] in H. lia.
Qed.

Lemma bits_num_byte_bits_all : forallb (fun x => (bits_num (byte_bits x) 0 =? x)%N) (map N.of_nat (seq 0 256)) = true.
Proof. vm_compute. reflexivity. Qed.
Lemma bits_num_byte_bits : forall x, (x < 256)%N -> bits_num (byte_bits x) 0 = x.
Proof.
  intros x H. pose proof bits_num_byte_bits_all as A. rewrite forallb_forall in A.
  apply N.eqb_eq. apply A. apply in_map_iff. exists (N.to_nat x). split; [apply N2Nat.id|].
  apply in_seq. lia.
Qed.

Lemma bytes_of_bits_of_bytes : forall b, Forall (fun x => (x < 256)%N) b ->
  bytes_of_bits (length b) (bits_of_bytes b) = b.
Proof.
  induction b as [|x b IH]; intro H; [reflexivity|]. inversion H; subst.
  cbn [length bytes_of_bits]. unfold bits_of_bytes. cbn [flat_map].
  change (byte_bits x ++ flat_map byte_bits b) with ([N.testbit x 7; N.testbit x 6; N.testbit x 5; N.testbit x 4; N.testbit x 3; N.testbit x 2; N.testbit x 1; N.testbit x 0] ++ bits_of_bytes b).
  cbn [app firstn skipn]. f_equal; [apply (bits_num_byte_bits x); assumption|apply IH; assumption].
Qed.

Lemma bits_of_bytes_length : forall b, length (bits_of_bytes b) = 8 * length b.
Proof. induction b; [reflexivity|]. unfold bits_of_bytes in *. cbn [flat_map length app]. rewrite app_length, IHb. cbn. lia. Qed.

Lemma bytes_of_bits_length : forall n bits, length bits = 8 * n -> length (bytes_of_bits n bits) = n.
Proof.
  induction n as [|n IH]; intros bits H; [reflexivity|].
  destruct bits as [|x bits]; [cbn in H; lia|]. cbn [bytes_of_bits length]. f_equal.
  apply IH. rewrite skipn_length. lia.
Qed.

Theorem des_block_length : forall edf k b, length (des_block edf k b) = 8.
Proof.
  intros. unfold des_block. destruct (des_rounds _ _ _) as [l r].
  apply bytes_of_bits_length. rewrite bperm_length. reflexivity.
Qed.

(* the 16 rounds on the permuted input block, pre-output = R16 L16 *)
Definition des_core (ks : list (list bool)) (x : list bool) : list bool :=
  let '(l, r) := des_rounds ks (firstn 32 x) (skipn 32 x) in r ++ l.

Lemma des_block_core : forall e key b,
  des_block e key b =
    bytes_of_bits 8 (bperm des_FP (des_core (if e then rev (des_subkeys key) else des_subkeys key) (bperm des_IP (bits_of_bytes b)))).
Proof. intros. unfold des_block, des_core. destruct (des_rounds _ _ _). reflexivity. Qed.

Lemma des_core_length : forall ks x, length x = 64 -> length (des_core ks x) = 64.
Proof.
  intros ks x Hx. unfold des_core.
  assert (Hl : length (firstn 32 x) = 32) by (rewrite firstn_length; lia).
  assert (Hr : length (skipn 32 x) = 32) by (rewrite skipn_length; lia).
  destruct (des_rounds_length ks _ _ Hl Hr) as [L1 L2].
  destruct (des_rounds ks (firstn 32 x) (skipn 32 x)) as [l r]. cbn [fst snd] in L1, L2.
  rewrite app_length. lia.
Qed.

Lemma des_core_inverse : forall ks x, length x = 64 -> des_core (rev ks) (des_core ks x) = x.
Proof.
  intros ks x Hx. unfold des_core at 2.
  assert (Hl : length (firstn 32 x) = 32) by (rewrite firstn_length; lia).
  assert (Hr : length (skipn 32 x) = 32) by (rewrite skipn_length; lia).
  pose proof (des_rounds_inverse ks _ _ Hl Hr) as Inv.
  destruct (des_rounds_length ks _ _ Hl Hr) as [L1 L2].
  destruct (des_rounds ks (firstn 32 x) (skipn 32 x)) as [l r]. cbn [fst snd] in Inv, L1, L2.
  unfold des_core.
  rewrite firstn_app, skipn_app, L2, Nat.sub_diag, firstn_O, skipn_O.
  rewrite (firstn_all2 r) by lia. rewrite (skipn_all2 r) by lia. rewrite app_nil_r. cbn [app].
  rewrite Inv. apply firstn_skipn.
Qed.

(* FIPS 46-3: deciphering with K16..K1 recovers the block, and the other way round - for every key *)
Lemma des_block_inv_gen : forall e key b, length b = 8 -> Forall (fun x => (x < 256)%N) b ->
  des_block (negb e) key (des_block e key b) = b.
Proof.
  intros e key b Hb Hr. rewrite (des_block_core (negb e)). rewrite (des_block_core e).
  set (ks := des_subkeys key).
  set (ks1 := if e then rev ks else ks).
  assert (Eks : (if negb e then rev ks else ks) = rev ks1) by (unfold ks1; destruct e; cbn [negb]; [rewrite rev_involutive|]; reflexivity).
  rewrite Eks. clear Eks.
  set (x := bperm des_IP (bits_of_bytes b)).
  assert (Hx : length x = 64) by (unfold x; rewrite bperm_length; reflexivity).
  pose proof (des_core_length ks1 x Hx) as Hc.
  rewrite bits_of_bytes_of_bits by (rewrite bperm_length; reflexivity).
  rewrite des_IP_FP by exact Hc.
  rewrite des_core_inverse by exact Hx.
  unfold x. rewrite des_FP_IP by (rewrite bits_of_bytes_length, Hb; reflexivity).
  rewrite <- Hb at 1. apply bytes_of_bits_of_bytes. exact Hr.
Qed.

Theorem des_block_inverse : forall key b, length b = 8 -> Forall (fun x => (x < 256)%N) b ->
  des_block true key (des_block false key b) = b /\ des_block false key (des_block true key b) = b.
Proof. intros key b Hb Hr. split; [exact (des_block_inv_gen false key b Hb Hr)|exact (des_block_inv_gen true key b Hb Hr)]. Qed.

(* ------------------------------------------------------------------ byte range bookkeeping *)
Definition good (b : list N) : Prop := Forall (fun x => (x < 256)%N) b.

Lemma bits_num_bound : forall l acc, (bits_num l acc < (acc + 1) * 2 ^ N.of_nat (length l))%N.
Proof.
  induction l as [|b l IH]; intro acc; cbn [bits_num length].
  - cbn. lia.
  - specialize (IH (2 * acc + b2n b)%N).
    rewrite Nat2N.inj_succ, N.pow_succ_r'.
    assert (b2n b <= 1)%N by (destruct b; cbn; lia).
    set (p := (2 ^ N.of_nat (length l))%N) in *.
    assert ((2 * acc + b2n b + 1) * p <= (acc + 1) * (2 * p))%N by nia. lia.
Qed.

Lemma bytes_of_bits_good : forall n bits, good (bytes_of_bits n bits).
Proof.
  induction n as [|n IH]; intro bits; cbn [bytes_of_bits]; [constructor|].
  destruct bits as [|x bits]; [constructor|]. constructor; [|apply IH].
  pose proof (bits_num_bound (firstn 8 (x :: bits)) 0) as B.
  assert (L : length (firstn 8 (x :: bits)) <= 8) by (rewrite firstn_length; lia).
  assert ((2 ^ N.of_nat (length (firstn 8 (x :: bits))) <= 2 ^ 8)%N) by (apply N.pow_le_mono_r; lia).
  change (2 ^ 8)%N with 256%N in *. lia.
Qed.

Lemma des_block_good : forall e k b, good (des_block e k b).
Proof. intros. rewrite des_block_core. apply bytes_of_bits_good. Qed.

Lemma lxor_lt_256 : forall a b, (a < 256)%N -> (b < 256)%N -> (N.lxor a b < 256)%N.
Proof.
  intros a b Ha Hb. destruct (N.eq_dec (N.lxor a b) 0) as [E|E]; [rewrite E; lia|].
  change 256%N with (2 ^ 8)%N. apply N.log2_lt_pow2; [lia|].
  pose proof (N.log2_lxor a b) as L.
  assert (La : (a = 0 \/ N.log2 a < 8)%N) by (destruct (N.eq_dec a 0); [left; assumption|right; apply N.log2_lt_pow2; [lia|exact Ha]]).
  assert (Lb : (b = 0 \/ N.log2 b < 8)%N) by (destruct (N.eq_dec b 0); [left; assumption|right; apply N.log2_lt_pow2; [lia|exact Hb]]).
  destruct La as [La|La], Lb as [Lb|Lb]; subst; cbn [N.log2] in *; lia.
Qed.

Lemma xor_lists_good : forall a b, good a -> good b -> good (xor_lists a b).
Proof.
  induction a as [|x a IH]; intros [|y b] Ha Hb; cbn [xor_lists]; try constructor.
  - inversion Ha; inversion Hb; subst. apply lxor_lt_256; assumption.
  - inversion Ha; inversion Hb; subst. apply IH; assumption.
Qed.
Lemma firstn_good : forall n b, good b -> good (firstn n b).
Proof. induction n; intros b H; [constructor|]. destruct b; [constructor|]. inversion H; subst. cbn [firstn]. constructor; [assumption|apply IHn; assumption]. Qed.
Lemma skipn_good : forall n b, good b -> good (skipn n b).
Proof. induction n; intros b H; [exact H|]. destruct b; [constructor|]. inversion H; subst. cbn [skipn]. apply IHn; assumption. Qed.

(* TDEA: deciphering recovers the block, for every key bundle *)
Theorem des3_block_spec_inverse : forall key b, length b = 8 -> good b ->
  des3_decrypt_block_spec key (des3_encrypt_block_spec key b) = b.
Proof.
  intros key b Hb Hg. unfold des3_decrypt_block_spec, des3_encrypt_block_spec, tdea_decrypt_spec, tdea_encrypt_spec.
  destruct (des_block_inverse (firstn 8 (skipn 16 key)) (des_block true (firstn 8 (skipn 8 key)) (des_block false (firstn 8 key) b))
              (des_block_length _ _ _) (des_block_good _ _ _)) as [I3 _]. rewrite I3.
  destruct (des_block_inverse (firstn 8 (skipn 8 key)) (des_block false (firstn 8 key) b)
              (des_block_length _ _ _) (des_block_good _ _ _)) as [_ I2]. rewrite I2.
  destruct (des_block_inverse (firstn 8 key) b Hb Hg) as [I1 _]. exact I1.
Qed.

(* CBC inverse when D inverts E on well-formed byte blocks *)
Section CbcNGood.
  Variable bs : nat.
  Variable E D : list N -> list N.
  Hypothesis Elen : forall b, length (E b) = bs.
  Hypothesis Egood : forall b, good (E b).
  Hypothesis DEg : forall b, length b = bs -> good b -> D (E b) = b.

  Theorem cbcn_inverse_good : forall n iv pt, length iv = bs -> length pt = bs * n -> good iv -> good pt ->
    cbcn_decrypt_spec bs D n iv (cbcn_encrypt_spec bs E n iv pt) = pt.
  Proof.
    induction n as [|n IH]; intros iv pt Hiv Hpt Giv Gpt.
    - destruct pt; [reflexivity|cbn in Hpt; lia].
    - rewrite Nat.mul_succ_r in Hpt. cbn [cbcn_encrypt_spec cbcn_decrypt_spec].
      set (c := E (xor_lists (firstn bs pt) iv)).
      assert (Hc : length c = bs) by apply Elen.
      rewrite firstn_app, skipn_app. rewrite Hc, Nat.sub_diag, firstn_O, skipn_O.
      rewrite (firstn_all2 c) by lia. rewrite (skipn_all2 c) by lia. rewrite app_nil_r. cbn [app].
      assert (Hx : length (xor_lists (firstn bs pt) iv) = bs)
        by (rewrite xor_lists_length, firstn_length, Hiv; lia).
      unfold c at 1. rewrite DEg; [|exact Hx|apply xor_lists_good; [apply firstn_good; exact Gpt|exact Giv]].
      rewrite xor_lists_cancel by (rewrite firstn_length, Hiv; lia).
      rewrite IH; [apply firstn_skipn|exact Hc|rewrite skipn_length; lia|apply Egood|apply skipn_good; exact Gpt].
  Qed.
End CbcNGood.

(* ------------------------------------------------------------------ CBC depends on E / D only through whole blocks *)
Lemma cbcn_encrypt_spec_ext : forall bs E1 E2, (forall b, length b = bs -> E1 b = E2 b) -> (forall b, length (E2 b) = bs) ->
  forall n iv pt, length iv = bs -> length pt = bs * n ->
  cbcn_encrypt_spec bs E1 n iv pt = cbcn_encrypt_spec bs E2 n iv pt.
Proof.
  intros bs E1 E2 HE Hl. induction n as [|n IH]; intros iv pt Hiv Hpt; [reflexivity|].
  rewrite Nat.mul_succ_r in Hpt. cbn [cbcn_encrypt_spec].
  assert (Hx : length (xor_lists (firstn bs pt) iv) = bs) by (rewrite xor_lists_length, firstn_length, Hiv; lia).
  rewrite (HE _ Hx). f_equal. apply IH; [apply Hl|rewrite skipn_length; lia].
Qed.
Lemma cbcn_decrypt_spec_ext : forall bs D1 D2, (forall b, length b = bs -> D1 b = D2 b) ->
  forall n iv ct, length ct = bs * n ->
  cbcn_decrypt_spec bs D1 n iv ct = cbcn_decrypt_spec bs D2 n iv ct.
Proof.
  intros bs D1 D2 HD. induction n as [|n IH]; intros iv ct Hct; [reflexivity|].
  rewrite Nat.mul_succ_r in Hct. cbn [cbcn_decrypt_spec].
  rewrite (HD (firstn bs ct)) by (rewrite firstn_length; lia). f_equal.
  apply IH. rewrite skipn_length. lia.
Qed.

(* ------------------------------------------------------------------ the concrete des3.c instance *)
(* the one statement about des3.c that is NOT proved: deskey + cookey + desfunc (SP-box network, bit-trick
   IP/FP) compute FIPS 46-3 DES.  It is checked by the NBS known answers (CryptoKAT.v) on the concrete
   functions and by the differential run; everything else below is proved from it. *)
Definition single_des_is_fips46 : Prop :=
  forall k edf b, length b = 8 -> store_block (c_desfunc (c_deskey k edf) (load_block b)) = des_block edf k b.

Theorem ps_des3_block_key_order : forall key b,
  ps_des3_encrypt_block (ps_des3_init_key key) b =
    store_block (tdea_encrypt_spec (stage_enc (list N) (N * N) c_deskey c_desfunc) (stage_dec (list N) (N * N) c_deskey c_desfunc)
                   (firstn 8 key) (firstn 8 (skipn 8 key)) (firstn 8 (skipn 16 key)) (load_block b)) /\
  ps_des3_decrypt_block (ps_des3_init_key key) b =
    store_block (tdea_decrypt_spec (stage_enc (list N) (N * N) c_deskey c_desfunc) (stage_dec (list N) (N * N) c_deskey c_desfunc)
                   (firstn 8 key) (firstn 8 (skipn 8 key)) (firstn 8 (skipn 16 key)) (load_block b)).
Proof. intros. apply des3_block_key_order. Qed.

Theorem ps_des3_block_eq_spec : single_des_is_fips46 -> forall key b, length b = 8 ->
  ps_des3_encrypt_block (ps_des3_init_key key) b = des3_encrypt_block_spec key b /\
  ps_des3_decrypt_block (ps_des3_init_key key) b = des3_decrypt_block_spec key b.
Proof.
  intros H key b Hb.
  exact (des3_block_eq_spec (list N) (N * N) c_deskey c_desfunc load_block store_block [] des_block H c_desfunc_wf des_block_length key b Hb).
Qed.

Lemma ps_des3_block_len : forall k b, length (ps_des3_encrypt_block k b) = 8 /\ length (ps_des3_decrypt_block k b) = 8.
Proof. intros. split; reflexivity. Qed.
Lemma des3_block_spec_len : forall key b, length (des3_encrypt_block_spec key b) = 8 /\ length (des3_decrypt_block_spec key b) = 8.
Proof. intros. split; apply des_block_length. Qed.

Lemma forall_mod8_len : forall chunks : list (list N), Forall (fun c => length c mod 8 = 0) chunks ->
  length (concat chunks) = 8 * (length (concat chunks) / 8).
Proof. intros chunks H. apply (divbs_exact 8); [lia|]. apply concat_mod; [lia|exact H]. Qed.

(* psDes3Init; psDes3Encrypt* (any cut into calls, in place or not) = TDEA-CBC of SP 800-67 / SP 800-38A *)
Theorem ps_des3_encrypt_eq_spec : single_des_is_fips46 -> forall key ip iv chunks,
  length iv = 8 -> Forall (fun c => length c mod 8 = 0) chunks ->
  fst (ps_des3_encrypt_calls key ip iv chunks) = des3_cbc_encrypt_spec key iv (concat chunks).
Proof.
  intros H key ip iv chunks Hiv Hall. unfold ps_des3_encrypt_calls, des3_cbc_encrypt_spec.
  rewrite (firstn_all2 iv) by lia.
  rewrite (cbcn_encrypt_calls_spec 8 _ ltac:(lia) (fun b => proj1 (ps_des3_block_len _ b))) by exact Hall. cbn [fst].
  apply cbcn_encrypt_spec_ext; [|intro b; apply (proj1 (des3_block_spec_len key b))|exact Hiv|apply forall_mod8_len; exact Hall].
  intros b Hb. apply (proj1 (ps_des3_block_eq_spec H key b Hb)).
Qed.

Theorem ps_des3_decrypt_eq_spec : single_des_is_fips46 -> forall key ip iv chunks,
  length iv = 8 -> Forall (fun c => length c mod 8 = 0) chunks ->
  fst (ps_des3_decrypt_calls key ip iv chunks) = des3_cbc_decrypt_spec key iv (concat chunks).
Proof.
  intros H key ip iv chunks Hiv Hall. unfold ps_des3_decrypt_calls, des3_cbc_decrypt_spec.
  rewrite (firstn_all2 iv) by lia.
  rewrite (cbcn_decrypt_calls_spec 8 _ ltac:(lia) (fun b => proj2 (ps_des3_block_len _ b))) by assumption. cbn [fst].
  apply cbcn_decrypt_spec_ext; [|apply forall_mod8_len; exact Hall].
  intros b Hb. apply (proj2 (ps_des3_block_eq_spec H key b Hb)).
Qed.

(* SP 800-67 + SP 800-38A: TDEA-CBC deciphering recovers the plaintext - every key bundle, IV, whole blocks *)
Theorem des3_cbc_spec_inverse : forall key iv pt, length iv = 8 -> length pt mod 8 = 0 -> good iv -> good pt ->
  des3_cbc_decrypt_spec key iv (des3_cbc_encrypt_spec key iv pt) = pt.
Proof.
  intros key iv pt Hiv Hpt Giv Gpt. unfold des3_cbc_decrypt_spec, des3_cbc_encrypt_spec.
  pose proof (divbs_exact 8 ltac:(lia) _ Hpt) as En. set (n := length pt / 8) in *.
  rewrite (cbcn_encrypt_spec_len 8 _ ltac:(lia) (fun b => proj1 (des3_block_spec_len key b))).
  replace (8 * n / 8) with n by (rewrite Nat.mul_comm, Nat.div_mul; lia).
  apply (cbcn_inverse_good 8 _ _ (fun b => proj1 (des3_block_spec_len key b))); try assumption.
  - intro b. apply des_block_good.
  - intros b Hb Hg. apply des3_block_spec_inverse; assumption.
Qed.

(* the model: psDes3Decrypt (any calls) of psDes3Encrypt (any calls) returns the plaintext *)
Theorem ps_des3_roundtrip : single_des_is_fips46 -> forall key ip1 ip2 iv chunks chunks2,
  length iv = 8 -> good iv -> good (concat chunks) ->
  Forall (fun c => length c mod 8 = 0) chunks -> Forall (fun c => length c mod 8 = 0) chunks2 ->
  concat chunks2 = fst (ps_des3_encrypt_calls key ip1 iv chunks) ->
  fst (ps_des3_decrypt_calls key ip2 iv chunks2) = concat chunks.
Proof.
  intros H key ip1 ip2 iv chunks chunks2 Hiv Giv Gpt Hall Hall2 Hcat.
  rewrite (ps_des3_decrypt_eq_spec H) by assumption. rewrite Hcat.
  rewrite (ps_des3_encrypt_eq_spec H) by assumption.
  apply des3_cbc_spec_inverse; try assumption. apply concat_mod; [lia|exact Hall].
Qed.

(* no hypothesis: however whole blocks are cut into psDes3Encrypt / psDes3Decrypt calls, in place or not, the
   output is CBC (SP 800-38A) of the concatenation over the model's own block functions, the IV being carried
   from call to call *)
Theorem ps_des3_calls : forall key ip iv chunks,
  8 <= length iv -> Forall (fun c => length c mod 8 = 0) chunks ->
  fst (ps_des3_encrypt_calls key ip iv chunks) =
    cbcn_encrypt_spec 8 (ps_des3_encrypt_block (ps_des3_init_key key)) (length (concat chunks) / 8) (firstn 8 iv) (concat chunks) /\
  fst (ps_des3_decrypt_calls key ip iv chunks) =
    cbcn_decrypt_spec 8 (ps_des3_decrypt_block (ps_des3_init_key key)) (length (concat chunks) / 8) (firstn 8 iv) (concat chunks).
Proof.
  intros key ip iv chunks Hiv Hall. unfold ps_des3_encrypt_calls, ps_des3_decrypt_calls. split.
  - rewrite (cbcn_encrypt_calls_spec 8 _ ltac:(lia) (fun b => proj1 (ps_des3_block_len _ b))) by exact Hall. reflexivity.
  - rewrite (cbcn_decrypt_calls_spec 8 _ ltac:(lia) (fun b => proj2 (ps_des3_block_len _ b))); [reflexivity| |exact Hall].
    rewrite firstn_length. lia.
Qed.
