(* C12 - proofs about the des3.c model (CryptoDesModel.v) against TDEA / CBC (CryptoDes.v). *)
From Coq Require Import List NArith ZArith Arith Bool Lia.
From MV Require Import Crypto.CryptoPrims Crypto.CryptoSpec Crypto.CryptoModel Crypto.CryptoProofs
                       Crypto.CryptoSym Crypto.CryptoSymProofs Crypto.CryptoDes Crypto.CryptoDesModel.
Import ListNotations.

(* ================================================================== CBC over blocks of bs bytes *)
Section CbcNProofs.
  Variable bs : nat.
  Variable E D : list N -> list N.
  Hypothesis bs_pos : 0 < bs.
  Hypothesis Elen : forall b, length (E b) = bs.
  Hypothesis Dlen : forall b, length (D b) = bs.

  Lemma divbs_exact : forall n, n mod bs = 0 -> n = bs * (n / bs).
  Proof. intros n H. pose proof (Nat.div_mod n bs ltac:(lia)). lia. Qed.

  Lemma cbcn_mem_read : forall inplace inp outs,
    skipn (length outs) (cbcn_mem inplace inp outs) = skipn (length outs) inp.
  Proof. intros [|] inp outs; unfold cbcn_mem; [apply skipn_len_app|reflexivity]. Qed.

  Theorem cbcn_enc_inplace_eq : forall n inp outs iv,
    cbcn_enc_blocks bs E n true inp outs iv = cbcn_enc_blocks bs E n false inp outs iv.
  Proof. induction n as [|n IH]; intros; cbn [cbcn_enc_blocks]; [reflexivity|]. rewrite !cbcn_mem_read. apply IH. Qed.
  Theorem cbcn_dec_inplace_eq : forall n inp outs iv,
    cbcn_dec_blocks bs D n true inp outs iv = cbcn_dec_blocks bs D n false inp outs iv.
  Proof. induction n as [|n IH]; intros; cbn [cbcn_dec_blocks]; [reflexivity|]. rewrite !cbcn_mem_read. apply IH. Qed.

  (* chaining value (ctx->IV) after n blocks *)
  Fixpoint cbcn_enc_iv (n : nat) (iv pt : list N) : list N :=
    match n with O => iv | S n' => cbcn_enc_iv n' (E (xor_lists (firstn bs pt) iv)) (skipn bs pt) end.
  Fixpoint cbcn_dec_iv (n : nat) (iv ct : list N) : list N :=
    match n with O => iv | S n' => cbcn_dec_iv n' (firstn bs ct) (skipn bs ct) end.

  Lemma cbcn_enc_blocks_spec : forall n ip inp outs iv,
    cbcn_enc_blocks bs E n ip inp outs iv =
      (outs ++ cbcn_encrypt_spec bs E n iv (skipn (length outs) inp), cbcn_enc_iv n iv (skipn (length outs) inp)).
  Proof.
    induction n as [|n IH]; intros; cbn [cbcn_enc_blocks cbcn_encrypt_spec cbcn_enc_iv]; [rewrite app_nil_r; reflexivity|].
    rewrite cbcn_mem_read. rewrite IH. rewrite app_length, Elen, <- skipn_add, <- app_assoc. reflexivity.
  Qed.

  Lemma cbcn_dec_blocks_spec : forall n ip inp outs iv,
    length iv = bs -> length outs + bs * n <= length inp ->
    cbcn_dec_blocks bs D n ip inp outs iv =
      (outs ++ cbcn_decrypt_spec bs D n iv (skipn (length outs) inp), cbcn_dec_iv n iv (skipn (length outs) inp)).
  Proof.
    induction n as [|n IH]; intros ip inp outs iv Hiv Hlen;
      cbn [cbcn_dec_blocks cbcn_decrypt_spec cbcn_dec_iv]; [rewrite app_nil_r; reflexivity|].
    rewrite cbcn_mem_read. rewrite Nat.mul_succ_r in Hlen.
    set (c := firstn bs (skipn (length outs) inp)).
    assert (Hc : length c = bs) by (unfold c; rewrite firstn_length, skipn_length; lia).
    assert (Hp : length (xor_lists (D c) iv) = bs) by (rewrite xor_lists_length, Dlen, Hiv; apply Nat.min_id).
    rewrite IH; [|exact Hc|rewrite app_length, Hp; lia].
    rewrite app_length, Hp, <- skipn_add, <- app_assoc. reflexivity.
  Qed.

  Lemma cbcn_encrypt_spec_len : forall n iv pt, length (cbcn_encrypt_spec bs E n iv pt) = bs * n.
  Proof. induction n; intros; cbn [cbcn_encrypt_spec]; [rewrite Nat.mul_0_r; reflexivity|]. rewrite app_length, Elen, IHn. lia. Qed.
  Lemma cbcn_enc_iv_len : forall n iv pt, length iv = bs -> length (cbcn_enc_iv n iv pt) = bs.
  Proof. induction n; intros; cbn [cbcn_enc_iv]; [assumption|]. apply IHn. apply Elen. Qed.
  Lemma cbcn_dec_iv_len : forall n iv ct, length iv = bs -> bs * n <= length ct -> length (cbcn_dec_iv n iv ct) = bs.
  Proof.
    induction n; intros iv ct Hiv Hl; cbn [cbcn_dec_iv]; [assumption|]. rewrite Nat.mul_succ_r in Hl.
    apply IHn; [rewrite firstn_length; lia|rewrite skipn_length; lia].
  Qed.

  Lemma firstn_skipn_app_ge : forall (a b : list N), bs <= length a ->
    firstn bs (a ++ b) = firstn bs a /\ skipn bs (a ++ b) = skipn bs a ++ b.
  Proof.
    intros a b H. rewrite firstn_app, skipn_app. replace (bs - length a) with 0 by lia.
    rewrite firstn_O, skipn_O, app_nil_r. split; reflexivity.
  Qed.

  Lemma cbcn_encrypt_spec_app : forall n1 n2 iv a b, length a = bs * n1 ->
    cbcn_encrypt_spec bs E (n1 + n2) iv (a ++ b) =
      cbcn_encrypt_spec bs E n1 iv a ++ cbcn_encrypt_spec bs E n2 (cbcn_enc_iv n1 iv a) b.
  Proof.
    induction n1 as [|n1 IH]; intros n2 iv a b Ha.
    - destruct a; [reflexivity|cbn in Ha; lia].
    - cbn [Nat.add cbcn_encrypt_spec cbcn_enc_iv].
      destruct (firstn_skipn_app_ge a b ltac:(lia)) as [F S']. rewrite F, S'.
      rewrite IH by (rewrite skipn_length; lia). rewrite <- app_assoc. reflexivity.
  Qed.
  Lemma cbcn_enc_iv_app : forall n1 n2 iv a b, length a = bs * n1 ->
    cbcn_enc_iv (n1 + n2) iv (a ++ b) = cbcn_enc_iv n2 (cbcn_enc_iv n1 iv a) b.
  Proof.
    induction n1 as [|n1 IH]; intros n2 iv a b Ha.
    - destruct a; [reflexivity|cbn in Ha; lia].
    - cbn [Nat.add cbcn_enc_iv].
      destruct (firstn_skipn_app_ge a b ltac:(lia)) as [F S']. rewrite F, S'.
      apply IH. rewrite skipn_length. lia.
  Qed.
  Lemma cbcn_decrypt_spec_app : forall n1 n2 iv a b, length a = bs * n1 ->
    cbcn_decrypt_spec bs D (n1 + n2) iv (a ++ b) =
      cbcn_decrypt_spec bs D n1 iv a ++ cbcn_decrypt_spec bs D n2 (cbcn_dec_iv n1 iv a) b.
  Proof.
    induction n1 as [|n1 IH]; intros n2 iv a b Ha.
    - destruct a; [reflexivity|cbn in Ha; lia].
    - cbn [Nat.add cbcn_decrypt_spec cbcn_dec_iv].
      destruct (firstn_skipn_app_ge a b ltac:(lia)) as [F S']. rewrite F, S'.
      rewrite IH by (rewrite skipn_length; lia). rewrite <- app_assoc. reflexivity.
  Qed.
  Lemma cbcn_dec_iv_app : forall n1 n2 iv a b, length a = bs * n1 ->
    cbcn_dec_iv (n1 + n2) iv (a ++ b) = cbcn_dec_iv n2 (cbcn_dec_iv n1 iv a) b.
  Proof.
    induction n1 as [|n1 IH]; intros n2 iv a b Ha.
    - destruct a; [reflexivity|cbn in Ha; lia].
    - cbn [Nat.add cbcn_dec_iv].
      destruct (firstn_skipn_app_ge a b ltac:(lia)) as [F S']. rewrite F, S'.
      apply IH. rewrite skipn_length. lia.
  Qed.

  Lemma div_app : forall (c r : list N), length c mod bs = 0 ->
    length (c ++ r) / bs = length c / bs + length r / bs.
  Proof.
    intros c r Hc. rewrite app_length. rewrite (divbs_exact _ Hc) at 1.
    rewrite (Nat.mul_comm bs), Nat.div_add_l by lia. reflexivity.
  Qed.

  (* any way of cutting whole blocks into successive Encrypt calls on one context, in place or not:
     SP 800-38A's ciphertext of the concatenation, and ctx->IV = its last block *)
  Theorem cbcn_encrypt_calls_spec : forall chunks ip iv,
    Forall (fun c => length c mod bs = 0) chunks ->
    cbcn_encrypt_calls bs E ip iv chunks =
      (cbcn_encrypt_spec bs E (length (concat chunks) / bs) iv (concat chunks),
       cbcn_enc_iv (length (concat chunks) / bs) iv (concat chunks)).
  Proof.
    induction chunks as [|c r IH]; intros ip iv Hall.
    - cbn. rewrite Nat.div_0_l by lia. reflexivity.
    - inversion Hall as [|? ? Hc Hr]; subst.
      cbn [cbcn_encrypt_calls concat]. unfold cbcn_encrypt_call.
      rewrite cbcn_enc_blocks_spec. cbn [length skipn app].
      rewrite (IH ip _ Hr). rewrite (div_app c (concat r) Hc).
      rewrite cbcn_encrypt_spec_app, cbcn_enc_iv_app by (apply divbs_exact; exact Hc). reflexivity.
  Qed.

  (* the same for Decrypt calls: the IV carried from call to call is the last ciphertext block *)
  Theorem cbcn_decrypt_calls_spec : forall chunks ip iv,
    length iv = bs -> Forall (fun c => length c mod bs = 0) chunks ->
    cbcn_decrypt_calls bs D ip iv chunks =
      (cbcn_decrypt_spec bs D (length (concat chunks) / bs) iv (concat chunks),
       cbcn_dec_iv (length (concat chunks) / bs) iv (concat chunks)).
  Proof.
    induction chunks as [|c r IH]; intros ip iv Hiv Hall.
    - cbn. rewrite Nat.div_0_l by lia. reflexivity.
    - inversion Hall as [|? ? Hc Hr]; subst.
      cbn [cbcn_decrypt_calls concat]. unfold cbcn_decrypt_call.
      pose proof (divbs_exact _ Hc) as Ec.
      rewrite cbcn_dec_blocks_spec by (cbn [length]; lia). cbn [length skipn app].
      rewrite (IH ip); [|apply cbcn_dec_iv_len; [exact Hiv|lia]|exact Hr].
      rewrite (div_app c (concat r) Hc).
      rewrite cbcn_decrypt_spec_app, cbcn_dec_iv_app by exact Ec. reflexivity.
  Qed.

  (* decryption undoes encryption when D inverts E on blocks *)
  Hypothesis DE : forall b, length b = bs -> D (E b) = b.

  Theorem cbcn_inverse : forall n iv pt, length iv = bs -> length pt = bs * n ->
    cbcn_decrypt_spec bs D n iv (cbcn_encrypt_spec bs E n iv pt) = pt.
  Proof.
    induction n as [|n IH]; intros iv pt Hiv Hpt.
    - destruct pt; [reflexivity|cbn in Hpt; lia].
    - cbn [cbcn_encrypt_spec cbcn_decrypt_spec].
      set (c := E (xor_lists (firstn bs pt) iv)).
      assert (Hc : length c = bs) by apply Elen.
      rewrite firstn_app, skipn_app. rewrite Hc, Nat.sub_diag, firstn_O, skipn_O.
      rewrite (firstn_all2 c) by lia. rewrite (skipn_all2 c) by lia. rewrite app_nil_r. cbn [app].
      assert (Hx : length (xor_lists (firstn bs pt) iv) = bs)
        by (rewrite xor_lists_length, firstn_length, Hiv; lia).
      unfold c at 1. rewrite DE by exact Hx.
      rewrite xor_lists_cancel by (rewrite firstn_length, Hiv; lia).
      rewrite IH; [apply firstn_skipn|exact Hc|rewrite skipn_length; lia].
  Qed.

  Lemma concat_mod : forall chunks, Forall (fun c : list N => length c mod bs = 0) chunks -> length (concat chunks) mod bs = 0.
  Proof.
    induction chunks as [|c r IH]; intro Hall; [cbn; apply Nat.mod_0_l; lia|].
    inversion Hall; subst. cbn [concat]. rewrite app_length.
    rewrite <- Nat.add_mod_idemp_l, H1 by lia. cbn [Nat.add]. apply IH. assumption.
  Qed.

  (* encrypt in any calls, then decrypt in any (other) calls, each in place or not: the plaintext *)
  Theorem cbcn_model_roundtrip : forall chunks chunks2 ip1 ip2 iv,
    length iv = bs -> Forall (fun c => length c mod bs = 0) chunks ->
    Forall (fun c => length c mod bs = 0) chunks2 ->
    concat chunks2 = fst (cbcn_encrypt_calls bs E ip1 iv chunks) ->
    fst (cbcn_decrypt_calls bs D ip2 iv chunks2) = concat chunks.
  Proof.
    intros chunks chunks2 ip1 ip2 iv Hiv Hall Hall2 Hcat.
    rewrite cbcn_decrypt_calls_spec by assumption. cbn [fst]. rewrite Hcat.
    rewrite cbcn_encrypt_calls_spec by assumption. cbn [fst].
    pose proof (divbs_exact _ (concat_mod chunks Hall)) as En. set (n := length (concat chunks) / bs) in *.
    rewrite cbcn_encrypt_spec_len. replace (bs * n / bs) with n by (rewrite Nat.mul_comm, Nat.div_mul; lia).
    apply cbcn_inverse; assumption.
  Qed.
End CbcNProofs.

(* ================================================================== three-key composition *)
Section Des3Proofs.
  Variable sched : Type.
  Variable blk : Type.
  Variable deskey : list N -> bool -> sched.
  Variable desfunc : sched -> blk -> blk.
  Variable load : list N -> blk.
  Variable store : blk -> list N.
  Variable sched0 : sched.

  Local Notation init := (des3_init_key sched deskey sched0).
  Local Notation encb := (des3_encrypt_block sched blk desfunc load store sched0).
  Local Notation decb := (des3_decrypt_block sched blk desfunc load store sched0).
  (* what one stage is, in terms of the code's own single-DES machinery *)
  Definition stage_enc (k : list N) (w : blk) : blk := desfunc (deskey k EN0) w.
  Definition stage_dec (k : list N) (w : blk) : blk := desfunc (deskey k DE1) w.

  (* KEY ORDER and DIRECTION: psDes3InitKey + psDes3EncryptBlock is E_K3(D_K2(E_K1(.))), and
     psDes3DecryptBlock is D_K1(E_K2(D_K3(.))), K1 || K2 || K3 = the 24 key bytes - for every key and block *)
  Theorem des3_block_key_order : forall key b,
    encb (init key) b = store (tdea_encrypt_spec stage_enc stage_dec
                                (firstn 8 key) (firstn 8 (skipn 8 key)) (firstn 8 (skipn 16 key)) (load b)) /\
    decb (init key) b = store (tdea_decrypt_spec stage_enc stage_dec
                                (firstn 8 key) (firstn 8 (skipn 8 key)) (firstn 8 (skipn 16 key)) (load b)).
  Proof. intros. split; reflexivity. Qed.

  (* byte level, GIVEN that one stage computes the DES of the standard ([des dec key block]) *)
  Variable des : bool -> list N -> list N -> list N.
  Hypothesis Hdes : forall k edf b, length b = 8 -> store (desfunc (deskey k edf) (load b)) = des edf k b.
  Hypothesis Hwf : forall s w, load (store (desfunc s w)) = desfunc s w.
  Hypothesis des_len : forall edf k b, length (des edf k b) = 8.

  Lemma stage_bytes : forall k edf b, length b = 8 -> desfunc (deskey k edf) (load b) = load (des edf k b).
  Proof. intros. rewrite <- Hdes by assumption. symmetry. apply Hwf. Qed.

  Theorem des3_block_eq_spec : forall key b, length b = 8 ->
    encb (init key) b = tdea_encrypt_spec (des false) (des true)
                          (firstn 8 key) (firstn 8 (skipn 8 key)) (firstn 8 (skipn 16 key)) b /\
    decb (init key) b = tdea_decrypt_spec (des false) (des true)
                          (firstn 8 key) (firstn 8 (skipn 8 key)) (firstn 8 (skipn 16 key)) b.
  Proof.
    intros key b Hb. destruct (des3_block_key_order key b) as [He Hd]. rewrite He, Hd.
    unfold tdea_encrypt_spec, tdea_decrypt_spec, stage_enc, stage_dec, EN0, DE1. split.
    - rewrite (stage_bytes _ false b Hb). rewrite (stage_bytes _ true _ (des_len _ _ _)).
      apply Hdes. apply des_len.
    - rewrite (stage_bytes _ true b Hb). rewrite (stage_bytes _ false _ (des_len _ _ _)).
      apply Hdes. apply des_len.
  Qed.
End Des3Proofs.

(* TDEA decryption inverts TDEA encryption when single-key decryption inverts single-key encryption *)
Theorem tdea_inverse : forall (Blk : Type) (Enc Dec : list N -> Blk -> Blk),
  (forall k b, Dec k (Enc k b) = b) -> (forall k b, Enc k (Dec k b) = b) ->
  forall k1 k2 k3 b, tdea_decrypt_spec Enc Dec k1 k2 k3 (tdea_encrypt_spec Enc Dec k1 k2 k3 b) = b.
Proof. intros Blk Enc Dec H1 H2 k1 k2 k3 b. unfold tdea_decrypt_spec, tdea_encrypt_spec. rewrite H1, H2, H1. reflexivity. Qed.
