(* C02 - what the property demands of a record layer, written independently of the shape of the C code:
     the receiving application sees an in-order PREFIX of what the sending application submitted, whatever list of
     records an attacker presents; a record that is not the next genuine one yields no data and ends the session.
   The sender, the receiver loop, the authenticated tuples and the no-forgery hypothesis are defined here once for the
   five families; the per-record functions come from Rec/RecModel.v. *)
From MV Require Export Rec.RecModel.
Local Open Scope N_scope.

Definition prefix {A : Type} (a b : list A) : Prop := exists c, b = a ++ c.

(* one message the upper layer hands to the record layer *)
Record msg := {
  m_typ : N;          (* content type *)
  m_pt : bytes;       (* fragment *)
  m_pad : nat;        (* TLS 1.3: number of zero bytes after the inner type (tls13PadLen / tls13BlockSize); unused elsewhere *)
  m_rnd : bytes       (* CBC, TLS >= 1.1: the block of random bytes written in front of the fragment; unused elsewhere *)
}.
Definition content (m : msg) : N * bytes := (m_typ m, m_pt m).

Section Spec.
  Variable msz : nat.
  Variable cbc_enc cbc_dec : bytes -> bytes -> bytes -> bytes.
  Variable mac : bytes -> bytes -> bytes.
  Variable aead_seal : bytes -> bytes -> bytes -> bytes -> bytes.
  Variable aead_open : bytes -> bytes -> bytes -> bytes -> option bytes.

  Let open_rec := open_rec msz cbc_dec mac aead_open.
  Let verified_rec := verified_rec msz cbc_dec mac aead_open.

  (* ---------------------------------------------------------------- the honest sender *)
  Definition seal_rec (f : family) (s : rst) (m : msg) : wrec * rst :=
    match f with
    | FCbc => let '(b, s') := seal_cbc msz cbc_enc mac s (m_rnd m) (m_typ m) (m_pt m) in
              ({| w_typ := m_typ m; w_maj := vmaj s; w_min := vmin s; w_body := b |}, s')
    | FGcm12 => let '(b, s') := seal_gcm12 aead_seal s (m_typ m) (m_pt m) in
              ({| w_typ := m_typ m; w_maj := vmaj s; w_min := vmin s; w_body := b |}, s')
    | FChacha12 => let '(b, s') := seal_chacha12 aead_seal s (m_typ m) (m_pt m) in
              ({| w_typ := m_typ m; w_maj := vmaj s; w_min := vmin s; w_body := b |}, s')
    | _ => let '(b, s') := seal_tls13 aead_seal s (m_pad m) (m_typ m) (m_pt m) in
              ({| w_typ := 23; w_maj := 3; w_min := 3; w_body := b |}, s')
    end.

  (* what the honest sender authenticates for message m in state s: (nonce, sequence number / header fields, plaintext).
     The sequence number, the content type, the version and the length are all in it (TLS 1.3: the sequence number through
     the nonce, the content type inside the encrypted inner plaintext). *)
  Definition tuple (f : family) (s : rst) (m : msg) : amsg :=
    match f with
    | FCbc => ([], hdr13 s (m_typ m) (length (m_pt m)), m_pt m)
    | FGcm12 => (firstn 4 (k_iv s) ++ be64 (seqn s), hdr13 s (m_typ m) (length (m_pt m)), m_pt m)
    | FChacha12 => (nonce_xor s, hdr13 s (m_typ m) (length (m_pt m)), m_pt m)
    | _ => let inner := m_pt m ++ [m_typ m] ++ repeat 0 (m_pad m) in
           (nonce_xor s, aad13 23 3 3 (length inner + tagl), inner)
    end.

  (* the tuples of a whole stream of messages sent from sequence number q on *)
  Fixpoint sent_from (f : family) (s : rst) (q : N) (ms : list msg) : list amsg :=
    match ms with
    | [] => []
    | m :: r => tuple f (set_seq s q) m :: sent_from f s (q + 1) r
    end.

  (* ---------------------------------------------------------------- the receiver under attack *)
  (* the session processes whatever records arrive until the first fatal alert; afterwards it is dead (C15) *)
  Fixpoint recv (f : family) (s : rst) (ws : list wrec) : list (N * bytes) :=
    match ws with
    | [] => []
    | w :: r =>
      match open_rec f s w with
      | Deliver t pt s' => (t, pt) :: recv f s' r
      | Skip s' => recv f s' r
      | _ => []
      end
    end.

  (* Hunf, the ONLY cryptographic hypothesis: no forgery occurs in this run.  Whenever the tag / MAC check of a presented
     record succeeds under the receiver's current key and sequence number, the tuple it succeeded on is one the honest
     peer sealed.  ("verify k m t = true -> m was MACed / sealed by the honest peer", for the checks this run performs.) *)
  Fixpoint no_forgery (f : family) (sent : list amsg) (s : rst) (ws : list wrec) : Prop :=
    match ws with
    | [] => True
    | w :: r =>
      (forall a, verified_rec f s w = Some a -> In a sent) /\
      match open_rec f s w with
      | Deliver _ _ s' => no_forgery f sent s' r
      | Skip s' => no_forgery f sent s' r
      | _ => True
      end
    end.

  (* the honest stream is well formed: real content types, no sequence-number wrap, a full-length static IV *)
  Definition wf_msg (m : msg) : Prop := valid_type (m_typ m) = true.
  Definition wf_stream (f : family) (s : rst) (ms : list msg) : Prop :=
    seqn s + N.of_nat (length ms) < 2 ^ 64 /\ Forall wf_msg ms /\
    match f with FCbc | FGcm12 => True | _ => length (k_iv s) = 12%nat end.

  Definition c02_prefix_statement (f : family) : Prop :=
    forall (s : rst) (ms : list msg) (ws : list wrec),
      wf_stream f s ms ->
      no_forgery f (sent_from f s (seqn s) ms) s ws ->
      prefix (recv f s ws) (map content ms).

  (* DTLS: the sequence number of a record is the epoch || sequence field of its own header (replay window: C16);
     the record functions are the same.  Every delivered datagram is one the peer sent. *)
  Definition open_dtls (f : family) (s : rst) (rsn : N) (w : wrec) : ores := open_rec f (set_seq s rsn) w.
  Definition verified_dtls (f : family) (s : rst) (rsn : N) (w : wrec) : option amsg := verified_rec f (set_seq s rsn) w.
  Definition c02_dtls_identical_statement (f : family) : Prop :=
    forall (s : rst) (sent : list (N * msg)) (rsn : N) (w : wrec) t pt s',
      is13 f = false ->
      rsn < 2 ^ 64 -> Forall (fun qm => fst qm < 2 ^ 64 /\ wf_msg (snd qm)) sent ->
      (match f with FCbc | FGcm12 => True | _ => length (k_iv s) = 12%nat end) ->
      (forall a, verified_dtls f s rsn w = Some a -> In a (map (fun qm => tuple f (set_seq s (fst qm)) (snd qm)) sent)) ->
      open_dtls f s rsn w = Deliver t pt s' ->
      exists m, In (rsn, m) sent /\ (t, pt) = content m.
End Spec.
