(* C02 - byte-level record protection: what the receiver does with the bytes of one protected record,
   and what the sender puts on the wire, for the three record-protection families.

   C sources followed branch by branch (FIXED code: pending-fixes/C02-*.patch applied):
     matrixssl/sslDecode.c      handleRecordHdr 244-312 (type / version / length of the 5-byte header)
                                matrixSslDecodeTls12AndBelow 879-1282: CBC length sanity 886-916, decrypt 934-940,
                                AEAD length adjustment 951-959, padding + Lucky13 bookkeeping 1007-1121, explicit-IV
                                skip 1129-1132, verifyMac 1241-1247, plaintext limit 1265-1282
     matrixssl/cipherSuite.c    csAesDecrypt 365-379 (block-multiple test), csAesGcmDecrypt 254-318,
                                csChacha20Poly1305IetfDecrypt 502-590, csShaVerifyMac 775-815, csAesGcmEncrypt 178-252
     matrixssl/tls.c            tlsHMACSha1 450-569 / tlsHMACSha2 577-681 (MAC input, sequence increment)
     matrixssl/tls13CipherSuite.c  tls13MakeReadNonce 64-75, tls13MakeDecryptAad 87-97 (AAD = header AS RECEIVED, after the
                                fix), csAesGcmDecryptTls13 328-370, csChacha20Poly1305IetfDecryptTls13 436-500
     matrixssl/tls13Decode.c    tls13ValidateRecordHeader 66-82, matrixSslDecodeTls13 225-405 (type check, CCS / short alert,
                                decrypt, inner-type scan, length limit)
     matrixssl/sslEncode.c      writeRecordHeader 2831-3030, encryptRecord 3157-3360, sslWritePad 8051, psPadLenPwr2
     matrixssl/tls13Encode.c    tls13WriteRecordHeader 123-330, tls13EncodeAppData 2152-2240

   The primitives are Section variables: [cbc_enc/cbc_dec key iv data], [mac key msg], [aead_seal/aead_open key nonce aad data].
   coq/Rec/RecInst.v instantiates them with the Gallina AES-CBC / HMAC / AES-GCM / ChaCha20-Poly1305 of coq/Crypto
   (tied to the library by C12) for the correspondence run.  No proofs in this file. *)
From MV Require Export Base.Bytes Gen.Consts Gen.ConstsRec.
Local Open Scope N_scope.

(* ------------------------------------------------------------------ bytes *)
Fixpoint le_bytes (n : nat) (x : N) : bytes :=
  match n with O => [] | S k => x mod 256 :: le_bytes k (x / 256) end.
Definition be_bytes (n : nat) (x : N) : bytes := rev (le_bytes n x).
Definition be16 (x : N) : bytes := be_bytes 2 x.
Definition be64 (x : N) : bytes := be_bytes 8 x.
Fixpoint be_val (b : bytes) (acc : N) : N := match b with [] => acc | x :: r => be_val r (256 * acc + x) end.

Definition sub (b : bytes) (off len : nat) : bytes := firstn len (skipn off b).
Fixpoint bxor (a b : bytes) : bytes :=
  match a, b with x :: a', y :: b' => N.lxor x y :: bxor a' b' | _, _ => [] end.
Fixpoint beqb (a b : bytes) : bool :=
  match a, b with
  | [], [] => true
  | x :: a', y :: b' => (x =? y) && beqb a' b'
  | _, _ => false
  end.
Definition nlen (b : bytes) : N := N.of_nat (length b).

(* ------------------------------------------------------------------ state of one direction
   Read side: ssl->sec.readKey / readMAC / remSeq, the negotiated version and size limit.
   Write side: the same record with writeKey / writeMAC / seq.  Two peers are in sync when the sender's
   write state equals the receiver's read state. *)
Record rst := {
  k_enc : bytes;      (* readKey[0 .. keySize) *)
  k_mac : bytes;      (* readMAC[0 .. macSize);  empty for AEAD suites *)
  k_iv : bytes;       (* CBC: decryptCtx.aes.IV, the running CBC chaining value;  GCM 1.2: readIV[0..4);
                         ChaCha20 1.2: readIV[0..12);  TLS 1.3: tls13ReadIv[0..12) *)
  seqn : N;           (* remSeq[0..8) read big-endian *)
  vmaj : N;           (* psEncodeVersionMaj(GET_ACTV_VER(ssl)) *)
  vmin : N;
  expl : bool;        (* ACTV_VER(ssl, v_tls_explicit_iv): TLS 1.1 and later *)
  maxfrag : N         (* maxPtFrag, SSL_MAX_PLAINTEXT_LEN while it is 0xFF *)
}.
Definition set_seq (s : rst) (q : N) : rst :=
  {| k_enc := k_enc s; k_mac := k_mac s; k_iv := k_iv s; seqn := q; vmaj := vmaj s; vmin := vmin s; expl := expl s; maxfrag := maxfrag s |}.
Definition set_iv (s : rst) (iv : bytes) : rst :=
  {| k_enc := k_enc s; k_mac := k_mac s; k_iv := iv; seqn := seqn s; vmaj := vmaj s; vmin := vmin s; expl := expl s; maxfrag := maxfrag s |}.
(* for (i = 7; i >= 0; i--) { seq[i]++; if (seq[i] != 0) break; } *)
Definition bump (s : rst) : rst := set_seq s ((seqn s + 1) mod 2 ^ 64).

(* what the record layer reports for one record *)
Inductive ores :=
| Deliver (typ : N) (pt : bytes) (s : rst)   (* plaintext of content type [typ] handed upwards *)
| Fatal (alert : Z) (s : rst)                (* ssl->err := alert; goto encodeResponse: the alert is sent and the session flagged *)
| Skip (s : rst)                             (* record consumed, nothing happens (TLS 1.3 change_cipher_spec) *)
| PlainAlert (s : rst)                       (* TLS 1.3: unprotected alert record handed to tls13ParseAndHandleAlert *)
| Fault.                                     (* the C code would read outside the record *)

Definition blk : nat := r_AES_BLOCKLEN.
Definition tagl : nat := r_TLS_GCM_TAG_LEN.

(* seq_num || type || version || length: the 13 bytes in front of the fragment in the MAC input and the TLS 1.2 AEAD additional data *)
Definition hdr13 (s : rst) (typ : N) (n : nat) : bytes :=
  be64 (seqn s) ++ [typ; vmaj s; vmin s] ++ be16 (N.of_nat n).

Record wrec := { w_typ : N; w_maj : N; w_min : N; w_body : bytes }.

Inductive family := FCbc | FGcm12 | FChacha12 | FGcm13 | FChacha13.

Inductive event :=
| EData (typ : N) (pt : bytes)     (* APPDATA (typ 23) or another verified content type *)
| EFatal (alert : Z)               (* fatal alert sent; the session is dead *)
| ESkip
| EPlainAlert
| EPartial                          (* fewer bytes than the header announces: wait for more *)
| EFault.

(* what a tag / MAC check was computed over: (nonce, authenticated header, plaintext) *)
Definition amsg : Type := (bytes * bytes * bytes)%type.

Section Rec.
  Variable msz : nat.                                             (* deMacSize = nativeDeMacSize (no truncated_hmac) *)
  Variable cbc_enc cbc_dec : bytes -> bytes -> bytes -> bytes.    (* key iv data *)
  Variable mac : bytes -> bytes -> bytes.                         (* key message *)
  Variable aead_seal : bytes -> bytes -> bytes -> bytes -> bytes. (* key nonce aad plaintext -> ciphertext || tag *)
  Variable aead_open : bytes -> bytes -> bytes -> bytes -> option bytes.

  (* ================================================================ TLS 1.1 / 1.2, CBC + HMAC *)
  Definition ivl (s : rst) : nat := if expl s then blk else 0%nat.

  (* padding bytes AND the length byte all equal padLen: for (mac = p - padLen - 1; mac < p; mac++) if ( *mac != padLen ) macError = 1 *)
  Definition pad_bytes_ok (p : bytes) (len padLen : nat) : bool :=
    forallb (fun x => x =? N.of_nat padLen) (sub p (len - padLen - 1) (padLen + 1)).

  (* everything up to the MAC computation: the decrypted record split into data and MAC, and the padding verdict *)
  Inductive cbc_pre :=
  | CbcShort                       (* 886-916  Lucky 13 step 1: rec.len < macSize + 1 (+ blockSize) *)
  | CbcNotBlock                    (* 934-940  csAesDecrypt: (len & 0xf) != 0 -> PS_FAILURE *)
  | CbcBadDec                      (* the cipher returned another length than it was given: cannot happen (contract) *)
  | CbcView (s1 : rst) (macError : bool) (data macv : bytes).

  Definition cbc_view (s : rst) (body : bytes) : cbc_pre :=
    let len := length body in
    if (len <? msz + 1 + ivl s)%nat then CbcShort
    else if negb (len mod blk =? 0)%nat then CbcNotBlock
    else
      let p := cbc_dec (k_enc s) (k_iv s) body in
      if negb (length p =? len)%nat then CbcBadDec else
      let s1 := set_iv s (skipn (len - blk) body) in                (* psAesDecryptCBC leaves the last ciphertext block as IV *)
      let padLen := N.to_nat (nth (len - 1) p 0) in                 (* 1007-1008 *)
      (* 1021-1034  rec.len < macSize + padLen + 1 (+ blockSize) -> macError *)
      let lenErr := (len <? msz + padLen + 1 + ivl s)%nat in
      (* 1060-1086  only when the length test passed *)
      let padErr := if lenErr then false else negb (pad_bytes_ok p len padLen) in
      let macError := lenErr || padErr in
      (* 1094-1120  real MAC position, or "fake the mac as the last macSize bytes of the record" *)
      let macpos := if macError then (len - msz)%nat else (len - padLen - 1 - msz)%nat in
      (* 1129-1132 skip explicit IV; len = mac - decryptedStart *)
      CbcView s1 macError (sub p (ivl s) (macpos - ivl s)) (sub p macpos msz).

  Definition open_cbc (s : rst) (typ : N) (body : bytes) : ores :=
    match cbc_view s body with
    | CbcShort => Fatal c_SSL_ALERT_BAD_RECORD_MAC s
    | CbcNotBlock => Fatal c_SSL_ALERT_DECRYPT_ERROR s
    | CbcBadDec => Fault
    | CbcView s1 macError data macv =>
      (* csShaVerifyMac -> tlsHMACSha1/2: MAC over seq || type || version || len || data; THEN the sequence number moves *)
      let calc := mac (k_mac s1) (hdr13 s1 typ (length data) ++ data) in
      let s2 := bump s1 in
      (* 1241-1247  verifyMac(...) < 0 || macError : one alert for both *)
      if negb (beqb (firstn msz calc) macv) || macError then Fatal c_SSL_ALERT_BAD_RECORD_MAC s2
      (* 1265-1282 *)
      else if maxfrag s <? nlen data then Fatal c_SSL_ALERT_RECORD_OVERFLOW s2
      else Deliver typ data s2
    end.

  (* the tuple (nonce, authenticated header, plaintext) over which the MAC comparison of this record succeeds, if it does *)
  Definition verified_cbc (s : rst) (typ : N) (body : bytes) : option amsg :=
    match cbc_view s body with
    | CbcView s1 _ data macv =>
      if beqb (firstn msz (mac (k_mac s1) (hdr13 s1 typ (length data) ++ data))) macv
      then Some ([], hdr13 s1 typ (length data), data) else None
    | _ => None
    end.

  (* psPadLenPwr2(LEN, 16): number of padding bytes INCLUDING the length byte, 1..16; each byte = count - 1 (sslWritePad) *)
  Definition pad_count (n : nat) : nat := (blk - n mod blk)%nat.
  (* writeRecordHeader + encryptRecord for an application-data record; [rnd] = the blockSize bytes psGetPrngLocked put in
     front of the plaintext as explicit IV (TLS >= 1.1); the whole buffer is CBC-encrypted under the running chaining value *)
  Definition seal_cbc (s : rst) (rnd : bytes) (typ : N) (pt : bytes) : bytes * rst :=
    let ivp := if expl s then rnd else [] in
    let m := firstn msz (mac (k_mac s) (hdr13 s typ (length pt) ++ pt)) in
    let pc := pad_count (length ivp + length pt + msz) in
    let plain := ivp ++ pt ++ m ++ repeat (N.of_nat (pc - 1)) pc in
    let ct := cbc_enc (k_enc s) (k_iv s) plain in
    (ct, bump (set_iv s (skipn (length ct - blk) ct))).

  (* ================================================================ TLS 1.2 AES-GCM *)
  Definition open_gcm12 (s : rst) (typ : N) (body : bytes) : ores :=
    let len := length body in
    (* csAesGcmDecrypt 267-272: if (len < 25) return PS_FAILURE  -> decrypt() < 0 -> decrypt_error (937) *)
    if (len <? 25)%nat then Fatal c_SSL_ALERT_DECRYPT_ERROR s
    else
      let nonce := firstn 4 (k_iv s) ++ firstn r_TLS_EXPLICIT_NONCE_LEN body in    (* readIV[0..4) || nonce_explicit *)
      let sealed := skipn r_TLS_EXPLICIT_NONCE_LEN body in
      let ctLen := (len - r_TLS_EXPLICIT_NONCE_LEN - tagl)%nat in
      let aad := hdr13 s typ ctLen in                                              (* remSeq || type || version || ctLen *)
      match aead_open (k_enc s) nonce aad sealed with
      | None => Fatal c_SSL_ALERT_DECRYPT_ERROR s                                  (* return -1 BEFORE remSeq is touched *)
      | Some pt =>
          let s1 := bump s in                                                      (* 309-316 *)
          if negb (length pt =? ctLen)%nat then Fault
          else if maxfrag s <? nlen pt then Fatal c_SSL_ALERT_RECORD_OVERFLOW s1   (* sslDecode.c 951-959, 1260-1282 *)
          else Deliver typ pt s1
      end.
  Definition verified_gcm12 (s : rst) (typ : N) (body : bytes) : option amsg :=
    let len := length body in
    if (len <? 25)%nat then None else
    let nonce := firstn 4 (k_iv s) ++ firstn r_TLS_EXPLICIT_NONCE_LEN body in
    let aad := hdr13 s typ (len - r_TLS_EXPLICIT_NONCE_LEN - tagl) in
    match aead_open (k_enc s) nonce aad (skipn r_TLS_EXPLICIT_NONCE_LEN body) with
    | Some pt => Some (nonce, aad, pt) | None => None
    end.
  (* psWriteRecordInfo writes sec.seq as nonce_explicit; csAesGcmEncrypt *)
  Definition seal_gcm12 (s : rst) (typ : N) (pt : bytes) : bytes * rst :=
    let nonce := firstn 4 (k_iv s) ++ be64 (seqn s) in
    (be64 (seqn s) ++ aead_seal (k_enc s) nonce (hdr13 s typ (length pt)) pt, bump s).

  (* ================================================================ TLS 1.2 ChaCha20-Poly1305 (RFC 7905) *)
  Definition nonce_xor (s : rst) : bytes := bxor (k_iv s) (repeat 0 4 ++ be64 (seqn s)).
  Definition open_chacha12 (s : rst) (typ : N) (body : bytes) : ores :=
    let len := length body in
    (* 547-550: len < tag length -> PS_LIMIT_FAIL -> decrypt_error *)
    if (len <? tagl)%nat then Fatal c_SSL_ALERT_DECRYPT_ERROR s
    else
      let ctLen := (len - tagl)%nat in
      match aead_open (k_enc s) (nonce_xor s) (hdr13 s typ ctLen) body with
      | None => Fatal c_SSL_ALERT_DECRYPT_ERROR s
      | Some pt =>
          let s1 := bump s in
          if negb (length pt =? ctLen)%nat then Fault
          else if maxfrag s <? nlen pt then Fatal c_SSL_ALERT_RECORD_OVERFLOW s1
          else Deliver typ pt s1
      end.
  Definition verified_chacha12 (s : rst) (typ : N) (body : bytes) : option amsg :=
    let len := length body in
    if (len <? tagl)%nat then None else
    match aead_open (k_enc s) (nonce_xor s) (hdr13 s typ (len - tagl)) body with
    | Some pt => Some (nonce_xor s, hdr13 s typ (len - tagl), pt) | None => None
    end.
  Definition seal_chacha12 (s : rst) (typ : N) (pt : bytes) : bytes * rst :=
    (aead_seal (k_enc s) (nonce_xor s) (hdr13 s typ (length pt)) pt, bump s).

  (* ================================================================ TLS 1.3 *)
  (* while ( *p == 0 && p > decryptTo) p--;  started at the last byte: the index where the scan stops *)
  Fixpoint scan_back (ip : bytes) (i : nat) : nat :=
    match i with
    | O => O
    | S j => if nth i ip 0 =? 0 then scan_back ip j else i
    end.

  (* additional data: the record header as received (opaque_type, legacy_record_version, length) *)
  Definition aad13 (typ maj min : N) (len : nat) : bytes := [typ; maj; min] ++ be16 (N.of_nat len).

  (* [gcm]: csAesGcmDecryptTls13 refuses len <= 16, csChacha20Poly1305IetfDecryptTls13 only len < 16 *)
  Definition open_tls13 (gcm : bool) (s : rst) (typ maj min : N) (body : bytes) : ores :=
    let len := length body in
    if (if gcm then (len <=? tagl)%nat else (len <? tagl)%nat) then Fatal c_SSL_ALERT_BAD_RECORD_MAC s
    else
      match aead_open (k_enc s) (nonce_xor s) (aad13 typ maj min len) body with
      | None => Fatal c_SSL_ALERT_BAD_RECORD_MAC s                   (* tls13Decode.c 303-343; remSeq untouched *)
      | Some ip =>
          let s1 := bump s in                                         (* psAesIncrSec(remSeq) after a good tag *)
          if negb (length ip =? len - tagl)%nat then Fault else
          match length ip with
          | O => Fault                        (* 346-352: ptLen = 0 - 1 wraps, p is read far outside the record (ChaCha20 only) *)
          | S last =>
              let i := scan_back ip last in
              if (i =? 0)%nat then Fatal c_SSL_ALERT_UNEXPECTED_MESSAGE s1        (* 357-363: p == decryptTo *)
              else if rn_TLS_1_3_MAX_PLAINTEXT_FRAGMENT_LEN <? N.of_nat i
                   then Fatal c_SSL_ALERT_RECORD_OVERFLOW s1                      (* 385-390 *)
              else Deliver (nth i ip 0) (firstn i ip) s1
          end
      end.
  Definition verified_tls13 (gcm : bool) (s : rst) (typ maj min : N) (body : bytes) : option amsg :=
    let len := length body in
    if (if gcm then (len <=? tagl)%nat else (len <? tagl)%nat) then None else
    match aead_open (k_enc s) (nonce_xor s) (aad13 typ maj min len) body with
    | Some ip => Some (nonce_xor s, aad13 typ maj min len, ip) | None => None
    end.
  (* tls13WriteRecordHeader: TLSInnerPlaintext = content || type || zeros(pad); outer header 23, 3.3 *)
  Definition seal_tls13 (s : rst) (pad : nat) (typ : N) (pt : bytes) : bytes * rst :=
    let inner := pt ++ [typ] ++ repeat 0 pad in
    (aead_seal (k_enc s) (nonce_xor s) (aad13 23 3 3 (length inner + tagl)) inner, bump s).

  (* tls13GetPadLen (tls13Encode.c 98-118) with psRoundUpToBlockSize (cryptolib.h 796): zero bytes that make the
     TLSInnerPlaintext a multiple of tls13BlockSize, capped at the maximal inner plaintext 2^14 + 1 *)
  Definition tls13_pad_len (bs len : N) : N :=
    let bound := ((len + 1 + bs - 1) / bs) * bs in
    let bound := if rn_TLS_1_3_MAX_INNER_PLAINTEXT_LEN <? bound then rn_TLS_1_3_MAX_INNER_PLAINTEXT_LEN else bound in
    bound - 1 - len.
  (* matrixSslSetTls13BlockPadding(ssl, bs) then tls13EncodeAppData *)
  Definition seal_tls13_block (s : rst) (bs : N) (typ : N) (pt : bytes) : bytes * rst :=
    seal_tls13 s (N.to_nat (tls13_pad_len bs (nlen pt))) typ pt.

  (* the same receiver BEFORE pending-fixes/C02-tls13-aad-from-received-header.patch: AAD from constants *)
  Definition open_tls13_orig (gcm : bool) (s : rst) (typ maj min : N) (body : bytes) : ores :=
    open_tls13 gcm s 23 3 3 body.

  (* ================================================================ one record, header included *)

  Definition valid_type (t : N) : bool := (t =? 20) || (t =? 21) || (t =? 22) || (t =? 23).

  Definition is13 (f : family) : bool := match f with FGcm13 | FChacha13 => true | _ => false end.

  (* handleRecordHdr: type -> unexpected_message; version differs from the negotiated one -> illegal_parameter;
     length 0 or > SSL_MAX_RECORD_LEN -> illegal_parameter; then the protected body *)
  Definition open12 (f : family) (s : rst) (w : wrec) : ores :=
    if negb (valid_type (w_typ w)) then Fatal c_SSL_ALERT_UNEXPECTED_MESSAGE s
    else if negb ((w_maj w =? vmaj s) && (w_min w =? vmin s)) then Fatal c_SSL_ALERT_ILLEGAL_PARAMETER s
    else if (rn_SSL_MAX_RECORD_LEN <? nlen (w_body w)) || (nlen (w_body w) =? 0) then Fatal c_SSL_ALERT_ILLEGAL_PARAMETER s
    else match f with
         | FCbc => open_cbc s (w_typ w) (w_body w)
         | FGcm12 => open_gcm12 s (w_typ w) (w_body w)
         | _ => open_chacha12 s (w_typ w) (w_body w)
         end.

  (* matrixSslDecodeTls13 with DECRYPTING_RECORDS: length -> illegal_parameter; type -> unexpected_message;
     change_cipher_spec is skipped when it is the single byte 01; a short alert record is taken as plaintext *)
  Definition open13 (f : family) (s : rst) (w : wrec) : ores :=
    let len := nlen (w_body w) in
    if (rn_TLS_1_3_MAX_CIPHERTEXT_LEN <? len) || (len =? 0) then Fatal c_SSL_ALERT_ILLEGAL_PARAMETER s
    else if negb (valid_type (w_typ w)) then Fatal c_SSL_ALERT_UNEXPECTED_MESSAGE s
    else if w_typ w =? 20 then
      (if beqb (w_body w) [1] then Skip s else Fatal c_SSL_ALERT_ILLEGAL_PARAMETER s)
    else if (w_typ w =? 21) && (len <? 2 + N.of_nat tagl) then PlainAlert s
    else open_tls13 (match f with FGcm13 => true | _ => false end) s (w_typ w) (w_maj w) (w_min w) (w_body w).

  Definition open_rec (f : family) (s : rst) (w : wrec) : ores :=
    if is13 f then open13 f s w else open12 f s w.

  (* the tuple a record's tag / MAC check succeeds on (None: header refused before any check, or the check fails) *)
  Definition verified_rec (f : family) (s : rst) (w : wrec) : option amsg :=
    if is13 f then
      (let len := nlen (w_body w) in
       if (rn_TLS_1_3_MAX_CIPHERTEXT_LEN <? len) || (len =? 0) then None
       else if negb (valid_type (w_typ w)) then None
       else if w_typ w =? 20 then None
       else if (w_typ w =? 21) && (len <? 2 + N.of_nat tagl) then None
       else verified_tls13 (match f with FGcm13 => true | _ => false end) s (w_typ w) (w_maj w) (w_min w) (w_body w))
    else
      (if negb (valid_type (w_typ w)) then None
       else if negb ((w_maj w =? vmaj s) && (w_min w =? vmin s)) then None
       else if (rn_SSL_MAX_RECORD_LEN <? nlen (w_body w)) || (nlen (w_body w) =? 0) then None
       else match f with
            | FCbc => verified_cbc s (w_typ w) (w_body w)
            | FGcm12 => verified_gcm12 s (w_typ w) (w_body w)
            | _ => verified_chacha12 s (w_typ w) (w_body w)
            end).

  (* ================================================================ a byte stream: framing + the receive loop.
     Events: what the application / the wire sees, in order. *)

  Fixpoint run_wire (fuel : nat) (f : family) (s : rst) (w : bytes) : list event * rst :=
    match fuel with
    | O => ([], s)
    | S fu =>
      match w with
      | [] => ([], s)
      | t :: ma :: mi :: l1 :: l2 :: rest =>
          let len := N.to_nat (256 * l1 + l2) in
          (* the header is validated as soon as its 5 bytes are there, before the body is complete *)
          let early :=
            if is13 f then
              (if (rn_TLS_1_3_MAX_CIPHERTEXT_LEN <? N.of_nat len) || (len =? 0)%nat then Some c_SSL_ALERT_ILLEGAL_PARAMETER else None)
            else
              (if negb (valid_type t) then Some c_SSL_ALERT_UNEXPECTED_MESSAGE
               else if negb ((ma =? vmaj s) && (mi =? vmin s)) then Some c_SSL_ALERT_ILLEGAL_PARAMETER
               else if (rn_SSL_MAX_RECORD_LEN <? N.of_nat len) || (len =? 0)%nat then Some c_SSL_ALERT_ILLEGAL_PARAMETER
               else None) in
          match early with
          | Some a => ([EFatal a], s)
          | None =>
            if (length rest <? len)%nat then ([EPartial], s)
            else
              match open_rec f s {| w_typ := t; w_maj := ma; w_min := mi; w_body := firstn len rest |} with
              | Deliver ty pt s' => let '(ev, s'') := run_wire fu f s' (skipn len rest) in (EData ty pt :: ev, s'')
              | Fatal a s' => ([EFatal a], s')
              | Skip s' => let '(ev, s'') := run_wire fu f s' (skipn len rest) in (ESkip :: ev, s'')
              | PlainAlert s' => ([EPlainAlert], s')
              | Fault => ([EFault], s)
              end
          end
      | _ => ([EPartial], s)
      end
    end.
End Rec.
