(* C02 - the record model with its primitives instantiated by the Gallina AES-CBC / HMAC / AES-GCM /
   ChaCha20-Poly1305 specifications of coq/Crypto (validated against the standards' known answers and, by C12,
   against the library on every run).  These instances are what the correspondence run executes. *)
From Coq Require Import List NArith Arith Bool.
From MV Require Import Crypto.CryptoPrims Crypto.CryptoSpec Crypto.CryptoSym Rec.RecModel.
Import ListNotations.

Definition gcm_seal (k n a p : bytes) : bytes :=
  let '(ct, tag) := aes_gcm_encrypt_spec k n a p 16 in ct ++ tag.
Definition gcm_open (k n a sealed : bytes) : option bytes :=
  if (length sealed <? 16)%nat then None else
  let m := (length sealed - 16)%nat in
  aes_gcm_decrypt_spec k n a (firstn m sealed) (skipn m sealed).

(* MAC by size: 20 -> HMAC-SHA1, 32 -> HMAC-SHA256, 48 -> HMAC-SHA384 (csShaVerifyMac's switch on nativeDeMacSize) *)
Definition hmac_by_size (msz : nat) (k m : bytes) : bytes :=
  if (msz =? 20)%nat then hmac_sha1_spec k m
  else if (msz =? 32)%nat then hmac_sha256_spec k m
  else if (msz =? 48)%nat then hmac_sha384_spec k m
  else repeat 0%N msz.

Definition i_open_cbc (msz : nat) := open_cbc msz aes_cbc_decrypt_spec (hmac_by_size msz).
Definition i_seal_cbc (msz : nat) := seal_cbc msz aes_cbc_encrypt_spec (hmac_by_size msz).
Definition i_open_gcm12 := open_gcm12 gcm_open.
Definition i_seal_gcm12 := seal_gcm12 gcm_seal.
Definition i_open_chacha12 := open_chacha12 chachapoly_open_spec.
Definition i_seal_chacha12 := seal_chacha12 chachapoly_seal_spec.
Definition i_open_tls13 (gcm : bool) := open_tls13 (if gcm then gcm_open else chachapoly_open_spec) gcm.
Definition i_seal_tls13 (gcm : bool) := seal_tls13 (if gcm then gcm_seal else chachapoly_seal_spec).
Definition i_seal_tls13_block (gcm : bool) := seal_tls13_block (if gcm then gcm_seal else chachapoly_seal_spec).
Definition i_open_tls13_orig (gcm : bool) := open_tls13_orig (if gcm then gcm_open else chachapoly_open_spec) gcm.

(* the receive loop over a byte stream; the AEAD of a family: GCM for FGcm12/FGcm13, ChaCha20-Poly1305 otherwise *)
Definition i_run_wire (msz : nat) (f : family) (s : rst) (w : bytes) : list event * rst :=
  run_wire msz aes_cbc_decrypt_spec (hmac_by_size msz)
           (match f with FGcm12 | FGcm13 => gcm_open | _ => chachapoly_open_spec end)
           (S (length w)) f s w.
