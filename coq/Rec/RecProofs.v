(* C02 - proofs about the record model (Rec/RecModel.v) against the specification (Rec/RecSpec.v). *)
From Coq Require Import List NArith Arith Bool Lia.
From MV Require Import Rec.RecModel Rec.RecSpec.
Import ListNotations.
Local Open Scope N_scope.

(* ------------------------------------------------------------------ bytes *)
Lemma le_bytes_length : forall n x, length (le_bytes n x) = n.
Proof. induction n; intros; cbn [le_bytes length]; auto. Qed.
Lemma be_bytes_length : forall n x, length (be_bytes n x) = n.
Proof. intros. unfold be_bytes. rewrite rev_length. apply le_bytes_length. Qed.
Lemma be64_length : forall x, length (be64 x) = 8%nat. Proof. intros; apply be_bytes_length. Qed.
Lemma be16_length : forall x, length (be16 x) = 2%nat. Proof. intros; apply be_bytes_length. Qed.

Lemma le_bytes_inj : forall n x y, le_bytes n x = le_bytes n y -> x mod 256 ^ N.of_nat n = y mod 256 ^ N.of_nat n.
Proof.
  induction n; intros x y H.
  - cbn. rewrite !N.mod_1_r. reflexivity.
  - cbn [le_bytes] in H. injection H as H0 H1. apply IHn in H1.
    rewrite Nat2N.inj_succ, N.pow_succ_r'.
    rewrite !N.mod_mul_r by (try apply N.pow_nonzero; discriminate).
    rewrite H0, H1. reflexivity.
Qed.
Lemma be_bytes_inj : forall n x y, be_bytes n x = be_bytes n y -> x < 256 ^ N.of_nat n -> y < 256 ^ N.of_nat n -> x = y.
Proof.
  unfold be_bytes. intros n x y H Hx Hy.
  assert (le_bytes n x = le_bytes n y) as H' by (rewrite <- (rev_involutive (le_bytes n x)), H, rev_involutive; reflexivity).
  apply le_bytes_inj in H'. rewrite !N.mod_small in H' by assumption. exact H'.
Qed.
Lemma be64_inj : forall x y, be64 x = be64 y -> x < 2 ^ 64 -> y < 2 ^ 64 -> x = y.
Proof. intros x y H Hx Hy. apply (be_bytes_inj 8); auto. Qed.

Lemma app_eq_len : forall (A : Type) (a a' b b' : list A), length a = length a' -> a ++ b = a' ++ b' -> a = a' /\ b = b'.
Proof.
  induction a; destruct a'; cbn; intros; try discriminate; auto.
  injection H0 as -> H0. injection H as H. destruct (IHa _ _ _ H H0) as [-> ->]. auto.
Qed.

Lemma beqb_refl : forall a, beqb a a = true.
Proof. induction a; cbn; auto. rewrite N.eqb_refl. auto. Qed.
Lemma beqb_eq : forall a b, beqb a b = true -> a = b.
Proof.
  induction a; destruct b; cbn; intros; try discriminate; auto.
  apply andb_prop in H as [H1 H2]. apply N.eqb_eq in H1. f_equal; auto.
Qed.

Lemma lxor_cancel : forall a b c, N.lxor a b = N.lxor a c -> b = c.
Proof.
  intros a b c H. assert (N.lxor a (N.lxor a b) = N.lxor a (N.lxor a c)) as H' by (rewrite H; reflexivity).
  rewrite <- !N.lxor_assoc, N.lxor_nilpotent, !N.lxor_0_l in H'. exact H'.
Qed.
Lemma bxor_inj : forall iv a b, length a = length b -> (length a <= length iv)%nat -> bxor iv a = bxor iv b -> a = b.
Proof.
  induction iv as [|i iv IH]; intros a b Hl Hle H.
  - destruct a; [destruct b; [auto | discriminate] | cbn in Hle; lia].
  - destruct a as [|x a], b as [|y b]; cbn in *; try discriminate; auto.
    injection H as H0 H1. apply lxor_cancel in H0. subst. f_equal. apply IH; auto; lia.
Qed.

Lemma sub_app_mid : forall (a b c : bytes), sub (a ++ b ++ c) (length a) (length b) = b.
Proof. intros. unfold sub. rewrite skipn_app, skipn_all, Nat.sub_diag. cbn [skipn app]. rewrite firstn_app, firstn_all, Nat.sub_diag. cbn. apply app_nil_r. Qed.

Lemma forallb_repeat : forall (f : N -> bool) x n, f x = true -> forallb f (repeat x n) = true.
Proof. induction n; cbn; intros; auto. rewrite H. auto. Qed.

Lemma nth_app_r' : forall (a b : bytes) i d, (length a <= i)%nat -> nth i (a ++ b) d = nth (i - length a) b d.
Proof. intros. apply app_nth2. lia. Qed.

Lemma nth_repeat_lt : forall (v d : N) n i, (i < n)%nat -> nth i (repeat v n) d = v.
Proof. induction n; intros; [lia|]. destruct i; cbn; auto. apply IHn. lia. Qed.

Lemma firstn_length_exact : forall (l : bytes) n, (n <= length l)%nat -> length (firstn n l) = n.
Proof. intros. rewrite firstn_length. lia. Qed.

Lemma firstn_app_exact : forall (a b : bytes) n, length a = n -> firstn n (a ++ b) = a.
Proof. intros. subst. rewrite firstn_app, firstn_all, Nat.sub_diag. cbn. apply app_nil_r. Qed.
Lemma skipn_app_exact : forall (a b : bytes) n, length a = n -> skipn n (a ++ b) = b.
Proof. intros. subst. rewrite skipn_app, skipn_all, Nat.sub_diag. reflexivity. Qed.

Ltac ubl := unfold blk, tagl, r_AES_BLOCKLEN, r_TLS_GCM_TAG_LEN, r_TLS_EXPLICIT_NONCE_LEN in *.

Section Proofs.
  Variable msz : nat.
  Variable cbc_enc cbc_dec : bytes -> bytes -> bytes -> bytes.
  Variable mac : bytes -> bytes -> bytes.
  Variable aead_seal : bytes -> bytes -> bytes -> bytes -> bytes.
  Variable aead_open : bytes -> bytes -> bytes -> bytes -> option bytes.

  (* contracts of the primitives used by the round-trip theorems (C12 ties the library's primitives to specifications
     that have these properties; here they are hypotheses) *)
  Hypothesis Hcbc_inv : forall k iv p, (length p mod blk = 0)%nat -> cbc_dec k iv (cbc_enc k iv p) = p.
  Hypothesis Hcbc_len : forall k iv p, length (cbc_enc k iv p) = length p.
  Hypothesis Hmac_len : forall k m, (msz <= length (mac k m))%nat.
  Hypothesis Haead_inv : forall k n a p, aead_open k n a (aead_seal k n a p) = Some p.
  Hypothesis Haead_len : forall k n a p, length (aead_seal k n a p) = (length p + tagl)%nat.

  Let open_cbc := open_cbc msz cbc_dec mac.
  Let seal_cbc := seal_cbc msz cbc_enc mac.
  Let cbc_view := cbc_view msz cbc_dec.

  (* ================================================================ round trip, CBC + HMAC *)
  Lemma hdr13_set_iv : forall s iv t n, hdr13 (set_iv s iv) t n = hdr13 s t n.
  Proof. reflexivity. Qed.

  Lemma pad_count_props : forall n, (1 <= pad_count n <= 16)%nat /\ ((n + pad_count n) mod 16 = 0)%nat.
  Proof.
    intros n. unfold pad_count. ubl.
    pose proof (Nat.mod_upper_bound n 16 ltac:(lia)).
    split; [lia|].
    rewrite (Nat.div_mod n 16) at 1 by lia.
    replace (16 * (n / 16) + n mod 16 + (16 - n mod 16))%nat with ((1 + n / 16) * 16)%nat by lia.
    apply Nat.mod_mul. lia.
  Qed.

  (* a record whose decryption is  IV-block || pt || MAC(seq, type, version, |pt|, pt) || pc bytes of value pc-1  is delivered,
     for EVERY padding length 1..256 that makes the length a block multiple (TLS allows up to 255 padding bytes) *)
  Lemma open_cbc_of_plain : forall s typ ct ivp pt pc,
    length ivp = ivl s -> (1 <= pc <= 256)%nat ->
    ((length ivp + length pt + msz + pc) mod blk = 0)%nat ->
    length ct = (length ivp + length pt + msz + pc)%nat ->
    cbc_dec (k_enc s) (k_iv s) ct =
      ivp ++ pt ++ firstn msz (mac (k_mac s) (hdr13 s typ (length pt) ++ pt)) ++ repeat (N.of_nat (pc - 1)) pc ->
    nlen pt <= maxfrag s ->
    open_cbc s typ ct = Deliver typ pt (bump (set_iv s (skipn (length ct - blk) ct))).
  Proof.
    intros s typ ct ivp pt pc Hivp Hpc Hmod Hct Hdec Hmax.
    remember (firstn msz (mac (k_mac s) (hdr13 s typ (length pt) ++ pt))) as m eqn:Em.
    remember (repeat (N.of_nat (pc - 1)) pc) as P eqn:EP.
    remember (ivp ++ pt ++ m ++ P) as plain eqn:Eplain.
    assert (length m = msz) as Hm by (subst m; apply firstn_length_exact, Hmac_len).
    assert (length P = pc) as HP by (subst P; apply repeat_length).
    assert (plain = (ivp ++ pt ++ m) ++ P) as Hsplit by (subst plain; rewrite <- !app_assoc; reflexivity).
    assert (length (ivp ++ pt ++ m) = (ivl s + length pt + msz)%nat) as HX by (rewrite !app_length; lia).
    assert (length plain = (ivl s + length pt + msz + pc)%nat) as Hlen by (rewrite Hsplit, app_length; lia).
    assert (length ct = length plain) as Hct' by lia.
    assert ((length plain mod blk)%nat = 0%nat) as Hblk by (rewrite Hlen, <- Hivp; exact Hmod).
    assert (RecModel.cbc_view msz cbc_dec s ct =
            CbcView (set_iv s (skipn (length plain - blk) ct)) false pt m) as Hview.
    { unfold RecModel.cbc_view.
      rewrite Hdec, Hct'.
      replace (length plain <? msz + 1 + ivl s)%nat with false by (symmetry; apply Nat.ltb_ge; lia).
      rewrite Hblk. cbn [Nat.eqb negb].
      rewrite Nat.eqb_refl. cbn [negb].
      assert (nth (length plain - 1) plain 0 = N.of_nat (pc - 1)) as Hlast.
      { rewrite Hsplit at 2. rewrite app_nth2 by lia.
        replace (length plain - 1 - length (ivp ++ pt ++ m))%nat with (pc - 1)%nat by lia.
        subst P. apply nth_repeat_lt; lia. }
      rewrite Hlast, Nat2N.id.
      replace (length plain <? msz + (pc - 1) + 1 + ivl s)%nat with false by (symmetry; apply Nat.ltb_ge; lia).
      assert (pad_bytes_ok plain (length plain) (pc - 1) = true) as Hpad.
      { unfold pad_bytes_ok.
        replace (length plain - (pc - 1) - 1)%nat with (length (ivp ++ pt ++ m)) by lia.
        replace (pc - 1 + 1)%nat with (length P) by lia.
        rewrite Hsplit. rewrite <- (app_nil_r P) at 1.
        rewrite sub_app_mid. subst P. apply forallb_repeat. apply N.eqb_refl. }
      rewrite Hpad. cbn [negb orb].
      replace (length plain - (pc - 1) - 1 - msz)%nat with (length ivp + length pt)%nat by lia.
      f_equal.
      - rewrite <- Hivp. replace (length ivp + length pt - length ivp)%nat with (length pt) by lia.
        subst plain. apply (sub_app_mid ivp pt (m ++ P)).
      - replace (sub plain (length ivp + length pt) msz) with (sub ((ivp ++ pt) ++ m ++ P) (length (ivp ++ pt)) (length m)).
        + apply sub_app_mid.
        + rewrite app_length, Hm. subst plain. rewrite <- !app_assoc. reflexivity. }
    unfold open_cbc, RecModel.open_cbc. rewrite Hview, Hct'.
    cbn [k_mac set_iv]. rewrite hdr13_set_iv. rewrite <- Em. rewrite beqb_refl. cbn [negb orb].
    replace (maxfrag s <? nlen pt) with false by (symmetry; apply N.ltb_ge; exact Hmax).
    reflexivity.
  Qed.

  Theorem roundtrip_cbc : forall s rnd typ pt,
    (expl s = true -> length rnd = blk) ->
    nlen pt <= maxfrag s ->
    open_cbc s typ (fst (seal_cbc s rnd typ pt)) = Deliver typ pt (snd (seal_cbc s rnd typ pt)).
  Proof.
    intros s rnd typ pt Hrnd Hmax.
    unfold seal_cbc, RecModel.seal_cbc. cbn [fst snd].
    match goal with |- context [cbc_enc _ _ (?X ++ pt ++ _)] => set (ivp := X) end.
    assert (length ivp = ivl s) as Hivp.
    { unfold ivp, ivl. destruct (expl s); auto. }
    clearbody ivp.
    set (pc := pad_count (length ivp + length pt + msz)).
    destruct (pad_count_props (length ivp + length pt + msz)) as [Hpc Hmod]. fold pc in Hpc, Hmod. clearbody pc.
    assert (forall m, length (ivp ++ pt ++ firstn msz (mac (k_mac s) m) ++ repeat (N.of_nat (pc - 1)) pc) = (length ivp + length pt + msz + pc)%nat) as HL.
    { intros m. rewrite !app_length, repeat_length, firstn_length_exact by apply Hmac_len. lia. }
    apply open_cbc_of_plain with (ivp := ivp) (pc := pc).
    - exact Hivp.
    - lia.
    - exact Hmod.
    - rewrite Hcbc_len. apply HL.
    - apply Hcbc_inv. rewrite HL. exact Hmod.
    - exact Hmax.
  Qed.

  (* ================================================================ round trip, AEAD families *)
  Let open_gcm12 := open_gcm12 aead_open.
  Let seal_gcm12 := seal_gcm12 aead_seal.
  Let open_chacha12 := open_chacha12 aead_open.
  Let seal_chacha12 := seal_chacha12 aead_seal.
  Let open_tls13 := open_tls13 aead_open.
  Let seal_tls13 := seal_tls13 aead_seal.

  Theorem roundtrip_gcm12 : forall s typ pt,
    (1 <= length pt)%nat -> nlen pt <= maxfrag s ->
    open_gcm12 s typ (fst (seal_gcm12 s typ pt)) = Deliver typ pt (snd (seal_gcm12 s typ pt)).
  Proof.
    intros s typ pt H1 Hmax.
    unfold seal_gcm12, RecModel.seal_gcm12, open_gcm12, RecModel.open_gcm12. cbn [fst snd].
    set (sealed := aead_seal (k_enc s) (firstn 4 (k_iv s) ++ be64 (seqn s)) (hdr13 s typ (length pt)) pt).
    assert (length sealed = (length pt + 16)%nat) as Hs by apply Haead_len.
    rewrite app_length, be64_length, Hs. ubl.
    replace (8 + (length pt + 16) <? 25)%nat with false by (symmetry; apply Nat.ltb_ge; lia).
    replace (8 + (length pt + 16) - 8 - 16)%nat with (length pt) by lia.
    rewrite firstn_app_exact by apply be64_length.
    rewrite skipn_app_exact by apply be64_length.
    unfold sealed. rewrite Haead_inv. rewrite Nat.eqb_refl. cbn [negb].
    replace (maxfrag s <? nlen pt) with false by (symmetry; apply N.ltb_ge; exact Hmax).
    reflexivity.
  Qed.

  Theorem roundtrip_chacha12 : forall s typ pt,
    nlen pt <= maxfrag s ->
    open_chacha12 s typ (fst (seal_chacha12 s typ pt)) = Deliver typ pt (snd (seal_chacha12 s typ pt)).
  Proof.
    intros s typ pt Hmax.
    unfold seal_chacha12, RecModel.seal_chacha12, open_chacha12, RecModel.open_chacha12. cbn [fst snd].
    rewrite Haead_len.
    replace (length pt + tagl <? tagl)%nat with false by (symmetry; apply Nat.ltb_ge; lia).
    replace (length pt + tagl - tagl)%nat with (length pt) by lia.
    rewrite Haead_inv, Nat.eqb_refl. cbn [negb].
    replace (maxfrag s <? nlen pt) with false by (symmetry; apply N.ltb_ge; exact Hmax).
    reflexivity.
  Qed.

  Lemma scan_back_inner : forall pt typ pad k, typ <> 0 -> (k <= pad)%nat ->
    scan_back (pt ++ [typ] ++ repeat 0 pad) (length pt + k) = length pt.
  Proof.
    intros pt typ pad k Ht. induction k; intros Hk.
    - rewrite Nat.add_0_r. destruct (length pt) eqn:E; [reflexivity|].
      cbn [scan_back]. rewrite <- E. rewrite app_nth2 by lia. rewrite Nat.sub_diag. cbn [nth app].
      destruct (N.eqb_spec typ 0); [contradiction|reflexivity].
    - replace (length pt + S k)%nat with (S (length pt + k)) by lia. cbn [scan_back].
      rewrite app_nth2 by lia. replace (S (length pt + k) - length pt)%nat with (S k) by lia.
      cbn [app nth]. rewrite nth_repeat_lt by lia. cbn. apply IHk. lia.
  Qed.

  Theorem roundtrip_tls13 : forall gcm s pad typ pt,
    typ <> 0 -> (1 <= length pt)%nat -> nlen pt <= rn_TLS_1_3_MAX_PLAINTEXT_FRAGMENT_LEN ->
    open_tls13 gcm s 23 3 3 (fst (seal_tls13 s pad typ pt)) = Deliver typ pt (snd (seal_tls13 s pad typ pt)).
  Proof.
    intros gcm s pad typ pt Ht H1 Hmax.
    unfold seal_tls13, RecModel.seal_tls13, open_tls13, RecModel.open_tls13. cbn [fst snd].
    set (inner := pt ++ [typ] ++ repeat 0 pad).
    assert (length inner = S (length pt + pad)) as Hin.
    { unfold inner. rewrite !app_length, repeat_length. cbn. lia. }
    rewrite Haead_len.
    replace (if gcm then (length inner + tagl <=? tagl)%nat else (length inner + tagl <? tagl)%nat) with false
      by (destruct gcm; symmetry; [apply Nat.leb_gt | apply Nat.ltb_ge]; lia).
    rewrite Haead_inv.
    replace (length inner + tagl - tagl)%nat with (length inner) by lia.
    rewrite Nat.eqb_refl. cbn [negb]. rewrite Hin.
    unfold inner. rewrite scan_back_inner by (auto; lia).
    replace (length pt =? 0)%nat with false by (symmetry; apply Nat.eqb_neq; lia).
    replace (rn_TLS_1_3_MAX_PLAINTEXT_FRAGMENT_LEN <? N.of_nat (length pt)) with false by (symmetry; apply N.ltb_ge; exact Hmax).
    f_equal.
    - rewrite app_nth2 by lia. rewrite Nat.sub_diag. reflexivity.
    - rewrite firstn_app, firstn_all, Nat.sub_diag. cbn. apply app_nil_r.
  Qed.

  (* ================================================================ CBC: padding and MAC failures are one and the same answer *)
  Lemma cbc_view_state : forall s body s1 e d v,
    cbc_view s body = CbcView s1 e d v -> s1 = set_iv s (skipn (length body - blk) body).
  Proof.
    intros s body s1 e d v. unfold cbc_view, RecModel.cbc_view.
    destruct (length body <? msz + 1 + ivl s)%nat; [discriminate|].
    destruct (negb (length body mod blk =? 0)%nat); [discriminate|].
    destruct (negb (length (cbc_dec (k_enc s) (k_iv s) body) =? length body)%nat); [discriminate|].
    intros H. injection H as <- _ _ _. reflexivity.
  Qed.

  Theorem pad_mac_uniform : forall s typ body s1 macError data macv,
    cbc_view s body = CbcView s1 macError data macv ->
    macError = true \/ beqb (firstn msz (mac (k_mac s) (hdr13 s typ (length data) ++ data))) macv = false ->
    open_cbc s typ body = Fatal c_SSL_ALERT_BAD_RECORD_MAC (bump (set_iv s (skipn (length body - blk) body))).
  Proof.
    intros s typ body s1 e d v Hv Hfail.
    pose proof (cbc_view_state _ _ _ _ _ _ Hv) as ->.
    unfold open_cbc, RecModel.open_cbc. fold cbc_view. rewrite Hv. cbn [k_mac set_iv]. rewrite hdr13_set_iv.
    destruct Hfail as [-> | ->]; [rewrite orb_true_r | cbn [negb orb]]; reflexivity.
  Qed.

  (* exact statement of where the CBC sequence number moves: in every MAC computation, whatever its verdict *)
  Theorem cbc_seq_advance : forall s typ body,
    match cbc_view s body with
    | CbcView _ _ _ _ =>
        (exists a, open_cbc s typ body = Fatal a (bump (set_iv s (skipn (length body - blk) body)))) \/
        (exists pt, open_cbc s typ body = Deliver typ pt (bump (set_iv s (skipn (length body - blk) body))))
    | CbcBadDec => open_cbc s typ body = Fault
    | _ => exists a, open_cbc s typ body = Fatal a s
    end.
  Proof.
    intros s typ body. destruct (cbc_view s body) eqn:Hv.
    - eexists. unfold open_cbc, RecModel.open_cbc. fold cbc_view. rewrite Hv. reflexivity.
    - eexists. unfold open_cbc, RecModel.open_cbc. fold cbc_view. rewrite Hv. reflexivity.
    - unfold open_cbc, RecModel.open_cbc. fold cbc_view. rewrite Hv. reflexivity.
    - pose proof (cbc_view_state _ _ _ _ _ _ Hv) as ->.
      unfold open_cbc, RecModel.open_cbc. fold cbc_view. rewrite Hv.
      destruct (negb _ || macError); [left; eexists; reflexivity|].
      destruct (maxfrag s <? nlen data); [left; eexists; reflexivity | right; eexists; reflexivity].
  Qed.

  (* ================================================================ what an accepted record was authenticated over *)
  Let verified_cbc := verified_cbc msz cbc_dec mac.
  Let verified_gcm12 := verified_gcm12 aead_open.
  Let verified_chacha12 := verified_chacha12 aead_open.
  Let verified_tls13 := verified_tls13 aead_open.

  Theorem binds_cbc : forall s typ body t pt s',
    open_cbc s typ body = Deliver t pt s' ->
    t = typ /\ s' = bump (set_iv s (skipn (length body - blk) body)) /\
    verified_cbc s typ body = Some ([], hdr13 s typ (length pt), pt).
  Proof.
    intros s typ body t pt s'. unfold open_cbc, RecModel.open_cbc, verified_cbc, RecModel.verified_cbc. fold cbc_view.
    destruct (cbc_view s body) eqn:Hv; try discriminate.
    pose proof (cbc_view_state _ _ _ _ _ _ Hv) as ->. cbn [k_mac set_iv]. rewrite hdr13_set_iv.
    destruct (beqb _ macv) eqn:Hb; cbn [negb orb]; [|discriminate].
    destruct macError; [discriminate|].
    destruct (maxfrag s <? nlen data); [discriminate|].
    intros H. injection H as <- <- <-. auto.
  Qed.

  (* and what "verified" means in bytes: somewhere in the decrypted record sits the MAC of  seq || type || version || length || data *)
  Theorem verified_cbc_meaning : forall s typ body n h d,
    verified_cbc s typ body = Some (n, h, d) ->
    n = [] /\ h = be64 (seqn s) ++ [typ; vmaj s; vmin s] ++ be16 (N.of_nat (length d)) /\
    exists off, sub (cbc_dec (k_enc s) (k_iv s) body) off msz = firstn msz (mac (k_mac s) (h ++ d)).
  Proof.
    intros s typ body n h d. unfold verified_cbc, RecModel.verified_cbc. fold cbc_view.
    destruct (cbc_view s body) eqn:Hv; try discriminate.
    pose proof (cbc_view_state _ _ _ _ _ _ Hv) as ->. cbn [k_mac set_iv]. rewrite hdr13_set_iv.
    destruct (beqb _ macv) eqn:Hb; [|discriminate].
    intros H. injection H as <- <- <-. split; [reflexivity|]. split; [reflexivity|].
    apply beqb_eq in Hb.
    revert Hv. unfold cbc_view, RecModel.cbc_view.
    destruct (length body <? msz + 1 + ivl s)%nat; [discriminate|].
    destruct (negb (length body mod blk =? 0)%nat); [discriminate|].
    destruct (negb (length (cbc_dec (k_enc s) (k_iv s) body) =? length body)%nat); [discriminate|].
    intros H. injection H as _ _ Hm. eexists. rewrite Hm. symmetry. exact Hb.
  Qed.

  Theorem binds_gcm12 : forall s typ body t pt s',
    open_gcm12 s typ body = Deliver t pt s' ->
    t = typ /\ s' = bump s /\
    verified_gcm12 s typ body = Some (firstn 4 (k_iv s) ++ firstn 8 body, hdr13 s typ (length pt), pt) /\
    aead_open (k_enc s) (firstn 4 (k_iv s) ++ firstn 8 body)
              (be64 (seqn s) ++ [typ; vmaj s; vmin s] ++ be16 (N.of_nat (length pt))) (skipn 8 body) = Some pt.
  Proof.
    intros s typ body t pt s'. unfold open_gcm12, RecModel.open_gcm12, verified_gcm12, RecModel.verified_gcm12.
    destruct (length body <? 25)%nat; [discriminate|].
    change r_TLS_EXPLICIT_NONCE_LEN with 8%nat.
    destruct (aead_open _ _ _ _) as [p|] eqn:Ho; [|discriminate].
    destruct (length p =? length body - 8 - tagl)%nat eqn:El; cbn [negb]; [|discriminate].
    apply Nat.eqb_eq in El.
    destruct (maxfrag s <? nlen p); [discriminate|].
    intros H. injection H as <- <- <-. rewrite El. auto.
  Qed.

  Theorem binds_chacha12 : forall s typ body t pt s',
    open_chacha12 s typ body = Deliver t pt s' ->
    t = typ /\ s' = bump s /\
    verified_chacha12 s typ body = Some (nonce_xor s, hdr13 s typ (length pt), pt) /\
    aead_open (k_enc s) (nonce_xor s) (be64 (seqn s) ++ [typ; vmaj s; vmin s] ++ be16 (N.of_nat (length pt))) body = Some pt.
  Proof.
    intros s typ body t pt s'. unfold open_chacha12, RecModel.open_chacha12, verified_chacha12, RecModel.verified_chacha12.
    destruct (length body <? tagl)%nat; [discriminate|].
    destruct (aead_open _ _ _ _) as [p|] eqn:Ho; [|discriminate].
    destruct (length p =? length body - tagl)%nat eqn:El; cbn [negb]; [|discriminate].
    apply Nat.eqb_eq in El.
    destruct (maxfrag s <? nlen p); [discriminate|].
    intros H. injection H as <- <- <-. rewrite El. auto.
  Qed.

  (* TLS 1.3: the additional data is the header as received; type and content are read out of the authenticated inner plaintext *)
  Theorem binds_tls13 : forall gcm s typ maj min body t pt s',
    open_tls13 gcm s typ maj min body = Deliver t pt s' ->
    s' = bump s /\
    exists ip i,
      aead_open (k_enc s) (nonce_xor s) ([typ; maj; min] ++ be16 (N.of_nat (length body))) body = Some ip /\
      verified_tls13 gcm s typ maj min body = Some (nonce_xor s, aad13 typ maj min (length body), ip) /\
      i = scan_back ip (length ip - 1) /\ i <> 0%nat /\ t = nth i ip 0 /\ pt = firstn i ip.
  Proof.
    intros gcm s typ maj min body t pt s'. unfold open_tls13, RecModel.open_tls13, verified_tls13, RecModel.verified_tls13.
    destruct (if gcm then _ else _); [discriminate|].
    destruct (aead_open _ _ _ _) as [ip|] eqn:Ho; [|discriminate].
    destruct (negb _); [discriminate|].
    destruct (length ip) as [|last] eqn:El; [discriminate|].
    destruct (scan_back ip last =? 0)%nat eqn:E0; [discriminate|].
    destruct (_ <? _); [discriminate|].
    intros H. injection H as <- <- <-. split; [reflexivity|].
    exists ip, (scan_back ip last). rewrite El. replace (S last - 1)%nat with last by lia.
    apply Nat.eqb_neq in E0. repeat split; auto.
  Qed.

  (* ================================================================ AEAD: the sequence number moves only when the tag verified *)
  Theorem aead_seq_gcm12 : forall s typ body,
    (verified_gcm12 s typ body = None -> exists a, open_gcm12 s typ body = Fatal a s) /\
    (forall a s', open_gcm12 s typ body = Fatal a s' -> s' = s \/ (a = c_SSL_ALERT_RECORD_OVERFLOW /\ s' = bump s /\ verified_gcm12 s typ body <> None)).
  Proof.
    intros s typ body. unfold open_gcm12, RecModel.open_gcm12, verified_gcm12, RecModel.verified_gcm12.
    destruct (length body <? 25)%nat.
    - split; [eexists; reflexivity|]. intros a s' H. injection H as _ <-. auto.
    - destruct (aead_open _ _ _ _) as [p|].
      + split; [discriminate|]. intros a s'. destruct (negb _); [discriminate|].
        destruct (_ <? _); [|discriminate]. intros H. injection H as <- <-. right. repeat split. discriminate.
      + split; [eexists; reflexivity|]. intros a s' H. injection H as _ <-. auto.
  Qed.
  Theorem aead_seq_chacha12 : forall s typ body,
    (verified_chacha12 s typ body = None -> exists a, open_chacha12 s typ body = Fatal a s) /\
    (forall a s', open_chacha12 s typ body = Fatal a s' -> s' = s \/ (a = c_SSL_ALERT_RECORD_OVERFLOW /\ s' = bump s /\ verified_chacha12 s typ body <> None)).
  Proof.
    intros s typ body. unfold open_chacha12, RecModel.open_chacha12, verified_chacha12, RecModel.verified_chacha12.
    destruct (length body <? tagl)%nat.
    - split; [eexists; reflexivity|]. intros a s' H. injection H as _ <-. auto.
    - destruct (aead_open _ _ _ _) as [p|].
      + split; [discriminate|]. intros a s'. destruct (negb _); [discriminate|].
        destruct (_ <? _); [|discriminate]. intros H. injection H as <- <-. right. repeat split. discriminate.
      + split; [eexists; reflexivity|]. intros a s' H. injection H as _ <-. auto.
  Qed.
  Theorem aead_seq_tls13 : forall gcm s typ maj min body,
    (verified_tls13 gcm s typ maj min body = None -> open_tls13 gcm s typ maj min body = Fatal c_SSL_ALERT_BAD_RECORD_MAC s) /\
    (forall a s', open_tls13 gcm s typ maj min body = Fatal a s' ->
       s' = s \/ (s' = bump s /\ verified_tls13 gcm s typ maj min body <> None /\
                  (a = c_SSL_ALERT_UNEXPECTED_MESSAGE \/ a = c_SSL_ALERT_RECORD_OVERFLOW))).
  Proof.
    intros gcm s typ maj min body. unfold open_tls13, RecModel.open_tls13, verified_tls13, RecModel.verified_tls13.
    destruct (if gcm then _ else _).
    - split; [reflexivity|]. intros a s' H. injection H as _ <-. auto.
    - destruct (aead_open _ _ _ _) as [ip|].
      + split; [discriminate|]. intros a s'. destruct (negb _); [discriminate|].
        destruct (length ip); [discriminate|].
        destruct (_ =? 0)%nat.
        * intros H. injection H as <- <-. right. repeat split; [discriminate | auto].
        * destruct (_ <? _); [|discriminate]. intros H. injection H as <- <-. right. repeat split; [discriminate | auto].
      + split; [reflexivity|]. intros a s' H. injection H as _ <-. auto.
  Qed.

  (* ================================================================ the stream theorem *)
  Let open_rec := open_rec msz cbc_dec mac aead_open.
  Let verified_rec := verified_rec msz cbc_dec mac aead_open.
  Let recv := recv msz cbc_dec mac aead_open.
  Let no_forgery := no_forgery msz cbc_dec mac aead_open.

  Definition static_eq (f : family) (r s0 : rst) : Prop :=
    k_enc r = k_enc s0 /\ k_mac r = k_mac s0 /\ vmaj r = vmaj s0 /\ vmin r = vmin s0 /\ expl r = expl s0 /\
    maxfrag r = maxfrag s0 /\ (f <> FCbc -> k_iv r = k_iv s0).
  Definition iv_ok (f : family) (s : rst) : Prop :=
    match f with FCbc | FGcm12 => True | _ => length (k_iv s) = 12%nat end.

  Lemma static_eq_bump : forall f r s0, static_eq f r s0 -> static_eq f (bump r) s0.
  Proof. intros f r s0 H. exact H. Qed.
  Lemma static_eq_bump_iv : forall r s0 iv, static_eq FCbc r s0 -> static_eq FCbc (bump (set_iv r iv)) s0.
  Proof. intros r s0 iv (H1 & H2 & H3 & H4 & H5 & H6 & H7). repeat split; auto. intros C; contradiction C; reflexivity. Qed.

  Lemma hdr13_inj : forall r s0 q typ n (m : msg),
    vmaj r = vmaj s0 -> vmin r = vmin s0 -> seqn r < 2 ^ 64 -> q < 2 ^ 64 ->
    hdr13 r typ n = hdr13 (set_seq s0 q) (m_typ m) (length (m_pt m)) -> q = seqn r /\ typ = m_typ m.
  Proof.
    intros r s0 q typ n m Hma Hmi Hr Hq H. unfold hdr13 in H. cbn [seqn set_seq vmaj vmin] in H.
    apply app_eq_len in H; [|rewrite !be64_length; reflexivity]. destruct H as [H1 H2].
    apply be64_inj in H1; auto. injection H2 as H2 _. auto.
  Qed.

  Lemma valid_type_nz : forall t, valid_type t = true -> t <> 0.
  Proof. intros t H ->. discriminate H. Qed.

  Lemma nonce_xor_inj : forall r s0 q, k_iv r = k_iv s0 -> length (k_iv s0) = 12%nat -> seqn r < 2 ^ 64 -> q < 2 ^ 64 ->
    nonce_xor r = nonce_xor (set_seq s0 q) -> q = seqn r.
  Proof.
    intros r s0 q Hiv Hl Hr Hq H. unfold nonce_xor in H. cbn [k_iv set_seq seqn] in H. rewrite Hiv in H.
    apply bxor_inj in H.
    - apply (app_inv_head (repeat 0 4)) in H. apply be64_inj in H; auto.
    - rewrite !app_length, !be64_length. reflexivity.
    - rewrite app_length, be64_length, Hl. cbn. lia.
  Qed.

  (* one delivered record: the state stays in step, and IF the tuple the check succeeded on is an honest tuple for some
     sequence number q and message m, then q is the receiver's own sequence number and what was delivered is m *)
  Lemma step_deliver : forall f r s0 w t pt r',
    static_eq f r s0 -> iv_ok f s0 -> seqn r < 2 ^ 64 ->
    open_rec f r w = Deliver t pt r' ->
    static_eq f r' s0 /\ seqn r' = (seqn r + 1) mod 2 ^ 64 /\
    exists a, verified_rec f r w = Some a /\
      forall q m, q < 2 ^ 64 -> wf_msg m -> a = tuple f (set_seq s0 q) m -> q = seqn r /\ (t, pt) = content m.
  Proof.
    intros f r s0 w t pt r' Hst Hiv Hr.
    pose proof Hst as (Hk & Hmk & Hma & Hmi & Hex & Hmf & Hivs).
    unfold open_rec, RecModel.open_rec, verified_rec, RecModel.verified_rec.
    destruct (is13 f) eqn:E13.
    - (* TLS 1.3 *)
      unfold open13.
      destruct (_ || _); [discriminate|].
      destruct (negb (valid_type (w_typ w))); [discriminate|].
      destruct (w_typ w =? 20); [destruct (beqb _ _); discriminate|].
      destruct (_ && _); [discriminate|].
      intros H. apply binds_tls13 in H. destruct H as (-> & ip & i & Ho & Hv & Hi & Hnz & -> & ->).
      split; [apply static_eq_bump; exact Hst|]. split; [reflexivity|].
      exists (nonce_xor r, aad13 (w_typ w) (w_maj w) (w_min w) (length (w_body w)), ip).
      split; [exact Hv|].
      intros q m Hq Hwf Ha.
      assert (f <> FCbc) as Hne by (intros ->; discriminate E13).
      assert (length (k_iv s0) = 12%nat) as Hl by (destruct f; try discriminate E13; exact Hiv).
      assert (tuple f (set_seq s0 q) m =
              (nonce_xor (set_seq s0 q), aad13 23 3 3 (length (m_pt m ++ [m_typ m] ++ repeat 0 (m_pad m)) + tagl),
               m_pt m ++ [m_typ m] ++ repeat 0 (m_pad m))) as Ht by (destruct f; try discriminate E13; reflexivity).
      rewrite Ht in Ha.
      pose proof (f_equal (fun x => fst (fst x)) Ha) as Hn. pose proof (f_equal snd Ha) as Hip. cbn [fst snd] in Hn, Hip.
      apply nonce_xor_inj in Hn; auto. split; [exact Hn|].
      subst ip. unfold content.
      assert (length (m_pt m ++ [m_typ m] ++ repeat 0%N (m_pad m)) - 1 = length (m_pt m) + m_pad m)%nat as Hlen
        by (rewrite !app_length, repeat_length; cbn; lia).
      rewrite Hlen in Hi. rewrite scan_back_inner in Hi by (try apply valid_type_nz; auto; lia). subst i.
      f_equal.
      + rewrite app_nth2 by lia. rewrite Nat.sub_diag. reflexivity.
      + apply firstn_app_exact. reflexivity.
    - (* TLS <= 1.2 *)
      unfold open12.
      destruct (negb (valid_type (w_typ w))); [discriminate|].
      destruct (negb _); [discriminate|].
      destruct (_ || _); [discriminate|].
      destruct f; try discriminate E13.
      + intros H. apply binds_cbc in H. destruct H as (-> & -> & Hv).
        split; [apply static_eq_bump_iv; exact Hst|]. split; [reflexivity|].
        eexists. split; [exact Hv|].
        intros q m Hq Hwf Ha. cbn [tuple] in Ha. pose proof (f_equal (fun x => snd (fst x)) Ha) as Hh. pose proof (f_equal snd Ha) as Hp. cbn [fst snd] in Hh, Hp.
        apply hdr13_inj in Hh; auto. destruct Hh as [-> ->]. subst pt. auto.
      + intros H. apply binds_gcm12 in H. destruct H as (-> & -> & Hv & _).
        split; [apply static_eq_bump; exact Hst|]. split; [reflexivity|].
        eexists. split; [exact Hv|].
        intros q m Hq Hwf Ha. cbn [tuple] in Ha. pose proof (f_equal (fun x => snd (fst x)) Ha) as Hh. pose proof (f_equal snd Ha) as Hp. cbn [fst snd] in Hh, Hp.
        apply hdr13_inj in Hh; auto. destruct Hh as [-> ->]. subst pt. auto.
      + intros H. apply binds_chacha12 in H. destruct H as (-> & -> & Hv & _).
        split; [apply static_eq_bump; exact Hst|]. split; [reflexivity|].
        eexists. split; [exact Hv|].
        intros q m Hq Hwf Ha. cbn [tuple] in Ha. pose proof (f_equal (fun x => snd (fst x)) Ha) as Hh. pose proof (f_equal snd Ha) as Hp. cbn [fst snd] in Hh, Hp.
        apply hdr13_inj in Hh; auto. destruct Hh as [-> ->]. subst pt. auto.
  Qed.

  Lemma not_skip_cbc : forall s t b r', open_cbc s t b <> Skip r'.
  Proof.
    intros s t b r'. unfold open_cbc, RecModel.open_cbc. destruct (RecModel.cbc_view _ _ _ _); try discriminate.
    destruct (_ || _); [discriminate|]. destruct (_ <? _); discriminate.
  Qed.
  Lemma not_skip_gcm12 : forall s t b r', open_gcm12 s t b <> Skip r'.
  Proof.
    intros s t b r'. unfold open_gcm12, RecModel.open_gcm12. destruct (_ <? _)%nat; [discriminate|].
    destruct (aead_open _ _ _ _); [|discriminate]. destruct (negb _); [discriminate|]. destruct (_ <? _); discriminate.
  Qed.
  Lemma not_skip_chacha12 : forall s t b r', open_chacha12 s t b <> Skip r'.
  Proof.
    intros s t b r'. unfold open_chacha12, RecModel.open_chacha12. destruct (_ <? _)%nat; [discriminate|].
    destruct (aead_open _ _ _ _); [|discriminate]. destruct (negb _); [discriminate|]. destruct (_ <? _); discriminate.
  Qed.
  Lemma not_skip_tls13 : forall gcm s t ma mi b r', open_tls13 gcm s t ma mi b <> Skip r'.
  Proof.
    intros gcm s t ma mi b r'. unfold open_tls13, RecModel.open_tls13.
    destruct (if gcm then _ else _); [discriminate|].
    destruct (aead_open _ _ _ _) as [ip|]; [|discriminate].
    destruct (negb _); [discriminate|]. destruct (length ip); [discriminate|].
    destruct (_ =? 0)%nat; [discriminate|]. destruct (_ <? _); discriminate.
  Qed.

  Lemma step_skip : forall f r w r', open_rec f r w = Skip r' -> r' = r.
  Proof.
    intros f r w r'. unfold open_rec, RecModel.open_rec. destruct (is13 f).
    - unfold open13.
      destruct (_ || _); [discriminate|].
      destruct (negb _); [discriminate|].
      destruct (w_typ w =? 20).
      + destruct (beqb _ _); [|discriminate]. intros H. injection H as <-. reflexivity.
      + destruct (_ && _); [discriminate|]. intros H. apply not_skip_tls13 in H. contradiction.
    - unfold open12.
      destruct (negb _); [discriminate|]. destruct (negb _); [discriminate|]. destruct (_ || _); [discriminate|].
      destruct f; intros H;
        first [apply not_skip_cbc in H | apply not_skip_gcm12 in H | apply not_skip_chacha12 in H]; contradiction.
  Qed.

  Lemma in_sent_from : forall f s0 ms q a, In a (sent_from f s0 q ms) ->
    exists i m, nth_error ms i = Some m /\ a = tuple f (set_seq s0 (q + N.of_nat i)) m.
  Proof.
    intros f s0 ms. induction ms as [|m ms IH]; intros q a H; [contradiction|].
    cbn [sent_from] in H. destruct H as [<- | H].
    - exists 0%nat, m. rewrite N.add_0_r. auto.
    - apply IH in H. destruct H as (i & m' & Hn & ->). exists (S i), m'. split; [exact Hn|].
      rewrite Nat2N.inj_succ. f_equal. f_equal. lia.
  Qed.

  Lemma prefix_nil : forall (A : Type) (l : list A), prefix [] l.
  Proof. intros. exists l. reflexivity. Qed.
  Lemma prefix_cons : forall (A : Type) (x : A) a b, prefix a b -> prefix (x :: a) (x :: b).
  Proof. intros A x a b [c ->]. exists c. reflexivity. Qed.

  Lemma prefix_run : forall f s0 ms,
    iv_ok f s0 -> seqn s0 + N.of_nat (length ms) < 2 ^ 64 -> Forall wf_msg ms ->
    forall ws r j,
      static_eq f r s0 -> seqn r = seqn s0 + N.of_nat j -> (j <= length ms)%nat ->
      no_forgery f (sent_from f s0 (seqn s0) ms) r ws ->
      prefix (recv f r ws) (map content (skipn j ms)).
  Proof.
    intros f s0 ms Hiv Hwrap Hwf. induction ws as [|w ws IH]; intros r j Hst Hseq Hj Hnf.
    - apply prefix_nil.
    - cbn [RecSpec.recv recv]. cbn [RecSpec.no_forgery no_forgery] in Hnf. destruct Hnf as [Hunf Hrest].
      unfold recv, RecSpec.recv. fold (RecSpec.recv msz cbc_dec mac aead_open). fold recv.
      change (RecModel.open_rec msz cbc_dec mac aead_open f r w) with (open_rec f r w) in *.
      change (RecModel.verified_rec msz cbc_dec mac aead_open f r w) with (verified_rec f r w) in *.
      destruct (open_rec f r w) as [t pt r' | | r' | |] eqn:Ho; try apply prefix_nil.
      + assert (seqn r < 2 ^ 64) as Hr by lia.
        destruct (step_deliver f r s0 w t pt r' Hst Hiv Hr Ho) as (Hst' & Hseq' & a & Hv & Hmatch).
        specialize (Hunf a Hv). apply in_sent_from in Hunf. destruct Hunf as (i & m & Hnth & Ha).
        assert (i < length ms)%nat as Hi by (apply nth_error_Some; rewrite Hnth; discriminate).
        assert (wf_msg m) as Hwm by (rewrite Forall_forall in Hwf; apply Hwf; eapply nth_error_In; eauto).
        destruct (Hmatch (seqn s0 + N.of_nat i) m ltac:(lia) Hwm Ha) as [Hq Hc].
        assert (i = j) by lia. subst i.
        assert (skipn j ms = m :: skipn (S j) ms) as Hsk.
        { clear - Hnth. revert ms Hnth. induction j; intros ms Hnth; destruct ms; try discriminate; cbn in *.
          - injection Hnth as ->. reflexivity.
          - apply IHj. exact Hnth. }
        rewrite Hsk. cbn [map]. rewrite <- Hc. apply prefix_cons.
        apply IH; auto.
        * rewrite Hseq', Hseq. rewrite N.mod_small by lia. lia.
      + apply step_skip in Ho. subst r'. apply IH; auto.
  Qed.

  Theorem prefix_theorem : forall f, c02_prefix_statement msz cbc_dec mac aead_open f.
  Proof.
    intros f s ms ws (Hwrap & Hwf & Hiv) Hnf.
    replace (map content ms) with (map content (skipn 0 ms)) by reflexivity.
    apply (prefix_run f s ms); auto.
    - repeat split; auto.
    - cbn. lia.
    - lia.
  Qed.

  (* ================================================================ DTLS: whatever is delivered is a datagram the peer sent *)
  Theorem dtls_identical : forall f, c02_dtls_identical_statement msz cbc_dec mac aead_open f.
  Proof.
    intros f s sent rsn w t pt s' H13 Hrsn Hsent Hiv Hunf Ho.
    unfold open_dtls in Ho. unfold verified_dtls in Hunf.
    assert (static_eq f (set_seq s rsn) s) as Hst by (repeat split; auto).
    assert (iv_ok f s) as Hiv' by (destruct f; auto).
    destruct (step_deliver f (set_seq s rsn) s w t pt s' Hst Hiv' Hrsn Ho) as (_ & _ & a & Hv & Hmatch).
    specialize (Hunf a Hv). apply in_map_iff in Hunf. destruct Hunf as ((q & m) & Ha & Hin). cbn [fst snd] in Ha.
    rewrite Forall_forall in Hsent. destruct (Hsent _ Hin) as [Hq Hwm]. cbn [fst snd] in Hq, Hwm.
    destruct (Hmatch q m Hq Hwm (eq_sym Ha)) as [-> Hc]. cbn [seqn set_seq] in Hin.
    exists m. auto.
  Qed.

  (* ================================================================ TLS 1.3: the header bytes are authenticated (after the fix) *)
  Theorem tls13_header_authenticated : forall gcm s typ maj min body t pt s' (sent : list amsg),
    (forall a, verified_tls13 gcm s typ maj min body = Some a -> In a sent) ->
    (forall a, In a sent -> exists n, snd (fst a) = aad13 23 3 3 n) ->
    open_tls13 gcm s typ maj min body = Deliver t pt s' ->
    typ = 23 /\ maj = 3 /\ min = 3.
  Proof.
    intros gcm s typ maj min body t pt s' sent Hunf Hsent Ho.
    apply binds_tls13 in Ho. destruct Ho as (_ & ip & i & _ & Hv & _).
    apply Hunf in Hv. apply Hsent in Hv. destruct Hv as [n Hn]. cbn [fst snd] in Hn.
    unfold aad13 in Hn. cbn [app] in Hn. injection Hn as -> -> ->. auto.
  Qed.
  (* ... and were not before it: the original receiver does not look at them at all *)
  Theorem tls13_orig_header_ignored : forall gcm s typ maj min body,
    open_tls13_orig aead_open gcm s typ maj min body = open_tls13_orig aead_open gcm s 23 3 3 body.
  Proof. reflexivity. Qed.
  Theorem tls13_orig_header_malleable : forall gcm s pad typ pt t' maj' min',
    typ <> 0 -> (1 <= length pt)%nat -> nlen pt <= rn_TLS_1_3_MAX_PLAINTEXT_FRAGMENT_LEN ->
    open_tls13_orig aead_open gcm s t' maj' min' (fst (seal_tls13 s pad typ pt)) = Deliver typ pt (snd (seal_tls13 s pad typ pt)).
  Proof. intros. unfold open_tls13_orig. apply roundtrip_tls13; auto. Qed.


  (* ================================================================ TLS 1.3 record padding (RFC 8446 5.4), receive side:
     whatever verified inner plaintext  content || type || 0^pad  arrives - ANY number of zeros - exactly the content is delivered *)
  Theorem tls13_strips_all_padding : forall gcm s typ maj min body pt ty pad,
    aead_open (k_enc s) (nonce_xor s) (aad13 typ maj min (length body)) body = Some (pt ++ [ty] ++ repeat 0 pad) ->
    length body = (length pt + 1 + pad + tagl)%nat ->
    ty <> 0 -> (1 <= length pt)%nat -> nlen pt <= rn_TLS_1_3_MAX_PLAINTEXT_FRAGMENT_LEN ->
    open_tls13 gcm s typ maj min body = Deliver ty pt (bump s).
  Proof.
    intros gcm s typ maj min body pt ty pad Ho Hlen Ht H1 Hmax.
    unfold open_tls13, RecModel.open_tls13.
    replace (if gcm then (length body <=? tagl)%nat else (length body <? tagl)%nat) with false
      by (destruct gcm; symmetry; [apply Nat.leb_gt | apply Nat.ltb_ge]; lia).
    rewrite Ho.
    assert (length (pt ++ [ty] ++ repeat 0 pad) = S (length pt + pad)) as Hin
      by (rewrite !app_length, repeat_length; cbn; lia).
    rewrite Hin.
    replace (S (length pt + pad) =? length body - tagl)%nat with true by (symmetry; apply Nat.eqb_eq; lia). cbn [negb].
    rewrite scan_back_inner by (auto; lia).
    replace (length pt =? 0)%nat with false by (symmetry; apply Nat.eqb_neq; lia).
    replace (rn_TLS_1_3_MAX_PLAINTEXT_FRAGMENT_LEN <? N.of_nat (length pt)) with false by (symmetry; apply N.ltb_ge; exact Hmax).
    f_equal.
    - rewrite app_nth2 by lia. rewrite Nat.sub_diag. reflexivity.
    - apply firstn_app_exact. reflexivity.
  Qed.

  (* an inner plaintext without any non-zero byte (no content type) is refused, whatever its length *)
  Lemma scan_back_zeros : forall n k, (k <= n)%nat -> scan_back (repeat 0 (S n)) k = 0%nat.
  Proof.
    intros n. induction k; intros Hk; [reflexivity|].
    cbn [scan_back]. rewrite nth_repeat_lt by lia. cbn. apply IHk. lia.
  Qed.
  Theorem tls13_all_zero_refused : forall gcm s typ maj min body n,
    aead_open (k_enc s) (nonce_xor s) (aad13 typ maj min (length body)) body = Some (repeat 0 (S n)) ->
    length body = (S n + tagl)%nat ->
    open_tls13 gcm s typ maj min body = Fatal c_SSL_ALERT_UNEXPECTED_MESSAGE (bump s).
  Proof.
    intros gcm s typ maj min body n Ho Hlen.
    unfold open_tls13, RecModel.open_tls13.
    replace (if gcm then (length body <=? tagl)%nat else (length body <? tagl)%nat) with false
      by (destruct gcm; symmetry; [apply Nat.leb_gt | apply Nat.ltb_ge]; lia).
    rewrite Ho, repeat_length.
    replace (S n =? length body - tagl)%nat with true by (symmetry; apply Nat.eqb_eq; lia). cbn [negb].
    rewrite scan_back_zeros by lia. reflexivity.
  Qed.

  (* the whole path, header included: what seal_rec puts on the wire for a TLS 1.3 family, with ANY padding that fits the
     record (|content| + 1 + pad + 16 <= 2^14 + 256), open_rec hands back as exactly (type, content) *)
  Theorem roundtrip_rec_tls13 : forall f s (m : msg),
    is13 f = true ->
    (m_typ m = 21 \/ m_typ m = 22 \/ m_typ m = 23) ->
    (1 <= length (m_pt m))%nat -> nlen (m_pt m) <= rn_TLS_1_3_MAX_PLAINTEXT_FRAGMENT_LEN ->
    N.of_nat (length (m_pt m) + 1 + m_pad m + tagl) <= rn_TLS_1_3_MAX_CIPHERTEXT_LEN ->
    open_rec f s (fst (seal_rec msz cbc_enc mac aead_seal f s m)) =
      Deliver (m_typ m) (m_pt m) (snd (seal_rec msz cbc_enc mac aead_seal f s m)).
  Proof.
    intros f s m H13 Hty H1 Hmax Hfit.
    assert (m_typ m <> 0) as Hnz by (destruct Hty as [-> | [-> | ->]]; discriminate).
    assert (seal_rec msz cbc_enc mac aead_seal f s m =
            ({| w_typ := 23; w_maj := 3; w_min := 3; w_body := fst (seal_tls13 s (m_pad m) (m_typ m) (m_pt m)) |},
             snd (seal_tls13 s (m_pad m) (m_typ m) (m_pt m)))) as Hs
      by (destruct f; try discriminate H13; reflexivity).
    rewrite Hs. cbn [fst snd].
    unfold open_rec, RecModel.open_rec. rewrite H13. unfold open13. cbn [w_typ w_maj w_min w_body].
    assert (length (fst (seal_tls13 s (m_pad m) (m_typ m) (m_pt m))) = (length (m_pt m) + 1 + m_pad m + tagl)%nat) as Hl.
    { unfold seal_tls13, RecModel.seal_tls13. cbn [fst]. rewrite Haead_len, !app_length, repeat_length. cbn. lia. }
    unfold nlen. rewrite Hl.
    replace (rn_TLS_1_3_MAX_CIPHERTEXT_LEN <? N.of_nat (length (m_pt m) + 1 + m_pad m + tagl)) with false
      by (symmetry; apply N.ltb_ge; exact Hfit).
    replace (N.of_nat (length (m_pt m) + 1 + m_pad m + tagl) =? 0) with false by (symmetry; apply N.eqb_neq; ubl; lia).
    cbn [orb valid_type N.eqb Pos.eqb negb andb].
    assert (forall g, RecModel.open_tls13 aead_open g s 23 3 3 (fst (seal_tls13 s (m_pad m) (m_typ m) (m_pt m))) =
                      Deliver (m_typ m) (m_pt m) (snd (seal_tls13 s (m_pad m) (m_typ m) (m_pt m)))) as Hr
      by (intros g; apply roundtrip_tls13; auto).
    destruct f; try discriminate H13; apply Hr.
  Qed.

  (* the padding the sender computes for a block size never pushes the inner plaintext over 2^14 + 1, and pads to the block *)
  Theorem tls13_pad_len_props : forall bs len, 1 <= bs -> len <= rn_TLS_1_3_MAX_PLAINTEXT_FRAGMENT_LEN ->
    len + 1 + tls13_pad_len bs len <= rn_TLS_1_3_MAX_INNER_PLAINTEXT_LEN /\
    ((len + 1 + tls13_pad_len bs len) mod bs = 0 \/ len + 1 + tls13_pad_len bs len = rn_TLS_1_3_MAX_INNER_PLAINTEXT_LEN).
  Proof.
    intros bs len Hbs Hlen. unfold tls13_pad_len, rn_TLS_1_3_MAX_INNER_PLAINTEXT_LEN, rn_TLS_1_3_MAX_PLAINTEXT_FRAGMENT_LEN in *.
    set (b := (len + 1 + bs - 1) / bs * bs).
    assert (len + 1 <= b) as Hb.
    { unfold b. pose proof (N.div_mod (len + 1 + bs - 1) bs ltac:(lia)) as Hd.
      pose proof (N.mod_lt (len + 1 + bs - 1) bs ltac:(lia)) as Hm. lia. }
    destruct (16385 <? b) eqn:E.
    - split; [lia|]. right. lia.
    - apply N.ltb_ge in E. split; [lia|]. left.
      replace (len + 1 + (b - 1 - len)) with b by lia. unfold b. apply N.mod_mul. lia.
  Qed.

  (* ================================================================ no out-of-bounds read *)
  Hypothesis Hdec_len : forall k iv c, length (cbc_dec k iv c) = length c.
  Hypothesis Hopen_len : forall k n a c p, aead_open k n a c = Some p -> (length p + tagl = length c)%nat.

  Theorem no_fault_cbc : forall s t b, open_cbc s t b <> Fault.
  Proof.
    intros s t b. unfold open_cbc, RecModel.open_cbc, RecModel.cbc_view.
    destruct (_ <? _)%nat; [discriminate|]. destruct (negb (_ mod _ =? 0)%nat); [discriminate|].
    rewrite Hdec_len, Nat.eqb_refl. cbn [negb].
    destruct (_ || _); [discriminate|]. destruct (_ <? _); discriminate.
  Qed.
  Theorem no_fault_gcm12 : forall s t b, open_gcm12 s t b <> Fault.
  Proof.
    intros s t b. unfold open_gcm12, RecModel.open_gcm12.
    destruct (length b <? 25)%nat eqn:E; [discriminate|]. apply Nat.ltb_ge in E.
    destruct (aead_open _ _ _ _) as [p|] eqn:Ho; [|discriminate].
    apply Hopen_len in Ho. rewrite skipn_length in Ho. ubl.
    replace (length p =? length b - 8 - 16)%nat with true by (symmetry; apply Nat.eqb_eq; lia). cbn [negb].
    destruct (_ <? _); discriminate.
  Qed.
  Theorem no_fault_chacha12 : forall s t b, open_chacha12 s t b <> Fault.
  Proof.
    intros s t b. unfold open_chacha12, RecModel.open_chacha12.
    destruct (length b <? tagl)%nat eqn:E; [discriminate|]. apply Nat.ltb_ge in E.
    destruct (aead_open _ _ _ _) as [p|] eqn:Ho; [|discriminate].
    apply Hopen_len in Ho.
    replace (length p =? length b - tagl)%nat with true by (symmetry; apply Nat.eqb_eq; lia). cbn [negb].
    destruct (_ <? _); discriminate.
  Qed.
  (* TLS 1.3: AES-GCM never; ChaCha20-Poly1305 only for a 16-byte record whose tag verifies over an EMPTY inner plaintext -
     a tuple the honest sender never produces (its inner plaintext always holds the content type) *)
  Theorem fault_tls13_only_forged_empty : forall gcm s t ma mi b,
    open_tls13 gcm s t ma mi b = Fault ->
    gcm = false /\ length b = tagl /\ verified_tls13 gcm s t ma mi b = Some (nonce_xor s, aad13 t ma mi (length b), []).
  Proof.
    intros gcm s t ma mi b. unfold open_tls13, RecModel.open_tls13, verified_tls13, RecModel.verified_tls13.
    destruct (if gcm then _ else _) eqn:E; [discriminate|].
    destruct (aead_open _ _ _ _) as [ip|] eqn:Ho; [|discriminate].
    apply Hopen_len in Ho.
    replace (length ip =? length b - tagl)%nat with true by (symmetry; apply Nat.eqb_eq; lia). cbn [negb].
    destruct ip as [|x ip].
    - cbn [length] in *. intros _. destruct gcm.
      + apply Nat.leb_gt in E. lia.
      + repeat split; auto.
    - cbn [length]. destruct (_ =? 0)%nat; [discriminate|]. destruct (_ <? _); discriminate.
  Qed.
End Proofs.

(* ------------------------------------------------------------------ the empty-fragment corner (observed on the library too):
   a zero-length fragment round-trips through CBC but NOT through the AEAD families of this code base *)
Section Empty.
  Variable aead_seal : bytes -> bytes -> bytes -> bytes -> bytes.
  Variable aead_open : bytes -> bytes -> bytes -> bytes -> option bytes.
  Hypothesis Haead_inv : forall k n a p, aead_open k n a (aead_seal k n a p) = Some p.
  Hypothesis Haead_len : forall k n a p, length (aead_seal k n a p) = (length p + tagl)%nat.

  Theorem empty_gcm12_rejected : forall s typ,
    open_gcm12 aead_open s typ (fst (seal_gcm12 aead_seal s typ [])) = Fatal c_SSL_ALERT_DECRYPT_ERROR s.
  Proof.
    intros s typ. unfold seal_gcm12, open_gcm12. cbn [fst].
    rewrite app_length, be64_length, Haead_len. reflexivity.
  Qed.
  Theorem empty_tls13_rejected : forall gcm s pad typ,
    open_tls13 aead_open gcm s 23 3 3 (fst (seal_tls13 aead_seal s pad typ [])) = Fatal c_SSL_ALERT_UNEXPECTED_MESSAGE (bump s).
  Proof.
    intros gcm s pad typ. unfold seal_tls13, open_tls13. cbn [fst app].
    rewrite Haead_len. cbn [length].
    replace (if gcm then (S (length (repeat 0%N pad)) + tagl <=? tagl)%nat else (S (length (repeat 0%N pad)) + tagl <? tagl)%nat) with false
      by (destruct gcm; symmetry; [apply Nat.leb_gt | apply Nat.ltb_ge]; lia).
    rewrite Haead_inv. cbn [length].
    replace (S (length (repeat 0%N pad)) + tagl - tagl)%nat with (S (length (repeat 0%N pad))) by lia.
    rewrite Nat.eqb_refl. cbn [negb].
    rewrite repeat_length.
    pose proof (scan_back_inner [] typ pad pad) as Hs. cbn [length app Nat.add] in Hs.
    destruct (N.eq_dec typ 0) as [->|Hne].
    - assert (forall k, (k <= pad)%nat -> scan_back (0 :: repeat 0 pad) k = 0%nat) as Hz.
      { induction k; intros; [reflexivity|]. cbn [scan_back nth]. rewrite nth_repeat_lt by lia. cbn. apply IHk. lia. }
      rewrite Hz by lia. reflexivity.
    - rewrite Hs by (auto; lia). reflexivity.
  Qed.
End Empty.

(* ------------------------------------------------------------------ non-vacuity: the contracts and the no-forgery hypothesis are
   satisfiable, on toy primitives (identity "cipher", polynomial checksum as MAC / tag), with non-trivial runs *)
Definition toy_hash (m : bytes) : N := fold_left (fun h b => (h * 257 + b + 1) mod 2 ^ 128) m 0.
Definition toy_enc (k iv p : bytes) : bytes := p.
Definition toy_mac (k m : bytes) : bytes := be_bytes 4 (toy_hash (k ++ m)).
Definition toy_tag (k n a p : bytes) : bytes := be_bytes 16 (toy_hash (k ++ n ++ [255] ++ a ++ [255] ++ p)).
Definition toy_seal (k n a p : bytes) : bytes := p ++ toy_tag k n a p.
Definition toy_open (k n a c : bytes) : option bytes :=
  if (length c <? 16)%nat then None else
  let p := firstn (length c - 16) c in
  if beqb (skipn (length c - 16) c) (toy_tag k n a p) then Some p else None.

Lemma toy_contracts :
  (forall k iv p, (length p mod blk = 0)%nat -> toy_enc k iv (toy_enc k iv p) = p) /\
  (forall k iv p, length (toy_enc k iv p) = length p) /\
  (forall k m, (4 <= length (toy_mac k m))%nat) /\
  (forall k n a p, toy_open k n a (toy_seal k n a p) = Some p) /\
  (forall k n a p, length (toy_seal k n a p) = (length p + tagl)%nat).
Proof.
  split; [reflexivity|]. split; [reflexivity|]. split; [|split].
  - intros. unfold toy_mac. rewrite be_bytes_length. lia.
  - intros. unfold toy_open, toy_seal.
    assert (length (toy_tag k n a p) = 16%nat) as Ht by (unfold toy_tag; apply be_bytes_length).
    rewrite app_length, Ht.
    replace (length p + 16 <? 16)%nat with false by (symmetry; apply Nat.ltb_ge; lia).
    replace (length p + 16 - 16)%nat with (length p) by lia.
    rewrite firstn_app_exact, skipn_app_exact by reflexivity. rewrite beqb_refl. reflexivity.
  - intros. unfold toy_seal, toy_tag. rewrite app_length, be_bytes_length. reflexivity.
Qed.

(* a decidable version of the hypothesis, to evaluate it on concrete runs *)
Definition amsg_eqb (a b : amsg) : bool :=
  beqb (fst (fst a)) (fst (fst b)) && beqb (snd (fst a)) (snd (fst b)) && beqb (snd a) (snd b).
Lemma amsg_eqb_eq : forall a b, amsg_eqb a b = true -> a = b.
Proof.
  intros [[a1 a2] a3] [[b1 b2] b3]. unfold amsg_eqb. cbn [fst snd]. intros H.
  apply andb_prop in H as [H H3]. apply andb_prop in H as [H1 H2].
  apply beqb_eq in H1, H2, H3. subst. reflexivity.
Qed.
Section Decide.
  Variable msz : nat.
  Variable cbc_dec : bytes -> bytes -> bytes -> bytes.
  Variable mac : bytes -> bytes -> bytes.
  Variable aead_open : bytes -> bytes -> bytes -> bytes -> option bytes.
  Fixpoint no_forgery_b (f : family) (sent : list amsg) (s : rst) (ws : list wrec) : bool :=
    match ws with
    | [] => true
    | w :: r =>
      (match verified_rec msz cbc_dec mac aead_open f s w with Some a => existsb (amsg_eqb a) sent | None => true end) &&
      match open_rec msz cbc_dec mac aead_open f s w with
      | Deliver _ _ s' => no_forgery_b f sent s' r
      | Skip s' => no_forgery_b f sent s' r
      | _ => true
      end
    end.
  Lemma no_forgery_b_sound : forall f sent ws s, no_forgery_b f sent s ws = true -> no_forgery msz cbc_dec mac aead_open f sent s ws.
  Proof.
    intros f sent. induction ws as [|w ws IH]; intros s H; [exact I|].
    cbn [no_forgery_b] in H. apply andb_prop in H as [H1 H2]. cbn [no_forgery]. split.
    - intros a Hv. rewrite Hv in H1. apply existsb_exists in H1. destruct H1 as (b & Hin & Hb).
      apply amsg_eqb_eq in Hb. subst. exact Hin.
    - destruct (open_rec msz cbc_dec mac aead_open f s w); auto.
  Qed.
End Decide.

Definition toy_state (iv : bytes) : rst :=
  {| k_enc := [1; 2; 3; 4; 5; 6; 7; 8; 9; 10; 11; 12; 13; 14; 15; 16]; k_mac := [9; 8; 7; 6]; k_iv := iv;
     seqn := 5; vmaj := 3; vmin := 3; expl := true; maxfrag := 16384 |}.
Definition toy_msgs : list msg :=
  [ {| m_typ := 23; m_pt := [97; 98]; m_pad := 0; m_rnd := repeat 0xA5 16 |};
    {| m_typ := 23; m_pt := [99; 100; 101]; m_pad := 3; m_rnd := repeat 0x5A 16 |};
    {| m_typ := 23; m_pt := [102]; m_pad := 0; m_rnd := repeat 0x11 16 |} ].
Fixpoint toy_seal_all (f : family) (s : rst) (ms : list msg) : list wrec :=
  match ms with
  | [] => []
  | m :: r => let '(w, s') := seal_rec 4 toy_enc toy_mac toy_seal f s m in w :: toy_seal_all f s' r
  end.
Definition toy_iv (f : family) : bytes := match f with FCbc => repeat 0 16 | FGcm12 => [1; 2; 3; 4] | _ => repeat 7 12 end.
Definition toy_recv (f : family) (ws : list wrec) := recv 4 toy_enc toy_mac toy_open f (toy_state (toy_iv f)) ws.
Definition toy_nf (f : family) (ws : list wrec) : bool :=
  no_forgery_b 4 toy_enc toy_mac toy_open f (sent_from f (toy_state (toy_iv f)) 5 toy_msgs) (toy_state (toy_iv f)) ws.
Definition pick (f : family) (idx : list nat) : list wrec :=
  let ws := toy_seal_all f (toy_state (toy_iv f)) toy_msgs in
  map (fun i => nth i ws {| w_typ := 0; w_maj := 0; w_min := 0; w_body := [] |}) idx.
Definition families := [FCbc; FGcm12; FChacha12; FGcm13; FChacha13].

(* in order: everything is delivered;  swapped / replayed / dropped: the run stops there - and no forgery occurred *)
Example toy_in_order : forallb (fun f => toy_nf f (pick f [0; 1; 2]%nat) &&
    (length (toy_recv f (pick f [0; 1; 2]%nat)) =? 3)%nat) families = true.
Proof. vm_compute. reflexivity. Qed.
Example toy_swapped : forallb (fun f => toy_nf f (pick f [0; 2; 1]%nat) &&
    (length (toy_recv f (pick f [0; 2; 1]%nat)) =? 1)%nat) families = true.
Proof. vm_compute. reflexivity. Qed.
Example toy_replayed : forallb (fun f => toy_nf f (pick f [0; 0; 1]%nat) &&
    (length (toy_recv f (pick f [0; 0; 1]%nat)) =? 1)%nat) families = true.
Proof. vm_compute. reflexivity. Qed.
Example toy_dropped_first : forallb (fun f => toy_nf f (pick f [1; 2]%nat) &&
    (length (toy_recv f (pick f [1; 2]%nat)) =? 0)%nat) families = true.
Proof. vm_compute. reflexivity. Qed.
Example toy_delivers_what_was_sent :
  map (fun f => toy_recv f (pick f [0; 1; 2]%nat)) families = repeat (map content toy_msgs) 5.
Proof. vm_compute. reflexivity. Qed.
