(* C16 - proofs about the replay window / epoch gate model (Dtls/DtlsModel.v) *)
From Coq Require Import NArith ZArith List Bool Lia.
From MV Require Import Gen.Consts Gen.ConstsDtls Dtls.DtlsModel Dtls.DtlsSpec.
Import ListNotations.
Local Open Scope N_scope.

(* ------------------------------------------------------------------ bit facts *)

Lemma bits_ok : 32 <= c_dtls_bitmap_bits.
Proof. vm_compute. discriminate. Qed.

Lemma testbit_1 i : N.testbit 1 i = (i =? 0).
Proof. destruct i; reflexivity. Qed.

Definition newbm (bm d : N) : N :=
  N.land (if d <? win_size then N.lor (N.shiftl bm d mod ulong_mod) 1 else 1) 4294967295.

Lemma newbm_bit bm d i : i < 32 ->
  N.testbit (newbm bm d) i =
  if d <? 32 then (i =? 0) || ((d <=? i) && N.testbit bm (i - d)) else (i =? 0).
Proof.
  intros Hi. unfold newbm, win_size.
  change 4294967295 with (N.ones 32).
  rewrite N.land_spec, N.ones_spec_low by lia. rewrite andb_true_r.
  destruct (d <? 32) eqn:E.
  - rewrite N.lor_spec, testbit_1. unfold ulong_mod.
    rewrite N.mod_pow2_bits_low by (pose proof bits_ok; lia).
    rewrite orb_comm. f_equal.
    destruct (d <=? i) eqn:F.
    + apply N.leb_le in F. rewrite N.shiftl_spec_high' by lia. reflexivity.
    + apply N.leb_gt in F. rewrite N.shiftl_spec_low by lia. reflexivity.
  - apply testbit_1.
Qed.

Definition setb (bm d : N) : N := N.lor bm (N.shiftl 1 d).

Lemma setbit_bit bm d i : N.testbit (setb bm d) i = N.testbit bm i || (d =? i).
Proof. unfold setb. rewrite N.lor_spec, N.shiftl_1_l, N.pow2_bits_eqb. reflexivity. Qed.

Lemma seq32_lt s : seq32 s < 2 ^ 32.
Proof. unfold seq32. apply N.mod_upper_bound. discriminate. Qed.

Lemma seq32_small s : s < 2 ^ 32 -> seq32 s = s.
Proof. intros. unfold seq32. apply N.mod_small; assumption. Qed.

(* ------------------------------------------------------------------ the window *)

Definition lastq (w : win) : N := seq32 (w_last w).

(* every number in S is at or below the top of the window and, if within it, marked *)
Definition wcov (w : win) (S : N -> Prop) : Prop :=
  forall s, S s -> s <= lastq w /\ (lastq w - s < 32 -> N.testbit (w_bm w) (lastq w - s) = true).

(* every mark in the window stands for a number of S *)
Definition wconv (w : win) (S : N -> Prop) : Prop :=
  forall i, i < 32 -> N.testbit (w_bm w) i = true -> i <= lastq w /\ S (lastq w - i).

Lemma chk_replay_unfold w s :
  chk_replay w s =
  if lastq w <? seq32 s then
    (true, {| w_last := s; w_bm := newbm (w_bm w) (seq32 s - lastq w) |})
  else if 32 <=? lastq w - seq32 s then (false, w)
  else if N.testbit (w_bm w) (lastq w - seq32 s) then (false, w)
  else (true, {| w_last := w_last w; w_bm := setb (w_bm w) (lastq w - seq32 s) |}).
Proof. reflexivity. Qed.

Lemma chk_replay_cov w S s ok w' :
  wcov w S -> chk_replay w s = (ok, w') ->
  (ok = true -> ~ S (seq32 s)) /\
  wcov w' (fun t => S t \/ (ok = true /\ t = seq32 s)).
Proof.
  intros C. rewrite chk_replay_unfold.
  destruct (lastq w <? seq32 s) eqn:E1.
  - apply N.ltb_lt in E1. intros H; inversion H; subst; clear H. split.
    + intros _ HS. destruct (C _ HS). lia.
    + intros t [HS | [_ ->]]; unfold lastq; cbn [w_last w_bm]; fold (lastq w).
      * destruct (C _ HS) as [Hle Hbit]. split; [lia|]. intros Hd.
        rewrite newbm_bit by lia.
        replace (seq32 s - lastq w <? 32) with true by (symmetry; apply N.ltb_lt; lia).
        replace (seq32 s - lastq w <=? seq32 s - t) with true by (symmetry; apply N.leb_le; lia).
        replace (seq32 s - t - (seq32 s - lastq w)) with (lastq w - t) by lia.
        rewrite Hbit by lia. apply orb_true_r.
      * split; [lia|]. intros _. rewrite N.sub_diag, newbm_bit by lia.
        destruct (_ <? 32); reflexivity.
  - apply N.ltb_ge in E1.
    destruct (32 <=? lastq w - seq32 s) eqn:E2.
    { intros H; inversion H; subst. split; [discriminate|].
      intros t [HS | [Hf _]]; [auto | discriminate]. }
    apply N.leb_gt in E2.
    destruct (N.testbit (w_bm w) (lastq w - seq32 s)) eqn:E3.
    { intros H; inversion H; subst. split; [discriminate|].
      intros t [HS | [Hf _]]; [auto | discriminate]. }
    intros H; inversion H; subst; clear H. split.
    + intros _ HS. destruct (C _ HS) as [_ Hbit]. rewrite Hbit in E3 by lia. discriminate.
    + intros t [HS | [_ ->]]; unfold lastq; cbn [w_last w_bm]; fold (lastq w).
      * destruct (C _ HS) as [Hle Hbit]. split; [lia|]. intros Hd.
        rewrite setbit_bit, Hbit by lia. reflexivity.
      * split; [lia|]. intros _. rewrite setbit_bit, N.eqb_refl. apply orb_true_r.
Qed.

Lemma chk_replay_conv w S s ok w' :
  wconv w S -> chk_replay w s = (ok, w') ->
  wconv w' (fun t => S t \/ (ok = true /\ t = seq32 s)).
Proof.
  intros C. rewrite chk_replay_unfold.
  destruct (lastq w <? seq32 s) eqn:E1.
  - apply N.ltb_lt in E1. intros H; inversion H; subst; clear H.
    intros i Hi. unfold lastq; cbn [w_last w_bm]; fold (lastq w).
    rewrite newbm_bit by lia.
    destruct (seq32 s - lastq w <? 32) eqn:E2.
    + intros Hb. apply orb_true_iff in Hb. destruct Hb as [Hb | Hb].
      * apply N.eqb_eq in Hb. subst i. split; [lia|]. right. split; [reflexivity | lia].
      * apply andb_true_iff in Hb. destruct Hb as [Hle Hb]. apply N.leb_le in Hle.
        destruct (C (i - (seq32 s - lastq w))) as [Hl HS]; [lia | assumption |].
        split; [lia|]. left.
        replace (seq32 s - i) with (lastq w - (i - (seq32 s - lastq w))) by lia. exact HS.
    + intros Hb. apply N.eqb_eq in Hb. subst i. split; [lia|]. right. split; [reflexivity | lia].
  - apply N.ltb_ge in E1.
    destruct (32 <=? lastq w - seq32 s) eqn:E2.
    { intros H; inversion H; subst. intros i Hi Hb. destruct (C i Hi Hb). auto. }
    apply N.leb_gt in E2.
    destruct (N.testbit (w_bm w) (lastq w - seq32 s)) eqn:E3.
    { intros H; inversion H; subst. intros i Hi Hb. destruct (C i Hi Hb). auto. }
    intros H; inversion H; subst; clear H.
    intros i Hi. unfold lastq; cbn [w_last w_bm]; fold (lastq w).
    rewrite setbit_bit. intros Hb. apply orb_true_iff in Hb. destruct Hb as [Hb | Hb].
    + destruct (C i Hi Hb). auto.
    + apply N.eqb_eq in Hb. subst i. split; [lia|]. right. split; [reflexivity | lia].
Qed.

(* the top of the window is itself a member once anything was accepted, and stays 0 until then *)
Definition wtop (w : win) (acc : list N) : Prop :=
  (acc = [] -> lastq w = 0) /\ (acc <> [] -> In (lastq w) acc).

Lemma chk_replay_top w acc s ok w' :
  wtop w acc -> chk_replay w s = (ok, w') ->
  wtop w' (if ok then seq32 s :: acc else acc).
Proof.
  intros [T0 T1]. rewrite chk_replay_unfold.
  destruct (lastq w <? seq32 s) eqn:E1.
  - intros H; inversion H; subst; clear H. split; [discriminate|].
    intros _. left. reflexivity.
  - destruct (32 <=? lastq w - seq32 s) eqn:E2; [intros H; inversion H; subst; split; assumption|].
    destruct (N.testbit (w_bm w) (lastq w - seq32 s)) eqn:E3; [intros H; inversion H; subst; split; assumption|].
    intros H; inversion H; subst; clear H. apply N.ltb_ge in E1. split; [discriminate|].
    intros _. unfold lastq; cbn [w_last]; fold (lastq w).
    destruct acc as [|a acc'].
    + left. rewrite (T0 eq_refl) in *. lia.
    + right. apply T1. discriminate.
Qed.

(* invariant of a run of the window on one epoch *)
Definition WInv (w : win) (acc : list N) : Prop :=
  NoDup acc /\ wcov w (fun s => In s acc) /\ wconv w (fun s => In s acc) /\ wtop w acc.

Lemma winv_empty : WInv win_empty [].
Proof.
  split; [constructor|]. split; [intros s []|]. split.
  - intros i Hi Hb. cbn in Hb. discriminate.
  - split; [reflexivity | intros H; contradiction].
Qed.

Lemma winv_step w acc s ok w' :
  WInv w acc -> chk_replay w s = (ok, w') -> WInv w' (if ok then seq32 s :: acc else acc).
Proof.
  intros (ND & C & V & T) H.
  destruct (chk_replay_cov _ _ _ _ _ C H) as [Hnew C'].
  pose proof (chk_replay_conv _ _ _ _ _ V H) as V'.
  pose proof (chk_replay_top _ _ _ _ _ T H) as T'.
  destruct ok.
  - split; [constructor; [apply Hnew; reflexivity | assumption]|].
    split; [|split; [|exact T']].
    + intros t Ht. apply C'. destruct Ht as [<- | Ht]; [right; auto | left; assumption].
    + intros i Hi Hb. destruct (V' i Hi Hb) as [Hl [HS | [_ HS]]]; (split; [assumption|]).
      * right; assumption.
      * left; auto.
  - split; [assumption|]. split; [|split; [|exact T']].
    + intros t Ht. apply C'. left; assumption.
    + intros i Hi Hb. destruct (V' i Hi Hb) as [Hl [HS | [HS _]]]; [split; assumption | discriminate].
Qed.

Lemma run_win_inv seqs : forall w acc, WInv w acc ->
  WInv (snd (run_win w acc seqs)) (fst (run_win w acc seqs)).
Proof.
  induction seqs as [|s r IH]; intros w acc I; cbn [run_win].
  - exact I.
  - destruct (chk_replay w s) as [ok w'] eqn:E. apply IH. eapply winv_step; eassumption.
Qed.

(* no sequence number is accepted twice on an epoch, whatever arrives in whatever order *)
Lemma window_never_twice seqs : NoDup (fst (run_win win_empty [] seqs)).
Proof. apply (run_win_inv seqs _ _ winv_empty). Qed.

(* ... also from an arbitrary (even corrupt) window state *)
Lemma window_never_twice_any w seqs : NoDup (fst (run_win w [] seqs)).
Proof.
  assert (G : forall seqs w acc, NoDup acc /\ wcov w (fun s => In s acc) ->
            NoDup (fst (run_win w acc seqs))).
  { clear. induction seqs as [|s r IH]; intros w acc [ND C]; cbn [run_win]; [exact ND|].
    destruct (chk_replay w s) as [ok w'] eqn:E. apply IH.
    destruct (chk_replay_cov _ _ _ _ _ C E) as [Hnew C'].
    destruct ok; split; try assumption.
    - constructor; [apply Hnew; reflexivity | assumption].
    - intros t Ht. apply C'. destruct Ht as [<- | Ht]; [right; auto | left; assumption].
    - intros t Ht. apply C'. left; assumption. }
  apply G. split; [constructor | intros s []].
Qed.

(* completeness: after any history, a new number inside (or above) the window is accepted *)
Lemma window_complete seqs s :
  let '(acc, w) := run_win win_empty [] seqs in
  fresh_in_window acc (seq32 s) -> fst (chk_replay w s) = true.
Proof.
  pose proof (run_win_inv seqs _ _ winv_empty) as I.
  destruct (run_win win_empty [] seqs) as [acc w]. cbn [fst snd] in I.
  destruct I as (ND & C & V & T0 & T1).
  intros [Hfresh Hwin]. unfold window_width in Hwin.
  rewrite chk_replay_unfold.
  destruct (lastq w <? seq32 s) eqn:E1; [reflexivity|]. apply N.ltb_ge in E1.
  assert (Hd : lastq w - seq32 s < 32).
  { destruct acc as [|a acc'].
    - rewrite (T0 eq_refl). lia.
    - assert (In (lastq w) (a :: acc')) by (apply T1; discriminate).
      specialize (Hwin _ H). lia. }
  replace (32 <=? lastq w - seq32 s) with false by (symmetry; apply N.leb_gt; exact Hd).
  destruct (N.testbit (w_bm w) (lastq w - seq32 s)) eqn:E3; [|reflexivity].
  exfalso. destruct (V _ Hd E3) as [_ HS]. apply Hfresh.
  replace (lastq w - (lastq w - seq32 s)) with (seq32 s) in HS by lia. exact HS.
Qed.

(* and nothing else is: an accepted number was new *)
Lemma window_sound seqs s :
  let '(acc, w) := run_win win_empty [] seqs in
  fst (chk_replay w s) = true -> ~ In (seq32 s) acc.
Proof.
  pose proof (run_win_inv seqs _ _ winv_empty) as I.
  destruct (run_win win_empty [] seqs) as [acc w]. cbn [fst snd] in I.
  destruct I as (ND & C & _).
  destruct (chk_replay w s) as [ok w'] eqn:E. cbn [fst]. intros ->.
  destruct (chk_replay_cov _ _ _ _ _ C E) as [Hnew _]. apply Hnew. reflexivity.
Qed.

(* ------------------------------------------------------------------ epochs *)

Lemma compare_epoch_spec i e : i < 65536 -> e < 65536 ->
  (compare_epoch i e = (-1)%Z /\ i < e) \/ (compare_epoch i e = 0%Z /\ i = e) \/
  (compare_epoch i e = 1%Z /\ e < i).
Proof.
  intros Hi He. unfold compare_epoch.
  pose proof (N.div_mod i 256 ltac:(discriminate)) as Di. pose proof (N.div_mod e 256 ltac:(discriminate)) as De.
  pose proof (N.mod_upper_bound i 256 ltac:(discriminate)) as Mi. pose proof (N.mod_upper_bound e 256 ltac:(discriminate)) as Me.
  generalize dependent (i / 256). generalize dependent (i mod 256).
  generalize dependent (e / 256). generalize dependent (e mod 256).
  intros e1 Me e0 De i1 Mi i0 Di.
  destruct (i0 <? e0) eqn:A; [apply N.ltb_lt in A; left; split; [reflexivity | lia]|].
  apply N.ltb_ge in A.
  destruct (e0 <? i0) eqn:B; [apply N.ltb_lt in B; right; right; split; [reflexivity | lia]|].
  apply N.ltb_ge in B.
  destruct (i1 <? e1) eqn:C; [apply N.ltb_lt in C; left; split; [reflexivity | lia]|].
  apply N.ltb_ge in C.
  destruct (e1 <? i1) eqn:D; [apply N.ltb_lt in D; right; right; split; [reflexivity | lia]|].
  apply N.ltb_ge in D. right; left. split; [reflexivity | lia].
Qed.

Lemma incr_two_byte_spec e : e < 65535 -> incr_two_byte e = e + 1.
Proof.
  intros He. unfold incr_two_byte.
  pose proof (N.div_mod e 256 ltac:(discriminate)) as De.
  pose proof (N.mod_upper_bound e 256 ltac:(discriminate)) as Me.
  generalize dependent (e / 256). generalize dependent (e mod 256). intros e1 Me e0 De.
  destruct (e1 <? 255) eqn:A; [apply N.ltb_lt in A; lia|]. apply N.ltb_ge in A.
  destruct (e0 <? 255) eqn:B; [apply N.ltb_lt in B; lia|]. apply N.ltb_ge in B. lia.
Qed.

Lemma incr_two_byte_wrap : incr_two_byte 65535 = 0.
Proof. reflexivity. Qed.

(* ------------------------------------------------------------------ the whole receive path *)

Definition rec_wf (e : ev) : Prop :=
  match e with Rec r => r_epoch r < 65536 | Ccs => True end.

(* invariant: nothing accepted carries a later epoch than the expected one, and what was
   accepted on the expected epoch is covered by the window *)
Definition RInv (st : rx) (acc : list (N * N)) : Prop :=
  rx_exp st < 65536 /\ NoDup acc /\
  (forall e s, In (e, s) acc -> e <= rx_exp st) /\
  wcov (rx_win st) (fun s => In (rx_exp st, s) acc).

Lemma rinv_set_epoch st acc e :
  RInv st acc -> rx_exp st < e -> e < 65536 -> RInv (set_epoch st e) acc.
Proof.
  intros (B & ND & M & C) Hlt He. unfold RInv. cbn [set_epoch rx_exp rx_win].
  split; [assumption|]. split; [assumption|]. split.
  - intros e' s H. specialize (M _ _ H). lia.
  - intros s H. exfalso. specialize (M _ _ H). lia.
Qed.

Lemma rinv_to_window st acc r v st' :
  RInv st acc -> r_epoch r = rx_exp st -> to_window st r = (v, st') ->
  RInv st' (match v with VAccept => (r_epoch r, seq32 (r_seq r)) :: acc | _ => acc end) /\
  (v = VAccept \/ v = VReplay).
Proof.
  intros (B & ND & M & C) He. unfold to_window.
  destruct (chk_replay (rx_win st) (r_seq r)) as [ok w'] eqn:E.
  intros H; inversion H; subst; clear H.
  destruct (chk_replay_cov _ _ _ _ _ C E) as [Hnew C'].
  destruct ok; (split; [|auto]); unfold RInv; cbn [rx_exp rx_win].
  - split; [assumption|]. split; [|split].
    + constructor; [rewrite He; apply Hnew; reflexivity | assumption].
    + intros e s [H | H]; [inversion H; lia | eauto].
    + intros s H. apply C'. destruct H as [H | H]; [inversion H; right; auto | left; assumption].
  - split; [assumption|]. split; [assumption|]. split; [assumption|].
    intros s H. apply C'. left; assumption.
Qed.

Lemma rinv_step st acc e :
  RInv st acc -> rec_wf e ->
  (match e with Ccs => rx_exp st < 65535 | _ => True end) ->
  let '(o, st') := step st e in
  RInv st' (match o with Some x => x :: acc | None => acc end).
Proof.
  intros I W NW. destruct e as [r|]; cbn [step].
  2:{ unfold ccs_parsed. destruct I as (B & I'). rewrite incr_two_byte_spec by assumption.
      apply rinv_set_epoch; [split; assumption | lia | lia]. }
  cbn [rec_wf] in W. pose proof I as (B & _).
  destruct (dtls_rx st r) as [v st'] eqn:E. unfold dtls_rx in E.
  destruct (compare_epoch_spec (r_epoch r) (rx_exp st) W B) as [[Hc Hlt] | [[Hc Heq] | [Hc Hgt]]];
    rewrite Hc in E.
  - (* earlier epoch: never reaches the window *)
    change (Z.eqb (-1) 1) with false in E. change (Z.eqb (-1) 0) with false in E.
    change (Z.eqb (-1) (-1)) with true in E. cbn [andb negb] in E.
    destruct (_ && r_ade0 r) in E; inversion E; subst; exact I.
  - (* expected epoch *)
    change (Z.eqb 0 1) with false in E. change (Z.eqb 0 0) with true in E. cbn [andb negb] in E.
    destruct (rinv_to_window _ _ _ _ _ I Heq E) as [I' [-> | ->]]; exact I'.
  - (* later epoch *)
    change (Z.eqb 1 1) with true in E. change (Z.eqb 1 0) with false in E.
    change (Z.eqb 1 (-1)) with false in E. cbn [andb negb] in E.
    assert (S1 : RInv (set_epoch st (r_epoch r)) acc) by (apply rinv_set_epoch; assumption).
    destruct (Z.eqb (r_type r) c_SSL_RECORD_TYPE_HANDSHAKE && Z.eqb (r_hs r) c_SSL_HS_FINISHED) in E.
    { destruct (negb (r_pccs r)) in E; [inversion E; subst; exact I|].
      destruct (rinv_to_window _ _ _ _ _ S1 eq_refl E) as [I' [-> | ->]]; exact I'. }
    set (st1 := if Z.eqb (r_type r) c_SSL_RECORD_TYPE_HANDSHAKE && Z.eqb (r_hs r) c_SSL_HS_DONE
                then set_epoch st (r_epoch r) else st) in E.
    assert (I1 : RInv st1 acc).
    { unfold st1. destruct (Z.eqb (r_type r) c_SSL_RECORD_TYPE_HANDSHAKE && Z.eqb (r_hs r) c_SSL_HS_DONE); [exact S1 | exact I]. }
    destruct (Z.eqb (r_type r) c_SSL_RECORD_TYPE_APPLICATION_DATA && Z.eqb (r_hs r) c_SSL_HS_DONE) in E.
    { assert (S2 : RInv (set_epoch st1 (r_epoch r)) acc) by exact S1.
      destruct (rinv_to_window _ _ _ _ _ S2 eq_refl E) as [I' [-> | ->]]; exact I'. }
    destruct (_ && r_ade0 r) in E; [inversion E; subst; exact I1|].
    destruct (r_server r && _) in E; inversion E; subst; exact I1.
Qed.

Lemma run_inv evs : forall st acc, RInv st acc -> Forall rec_wf evs -> run_wraps st evs = false ->
  RInv (snd (run st acc evs)) (fst (run st acc evs)).
Proof.
  induction evs as [|e r IH]; intros st acc I W NW; cbn [run].
  - exact I.
  - inversion W; subst. cbn [run_wraps] in NW. apply orb_false_iff in NW. destruct NW as [NW1 NW2].
    pose proof (rinv_step st acc e I H1) as S.
    destruct (step st e) as [o st'] eqn:E. cbn [snd] in NW2.
    apply IH; [|assumption|assumption]. apply S.
    destruct e; [exact Logic.I|]. apply N.leb_gt in NW1. exact NW1.
Qed.

(* No record is let through twice, for every sequence of arriving records and ChangeCipherSpec
   events, from every initial state, as long as the 16-bit epoch counter does not wrap *)
Lemma rx_never_twice st evs :
  rx_exp st < 65536 -> Forall rec_wf evs -> run_wraps st evs = false ->
  never_twice (fst (run st [] evs)).
Proof.
  intros B W NW.
  assert (I : RInv st []).
  { repeat split; try assumption; try constructor; intros; contradiction. }
  destruct (run_inv evs st [] I W NW) as (_ & ND & _). exact ND.
Qed.

(* the same, identifying records by their full 48-bit sequence number *)
Fixpoint accepted_full (st : rx) (evs : list ev) : list (N * N) :=
  match evs with
  | [] => []
  | e :: r => let '(o, st') := step st e in
              match e, o with
              | Rec rc, Some _ => (r_epoch rc, r_seq rc) :: accepted_full st' r
              | _, _ => accepted_full st' r
              end
  end.

Lemma run_acc_app evs : forall st acc, fst (run st acc evs) = fst (run st [] evs) ++ acc.
Proof.
  induction evs as [|e r IH]; intros st acc; cbn [run]; [reflexivity|].
  destruct (step st e) as [o st']. rewrite IH. rewrite (IH st' (match o with Some x => [x] | None => [] end)).
  destruct o; cbn; rewrite <- ?app_assoc; reflexivity.
Qed.

Lemma accepted_full_map st evs :
  map (fun p => (fst p, seq32 (snd p))) (accepted_full st evs) = rev (fst (run st [] evs)).
Proof.
  revert st. induction evs as [|e r IH]; intros st; cbn [accepted_full run]; [reflexivity|].
  destruct (step st e) as [o st'] eqn:E.
  rewrite run_acc_app, rev_app_distr, <- IH.
  destruct e as [rc|]; cbn [step] in E.
  - destruct (dtls_rx st rc) as [v st2]. destruct v; inversion E; subst; reflexivity.
  - inversion E; subst. reflexivity.
Qed.

Lemma rx_never_twice_full st evs :
  rx_exp st < 65536 -> Forall rec_wf evs -> run_wraps st evs = false ->
  never_twice (accepted_full st evs).
Proof.
  intros B W NW. pose proof (rx_never_twice st evs B W NW) as ND. unfold never_twice in *.
  apply (NoDup_map_inv (fun p => (fst p, seq32 (snd p)))).
  rewrite accepted_full_map. apply NoDup_rev. exact ND.
Qed.

(* records of the expected epoch are judged by the window alone (no false drop by the gate) *)
Lemma rx_current_epoch st r :
  rx_exp st < 65536 -> r_epoch r = rx_exp st -> dtls_rx st r = to_window st r.
Proof.
  intros B He. unfold dtls_rx.
  assert (W : r_epoch r < 65536) by lia.
  destruct (compare_epoch_spec (r_epoch r) (rx_exp st) W B) as [[Hc Hlt] | [[Hc Heq] | [Hc Hgt]]]; try lia.
  rewrite Hc. reflexivity.
Qed.

(* the first record of a new epoch is accepted, once *)
Lemma first_of_epoch_once st s :
  let '(ok1, w1) := chk_replay (rx_win (ccs_parsed st)) s in
  ok1 = true /\ fst (chk_replay w1 s) = false.
Proof.
  unfold ccs_parsed, set_epoch. cbn [rx_win].
  pose proof (window_complete [] s) as C. cbn [run_win] in C.
  pose proof (window_sound [s] s) as S. cbn [run_win] in S.
  destruct (chk_replay win_empty s) as [ok1 w1] eqn:E. cbn [fst] in C.
  assert (H1 : ok1 = true).
  { apply C. split; [intros [] | intros a []]. }
  subst ok1. split; [reflexivity|].
  destruct (fst (chk_replay w1 s)) eqn:E2; [|reflexivity].
  exfalso. apply S; [reflexivity | left; reflexivity].
Qed.

(* ------------------------------------------------------------------ non-vacuity *)

Definition mk (t : Z) (e s : N) (hs : Z) : ev :=
  Rec {| r_type := t; r_epoch := e; r_seq := s; r_hs := hs; r_pccs := false; r_ade0 := false; r_server := true |}.

(* epoch 0 handshake records, ChangeCipherSpec, Finished (epoch 1 seq 0), application records with
   reordering, then replays of Finished and of earlier application records: all replays refused *)
Example run_example :
  let st0 := {| rx_exp := 0; rx_win := win_empty |} in
  let evs := [mk 22 0 0 1; mk 22 0 1 1; mk 22 0 2 16; mk 20 0 3 20; Ccs; mk 22 1 0 20;
              mk 23 1 2 255; mk 23 1 1 255; mk 23 1 3 255;
              mk 22 1 0 255; mk 23 1 1 255; mk 23 1 3 255; mk 20 0 3 255; mk 23 1 40 255; mk 23 1 9 255; mk 23 1 8 255] in
  run_wraps st0 evs = false /\
  rev (fst (run st0 [] evs)) = [(0,0); (0,1); (0,2); (0,3); (1,0); (1,2); (1,1); (1,3); (1,40); (1,9)].
Proof. vm_compute. split; reflexivity. Qed.

Example fresh_example : fresh_in_window [5; 3; 4] 2 /\ ~ fresh_in_window [40; 3] 3.
Proof.
  split.
  - split; [cbn; lia | cbn; intros a H; unfold window_width; lia].
  - intros [H _]. apply H. cbn. auto.
Qed.
