(* C16 - (a) the handshake message-sequence-number gate of parseSSLHandshake (sslDecode.c, the
   "MSN" block before the hsType/hsState match and `ssl->lastMsn = msn` after a successful parse),
   (b) an ABSTRACT two-peer flight system with a lossy / duplicating / reordering channel and
   timeout-driven retransmission.  (b) is not a model of C code: the library is related to it only
   by the live schedules that props/C16.py runs.  No proofs here. *)
From Coq Require Import ZArith List Bool Arith.
Import ListNotations.

(* ------------------------------------------------------------------ (a) MSN gate *)
Inductive msn_verdict :=
| MFuture      (* msn > lastMsn + 1: ignored, MATRIXSSL_SUCCESS *)
| MDuplicate   (* msn != 0 && lastMsn >= msn: DTLS_RETRANSMIT *)
| MProceed.    (* goes on to the hsType / hsState match *)

Definition msn_gate (lastMsn msn : Z) : msn_verdict :=
  if (lastMsn + 1 <? msn)%Z then MFuture
  else if negb (msn =? 0)%Z && (msn <=? lastMsn)%Z then MDuplicate
  else MProceed.

(* a handshake message as the gate sees it: its msn and whether the state machine behind the gate
   takes it (type expected in the current hsState and body parses) *)
Record hmsg := { h_msn : Z; h_ok : bool }.

Record hs := { hs_last : Z;        (* ssl->lastMsn, -1 initially *)
               hs_count : nat }.   (* number of handshake messages consumed by the state machine *)

Inductive hs_out := HIgnored | HRetransmit | HConsumed | HError.

Definition hs_rx (st : hs) (m : hmsg) : hs_out * hs :=
  match msn_gate (hs_last st) (h_msn m) with
  | MFuture => (HIgnored, st)
  | MDuplicate => (HRetransmit, st)
  | MProceed => if h_ok m then (HConsumed, {| hs_last := h_msn m; hs_count := S (hs_count st) |})
                else (HError, st)
  end.

Fixpoint hs_run (st : hs) (ms : list hmsg) : list Z * hs :=      (* msns consumed, oldest first *)
  match ms with
  | [] => ([], st)
  | m :: r => let '(o, st') := hs_rx st m in
              let '(l, st'') := hs_run st' r in
              (match o with HConsumed => h_msn m :: l | _ => l end, st'')
  end.

(* ------------------------------------------------------------------ (b) abstract flight system *)
(* A handshake of n flights; flight k is sent by the client when k is even, by the server when odd,
   and can only be produced by a peer that has taken flight k-1.  Since flights alternate, the joint
   state is the number p of flights taken so far; the sender of flight p keeps retransmitting it on
   every timeout round.  The channel hands the receiver, per round, an arbitrary list of flight
   numbers (copies of anything sent so far, in any order, any multiplicity; [] = everything lost). *)
Definition deliver (n p k : nat) : nat :=
  if (k =? p) && (p <? n) then S p        (* the awaited flight: take it, answer with flight p+1 *)
  else p.                                  (* old flight: retransmit own last flight; future: ignore *)

Definition round (n p : nat) (arrivals : list nat) : nat := fold_left (deliver n) arrivals p.

Fixpoint rounds (n p : nat) (sched : list (list nat)) : nat :=
  match sched with
  | [] => p
  | a :: r => rounds n (round n p a) r
  end.

Definition both_done (n p : nat) : bool := p =? n.

(* ------------------------------------------------------------------ (c) the flights of the library's handshakes *)
(* Which messages make up each flight of the DTLS 1.2 handshakes the library runs (cookie exchange
   always on): full, full with client authentication, and resumed (abbreviated).  These tables are
   compared on every check with the flights observed on a clean live run (harness op `sizes`),
   and instantiate the abstract flight system above: n = number of flights, flight k sent by the
   k-th party of the table.  Message codes are handshake type numbers; 254 = ChangeCipherSpec. *)
Inductive party := Client | Server.
Inductive hmode := HFull | HClientAuth | HResumed.

Definition m_CH : Z := 1.   Definition m_SH : Z := 2.    Definition m_HVR : Z := 3.
Definition m_CERT : Z := 11. Definition m_SKE : Z := 12.  Definition m_CR : Z := 13.
Definition m_SHD : Z := 14.  Definition m_CV : Z := 15.   Definition m_CKE : Z := 16.
Definition m_FIN : Z := 20.  Definition m_CCS : Z := 254.

(* ske: the key exchange sends a ServerKeyExchange ((EC)DHE suites) *)
Definition flights (ske : bool) (m : hmode) : list (party * list Z) :=
  let k := if ske then [m_SKE] else [] in
  [(Client, [m_CH]); (Server, [m_HVR]); (Client, [m_CH])] ++
  match m with
  | HFull       => [(Server, [m_SH; m_CERT] ++ k ++ [m_SHD]);
                    (Client, [m_CKE; m_CCS; m_FIN]);
                    (Server, [m_CCS; m_FIN])]
  | HClientAuth => [(Server, [m_SH; m_CERT] ++ k ++ [m_CR; m_SHD]);
                    (Client, [m_CERT; m_CKE; m_CV; m_CCS; m_FIN]);
                    (Server, [m_CCS; m_FIN])]
  | HResumed    => [(Server, [m_SH; m_CCS; m_FIN]);
                    (Client, [m_CCS; m_FIN])]
  end.

Definition nflights (ske : bool) (m : hmode) : nat := length (flights ske m).

Definition party_eqb (a b : party) : bool :=
  match a, b with Client, Client | Server, Server => true | _, _ => false end.

(* flights alternate between the peers, starting with the client *)
Fixpoint alternating (expect : party) (l : list party) : bool :=
  match l with
  | [] => true
  | p :: r => party_eqb p expect && alternating (match expect with Client => Server | Server => Client end) r
  end.

(* who sends the last flight (and therefore cannot know whether it arrived) *)
Definition last_sender (ske : bool) (m : hmode) : party :=
  fst (last (flights ske m) (Client, [])).

