(* C16 - executable model of the DTLS receive-side replay protection of /repo (with the repair
   pending-fixes/C16-replay-window.patch applied):

     matrixssl/dtls.c      dtlsChkReplayWindow, dtlsResetReplayWindow, dtlsCompareEpoch, incrTwoByte
     matrixssl/sslDecode.c matrixSslDecodeTls12AndBelow, "Epoch and RSN validation" block of the record
                           header path (the DTLS branch between the length check and decryption) and the
                           ChangeCipherSpec branch that advances the expected epoch

   State read/written: ssl->expectedEpoch[2], ssl->lastRsn[6], ssl->dtlsBitmap (unsigned long).
   No proofs here. *)
From Coq Require Import NArith ZArith List Bool.
From MV Require Import Gen.Consts Gen.ConstsDtls.
Import ListNotations.
Local Open Scope N_scope.

(* ------------------------------------------------------------------ replay window (dtls.c) *)

(* enum { ReplayWindowSize = 32 } is local to dtls.c (not visible to the constants translator);
   the correspondence run exercises the boundary 31/32/33 on every check. *)
Definition win_size : N := 32.

Record win := { w_last : N;      (* ssl->lastRsn, 6 bytes big endian, as a number < 2^48 *)
                w_bm : N }.      (* ssl->dtlsBitmap *)

(* seq = seq64[2]<<24 + seq64[3]<<16 + seq64[4]<<8 + seq64[5]: the low 32 of the 48 bits *)
Definition seq32 (s48 : N) : N := s48 mod 2 ^ 32.

Definition ulong_mod : N := 2 ^ c_dtls_bitmap_bits.

Definition win_empty : win := {| w_last := 0; w_bm := 0 |}.      (* dtlsResetReplayWindow *)

(* int32 dtlsChkReplayWindow(ssl_t *ssl, unsigned char *seq64): (1 = permitted, new window) *)
Definition chk_replay (w : win) (s48 : N) : bool * win :=
  let seq := seq32 s48 in
  let lastSeq := seq32 (w_last w) in
  if lastSeq <? seq then                                   (* if (seq > lastSeq) *)
    let diff := seq - lastSeq in
    let bm := if diff <? win_size
              then N.lor (N.shiftl (w_bm w) diff mod ulong_mod) 1      (* bitmap <<= diff; |= 1 *)
              else 1 in                                                  (* bitmap = 1 *)
    (true, {| w_last := s48;                                             (* Memcpy(lastRsn, seq64, 6) *)
              w_bm := N.land bm 4294967295 |})                           (* &= 0xFFFFFFFFUL *)
  else
    let diff := lastSeq - seq in
    if win_size <=? diff then (false, w)                                 (* too old *)
    else if N.testbit (w_bm w) diff then (false, w)                      (* bitmap & (1UL << diff) *)
    else (true, {| w_last := w_last w; w_bm := N.lor (w_bm w) (N.shiftl 1 diff) |}).

(* ------------------------------------------------------------------ epochs (dtls.c) *)

(* int32 dtlsCompareEpoch(unsigned char *incoming, unsigned char *expected): bytewise, 2 bytes *)
Definition compare_epoch (inc exp : N) : Z :=
  let i0 := inc / 256 in let i1 := inc mod 256 in
  let e0 := exp / 256 in let e1 := exp mod 256 in
  if i0 <? e0 then (-1)%Z else if e0 <? i0 then 1%Z
  else if i1 <? e1 then (-1)%Z else if e1 <? i1 then 1%Z else 0%Z.

(* void incrTwoByte(ssl, c, 0): increment with carry, wraps from ff ff to 00 00 *)
Definition incr_two_byte (e : N) : N :=
  let c0 := e / 256 in let c1 := e mod 256 in
  if c1 <? 255 then c0 * 256 + (c1 + 1)
  else if c0 <? 255 then (c0 + 1) * 256 + 0
  else 0.

(* ------------------------------------------------------------------ record header path (sslDecode.c) *)

Record rx := { rx_exp : N;        (* ssl->expectedEpoch as a 16-bit number *)
               rx_win : win }.

(* what the gate reads from the record header and from the session *)
Record rec := { r_type : Z;       (* ssl->rec.type *)
                r_epoch : N;      (* ssl->rec.epoch, < 2^16 *)
                r_seq : N;        (* ssl->rec.rsn, < 2^48 *)
                r_hs : Z;         (* ssl->hsState when the record arrives *)
                r_pccs : bool;    (* ssl->parsedCCS != 0 *)
                r_ade0 : bool;    (* ssl->appDataExch == 0 *)
                r_server : bool   (* ssl->flags & SSL_FLAGS_SERVER *) }.

Inductive verdict :=
| VAccept          (* passes on to decryption / MAC check *)
| VReplay          (* dtlsChkReplayWindow != 1: skipped, MATRIXSSL_SUCCESS *)
| VSkip            (* epoch mismatch, record skipped, MATRIXSSL_SUCCESS *)
| VRetransmit      (* record skipped, DTLS_RETRANSMIT *)
| VAlert.          (* unexpected_message alert (server in CLIENT_HELLO state, later epoch) *)

Definition set_epoch (st : rx) (e : N) : rx := {| rx_exp := e; rx_win := win_empty |}.

Definition to_window (st : rx) (r : rec) : verdict * rx :=
  let '(ok, w') := chk_replay (rx_win st) (r_seq r) in
  (if ok then VAccept else VReplay, {| rx_exp := rx_exp st; rx_win := w' |}).

(* one datagram carrying one record (so `end - c > 0 -> goto decodeMore` is not taken) *)
Definition dtls_rx (st : rx) (r : rec) : verdict * rx :=
  let rc := compare_epoch (r_epoch r) (rx_exp st) in
  let is t := Z.eqb (r_type r) t in
  let hs s := Z.eqb (r_hs r) s in
  if Z.eqb rc 1 && is c_SSL_RECORD_TYPE_HANDSHAKE && hs c_SSL_HS_FINISHED then
    if negb (r_pccs r) then (VSkip, st)                       (* Finished without a CCS: ignore *)
    else to_window (set_epoch st (r_epoch r)) r               (* resent Finished on a later epoch *)
  else if negb (Z.eqb rc 0) then
    let st1 := if Z.eqb rc 1 && is c_SSL_RECORD_TYPE_HANDSHAKE && hs c_SSL_HS_DONE
               then set_epoch st (r_epoch r) else st in
    if Z.eqb rc 1 && is c_SSL_RECORD_TYPE_APPLICATION_DATA && hs c_SSL_HS_DONE
    then to_window (set_epoch st1 (r_epoch r)) r              (* goto CHECK_REPLAY_WINDOW *)
    else if is c_SSL_RECORD_TYPE_CHANGE_CIPHER_SPEC && r_ade0 r then (VRetransmit, st1)
    else if Z.eqb rc 1 && r_server r && hs c_SSL_HS_CLIENT_HELLO then (VAlert, st1)
    else if Z.eqb rc (-1) then (VRetransmit, st1)
    else (VSkip, st1)
  else to_window st r.

(* ChangeCipherSpec parsed in state FINISHED: incrTwoByte(expectedEpoch); dtlsResetReplayWindow *)
Definition ccs_parsed (st : rx) : rx := set_epoch st (incr_two_byte (rx_exp st)).

(* ------------------------------------------------------------------ runs *)

Inductive ev := Rec (r : rec) | Ccs.

Definition step (st : rx) (e : ev) : option (N * N) * rx :=
  match e with
  | Rec r => let '(v, st') := dtls_rx st r in
             (match v with VAccept => Some (r_epoch r, seq32 (r_seq r)) | _ => None end, st')
  | Ccs => (None, ccs_parsed st)
  end.

(* accepted (epoch, truncated sequence number) pairs, newest first, and the final state *)
Fixpoint run (st : rx) (acc : list (N * N)) (evs : list ev) : list (N * N) * rx :=
  match evs with
  | [] => (acc, st)
  | e :: r => let '(o, st') := step st e in
              run st' (match o with Some x => x :: acc | None => acc end) r
  end.

(* does a ChangeCipherSpec arrive when the expected epoch is already ff ff (counter wraps)? *)
Fixpoint run_wraps (st : rx) (evs : list ev) : bool :=
  match evs with
  | [] => false
  | e :: r => (match e with Ccs => 65535 <=? rx_exp st | _ => false end) || run_wraps (snd (step st e)) r
  end.

(* the window alone, on one epoch: accepted truncated sequence numbers, newest first *)
Fixpoint run_win (w : win) (acc : list N) (seqs : list N) : list N * win :=
  match seqs with
  | [] => (acc, w)
  | s :: r => let '(ok, w') := chk_replay w s in run_win w' (if ok then seq32 s :: acc else acc) r
  end.

(* per-record verdicts, for the correspondence driver *)
Fixpoint run_verdicts (st : rx) (rs : list rec) : list verdict * rx :=
  match rs with
  | [] => ([], st)
  | r :: t => let '(v, st') := dtls_rx st r in let '(vs, st'') := run_verdicts st' t in (v :: vs, st'')
  end.
Fixpoint run_win_bits (w : win) (seqs : list N) : list bool * win :=
  match seqs with
  | [] => ([], w)
  | s :: t => let '(b, w') := chk_replay w s in let '(bs, w'') := run_win_bits w' t in (b :: bs, w'')
  end.
