(* C16 - proofs for the MSN gate and the abstract flight system (Dtls/FlightModel.v) *)
From Coq Require Import ZArith List Bool Arith Lia Sorted.
From MV Require Import Dtls.FlightModel.
Import ListNotations.

(* ------------------------------------------------------------------ (a) MSN gate *)

(* a replayed handshake message (msn already consumed, msn <> 0) leaves the state untouched *)
Lemma msn_replay_no_effect st m :
  (0 < h_msn m <= hs_last st)%Z -> hs_rx st m = (HRetransmit, st).
Proof.
  intros [H0 H1]. unfold hs_rx, msn_gate.
  replace (hs_last st + 1 <? h_msn m)%Z with false by (symmetry; apply Z.ltb_ge; lia).
  replace (h_msn m =? 0)%Z with false by (symmetry; apply Z.eqb_neq; lia).
  replace (h_msn m <=? hs_last st)%Z with true by (symmetry; apply Z.leb_le; lia).
  reflexivity.
Qed.

(* a message from the future is ignored *)
Lemma msn_future_no_effect st m :
  (hs_last st + 1 < h_msn m)%Z -> hs_rx st m = (HIgnored, st).
Proof.
  intros H. unfold hs_rx, msn_gate.
  replace (hs_last st + 1 <? h_msn m)%Z with true by (symmetry; apply Z.ltb_lt; lia).
  reflexivity.
Qed.

(* what is consumed is the next msn - or msn 0 (the gate lets msn 0 through at any time) *)
Lemma msn_consumed st m st' :
  hs_rx st m = (HConsumed, st') ->
  (h_msn m = hs_last st + 1 \/ h_msn m = 0)%Z /\ (h_msn m <= hs_last st + 1)%Z /\
  hs_last st' = h_msn m /\ hs_count st' = S (hs_count st).
Proof.
  unfold hs_rx, msn_gate.
  destruct (hs_last st + 1 <? h_msn m)%Z eqn:A; [discriminate|]. apply Z.ltb_ge in A.
  destruct (negb (h_msn m =? 0)%Z && (h_msn m <=? hs_last st)%Z) eqn:B; [discriminate|].
  destruct (h_ok m); [|discriminate]. intros H; inversion H; subst; clear H. cbn.
  apply andb_false_iff in B. destruct B as [B | B].
  - apply negb_false_iff, Z.eqb_eq in B. lia.
  - apply Z.leb_gt in B. lia.
Qed.

Lemma hs_rx_other st m o st' : hs_rx st m = (o, st') -> o <> HConsumed -> st' = st.
Proof.
  unfold hs_rx. destruct (msn_gate _ _); [intros H; inversion H; auto .. |].
  destruct (h_ok m); intros H; inversion H; subst; [congruence | auto].
Qed.

(* msn 0 (the first message of the peer's handshake) is never stopped by this gate: a replayed
   ClientHello / HelloVerifyRequest is left to the hsType-hsState match and the record replay window *)
Lemma msn_zero_passes last : (-1 <= last)%Z -> msn_gate last 0 = MProceed.
Proof.
  intros H. unfold msn_gate.
  replace (last + 1 <? 0)%Z with false by (symmetry; apply Z.ltb_ge; lia). reflexivity.
Qed.

(* over ANY sequence of incoming handshake messages with msn >= 1 (replays, reordering, gaps, messages
   the state machine refuses), the consumed msns are exactly lastMsn+1, lastMsn+2, ... in this order:
   nothing is consumed twice, nothing is skipped, lastMsn and the consumed count never go back *)
Lemma hs_run_consecutive ms : forall st,
  (forall m, In m ms -> (0 < h_msn m)%Z) ->
  let '(l, st') := hs_run st ms in
  l = map (fun i => (hs_last st + 1 + Z.of_nat i)%Z) (seq 0 (length l)) /\
  hs_last st' = (hs_last st + Z.of_nat (length l))%Z /\
  hs_count st' = hs_count st + length l.
Proof.
  induction ms as [|m r IH]; intros st Hz; cbn [hs_run].
  - cbn. repeat split; lia.
  - destruct (hs_rx st m) as [o st1] eqn:E.
    assert (Hm : (0 < h_msn m)%Z) by (apply Hz; left; reflexivity).
    destruct o.
    1,2,4: (assert (st1 = st) by (eapply hs_rx_other; [eassumption | discriminate]); subst st1;
            specialize (IH st (fun m' H => Hz m' (or_intror H)));
            destruct (hs_run st r) as [l st2]; exact IH).
    destruct (msn_consumed _ _ _ E) as (Hn & Hle & Hlast & Hcnt).
    assert (Hnext : h_msn m = (hs_last st + 1)%Z) by (destruct Hn as [|Hn0]; [assumption | lia]).
    specialize (IH st1 (fun m' H => Hz m' (or_intror H))).
    destruct (hs_run st1 r) as [l st2]. destruct IH as (IH1 & IH2 & IH3).
    cbn [length seq map]. split; [|split].
    + f_equal; [lia|]. rewrite <- seq_shift, map_map. rewrite IH1 at 1.
      apply map_ext. intros i. lia.
    + rewrite IH2. lia.
    + rewrite IH3. lia.
Qed.

(* ------------------------------------------------------------------ (b) abstract flight system *)

Lemma deliver_mono n p k : p <= deliver n p k /\ deliver n p k <= S p.
Proof. unfold deliver. destruct ((k =? p) && (p <? n)); lia. Qed.

Lemma deliver_bound n p k : p <= n -> deliver n p k <= n.
Proof.
  unfold deliver. destruct (k =? p) eqn:A; cbn [andb]; [|lia].
  destruct (p <? n) eqn:B; [apply Nat.ltb_lt in B; lia | lia].
Qed.

Lemma round_mono n a : forall p, p <= round n p a.
Proof.
  unfold round. induction a as [|k r IH]; intros p; cbn [fold_left]; [lia|].
  specialize (IH (deliver n p k)). pose proof (deliver_mono n p k). lia.
Qed.

Lemma round_bound n a : forall p, p <= n -> round n p a <= n.
Proof.
  unfold round. induction a as [|k r IH]; intros p H; cbn [fold_left]; [lia|].
  apply IH. apply deliver_bound. exact H.
Qed.

(* duplicates, old flights and flights from the future never take the handshake backwards *)
Lemma rounds_mono n s : forall p, p <= rounds n p s.
Proof.
  induction s as [|a r IH]; intros p; cbn [rounds]; [lia|].
  specialize (IH (round n p a)). pose proof (round_mono n a p). lia.
Qed.

Lemma rounds_bound n s : forall p, p <= n -> rounds n p s <= n.
Proof.
  induction s as [|a r IH]; intros p H; cbn [rounds]; [lia|]. apply IH. apply round_bound. exact H.
Qed.

Lemma round_takes n a : forall p, p < n -> In p a -> S p <= round n p a.
Proof.
  unfold round. induction a as [|k r IH]; intros p Hp Hin; [destruct Hin|]. cbn [fold_left].
  destruct (Nat.eq_dec k p) as [->|Hne].
  - unfold deliver at 2. rewrite Nat.eqb_refl. replace (p <? n) with true by (symmetry; apply Nat.ltb_lt; lia).
    cbn [andb]. apply (round_mono n r (S p)).
  - destruct Hin as [->|Hin]; [congruence|].
    unfold deliver at 2. replace (k =? p) with false by (symmetry; apply Nat.eqb_neq; lia). cbn [andb].
    apply IH; assumption.
Qed.

Lemma rounds_app n s1 : forall s2 p, rounds n p (s1 ++ s2) = rounds n (rounds n p s1) s2.
Proof. induction s1 as [|a r IH]; intros; cbn [rounds app]; [reflexivity | apply IH]. Qed.

(* a block of rounds in which the awaited flight arrives at least once advances the handshake *)
Lemma block_advances n blk : forall p, p < n -> In p (concat blk) -> S p <= rounds n p blk.
Proof.
  induction blk as [|a r IH]; intros p Hp Hin; [destruct Hin|].
  cbn [rounds]. cbn [concat] in Hin. apply in_app_or in Hin.
  destruct Hin as [Ha|Hr].
  - pose proof (round_takes n a p Hp Ha). pose proof (rounds_mono n r (round n p a)). lia.
  - destruct (Nat.eq_dec (round n p a) p) as [Heq|Hne].
    + rewrite Heq. apply IH; assumption.
    + pose proof (round_mono n a p). pose proof (rounds_mono n r (round n p a)). lia.
Qed.

(* every flight number arrives at least once during the block (whatever else arrives, in whatever
   order and multiplicity): "delivered at least once within k retransmissions" for blocks of k rounds *)
Definition block_fair (n : nat) (blk : list (list nat)) : Prop := forall q, q < n -> In q (concat blk).

Lemma blocks_progress n blocks : forall p, p <= n -> Forall (block_fair n) blocks ->
  Nat.min n (p + length blocks) <= rounds n p (concat blocks).
Proof.
  induction blocks as [|b r IH]; intros p Hp Hf; cbn [concat length].
  - cbn [rounds]. lia.
  - inversion Hf as [|? ? Hb Hr]; subst. rewrite rounds_app.
    destruct (Nat.eq_dec p n) as [->|Hne].
    + pose proof (rounds_mono n b n). pose proof (rounds_bound n b n (le_n n)).
      replace (rounds n n b) with n by lia.
      pose proof (rounds_mono n (concat r) n). lia.
    + assert (Hlt : p < n) by lia.
      pose proof (block_advances n b p Hlt (Hb p Hlt)) as Hadv.
      pose proof (rounds_bound n b p Hp) as Hbd.
      specialize (IH (rounds n p b) Hbd Hr). lia.
Qed.

(* LIVENESS of the abstract flight system: if the schedule splits into n blocks of at most k
   timeout rounds each, and within every block every flight gets through at least once, then
   after those (at most k*n) rounds both peers are done - whatever was lost, duplicated or
   reordered in between *)
Lemma flights_complete n k blocks :
  length blocks = n -> Forall (block_fair n) blocks -> Forall (fun b => length b <= k) blocks ->
  both_done n (rounds n 0 (concat blocks)) = true /\ length (concat blocks) <= k * n.
Proof.
  intros Hlen Hf Hk. split.
  - pose proof (blocks_progress n blocks 0 (Nat.le_0_l n) Hf) as H.
    pose proof (rounds_bound n (concat blocks) 0 (Nat.le_0_l n)) as Hb.
    unfold both_done. apply Nat.eqb_eq. rewrite Hlen in H. lia.
  - subst n. clear Hf. induction Hk as [|b r Hb Hr IH]; cbn [concat length]; [lia|].
    rewrite app_length. lia.
Qed.

(* and completion is stable: nothing that arrives afterwards changes it *)
Lemma done_stable n s : rounds n n s = n.
Proof. pose proof (rounds_mono n s n). pose proof (rounds_bound n s n (le_n n)). lia. Qed.

(* non-vacuity: 6 flights, k = 3, losses, duplicates, stale and future copies *)
Example flights_example :
  let blocks := [ [[]; [0; 0]; [5]]; [[0]; [1]]; [[]; []; [1; 2; 0]]; [[3; 3]]; [[2]; [9]; [4; 4; 1]]; [[5]] ] in
  length blocks = 6 /\ Forall (fun b => length b <= 3) blocks /\ rounds 6 0 (concat blocks) = 6.
Proof.
  split; [reflexivity|]. split.
  - repeat (apply Forall_cons; [cbn; lia|]). apply Forall_nil.
  - vm_compute. reflexivity.
Qed.

Example msn_example :
  fst (hs_run {| hs_last := -1; hs_count := 0 |}
        [ {| h_msn := 0; h_ok := true |}; {| h_msn := 2; h_ok := true |}; {| h_msn := 1; h_ok := true |};
          {| h_msn := 1; h_ok := true |}; {| h_msn := 2; h_ok := true |}; {| h_msn := 2; h_ok := true |};
          {| h_msn := 3; h_ok := false |}; {| h_msn := 3; h_ok := true |} ]) = [0; 1; 2; 3]%Z.
Proof. reflexivity. Qed.

(* ------------------------------------------------------------------ (c) the library's handshakes as flight systems *)
Lemma flights_alternate ske m : alternating Client (map fst (flights ske m)) = true.
Proof. destruct ske, m; reflexivity. Qed.

Lemma nflights_values ske :
  nflights ske HFull = 6 /\ nflights ske HClientAuth = 6 /\ nflights ske HResumed = 5.
Proof. destruct ske; repeat split; reflexivity. Qed.

Lemma last_sender_values ske :
  last_sender ske HFull = Server /\ last_sender ske HClientAuth = Server /\ last_sender ske HResumed = Client.
Proof. destruct ske; repeat split; reflexivity. Qed.

(* liveness of the abstract flight system instantiated with each handshake of the library *)
Lemma modes_complete ske m k blocks :
  length blocks = nflights ske m -> Forall (block_fair (nflights ske m)) blocks ->
  Forall (fun b => length b <= k) blocks ->
  both_done (nflights ske m) (rounds (nflights ske m) 0 (concat blocks)) = true /\
  length (concat blocks) <= k * nflights ske m.
Proof. apply flights_complete. Qed.

