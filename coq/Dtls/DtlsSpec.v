(* C16 - what the property demands of the receive side, independent of the code's shape.

   "No DTLS record is accepted twice": a record is identified by its (epoch, sequence number);
   the history of a receiver is the list of records it let through to decryption.
   "survives reorder": a record that has not been accepted before and is not older than the
   anti-replay window (RFC 6347 4.1.2.6, minimum width 32) relative to the newest accepted record
   of its epoch must not be dropped by the replay protection. *)
From Coq Require Import NArith List.
Import ListNotations.
Local Open Scope N_scope.

Definition record_id := (N * N)%type.        (* (epoch, sequence number) *)

Definition never_twice (accepted : list record_id) : Prop := NoDup accepted.

Definition window_width : N := 32.

(* s is new, and within the window of (or above) everything accepted so far on this epoch *)
Definition fresh_in_window (accepted : list N) (s : N) : Prop :=
  ~ In s accepted /\ forall a, In a accepted -> a < s + window_width.

(* an already accepted number, or one that fell out of the window, may (must, if seen) be refused *)
Definition stale (accepted : list N) (s : N) : Prop := In s accepted.
