(* Property C15 - after a fatal error or closure a session stays dead.  Statements only. *)
From MV Require Import Sess.SessModel Sess.SessProofs.
Local Open Scope Z_scope.

(* once flagged, every later record is refused and the state never changes, for every continuation *)
Theorem c15_sticky : forall is s, err s || closed s = true -> run s is = (s, repeat Refuse (length is)).
Proof. exact dead_stays_dead. Qed.
Print Assumptions c15_sticky.

Theorem c15_dead_no_deliver_no_seal : forall is s, err s || closed s = true ->
  ~ In Deliver (snd (run s is)) /\ encode_app_ok (fst (run s is)) = false.
Proof. exact dead_no_deliver_no_seal. Qed.
Print Assumptions c15_dead_no_deliver_no_seal.

(* every fatal alert sent - protocol, decoding, decryption error, for every protocol version - flags the session *)
Theorem c15_fatal_out_flags : forall s r o s' d, decode s r o = (s', AlertOut d) -> err s' = true.
Proof. exact fatal_out_flags. Qed.
Print Assumptions c15_fatal_out_flags.

(* receiving close_notify closes; receiving a fatal alert (TLS 1.3: any other alert) flags *)
Theorem c15_alert_in_flags : forall s r o s' lvl d, decode s r o = (s', AlertIn lvl d) ->
  (d = c_SSL_ALERT_CLOSE_NOTIFY -> closed s' = true) /\
  (d <> c_SSL_ALERT_CLOSE_NOTIFY -> (v13 s = true /\ is_fallback o = false) \/ lvl = c_SSL_ALERT_LEVEL_FATAL -> err s' = true).
Proof. exact alert_in_flags. Qed.
Print Assumptions c15_alert_in_flags.

Theorem c15_flags_monotone : forall s r o,
  (err s = true -> err (fst (decode s r o)) = true) /\ (closed s = true -> closed (fst (decode s r o)) = true).
Proof. exact flags_monotone. Qed.
Print Assumptions c15_flags_monotone.

(* the only undecryptable records tolerated are those a TLS 1.3 server skips while rejecting early data, up to the limit *)
Theorem c15_early_data_exception_bounded : forall s r o s' out,
  v13 s = true -> is_fallback o = false -> rsec s = true -> is_good r = false ->
  r_outer r <> c_SSL_RECORD_TYPE_CHANGE_CIPHER_SPEC ->
  (r_outer r = c_SSL_RECORD_TYPE_ALERT -> r_short_alert r = false) ->
  decode s r o = (s', out) ->
  out = Refuse \/ (exists d, out = AlertOut d /\ err s' = true) \/
  (out = Ignored /\ ed_skip s = true /\ ed_seen s' <= ed_max s /\ ed_seen s' = ed_seen s + r_len r).
Proof. exact undecryptable_tolerated_only_early_data. Qed.
Print Assumptions c15_early_data_exception_bounded.
