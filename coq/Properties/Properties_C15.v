(* Property C15 - after a fatal error or closure a session stays dead.  Statements only.
   [decode] covers TLS 1.1/1.2, TLS 1.3 and DTLS 1.0/1.2 (dtls s = true).
   Reading for DTLS: DTLS drops records of another epoch and replayed sequence numbers without decrypting them (RFC 6347
   4.1.2.1, 4.1.2.6).  Such a silent discard is not "an error the session hit": no alert is sent or received and no error is
   reported, so the session may live on (c15_dtls_not_accepted_dropped: the drop changes nothing but the expected epoch).
   Everything else is as in TLS: a record that is decrypted and does not verify is fatal (c15_dtls_undecryptable_kills), every
   fatal alert sent or received and every close_notify flags the session, and a flagged DTLS session refuses every record
   (c15_sticky), delivers and encrypts nothing and never has its last handshake flight encoded again (c15_dtls_no_resend_when_dead). *)
From MV Require Import Sess.SessModel Sess.SessProofs.
Local Open Scope Z_scope.

(* once flagged, every later record is refused and the state never changes, for every continuation *)
Theorem c15_sticky : forall is s, err s || closed s = true -> run s is = (s, repeat Refuse (length is)).
Proof. exact dead_stays_dead. Qed.
Print Assumptions c15_sticky.

Theorem c15_dead_no_deliver_no_seal : forall is s, err s || closed s = true ->
  ~ In Deliver (snd (run s is)) /\ encode_app_ok (fst (run s is)) = false.
Proof. exact dead_no_deliver_no_seal. Qed.
Print Assumptions c15_dead_no_deliver_no_seal.

(* every fatal alert sent - protocol, decoding, decryption error, for every protocol version - flags the session *)
Theorem c15_fatal_out_flags : forall s r o s' d, decode s r o = (s', AlertOut d) -> err s' = true.
Proof. exact fatal_out_flags. Qed.
Print Assumptions c15_fatal_out_flags.

(* receiving close_notify closes; receiving a fatal alert (TLS 1.3: any other alert) flags *)
Theorem c15_alert_in_flags : forall s r o s' lvl d, decode s r o = (s', AlertIn lvl d) ->
  (d = c_SSL_ALERT_CLOSE_NOTIFY -> closed s' = true) /\
  (d <> c_SSL_ALERT_CLOSE_NOTIFY -> (dtls s = false /\ v13 s = true /\ is_fallback o = false) \/ lvl = c_SSL_ALERT_LEVEL_FATAL -> err s' = true).
Proof. exact alert_in_flags. Qed.
Print Assumptions c15_alert_in_flags.

Theorem c15_flags_monotone : forall s r o,
  (err s = true -> err (fst (decode s r o)) = true) /\ (closed s = true -> closed (fst (decode s r o)) = true).
Proof. exact flags_monotone. Qed.
Print Assumptions c15_flags_monotone.

(* the only undecryptable records tolerated are those a TLS 1.3 server skips while rejecting early data, up to the limit *)
Theorem c15_early_data_exception_bounded : forall s r o s' out,
  dtls s = false -> v13 s = true -> is_fallback o = false -> rsec s = true -> is_good r = false ->
  r_hdr r <> HdrTrunc ->
  r_outer r <> c_SSL_RECORD_TYPE_CHANGE_CIPHER_SPEC ->
  (r_outer r = c_SSL_RECORD_TYPE_ALERT -> r_short_alert r = false) ->
  decode s r o = (s', out) ->
  out = Refuse \/ (exists d, out = AlertOut d /\ err s' = true) \/
  (out = Ignored /\ ed_skip s = true /\ ed_seen s' <= ed_max s /\ ed_seen s' = ed_seen s + r_len r).
Proof. exact undecryptable_tolerated_only_early_data. Qed.
Print Assumptions c15_early_data_exception_bounded.

(* DTLS: a record that is not taken to decryption (other epoch, replayed sequence number) is dropped: either with a fatal alert
   (later epoch at a server still expecting ClientHello) or silently / with a retransmission request, and then nothing but the
   expected epoch changes *)
Theorem c15_dtls_not_accepted_dropped : forall s r o s' out,
  r_hdr r = HdrOk -> ~ dtls_accepts s r -> decodeD s r o = (s', out) ->
  (exists d, out = AlertOut d /\ err s' = true) \/
  (silent out /\ err s' = err s /\ closed s' = closed s /\ hs s' = hs s /\ rsec s' = rsec s /\ wsec s' = wsec s /\
   pccs s' = pccs s /\ adx s' = adx s /\ ignored s' = ignored s /\ (xepoch s' = xepoch s \/ xepoch s' = r_epoch r)).
Proof. exact dtls_not_accepted_dropped. Qed.
Print Assumptions c15_dtls_not_accepted_dropped.

(* DTLS: no undecryptable record is tolerated once it has been taken to decryption *)
Theorem c15_dtls_undecryptable_kills : forall s r o s' out,
  rsec s = true -> is_good r = false -> r_hdr r = HdrOk -> dtls_accepts s r ->
  decodeD s r o = (s', out) -> exists d, out = AlertOut d /\ err s' = true.
Proof. exact dtls_undecryptable_kills. Qed.
Print Assumptions c15_dtls_undecryptable_kills.

(* DTLS: the flags change only with an alert sent or received *)
Theorem c15_dtls_flags_only_by_alerts : forall s r o s' out,
  decodeD s r o = (s', out) ->
  match out with
  | AlertOut _ => err s' = true
  | AlertIn _ _ => True
  | _ => err s' = err s /\ closed s' = closed s
  end.
Proof. exact dtls_flags_only_by_alerts. Qed.
Print Assumptions c15_dtls_flags_only_by_alerts.

(* DTLS: matrixDtlsGetOutdata never encodes the last flight of a flagged session again, and rebuilds a flight of a live session
   only at a flight boundary with nothing pending and no application data received *)
Theorem c15_dtls_no_resend_when_dead : forall s pending fd resumed cauth,
  err s || closed s = true -> dtls_getout s pending fd resumed cauth <> GoResend.
Proof. exact dtls_getout_dead. Qed.
Print Assumptions c15_dtls_no_resend_when_dead.

Theorem c15_dtls_resend_only_live : forall s pending fd resumed cauth,
  dtls_getout s pending fd resumed cauth = GoResend ->
  pending = false /\ adx s = false /\ fd = false /\ err s = false /\ closed s = false /\ can_resend s resumed cauth = true.
Proof. exact dtls_getout_resend. Qed.
Print Assumptions c15_dtls_resend_only_live.
