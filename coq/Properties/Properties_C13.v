(* Property C13 - big-integer arithmetic (pstm) is exact for all operands, also when the destination
   aliases an operand, or else reports an error.  Only statements closed by `exact`; the proofs live in
   Big/BigProofs.v.  Operands are object ids in a store: a = c, b = c, a = b = c are instances. *)
From MV Require Import Big.BigSpec Big.BigProofs.
Local Open Scope Z_scope.

(* pstm_add: exact signed sum, for every aliasing of a, b, c; operands other than c untouched *)
Theorem c13_add_exact : forall a b c st st',
  wfp (get st a) -> wfp (get st b) -> wfp (get st c) -> pstm_add a b c st = Ok st' ->
  wfp (get st' c) /\ ival (get st' c) = ival (get st a) + ival (get st b) /\ frame st st' (fun j => j = c).
Proof. exact pstm_add_exact. Qed.
Print Assumptions c13_add_exact.

(* pstm_add fails only with PS_LIMIT_FAIL and only when the sum needs more than PSTM_MAX_SIZE digits *)
Theorem c13_add_error : forall a b c st e,
  wfp (get st a) -> wfp (get st b) -> wfp (get st c) -> pstm_add a b c st = Err e ->
  e = ELimit /\ W ^ Z.of_nat MAXN <= Z.abs (ival (get st a) + ival (get st b)).
Proof. exact pstm_add_error. Qed.
Print Assumptions c13_add_error.

Theorem c13_sub_exact : forall a b c st st',
  wfp (get st a) -> wfp (get st b) -> wfp (get st c) -> pstm_sub a b c st = Ok st' ->
  wfp (get st' c) /\ ival (get st' c) = ival (get st a) - ival (get st b) /\ frame st st' (fun j => j = c).
Proof. exact pstm_sub_exact. Qed.
Print Assumptions c13_sub_exact.

Theorem c13_sub_error : forall a b c st e,
  wfp (get st a) -> wfp (get st b) -> wfp (get st c) -> pstm_sub a b c st = Err e ->
  e = ELimit /\ W ^ Z.of_nat MAXN <= Z.abs (ival (get st a) - ival (get st b)).
Proof. exact pstm_sub_error. Qed.
Print Assumptions c13_sub_error.

(* s_pstm_add: unsigned carry chain *)
Theorem c13_s_add_exact : forall a b c st st',
  wfp (get st a) -> wfp (get st b) -> wfp (get st c) -> s_pstm_add a b c st = Ok st' ->
  wfp (get st' c) /\ mag (get st' c) = mag (get st a) + mag (get st b) /\ frame st st' (fun j => j = c).
Proof. exact s_pstm_add_exact. Qed.
Print Assumptions c13_s_add_exact.

Theorem c13_s_add_error : forall a b c st e,
  wfp (get st a) -> wfp (get st b) -> wfp (get st c) -> s_pstm_add a b c st = Err e ->
  e = ELimit /\ W ^ Z.of_nat MAXN <= mag (get st a) + mag (get st b).
Proof. exact s_pstm_add_error. Qed.
Print Assumptions c13_s_add_error.

(* pstm_sub_s: unsigned borrow chain; under its documented precondition |a| >= |b| it always succeeds *)
Theorem c13_sub_s_exact : forall a b c st,
  wfp (get st a) -> wfp (get st b) -> wfp (get st c) -> mag (get st b) <= mag (get st a) ->
  exists st', pstm_sub_s a b c st = Ok st' /\ wfp (get st' c) /\
    mag (get st' c) = mag (get st a) - mag (get st b) /\ frame st st' (fun j => j = c).
Proof. exact pstm_sub_s_exact. Qed.
Print Assumptions c13_sub_s_exact.

(* comparison *)
Theorem c13_cmp_mag_exact : forall a b st, wfp (get st a) -> wfp (get st b) ->
  pstm_cmp_mag a b st = cmp_spec (mag (get st a)) (mag (get st b)).
Proof. exact pstm_cmp_mag_spec. Qed.
Print Assumptions c13_cmp_mag_exact.

Theorem c13_cmp_exact : forall a b st, wfp (get st a) -> wfp (get st b) ->
  pstm_cmp a b st = cmp_spec (ival (get st a)) (ival (get st b)).
Proof. exact pstm_cmp_spec. Qed.
Print Assumptions c13_cmp_exact.

(* pstm_clamp normalises without changing the value *)
Theorem c13_clamp_exact : forall a st, pre_wf (get st a) ->
  wfp (get (pstm_clamp a st) a) /\ mag (get (pstm_clamp a st) a) = mag (get st a) /\ frame st (pstm_clamp a st) (fun j => j = a).
Proof. exact pstm_clamp_exact. Qed.
Print Assumptions c13_clamp_exact.

(* pstm_mul_d: product with one digit *)
Theorem c13_mul_d_exact : forall a b c st st',
  wfp (get st a) -> wfp (get st c) -> digit b -> pstm_mul_d a b c st = Ok st' ->
  wfp (get st' c) /\ ival (get st' c) = ival (get st a) * b /\ frame st st' (fun j => j = c).
Proof. exact pstm_mul_d_exact. Qed.
Print Assumptions c13_mul_d_exact.

(* pstm_mul_d insists on room for one more digit: PS_MEM_FAIL exactly for a PSTM_MAX_SIZE-digit operand *)
Theorem c13_mul_d_error : forall a b c st e,
  wfp (get st a) -> wfp (get st c) -> digit b -> pstm_mul_d a b c st = Err e -> e = EMem /\ used (get st a) = MAXN.
Proof. exact pstm_mul_d_error. Qed.
Print Assumptions c13_mul_d_error.

(* pstm_add_d / pstm_sub_d (the temporary is the object fresh a c) *)
Theorem c13_add_d_exact : forall a b c st st',
  wfp (get st a) -> wfp (get st c) -> digit b -> pstm_add_d a b c st = Ok st' ->
  wfp (get st' c) /\ ival (get st' c) = ival (get st a) + b /\ frame st st' (fun j => j = c \/ j = fresh a c).
Proof. exact pstm_add_d_exact. Qed.
Print Assumptions c13_add_d_exact.

Theorem c13_add_d_error : forall a b c st e,
  wfp (get st a) -> wfp (get st c) -> digit b -> pstm_add_d a b c st = Err e ->
  e = ELimit /\ W ^ Z.of_nat MAXN <= Z.abs (ival (get st a) + b).
Proof. exact pstm_add_d_error. Qed.
Print Assumptions c13_add_d_error.

Theorem c13_sub_d_exact : forall a b c st st',
  wfp (get st a) -> wfp (get st c) -> digit b -> pstm_sub_d a b c st = Ok st' ->
  wfp (get st' c) /\ ival (get st' c) = ival (get st a) - b /\ frame st st' (fun j => j = c \/ j = fresh a c).
Proof. exact pstm_sub_d_exact. Qed.
Print Assumptions c13_sub_d_exact.

Theorem c13_sub_d_error : forall a b c st e,
  wfp (get st a) -> wfp (get st c) -> digit b -> pstm_sub_d a b c st = Err e ->
  e = ELimit /\ W ^ Z.of_nat MAXN <= Z.abs (ival (get st a) - b).
Proof. exact pstm_sub_d_error. Qed.
Print Assumptions c13_sub_d_error.

(* pstm_mul_comba (generic column loop): exact signed product for every aliasing, c = a, c = b, a = b = c *)
Theorem c13_mul_comba_exact : forall a b c st st',
  wfp (get st a) -> wfp (get st b) -> wfp (get st c) -> pstm_mul_comba a b c st = Ok st' ->
  wfp (get st' c) /\ ival (get st' c) = ival (get st a) * ival (get st b) /\ frame st st' (fun j => j = c).
Proof. exact pstm_mul_comba_exact. Qed.
Print Assumptions c13_mul_comba_exact.

(* it refuses exactly when a->used + b->used > PSTM_MAX_SIZE *)
Theorem c13_mul_comba_error : forall a b c st e,
  wfp (get st a) -> wfp (get st b) -> wfp (get st c) -> pstm_mul_comba a b c st = Err e ->
  e = EMem /\ (MAXN < used (get st a) + used (get st b))%nat.
Proof. exact pstm_mul_comba_error. Qed.
Print Assumptions c13_mul_comba_error.

(* pstm_copy, digit shifts *)
Theorem c13_copy_exact : forall a b st, wfp (get st a) -> wfp (get st b) ->
  exists st', pstm_copy a b st = Ok st' /\ wfp (get st' b) /\ ival (get st' b) = ival (get st a) /\ frame st st' (fun j => j = b).
Proof. exact pstm_copy_exact. Qed.
Print Assumptions c13_copy_exact.

Theorem c13_lshd_exact : forall c z st st', wfp (get st c) -> (0 < z)%nat -> Z.of_nat (MAXN + z) < 65536 ->
  pstm_lshd c z st = Ok st' ->
  wfp (get st' c) /\ ival (get st' c) = ival (get st c) * W ^ Z.of_nat z /\ frame st st' (fun j => j = c).
Proof. exact pstm_lshd_exact. Qed.
Print Assumptions c13_lshd_exact.

Theorem c13_lshd_error : forall c z st e, wfp (get st c) -> (0 < z)%nat -> Z.of_nat (MAXN + z) < 65536 ->
  pstm_lshd c z st = Err e -> e = EMem /\ (MAXN < used (get st c) + z)%nat.
Proof. exact pstm_lshd_error. Qed.
Print Assumptions c13_lshd_error.

Theorem c13_rshd_exact : forall a b st, wfp (get st a) ->
  wfp (get (pstm_rshd a b st) a) /\ mag (get (pstm_rshd a b st) a) = mag (get st a) / W ^ Z.of_nat b /\
  (mag (get st a) / W ^ Z.of_nat b <> 0 -> sign (get (pstm_rshd a b st) a) = sign (get st a)) /\
  frame st (pstm_rshd a b st) (fun j => j = a).
Proof. exact pstm_rshd_exact. Qed.
Print Assumptions c13_rshd_exact.

(* pstm_mul_2 *)
Theorem c13_mul_2_exact : forall a b st st', wfp (get st a) -> wfp (get st b) -> pstm_mul_2 a b st = Ok st' ->
  wfp (get st' b) /\ ival (get st' b) = 2 * ival (get st a) /\ frame st st' (fun j => j = b).
Proof. exact pstm_mul_2_exact. Qed.
Print Assumptions c13_mul_2_exact.

Theorem c13_mul_2_error : forall a b st e, wfp (get st a) -> wfp (get st b) -> pstm_mul_2 a b st = Err e ->
  e = EMem /\ used (get st a) = MAXN.
Proof. exact pstm_mul_2_error. Qed.
Print Assumptions c13_mul_2_error.

(* pstm_sqr_comba (generic column loop with doubled cross terms), also in place (b = a) *)
Theorem c13_sqr_comba_exact : forall a b st st', wfp (get st a) -> wfp (get st b) -> pstm_sqr_comba a b st = Ok st' ->
  wfp (get st' b) /\ ival (get st' b) = ival (get st a) * ival (get st a) /\ frame st st' (fun j => j = b).
Proof. exact pstm_sqr_comba_exact. Qed.
Print Assumptions c13_sqr_comba_exact.

Theorem c13_sqr_comba_error : forall a b st e, wfp (get st a) -> wfp (get st b) -> pstm_sqr_comba a b st = Err e ->
  e = EMem /\ (MAXN < used (get st a) + used (get st a))%nat.
Proof. exact pstm_sqr_comba_error. Qed.
Print Assumptions c13_sqr_comba_error.

(* PARTIAL: pstm_div_2 is shown only to be total on well formed operands; its value theorem (descending shift
   loop) is not proved.  Like pstm_div_2, the operations pstm_mul_2d, pstm_mod_2d, pstm_div_2d, pstm_2expt,
   pstm_cmp_d, pstm_count_bits, pstm_read_unsigned_bin, pstm_to_unsigned_bin, pstm_montgomery_setup,
   pstm_montgomery_calc_normalization and pstm_montgomery_reduce are modelled in Big/BigModel.v and compared with the
   library AND with exact integer arithmetic on every run, but have no theorem yet. *)
Theorem c13_div_2_total_partial : forall a b st, pre_wf (get st a) -> pre_wf (get st b) ->
  exists st', pstm_div_2 a b st = Ok st'.
Proof. exact pstm_div_2_total_partial. Qed.
Print Assumptions c13_div_2_total_partial.
