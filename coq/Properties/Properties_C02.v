(* C02 - delivered stream is an exact prefix of what the peer sent, under any attack on the ciphertext.
   Model: Rec/RecModel.v (byte-level open_* / seal_* of the three record-protection families, code after
   pending-fixes/C02-*.patch).  Spec: Rec/RecSpec.v.  Proofs: Rec/RecProofs.v.
   Primitives are universally quantified; their contracts and the no-forgery hypothesis Hunf ([no_forgery], the only place
   cryptographic hardness enters) appear as premises of the statements that need them. *)
From MV Require Import Rec.RecModel Rec.RecSpec Rec.RecProofs.
Set Printing Width 140.

(* CBC+HMAC, every plaintext length 0..maxfrag *)
Theorem c02_roundtrip_cbc :
  forall (msz : nat) (cbc_enc cbc_dec : bytes -> bytes -> bytes -> bytes) (mac : bytes -> bytes -> bytes),
         (forall (k iv : bytes) (p : list N), length p mod blk = 0 -> cbc_dec k iv (cbc_enc k iv p) = p) ->
         (forall k iv p : bytes, length (cbc_enc k iv p) = length p) ->
         (forall k m : bytes, msz <= length (mac k m)) ->
         forall (s : rst) (rnd : list N) (typ : N) (pt : bytes),
         (expl s = true -> length rnd = blk) ->
         (nlen pt <= maxfrag s)%N ->
         open_cbc msz cbc_dec mac s typ (fst (seal_cbc msz cbc_enc mac s rnd typ pt)) =
         Deliver typ pt (snd (seal_cbc msz cbc_enc mac s rnd typ pt)).
Proof. exact roundtrip_cbc. Qed.
Print Assumptions c02_roundtrip_cbc.

(* any padding length 1..256 that completes a block is accepted when pad bytes and MAC are right *)
Theorem c02_cbc_accepts_every_valid_padding :
  forall (msz : nat) (cbc_dec : bytes -> bytes -> bytes -> bytes) (mac : bytes -> bytes -> bytes),
         (forall k m : bytes, msz <= length (mac k m)) ->
         forall (s : rst) (typ : N) (ct ivp pt : list N) (pc : nat),
         length ivp = ivl s ->
         1 <= pc <= 256 ->
         (length ivp + length pt + msz + pc) mod blk = 0 ->
         length ct = length ivp + length pt + msz + pc ->
         cbc_dec (k_enc s) (k_iv s) ct =
         ivp ++ pt ++ firstn msz (mac (k_mac s) (hdr13 s typ (length pt) ++ pt)) ++ repeat (N.of_nat (pc - 1)) pc ->
         (nlen pt <= maxfrag s)%N -> open_cbc msz cbc_dec mac s typ ct = Deliver typ pt (bump (set_iv s (skipn (length ct - blk) ct))).
Proof. exact open_cbc_of_plain. Qed.
Print Assumptions c02_cbc_accepts_every_valid_padding.

(* TLS 1.2 AES-GCM, 1 <= |pt|; the empty fragment is refuted below *)
Theorem c02_roundtrip_gcm12_partial :
  forall (aead_seal : bytes -> bytes -> bytes -> bytes -> bytes) (aead_open : bytes -> bytes -> bytes -> bytes -> option bytes),
         (forall k n a p : bytes, aead_open k n a (aead_seal k n a p) = Some p) ->
         (forall k n a p : bytes, length (aead_seal k n a p) = length p + tagl) ->
         forall (s : rst) (typ : N) (pt : list N),
         1 <= length pt ->
         (nlen pt <= maxfrag s)%N ->
         open_gcm12 aead_open s typ (fst (seal_gcm12 aead_seal s typ pt)) = Deliver typ pt (snd (seal_gcm12 aead_seal s typ pt)).
Proof. exact roundtrip_gcm12. Qed.
Print Assumptions c02_roundtrip_gcm12_partial.

(* TLS 1.2 ChaCha20-Poly1305 *)
Theorem c02_roundtrip_chacha12 :
  forall (aead_seal : bytes -> bytes -> bytes -> bytes -> bytes) (aead_open : bytes -> bytes -> bytes -> bytes -> option bytes),
         (forall k n a p : bytes, aead_open k n a (aead_seal k n a p) = Some p) ->
         (forall k n a p : bytes, length (aead_seal k n a p) = length p + tagl) ->
         forall (s : rst) (typ : N) (pt : bytes),
         (nlen pt <= maxfrag s)%N ->
         open_chacha12 aead_open s typ (fst (seal_chacha12 aead_seal s typ pt)) = Deliver typ pt (snd (seal_chacha12 aead_seal s typ pt)).
Proof. exact roundtrip_chacha12. Qed.
Print Assumptions c02_roundtrip_chacha12.

(* TLS 1.3, 1 <= |pt| <= 2^14, any zero padding; the empty fragment is refuted below *)
Theorem c02_roundtrip_tls13_partial :
  forall (aead_seal : bytes -> bytes -> bytes -> bytes -> bytes) (aead_open : bytes -> bytes -> bytes -> bytes -> option bytes),
         (forall k n a p : bytes, aead_open k n a (aead_seal k n a p) = Some p) ->
         (forall k n a p : bytes, length (aead_seal k n a p) = length p + tagl) ->
         forall (gcm : bool) (s : rst) (pad : nat) (typ : N) (pt : list N),
         typ <> 0%N ->
         1 <= length pt ->
         (nlen pt <= rn_TLS_1_3_MAX_PLAINTEXT_FRAGMENT_LEN)%N ->
         open_tls13 aead_open gcm s 23 3 3 (fst (seal_tls13 aead_seal s pad typ pt)) =
         Deliver typ pt (snd (seal_tls13 aead_seal s pad typ pt)).
Proof. exact roundtrip_tls13. Qed.
Print Assumptions c02_roundtrip_tls13_partial.

(* the receiver refuses the sender's own zero-length GCM record (csAesGcmDecrypt: len < 25) *)
Theorem c02_roundtrip_gcm12_empty_refuted :
  forall (aead_seal : bytes -> bytes -> bytes -> bytes -> bytes) (aead_open : bytes -> bytes -> bytes -> bytes -> option bytes),
         (forall k n a p : bytes, length (aead_seal k n a p) = length p + tagl) ->
         forall (s : rst) (typ : N), open_gcm12 aead_open s typ (fst (seal_gcm12 aead_seal s typ [])) = Fatal c_SSL_ALERT_DECRYPT_ERROR s.
Proof. exact empty_gcm12_rejected. Qed.
Print Assumptions c02_roundtrip_gcm12_empty_refuted.

(* the TLS 1.3 receiver refuses a zero-length fragment (inner-type scan stops at the first byte) *)
Theorem c02_roundtrip_tls13_empty_refuted :
  forall (aead_seal : bytes -> bytes -> bytes -> bytes -> bytes) (aead_open : bytes -> bytes -> bytes -> bytes -> option bytes),
         (forall k n a p : bytes, aead_open k n a (aead_seal k n a p) = Some p) ->
         (forall k n a p : bytes, length (aead_seal k n a p) = length p + tagl) ->
         forall (gcm : bool) (s : rst) (pad : nat) (typ : N),
         open_tls13 aead_open gcm s 23 3 3 (fst (seal_tls13 aead_seal s pad typ [])) = Fatal c_SSL_ALERT_UNEXPECTED_MESSAGE (bump s).
Proof. exact empty_tls13_rejected. Qed.
Print Assumptions c02_roundtrip_tls13_empty_refuted.

(* an accepted CBC record was MAC-verified over seq || type || version || length || data *)
Theorem c02_binds_header_cbc :
  forall (msz : nat) (cbc_dec : bytes -> bytes -> bytes -> bytes) (mac : bytes -> bytes -> bytes) (s : rst) 
           (typ : N) (body : bytes) (t : N) (pt : bytes) (s' : rst),
         open_cbc msz cbc_dec mac s typ body = Deliver t pt s' ->
         t = typ /\
         s' = bump (set_iv s (skipn (length body - blk) body)) /\
         verified_cbc msz cbc_dec mac s typ body = Some ([], hdr13 s typ (length pt), pt).
Proof. exact binds_cbc. Qed.
Print Assumptions c02_binds_header_cbc.

(* ... spelled out on the decrypted bytes *)
Theorem c02_binds_header_cbc_bytes :
  forall (msz : nat) (cbc_dec : bytes -> bytes -> bytes -> bytes) (mac : bytes -> bytes -> bytes) (s : rst) 
           (typ : N) (body n h d : bytes),
         verified_cbc msz cbc_dec mac s typ body = Some (n, h, d) ->
         n = [] /\
         h = be64 (seqn s) ++ [typ; vmaj s; vmin s] ++ be16 (N.of_nat (length d)) /\
         (exists off : nat, sub (cbc_dec (k_enc s) (k_iv s) body) off msz = firstn msz (mac (k_mac s) (h ++ d))).
Proof. exact verified_cbc_meaning. Qed.
Print Assumptions c02_binds_header_cbc_bytes.

(* AAD = seq || type || version || plaintext length *)
Theorem c02_binds_header_gcm12 :
  forall (aead_open : bytes -> bytes -> bytes -> bytes -> option bytes) (s : rst) (typ : N) (body : bytes) 
           (t : N) (pt : bytes) (s' : rst),
         open_gcm12 aead_open s typ body = Deliver t pt s' ->
         t = typ /\
         s' = bump s /\
         verified_gcm12 aead_open s typ body = Some (firstn 4 (k_iv s) ++ firstn 8 body, hdr13 s typ (length pt), pt) /\
         aead_open (k_enc s) (firstn 4 (k_iv s) ++ firstn 8 body) (be64 (seqn s) ++ [typ; vmaj s; vmin s] ++ be16 (N.of_nat (length pt)))
           (skipn 8 body) = Some pt.
Proof. exact binds_gcm12. Qed.
Print Assumptions c02_binds_header_gcm12.

Theorem c02_binds_header_chacha12 :
  forall (aead_open : bytes -> bytes -> bytes -> bytes -> option bytes) (s : rst) (typ : N) (body : bytes) 
           (t : N) (pt : bytes) (s' : rst),
         open_chacha12 aead_open s typ body = Deliver t pt s' ->
         t = typ /\
         s' = bump s /\
         verified_chacha12 aead_open s typ body = Some (nonce_xor s, hdr13 s typ (length pt), pt) /\
         aead_open (k_enc s) (nonce_xor s) (be64 (seqn s) ++ [typ; vmaj s; vmin s] ++ be16 (N.of_nat (length pt))) body = Some pt.
Proof. exact binds_chacha12. Qed.
Print Assumptions c02_binds_header_chacha12.

(* AAD = header as received; nonce = IV xor seq; type and content come out of the authenticated inner plaintext *)
Theorem c02_binds_header_tls13 :
  forall (aead_open : bytes -> bytes -> bytes -> bytes -> option bytes) (gcm : bool) (s : rst) (typ maj min : N) 
           (body : bytes) (t : N) (pt : bytes) (s' : rst),
         open_tls13 aead_open gcm s typ maj min body = Deliver t pt s' ->
         s' = bump s /\
         (exists (ip : bytes) (i : nat),
            aead_open (k_enc s) (nonce_xor s) ([typ; maj; min] ++ be16 (N.of_nat (length body))) body = Some ip /\
            verified_tls13 aead_open gcm s typ maj min body = Some (nonce_xor s, aad13 typ maj min (length body), ip) /\
            i = scan_back ip (length ip - 1) /\ i <> 0 /\ t = nth i ip 0%N /\ pt = firstn i ip).
Proof. exact binds_tls13. Qed.
Print Assumptions c02_binds_header_tls13.

(* padding failure or MAC failure: the same alert, no data, the same state *)
Theorem c02_pad_mac_uniform :
  forall (msz : nat) (cbc_dec : bytes -> bytes -> bytes -> bytes) (mac : bytes -> bytes -> bytes) (s : rst) 
           (typ : N) (body : bytes) (s1 : rst) (macError : bool) (data macv : bytes),
         cbc_view msz cbc_dec s body = CbcView s1 macError data macv ->
         macError = true \/ beqb (firstn msz (mac (k_mac s) (hdr13 s typ (length data) ++ data))) macv = false ->
         open_cbc msz cbc_dec mac s typ body = Fatal c_SSL_ALERT_BAD_RECORD_MAC (bump (set_iv s (skipn (length body - blk) body))).
Proof. exact pad_mac_uniform. Qed.
Print Assumptions c02_pad_mac_uniform.

(* exact CBC statement *)
Theorem c02_cbc_seq_advances_in_every_mac_check :
  forall (msz : nat) (cbc_dec : bytes -> bytes -> bytes -> bytes) (mac : bytes -> bytes -> bytes) (s : rst) (typ : N) (body : bytes),
         match cbc_view msz cbc_dec s body with
         | CbcBadDec => open_cbc msz cbc_dec mac s typ body = Fault
         | CbcView _ _ _ _ =>
             (exists a : Z, open_cbc msz cbc_dec mac s typ body = Fatal a (bump (set_iv s (skipn (length body - blk) body)))) \/
             (exists pt : bytes, open_cbc msz cbc_dec mac s typ body = Deliver typ pt (bump (set_iv s (skipn (length body - blk) body))))
         | _ => exists a : Z, open_cbc msz cbc_dec mac s typ body = Fatal a s
         end.
Proof. exact cbc_seq_advance. Qed.
Print Assumptions c02_cbc_seq_advances_in_every_mac_check.

Theorem c02_seq_advances_only_on_success_gcm12 :
  forall (aead_open : bytes -> bytes -> bytes -> bytes -> option bytes) (s : rst) (typ : N) (body : bytes),
         (verified_gcm12 aead_open s typ body = None -> exists a : Z, open_gcm12 aead_open s typ body = Fatal a s) /\
         (forall (a : Z) (s' : rst),
          open_gcm12 aead_open s typ body = Fatal a s' ->
          s' = s \/ a = c_SSL_ALERT_RECORD_OVERFLOW /\ s' = bump s /\ verified_gcm12 aead_open s typ body <> None).
Proof. exact aead_seq_gcm12. Qed.
Print Assumptions c02_seq_advances_only_on_success_gcm12.

Theorem c02_seq_advances_only_on_success_chacha12 :
  forall (aead_open : bytes -> bytes -> bytes -> bytes -> option bytes) (s : rst) (typ : N) (body : bytes),
         (verified_chacha12 aead_open s typ body = None -> exists a : Z, open_chacha12 aead_open s typ body = Fatal a s) /\
         (forall (a : Z) (s' : rst),
          open_chacha12 aead_open s typ body = Fatal a s' ->
          s' = s \/ a = c_SSL_ALERT_RECORD_OVERFLOW /\ s' = bump s /\ verified_chacha12 aead_open s typ body <> None).
Proof. exact aead_seq_chacha12. Qed.
Print Assumptions c02_seq_advances_only_on_success_chacha12.

Theorem c02_seq_advances_only_on_success_tls13 :
  forall (aead_open : bytes -> bytes -> bytes -> bytes -> option bytes) (gcm : bool) (s : rst) (typ maj min : N) (body : bytes),
         (verified_tls13 aead_open gcm s typ maj min body = None ->
          open_tls13 aead_open gcm s typ maj min body = Fatal c_SSL_ALERT_BAD_RECORD_MAC s) /\
         (forall (a : Z) (s' : rst),
          open_tls13 aead_open gcm s typ maj min body = Fatal a s' ->
          s' = s \/
          s' = bump s /\
          verified_tls13 aead_open gcm s typ maj min body <> None /\ (a = c_SSL_ALERT_UNEXPECTED_MESSAGE \/ a = c_SSL_ALERT_RECORD_OVERFLOW)).
Proof. exact aead_seq_tls13. Qed.
Print Assumptions c02_seq_advances_only_on_success_tls13.

(* fixed code: a delivered TLS 1.3 record carried the header 23 3 3 *)
Theorem c02_tls13_header_authenticated :
  forall (aead_open : bytes -> bytes -> bytes -> bytes -> option bytes) (gcm : bool) (s : rst) (typ maj min : N) 
           (body : bytes) (t : N) (pt : bytes) (s' : rst) (sent : list amsg),
         (forall a : amsg, verified_tls13 aead_open gcm s typ maj min body = Some a -> In a sent) ->
         (forall a : amsg, In a sent -> exists n : nat, snd (fst a) = aad13 23 3 3 n) ->
         open_tls13 aead_open gcm s typ maj min body = Deliver t pt s' -> typ = 23%N /\ maj = 3%N /\ min = 3%N.
Proof. exact tls13_header_authenticated. Qed.
Print Assumptions c02_tls13_header_authenticated.

(* ORIGINAL code (AAD from constants): any type / version bytes in the header are accepted *)
Theorem c02_tls13_orig_header_binding_refuted :
  forall (aead_seal : bytes -> bytes -> bytes -> bytes -> bytes) (aead_open : bytes -> bytes -> bytes -> bytes -> option bytes),
         (forall k n a p : bytes, aead_open k n a (aead_seal k n a p) = Some p) ->
         (forall k n a p : bytes, length (aead_seal k n a p) = length p + tagl) ->
         forall (gcm : bool) (s : rst) (pad : nat) (typ : N) (pt : list N) (t' maj' min' : N),
         typ <> 0%N ->
         1 <= length pt ->
         (nlen pt <= rn_TLS_1_3_MAX_PLAINTEXT_FRAGMENT_LEN)%N ->
         open_tls13_orig aead_open gcm s t' maj' min' (fst (seal_tls13 aead_seal s pad typ pt)) =
         Deliver typ pt (snd (seal_tls13 aead_seal s pad typ pt)).
Proof. exact tls13_orig_header_malleable. Qed.
Print Assumptions c02_tls13_orig_header_binding_refuted.

Theorem c02_no_fault_cbc :
  forall (msz : nat) (cbc_dec : bytes -> bytes -> bytes -> bytes) (mac : bytes -> bytes -> bytes),
         (forall k iv c : bytes, length (cbc_dec k iv c) = length c) ->
         forall (s : rst) (t : N) (b : bytes), open_cbc msz cbc_dec mac s t b <> Fault.
Proof. exact no_fault_cbc. Qed.
Print Assumptions c02_no_fault_cbc.

Theorem c02_no_fault_gcm12 :
  forall aead_open : bytes -> bytes -> bytes -> bytes -> option bytes,
         (forall k n a c p : bytes, aead_open k n a c = Some p -> length p + tagl = length c) ->
         forall (s : rst) (t : N) (b : bytes), open_gcm12 aead_open s t b <> Fault.
Proof. exact no_fault_gcm12. Qed.
Print Assumptions c02_no_fault_gcm12.

Theorem c02_no_fault_chacha12 :
  forall aead_open : bytes -> bytes -> bytes -> bytes -> option bytes,
         (forall k n a c p : bytes, aead_open k n a c = Some p -> length p + tagl = length c) ->
         forall (s : rst) (t : N) (b : bytes), open_chacha12 aead_open s t b <> Fault.
Proof. exact no_fault_chacha12. Qed.
Print Assumptions c02_no_fault_chacha12.

(* the only out-of-bounds read needs a valid tag over an empty inner plaintext, which the honest peer never seals *)
Theorem c02_fault_tls13_only_on_forged_empty_inner :
  forall aead_open : bytes -> bytes -> bytes -> bytes -> option bytes,
         (forall k n a c p : bytes, aead_open k n a c = Some p -> length p + tagl = length c) ->
         forall (gcm : bool) (s : rst) (t ma mi : N) (b : bytes),
         open_tls13 aead_open gcm s t ma mi b = Fault ->
         gcm = false /\ length b = tagl /\ verified_tls13 aead_open gcm s t ma mi b = Some (nonce_xor s, aad13 t ma mi (length b), []).
Proof. exact fault_tls13_only_forged_empty. Qed.
Print Assumptions c02_fault_tls13_only_on_forged_empty_inner.

(* non-vacuity of the primitive contracts *)
Theorem c02_contracts_satisfiable :
  (forall (k iv : bytes) (p : list N), length p mod blk = 0 -> toy_enc k iv (toy_enc k iv p) = p) /\
         (forall k iv p : bytes, length (toy_enc k iv p) = length p) /\
         (forall k m : bytes, 4 <= length (toy_mac k m)) /\
         (forall k n a p : bytes, toy_open k n a (toy_seal k n a p) = Some p) /\
         (forall k n a p : bytes, length (toy_seal k n a p) = length p + tagl).
Proof. exact toy_contracts. Qed.
Print Assumptions c02_contracts_satisfiable.

(* used by the Examples toy_* of RecProofs.v: Hunf holds on concrete non-trivial runs *)
Theorem c02_no_forgery_decidable :
  forall (msz : nat) (cbc_dec : bytes -> bytes -> bytes -> bytes) (mac : bytes -> bytes -> bytes)
           (aead_open : bytes -> bytes -> bytes -> bytes -> option bytes) (f : family) (sent : list amsg) (ws : list wrec) 
           (s : rst), no_forgery_b msz cbc_dec mac aead_open f sent s ws = true -> no_forgery msz cbc_dec mac aead_open f sent s ws.
Proof. exact no_forgery_b_sound. Qed.
Print Assumptions c02_no_forgery_decidable.

(* TLS 1.3 receive side: a verified inner plaintext content || type || 0^pad delivers exactly the content, for EVERY pad (unbounded count) *)
Theorem c02_tls13_strips_all_padding :
  forall (aead_open : bytes -> bytes -> bytes -> bytes -> option bytes) (gcm : bool) (s : rst) (typ maj min : N) 
           (body pt : list N) (ty : N) (pad : nat),
         aead_open (k_enc s) (nonce_xor s) (aad13 typ maj min (length body)) body = Some (pt ++ [ty] ++ repeat 0%N pad) ->
         length body = length pt + 1 + pad + tagl ->
         ty <> 0%N ->
         1 <= length pt ->
         (nlen pt <= rn_TLS_1_3_MAX_PLAINTEXT_FRAGMENT_LEN)%N -> open_tls13 aead_open gcm s typ maj min body = Deliver ty pt (bump s).
Proof. exact tls13_strips_all_padding. Qed.
Print Assumptions c02_tls13_strips_all_padding.

(* no content type byte at all -> unexpected_message *)
Theorem c02_tls13_all_zero_inner_refused :
  forall (aead_open : bytes -> bytes -> bytes -> bytes -> option bytes) (gcm : bool) (s : rst) (typ maj min : N) 
           (body : list N) (n : nat),
         aead_open (k_enc s) (nonce_xor s) (aad13 typ maj min (length body)) body = Some (repeat 0%N (S n)) ->
         length body = S n + tagl -> open_tls13 aead_open gcm s typ maj min body = Fatal c_SSL_ALERT_UNEXPECTED_MESSAGE (bump s).
Proof. exact tls13_all_zero_refused. Qed.
Print Assumptions c02_tls13_all_zero_inner_refused.

(* header level: any padding that fits the record (<= 2^14 + 256 ciphertext) round-trips to exactly (type, content) *)
Theorem c02_roundtrip_rec_tls13_any_padding :
  forall (msz : nat) (cbc_enc cbc_dec : bytes -> bytes -> bytes -> bytes) (mac : bytes -> bytes -> bytes)
           (aead_seal : bytes -> bytes -> bytes -> bytes -> bytes) (aead_open : bytes -> bytes -> bytes -> bytes -> option bytes),
         (forall k n a p : bytes, aead_open k n a (aead_seal k n a p) = Some p) ->
         (forall k n a p : bytes, length (aead_seal k n a p) = length p + tagl) ->
         forall (f : family) (s : rst) (m : msg),
         is13 f = true ->
         m_typ m = 21%N \/ m_typ m = 22%N \/ m_typ m = 23%N ->
         1 <= length (m_pt m) ->
         (nlen (m_pt m) <= rn_TLS_1_3_MAX_PLAINTEXT_FRAGMENT_LEN)%N ->
         (N.of_nat (length (m_pt m) + 1 + m_pad m + tagl) <= rn_TLS_1_3_MAX_CIPHERTEXT_LEN)%N ->
         open_rec msz cbc_dec mac aead_open f s (fst (seal_rec msz cbc_enc mac aead_seal f s m)) =
         Deliver (m_typ m) (m_pt m) (snd (seal_rec msz cbc_enc mac aead_seal f s m)).
Proof. exact roundtrip_rec_tls13. Qed.
Print Assumptions c02_roundtrip_rec_tls13_any_padding.

(* tls13GetPadLen: the sender's block padding keeps the inner plaintext <= 2^14 + 1 and reaches the block multiple *)
Theorem c02_tls13_sender_padding_fits :
  forall bs len : N,
         (1 <= bs)%N ->
         (len <= rn_TLS_1_3_MAX_PLAINTEXT_FRAGMENT_LEN)%N ->
         (len + 1 + tls13_pad_len bs len <= rn_TLS_1_3_MAX_INNER_PLAINTEXT_LEN)%N /\
         (((len + 1 + tls13_pad_len bs len) mod bs)%N = 0%N \/ (len + 1 + tls13_pad_len bs len)%N = rn_TLS_1_3_MAX_INNER_PLAINTEXT_LEN).
Proof. exact tls13_pad_len_props. Qed.
Print Assumptions c02_tls13_sender_padding_fits.

(* THE stream theorem, for each of the five families: whatever list of records the attacker presents, if no forgery occurs
   (Hunf = no_forgery: every record whose tag / MAC check succeeds under the receiver's current key and sequence number carries
   a tuple the honest peer sealed), the receiver delivers an in-order prefix of what the peer's application submitted. *)
Theorem c02_prefix :
  forall (msz : nat) (cbc_dec : bytes -> bytes -> bytes -> bytes) (mac : bytes -> bytes -> bytes)
         (aead_open : bytes -> bytes -> bytes -> bytes -> option bytes) (f : family)
         (s : rst) (ms : list msg) (ws : list wrec),
    wf_stream f s ms ->
    no_forgery msz cbc_dec mac aead_open f (sent_from f s (seqn s) ms) s ws ->
    prefix (recv msz cbc_dec mac aead_open f s ws) (map content ms).
Proof. exact prefix_theorem. Qed.
Print Assumptions c02_prefix.

(* DTLS (TLS <= 1.2 record protection with the sequence number taken from the record's own header): every delivered datagram
   is one the peer sent, under the same hypothesis *)
Theorem c02_dtls_identical :
  forall (msz : nat) (cbc_dec : bytes -> bytes -> bytes -> bytes) (mac : bytes -> bytes -> bytes)
         (aead_open : bytes -> bytes -> bytes -> bytes -> option bytes) (f : family)
         (s : rst) (sent : list (N * msg)) (rsn : N) (w : wrec) (t : N) (pt : bytes) (s' : rst),
    is13 f = false ->
    (rsn < 2 ^ 64)%N -> Forall (fun qm => (fst qm < 2 ^ 64)%N /\ wf_msg (snd qm)) sent ->
    match f with FCbc | FGcm12 => True | _ => length (k_iv s) = 12 end ->
    (forall a, verified_dtls msz cbc_dec mac aead_open f s rsn w = Some a ->
               In a (map (fun qm => tuple f (set_seq s (fst qm)) (snd qm)) sent)) ->
    open_dtls msz cbc_dec mac aead_open f s rsn w = Deliver t pt s' ->
    exists m, In (rsn, m) sent /\ (t, pt) = content m.
Proof. exact dtls_identical. Qed.
Print Assumptions c02_dtls_identical.
