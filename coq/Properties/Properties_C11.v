(* Property C11 - signatures verify iff valid; bad keys rejected.
   Only statements closed by `exact`; the proofs live in Pk/PkProofs.v.  Model: Pk/PkModel.v (the code
   with pending-fixes/C11-*.patch applied), spec: Pk/PkSpec.v. *)
From Coq Require Import List NArith ZArith Bool.
From MV Require Import Gen.ConstsPk Pk.PkModel Pk.PkSpec Pk.PkProofs.
Import ListNotations.

(* RSA PKCS#1 v1.5, DigestInfo signatures (psVerifySig with opts->msgIsDigestInfo), for EVERY key size k,
   signature, message digest and algorithm identifier: the verifier accepts exactly when the decrypted
   block is 00 01 FF..FF 00 || T || digest with T the table entry psGetDigestInfoPrefix returns for
   (|T|+|digest|, alg) - every byte of the block is pinned, nothing may follow the digest *)
Theorem c11_rsa_accept_iff_canonical : forall crypt k sig em msg alg,
  crypt sig = Ok em -> length sig = k -> length em = k ->
  (verify_sig_rsa crypt k msg sig alg true = Ok tt <->
   valid_hashlen_sigalg (length msg) alg = true /\
   exists T, get_digest_info_prefix (length T + length msg) alg = Some T /\
             length T + length msg + 3 <= k /\ em = emsa_v15 k (T ++ msg)).
Proof. exact verify_di_iff. Qed.
Print Assumptions c11_rsa_accept_iff_canonical.

(* ... and those table entries are the RFC 8017 DigestInfo (with NULL parameters, or the same without):
   an accepted block is one of the two standard encodings and has at least 8 bytes of FF as soon as the
   modulus has 94 bytes (the library's minimum, MIN_RSA_BITS/8, is 128) *)
Theorem c11_rsa_accepted_is_rfc8017 : forall crypt k sig em msg alg,
  crypt sig = Ok em -> length sig = k -> length em = k -> decrypted_buf + 11 <= k ->
  verify_sig_rsa crypt k msg sig alg true = Ok tt -> rsa_v15_valid k em msg alg.
Proof. exact verify_di_sound_rfc. Qed.
Print Assumptions c11_rsa_accepted_is_rfc8017.

Theorem c11_rsa_rfc8017_is_accepted : forall crypt k sig em msg alg,
  crypt sig = Ok em -> length sig = k -> length em = k ->
  valid_hashlen_sigalg (length msg) alg = true ->
  rsa_v15_valid k em msg alg -> verify_sig_rsa crypt k msg sig alg true = Ok tt.
Proof. exact verify_di_complete_rfc. Qed.
Print Assumptions c11_rsa_rfc8017_is_accepted.

Theorem c11_rsa_min_key_leaves_8_ff : decrypted_buf + 11 <= N.to_nat pkn_MIN_RSA_BITS / 8.
Proof. exact min_rsa_size_ok. Qed.
Print Assumptions c11_rsa_min_key_leaves_8_ff.

(* signatures over a bare payload (no DigestInfo; TLS <= 1.1) *)
Theorem c11_rsa_raw_accept_iff : forall crypt k sig em msg alg,
  crypt sig = Ok em -> length sig = k -> length em = k ->
  (verify_sig_rsa crypt k msg sig alg false = Ok tt <->
   length msg <= out_buf /\ length msg + 3 <= k /\ em = emsa_v15 k msg).
Proof. exact verify_raw_iff. Qed.
Print Assumptions c11_rsa_raw_accept_iff.

(* no read outside the decrypted block and no write outside out[] / decrypted[], for any signature
   length, any result of the public operation, any message length *)
Theorem c11_rsa_no_fault : forall crypt k msg sig alg di,
  2 <= k -> crypt sig <> Fault -> crypt sig <> OutOfFuel ->
  verify_sig_rsa crypt k msg sig alg di <> Fault /\ verify_sig_rsa crypt k msg sig alg di <> OutOfFuel.
Proof. exact verify_rsa_no_fault. Qed.
Print Assumptions c11_rsa_no_fault.

Theorem c11_unpad_no_fault : forall em outcap outlen typ verify,
  2 <= length em -> outlen <= outcap ->
  pkcs1_unpad_ext em outcap outlen typ verify <> Fault /\
  pkcs1_unpad_ext em outcap outlen typ verify <> OutOfFuel.
Proof. exact unpad_no_fault. Qed.
Print Assumptions c11_unpad_no_fault.

(* RSA decryption unpadding (psRsaDecryptPriv) is RSAES-PKCS1-v1_5 decoding: 00 02 PS 00 M, |PS| >= 8 *)
Theorem c11_rsa_decrypt_unpad_iff : forall em outlen m,
  pkcs1_unpad_ext em outlen outlen pkn_PS_PRIVKEY true = Ok m <-> length m = outlen /\ eme_type2_valid em m.
Proof. exact unpad_priv_iff. Qed.
Print Assumptions c11_rsa_decrypt_unpad_iff.

(* ECDSA: whatever the scalar multiplication does, acceptance implies r, s in [1, n-1] (as the DER front
   end extracts them) and that the sum of the two multiples has x = r mod n *)
Theorem c11_ecdsa_range : forall smul cv Q hash sig,
  ecdsa_verify_gen smul cv Q hash sig = Ok true ->
  exists r s w, ecdsa_parse_sig sig = Ok (r, s) /\
    (1 <= r <= cv_n cv - 1)%Z /\ (1 <= s <= cv_n cv - 1)%Z /\ invmod s (cv_n cv) = Some w /\
    let e := be2Z (firstn (N.to_nat (cv_size cv)) hash) in
    let u1 := ((e * w) mod cv_n cv)%Z in let u2 := ((r * w) mod cv_n cv)%Z in
    exists P1 P2 x y, smul (nz u1) (cv_gx cv, cv_gy cv) = Some P1 /\ smul (nz u2) Q = Some P2 /\
      ec_add cv (Some P1) (Some P2) = Some (x, y) /\ (x mod cv_n cv = r)%Z.
Proof. exact ecdsa_sound. Qed.
Print Assumptions c11_ecdsa_range.

(* with the affine Gallina reference for the group: the FIPS 186-4 verification equation holds.
   _partial: a scalar that is 0 mod n is treated as 1 by the code ([nz]); the equation is the standard
   one exactly when e*w mod n <> 0, i.e. for every digest that is not a multiple of n (open finding) *)
Theorem c11_ecdsa_equation_partial : forall cv Q hash sig,
  ecdsa_verify cv Q hash sig = Ok true ->
  exists r s w, ecdsa_parse_sig sig = Ok (r, s) /\
    (1 <= r <= cv_n cv - 1)%Z /\ (1 <= s <= cv_n cv - 1)%Z /\ invmod s (cv_n cv) = Some w /\
    let e := be2Z (firstn (N.to_nat (cv_size cv)) hash) in
    ecdsa_eq cv Q (nz ((e * w) mod cv_n cv)) (nz ((r * w) mod cv_n cv)) r.
Proof. exact ecdsa_ref_sound. Qed.
Print Assumptions c11_ecdsa_equation_partial.

Theorem c11_ecdsa_no_fault : forall smul cv Q hash sig,
  ecdsa_verify_gen smul cv Q hash sig <> Fault /\ ecdsa_verify_gen smul cv Q hash sig <> OutOfFuel.
Proof. exact ecdsa_no_fault. Qed.
Print Assumptions c11_ecdsa_no_fault.

(* an imported public point of any enabled curve is a field-element pair on the curve (the affine pair is
   never the point at infinity) *)
Theorem c11_point_valid : forall cv inp x y,
  In cv curve_table -> ecc_import cv inp = Ok (x, y) -> point_valid cv (x, y).
Proof. exact import_valid. Qed.
Print Assumptions c11_point_valid.

Theorem c11_dh_range : forall p y, (0 <= y)%Z -> (dh_pub_check p y = true <-> dh_pub_valid p y).
Proof. exact dh_check_iff. Qed.
Print Assumptions c11_dh_range.

(* RSASSA-PSS (moduli of 8*emLen bits, which is what psRsaPssVerify passes: modulus_bitlen = 8*keysize),
   for every hash function with a fixed output length: psPkcs1PssDecode reports "valid" exactly for
   the EMSA-PSS encodings of RFC 8017 9.1.1 of the given digest under some salt of the given length *)
Theorem c11_pss_accept_iff : forall (H : list N -> list N) (hLen : nat),
  (forall x, length (H x) = hLen) -> 1 <= hLen ->
  forall mhash em saltlen emLen, 1 <= emLen -> Forall (fun b => (b < 256)%N) em ->
  (pss_decode H hLen mhash em saltlen (8 * emLen) = Ok true <->
   length em = emLen /\ hLen + saltlen + 2 <= emLen /\
   exists salt, length salt = saltlen /\ em = pss_encode H hLen emLen mhash salt).
Proof. exact pss_decode_iff. Qed.
Print Assumptions c11_pss_accept_iff.

(* ... and psRsaPssVerify accepts exactly the signatures of modulus length whose public-key image decodes so *)
Theorem c11_pss_verify_iff : forall (H : list N -> list N) hLen crypt k msg sig saltlen,
  rsa_pss_verify H hLen crypt k msg sig saltlen = Ok tt <->
  length sig = k /\ exists em, crypt sig = Ok em /\ pss_decode H hLen msg em saltlen (8 * k) = Ok true.
Proof. exact pss_verify_iff. Qed.
Print Assumptions c11_pss_verify_iff.
