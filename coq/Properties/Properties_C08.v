(* Property C08 - no memory fault, hang or leak on any network input in any state (claimed PARTIALLY:
   theorems for the modelled framing / reassembly / buffer arithmetic of coq/Wire/WireModel.v; the
   message and extension parsers behind it are explored under sanitizers only, see props/C08.py).
   Only statements closed by `exact`; the proofs live in Wire/WireProofs.v.
   [all_fixed] = the code with the pending C08 patches; [as_found] = the code as it was found. *)
From MV Require Import Base.Bytes Gen.Consts Gen.ConstsDtls Gen.ConstsWire Dtls.DtlsModel Wire.WireModel Wire.WireSpec Wire.WireProofs Wire.PbufModel Wire.PbufSpec Wire.PbufProofs.
From Coq Require Import ZArith List.
Local Open Scope Z_scope.

(* ---- (a) record header, TLS <= 1.2 and DTLS incl. the epoch gate: for every buffer, every session state
   whose record-header length matches its DTLS flag, and the fuel "bytes + 1": no read outside [0, *len),
   the loop ends, and whatever is returned / handed to the cipher lies inside the input *)
Theorem c08_hdr_no_fault : forall x b c lim,
  wf_d x -> 0 <= c -> c <= lim -> lim <= lenZ b ->
  exists s, decode12 (S (Z.to_nat (lim - c))) all_fixed x b c lim = Ok s /\ stage_post c lim s.
Proof. exact p_c08_hdr_no_fault. Qed.
Print Assumptions c08_hdr_no_fault.

(* same for the TLS 1.3 header / ChangeCipherSpec skipping loop: consumed bytes never exceed the input *)
Theorem c08_hdr13_no_fault : forall outp b lim,
  0 <= lim -> lim <= lenZ b -> lim <= c_SSL_MAX_BUF_SIZE ->
  exists s, hdr13 (S (Z.to_nat lim)) all_fixed outp b 0 0 lim = Ok s /\ stage13_post 0 lim s.
Proof. exact p_c08_hdr13_no_fault. Qed.
Print Assumptions c08_hdr13_no_fault.

(* the code as found: the byte after a skipped CCS record is taken for a record header (read past the
   datagram; or *buf moved 65 KB past it), and two ChangeCipherSpec records "consume" 18 of 12 bytes *)
Theorem c08_hdr_epoch_skip_refuted :
  wf_d dtls_client_awaiting_hello /\
  decode12 10 as_found dtls_client_awaiting_hello epoch_skip_witness 0 15 = Fault /\
  (exists x, decode12 10 as_found dtls_client_awaiting_hello epoch_skip_witness2 0 27 = Ok (SRet c_DTLS_RETRANSMIT 65562 x) /\ 27 < 65562).
Proof. exact p_c08_hdr_epoch_skip_refuted. Qed.
Print Assumptions c08_hdr_epoch_skip_refuted.

Theorem c08_hdr13_ccs_refuted : hdr13 10 as_found false two_ccs 0 0 12 = Ok (TCcsDone c_MATRIXSSL_SUCCESS 18).
Proof. exact hdr13_as_found_overruns. Qed.
Print Assumptions c08_hdr13_ccs_refuted.

(* ---- (b) TLS <= 1.2 handshake records: every Memcpy stays inside the reassembly buffer, the message
   handed to hash + parser was completely written (slicef = Ok), the buffer never exceeds hsLenMax + 4,
   for every record, every gate / parser behaviour and every reachable reassembly state *)
Theorem c08_frag_tls_no_fault : forall o st b lim,
  inv_tls (h_frag st) -> 0 <= lim -> lim <= lenZ b ->
  exists st' out, hs_record_tls (S (Z.to_nat lim)) o st b lim = Ok (st', out) /\ inv_tls (h_frag st').
Proof. exact hs_record_tls_ok. Qed.
Print Assumptions c08_frag_tls_no_fault.

(* TLS 1.3: tls13FragMessageReadInit / Continue and the loop over the messages of a record *)
Theorem c08_frag_tls13_no_fault : forall o st b p lim decrypted trailer,
  inv_tls (t_frag st) -> 0 <= p -> p <= lim -> lim <= lenZ b -> 0 <= trailer ->
  exists st' r, hs13_loop (S (Z.to_nat (lim - p))) all_fixed o st b p p lim decrypted trailer = Ok (st', r) /\
                inv_tls (t_frag st') /\ out13_post p lim trailer decrypted r.
Proof. exact p_c08_frag_tls13_no_fault. Qed.
Print Assumptions c08_frag_tls13_no_fault.

(* the code as found: a stray byte after a complete message never ends the loop (for every fuel);
   a plaintext record whose first message turns the read keys on is "consumed" 17 bytes past its end;
   and any announced length up to 2^24 - 1 is allocated *)
Theorem c08_frag_tls13_refuted :
  (forall fuel st, fr_msg (t_frag st) = None ->
     hs13_loop fuel as_found o13_accept_all st msg_then_stray 0 5 6 false 17 = OutOfFuel) /\
  (exists st, hs13_loop 10 as_found o13_accept_all hs13_fresh msg_then_partial 0 0 10 false 17 = Ok (st, ORet c_MATRIXSSL_SUCCESS 27) /\ 10 < 27) /\
  (forall o st b lim t hl, fr_msg (t_frag st) = None -> 4 <= lim -> lim <= lenZ b -> rd b lim 0 = Ok t -> be24 b lim 1 = Ok hl ->
     lim - 4 < hl -> exists st', parse_msg13 as_found o st b 0 lim = Ok (st', MPartial lim) /\ fr_total (t_frag st') = hl + 4).
Proof. exact p_c08_frag_tls13_refuted. Qed.
Print Assumptions c08_frag_tls13_refuted.

(* ---- (c) DTLS handshake records: fragment copies stay inside ssl->fragMessage and inside the record,
   dtlsHsHashFragMsg ends within its fuel and reads only written bytes, the invariant is kept *)
Theorem c08_frag_dtls_no_fault : forall o st b lim,
  inv_dtls (g_frag st) -> 0 <= lim -> lim <= lenZ b ->
  exists st' out, hs_record_dtls (S (Z.to_nat lim)) all_fixed o st b lim = Ok (st', out) /\ inv_dtls (g_frag st').
Proof. exact hs_record_dtls_ok. Qed.
Print Assumptions c08_frag_dtls_no_fault.

(* a message is handed to the parser only when every byte of it was written by some fragment: disjoint
   fragments inside [0, H) whose lengths add up to H leave no hole *)
Theorem c08_reassembly_complete : forall m hdrs H,
  Forall (fun h : Z * Z => 0 <= fst h /\ 0 < snd h /\ fst h + snd h <= H) hdrs -> pw_disj hdrs ->
  (forall i, 0 <= i -> (written m i <-> covered hdrs i)) -> sum_len hdrs = H -> lenZ m = H ->
  exists body, slicef m 0 H = Ok body /\ lenZ body = H.
Proof. exact reassembly_complete. Qed.
Print Assumptions c08_reassembly_complete.

(* the code as found: fragment_length beyond the record = read past `end`; overlapping fragments are
   counted twice = unwritten bytes handed to the parser; an empty fragment = dtlsHsHashFragMsg spins *)
Theorem c08_frag_dtls_refuted :
  inv_dtls (g_frag hsd_fresh) /\
  hs_record_dtls 30 as_found od_accept_all hsd_fresh fraglen_witness 22 = Fault /\
  (hs_record_dtls 30 as_found od_accept_all hsd_fresh ovl_a 22 = Ok (ovl_st1, HsRet c_MATRIXSSL_SUCCESS) /\
   hs_record_dtls 30 as_found od_accept_all ovl_st1 ovl_b 17 = Fault) /\
  (forall m, 5 <= lenZ m -> forall fuel acc, hash_frag_loop fuel zero_hdrs m 0 5 10 10 acc = OutOfFuel) /\
  hs_record_dtls 30 as_found od_accept_all zero_st2 zero_c 17 = OutOfFuel.
Proof. exact p_c08_frag_dtls_refuted. Qed.
Print Assumptions c08_frag_dtls_refuted.

(* ---- (d) API buffers: after matrixSslReceivedData / matrixSslProcessedData, for every decoder behaviour
   within its interface contract and every psRealloc outcome: 0 <= inlen <= insize <= SSL_MAX_BUF_SIZE
   (same for outbuf), every Memmove / Memcpy inside its buffer, the DECODE_MORE loop ends within the
   fuel the wrapper supplies, and the return code is a documented one *)
Theorem c08_bounds_inv : forall dec rok k a n,
  (forall k a, abuf_ok a -> dec_contract a (dec k a 0)) ->
  abuf_ok a -> 0 <= n <= snd (get_readbuf a) ->
  exists rc a', received_data dec rok k a n = Ok (ARet rc a') /\ abuf_ok a' /\
                0 <= a_inlen a' /\ a_inlen a' <= a_insize a' /\ a_insize a' <= c_SSL_MAX_BUF_SIZE.
Proof. exact p_c08_bounds_inv. Qed.
Print Assumptions c08_bounds_inv.

Theorem c08_bounds_inv_processed : forall dec rok k a hs_done,
  (forall k a, abuf_ok a -> dec_contract a (dec k a 0)) -> abuf_ok a -> pd_ok a ->
  exists rc a', processed_data dec rok k a hs_done = Ok (ARet rc a') /\ abuf_ok a'.
Proof. exact p_c08_bounds_inv_processed. Qed.
Print Assumptions c08_bounds_inv_processed.

Theorem c08_terminates : forall dec rok k a,
  (forall k a, abuf_ok a -> dec_contract a (dec k a 0)) -> abuf_ok a ->
  recv_loop (recv_fuel a) dec rok k a 0 <> OutOfFuel /\ recv_loop (recv_fuel a) dec rok k a 0 <> Fault.
Proof. exact p_c08_terminates. Qed.
Print Assumptions c08_terminates.

Theorem c08_status_documented : forall dec rok k a n,
  (forall k a, abuf_ok a -> dec_contract a (dec k a 0)) -> abuf_ok a -> 0 <= n <= snd (get_readbuf a) ->
  exists rc a', received_data dec rok k a n = Ok (ARet rc a') /\ doc_rc rc /\
                (rc = c_MATRIXSSL_APP_DATA \/ rc = c_MATRIXSSL_RECEIVED_ALERT -> pd_ok a').
Proof. exact p_c08_status_documented. Qed.
Print Assumptions c08_status_documented.

(* ---- (e) CBC records: the MAC and pad pointers computed from the (attacker chosen) pad length stay
   inside the decrypted record once the length sanity test passed *)
Theorem c08_cbc_layout_in_range : forall rec_len mac_size block_size pad_len eiv ssl3 pe,
  0 <= mac_size -> 0 < block_size -> 0 <= pad_len <= 255 ->
  let l := cbc_mac_layout rec_len mac_size block_size pad_len eiv ssl3 pe in
  cl_sane l = true ->
  0 <= cl_data_off l /\ cl_data_off l <= cl_mac_off l /\ cl_mac_off l + mac_size <= rec_len /\
  cl_data_len l = cl_mac_off l - cl_data_off l /\
  (cl_mac_error l = false -> 0 <= cl_pad_lo l /\ cl_mac_off l + mac_size = cl_pad_lo l /\ cl_pad_lo l + pad_len + 1 = rec_len).
Proof. exact cbc_layout_in_range. Qed.
Print Assumptions c08_cbc_layout_in_range.

(* ---- (f) core/src/psbuf.c + psbuf.h parse primitives (what tls13Decode*.c is written with).
   psParseTlsVariableLengthVec computes exactly its pointer-free specification and reads only inside [s, e) *)
Theorem c08_vec_no_fault : forall b s e mn mx, 0 <= s -> s <= e -> e <= lenZ b ->
  parse_tls_vec b s e mn mx = Ok (vec_spec b s e mn mx).
Proof. exact parse_tls_vec_spec. Qed.
Print Assumptions c08_vec_no_fault.

(* an accepted vector - length octets and body - lies inside [s, e); a non-empty vector type makes progress *)
Theorem c08_vec_in_range : forall b s e mn mx n d, vec_spec b s e mn mx = VOk n d ->
  n = num_len_bytes mx /\ 0 <= n <= 3 /\ 0 <= d /\ s + n + d <= e /\ mn <= d <= mx /\ (0 < mx -> 1 <= n).
Proof. exact vec_spec_in_range. Qed.
Print Assumptions c08_vec_in_range.

(* PS_LIMIT_FAIL exactly when the length octets or the body do not fit or the length is outside min..max;
   success exactly in the complementary case, with the encoded length *)
Theorem c08_vec_limit_iff : forall b s e mn mx, mx <= two24 ->
  let n := num_len_bytes mx in let len := enc_len b s (Z.to_nat n) 0 in
  (vec_spec b s e mn mx = VErr c_PS_LIMIT_FAIL <-> (e - s < n \/ e - s - n < len \/ len < mn \/ mx < len)) /\
  (vec_spec b s e mn mx = VOk n len <-> (n <= e - s /\ len <= e - s - n /\ mn <= len <= mx)).
Proof. exact vec_spec_limit_iff. Qed.
Print Assumptions c08_vec_limit_iff.

(* the variant that tests the body against `end - start` (length octets still counted) accepts a body that
   ends behind `end` *)
Theorem c08_vec_avail_variant_refuted :
  parse_tls_vec_avail [0; 4; 1; 2]%N 0 4 0 65535 = Ok (VOk 2 4) /\ 0 + 2 + 4 > 4 /\
  parse_tls_vec [0; 4; 1; 2]%N 0 4 0 65535 = Ok (VErr c_PS_LIMIT_FAIL).
Proof. exact avail_variant_overclaims. Qed.
Print Assumptions c08_vec_avail_variant_refuted.

(* the psParseBuf primitives: on a parse buffer inside its object none of them faults; a successful one
   advanced the buffer by exactly what it consumed, a failed one left it alone *)
Theorem c08_pb_octet : forall b pb, wf_pb b pb -> exists r, pb_octet b pb = Ok r /\ op_post b pb 1 r.
Proof. exact pb_octet_ok. Qed.
Print Assumptions c08_pb_octet.
Theorem c08_pb_be16 : forall b pb, wf_pb b pb -> exists r, pb_be16 b pb = Ok r /\ op_post b pb 2 r.
Proof. exact pb_be16_ok. Qed.
Print Assumptions c08_pb_be16.
Theorem c08_pb_be32 : forall b pb, wf_pb b pb -> exists r, pb_be32 b pb = Ok r /\ op_post b pb 4 r.
Proof. exact pb_be32_ok. Qed.
Print Assumptions c08_pb_be32.
Theorem c08_pb_try_octets : forall b pb n store, wf_pb b pb -> 0 <= n ->
  exists r, pb_try_octets b pb n store = Ok r /\ op_post b pb n r /\
            (forall v pb', r = (Some v, pb') -> store = true -> lenZ v = n).
Proof. exact pb_try_octets_ok. Qed.
Print Assumptions c08_pb_try_octets.
Theorem c08_pb_try_forward : forall b pb n, wf_pb b pb -> 0 <= n ->
  let '(k, pb') := pb_try_forward pb n in wf_pb b pb' /\ ((k = n /\ advanced pb pb' n) \/ (k = 0 /\ pb' = pb)).
Proof. exact pb_try_forward_ok. Qed.
Print Assumptions c08_pb_try_forward.
(* psParseForward does not check: it is safe exactly behind a psParseCanRead of the same length *)
Theorem c08_pb_forward : forall b pb n, wf_pb b pb -> 0 <= n -> pb_can_read pb n = true -> wf_pb b (pb_forward pb n).
Proof. exact pb_forward_ok. Qed.
Print Assumptions c08_pb_forward.
Theorem c08_pb_rec_hdr : forall b pb, wf_pb b pb -> exists r, pb_rec_hdr b pb = Ok r /\ op_post b pb 5 r.
Proof. exact pb_rec_hdr_ok. Qed.
Print Assumptions c08_pb_rec_hdr.
Theorem c08_pb_hs_hdr : forall b pb, wf_pb b pb -> exists r, pb_hs_hdr b pb = Ok r /\ op_post b pb 4 r.
Proof. exact pb_hs_hdr_ok. Qed.
Print Assumptions c08_pb_hs_hdr.
(* psParseBufParseTlsVector: afterwards the pb stands on the first body octet and the whole body is readable *)
Theorem c08_pb_tls_vector : forall b pb mn mx, wf_pb b pb ->
  exists r pb', pb_tls_vector b pb mn mx = Ok (r, pb') /\ wf_pb b pb' /\
    match r with
    | VOk n d => advanced pb pb' n /\ pb_can_read pb' d = true /\ mn <= d <= mx /\ 0 <= d /\ (0 < mx -> 1 <= n)
    | VErr rc => pb' = pb /\ rc < 0
    end.
Proof. exact pb_tls_vector_ok. Qed.
Print Assumptions c08_pb_tls_vector.
(* psParseBufCopyN: source inside the pb, never more than *targetlen stored *)
Theorem c08_pb_copy_n : forall b pb req ht tl, wf_pb b pb -> 0 <= req -> 0 <= tl ->
  exists rc v tl', pb_copy_n b pb req ht tl = Ok (rc, v, tl') /\ lenZ v <= tl /\
    (rc = c_PS_SUCCESS -> lenZ v = tl' /\ tl' = Z.min req (pb_end pb - pb_start pb)).
Proof. exact pb_copy_n_ok. Qed.
Print Assumptions c08_pb_copy_n.
