(* C20 - concurrent sessions sharing keys and caches are race-free and serialisable (PARTIAL: the theorems are
   about the lock discipline extracted from the source text by tools/srcgen/gen_lockpaths.py and about an
   atomic-step interleaving semantics; real schedules are only searched, under ThreadSanitizer). *)
From Coq Require Import List Bool Arith.
Import ListNotations.
From MV Require Import Conc.ConcModel Conc.ConcProofs Gen.LockPaths.

Definition c20_cfg : config := {| c_mutex_of := mutex_of_tab; c_rank := mutex_rank_tab |}.

(* the checker is sound, for every table: on every path of every entry function every access happens under the
   mutex of the object (objects without mutex are only read), no mutex is taken while held, every Unlock releases
   a held mutex, nothing is held at any exit, and the "taken while held" relation is acyclic *)
Theorem c20_checker_sound :
  forall (cfg : config) (ps : list fn_decl), check_paths cfg ps = true ->
  forall d, In d ps -> is_entry d = true -> forall tr x, exec ps (fn_body d) tr x ->
    (forall pre y k post, tr = pre ++ EAcc y k :: post ->
        exists Sm, wl cfg [] pre = Some Sm /\
          match mutex_of cfg y with Some (Some m) => In m Sm | Some None => k = R | None => False end) /\
    (forall pre m post, tr = pre ++ ELock m :: post ->
        exists Sm, wl cfg [] pre = Some Sm /\ ~ In m Sm /\ forall h, In h Sm -> lt_rank cfg h m) /\
    (forall pre m post, tr = pre ++ EUnlock m :: post -> exists Sm, wl cfg [] pre = Some Sm /\ In m Sm) /\
    wl cfg [] tr = Some [] /\
    (forall a, ~ tc (takes_while_held cfg ps) a a).
Proof. exact checker_sound_clauses. Qed.
Print Assumptions c20_checker_sound.

(* the table generated from the current source passes the checker *)
Theorem c20_well_locked : check_paths c20_cfg paths = true.
Proof. vm_compute. reflexivity. Qed.
Print Assumptions c20_well_locked.

(* data-race freedom of every interleaving of well-locked threads under mutex semantics *)
Theorem c20_drf :
  forall (cfg : config) H0 s, gvalid cfg H0 s -> excl H0 ->
  forall i j t1 t2 x k1 k2, i < j -> t1 <> t2 ->
  nth_error s i = Some (t1, EAcc x k1) -> nth_error s j = Some (t2, EAcc x k2) ->
  match mutex_of cfg x with
  | Some (Some m) => hb s i j
  | Some None => k1 = R /\ k2 = R
  | None => False
  end.
Proof. exact drf. Qed.
Print Assumptions c20_drf.

(* a critical section is one atomic step with respect to everything its mutex guards *)
Theorem c20_sections_atomic :
  forall (cfg : config) H s, gvalid cfg H s -> forall t m, excl H -> In m (H t) ->
  forall j t' e, nth_error s j = Some (t', e) -> t' <> t ->
  (forall u, u < j -> nth_error s u <> Some (t, EUnlock m)) ->
  touches cfg m e = false.
Proof. exact sections_atomic. Qed.
Print Assumptions c20_sections_atomic.

(* every schedule of atomic steps is a sequential history of the same operations in program order; what holds
   for all sequential histories (C14's cache theorems are stated that way) holds under every schedule *)
Theorem c20_atomic_serialisable :
  forall (St Op Res : Type) (step : Op -> St -> St * Res) P s, interleave Op P s ->
    (forall i, thread_of i s = P i) /\
    (forall (Inv : St -> Prop) init, (forall h : list (nat * Op), Inv (fst (run_ops St Op Res step h init))) ->
        forall n, Inv (fst (run_ops St Op Res step (firstn n s) init))) /\
    (forall (Spec : list (nat * Op) -> list (nat * Res) -> Prop) init,
        (forall h : list (nat * Op), Spec h (snd (run_ops St Op Res step h init))) ->
        Spec s (snd (run_ops St Op Res step s init))).
Proof. exact atomic_serialisable. Qed.
Print Assumptions c20_atomic_serialisable.

(* getTicketKeys drops g_sessTicketLock around ticket_cb and continues with the key pointer found before: two
   atomic steps carrying the pointer.  With the pin as a FLAG (code as found) a schedule frees the key in between *)
Theorem c20_ticket_pin_flag_refuted :
  exists sch, tk_uaf (tk_run PinFlag sch (tk_init [7; 8])) = true /\
    In sch (all_il 7 [(0, [TkFind 7; TkUse; TkRelease]); (1, [TkFind 7; TkUse; TkRelease]); (3, [TkDelete 7])]).
Proof. exists tk_witness. destruct tk_flag_refuted as [A B]. split; [exact B|exact A]. Qed.
Print Assumptions c20_ticket_pin_flag_refuted.

(* with a reference count: no interleaving of (3 sessions + deleter) / (2 sessions + delete,load,delete) frees a
   pinned key - bounded exhaustive, hence _partial *)
Theorem c20_ticket_pin_counter_safe_partial :
  tk_safe_all PinCounter tk_cfg1 = true /\ tk_safe_all PinCounter tk_cfg2 = true.
Proof. exact tk_counter_safe_bounded. Qed.
Print Assumptions c20_ticket_pin_counter_safe_partial.

(* the source pins the key with a reference count *)
Theorem c20_ticket_pin_is_counter : ticket_pin = PinCounter.
Proof. reflexivity. Qed.
Print Assumptions c20_ticket_pin_is_counter.
