(* Property C18 - TLS behaviour depends on the bytes received, not on how they are chunked.  Statements only. *)
From MV Require Import Api.ApiModel Api.ApiProofs Api.ApiInst.
From Coq Require Import NArith.

(* For every decoder that honours the framing contract (Hconsume, Hframe - validated against
   matrixSslDecode on every run), every decoder state and every two ways of cutting the same byte
   stream into receive calls: the same events in the same order, the same final decoder state and the
   same undecoded remainder.  [stream_ok]: a response that empties the input buffer is the last thing
   in the bytes received so far (lock-step flights). *)
Theorem c18_chunk_invariant : forall (byte sigma event : Type) (dec : sigma -> list byte -> dres sigma event),
  Hconsume byte sigma event dec -> Hframe byte sigma event dec ->
  forall s cs cs', concat cs = concat cs' -> stream_ok byte sigma event dec (fresh byte sigma s) (concat cs) ->
  feed dec (fresh byte sigma s) cs = feed dec (fresh byte sigma s) cs'.
Proof. exact chunk_invariant. Qed.
Print Assumptions c18_chunk_invariant.

(* one receive call on everything = any sequence of receive calls on the pieces *)
Theorem c18_feed_is_batch : forall (byte sigma event : Type) (dec : sigma -> list byte -> dres sigma event),
  Hconsume byte sigma event dec -> Hframe byte sigma event dec ->
  forall cs c a, stream_ok byte sigma event dec a (concat (c :: cs)) ->
  feed dec a (c :: cs) = recv dec a (concat (c :: cs)).
Proof. exact feed_concat. Qed.
Print Assumptions c18_feed_is_batch.

(* partial sends: the wire sees exactly the queued bytes, in order, whatever the drain pattern *)
Theorem c18_send_invariant : forall (byte : Type) takes (outbuf : list byte),
  let '(w, rest) := send_all outbuf takes in w ++ rest = outbuf.
Proof. exact send_invariant. Qed.
Print Assumptions c18_send_invariant.

(* the table decoder built from the library's own decode log satisfies the contract *)
Theorem c18_table_decoder_contract : forall tab, Hconsume unit nat N (tdec tab) /\ Hframe unit nat N (tdec tab).
Proof. exact (fun tab => conj (tdec_consume tab) (tdec_frame tab)). Qed.
Print Assumptions c18_table_decoder_contract.
