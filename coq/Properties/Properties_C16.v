(* Property C16 - DTLS survives loss/reorder/duplication and never accepts a record twice.
   Only statements closed by `exact`; proofs in Dtls/DtlsProofs.v (replay window, epoch gate) and
   Dtls/FlightProofs.v (handshake message sequence numbers, abstract flight LTS).
   The model is of /repo WITH pending-fixes/C16-replay-window.patch (see Dtls/DtlsModel.v). *)
From Coq Require Import NArith ZArith List.
From MV Require Import Dtls.DtlsModel Dtls.DtlsSpec Dtls.DtlsProofs.
Import ListNotations.
Local Open Scope N_scope.

(* SAFETY, whole receive path (epoch gate of sslDecode.c + dtlsChkReplayWindow): for EVERY sequence
   of arriving records (any epoch, sequence number, type, handshake state, flags per record) and
   ChangeCipherSpec events, from EVERY initial state, the records let through to decryption are
   pairwise distinct in (epoch, low 32 bits of the sequence number).  Hypotheses: epochs are two
   bytes; the expected-epoch counter does not wrap from ffff to 0 during the run. *)
Theorem c16_no_double_accept : forall st evs,
  rx_exp st < 65536 -> Forall rec_wf evs -> run_wraps st evs = false ->
  never_twice (fst (run st [] evs)).
Proof. exact rx_never_twice. Qed.
Print Assumptions c16_no_double_accept.

(* the same with records identified by their full 48-bit sequence number *)
Theorem c16_no_double_accept_seq48 : forall st evs,
  rx_exp st < 65536 -> Forall rec_wf evs -> run_wraps st evs = false ->
  never_twice (accepted_full st evs).
Proof. exact rx_never_twice_full. Qed.
Print Assumptions c16_no_double_accept_seq48.

(* SAFETY, window alone: from any (even corrupt) lastRsn/bitmap no number is accepted twice *)
Theorem c16_window_no_double_accept : forall w seqs, NoDup (fst (run_win w [] seqs)).
Proof. exact window_never_twice_any. Qed.
Print Assumptions c16_window_no_double_accept.

(* COMPLETENESS (no false drops under reordering): after any history on an epoch, a number that was
   not accepted before and is less than 32 below the highest accepted one (or above it) is
   accepted.  Numbers are compared in their low 32 bits (the code truncates), i.e. the statement is
   about epochs carrying fewer than 2^32 records. *)
Theorem c16_window_complete : forall seqs s,
  let '(acc, w) := run_win win_empty [] seqs in
  fresh_in_window acc (seq32 s) -> fst (chk_replay w s) = true.
Proof. exact window_complete. Qed.
Print Assumptions c16_window_complete.

(* records of the expected epoch are judged by the window alone *)
Theorem c16_current_epoch_reaches_window : forall st r,
  rx_exp st < 65536 -> r_epoch r = rx_exp st -> dtls_rx st r = to_window st r.
Proof. exact rx_current_epoch. Qed.
Print Assumptions c16_current_epoch_reaches_window.

(* the first record of a new epoch (Finished, sequence number 0) - and any other - is accepted
   exactly once after the ChangeCipherSpec *)
Theorem c16_first_of_epoch_once : forall st s,
  let '(ok1, w1) := chk_replay (rx_win (ccs_parsed st)) s in
  ok1 = true /\ fst (chk_replay w1 s) = false.
Proof. exact first_of_epoch_once. Qed.
Print Assumptions c16_first_of_epoch_once.
