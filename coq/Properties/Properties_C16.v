(* Property C16 - DTLS survives loss/reorder/duplication and never accepts a record twice.
   Only statements closed by `exact`; proofs in Dtls/DtlsProofs.v (replay window, epoch gate) and
   Dtls/FlightProofs.v (handshake message sequence numbers, abstract flight LTS).
   The model is of /repo WITH pending-fixes/C16-replay-window.patch (see Dtls/DtlsModel.v). *)
From Coq Require Import NArith ZArith List.
From MV Require Import Dtls.DtlsModel Dtls.DtlsSpec Dtls.DtlsProofs Dtls.FlightModel Dtls.FlightProofs.
Import ListNotations.
Local Open Scope N_scope.

(* SAFETY, whole receive path (epoch gate of sslDecode.c + dtlsChkReplayWindow): for EVERY sequence
   of arriving records (any epoch, sequence number, type, handshake state, flags per record) and
   ChangeCipherSpec events, from EVERY initial state, the records let through to decryption are
   pairwise distinct in (epoch, low 32 bits of the sequence number).  Hypotheses: epochs are two
   bytes; the expected-epoch counter does not wrap from ffff to 0 during the run. *)
Theorem c16_no_double_accept : forall st evs,
  rx_exp st < 65536 -> Forall rec_wf evs -> run_wraps st evs = false ->
  never_twice (fst (run st [] evs)).
Proof. exact rx_never_twice. Qed.
Print Assumptions c16_no_double_accept.

(* the same with records identified by their full 48-bit sequence number *)
Theorem c16_no_double_accept_seq48 : forall st evs,
  rx_exp st < 65536 -> Forall rec_wf evs -> run_wraps st evs = false ->
  never_twice (accepted_full st evs).
Proof. exact rx_never_twice_full. Qed.
Print Assumptions c16_no_double_accept_seq48.

(* SAFETY, window alone: from any (even corrupt) lastRsn/bitmap no number is accepted twice *)
Theorem c16_window_no_double_accept : forall w seqs, NoDup (fst (run_win w [] seqs)).
Proof. exact window_never_twice_any. Qed.
Print Assumptions c16_window_no_double_accept.

(* COMPLETENESS (no false drops under reordering): after any history on an epoch, a number that was
   not accepted before and is less than 32 below the highest accepted one (or above it) is
   accepted.  Numbers are compared in their low 32 bits (the code truncates), i.e. the statement is
   about epochs carrying fewer than 2^32 records. *)
Theorem c16_window_complete : forall seqs s,
  let '(acc, w) := run_win win_empty [] seqs in
  fresh_in_window acc (seq32 s) -> fst (chk_replay w s) = true.
Proof. exact window_complete. Qed.
Print Assumptions c16_window_complete.

(* records of the expected epoch are judged by the window alone *)
Theorem c16_current_epoch_reaches_window : forall st r,
  rx_exp st < 65536 -> r_epoch r = rx_exp st -> dtls_rx st r = to_window st r.
Proof. exact rx_current_epoch. Qed.
Print Assumptions c16_current_epoch_reaches_window.

(* the first record of a new epoch (Finished, sequence number 0) - and any other - is accepted
   exactly once after the ChangeCipherSpec *)
Theorem c16_first_of_epoch_once : forall st s,
  let '(ok1, w1) := chk_replay (rx_win (ccs_parsed st)) s in
  ok1 = true /\ fst (chk_replay w1 s) = false.
Proof. exact first_of_epoch_once. Qed.
Print Assumptions c16_first_of_epoch_once.

(* ---- handshake message sequence numbers (MSN gate of parseSSLHandshake; model tied to the library
   only through the live replay schedules, see props/C16.py) *)

(* a replayed handshake message (0 < msn <= lastMsn) changes nothing and asks for a retransmit *)
Theorem c16_msn_replay_no_effect : forall st m,
  (0 < h_msn m <= hs_last st)%Z -> hs_rx st m = (HRetransmit, st).
Proof. exact msn_replay_no_effect. Qed.
Print Assumptions c16_msn_replay_no_effect.

(* handshake state never regresses: over ANY sequence of messages with msn >= 1 the consumed msns are
   lastMsn+1, lastMsn+2, ... (each once, in order).  _partial: msn 0 is not stopped by this gate
   (msn_zero_passes); replays of the peer's first message are left to the hsType/hsState match and to
   the record replay window (c16_no_double_accept). *)
Theorem c16_msn_monotone_partial : forall ms st,
  (forall m, In m ms -> (0 < h_msn m)%Z) ->
  let '(l, st') := hs_run st ms in
  l = map (fun i => (hs_last st + 1 + Z.of_nat i)%Z) (seq 0%nat (length l)) /\
  hs_last st' = (hs_last st + Z.of_nat (length l))%Z /\
  (hs_count st' = hs_count st + length l)%nat.
Proof. exact hs_run_consecutive. Qed.
Print Assumptions c16_msn_monotone_partial.

(* ---- LIVENESS, ABSTRACT flight system only (Dtls/FlightModel.v part (b); not a model of the C
   code): n alternating flights, timeout-driven retransmission, channel that loses / duplicates /
   reorders arbitrarily.  If the rounds split into n blocks of <= k rounds and in every block every
   flight gets through at least once, both peers are done after at most k*n rounds. *)
Theorem c16_completes_abstract : forall n k blocks,
  length blocks = n -> Forall (block_fair n) blocks -> Forall (fun b => (length b <= k)%nat) blocks ->
  both_done n (rounds n 0%nat (concat blocks)) = true /\ (length (concat blocks) <= k * n)%nat.
Proof. exact flights_complete. Qed.
Print Assumptions c16_completes_abstract.

(* arrivals never take the abstract handshake backwards, and DONE is stable *)
Theorem c16_progress_monotone_abstract : forall n s p, (p <= rounds n p s)%nat.
Proof. exact rounds_mono. Qed.
Print Assumptions c16_progress_monotone_abstract.

(* the same instantiated with the flight tables of the library's handshakes (full / client
   authentication / resumed, with or without ServerKeyExchange): 6, 6 and 5 alternating flights;
   the tables are compared with the flights of a clean live run on every check *)
Theorem c16_completes_modes_abstract : forall ske m k blocks,
  length blocks = nflights ske m -> Forall (block_fair (nflights ske m)) blocks ->
  Forall (fun b => (length b <= k)%nat) blocks ->
  both_done (nflights ske m) (rounds (nflights ske m) 0%nat (concat blocks)) = true /\
  (length (concat blocks) <= k * nflights ske m)%nat.
Proof. exact modes_complete. Qed.
Print Assumptions c16_completes_modes_abstract.

Theorem c16_flights_alternate : forall ske m, alternating Client (map fst (flights ske m)) = true.
Proof. exact flights_alternate. Qed.
Print Assumptions c16_flights_alternate.

