(* Property C06 - a handshake completes only along a legal message sequence.  Statements only.
   Model: Hs/HsModel.v (code-shaped gates, handlers and flight writers of MatrixSSL as repaired by pending-fixes/C06-1..6);
   grammar: Hs/HsSpec.v (RFC 5246 7.3, RFC 5077, RFC 6066, RFC 4279, RFC 8446 2).
   [all_cfgs]: every TLS server configuration (TLS 1.3 on/off, client authentication, ticket keys), every DTLS server
   configuration (client authentication), and every TLS / DTLS client
   configuration (TLS 1.3 on/off x the session-ticket state the ClientHello writer can leave: no session id object,
   INIT, SENT_EMPTY, SENT_TICKET).  [run (init c) is]: the receiver fed with ANY list of inputs - handshake messages of
   any type byte with any oracle answer about their body, and ChangeCipherSpec records. *)
From MV Require Import Hs.HsModel Hs.HsSpec Hs.HsProofs.
Local Open Scope Z_scope.

(* completion => the accepted handshake + ChangeCipherSpec messages are exactly one legal sequence of the negotiated mode *)
Theorem c06_only_legal : forall c is, In c all_cfgs ->
  let s := fst (run (init c) is) in
  err s = false -> hs s = DONE ->
  exists md, negotiated c (acc s) = Some md /\ legal md (kinds (acc s)).
Proof. exact only_legal. Qed.
Print Assumptions c06_only_legal.

(* a message after which the accepted log can no longer be completed to a legal sequence yields a fatal alert and the error flag,
   never an advance.  The only other outcomes leave the session exactly as it was ([quiet3]):
   - a ChangeCipherSpec that RFC 8446 section 5 tells a TLS 1.3 receiver to drop; on DTLS the ChangeCipherSpec of a retransmitted
     flight (one was just taken; it has no message_seq);
   - DTLS: a ChangeCipherSpec out of place, or a handshake message whose message_seq is NOT the expected one - a retransmission
     (seen before) or an early arrival (future) - is dropped: datagram loss / reordering / duplication is not a deviation of the
     message sequence.  A message with the EXPECTED message_seq and the wrong type is a deviation and is fatal;
   - on a COMPLETED session a renegotiation request gets the no_renegotiation warning of RFC 5246 7.2.2. *)
Theorem c06_deviation_fatal : forall c is i, In c all_cfgs ->
  let s := fst (run (init c) is) in
  err s = false ->
  ~ prefix_ok c (acc s ++ [item_of i]) ->
  exists s' o, step s i = (s', o) /\
    ((fatal_out o = true /\ err s' = true) \/ (quiet3 s i o /\ s' = s)).
Proof. exact deviation_fatal. Qed.
Print Assumptions c06_deviation_fatal.

(* no completion without Finished; <= 1.2: ChangeCipherSpec; certificate modes: Certificate (+ ServerKeyExchange for ECDHE,
   ServerHelloDone / ClientKeyExchange, CertificateVerify where a certificate was requested); TLS 1.3: EncryptedExtensions,
   Certificate + CertificateVerify unless PSK; EndOfEarlyData when early data was accepted *)
Theorem c06_no_skip : forall c is, In c all_cfgs ->
  let s := fst (run (init c) is) in
  err s = false -> hs s = DONE ->
  exists md, negotiated c (acc s) = Some md /\ forall k, In k (required md) -> In k (kinds (acc s)).
Proof. exact no_skip. Qed.
Print Assumptions c06_no_skip.

(* (D)TLS <= 1.2: with the read side unprotected (no ChangeCipherSpec yet) every Finished message is fatal - on DTLS unless its
   message_seq is not the expected one, in which case it is dropped like any such message *)
Theorem c06_no_finished_before_ccs : forall c is m, In c all_cfgs ->
  let s := fst (run (init c) is) in
  err s = false -> v13 s = false -> rsec s = false -> m_typ m = FIN ->
  exists s' o, step s (IHs m) = (s', o) /\
    ((fatal_out o = true /\ err s' = true) \/
     (dtls s = true /\ m_cls m <> MExp /\ (exists r, o = ODrop r) /\ s' = s)).
Proof. exact no_finished_before_ccs. Qed.
Print Assumptions c06_no_finished_before_ccs.

(* completion => some accepted Finished had matching verify_data, and the value it was compared with was computed from
   the receiver's transcript as it stood BEFORE that Finished was hashed ([snap] = [tr] of the pre-state) *)
Theorem c06_finished_binds : forall c is, In c all_cfgs ->
  let s := fst (run (init c) is) in
  err s = false -> hs s = DONE ->
  exists is1 cl is2, is = is1 ++ IHs (mkmsg FIN (BFin true) cl) :: is2 /\
    let s1 := fst (run (init c) is1) in
    err s1 = false /\ hs s1 <> DONE /\ snap s = tr s1.
Proof. exact finished_binds. Qed.
Print Assumptions c06_finished_binds.

(* the same with the comparison explicit: for ANY verification oracle, if the answer a Finished gets is the oracle applied
   to the receiver's transcript at that moment and to the verify_data carried, completion implies the oracle said true *)
Theorem c06_finished_binds_oracle : forall (verify : list tent -> Z -> bool) c cis, In c all_cfgs ->
  let s := grun (conc verify) (init c) cis in
  err s = false -> hs s = DONE ->
  exists pre b cl vd post, cis = pre ++ (IHs (mkmsg FIN (BFin b) cl), vd) :: post /\
    let s1 := grun (conc verify) (init c) pre in
    hs s1 <> DONE /\ verify (tr s1) vd = true /\ snap s = tr s1.
Proof. exact finished_binds_oracle. Qed.
Print Assumptions c06_finished_binds_oracle.

(* DTLS: every run with concrete message_seq numbers ([drun]: lastMsn beside the state, the class of each message computed
   from it as parseSSLHandshake does) is a run of the machine the theorems above quantify over *)
Theorem c06_dtls_runs_are_runs : forall dis d, exists is, d_core (drun d dis) = fst (run (d_core d) is) /\ length is = length dis.
Proof. exact drun_is_run. Qed.
Print Assumptions c06_dtls_runs_are_runs.

(* DTLS: a message whose message_seq was seen before (other than 0) or lies ahead is dropped before the type is looked at *)
Theorem c06_dtls_old_or_future_dropped : forall s m,
  err s = false -> v13 s = false -> dtls s = true -> (m_cls m = MStale \/ m_cls m = MFut) ->
  step s (IHs m) = (s, ODrop (match m_cls m with MStale => true | _ => false end)) \/
  (hs s = DONE /\ step s (IHs m) = (s, OWarn c_SSL_ALERT_NO_RENEGOTIATION)).
Proof. exact dtls_old_or_future_dropped. Qed.
Print Assumptions c06_dtls_old_or_future_dropped.

(* the build switches the model assumes are the ones of the source *)
(* OFFERED is not SELECTED.  The mode records both: [md_res] what the server selected, [md_declined] that the ClientHello offered a
   resumption (pre_shared_key: external PSK or ticket / SessionTicket / session id) which the server turned down.  The legal
   sequences are those of what was selected; a declined offer changes nothing: the full handshake of the mode - the client's
   Certificate and CertificateVerify included when the server asked for them - stays due ([c06_only_legal] / [c06_no_skip] are
   stated over this mode). *)
Theorem c06_declined_offer_irrelevant : forall md b l, legal md l <-> legal (set_declined md b) l.
Proof.
  intros md b l. split; [apply legal_declined|].
  intro H. apply (legal_declined _ (md_declined md)) in H. destruct md; exact H.
Qed.
Print Assumptions c06_declined_offer_irrelevant.
(* the model on such a hello: a TLS 1.3 server that asked for a certificate and declined the offered PSK refuses a Finished that
   skips Certificate / CertificateVerify (with and without a HelloRetryRequest round) and completes on the full flight, in the mode
   "nothing selected, offer declined"; a <= 1.2 / DTLS server likewise *)
Example c06_declined_offer_runs :
  let hm t b := IHs (mkmsg t b MExp) in
  err (fst (run (init (Server true true false)) [hm CH (BHello13d false); hm FIN (BFin true)])) = true /\
  err (fst (run (init (Server true true false)) [hm CH (BHello13d true); hm CH (BHello13d false); hm FIN (BFin true)])) = true /\
  err (fst (run (init (Server true true false)) [hm CH (BHello13d false); hm CERT BPlain; hm FIN (BFin true)])) = true /\
  (let s := fst (run (init (Server true true false)) [hm CH (BHello13d false); hm CERT BPlain; hm CVFY BPlain; hm FIN (BFin true)]) in
   err s = false /\ hs s = DONE /\
   option_map (fun md => (md_res md, md_declined md, md_cauth md)) (negotiated (Server true true false) (acc s)) = Some (ResNone, true, true)) /\
  err (fst (run (init (Server false true false)) [hm CH (BHello12d false true); hm CKE BPlain; ICcs; hm FIN (BFin true)])) = true /\
  (let s := fst (run (init (DServer true)) [hm CH (BHello12d false true); hm CERT BPlain; hm CKE BPlain; hm CVFY BPlain; ICcs; hm FIN (BFin true)]) in
   err s = false /\ hs s = DONE /\ option_map md_declined (negotiated (DServer true) (acc s)) = Some true).
Proof. vm_compute. repeat split; reflexivity. Qed.

Theorem c06_config_as_modelled :
  h_rehandshakes_enabled = false /\ h_ocsp_must_staple = true /\ h_stateless_tickets = true /\ h_psk_and_dhe_suites = true.
Proof. exact config_as_modelled. Qed.
Print Assumptions c06_config_as_modelled.
