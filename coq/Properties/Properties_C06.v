(* Property C06 - a handshake completes only along a legal message sequence.  Statements only.
   Model: Hs/HsModel.v (code-shaped gates, handlers and flight writers of MatrixSSL as repaired by pending-fixes/C06-1..6);
   grammar: Hs/HsSpec.v (RFC 5246 7.3, RFC 5077, RFC 6066, RFC 4279, RFC 8446 2).
   [all_cfgs]: every server configuration (TLS 1.3 on/off, client authentication, ticket keys) and every client
   configuration (TLS 1.3 on/off x the session-ticket state the ClientHello writer can leave: no session id object,
   INIT, SENT_EMPTY, SENT_TICKET).  [run (init c) is]: the receiver fed with ANY list of inputs - handshake messages of
   any type byte with any oracle answer about their body, and ChangeCipherSpec records. *)
From MV Require Import Hs.HsModel Hs.HsSpec Hs.HsProofs.
Local Open Scope Z_scope.

(* completion => the accepted handshake + ChangeCipherSpec messages are exactly one legal sequence of the negotiated mode *)
Theorem c06_only_legal : forall c is, In c all_cfgs ->
  let s := fst (run (init c) is) in
  err s = false -> hs s = DONE ->
  exists md, negotiated c (acc s) = Some md /\ legal md (kinds (acc s)).
Proof. exact only_legal. Qed.
Print Assumptions c06_only_legal.

(* a message after which the accepted log can no longer be completed to a legal sequence yields a fatal alert and the error flag
   (never an advance); the TLS 1.3 middlebox ChangeCipherSpec, which RFC 8446 says to drop, is the only input excluded *)
Theorem c06_deviation_fatal : forall c is i, In c all_cfgs ->
  let s := fst (run (init c) is) in
  err s = false ->
  (v13 s = true -> i <> ICcs) ->
  ~ prefix_ok c (acc s ++ [item_of i]) ->
  exists s' o, step s i = (s', o) /\
    ((fatal_out o = true /\ err s' = true) \/
     (* only on a COMPLETED session: a renegotiation request (ClientHello to a server, HelloRequest to a client) is answered
        with the no_renegotiation warning of RFC 5246 7.2.2 and changes nothing *)
     (o = OWarn c_SSL_ALERT_NO_RENEGOTIATION /\ s' = s /\ hs s = DONE)).
Proof. exact deviation_fatal. Qed.
Print Assumptions c06_deviation_fatal.

(* no completion without Finished; <= 1.2: ChangeCipherSpec; certificate modes: Certificate (+ ServerKeyExchange for ECDHE,
   ServerHelloDone / ClientKeyExchange, CertificateVerify where a certificate was requested); TLS 1.3: EncryptedExtensions,
   Certificate + CertificateVerify unless PSK; EndOfEarlyData when early data was accepted *)
Theorem c06_no_skip : forall c is, In c all_cfgs ->
  let s := fst (run (init c) is) in
  err s = false -> hs s = DONE ->
  exists md, negotiated c (acc s) = Some md /\ forall k, In k (required md) -> In k (kinds (acc s)).
Proof. exact no_skip. Qed.
Print Assumptions c06_no_skip.

(* TLS <= 1.2: with the read side unprotected (no ChangeCipherSpec yet) every Finished message is fatal *)
Theorem c06_no_finished_before_ccs : forall c is m, In c all_cfgs ->
  let s := fst (run (init c) is) in
  err s = false -> v13 s = false -> rsec s = false -> m_typ m = FIN ->
  exists s' o, step s (IHs m) = (s', o) /\ fatal_out o = true /\ err s' = true.
Proof. exact no_finished_before_ccs. Qed.
Print Assumptions c06_no_finished_before_ccs.

(* completion => some accepted Finished had matching verify_data, and the value it was compared with was computed from
   the receiver's transcript as it stood BEFORE that Finished was hashed ([snap] = [tr] of the pre-state) *)
Theorem c06_finished_binds : forall c is, In c all_cfgs ->
  let s := fst (run (init c) is) in
  err s = false -> hs s = DONE ->
  exists is1 is2, is = is1 ++ IHs (mkmsg FIN (BFin true)) :: is2 /\
    let s1 := fst (run (init c) is1) in
    err s1 = false /\ hs s1 <> DONE /\ snap s = tr s1.
Proof. exact finished_binds. Qed.
Print Assumptions c06_finished_binds.

(* the same with the comparison explicit: for ANY verification oracle, if the answer a Finished gets is the oracle applied
   to the receiver's transcript at that moment and to the verify_data carried, completion implies the oracle said true *)
Theorem c06_finished_binds_oracle : forall (verify : list tent -> Z -> bool) c cis, In c all_cfgs ->
  let s := grun (conc verify) (init c) cis in
  err s = false -> hs s = DONE ->
  exists pre b vd post, cis = pre ++ (IHs (mkmsg FIN (BFin b)), vd) :: post /\
    let s1 := grun (conc verify) (init c) pre in
    hs s1 <> DONE /\ verify (tr s1) vd = true /\ snap s = tr s1.
Proof. exact finished_binds_oracle. Qed.
Print Assumptions c06_finished_binds_oracle.

(* the build switches the model assumes are the ones of the source *)
Theorem c06_config_as_modelled :
  h_rehandshakes_enabled = false /\ h_ocsp_must_staple = true /\ h_stateless_tickets = true /\ h_psk_and_dhe_suites = true.
Proof. exact config_as_modelled. Qed.
Print Assumptions c06_config_as_modelled.
