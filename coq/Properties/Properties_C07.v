(* Property C07 - negotiated parameters are ones both sides enabled; downgrades refused.
   Only statements closed by `exact`; the proofs live in Neg/NegProofs.v (model Neg/NegModel.v of the FIXED code:
   pending-fixes/C07-offered-suite, C07-sentinel-without-extensions, C07-required-ems-without-extensions). *)
From MV Require Import Neg.NegSpec Neg.NegProofs.
Local Open Scope N_scope.

(* the server's version is enabled by the server and offered in this ClientHello (supported_versions, or - without
   it - at most client_version, same TLS/DTLS family); with default (most-recent-first) priorities on both sides it is
   the highest such version outside the list the server refuses for this hello *)
Theorem c07_version_common_highest : forall s c g13 v, wf_vcfg s -> ch_decoded c ->
  server_negotiate_version s c g13 = Ok v ->
  version_ok s c (if g13 then c_forbidden_drafts else c_forbidden_no13suite) v.
Proof. exact version_common_highest. Qed.
Print Assumptions c07_version_common_highest.

(* the client accepts a ServerHello only for a version it enabled (= the ones its hello offered) *)
Theorem c07_client_version_check : forall c k h a, wf_vcfg (cl_ver c) -> sh_decoded h ->
  client_server_hello c k h = ShAcc a -> enabled (cl_ver c) (acc_version a).
Proof. exact client_version_check. Qed.
Print Assumptions c07_client_version_check.

(* server: the chosen suite is in the ClientHello's list and usable by the server (compiled in, not disabled, fits the
   version, key material); client: the accepted suite is the ServerHello's, was offered by this client, is usable by it *)
Theorem c07_suite_in_both_and_offered :
  (forall s k kf h a, server_client_hello s k kf h = Ok a ->
     In (acc_suite a) (h_suites h) /\ suite_usable (gcfg_server s (set_ngtd (acc_version a))) k (acc_suite a) /\ acc_suite a <> 0) /\
  (forall c k h a, client_server_hello c k h = ShAcc a ->
     acc_suite a = sh_suite h /\ offered_spec c k (acc_suite a) /\
     suite_usable (gcfg_client c (set_ngtd (acc_version a))) (fun _ => true) (acc_suite a) /\ acc_suite a <> 0).
Proof. exact suite_in_both_and_offered. Qed.
Print Assumptions c07_suite_in_both_and_offered.

(* TLS 1.3 key-exchange group and signature algorithm lie in both endpoints' lists *)
Theorem c07_group_sigalg_in_both :
  (forall ours shares g, key_share_group ours shares = Some g -> In g ours /\ In g shares) /\
  (forall cshares g, client_accept_share_group cshares g = Ok tt -> In g cshares) /\
  (forall ours cgroups cshares g, negotiate_group ours cgroups = g -> ours <> [] ->
     client_accept_hrr_group cgroups cshares g = Ok tt -> In g ours /\ In g cgroups /\ ~ In g cshares) /\
  (forall ours peer a, choose_sigalg ours peer = Some a -> In a ours /\ In a peer) /\
  (forall supported a, client_accept_sigalg supported a = true -> In a supported).
Proof. exact group_sigalg_in_both. Qed.
Print Assumptions c07_group_sigalg_in_both.

(* the client signals a fallback and the server has a higher version of the same family (TLS / DTLS) enabled: no
   (D)TLS <= 1.2 session results, and a server without TLS 1.3 answers inappropriate_fallback whatever else the hello contains *)
Theorem c07_scsv : forall s k kf h w, wf_vcfg (sv_ver s) ->
  In c_TLS_FALLBACK_SCSV (h_suites h) ->
  enabled (sv_ver s) w -> has (N.lor c_v_tls_any c_v_dtls_any) w = true -> same_family w (ch_legacy (h_ver h)) -> ch_legacy (h_ver h) < w ->
  (forall v su e, server_client_hello s k kf h <> Ok (AccLegacy v su e)) /\
  (has (v_supp (sv_ver s)) c_v_tls_1_3_any = false -> server_client_hello s k kf h = Err c_SSL_ALERT_INAPPROPRIATE_FALLBACK).
Proof. exact scsv_refused. Qed.
Print Assumptions c07_scsv.

(* a client that enabled TLS 1.3 never accepts a ServerHello for an earlier version whose random ends in a downgrade
   sentinel - for every shape of ServerHello (no extension block, empty block, any extension list) *)
Theorem c07_sentinel : forall c k h v s e, has (v_supp (cl_ver c)) c_v_tls_1_3 = true ->
  client_server_hello c k h = ShAcc (AccLegacy v s e) -> is_sentinel (sh_tail h) = false /\ has v c_v_tls_1_3_any = false.
Proof. exact sentinel_refused. Qed.
Print Assumptions c07_sentinel.

(* a side that requires extended_master_secret ends up using it (<= TLS 1.2) *)
Theorem c07_ems_required :
  (forall c k h v s e, cl_ems_required c = true -> cl_ems_sent c = true ->
     client_server_hello c k h = ShAcc (AccLegacy v s e) -> e = true) /\
  (forall s k kf h v su e, sv_require_ems s = true -> server_client_hello s k kf h = Ok (AccLegacy v su e) -> e = true).
Proof. exact ems_required. Qed.
Print Assumptions c07_ems_required.

(* after ANY history of matrixSslSetCipherSuiteEnabledStatus calls (per session with its slot reuse, holes and the
   SSL_MAX_DISABLED_CIPHERS limit, and globally), a suite whose last successful operation was a disable is refused by
   sslGetCipherSpec and never chosen by the server; for the global list "refused iff currently disabled" *)
Theorem c07_disabled_history : forall ops id server supp active k,
  id <> 0 ->
  (cur_disabled false id (combine ops (snd (run_ops dinit ops))) false = true \/
   cur_disabled true id (combine ops (snd (run_ops dinit ops))) false = true ->
     get_cipher_spec (scfg_after server supp active (fst (run_ops dinit ops))) k id = None /\
     forall kf suites s, choose_suite (scfg_after server supp active (fst (run_ops dinit ops))) k kf suites = Some s -> s_id s <> id) /\
  (mem id (d_global (fst (run_ops dinit ops))) = true <-> cur_disabled true id (combine ops (snd (run_ops dinit ops))) false = true).
Proof. exact disabled_history_sound. Qed.
Print Assumptions c07_disabled_history.

(* per-session list: "on the list iff currently disabled" for histories that never disable a suite already on the list.
   PARTIAL: without that hypothesis the "only if" direction fails (NegProofs.reenable_duplicate_witness: a re-disable
   can write a second copy into a hole, the next enable removes only the first) - the suite stays refused: fails closed *)
Theorem c07_disabled_history_iff_partial : forall ops id, id <> 0 -> no_redundant dinit ops = true ->
  (mem id (d_slots (fst (run_ops dinit ops))) = true <-> cur_disabled false id (combine ops (snd (run_ops dinit ops))) false = true).
Proof. exact disabled_history_iff_partial. Qed.
Print Assumptions c07_disabled_history_iff_partial.

(* (D)TLS <= 1.2 key-exchange curve (the TLS 1.3 twin is c07_group_sigalg_in_both).
   Server: the ECDHE curve is enabled for this session (ecFlags), compiled in and - when the ClientHello carries
   supported_groups - listed there; a list with nothing in common is refused with handshake_failure.
   Client (fix C07-ske-curve-offered): a ServerKeyExchange is accepted only on a curve the ClientHello listed. *)
Theorem c07_group_legacy_in_both :
  (forall cfg groups c, (let '(fl, cid) := ec_after_hello cfg groups in server_ecdhe_curve fl cid) = Ok c -> curve_ok cfg groups c) /\
  (forall cfg l, (forall g, In g l -> curve_enabled g cfg = false) ->
     (let '(fl, cid) := ec_after_hello cfg (Some l) in server_ecdhe_curve fl cid) = Err c_SSL_ALERT_HANDSHAKE_FAILURE) /\
  (forall q k, client_ske q k = Ok tt -> client_offered_group q (k_curve k) = true).
Proof. split; [exact server_curve_ok | split; [exact server_curve_disjoint_refused | intros q k H; exact (proj1 (client_ske_ok q k H))]]. Qed.
Print Assumptions c07_group_legacy_in_both.

(* (D)TLS 1.2 SignatureAndHashAlgorithm of ServerKeyExchange / CertificateVerify.
   Signer: chooseSigAlgInt returns an algorithm of the peer's list or, as last resort, the one its own certificate is signed
   with.  Verifiers: the client accepts a ServerKeyExchange only with an algorithm of the signature_algorithms it sent; the
   server accepts a CertificateVerify only with an algorithm class that the client listed and that is on the server's list. *)
Theorem c07_sigalg_legacy_in_both :
  (forall cert keyalg keysize mask a, choose_sigalg_int cert keyalg keysize mask = Some a -> peer_supports (Some a) mask = true \/ a = cert) /\
  (forall q k, client_ske q k = Ok tt ->
     ngtd (q_active q) (N.lor c_v_tls_1_2 (N.lor c_v_dtls_1_2 c_v_tls_1_3_any)) = true -> exists a, k_alg k = Some a /\ In a (q_sigalgs q)) /\
  (forall supported l alg, server_cv_alg (fst (parse_sigalgs supported l 0 0)) alg = Ok tt ->
     exists a, In a l /\ In a supported /\ N.land (hash_sig_mask a) (hash_sig_mask alg) <> 0).
Proof. split; [exact choose_sigalg_sound | split; [intros q k H; exact (proj2 (proj2 (client_ske_ok q k H))) | exact server_cv_alg_ok]]. Qed.
Print Assumptions c07_sigalg_legacy_in_both.
