(* Property C05 - expected-name check accepts only certificates issued for that name.
   Only statements closed by `exact`; the proofs live in Names/NamesProofs.v. *)
From MV Require Import Names.NamesSpec Names.NamesProofs.
From Coq Require Import Permutation.

(* soundness: whenever the code's name section succeeds, the certificate carries the expected name *)
Theorem c05_sound : forall o san cn e,
  o_skip o = false -> validate_general_name e = true -> san_clean san -> cn_clean cn ->
  name_check o san cn e = true -> spec_match o san cn e.
Proof. exact name_check_sound. Qed.
Print Assumptions c05_sound.

(* completeness: a certificate that carries the name is accepted *)
Theorem c05_complete : forall o san cn e,
  o_skip o = false -> validate_general_name e = true ->
  spec_match o san cn e -> name_check o san cn e = true.
Proof. exact name_check_complete. Qed.
Print Assumptions c05_complete.

(* the verdict does not depend on the position of an entry in the subjectAltName list *)
Theorem c05_order : forall o san san' cn e,
  Permutation san san' -> name_check o san cn e = name_check o san' cn e.
Proof. exact name_check_order. Qed.
Print Assumptions c05_order.

(* partial, suffix and multi-label wildcard names never match *)
Theorem c05_dns_shape : forall pat host, host_ok host -> wildcard_match pat host = true ->
  count_dots host = count_dots pat /\ (hd_error pat <> Some ch_star -> length pat = length host).
Proof. exact dns_entry_shape. Qed.
Print Assumptions c05_dns_shape.
