(* Property C03 - X.509 chain validation reports success only for a genuinely signed path to a trust
   anchor, and accepts chains that meet the rules.
   Only statements closed by `exact`; the proofs live in Chain/ChainProofs.v.
   Model: Chain/ChainModel.v (validate / auth_api / parse_gate; first argument true = the code with
   pending-fixes/C03-*.patch applied, false = the pinned code).  Spec: Chain/ChainSpec.v.
   sig_ok (psVerifySig) is universally quantified: the theorems hold whatever signatures verify.
   K is the CRL cache (g_CRL) when validation starts, lg the log of earlier cache consultations. *)
From Coq Require Import List ZArith NArith Bool.
From MV Require Import Gen.Consts Gen.ConstsChain Chain.ChainModel Chain.ChainSpec Chain.ChainProofs.
Import ListNotations.

(* soundness: success (rc 0 and every authStatus PASS) implies a genuine path to one of the anchors *)
Theorem c03_sound : forall (sig_ok : N -> N -> N -> N -> bool) K rv chain anchors lg,
  anchors <> [] -> Forall parsed (chain ++ anchors) -> hd_fresh chain ->
  accepted (validate sig_ok true rv chain anchors (mkK K lg)) = true ->
  genuine_path sig_ok K rv chain anchors.
Proof. exact validate_sound. Qed.
Print Assumptions c03_sound.

(* the pinned code violates it: signature bytes of a trust anchor pasted under a foreign issuer name *)
Theorem c03_sound_pinned_refuted :
  exists sig_ok rv chain anchors,
    anchors <> [] /\ Forall parsed (chain ++ anchors) /\ hd_fresh chain /\
    accepted (validate sig_ok false rv chain anchors (mkK [] [])) = true /\
    ~ genuine_path sig_ok [] rv chain anchors.
Proof. exact validate_sound_pinned_refuted. Qed.
Print Assumptions c03_sound_pinned_refuted.

(* completeness, for the leaf-first order the TLS <= 1.2 path supplies: a genuine path that uses
   supported features is accepted, wherever its anchor stands in the list *)
Theorem c03_complete : forall (sig_ok : N -> N -> N -> N -> bool) K rv chain before a after lg,
  supported_path sig_ok K rv chain before a ->
  accepted (validate sig_ok true rv chain (before ++ a :: after) (mkK K lg)) = true.
Proof. exact validate_complete. Qed.
Print Assumptions c03_complete.

(* called without trust anchors, success only says: consistent chain ending in a genuinely
   self-signed certificate (the TLS layer must still answer unknown_ca - C04) *)
Theorem c03_noanchor : forall (sig_ok : N -> N -> N -> N -> bool) K rv chain lg,
  Forall parsed chain -> accepted (validate sig_ok true rv chain [] (mkK K lg)) = true ->
  self_contained sig_ok K chain /\ Forall (valid_now rv) chain.
Proof. exact validate_noanchor_sound. Qed.
Print Assumptions c03_noanchor.

Theorem c03_noanchor_pinned_refuted :
  exists sig_ok rv chain, Forall parsed chain /\
    accepted (validate sig_ok false rv chain [] (mkK [] [])) = true /\ ~ self_contained sig_ok [] chain.
Proof. exact validate_noanchor_pinned_refuted. Qed.
Print Assumptions c03_noanchor_pinned_refuted.

(* "rc = 0 -> every examined certificate has authStatus PASS" is FALSE, also for the repaired code:
   validity dates, keyUsage and key identifiers are reported through authStatus only *)
Theorem c03_status_consistent_refuted :
  exists sig_ok rv chain anchors,
    anchors <> [] /\ Forall parsed (chain ++ anchors) /\ hd_fresh chain /\
    v_rc (validate sig_ok true rv chain anchors (mkK [] [])) = 0%Z /\
    ~ Forall (fun s => st s = c_PS_CERT_AUTH_PASS) (v_states (validate sig_ok true rv chain anchors (mkK [] []))).
Proof. exact status_consistent_refuted. Qed.
Print Assumptions c03_status_consistent_refuted.

(* what rc = 0 alone does guarantee: names, signatures, CA flags, revocation and path length *)
Theorem c03_status_consistent_partial : forall (sig_ok : N -> N -> N -> N -> bool) K rv chain anchors lg,
  anchors <> [] -> Forall parsed (chain ++ anchors) ->
  v_rc (validate sig_ok true rv chain anchors (mkK K lg)) = 0%Z ->
  signed_path sig_ok K chain anchors.
Proof. exact validate_rc0_signed_path. Qed.
Print Assumptions c03_status_consistent_partial.

(* revocation clause.  genuine_path (c03_sound) already says of every signed link that the CRL speaking for the
   issuer name - the first one cached under it - does not revoke the certificate (ChainSpec.revoked_in: authenticated,
   not stale, serial listed; serial numbers compared as DER INTEGER contents, so 00 C4 is not C4).  For a tidy cache
   (one CRL per issuer name as psCRL_Update keeps it, none past nextUpdate) that is the property's clause verbatim:
   no certificate on the path is listed in ANY authenticated CRL the application loaded under its issuer's name. *)
Theorem c03_revocation : forall (sig_ok : N -> N -> N -> N -> bool) K rv chain anchors lg,
  anchors <> [] -> Forall parsed (chain ++ anchors) -> hd_fresh chain -> cache_tidy K ->
  accepted (validate sig_ok true rv chain anchors (mkK K lg)) = true ->
  exists a, In a anchors /\ linked (step_unrevoked sig_ok K) (chain ++ [a]).
Proof. exact validate_unrevoked. Qed.
Print Assumptions c03_revocation.

(* without the tidy cache the literal clause fails, by design of the cache: a CRL cached earlier under the same
   issuer name (psCRL_Insert) shadows the authenticated one ... *)
Theorem c03_revocation_shadowed_refuted :
  exists sig_ok K rv chain anchors,
    anchors <> [] /\ Forall parsed (chain ++ anchors) /\ hd_fresh chain /\ Forall crl_current K /\
    accepted (validate sig_ok true rv chain anchors (mkK K [])) = true /\
    exists c, In c chain /\ revoked_by_loaded_crl K c.
Proof. exact revocation_shadowed_refuted. Qed.
Print Assumptions c03_revocation_shadowed_refuted.

(* ... and a CRL past its nextUpdate is reported (CRL_CHECK_CRL_EXPIRED) but not applied *)
Theorem c03_revocation_stale_refuted :
  exists sig_ok K rv chain anchors,
    anchors <> [] /\ Forall parsed (chain ++ anchors) /\ hd_fresh chain /\ NoDup (map r_iss K) /\
    accepted (validate sig_ok true rv chain anchors (mkK K [])) = true /\
    exists c, In c chain /\ revoked_by_loaded_crl K c.
Proof. exact revocation_stale_refuted. Qed.
Print Assumptions c03_revocation_stale_refuted.

(* parse-time gate: what reaches the validator is v3, carries no unknown critical extension, has
   matching inner / outer algorithm, and an enabled one (SHA-2; SHA-1 only on certificates whose
   subject and issuer common names coincide) - and nothing else is refused on these grounds *)
Theorem c03_parse_gate : forall d, parse_gate true d = true <-> gate_demands d.
Proof. exact parse_gate_iff. Qed.
Print Assumptions c03_parse_gate.

Theorem c03_parse_gate_pinned_refuted : exists d, parse_gate false d = true /\ ~ gate_demands d.
Proof. exact parse_gate_pinned_refuted. Qed.
Print Assumptions c03_parse_gate_pinned_refuted.
