From MV Require Import Chain.ChainModel Chain.ChainSpec Chain.ChainProofs.
Theorem c03_stub : True.
Proof. exact stub. Qed.
Print Assumptions c03_stub.
