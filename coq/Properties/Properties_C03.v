(* Property C03 - X.509 chain validation reports success only for a genuinely signed path to a trust
   anchor, and accepts chains that meet the rules.
   Only statements closed by `exact`; the proofs live in Chain/ChainProofs.v.
   Model: Chain/ChainModel.v (validate / auth_api / parse_gate; first argument true = the code with
   pending-fixes/C03-*.patch applied, false = the pinned code).  Spec: Chain/ChainSpec.v.
   sig_ok (psVerifySig) is universally quantified: the theorems hold whatever signatures verify. *)
From Coq Require Import List ZArith NArith Bool.
From MV Require Import Gen.Consts Gen.ConstsChain Chain.ChainModel Chain.ChainSpec Chain.ChainProofs.
Import ListNotations.

(* soundness: success (rc 0 and every authStatus PASS) implies a genuine path to one of the anchors *)
Theorem c03_sound : forall (sig_ok : N -> N -> N -> N -> bool) rv chain anchors,
  anchors <> [] -> Forall parsed (chain ++ anchors) -> hd_fresh chain ->
  accepted (validate sig_ok true rv chain anchors) = true ->
  genuine_path sig_ok rv chain anchors.
Proof. exact validate_sound. Qed.
Print Assumptions c03_sound.

(* the pinned code violates it: signature bytes of a trust anchor pasted under a foreign issuer name *)
Theorem c03_sound_pinned_refuted :
  exists sig_ok rv chain anchors,
    anchors <> [] /\ Forall parsed (chain ++ anchors) /\ hd_fresh chain /\
    accepted (validate sig_ok false rv chain anchors) = true /\
    ~ genuine_path sig_ok rv chain anchors.
Proof. exact validate_sound_pinned_refuted. Qed.
Print Assumptions c03_sound_pinned_refuted.

(* completeness, for the leaf-first order the TLS <= 1.2 path supplies: a genuine path that uses
   supported features is accepted, wherever its anchor stands in the list *)
Theorem c03_complete : forall (sig_ok : N -> N -> N -> N -> bool) rv chain before a after,
  supported_path sig_ok rv chain before a ->
  accepted (validate sig_ok true rv chain (before ++ a :: after)) = true.
Proof. exact validate_complete. Qed.
Print Assumptions c03_complete.

(* called without trust anchors, success only says: consistent chain ending in a genuinely
   self-signed certificate (the TLS layer must still answer unknown_ca - C04) *)
Theorem c03_noanchor : forall (sig_ok : N -> N -> N -> N -> bool) rv chain,
  Forall parsed chain -> accepted (validate sig_ok true rv chain []) = true ->
  self_contained sig_ok chain /\ Forall (valid_now rv) chain.
Proof. exact validate_noanchor_sound. Qed.
Print Assumptions c03_noanchor.

Theorem c03_noanchor_pinned_refuted :
  exists sig_ok rv chain, Forall parsed chain /\
    accepted (validate sig_ok false rv chain []) = true /\ ~ self_contained sig_ok chain.
Proof. exact validate_noanchor_pinned_refuted. Qed.
Print Assumptions c03_noanchor_pinned_refuted.

(* "rc = 0 -> every examined certificate has authStatus PASS" is FALSE, also for the repaired code:
   validity dates, keyUsage and key identifiers are reported through authStatus only *)
Theorem c03_status_consistent_refuted :
  exists sig_ok rv chain anchors,
    anchors <> [] /\ Forall parsed (chain ++ anchors) /\ hd_fresh chain /\
    v_rc (validate sig_ok true rv chain anchors) = 0%Z /\
    ~ Forall (fun s => st s = c_PS_CERT_AUTH_PASS) (v_states (validate sig_ok true rv chain anchors)).
Proof. exact status_consistent_refuted. Qed.
Print Assumptions c03_status_consistent_refuted.

(* what rc = 0 alone does guarantee: names, signatures, CA flags, revocation and path length *)
Theorem c03_status_consistent_partial : forall (sig_ok : N -> N -> N -> N -> bool) rv chain anchors,
  anchors <> [] -> Forall parsed (chain ++ anchors) ->
  v_rc (validate sig_ok true rv chain anchors) = 0%Z ->
  signed_path sig_ok chain anchors.
Proof. exact validate_rc0_signed_path. Qed.
Print Assumptions c03_status_consistent_partial.

(* parse-time gate: what reaches the validator is v3, carries no unknown critical extension, has
   matching inner / outer algorithm, and an enabled one (SHA-2; SHA-1 only on certificates whose
   subject and issuer common names coincide) - and nothing else is refused on these grounds *)
Theorem c03_parse_gate : forall d, parse_gate true d = true <-> gate_demands d.
Proof. exact parse_gate_iff. Qed.
Print Assumptions c03_parse_gate.

Theorem c03_parse_gate_pinned_refuted : exists d, parse_gate false d = true /\ ~ gate_demands d.
Proof. exact parse_gate_pinned_refuted. Qed.
Print Assumptions c03_parse_gate_pinned_refuted.
