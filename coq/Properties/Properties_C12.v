(* Property C12 - hashes, MACs, KDFs, ciphers, AEADs exact for every length and call pattern.
   Only statements closed by `exact`; the proofs live in Crypto/CryptoProofs.v (and CryptoSymProofs.v).
   The standards' known answers for every specification used below are checked in Crypto/CryptoKAT.v. *)
From Coq Require Import List NArith ZArith Arith.
From MV Require Import Crypto.CryptoPrims Crypto.CryptoSpec Crypto.CryptoModel Crypto.CryptoProofs Crypto.CryptoKAT
                       Crypto.CryptoSym Crypto.CryptoSymModel Crypto.CryptoSymProofs.
Import ListNotations.

(* ---- digests: Init; Update(chunk_1); ...; Update(chunk_n); Final equals the one-shot FIPS 180-4 /
   RFC 1321 definition of the concatenation, for EVERY list of chunks (any number, any sizes,
   empty chunks included).  The compression function is shared by both sides; what is proved is
   the buffering, the curlen == 0 fast path, the `> 56` / `> 112` padding branch and the length
   encoding of the C code. *)
Theorem c12_sha256_chunks : forall chunks : list (list N),
  sha256_final (fold_left sha256_update chunks sha256_init) = sha256_spec (concat chunks).
Proof. exact sha256_chunks. Qed.
Print Assumptions c12_sha256_chunks.

Theorem c12_sha1_chunks : forall chunks : list (list N),
  sha1_final (fold_left sha1_update chunks sha1_init) = sha1_spec (concat chunks).
Proof. exact sha1_chunks. Qed.
Print Assumptions c12_sha1_chunks.

Theorem c12_sha384_chunks : forall chunks : list (list N),
  sha384_final (fold_left sha384_update chunks sha384_init) = sha384_spec (concat chunks).
Proof. exact sha384_chunks. Qed.
Print Assumptions c12_sha384_chunks.

Theorem c12_sha512_chunks : forall chunks : list (list N),
  sha512_final (fold_left sha512_update chunks sha512_init) = sha512_spec (concat chunks).
Proof. exact sha512_chunks. Qed.
Print Assumptions c12_sha512_chunks.

Theorem c12_md5_chunks : forall chunks : list (list N),
  md5_final (fold_left md5_update chunks md5_init) = md5_spec (concat chunks).
Proof. exact md5_chunks. Qed.
Print Assumptions c12_md5_chunks.

(* ---- HMAC, streaming psHmac<H>Init/Update/Final (with the long-key fix): never writes past pad[]
   and returns RFC 2104's value for EVERY key length and every chunking of the message *)
Theorem c12_hmac_eq : forall (key : list N) (chunks : list (list N)),
  exists c, hmac_sha256_init key = Ok c /\
            hmac_sha256_final (fold_left hmac_sha256_update chunks c) = hmac_sha256_spec key (concat chunks).
Proof. exact hmac_sha256_stream_eq. Qed.
Print Assumptions c12_hmac_eq.

Theorem c12_hmac_sha1_eq : forall (key : list N) (chunks : list (list N)),
  exists c, hmac_sha1_init key = Ok c /\
            hmac_sha1_final (fold_left hmac_sha1_update chunks c) = hmac_sha1_spec key (concat chunks).
Proof. exact hmac_sha1_stream_eq. Qed.
Print Assumptions c12_hmac_sha1_eq.

Theorem c12_hmac_sha384_eq : forall (key : list N) (chunks : list (list N)),
  exists c, hmac_sha384_init key = Ok c /\
            hmac_sha384_final (fold_left hmac_sha384_update chunks c) = hmac_sha384_spec key (concat chunks).
Proof. exact hmac_sha384_stream_eq. Qed.
Print Assumptions c12_hmac_sha384_eq.

Theorem c12_hmac_md5_eq : forall (key : list N) (chunks : list (list N)),
  exists c, hmac_md5_init key = Ok c /\
            hmac_md5_final (fold_left hmac_md5_update chunks c) = hmac_md5_spec key (concat chunks).
Proof. exact hmac_md5_stream_eq. Qed.
Print Assumptions c12_hmac_md5_eq.

(* ---- HMAC, one-shot psHmac<H>(): the MAC and the key length reported through *hmacKeyLen *)
Theorem c12_hmac_oneshot_eq : forall key msg : list N,
  ps_hmac_sha256 key msg = Ok (hmac_sha256_spec key msg, if 64 <? length key then 32 else length key) /\
  ps_hmac_sha1 key msg = Ok (hmac_sha1_spec key msg, if 64 <? length key then 20 else length key) /\
  ps_hmac_sha384 key msg = Ok (hmac_sha384_spec key msg, if 128 <? length key then 48 else length key) /\
  ps_hmac_md5 key msg = Ok (hmac_md5_spec key msg, if 64 <? length key then 16 else length key).
Proof.
  exact (fun key msg => conj (ps_hmac_sha256_eq key msg) (conj (ps_hmac_sha1_eq key msg)
           (conj (ps_hmac_sha384_eq key msg) (ps_hmac_md5_eq key msg)))).
Qed.
Print Assumptions c12_hmac_oneshot_eq.

(* ---- HKDF (RFC 5869) within the limits psHkdfExpand documents: |info| <= 80, |prk| >= HashLen,
   L <= 255*HashLen - including the extra loop turn the C code makes at exact multiples of HashLen *)
Theorem c12_hkdf_eq : forall (prk info : list N) (L : nat),
  length info <= 80 -> 32 <= length prk -> L <= 255 * 32 ->
  hkdf_expand_sha256 prk info L = Ok (hkdf_expand_sha256_spec prk info L).
Proof. exact hkdf_sha256_eq. Qed.
Print Assumptions c12_hkdf_eq.

Theorem c12_hkdf_sha384_eq : forall (prk info : list N) (L : nat),
  length info <= 80 -> 48 <= length prk -> L <= 255 * 48 ->
  hkdf_expand_sha384 prk info L = Ok (hkdf_expand_sha384_spec prk info L).
Proof. exact hkdf_sha384_eq. Qed.
Print Assumptions c12_hkdf_sha384_eq.

Theorem c12_hkdf_extract_eq : forall salt ikm : list N,
  hkdf_extract_sha256 salt ikm = Ok (hkdf_extract_sha256_spec salt ikm) /\
  hkdf_extract_sha384 salt ikm = Ok (hkdf_extract_sha384_spec salt ikm).
Proof. exact (fun salt ikm => conj (hkdf_extract_sha256_eq salt ikm) (hkdf_extract_sha384_eq salt ikm)). Qed.
Print Assumptions c12_hkdf_extract_eq.

(* ---- PBKDF2-HMAC-SHA1 (RFC 8018 5.2): psPkcs5Pbkdf2's block loop over the streaming HMAC, for every
   password length (longer than 64 bytes included), salt, iteration count >= 1 and output length
   representable in the C prototype (uint32) *)
Theorem c12_pbkdf2_eq : forall (pw salt : list N) (rounds : Z) (kLen : nat),
  (1 <= rounds)%Z -> (N.of_nat kLen < 2 ^ 32)%N ->
  pbkdf2_sha1 pw salt rounds kLen = Ok (pbkdf2_sha1_spec pw salt (Z.to_nat rounds) kLen).
Proof. exact pbkdf2_sha1_eq. Qed.
Print Assumptions c12_pbkdf2_eq.

(* ---- CBC (aesCBC.c), for any block cipher E with inverse D on 16-byte blocks (Section hypotheses of
   CryptoSymProofs.v, instantiated in the run by the Gallina AES that passes the FIPS 197 vectors) *)
Section C12_CBC.
  Variable E D : list N -> list N.
  Hypothesis Elen : forall b, length (E b) = 16.
  Hypothesis Dlen : forall b, length (D b) = 16.
  Hypothesis DE : forall b, length b = 16 -> D (E b) = b.

  (* every way of cutting whole blocks into successive psAesEncryptCBC calls, in place or not, yields
     SP 800-38A's ciphertext of the concatenation (and leaves its last block as the next IV) *)
  Theorem c12_cbc_chunks : forall (chunks : list (list N)) (inplace : bool) (iv : list N),
    Forall (fun c => length c mod 16 = 0) chunks ->
    fst (cbc_encrypt_calls E inplace iv chunks) = cbc_encrypt_spec E (length (concat chunks) / 16) iv (concat chunks).
  Proof. intros. rewrite (cbc_encrypt_calls_spec E Elen) by assumption. reflexivity. Qed.

  (* in place = out of place, encryption and decryption, any number of blocks, any state *)
  Theorem c12_cbc_inplace_eq : forall n inp outs iv,
    cbc_enc_blocks E n true inp outs iv = cbc_enc_blocks E n false inp outs iv /\
    cbc_dec_blocks D n true inp outs iv = cbc_dec_blocks D n false inp outs iv.
  Proof. exact (fun n inp outs iv => conj (cbc_enc_inplace_eq E n inp outs iv) (cbc_dec_inplace_eq D n inp outs iv)). Qed.

  (* decrypt (encrypt m) = m: on the specification and through the modelled calls *)
  Theorem c12_cbc_inverse : forall n iv pt, length iv = 16 -> length pt = 16 * n ->
    cbc_decrypt_spec D n iv (cbc_encrypt_spec E n iv pt) = pt.
  Proof. exact (cbc_inverse E D Elen DE). Qed.

  Theorem c12_cbc_model_roundtrip : forall chunks ip1 ip2 iv,
    length iv = 16 -> Forall (fun c => length c mod 16 = 0) chunks ->
    fst (cbc_decrypt_call D ip2 iv (fst (cbc_encrypt_calls E ip1 iv chunks))) = concat chunks.
  Proof. exact (cbc_model_roundtrip E D Elen Dlen DE). Qed.
End C12_CBC.
Print Assumptions c12_cbc_chunks.
Print Assumptions c12_cbc_inplace_eq.
Print Assumptions c12_cbc_inverse.
Print Assumptions c12_cbc_model_roundtrip.

(* ---- GCM (aesGCM.c).  Proved for all inputs: however plaintext / ciphertext is cut into
   psAesEncryptGCM / psAesDecryptGCMtagless calls, context, output and tag are those of one call on the
   concatenation (byte-wise CTR with its partial counter block, the lazy 128-byte GHASH buffer and the
   bit counters all commute with the cut).  The tag handling, the (fixed) length counters and the (fixed)
   key-stream restart follow.  NOT proved (correspondence-only, `_partial` below): that the one-call model
   equals SP 800-38D's GCTR/GHASH definition - the run checks model = spec = library on every case. *)
Theorem c12_gcm_chunks : forall key iv aad (d : list N) (chunks : list (list N)) t,
  aes_gcm_encrypt key iv aad (d :: chunks) t = aes_gcm_encrypt key iv aad [concat (d :: chunks)] t.
Proof. exact aes_gcm_encrypt_chunks. Qed.
Print Assumptions c12_gcm_chunks.

Theorem c12_gcm_decrypt_chunks : forall key iv aad (d : list N) (chunks : list (list N)) last tag,
  aes_gcm_decrypt2 key iv aad (d :: chunks) last tag = aes_gcm_decrypt2 key iv aad [] (concat (d :: chunks) ++ last) tag.
Proof. exact aes_gcm_decrypt2_chunks. Qed.
Print Assumptions c12_gcm_decrypt_chunks.

(* the same at the level of one context in any state (any block cipher E) *)
Theorem c12_gcm_crypt_chunks : forall E c (d : list N) (chunks : list (list N)) enc,
  length (g_ibuf c) <= 128 ->
  gcm_fold_crypt E c (d :: chunks) enc = gcm_crypt E c (concat (d :: chunks)) enc.
Proof. exact gcm_chunks_eq. Qed.
Print Assumptions c12_gcm_crypt_chunks.

(* tagBytes <= 16: the tag handed out is MSB_t of the full tag *)
Theorem c12_gcm_taglen_partial : forall E c t, t <= 16 ->
  gcm_get_tag E c t = Ok (gcm_after_tag E c t, firstn t (gcm_full_tag E c)) /\
  length (firstn t (gcm_full_tag E c)) <= t.
Proof. exact gcm_get_tag_prefix. Qed.
Print Assumptions c12_gcm_taglen_partial.

(* decryption releases the plaintext iff the first |tag| bytes of the computed tag equal the received
   tag: any changed bit within tagLen bytes is a failure, and exactly tagLen bytes are compared *)
Theorem c12_gcm_tag_compare_partial : forall E c ct tag,
  0 < length tag <= 16 ->
  let c1 := fst (gcm_crypt E c ct false) in let pt := snd (gcm_crypt E c ct false) in
  gcm_decrypt E c ct tag = Ok (if bytes_eqb (firstn (length tag) (gcm_full_tag E c1)) tag then Some pt else None) /\
  gcm_decrypt2 E c ct tag = Ok (if bytes_eqb (firstn (length tag) (gcm_full_tag E c1)) tag then Some pt else None) /\
  (bytes_eqb (firstn (length tag) (gcm_full_tag E c1)) tag = true <-> firstn (length tag) (gcm_full_tag E c1) = tag).
Proof.
  intros E c ct tag H. split; [exact (gcm_decrypt_tag E c ct tag H)|].
  exact (gcm_decrypt2_tag E c ct tag (proj2 H)).
Qed.
Print Assumptions c12_gcm_tag_compare_partial.

(* the FIXED 64-bit length counter is exact; the unfixed one was not (witnesses replayed on the library) *)
Theorem c12_gcm_count_exact : forall lo hi n,
  let r := gcm_count_add lo hi n in
  (snd r * 2 ^ 32 + fst r = (hi * 2 ^ 32 + lo + 8 * n) mod 2 ^ 64)%N /\ (fst r < 2 ^ 32)%N /\ (snd r < 2 ^ 32)%N.
Proof. exact gcm_count_add_exact. Qed.
Print Assumptions c12_gcm_count_exact.

Theorem c12_gcm_count_unfixed_refuted :
  gcm_count_add_unfixed (2 ^ 31 - 128) 0 16 <> gcm_count_add (2 ^ 31 - 128) 0 16 /\
  gcm_count_add_unfixed 0 0 (2 ^ 28 + 16) <> gcm_count_add 0 0 (2 ^ 28 + 16).
Proof. exact gcm_count_unfixed_refuted. Qed.
Print Assumptions c12_gcm_count_unfixed_refuted.

(* the FIXED psAesReadyGCM restarts the key stream at a block boundary whatever the context did before *)
Theorem c12_gcm_ready_resets : forall c iv aad, g_ocnt (gcm_ready c iv aad) = 0.
Proof. exact gcm_ready_resets. Qed.
Print Assumptions c12_gcm_ready_resets.
