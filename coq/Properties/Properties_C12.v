(* Property C12 - hashes, MACs, KDFs, ciphers, AEADs exact for every length and call pattern.
   Only statements closed by `exact`; the proofs live in Crypto/CryptoProofs.v (and CryptoSymProofs.v).
   The standards' known answers for every specification used below are checked in Crypto/CryptoKAT.v. *)
From Coq Require Import List NArith ZArith Arith.
From MV Require Import Crypto.CryptoPrims Crypto.CryptoSpec Crypto.CryptoModel Crypto.CryptoProofs Crypto.CryptoKAT.
Import ListNotations.

(* ---- digests: Init; Update(chunk_1); ...; Update(chunk_n); Final equals the one-shot FIPS 180-4 /
   RFC 1321 definition of the concatenation, for EVERY list of chunks (any number, any sizes,
   empty chunks included).  The compression function is shared by both sides; what is proved is
   the buffering, the curlen == 0 fast path, the `> 56` / `> 112` padding branch and the length
   encoding of the C code. *)
Theorem c12_sha256_chunks : forall chunks : list (list N),
  sha256_final (fold_left sha256_update chunks sha256_init) = sha256_spec (concat chunks).
Proof. exact sha256_chunks. Qed.
Print Assumptions c12_sha256_chunks.

Theorem c12_sha1_chunks : forall chunks : list (list N),
  sha1_final (fold_left sha1_update chunks sha1_init) = sha1_spec (concat chunks).
Proof. exact sha1_chunks. Qed.
Print Assumptions c12_sha1_chunks.

Theorem c12_sha384_chunks : forall chunks : list (list N),
  sha384_final (fold_left sha384_update chunks sha384_init) = sha384_spec (concat chunks).
Proof. exact sha384_chunks. Qed.
Print Assumptions c12_sha384_chunks.

Theorem c12_sha512_chunks : forall chunks : list (list N),
  sha512_final (fold_left sha512_update chunks sha512_init) = sha512_spec (concat chunks).
Proof. exact sha512_chunks. Qed.
Print Assumptions c12_sha512_chunks.

Theorem c12_md5_chunks : forall chunks : list (list N),
  md5_final (fold_left md5_update chunks md5_init) = md5_spec (concat chunks).
Proof. exact md5_chunks. Qed.
Print Assumptions c12_md5_chunks.

(* ---- HMAC, streaming psHmac<H>Init/Update/Final (with the long-key fix): never writes past pad[]
   and returns RFC 2104's value for EVERY key length and every chunking of the message *)
Theorem c12_hmac_eq : forall (key : list N) (chunks : list (list N)),
  exists c, hmac_sha256_init key = Ok c /\
            hmac_sha256_final (fold_left hmac_sha256_update chunks c) = hmac_sha256_spec key (concat chunks).
Proof. exact hmac_sha256_stream_eq. Qed.
Print Assumptions c12_hmac_eq.

Theorem c12_hmac_sha1_eq : forall (key : list N) (chunks : list (list N)),
  exists c, hmac_sha1_init key = Ok c /\
            hmac_sha1_final (fold_left hmac_sha1_update chunks c) = hmac_sha1_spec key (concat chunks).
Proof. exact hmac_sha1_stream_eq. Qed.
Print Assumptions c12_hmac_sha1_eq.

Theorem c12_hmac_sha384_eq : forall (key : list N) (chunks : list (list N)),
  exists c, hmac_sha384_init key = Ok c /\
            hmac_sha384_final (fold_left hmac_sha384_update chunks c) = hmac_sha384_spec key (concat chunks).
Proof. exact hmac_sha384_stream_eq. Qed.
Print Assumptions c12_hmac_sha384_eq.

Theorem c12_hmac_md5_eq : forall (key : list N) (chunks : list (list N)),
  exists c, hmac_md5_init key = Ok c /\
            hmac_md5_final (fold_left hmac_md5_update chunks c) = hmac_md5_spec key (concat chunks).
Proof. exact hmac_md5_stream_eq. Qed.
Print Assumptions c12_hmac_md5_eq.

(* ---- HMAC, one-shot psHmac<H>(): the MAC and the key length reported through *hmacKeyLen *)
Theorem c12_hmac_oneshot_eq : forall key msg : list N,
  ps_hmac_sha256 key msg = Ok (hmac_sha256_spec key msg, if 64 <? length key then 32 else length key) /\
  ps_hmac_sha1 key msg = Ok (hmac_sha1_spec key msg, if 64 <? length key then 20 else length key) /\
  ps_hmac_sha384 key msg = Ok (hmac_sha384_spec key msg, if 128 <? length key then 48 else length key) /\
  ps_hmac_md5 key msg = Ok (hmac_md5_spec key msg, if 64 <? length key then 16 else length key).
Proof.
  exact (fun key msg => conj (ps_hmac_sha256_eq key msg) (conj (ps_hmac_sha1_eq key msg)
           (conj (ps_hmac_sha384_eq key msg) (ps_hmac_md5_eq key msg)))).
Qed.
Print Assumptions c12_hmac_oneshot_eq.

(* ---- HKDF (RFC 5869) within the limits psHkdfExpand documents: |info| <= 80, |prk| >= HashLen,
   L <= 255*HashLen - including the extra loop turn the C code makes at exact multiples of HashLen *)
Theorem c12_hkdf_eq : forall (prk info : list N) (L : nat),
  length info <= 80 -> 32 <= length prk -> L <= 255 * 32 ->
  hkdf_expand_sha256 prk info L = Ok (hkdf_expand_sha256_spec prk info L).
Proof. exact hkdf_sha256_eq. Qed.
Print Assumptions c12_hkdf_eq.

Theorem c12_hkdf_sha384_eq : forall (prk info : list N) (L : nat),
  length info <= 80 -> 48 <= length prk -> L <= 255 * 48 ->
  hkdf_expand_sha384 prk info L = Ok (hkdf_expand_sha384_spec prk info L).
Proof. exact hkdf_sha384_eq. Qed.
Print Assumptions c12_hkdf_sha384_eq.

Theorem c12_hkdf_extract_eq : forall salt ikm : list N,
  hkdf_extract_sha256 salt ikm = Ok (hkdf_extract_sha256_spec salt ikm) /\
  hkdf_extract_sha384 salt ikm = Ok (hkdf_extract_sha384_spec salt ikm).
Proof. exact (fun salt ikm => conj (hkdf_extract_sha256_eq salt ikm) (hkdf_extract_sha384_eq salt ikm)). Qed.
Print Assumptions c12_hkdf_extract_eq.

(* ---- PBKDF2-HMAC-SHA1 (RFC 8018 5.2): psPkcs5Pbkdf2's block loop over the streaming HMAC, for every
   password length (longer than 64 bytes included), salt, iteration count >= 1 and output length
   representable in the C prototype (uint32) *)
Theorem c12_pbkdf2_eq : forall (pw salt : list N) (rounds : Z) (kLen : nat),
  (1 <= rounds)%Z -> (N.of_nat kLen < 2 ^ 32)%N ->
  pbkdf2_sha1 pw salt rounds kLen = Ok (pbkdf2_sha1_spec pw salt (Z.to_nat rounds) kLen).
Proof. exact pbkdf2_sha1_eq. Qed.
Print Assumptions c12_pbkdf2_eq.
