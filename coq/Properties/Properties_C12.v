(* Property C12 - hashes, MACs, KDFs, ciphers, AEADs exact for every length and call pattern.
   Only statements closed by `exact`; the proofs live in Crypto/CryptoProofs.v (and CryptoSymProofs.v).
   The standards' known answers for every specification used below are checked in Crypto/CryptoKAT.v. *)
From Coq Require Import List NArith ZArith Arith.
From MV Require Import Crypto.CryptoPrims Crypto.CryptoSpec Crypto.CryptoModel Crypto.CryptoProofs Crypto.CryptoKAT
                       Crypto.CryptoSym Crypto.CryptoSymModel Crypto.CryptoSymProofs
                       Crypto.CryptoDes Crypto.CryptoDesModel Crypto.CryptoDesProofs Crypto.CryptoLegacy Crypto.CryptoLegacyProofs.
Import ListNotations.

(* ---- digests: Init; Update(chunk_1); ...; Update(chunk_n); Final equals the one-shot FIPS 180-4 /
   RFC 1321 definition of the concatenation, for EVERY list of chunks (any number, any sizes,
   empty chunks included).  The compression function is shared by both sides; what is proved is
   the buffering, the curlen == 0 fast path, the `> 56` / `> 112` padding branch and the length
   encoding of the C code. *)
Theorem c12_sha256_chunks : forall chunks : list (list N),
  sha256_final (fold_left sha256_update chunks sha256_init) = sha256_spec (concat chunks).
Proof. exact sha256_chunks. Qed.
Print Assumptions c12_sha256_chunks.

Theorem c12_sha1_chunks : forall chunks : list (list N),
  sha1_final (fold_left sha1_update chunks sha1_init) = sha1_spec (concat chunks).
Proof. exact sha1_chunks. Qed.
Print Assumptions c12_sha1_chunks.

Theorem c12_sha384_chunks : forall chunks : list (list N),
  sha384_final (fold_left sha384_update chunks sha384_init) = sha384_spec (concat chunks).
Proof. exact sha384_chunks. Qed.
Print Assumptions c12_sha384_chunks.

Theorem c12_sha512_chunks : forall chunks : list (list N),
  sha512_final (fold_left sha512_update chunks sha512_init) = sha512_spec (concat chunks).
Proof. exact sha512_chunks. Qed.
Print Assumptions c12_sha512_chunks.

Theorem c12_md5_chunks : forall chunks : list (list N),
  md5_final (fold_left md5_update chunks md5_init) = md5_spec (concat chunks).
Proof. exact md5_chunks. Qed.
Print Assumptions c12_md5_chunks.

(* ---- HMAC, streaming psHmac<H>Init/Update/Final (with the long-key fix): never writes past pad[]
   and returns RFC 2104's value for EVERY key length and every chunking of the message *)
Theorem c12_hmac_eq : forall (key : list N) (chunks : list (list N)),
  exists c, hmac_sha256_init key = Ok c /\
            hmac_sha256_final (fold_left hmac_sha256_update chunks c) = hmac_sha256_spec key (concat chunks).
Proof. exact hmac_sha256_stream_eq. Qed.
Print Assumptions c12_hmac_eq.

Theorem c12_hmac_sha1_eq : forall (key : list N) (chunks : list (list N)),
  exists c, hmac_sha1_init key = Ok c /\
            hmac_sha1_final (fold_left hmac_sha1_update chunks c) = hmac_sha1_spec key (concat chunks).
Proof. exact hmac_sha1_stream_eq. Qed.
Print Assumptions c12_hmac_sha1_eq.

Theorem c12_hmac_sha384_eq : forall (key : list N) (chunks : list (list N)),
  exists c, hmac_sha384_init key = Ok c /\
            hmac_sha384_final (fold_left hmac_sha384_update chunks c) = hmac_sha384_spec key (concat chunks).
Proof. exact hmac_sha384_stream_eq. Qed.
Print Assumptions c12_hmac_sha384_eq.

Theorem c12_hmac_md5_eq : forall (key : list N) (chunks : list (list N)),
  exists c, hmac_md5_init key = Ok c /\
            hmac_md5_final (fold_left hmac_md5_update chunks c) = hmac_md5_spec key (concat chunks).
Proof. exact hmac_md5_stream_eq. Qed.
Print Assumptions c12_hmac_md5_eq.

(* ---- HMAC, one-shot psHmac<H>(): the MAC and the key length reported through *hmacKeyLen *)
Theorem c12_hmac_oneshot_eq : forall key msg : list N,
  ps_hmac_sha256 key msg = Ok (hmac_sha256_spec key msg, if 64 <? length key then 32 else length key) /\
  ps_hmac_sha1 key msg = Ok (hmac_sha1_spec key msg, if 64 <? length key then 20 else length key) /\
  ps_hmac_sha384 key msg = Ok (hmac_sha384_spec key msg, if 128 <? length key then 48 else length key) /\
  ps_hmac_md5 key msg = Ok (hmac_md5_spec key msg, if 64 <? length key then 16 else length key).
Proof.
  exact (fun key msg => conj (ps_hmac_sha256_eq key msg) (conj (ps_hmac_sha1_eq key msg)
           (conj (ps_hmac_sha384_eq key msg) (ps_hmac_md5_eq key msg)))).
Qed.
Print Assumptions c12_hmac_oneshot_eq.

(* ---- HKDF (RFC 5869) within the limits psHkdfExpand documents: |info| <= 80, |prk| >= HashLen,
   L <= 255*HashLen - including the extra loop turn the C code makes at exact multiples of HashLen *)
Theorem c12_hkdf_eq : forall (prk info : list N) (L : nat),
  length info <= 80 -> 32 <= length prk -> L <= 255 * 32 ->
  hkdf_expand_sha256 prk info L = Ok (hkdf_expand_sha256_spec prk info L).
Proof. exact hkdf_sha256_eq. Qed.
Print Assumptions c12_hkdf_eq.

Theorem c12_hkdf_sha384_eq : forall (prk info : list N) (L : nat),
  length info <= 80 -> 48 <= length prk -> L <= 255 * 48 ->
  hkdf_expand_sha384 prk info L = Ok (hkdf_expand_sha384_spec prk info L).
Proof. exact hkdf_sha384_eq. Qed.
Print Assumptions c12_hkdf_sha384_eq.

Theorem c12_hkdf_extract_eq : forall salt ikm : list N,
  hkdf_extract_sha256 salt ikm = Ok (hkdf_extract_sha256_spec salt ikm) /\
  hkdf_extract_sha384 salt ikm = Ok (hkdf_extract_sha384_spec salt ikm).
Proof. exact (fun salt ikm => conj (hkdf_extract_sha256_eq salt ikm) (hkdf_extract_sha384_eq salt ikm)). Qed.
Print Assumptions c12_hkdf_extract_eq.

(* ---- PBKDF2-HMAC-SHA1 (RFC 8018 5.2): psPkcs5Pbkdf2's block loop over the streaming HMAC, for every
   password length (longer than 64 bytes included), salt, iteration count >= 1 and output length
   representable in the C prototype (uint32) *)
Theorem c12_pbkdf2_eq : forall (pw salt : list N) (rounds : Z) (kLen : nat),
  (1 <= rounds)%Z -> (N.of_nat kLen < 2 ^ 32)%N ->
  pbkdf2_sha1 pw salt rounds kLen = Ok (pbkdf2_sha1_spec pw salt (Z.to_nat rounds) kLen).
Proof. exact pbkdf2_sha1_eq. Qed.
Print Assumptions c12_pbkdf2_eq.

(* ---- CBC (aesCBC.c), for any block cipher E with inverse D on 16-byte blocks (Section hypotheses of
   CryptoSymProofs.v, instantiated in the run by the Gallina AES that passes the FIPS 197 vectors) *)
Section C12_CBC.
  Variable E D : list N -> list N.
  Hypothesis Elen : forall b, length (E b) = 16.
  Hypothesis Dlen : forall b, length (D b) = 16.
  Hypothesis DE : forall b, length b = 16 -> D (E b) = b.

  (* every way of cutting whole blocks into successive psAesEncryptCBC calls, in place or not, yields
     SP 800-38A's ciphertext of the concatenation (and leaves its last block as the next IV) *)
  Theorem c12_cbc_chunks : forall (chunks : list (list N)) (inplace : bool) (iv : list N),
    Forall (fun c => length c mod 16 = 0) chunks ->
    fst (cbc_encrypt_calls E inplace iv chunks) = cbc_encrypt_spec E (length (concat chunks) / 16) iv (concat chunks).
  Proof. intros. rewrite (cbc_encrypt_calls_spec E Elen) by assumption. reflexivity. Qed.

  (* in place = out of place, encryption and decryption, any number of blocks, any state *)
  Theorem c12_cbc_inplace_eq : forall n inp outs iv,
    cbc_enc_blocks E n true inp outs iv = cbc_enc_blocks E n false inp outs iv /\
    cbc_dec_blocks D n true inp outs iv = cbc_dec_blocks D n false inp outs iv.
  Proof. exact (fun n inp outs iv => conj (cbc_enc_inplace_eq E n inp outs iv) (cbc_dec_inplace_eq D n inp outs iv)). Qed.

  (* decrypt (encrypt m) = m: on the specification and through the modelled calls *)
  Theorem c12_cbc_inverse : forall n iv pt, length iv = 16 -> length pt = 16 * n ->
    cbc_decrypt_spec D n iv (cbc_encrypt_spec E n iv pt) = pt.
  Proof. exact (cbc_inverse E D Elen DE). Qed.

  Theorem c12_cbc_model_roundtrip : forall chunks ip1 ip2 iv,
    length iv = 16 -> Forall (fun c => length c mod 16 = 0) chunks ->
    fst (cbc_decrypt_call D ip2 iv (fst (cbc_encrypt_calls E ip1 iv chunks))) = concat chunks.
  Proof. exact (cbc_model_roundtrip E D Elen Dlen DE). Qed.
End C12_CBC.
Print Assumptions c12_cbc_chunks.
Print Assumptions c12_cbc_inplace_eq.
Print Assumptions c12_cbc_inverse.
Print Assumptions c12_cbc_model_roundtrip.

(* ---- GCM (aesGCM.c).  Proved for all inputs: however plaintext / ciphertext is cut into
   psAesEncryptGCM / psAesDecryptGCMtagless calls, context, output and tag are those of one call on the
   concatenation (byte-wise CTR with its partial counter block, the lazy 128-byte GHASH buffer and the
   bit counters all commute with the cut).  The tag handling, the (fixed) length counters and the (fixed)
   key-stream restart follow.  NOT proved (correspondence-only, `_partial` below): that the one-call model
   equals SP 800-38D's GCTR/GHASH definition - the run checks model = spec = library on every case. *)
Theorem c12_gcm_chunks : forall key iv aad (d : list N) (chunks : list (list N)) t,
  aes_gcm_encrypt key iv aad (d :: chunks) t = aes_gcm_encrypt key iv aad [concat (d :: chunks)] t.
Proof. exact aes_gcm_encrypt_chunks. Qed.
Print Assumptions c12_gcm_chunks.

Theorem c12_gcm_decrypt_chunks : forall key iv aad (d : list N) (chunks : list (list N)) last tag,
  aes_gcm_decrypt2 key iv aad (d :: chunks) last tag = aes_gcm_decrypt2 key iv aad [] (concat (d :: chunks) ++ last) tag.
Proof. exact aes_gcm_decrypt2_chunks. Qed.
Print Assumptions c12_gcm_decrypt_chunks.

(* the same at the level of one context in any state (any block cipher E) *)
Theorem c12_gcm_crypt_chunks : forall E c (d : list N) (chunks : list (list N)) enc,
  length (g_ibuf c) <= 128 ->
  gcm_fold_crypt E c (d :: chunks) enc = gcm_crypt E c (concat (d :: chunks)) enc.
Proof. exact gcm_chunks_eq. Qed.
Print Assumptions c12_gcm_crypt_chunks.

(* tagBytes <= 16: the tag handed out is MSB_t of the full tag *)
Theorem c12_gcm_taglen_partial : forall E c t, t <= 16 ->
  gcm_get_tag E c t = Ok (gcm_after_tag E c t, firstn t (gcm_full_tag E c)) /\
  length (firstn t (gcm_full_tag E c)) <= t.
Proof. exact gcm_get_tag_prefix. Qed.
Print Assumptions c12_gcm_taglen_partial.

(* decryption releases the plaintext iff the first |tag| bytes of the computed tag equal the received
   tag: any changed bit within tagLen bytes is a failure, and exactly tagLen bytes are compared *)
Theorem c12_gcm_tag_compare_partial : forall E c ct tag,
  0 < length tag <= 16 ->
  let c1 := fst (gcm_crypt E c ct false) in let pt := snd (gcm_crypt E c ct false) in
  gcm_decrypt E c ct tag = Ok (if bytes_eqb (firstn (length tag) (gcm_full_tag E c1)) tag then Some pt else None) /\
  gcm_decrypt2 E c ct tag = Ok (if bytes_eqb (firstn (length tag) (gcm_full_tag E c1)) tag then Some pt else None) /\
  (bytes_eqb (firstn (length tag) (gcm_full_tag E c1)) tag = true <-> firstn (length tag) (gcm_full_tag E c1) = tag).
Proof.
  intros E c ct tag H. split; [exact (gcm_decrypt_tag E c ct tag H)|].
  exact (gcm_decrypt2_tag E c ct tag (proj2 H)).
Qed.
Print Assumptions c12_gcm_tag_compare_partial.

(* the FIXED 64-bit length counter is exact; the unfixed one was not (witnesses replayed on the library) *)
Theorem c12_gcm_count_exact : forall lo hi n,
  let r := gcm_count_add lo hi n in
  (snd r * 2 ^ 32 + fst r = (hi * 2 ^ 32 + lo + 8 * n) mod 2 ^ 64)%N /\ (fst r < 2 ^ 32)%N /\ (snd r < 2 ^ 32)%N.
Proof. exact gcm_count_add_exact. Qed.
Print Assumptions c12_gcm_count_exact.

Theorem c12_gcm_count_unfixed_refuted :
  gcm_count_add_unfixed (2 ^ 31 - 128) 0 16 <> gcm_count_add (2 ^ 31 - 128) 0 16 /\
  gcm_count_add_unfixed 0 0 (2 ^ 28 + 16) <> gcm_count_add 0 0 (2 ^ 28 + 16).
Proof. exact gcm_count_unfixed_refuted. Qed.
Print Assumptions c12_gcm_count_unfixed_refuted.

(* the FIXED psAesReadyGCM restarts the key stream at a block boundary whatever the context did before *)
Theorem c12_gcm_ready_resets : forall c iv aad, g_ocnt (gcm_ready c iv aad) = 0.
Proof. exact gcm_ready_resets. Qed.
Print Assumptions c12_gcm_ready_resets.

(* ---- DES / TDEA / 3DES-EDE-CBC (crypto/symmetric/des3.c; FIPS 46-3, SP 800-67, SP 800-38A) *)
(* FIPS 46-3: deciphering (K16..K1) inverts enciphering and conversely - every key, every 8-byte block *)
Theorem c12_des_inverse : forall key b, length b = 8 -> good b ->
  des_block true key (des_block false key b) = b /\ des_block false key (des_block true key b) = b.
Proof. exact des_block_inverse. Qed.
Print Assumptions c12_des_inverse.

(* SP 800-67 + SP 800-38A: TDEA-CBC decryption recovers the plaintext - every key bundle, IV, whole blocks *)
Theorem c12_des3_spec_inverse : forall key iv pt, length iv = 8 -> length pt mod 8 = 0 -> good iv -> good pt ->
  des3_cbc_decrypt_spec key iv (des3_cbc_encrypt_spec key iv pt) = pt.
Proof. exact des3_cbc_spec_inverse. Qed.
Print Assumptions c12_des3_spec_inverse.

(* KEY ORDER / DIRECTION of the model of psDes3InitKey + psDes3EncryptBlock / psDes3DecryptBlock, for every key and
   block: encryption is E_K3(D_K2(E_K1(.))), decryption is D_K1(E_K2(D_K3(.))) with K1||K2||K3 the 24 key bytes,
   where E_K / D_K are the code's own single-DES stages desfunc(deskey(K, EN0)) / desfunc(deskey(K, DE1)) *)
Theorem c12_des3_key_order : forall key b,
  ps_des3_encrypt_block (ps_des3_init_key key) b =
    store_block (tdea_encrypt_spec (stage_enc (list N) (N * N) c_deskey c_desfunc) (stage_dec (list N) (N * N) c_deskey c_desfunc)
                   (firstn 8 key) (firstn 8 (skipn 8 key)) (firstn 8 (skipn 16 key)) (load_block b)) /\
  ps_des3_decrypt_block (ps_des3_init_key key) b =
    store_block (tdea_decrypt_spec (stage_enc (list N) (N * N) c_deskey c_desfunc) (stage_dec (list N) (N * N) c_deskey c_desfunc)
                   (firstn 8 key) (firstn 8 (skipn 8 key)) (firstn 8 (skipn 16 key)) (load_block b)).
Proof. exact ps_des3_block_key_order. Qed.
Print Assumptions c12_des3_key_order.

(* CBC chaining, IV carried across calls, in place = out of place - every key, IV, cut of whole blocks *)
Theorem c12_des3_calls : forall key ip iv chunks,
  8 <= length iv -> Forall (fun c => length c mod 8 = 0) chunks ->
  fst (ps_des3_encrypt_calls key ip iv chunks) =
    cbcn_encrypt_spec 8 (ps_des3_encrypt_block (ps_des3_init_key key)) (length (concat chunks) / 8) (firstn 8 iv) (concat chunks) /\
  fst (ps_des3_decrypt_calls key ip iv chunks) =
    cbcn_decrypt_spec 8 (ps_des3_decrypt_block (ps_des3_init_key key)) (length (concat chunks) / 8) (firstn 8 iv) (concat chunks).
Proof. exact ps_des3_calls. Qed.
Print Assumptions c12_des3_calls.

(* PARTIAL: model = SP 800-67 TDEA-CBC and decrypt o encrypt = id, GIVEN single_des_is_fips46 - the one unproved
   statement: des3.c's deskey + cookey + desfunc (cooked sub-keys, SP-box network, bit-trick IP/FP) compute the
   FIPS 46-3 DES of CryptoDes.v.  That hypothesis is tied by 156 known answers in both directions on the concrete
   functions (CryptoKAT.v: published NBS/FIPS vectors, full variable-plaintext and variable-key sets, weak keys)
   and by the differential run, where model = spec = library is compared on every case. *)
Theorem c12_des3_eq_spec_partial : single_des_is_fips46 -> forall key ip iv chunks,
  length iv = 8 -> Forall (fun c => length c mod 8 = 0) chunks ->
  fst (ps_des3_encrypt_calls key ip iv chunks) = des3_cbc_encrypt_spec key iv (concat chunks) /\
  fst (ps_des3_decrypt_calls key ip iv chunks) = des3_cbc_decrypt_spec key iv (concat chunks).
Proof.
  exact (fun H key ip iv chunks Hiv Hall =>
           conj (ps_des3_encrypt_eq_spec H key ip iv chunks Hiv Hall) (ps_des3_decrypt_eq_spec H key ip iv chunks Hiv Hall)).
Qed.
Print Assumptions c12_des3_eq_spec_partial.

Theorem c12_des3_roundtrip_partial : single_des_is_fips46 -> forall key ip1 ip2 iv chunks chunks2,
  length iv = 8 -> good iv -> good (concat chunks) ->
  Forall (fun c => length c mod 8 = 0) chunks -> Forall (fun c => length c mod 8 = 0) chunks2 ->
  concat chunks2 = fst (ps_des3_encrypt_calls key ip1 iv chunks) ->
  fst (ps_des3_decrypt_calls key ip2 iv chunks2) = concat chunks.
Proof. exact ps_des3_roundtrip. Qed.
Print Assumptions c12_des3_roundtrip_partial.

(* ---- MD5||SHA-1 (md5sha1.c) and psPkcs5Pbkdf1 (pkcs.c) *)
Theorem c12_md5sha1_chunks : forall chunks : list (list N),
  md5sha1_final (fold_left md5sha1_update chunks md5sha1_init) = md5sha1_spec (concat chunks).
Proof. exact md5sha1_chunks. Qed.
Print Assumptions c12_md5sha1_chunks.

Theorem c12_pbkdf1_eq : forall pass salt, length salt = 8 -> pbkdf1_md5 pass salt = pbkdf1_md5_spec pass salt.
Proof. exact pbkdf1_md5_eq. Qed.
Print Assumptions c12_pbkdf1_eq.
