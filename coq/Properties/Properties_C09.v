(* C09 - credential and PKI parsers are memory-safe and total on arbitrary bytes (PARTIAL: the
   modelled primitives; the remaining parsers are explored under sanitizers, see evidence/C09.json).
   Model: coq/Asn/AsnModel.v (code with the pending C09 fixes).  Spec: coq/Asn/AsnSpec.v.
   Buffers are arbitrary [list N]; [holds buf n] = the block really has n bytes (n <= length). *)
From MV Require Import Base.Bytes Gen.Consts Gen.ConstsAsn Asn.AsnModel Asn.AsnSpec Asn.AsnProofs.
Local Open Scope N_scope.

(* no asn1.c primitive ever reads outside [c, c+size) or fails to terminate, for all byte strings *)
Theorem c09_prim_no_fault : forall buf c size indef chk,
  holds buf (c + size) -> c + size < two32 ->
  safe (getAsnLength32 buf c size indef) /\ safe (getAsnLength buf c size) /\
  safe (getAsnSequence32 buf c size indef) /\ safe (getAsnSet32 buf c size indef) /\
  safe (getAsnSequence buf c size) /\ safe (getAsnSet buf c size) /\
  safe (getAsnInteger buf c size) /\ safe (getAsnEnumerated buf c size) /\
  safe (getAsnOID buf c size chk) /\ safe (getAsnAlgorithmIdentifier buf c size).
Proof. exact prim_no_fault. Qed.
Print Assumptions c09_prim_no_fault.

(* success moves the cursor strictly forward and keeps it inside the block: callers that loop terminate *)
Theorem c09_prim_progress : forall buf c size indef chk,
  holds buf (c + size) -> c + size < two32 ->
  (forall rc len c', getAsnLength32 buf c size indef = Ok (rc, len, c') -> c < c' /\ c' <= c + size) /\
  (forall len c', getAsnLength buf c size = Ok (len, c') -> c < c' /\ c' <= c + size) /\
  (forall rc len c', getAsnSequence32 buf c size indef = Ok (rc, len, c') -> c < c' /\ c' <= c + size) /\
  (forall rc len c', getAsnSet32 buf c size indef = Ok (rc, len, c') -> c < c' /\ c' <= c + size) /\
  (forall len c', getAsnSequence buf c size = Ok (len, c') -> c < c' /\ c' <= c + size) /\
  (forall len c', getAsnSet buf c size = Ok (len, c') -> c < c' /\ c' <= c + size) /\
  (forall v c', getAsnInteger buf c size = Ok (v, c') -> c < c' /\ c' <= c + size) /\
  (forall v c', getAsnEnumerated buf c size = Ok (v, c') -> c < c' /\ c' <= c + size) /\
  (forall oi plen c', getAsnOID buf c size chk = Ok (oi, plen, c') -> c < c' /\ c' <= c + size) /\
  (forall oi plen c', getAsnAlgorithmIdentifier buf c size = Ok (oi, plen, c') -> c < c' /\ c' <= c + size).
Proof. exact prim_progress. Qed.
Print Assumptions c09_prim_progress.

(* asnCopyOid: for EVERY derlen (an unbounded number, not its low octet) the stores stay inside the
   caller's MAX_OID_BYTES array; the result is never longer than MAX_OID_BYTES; acceptance implies
   derlen + 2 <= MAX_OID_BYTES and an exact copy *)
Theorem c09_oid_copy_bounded : forall buf limit p derlen,
  holds buf limit -> p + derlen <= limit ->
  safe (asnCopyOid buf limit p derlen) /\
  (forall ret oid, asnCopyOid buf limit p derlen = Ok (ret, oid) ->
     lenN oid <= n_MAX_OID_BYTES /\ ret < 256 /\
     (0 < ret -> 1 <= derlen /\ derlen + 2 <= n_MAX_OID_BYTES /\ oid = [n_ASN_OID; derlen] ++ sub_bytes buf p derlen)).
Proof. exact p09_oid_copy_bounded. Qed.
Print Assumptions c09_oid_copy_bounded.

(* getAsnTagLenUnsafe has no size argument; it is safe under its call-site contract (header inside the block) *)
Theorem c09_taglen_unsafe_partial : forall buf limit c,
  holds buf limit -> c + 5 <= limit -> safe (getAsnTagLenUnsafe buf limit c).
Proof. exact p09_taglen_unsafe_partial. Qed.
Print Assumptions c09_taglen_unsafe_partial.

(* the 16-bit narrowing wrappers never report a length reaching outside the remaining block *)
Theorem c09_len16_inside : forall buf c size,
  holds buf (c + size) ->
  (forall len c', getAsnLength buf c size = Ok (len, c') -> c' + len <= c + size /\ len < 65536) /\
  (forall len c', getAsnSequence buf c size = Ok (len, c') -> c' + len <= c + size /\ len < 65536) /\
  (forall len c', getAsnSet buf c size = Ok (len, c') -> c' + len <= c + size /\ len < 65536).
Proof. exact len16_inside. Qed.
Print Assumptions c09_len16_inside.

(* ... they are exact when the caller's size fits 16 bits (every call inside one certificate) ... *)
Theorem c09_len16_exact : forall buf c size len c',
  holds buf (c + size) -> size < 65536 ->
  getAsnLength buf c size = Ok (len, c') -> getAsnLength32 buf c size false = Ok (0%Z, len, c').
Proof. exact len16_exact. Qed.
Print Assumptions c09_len16_exact.

(* ... and NOT exact beyond that: a DER length 0x10005 is silently reported as 5 (mis-framing, not a
   memory error: see c09_len16_inside) *)
Theorem c09_len16_exact_refuted : exists buf,
  getAsnLength32 buf 0 (lenN buf) false = Ok (0%Z, 65541, 5) /\ getAsnLength buf 0 (lenN buf) = Ok (5, 5).
Proof. exact p09_len16_exact_refuted. Qed.
Print Assumptions c09_len16_exact_refuted.

(* parseGeneralNames (fixed code): safe and total; on success every entry's block is data ++ [NUL],
   dataLen counts exactly the data bytes, and dNSName / rfc822Name / URI data is printable 0x20..0x7e *)
Theorem c09_generalnames_clean : forall buf extEnd p len limit,
  holds buf extEnd -> extEnd < two32 -> p + len <= extEnd ->
  safe (parse_general_names buf extEnd p len limit) /\
  (forall names p', parse_general_names buf extEnd p len limit = Ok (names, p') ->
     Forall (fun g => exists data : bytes,
               g_buf g = data ++ [0] /\ g_len g = lenN data /\
               (is_ia5_kind (g_id g) = true -> Forall (fun b => 32 <= b <= 126) data)) names).
Proof. exact p09_generalnames_clean. Qed.
Print Assumptions c09_generalnames_clean.

(* the code before C09-generalnames-terminating-nils.patch violates it: second name unterminated, length cut *)
Theorem c09_generalnames_clean_unfixed_refuted : exists buf names p g,
  parse_general_names_unfixed buf (lenN buf) 0 (lenN buf) (-1)%Z = Ok (names, p) /\ In g names /\ ~ gn_clean g.
Proof. exact p09_generalnames_clean_unfixed_refuted. Qed.
Print Assumptions c09_generalnames_clean_unfixed_refuted.

(* psX509GetDNAttributes (fixed code): safe and total; every stored attribute string is the data
   followed by two NULs, its recorded length is |data| + 2 without 16-bit wrap-around, and the 8-bit
   string types carry no hidden NUL *)
Theorem c09_dn_strings_terminated : forall buf c len,
  holds buf (c + len) -> c + len < two32 -> len < 65536 ->
  safe (dn_attributes buf c len) /\
  (forall attrs p', dn_attributes buf c len = Ok (attrs, p') ->
     c < p' /\ p' <= c + len /\
     Forall (fun a => exists data : bytes,
               d_str a = data ++ [0; 0] /\ d_len a = lenN data + 2 /\ d_len a < 65536 /\
               (dn_check_hidden (d_type a) = true -> Forall (fun b => b <> 0) data)) attrs).
Proof. exact p09_dn_strings_terminated. Qed.
Print Assumptions c09_dn_strings_terminated.

(* the code before C09-enumerated-empty-value.patch reads past the block on `0a 00` *)
Theorem c09_enumerated_unfixed_refuted : exists buf, getAsnEnumerated_unfixed buf 0 (lenN buf) = Fault.
Proof. exact p09_enumerated_unfixed_refuted. Qed.
Print Assumptions c09_enumerated_unfixed_refuted.

(* psBase64decode (fixed code): never reads outside the input nor writes outside out[0..*outlen) *)
Theorem c09_b64_no_fault : forall buf limit len cap,
  holds buf limit -> len <= limit -> safe (b64_decode buf limit len cap).
Proof. exact p09_b64_no_fault. Qed.
Print Assumptions c09_b64_no_fault.

(* decode (encode x) = x for every byte string and every sufficient output capacity *)
Theorem c09_b64_roundtrip : forall data cap,
  Forall (fun b => b < 256) data -> lenN data <= cap ->
  b64_decode (b64_encode data) (lenN (b64_encode data)) (lenN (b64_encode data)) cap = Ok data.
Proof. exact p09_b64_roundtrip. Qed.
Print Assumptions c09_b64_roundtrip.

(* PEM framing (fixed code: searches confined to the given length): psPemCheckOk, psPemDecode
   (unencrypted path) and psPemCertBufToList are safe and total on every byte string, NUL-terminated or not *)
Theorem c09_pem_no_fault : forall buf limit pemType,
  holds buf limit ->
  safe (pem_check_ok buf limit pemType) /\ safe (pem_decode buf limit) /\ safe (pem_cert_list buf limit).
Proof. exact p09_pem_no_fault. Qed.
Print Assumptions c09_pem_no_fault.

(* psPemDecode including the `Proc-Type: 4,ENCRYPTED` / `DEK-Info:` header handling (both cipher branches, the
   hex IV read character by character through rd): safe and total on every byte string, with or without
   a password; on success the IV has exactly the cipher's length and the body is a whole number of blocks *)
Theorem c09_pem_encrypted_no_fault : forall haspw buf limit,
  holds buf limit ->
  safe (pem_decode_pw haspw buf limit) /\
  (forall k iv out, pem_decode_pw haspw buf limit = Ok (k, iv, out) ->
     (k = 0 /\ iv = []) \/ (k = 1 /\ lenN iv = 8 /\ lenN out mod 8 = 0) \/ (k = 2 /\ lenN iv = 16 /\ lenN out mod 16 = 0)).
Proof. exact p09_pem_encrypted_no_fault. Qed.
Print Assumptions c09_pem_encrypted_no_fault.

(* the revoked-certificates loop of psX509ParseCRL (fixed code): safe and total on every byte string; the cursor
   only moves forward and stays inside the CRL *)
Theorem c09_crl_revoked_no_fault : forall buf endp p glen,
  holds buf endp -> endp < two32 -> p <= endp ->
  safe (crl_revoked buf endp p glen) /\
  (forall serials p', crl_revoked buf endp p glen = Ok (serials, p') -> p <= p' /\ p' <= endp).
Proof. exact p09_crl_revoked_no_fault. Qed.
Print Assumptions c09_crl_revoked_no_fault.

(* the code before C09-crl-revoked-entry-underflow.patch: `p += ilen - (uint32)(p - start)` wraps and the next read is
   4 GB outside the CRL *)
Theorem c09_crl_revoked_unfixed_refuted : exists buf,
  crl_revoked_unfixed buf (lenN buf) 0 (lenN buf) = Fault /\ crl_revoked buf (lenN buf) 0 (lenN buf) = Err c_PS_PARSE_FAIL.
Proof. exact p09_crl_revoked_unfixed_refuted. Qed.
Print Assumptions c09_crl_revoked_unfixed_refuted.
