(* Property C01 - application data flows only after an authenticated, completed handshake.
   Statements only; proofs in Sess/SessProofs.v.  The handshake layer is an arbitrary oracle here:
   the theorems hold whatever it answers (legal or illegal message histories).
   [decode] covers every enabled protocol version: TLS 1.1/1.2 ([decode12]), TLS 1.3 ([decode13]) and DTLS 1.0/1.2 ([decodeD]);
   [s] ranges over all states (dtls s = true: a DTLS session). *)
From MV Require Import Sess.SessModel Sess.SessProofs.
Local Open Scope Z_scope.

(* every delivery of plaintext to the application happens in a state that admits application data
   (DONE, or accepted early data in WAIT_EOED), with read protection on, from a record that verified
   under the current read key - for every history of records and handshake-layer answers; on a DTLS session the
   record moreover carries the expected epoch and a sequence number the replay window has not seen (or is application
   data of a later epoch arriving in DONE, whose epoch is adopted - resent final flights move the peer's epoch on) *)
Theorem c01_deliver_gate : forall is s k,
  nth_error (snd (run s is)) k = Some Deliver ->
  exists sk r o, nth_error (pre_states s is) k = Some sk /\ nth_error is k = Some (r, o) /\
                 err sk = false /\ closed sk = false /\ rsec sk = true /\ is_good r = true /\ deliver_state sk /\
                 (dtls sk = true -> dtls_accepts sk r).
Proof. exact run_deliver_gate. Qed.
Print Assumptions c01_deliver_gate.

(* nothing a network attacker without the session keys can send is reported as application data *)
Theorem c01_attacker_never_delivers : forall is s,
  Forall (fun i => is_good (fst i) = false) is -> ~ In Deliver (snd (run s is)).
Proof. exact attacker_never_delivers. Qed.
Print Assumptions c01_attacker_never_delivers.

(* the same with the DTLS attacker, who can also present verbatim copies of records the receiver already accepted (they
   still verify: epoch and sequence number are explicit); [attacker_input sk i] is required of every step's pre-state sk *)
Theorem c01_attacker_never_delivers_dtls : forall is s,
  all_steps attacker_input s is -> ~ In Deliver (snd (run s is)).
Proof. exact attacker_never_delivers_gen. Qed.
Print Assumptions c01_attacker_never_delivers_dtls.

(* the session refuses to encrypt application data before that point (DTLS sessions take the <= 1.2 branch: v13 s = false) *)
Theorem c01_no_seal_before_done : forall s, encode_app_ok s = true ->
  err s = false /\ closed s = false /\ (hs s = c_SSL_HS_DONE \/ (v13 s = true /\ (cl_early s = true \/ sv_early s = true))).
Proof. exact encode_gate. Qed.
Print Assumptions c01_no_seal_before_done.

(* read protection is switched on only by ChangeCipherSpec in the FINISHED state (or the ticket
   shortcut) or by the handshake layer itself - never by a data/alert record *)
Theorem c01_read_protection_origin : forall s r o s' out,
  decode s r o = (s', out) -> rsec s = false -> rsec s' = true ->
  ((dtls s = true \/ v13 s = false \/ is_fallback o = true) /\ ccs_cause s r) \/ exists h w v resp, legacy_answer o = HsOk h true w v resp.
Proof. exact rsec_origin. Qed.
Print Assumptions c01_read_protection_origin.
