(* Property C17 - no AEAD nonce reuse under a key; sequence numbers strictly increase per key; CBC explicit IVs
   are fresh PRNG outputs.  Only statements closed by `exact`; the proofs live in Nonce/NonceProofs.v.
   `exec evs = (c, l, true)`: l is the seal history of the event sequence evs (any events, any interleaving of both
   writers) and every event respected the two caller facts spelled out at `guardw` in Nonce/NonceModel.v. *)
From Coq Require Import List NArith Bool Sorted.
From MV Require Import Nonce.NonceModel Nonce.NonceSpec Nonce.NonceProofs.
Import ListNotations.
Local Open Scope N_scope.

(* the byte-wise increment loop of the code is +1 modulo 2^64 on the big-endian value *)
Theorem c17_incr_seq_is_succ : forall s, length s = 8%nat -> bytes_ok s ->
  be_val (incr_seq s) = (be_val s + 1) mod two64.
Proof. exact incr_seq_val. Qed.
Print Assumptions c17_incr_seq_is_succ.

(* for every event sequence: the i-th record sealed under a key binds sequence number i mod 2^64 *)
Theorem c17_seq_counts : forall evs c l, exec evs = (c, l, true) -> seq_counts l.
Proof. exact exec_seq_counts. Qed.
Print Assumptions c17_seq_counts.

(* ... hence it strictly increases for the lifetime of the key (fewer than 2^64 records) *)
Theorem c17_seq_strict : forall evs c l, exec evs = (c, l, true) -> seq_strict l.
Proof. exact exec_seq_strict. Qed.
Print Assumptions c17_seq_strict.

(* within one key activation the write sequence number only ever moves by sealing one record (which binds the old value)
   and then by +1; nothing but a key activation sets it back *)
Theorem c17_seq_moves_only_by_seal : forall evs c l e, exec evs = (c, l, true) -> guard c e = true ->
  forall s, w_key (getw (fst (step c e)) s) = w_key (getw c s) ->
    (w_seq (getw (fst (step c e)) s) = w_seq (getw c s) /\ forall x, snd (step c e) <> Some (s, x)) \/
    (w_seq (getw (fst (step c e)) s) = incr_seq (w_seq (getw c s)) /\
     exists x, snd (step c e) = Some (s, x) /\ s_seq x = w_seq (getw c s) /\ s_key x = w_key (getw c s)).
Proof. exact exec_seq_moves. Qed.
Print Assumptions c17_seq_moves_only_by_seal.

(* for a fixed IV each of the three constructions maps sequence numbers in [0, 2^64) to nonces injectively *)
Theorem c17_nonce_injective : forall a iv x y, is_aead a = true -> x < two64 -> y < two64 ->
  nonce_of a iv (be_bytes 8 x) = nonce_of a iv (be_bytes 8 y) -> x = y.
Proof. exact nonce_injective_num. Qed.
Print Assumptions c17_nonce_injective.

(* for every event sequence: two different records sealed under the same key never carry the same AEAD nonce *)
Theorem c17_nonce_unique : forall evs c l, exec evs = (c, l, true) -> nonce_unique l.
Proof. exact exec_nonce_unique. Qed.
Print Assumptions c17_nonce_unique.

(* for every event sequence: each TLS >= 1.1 CBC record's explicit IV block is PRNG output j, j strictly increasing
   per writer and used by no other record of the connection *)
Theorem c17_cbc_iv_fresh : forall evs c l, exec evs = (c, l, true) -> cbc_iv_fresh l.
Proof. exact exec_cbc_iv_fresh. Qed.
Print Assumptions c17_cbc_iv_fresh.

(* over any PRNG stream the IV bytes are prng j: a function of the stream and the draw index only *)
Theorem c17_cbc_iv_is_prng_output : forall (prng : nat -> list N) evs c l, exec evs = (c, l, true) ->
  forall s x, In x (side_seals s l) -> s_alg x = ACbc true -> exists j, explicit_iv prng x = Some (prng j) /\ In j (ivs_of s l).
Proof. exact exec_explicit_iv_is_prng_output. Qed.
Print Assumptions c17_cbc_iv_is_prng_output.

(* the caller facts are needed: zeroing the sequence number under an active key repeats a nonce ... *)
Theorem c17_reset_under_key_refuted : exists evs c l x y,
  exec evs = (c, l, false) /\ nth_error (seals_of Sv 1 l) 0 = Some x /\ nth_error (seals_of Sv 1 l) 1 = Some y /\
  is_aead (s_alg x) = true /\ s_nonce x = s_nonce y.
Proof. exact reset_under_key_reuses_nonce. Qed.
Print Assumptions c17_reset_under_key_refuted.

(* ... and a failed, merely logged PRNG call sends a CBC record with a stale IV block (the tree at the pin) *)
Theorem c17_failed_draw_stale_iv_refuted : exists evs c l x,
  exec evs = (c, l, false) /\ nth_error (side_seals Cl l) 1 = Some x /\ s_alg x = ACbc true /\ s_iv x = IvStale.
Proof. exact failed_draw_gives_stale_iv. Qed.
Print Assumptions c17_failed_draw_stale_iv_refuted.
