(* C10 - wire behaviour conforms to the RFCs (partial: derived values and record layouts).
   Each theorem: for all inputs in the stated range, the code-shaped model of MatrixSSL's function (Tls/TlsModel.v,
   labels / sizes / cipher table regenerated from the source into Gen/TlsLabels.v, Gen/ConstsTls.v) returns exactly
   what the Gallina transcription of the RFC text (Tls/TlsSpec.v, pinned to RFC 8448 and PRF vectors) prescribes.
   The library itself is tied to the SPEC by the live-handshake correspondence of props/C10.py. *)
From Coq Require Import String Ascii.
From Coq Require Import List NArith Arith Bool.
From MV Require Import Crypto.CryptoModel Crypto.CryptoPrims Gen.ConstsTls Gen.TlsLabels Tls.TlsSpec Tls.TlsModel Tls.TlsProofs.
Import ListNotations.

(* prf.c prf()/prf2() incl. pMd5/pSha1/pSha2 loops, hashed long keys and the 16-bit keyIter arithmetic
   = RFC 5246 5 P_<hash> PRF (TLS 1.2) / RFC 4346 5 MD5-SHA-1 split PRF (TLS 1.0/1.1), for every secret, seed and
   output length the callers can ask for *)
Theorem c10_prf_eq_spec : forall tls12 sha3 sec label seed outLen, outLen <= t_SSL_MAX_KEY_BLOCK_SIZE ->
  tls_prf_model tls12 sha3 sec (label ++ seed) outLen = Ok (tls_prf (ver_of tls12) (halg_of sha3) sec label seed outLen).
Proof. exact tls_prf_model_eq. Qed.
Print Assumptions c10_prf_eq_spec.

(* tls.c tlsDeriveKeys / tlsExtendedDeriveKeys (+ hsHash.c extMasterSecretSnapshotHSHash over the running hash, for every
   way the transcript was chunked) = RFC 5246 8.1 master secret / RFC 7627 4 extended master secret *)
Theorem c10_ems_eq_spec : forall tls12 sha3 pms cr sr chunks,
  derive_master_model tls12 sha3 pms cr sr = Ok (master_secret (ver_of tls12) (halg_of sha3) pms cr sr) /\
  derive_ext_master_model tls12 sha3 pms chunks =
    Ok (extended_master_secret (ver_of tls12) (halg_of sha3) pms (hs_hash (ver_of tls12) (halg_of sha3) (concat chunks))).
Proof. exact (fun tls12 sha3 pms cr sr chunks => conj (derive_master_eq tls12 sha3 pms cr sr) (derive_ext_master_eq tls12 sha3 pms chunks)). Qed.
Print Assumptions c10_ems_eq_spec.

(* tls.c genKeyBlock: the block is PRF(master, "key expansion", server_random + client_random); a longer block has the
   shorter as prefix (MatrixSSL always generates 2 x ivSize extra for CBC); the six pointers are the RFC 5246 6.3
   partition seen from the client / from the server; every suite of this build has its RFC's sizes and PRF hash *)
Theorem c10_keyblock_layout :
  (forall tls12 sha3 mac key iv master cr sr, req_key_len mac key iv <= t_SSL_MAX_KEY_BLOCK_SIZE ->
     gen_key_block_model tls12 sha3 mac key iv master cr sr =
     Ok (key_block (ver_of tls12) (halg_of sha3) master cr sr (req_key_len mac key iv))) /\
  (forall v h ms cr sr L1 L2, L1 <= L2 -> firstn L1 (key_block v h ms cr sr L2) = key_block v h ms cr sr L1) /\
  (forall mac key iv kb,
     let k := partition_key_block mac key iv kb in
     key_block_ptrs false mac key iv kb =
       {| p_wMAC := k_cmac k; p_rMAC := k_smac k; p_wKey := k_ckey k; p_rKey := k_skey k; p_wIV := k_civ k; p_rIV := k_siv k |} /\
     key_block_ptrs true mac key iv kb =
       {| p_wMAC := k_smac k; p_rMAC := k_cmac k; p_wKey := k_skey k; p_rKey := k_ckey k; p_wIV := k_siv k; p_rIV := k_civ k |}) /\
  forallb suite_consistent t_cipher_table = true.
Proof. exact (conj gen_key_block_eq (conj key_block_prefix (conj key_block_ptrs_eq cipher_table_consistent))). Qed.
Print Assumptions c10_keyblock_layout.

(* hkdf.c psHkdfExpandLabel and tls13KeySchedule.c: every secret of the RFC 8446 7.1 schedule, traffic keys (7.3) with
   the read/write assignment per role, resumption PSK (4.6.1), the message_hash substitution (4.4.1) and the
   CertificateVerify content (4.4.3) *)
Theorem c10_tls13_schedule_eq_spec :
  (forall sha3 secret label context L,
     1 <= length label -> length label + length context <= 70 -> TlsSpec.hlen (halg_of sha3) <= length secret -> L <= 255 * 32 ->
     hkdf_expand_label_model sha3 secret label context L = Ok (hkdf_expand_label (halg_of sha3) secret label context L)) /\
  (forall sha3 psk isres ecdhe th_ch th_sh th_sfin th_cfin,
     let h := halg_of sha3 in
     length th_ch = TlsSpec.hlen h -> length th_sh = TlsSpec.hlen h -> length th_sfin = TlsSpec.hlen h -> length th_cfin = TlsSpec.hlen h ->
     let S := schedule13 h psk isres ecdhe th_ch th_sh th_sfin th_cfin in
     early_secret_model sha3 psk = Ok (e_early S) /\
     binder_secret_model sha3 isres (e_early S) = Ok (e_binder_key S) /\
     early_traffic_model sha3 (e_early S) th_ch = Ok (e_c_e_traffic S) /\
     hs_secrets_model sha3 (e_early S) ecdhe th_sh =
       Ok {| m_handshake := e_handshake S; m_c_hs := e_c_hs_traffic S; m_s_hs := e_s_hs_traffic S |} /\
     app_secrets_model sha3 (e_handshake S) th_sfin =
       Ok {| m_master := e_master S; m_c_ap := e_c_ap_traffic S; m_s_ap := e_s_ap_traffic S |} /\
     res_master_model sha3 (e_master S) th_cfin = Ok (e_res_master S)) /\
  (forall sha3 is_server c_secret s_secret keySize,
     length c_secret = TlsSpec.hlen (halg_of sha3) -> length s_secret = TlsSpec.hlen (halg_of sha3) -> keySize <= 32 ->
     let h := halg_of sha3 in
     let ck := (traffic_key h c_secret keySize, traffic_iv h c_secret) in
     let sk := (traffic_key h s_secret keySize, traffic_iv h s_secret) in
     rw_keys_model sha3 is_server c_secret s_secret keySize 12 = Ok (if is_server then (ck, sk) else (sk, ck))) /\
  (forall sha3 res_master nonce, length res_master = TlsSpec.hlen (halg_of sha3) -> length nonce <= 60 ->
     resumption_psk_model sha3 res_master nonce = Ok (resumption_psk (halg_of sha3) res_master nonce)) /\
  (forall sha3 chunks_ch1 hrr rest, is_hrr hrr = true ->
     reinit_chunk_model sha3 chunks_ch1 ++ concat (hrr :: rest) = transcript_bytes (halg_of sha3) (concat chunks_ch1 :: hrr :: rest)) /\
  (forall th, make_tbs_model l_cv_server th = cv13_content true th /\ make_tbs_model l_cv_client th = cv13_content false th).
Proof.
  exact (conj hkdf_expand_label_model_eq (conj schedule_model_eq (conj rw_keys_model_eq (conj resumption_psk_model_eq
        (conj reinit_chunk_model_eq make_tbs_model_eq))))).
Qed.
Print Assumptions c10_tls13_schedule_eq_spec.

(* hsHash.c tlsGenerateFinishedHash = RFC 5246 7.4.9 / RFC 4346 7.4.9 verify_data over the running hash;
   tls13DeriveFinishedKey + psHmacSingle = RFC 8446 4.4.4 finished_key / verify_data (also used for PSK binders) *)
Theorem c10_finished_eq_spec :
  (forall tls12 sha3 master chunks srv,
     finished_model tls12 sha3 master chunks srv =
     Ok (tls_prf (ver_of tls12) (halg_of sha3) master (str (if srv then "server finished" else "client finished"))
                 (hs_hash (ver_of tls12) (halg_of sha3) (concat chunks)) 12)) /\
  (forall sha3 base th, length base = TlsSpec.hlen (halg_of sha3) ->
     finished_key_model sha3 base = Ok (finished_key (halg_of sha3) base) /\
     verify_data_model sha3 base th = Ok (verify_data13 (halg_of sha3) base th)).
Proof. exact (conj finished_eq verify_data_model_eq). Qed.
Print Assumptions c10_finished_eq_spec.

(* cipherSuite.c / tls13CipherSuite.c nonce and additional-data makers = RFC 5288 3, RFC 5246 6.2.3.3, RFC 7905 2,
   RFC 8446 5.2-5.3 (s = the 64-bit record sequence number) *)
Theorem c10_nonce_aad_eq_spec : forall (iv : list N) (s : N) (ctype maj min : N) (n : nat),
  (length iv = 4 -> gcm12_nonce_model iv (be64 s) = iv ++ be64 s) /\
  aad12_model (be64 s) ctype maj min n = aad12 s ctype [maj; min] n /\
  (length iv = 12 -> chacha12_nonce_model iv (be64 s) = nonce_xor iv s) /\
  (length iv = 12 -> tls13_nonce_model iv (be64 s) = nonce13 iv s) /\
  tls13_aad_model n = aad13 n.
Proof. exact nonce_aad_model_eq. Qed.
Print Assumptions c10_nonce_aad_eq_spec.

(* tls13KeySchedule.c tls13GenerateEarlySecret's keep-or-regenerate logic (generateEarlySecretDone / tls13DidEncodePsk /
   tls13UsingPsk) through the calls a client and a server make: the Early Secret that finally salts the Handshake Secret
   comes from the PSK the server SELECTED - from the all-zero PSK when the client offered one and the server declined -
   and the handshake secrets are the RFC 8446 7.1 values for that input:
   Handshake Secret = HKDF-Extract(Derive-Secret(Early(selected PSK or 0), "derived", ""), (EC)DHE or 0) *)
Theorem c10_tls13_psk_selection :
  (forall sha3 is_server (offered : option (list N)) (selected : bool),
     let sel := if selected then offered else None in
     exists st, side_early_secret_model is_server sha3 offered selected = Ok st /\
                es_from st = sel /\ es_value st = early_secret_of (halg_of sha3) sel) /\
  (forall sha3 is_server (offered : option (list N)) (selected : bool) isres ecdhe th_ch th_sh th_sfin th_cfin,
     let h := halg_of sha3 in
     length th_ch = TlsSpec.hlen h -> length th_sh = TlsSpec.hlen h -> length th_sfin = TlsSpec.hlen h -> length th_cfin = TlsSpec.hlen h ->
     let S := schedule13 h (if selected then offered else None) isres ecdhe th_ch th_sh th_sfin th_cfin in
     side_hs_secrets_model sha3 is_server offered selected ecdhe th_sh =
       Ok {| m_handshake := e_handshake S; m_c_hs := e_c_hs_traffic S; m_s_hs := e_s_hs_traffic S |} /\
     e_handshake S = HKDF_Extract h (handshake_salt h (if selected then offered else None))
                                  (match ecdhe with Some e => e | None => zeros (TlsSpec.hlen h) end)).
Proof. exact (conj early_secret_selection_eq side_hs_secrets_eq). Qed.
Print Assumptions c10_tls13_psk_selection.
