(* Property C14 - a server resumes a session only with an identifier/ticket it issued itself, unexpired,
   not invalidated, with matching version / suite / EMS use, and then with exactly that session's secret.
   Only statements closed by `exact`; proofs in Cache/CacheProofs.v; model Cache/CacheModel.v (the FIXED code,
   pending-fixes/C14-1..4); spec Cache/CacheSpec.v. *)
From MV Require Import Base.Bytes Gen.ConstsCache Cache.CacheModel Cache.CacheSpec Cache.CacheProofs.
Local Open Scope Z_scope.

(* invariant for ALL operation histories over any number of connections: table shape, ids carry their slot,
   chronological list duplicate-free, slot in list <-> inUse = 0, holders <= inUse (hence 0 <= inUse),
   list never corrupted *)
Theorem c14_cache_invariant : forall ops now cs0 cs st,
  fresh_conns cs0 -> run ops cs0 (init_state now) = (cs, st) ->
  Inv cs st /\ s_corrupt st = false /\ (forall i, (i < TBL)%nat -> 0 <= e_inuse (get st i)).
Proof. exact cache_invariant_all. Qed.
Print Assumptions c14_cache_invariant.

(* refinement: after any history, matrixResumeSession on ANY well-formed server connection succeeds iff the
   abstract specification allows resumption of the presented identifier, and yields the recorded secret/suite;
   otherwise nothing changes *)
Theorem c14_resume_refines : forall ops now cs0 cs st c,
  fresh_conns cs0 -> run ops cs0 (init_state now) = (cs, st) ->
  wf_conn c -> c_server c = true ->
  forall rc c' st', resume c st = (rc, c', st') ->
  (rc = k_PS_SUCCESS /\ spec_resume (abs st) (s_now st) (hello_of c) = Some (c_ms c', c_cipher c'))
  \/ (rc < 0 /\ spec_resume (abs st) (s_now st) (hello_of c) = None /\ c' = c /\ st' = st).
Proof. exact resume_refines. Qed.
Print Assumptions c14_resume_refines.

(* the identifiers the cache vouches for were all assigned by matrixRegisterSession in this history *)
Theorem c14_only_issued : forall ops now cs0 cs st id,
  fresh_conns cs0 -> run ops cs0 (init_state now) = (cs, st) -> abs st id <> None ->
  issued_during ops cs0 (init_state now) id.
Proof. exact only_issued. Qed.
Print Assumptions c14_only_issued.

(* after a fatal alert on a connection holding a cached session, nobody presenting that session's identifier
   is resumed - in any continuation in which the server does not issue that very identifier again *)
Theorem c14_fatal_invalidates : forall cs st k rc c' st' ops cs1 st1 c,
  Inv cs st -> (k < length cs)%nat ->
  fatal_alert (getc cs k) st = (rc, c', st') -> rc = k_PS_SUCCESS ->
  let id0 := e_id (get st (Z.to_nat (c_ref (getc cs k) - 1))) in
  run ops (set_nth k c' cs) st' = (cs1, st1) ->
  ~ issued_during ops (set_nth k c' cs) st' id0 ->
  wf_conn c -> c_server c = true -> presented c = id0 ->
  forall rc1 c1' st1', resume c st1 = (rc1, c1', st1') -> rc1 < 0 /\ c1' = c /\ st1' = st1.
Proof. exact fatal_invalidates. Qed.
Print Assumptions c14_fatal_invalidates.

(* the same for EVERY invalidating event and for SHARED entries (reference count > 1): connection k holds a
   reference on an entry that any number of other connections share and keep open; the server writes a fatal
   alert on k (OAlert), or SSL_FLAGS_ERROR - fatal alert received, local error - is set when matrixUpdateSession
   runs for k directly (OUpd) or from matrixSslDeleteSession (ODel).  Then over ANY later interleaving of
   operations of any connections, the sharers included, nobody presenting that identifier is ever resumed
   (unless the server issues the identical identifier again).  Induction over the op list: run_abs_mono. *)
Theorem c14_invalidation_shared : forall o k cs st rc cs' st' ops cs1 st1 c,
  Inv cs st -> (k < length cs)%nat ->
  holds_entry (getc cs k) -> invalidating o k (getc cs k) -> step o cs st = (rc, cs', st') ->
  let id0 := e_id (get st (Z.to_nat (c_ref (getc cs k) - 1))) in
  run ops cs' st' = (cs1, st1) ->
  ~ issued_during ops cs' st' id0 ->
  wf_conn c -> c_server c = true -> presented c = id0 ->
  forall rc1 c1' st1', resume c st1 = (rc1, c1', st1') -> rc1 < 0 /\ c1' = c /\ st1' = st1.
Proof. exact invalidation_shared. Qed.
Print Assumptions c14_invalidation_shared.

(* bounded cache: a registration replaces at most one entry, one that is not in use and that no connection holds *)
Theorem c14_eviction_only_unused : forall cs st k rc cs' st', Inv cs st ->
  step (OReg k) cs st = (rc, cs', st') ->
  forall j, get st' j <> get st j -> e_inuse (get st j) = 0 /\ holders cs j = 0 /\ rc = Z.of_nat j.
Proof. exact eviction_only_unused. Qed.
Print Assumptions c14_eviction_only_unused.

(* never another session's secret: id / master secret / suite / version / EMS flag / start time of a slot are
   written only by an operation of a connection holding a reference on that slot, or by a registration into an
   unused slot (with c14_resume_refines: a resumption gets the secret stored under exactly the presented id) *)
Theorem c14_never_other_secret : forall o cs st rc cs' st', Inv cs st -> step o cs st = (rc, cs', st') ->
  forall j, secret_part (get st' j) <> secret_part (get st j) ->
    (exists k, (o = OUpd k \/ o = ODel k \/ (exists rm, o = OClr k rm) \/ o = OAlert k) /\ c_ref (getc cs k) = Z.of_nat j + 1)
    \/ (exists k, o = OReg k /\ e_inuse (get st j) = 0 /\ holders cs j = 0).
Proof. exact secret_written_only_by_holder. Qed.
Print Assumptions c14_never_other_secret.

(* an identifier shorter than 32 bytes, or equal to the stored one only on a prefix, never resumes (any state) *)
Theorem c14_short_id : forall c st rc c' st',
  resume c st = (rc, c', st') -> rc = k_PS_SUCCESS ->
  c_sidlen c = k_SSL_MAX_SESSION_ID_SIZE /\ c_sid c = e_id (get st (Z.to_nat (slot_of (c_sid c)))).
Proof. exact short_id_never_resumes. Qed.
Print Assumptions c14_short_id.

(* ---- the code before the fixes violates the specification (witnesses replayed on the library, corpus/C14) *)
Theorem c14_short_id_orig_refuted : exists c st,
  c_sidlen c = 4 /\ fst (fst (resume_orig c st)) = k_PS_SUCCESS /\ spec_resume (abs st) (s_now st) (hello_of c) = None.
Proof. exact short_id_orig_refuted. Qed.
Print Assumptions c14_short_id_orig_refuted.

Theorem c14_expiry_orig_refuted : exists c st,
  fst (fst (resume_orig c st)) = k_PS_SUCCESS /\ spec_resume (abs st) (s_now st) (hello_of c) = None.
Proof. exact expiry_orig_refuted. Qed.
Print Assumptions c14_expiry_orig_refuted.

Theorem c14_foreign_slot_orig_refuted : exists c st,
  c_ref c = 0 /\ e_ms (get (snd (update_orig c st)) 0) <> e_ms (get st 0)
  /\ e_id (get (snd (update_orig c st)) 0) = e_id (get st 0) /\ e_inuse (get (snd (update_orig c st)) 0) = -1.
Proof. exact foreign_slot_orig_refuted. Qed.
Print Assumptions c14_foreign_slot_orig_refuted.

(* (b) update(CLOSED) then clear on one connection drives the count to -1; update(open) after a clear links a
   listed node a second time (list corruption) - both excluded by c14_cache_invariant for the fixed code *)
Theorem c14_negative_inuse_orig_refuted : exists c st,
  e_inuse (get (snd (clear_orig c false (snd (update_orig c st)))) 0) = -1
  /\ exists c2 st2, s_corrupt st2 = false /\ s_corrupt (snd (update_orig c2 (snd (clear_orig c2 false st2)))) = true.
Proof. exact negative_inuse_orig_refuted. Qed.
Print Assumptions c14_negative_inuse_orig_refuted.

Theorem c14_revival_orig_refuted : exists c st id, abs st id = None /\ abs (snd (update_orig c st)) id <> None.
Proof. exact revival_orig_refuted. Qed.
Print Assumptions c14_revival_orig_refuted.

(* ---- session tickets (AES-CBC, HMAC and sslGetCipherSpec are parameters) *)
(* a ticket naming a key that is not in the server's list is refused *)
Theorem c14_ticket_foreign_key : forall dec mac avail c tk st, find_key (firstn 16 tk) (s_keys st) = None ->
  fst (ticket_unlock dec mac avail c tk st) = k_PS_FAILURE.
Proof. exact ticket_foreign_key. Qed.
Print Assumptions c14_ticket_foreign_key.

(* under Hunf (unforgeability of the MAC for the presented ticket): an accepted ticket's name+IV+ciphertext is
   byte for byte one the server itself MACed under a key still listed under the ticket's name - any edit of a
   byte under the MAC, truncation or extension is refused *)
Theorem c14_ticket_edit_rejected : forall dec mac avail signed c tk st c',
  unforgeable mac signed tk ->
  ticket_unlock dec mac avail c tk st = (k_PS_SUCCESS, c') ->
  Z.of_nat (length tk) = TICKETLEN /\
  exists k, find_key (firstn 16 tk) (s_keys st) = Some k /\ In (hkey k, ticket_body tk) signed.
Proof. exact ticket_edit_rejected_full. Qed.
Print Assumptions c14_ticket_edit_rejected.

(* an accepted ticket is at most LIFE/1000 s old by its sealed timestamp, carries the negotiated version, and
   the secret and suite installed are the sealed ones *)
Theorem c14_ticket_expiry : forall dec mac avail c tk st c',
  ticket_unlock dec mac avail c tk st = (k_PS_SUCCESS, c') ->
  exists k, find_key (firstn 16 tk) (s_keys st) = Some k /\
    let pt := plain_of dec k tk in
    (now_secs st - (16777216 * bz pt 53 + 65536 * bz pt 54 + 256 * bz pt 55 + bz pt 56)) mod 4294967296 <= LIFE / 1000
    /\ bz pt 0 = c_maj c /\ bz pt 1 = c_min c
    /\ c_tms c' = skipn_firstn 5 MSLEN pt /\ c_cipher c' = Some (256 * bz pt 2 + bz pt 3).
Proof. exact ticket_expiry_version. Qed.
Print Assumptions c14_ticket_expiry.

(* round trip for any cipher with dec . enc = id: a ticket sealed for (secret, version, suite, EMS) is accepted
   exactly while it is at most LIFE/1000 s old (same key listed, same version, suite available), and installs
   exactly the sealed secret and suite *)
Theorem c14_ticket_roundtrip : forall enc dec mac avail,
  (forall k iv p, dec k iv (enc k iv p) = p) -> (forall k iv p, length (enc k iv p) = length p) ->
  (forall k m, length (mac k m) = 32%nat) ->
  forall c c1 iv st0 st1 k rest suite t,
    s_keys st0 = k :: rest -> length (k_name k) = 16%nat -> length iv = 16%nat -> length (c_ms c) = MSLEN ->
    c_cipher c = Some suite -> 0 <= suite < 65536 -> 0 <= c_maj c < 256 -> 0 <= c_min c < 256 ->
    ticket_create enc mac c iv st0 = Some t ->
    find_key (k_name k) (s_keys st1) = Some k ->
    c_maj c1 = c_maj c -> c_min c1 = c_min c -> avail suite = true ->
    ~ (c_ems c = false /\ c_reqems c1 = 1) ->
    forall rc c2, ticket_unlock dec mac avail c1 (skipn 6 t) st1 = (rc, c2) ->
      if ((now_secs st1 - now_secs st0) mod 4294967296 <=? LIFE / 1000)
      then rc = k_PS_SUCCESS /\ c_tms c2 = c_ms c /\ c_cipher c2 = Some suite
      else rc = k_PS_FAILURE.
Proof. exact ticket_roundtrip. Qed.
Print Assumptions c14_ticket_roundtrip.

(* key rotation: adding a key keeps every listed key usable and keeps the sealing key; after a key is removed
   (distinct names) every ticket naming it is refused *)
Theorem c14_rotation : forall dec mac avail,
  (forall name sym symlen hash hashlen st rc st',
     key_add name sym symlen hash hashlen st = (rc, st') ->
     (forall n k0, find_key n (s_keys st) = Some k0 -> find_key n (s_keys st') = Some k0)
     /\ (forall k r, s_keys st = k :: r -> exists r', s_keys st' = k :: r')
     /\ s_tbl st' = s_tbl st /\ s_chron st' = s_chron st)
  /\ (forall name st rc st' c tk,
     NoDup (map k_name (s_keys st)) -> key_del name st = (rc, st') -> rc = k_PS_SUCCESS ->
     firstn 16 tk = name -> fst (ticket_unlock dec mac avail c tk st') = k_PS_FAILURE).
Proof. exact rotation_both. Qed.
Print Assumptions c14_rotation.

(* application ticket callback (matrixSslSetSessionTicketCallback; getTicketKeys): for ALL key lists and ALL callback
   behaviours (accept / reject / load a key, depending on name and found-flag in any way), a ticket is honoured only if
   the callback was asked with the correct found-in-list flag and did NOT reject; the key used is in the list as the
   callback left it, has the ticket's key name, is the cached one when found and the LAST one when the callback had to
   supply it, and the ticket verifies under that key *)
Theorem c14_ticket_callback : forall dec mac avail (f : cbfun) c tk st rc c' st',
  ticket_unlock_cb dec mac avail (Some f) c tk st = (rc, c', st') -> rc = k_PS_SUCCESS ->
  let name := firstn 16 tk in
  let found := match find_key name (s_keys st) with Some _ => true | None => false end in
  f name found <> CbReject /\
  exists k, In k (s_keys st') /\ beq (k_name k) name = true /\
            (found = true -> find_key name (s_keys st) = Some k) /\
            (found = false -> last_key (s_keys st') = Some k) /\
            ticket_unlock dec mac avail c tk (set_keys st' [k]) = (k_PS_SUCCESS, c') /\
            mac (hkey k) (ticket_body tk) = ticket_tag tk.
Proof. exact ticket_callback_respected. Qed.
Print Assumptions c14_ticket_callback.

(* without a callback the function is ticket_unlock (so every ticket theorem above carries over); with one and under
   Hunf, what is honoured was MACed by the server under a key the application did not reject *)
Theorem c14_ticket_callback_none : forall dec mac avail c tk st,
  ticket_unlock_cb dec mac avail None c tk st = (let '(rc, c') := ticket_unlock dec mac avail c tk st in (rc, c', st)).
Proof. exact unlock_cb_none. Qed.
Print Assumptions c14_ticket_callback_none.

Theorem c14_ticket_callback_unforgeable : forall dec mac avail signed (f : cbfun) c tk st c' st',
  unforgeable mac signed tk ->
  ticket_unlock_cb dec mac avail (Some f) c tk st = (k_PS_SUCCESS, c', st') ->
  f (firstn 16 tk) (match find_key (firstn 16 tk) (s_keys st) with Some _ => true | None => false end) <> CbReject
  /\ exists k, In k (s_keys st') /\ In (hkey k, ticket_body tk) signed.
Proof. exact ticket_callback_unforgeable. Qed.
Print Assumptions c14_ticket_callback_unforgeable.

(* ---- TLS 1.3 tickets: handling of the sealed session parameters (version, suite, lifetime, issue time) by
   tls13ValidateSessionParams; AES-GCM sealing, PSK derivation and binder check are NOT modelled *)
Theorem c14_tls13_validate_partial : forall c suite p st,
  c_server c = true -> 0 <= p_life p < 2147483 ->
  (fst (tls13_validate c suite p st) = k_PS_SUCCESS <->
   p_maj p = c_maj c /\ p_min p = c_min c /\ p_cipher p = suite /\
   0 <= s_now st - p_stamp p /\ (s_now st - p_stamp p) / 1000 <= p_life p).
Proof. exact tls13_validate_spec. Qed.
Print Assumptions c14_tls13_validate_partial.

(* a ticket whose parameters were sealed as tls13WriteNewSessionTicket does (lifetime TLS_1_3_TICKET_LIFETIME, issue
   time = now) is honoured for exactly that many seconds and only for the same version and suite.  The sealing side
   (tls13_issue) is tied to the code by the live expiry scenarios only (359 s / 361 s / clock wrap). *)
Theorem c14_tls13_ticket_lifetime_partial : forall c0 c1 suite0 suite1 st0 st1,
  c_server c1 = true ->
  (fst (tls13_validate c1 suite1 (tls13_issue c0 suite0 st0) st1) = k_PS_SUCCESS <->
   c_maj c0 = c_maj c1 /\ c_min c0 = c_min c1 /\ suite0 = suite1 /\
   0 <= s_now st1 - s_now st0 /\ (s_now st1 - s_now st0) / 1000 <= k_TLS_1_3_TICKET_LIFETIME).
Proof. exact tls13_ticket_lifetime. Qed.
Print Assumptions c14_tls13_ticket_lifetime_partial.

(* NOT covered: the cryptographic part of TLS 1.3 PSK tickets (tls13Resume.c sealing, tls13Psk.c lookup, binders) is
   not modelled - the live check exercises round trip, byte edits, wrong resumption secret, expiry and key rotation.
   The match of a TLS <= 1.2 ticket's EMS flag with the new handshake happens after extension parsing, outside
   matrixUnlockSessionTicket: observed by the live check only. *)
