(* Property C19 (PARTIAL) - allocation failure yields a clean error, never a crash.
   Only statements closed by `exact`; the proofs live in Res/ResProofs.v.
   What is proved: over the translator-generated table of ALL allocation sites of the library
   (Gen/AllocSites.v, regenerated from the C sources on every run; calls of library functions that return
   freshly allocated memory - psStrdupN, psDynBufDetach, tls13NewPsk ... found mechanically - are sites too) every
   site outside `known_open` tests the result for NULL before its first use or escape into a structure field, and such a site never dereferences NULL and takes
   its error edge when the allocator fails.  Not proved (explored by harness/h_fault.c): that the error
   edge unwinds correctly (no leak / double free) and reaches the API boundary as an error. *)
From Coq Require Import String List Bool.
From MV Require Import Gen.AllocSites Res.ResModel Res.ResSpec Res.ResProofs.

(* generic lemma: a guarded site never dereferences NULL and never stores it silently; when the allocator returns NULL
   the error edge is taken *)
Theorem c19_guarded_no_fault : forall s, guarded s = true ->
  forall orc : oracle,
    (forall k, run_site s orc <> Fault k) /\
    run_site s orc <> SilentNull /\
    (orc = None -> run_site s orc = ErrorEdge) /\
    (orc <> None -> run_site s orc = Completed).
Proof. exact guarded_no_fault. Qed.
Print Assumptions c19_guarded_no_fault.

(* ... and the guard is necessary in the model: an unguarded site either dereferences NULL, or (StoredUnchecked) leaves
   NULL in a field whose readers take it for "not requested" - no crash, the check is silently off -, or
   (GuardedButSwallowed) tests for NULL and then carries on with a partially built object without telling its caller *)
Theorem c19_unguarded_not_clean : forall s, guarded s = false ->
  (exists k, run_site s None = Fault k) \/ run_site s None = SilentNull \/ run_site s None = Swallowed.
Proof. exact unguarded_not_clean. Qed.
Print Assumptions c19_unguarded_not_clean.

(* hygiene of the table: keys are unique (so `known_open` names exactly one site), the table is not empty,
   and every key listed as open names an existing site that is indeed unguarded (no stale exemptions) *)
Theorem c19_table_wellformed :
  nodup_keys nil sites = true /\ length sites = n_sites /\ 200 <= n_sites /\ known_open_are_unguarded_sites = true /\
  benign_keys_are_swallowed_sites = true.
Proof. exact table_wellformed. Qed.
Print Assumptions c19_table_wellformed.

(* the table: every allocation site of the current sources, minus the open known findings, is guarded - or swallows the
   failure and is on the hand-reviewed benign list of ResModel.v (3 sites, each with its reason).
   A removed NULL check or a new unchecked allocation changes Gen/AllocSites.v and breaks this proof. *)
Theorem c19_sites_guarded : forallb accepted checked_sites = true.
Proof. exact sites_guarded. Qed.
Print Assumptions c19_sites_guarded.

(* consequence for every site of the library outside known_open *)
Theorem c19_no_site_faults : forall s, In s sites -> known_open s = false ->
  alloc_failure_clean s \/ alloc_failure_swallowed_benign s.
Proof. exact no_site_faults. Qed.
Print Assumptions c19_no_site_faults.

(* a site that swallows an allocation failure and is not on the reviewed benign list is never accepted: a new
   `if (p != NULL) { fill }  /* carry on */` breaks c19_sites_guarded *)
Theorem c19_swallowed_needs_review : forall s, s_class s = GuardedButSwallowed -> benign_swallowed s = false -> accepted s = false.
Proof. exact swallowed_needs_review. Qed.
Print Assumptions c19_swallowed_needs_review.

(* the exempted sites are real violations of the site spec (no guarded site hides in the exemption list):
   the full statement c19_table_statement fails exactly on them *)
Theorem c19_known_open_sites_unclean : forall s, In s sites -> known_open s = true ->
  (exists k, run_site s None = Fault k) \/ run_site s None = SilentNull \/ run_site s None = Swallowed.
Proof. exact known_open_sites_unclean. Qed.
Print Assumptions c19_known_open_sites_unclean.
