(* Property C04 - a handshake that calls for certificate authentication completes only if internal chain validation
   succeeded or the application's callback explicitly accepted that failure, and the peer proved possession of the leaf key
   over this handshake's own data; without a callback every validation failure is fatal, identically in every version.
   Only statements closed by `exact`; proofs: Auth/AuthProofs.v; model: Auth/AuthModel.v (cert_outcome12 / cert_outcome13 are
   the REPAIRED hsDecode.c parseCertificate / tls13Authenticate.c matrixSslValidatePeerCerts / matrixssl.c matrixSslSetCertChainAlert: pending-fixes/C04-*.patch incl. C04-6; the
   pinned code is kept as [cert_run12 pinned] / [cert_run13 pinned]); spec: Auth/AuthSpec.v. *)
From MV Require Import Auth.AuthModel Auth.AuthSpec Auth.AuthProofs.
Local Open Scope Z_scope.

(* no callback: every internal validation failure (validator rc < 0, or any certificate without PS_CERT_AUTH_PASS) is fatal,
   in TLS <= 1.2 and in TLS 1.3 *)
Theorem c04_nocb_fatal : forall v, internal_failure v ->
  (exists a, cert_outcome12 v None = Fatal a) /\ (exists a, cert_outcome13 v None = Fatal a).
Proof. exact nocb_fatal. Qed.
Print Assumptions c04_nocb_fatal.

(* ... and so are the two failures the handshake code itself detects: no trust anchor loaded, path deeper than max_verify_depth *)
Theorem c04_nocb_fatal_strong : forall v, auth_failure v ->
  (exists a, cert_outcome12 v None = Fatal a) /\ (exists a, cert_outcome13 v None = Fatal a).
Proof. exact nocb_fatal_strong. Qed.
Print Assumptions c04_nocb_fatal_strong.

(* conversely a chain without any failure goes through (the functions are not trivially fatal) *)
Theorem c04_valid_continues : forall v, ~ auth_failure v ->
  cert_outcome12 v None = Continue false /\ cert_outcome13 v None = Continue false.
Proof. exact valid_continues. Qed.
Print Assumptions c04_valid_continues.

(* both versions take the same decision (kept from before repair C04-6; c04_versions_identical below is stronger).  With a callback: both consult it, both with a
   pending alert or both without, and if the callback answers the two alert values alike the outcomes are equal. *)
Theorem c04_versions_agree : forall v cb,
  (cb = None -> continues (cert_outcome12 v cb) = continues (cert_outcome13 v cb)) /\
  (forall f, cb = Some f -> v_rc v <> a_PS_MEM_FAIL ->
     exists a12 a13, cb_arg12 v cb = Some a12 /\ cb_arg13 v cb = Some a13 /\ (a12 = 0 <-> a13 = 0) /\
                     (f a12 = f a13 -> cert_outcome12 v cb = cert_outcome13 v cb)) /\
  (v_rc v = a_PS_MEM_FAIL -> cert_outcome12 v cb = Fatal a_SSL_ALERT_INTERNAL_ERROR /\ cert_outcome13 v cb = Fatal a_SSL_ALERT_INTERNAL_ERROR).
Proof. exact versions_agree. Qed.
Print Assumptions c04_versions_agree.

(* after the repair C04-6 both versions run the same chain -> alert mapping: outcome AND alert are equal for every verdict *)
Theorem c04_versions_identical : forall v cb,
  cert_outcome12 v cb = cert_outcome13 v cb /\ cb_arg12 v cb = cb_arg13 v cb.
Proof. intros v cb. unfold cert_outcome12, cert_outcome13, cb_arg12, cb_arg13. rewrite versions_identical. split; reflexivity. Qed.
Print Assumptions c04_versions_identical.

(* "explicitly accepted THAT failure": the one alert the callback is given stands for the most severe defect of the chain
   (expired < name mismatch < anything that breaks the trust path; defects are read off the verdict per certificate, plus
   "no trust anchor" and "too deep"), so a callback that tolerates what it is told never tolerates something worse unseen *)
Theorem c04_alert_most_severe : forall v f a d, v_rc v <> a_PS_MEM_FAIL ->
  cb_arg12 v (Some f) = Some a -> is_defect v d -> severity d <= arg_severity a.
Proof. exact alert_most_severe. Qed.
Print Assumptions c04_alert_most_severe.

(* a registered callback is consulted exactly once (except on allocation failure, which is fatal), is given a non-zero alert
   iff authentication failed, and the handshake goes on only if it answered 0 or SSL_ALLOW_ANON_CONNECTION *)
Theorem c04_cb_sees_failure : forall v f,
  (v_rc v = a_PS_MEM_FAIL ->
     cb_arg12 v (Some f) = None /\ cb_arg13 v (Some f) = None /\
     cert_outcome12 v (Some f) = Fatal a_SSL_ALERT_INTERNAL_ERROR /\ cert_outcome13 v (Some f) = Fatal a_SSL_ALERT_INTERNAL_ERROR) /\
  (v_rc v <> a_PS_MEM_FAIL ->
     (exists a, cb_arg12 v (Some f) = Some a /\ (a <> 0 <-> auth_failure v) /\
                forall an, cert_outcome12 v (Some f) = Continue an -> cb_accepts (f a) an) /\
     (exists a, cb_arg13 v (Some f) = Some a /\ (a <> 0 <-> auth_failure v) /\
                forall an, cert_outcome13 v (Some f) = Continue an -> cb_accepts (f a) an)).
Proof. exact cb_sees_failure. Qed.
Print Assumptions c04_cb_sees_failure.

(* proof of possession: whatever the peer sends and whatever the signature / Finished checks answer, a verifying side that
   reaches DONE has recorded a successful check made with the LEAF key of the accepted Certificate message over this
   handshake's own randoms+params, or own transcript at that point with the peer's context string, with an algorithm this
   side offered - or (RSA key transport) a Finished that verifies under keys derived from a premaster sent to that leaf key *)
Theorem c04_pop : forall sig_ok fin_ok c t0 ms, let s := run sig_ok fin_ok c t0 ms in
  ph s = PDone -> exists k, leaf s = Some k /\ possession_proved sig_ok fin_ok c s k.
Proof. exact pop_on_done. Qed.
Print Assumptions c04_pop.

(* a server connection configured for client authentication, from the ClientHello on: whatever the client offers (made-up /
   expired / evicted session id, stale / foreign / undecryptable ticket or TLS 1.3 PSK identity, nothing) and whatever follows,
   DONE is reached only with a proof of possession by the leaf key of an accepted chain in THIS handshake, or after the lookup
   of the offer answered with a resumable session - and then the resumed session is exactly the one the lookup answered with
   (its flag b says whether ITS original handshake authenticated the client: the code does not record or check b, see the
   open finding "resumed-unauthenticated-original"; for a cache that only holds sessions of authenticated handshakes b = true) *)
Theorem c04_auth_not_dropped : forall sig_ok fin_ok c ms, let s := run_hello sig_ok fin_ok c ms in
  ph s = PDone ->
  (exists b, resumed s = Some b) \/ (exists k, leaf s = Some k /\ possession_proved sig_ok fin_ok c s k).
Proof. exact auth_not_dropped. Qed.
Print Assumptions c04_auth_not_dropped.

Theorem c04_resumed_only_by_lookup : forall sig_ok fin_ok c ms b, resumed (run_hello sig_ok fin_ok c ms) = Some b ->
  p_role c = VServer /\ In (MClientHello (Some b)) ms.
Proof. exact resumed_only_by_lookup. Qed.
Print Assumptions c04_resumed_only_by_lookup.

(* the pinned code: the confirmed defect (expired leaf: rc = 0, FAIL_EXTENSION/DATE, no callback => Continue in TLS <= 1.2) *)
Theorem c04_pinned_nocb_fatal_refuted :
  exists v, internal_failure v /\ (exists an, snd (cert_run12 pinned v None) = Continue an).
Proof. exact pinned_nocb_fatal_refuted. Qed.
Print Assumptions c04_pinned_nocb_fatal_refuted.

Theorem c04_pinned_versions_agree_refuted :
  exists v, continues (snd (cert_run12 pinned v None)) <> continues (snd (cert_run13 pinned v None)).
Proof. exact pinned_versions_agree_refuted. Qed.
Print Assumptions c04_pinned_versions_agree_refuted.
