(* Property C04 - a handshake that calls for certificate authentication completes only if internal chain validation
   succeeded or the application's callback explicitly accepted that failure, and the peer proved possession of the leaf key
   over this handshake's own data; without a callback every validation failure is fatal, identically in every version.
   Only statements closed by `exact`; proofs: Auth/AuthProofs.v; model: Auth/AuthModel.v (cert_outcome12 / cert_outcome13 are
   the REPAIRED hsDecode.c parseCertificate / tls13Authenticate.c matrixSslValidatePeerCerts: pending-fixes/C04-*.patch; the
   pinned code is kept as [cert_run12 pinned] / [cert_run13 pinned]); spec: Auth/AuthSpec.v. *)
From MV Require Import Auth.AuthModel Auth.AuthSpec Auth.AuthProofs.
Local Open Scope Z_scope.

(* no callback: every internal validation failure (validator rc < 0, or any certificate without PS_CERT_AUTH_PASS) is fatal,
   in TLS <= 1.2 and in TLS 1.3 *)
Theorem c04_nocb_fatal : forall v, internal_failure v ->
  (exists a, cert_outcome12 v None = Fatal a) /\ (exists a, cert_outcome13 v None = Fatal a).
Proof. exact nocb_fatal. Qed.
Print Assumptions c04_nocb_fatal.

(* ... and so are the two failures the handshake code itself detects: no trust anchor loaded, path deeper than max_verify_depth *)
Theorem c04_nocb_fatal_strong : forall v, auth_failure v ->
  (exists a, cert_outcome12 v None = Fatal a) /\ (exists a, cert_outcome13 v None = Fatal a).
Proof. exact nocb_fatal_strong. Qed.
Print Assumptions c04_nocb_fatal_strong.

(* conversely a chain without any failure goes through (the functions are not trivially fatal) *)
Theorem c04_valid_continues : forall v, ~ auth_failure v ->
  cert_outcome12 v None = Continue false /\ cert_outcome13 v None = Continue false.
Proof. exact valid_continues. Qed.
Print Assumptions c04_valid_continues.

(* both versions take the same decision.  Without a callback: the same Continue/Fatal decision (the alert description may
   differ: TLS <= 1.2 reports the first failing certificate, TLS 1.3 the last).  With a callback: both consult it, both with a
   pending alert or both without, and if the callback answers the two alert values alike the outcomes are equal. *)
Theorem c04_versions_agree : forall v cb,
  (cb = None -> continues (cert_outcome12 v cb) = continues (cert_outcome13 v cb)) /\
  (forall f, cb = Some f -> v_rc v <> a_PS_MEM_FAIL ->
     exists a12 a13, cb_arg12 v cb = Some a12 /\ cb_arg13 v cb = Some a13 /\ (a12 = 0 <-> a13 = 0) /\
                     (f a12 = f a13 -> cert_outcome12 v cb = cert_outcome13 v cb)) /\
  (v_rc v = a_PS_MEM_FAIL -> cert_outcome12 v cb = Fatal a_SSL_ALERT_INTERNAL_ERROR /\ cert_outcome13 v cb = Fatal a_SSL_ALERT_INTERNAL_ERROR).
Proof. exact versions_agree. Qed.
Print Assumptions c04_versions_agree.

(* a registered callback is consulted exactly once (except on allocation failure, which is fatal), is given a non-zero alert
   iff authentication failed, and the handshake goes on only if it answered 0 or SSL_ALLOW_ANON_CONNECTION *)
Theorem c04_cb_sees_failure : forall v f,
  (v_rc v = a_PS_MEM_FAIL ->
     cb_arg12 v (Some f) = None /\ cb_arg13 v (Some f) = None /\
     cert_outcome12 v (Some f) = Fatal a_SSL_ALERT_INTERNAL_ERROR /\ cert_outcome13 v (Some f) = Fatal a_SSL_ALERT_INTERNAL_ERROR) /\
  (v_rc v <> a_PS_MEM_FAIL ->
     (exists a, cb_arg12 v (Some f) = Some a /\ (a <> 0 <-> auth_failure v) /\
                forall an, cert_outcome12 v (Some f) = Continue an -> cb_accepts (f a) an) /\
     (exists a, cb_arg13 v (Some f) = Some a /\ (a <> 0 <-> auth_failure v) /\
                forall an, cert_outcome13 v (Some f) = Continue an -> cb_accepts (f a) an)).
Proof. exact cb_sees_failure. Qed.
Print Assumptions c04_cb_sees_failure.

(* proof of possession: whatever the peer sends and whatever the signature / Finished checks answer, a verifying side that
   reaches DONE has recorded a successful check made with the LEAF key of the accepted Certificate message over this
   handshake's own randoms+params, or own transcript at that point with the peer's context string, with an algorithm this
   side offered - or (RSA key transport) a Finished that verifies under keys derived from a premaster sent to that leaf key *)
Theorem c04_pop : forall sig_ok fin_ok c t0 ms, let s := run sig_ok fin_ok c t0 ms in
  ph s = PDone -> exists k, leaf s = Some k /\ possession_proved sig_ok fin_ok c s k.
Proof. exact pop_on_done. Qed.
Print Assumptions c04_pop.

(* the pinned code: the confirmed defect (expired leaf: rc = 0, FAIL_EXTENSION/DATE, no callback => Continue in TLS <= 1.2) *)
Theorem c04_pinned_nocb_fatal_refuted :
  exists v, internal_failure v /\ (exists an, snd (cert_run12 pinned v None) = Continue an).
Proof. exact pinned_nocb_fatal_refuted. Qed.
Print Assumptions c04_pinned_nocb_fatal_refuted.

Theorem c04_pinned_versions_agree_refuted :
  exists v, continues (snd (cert_run12 pinned v None)) <> continues (snd (cert_run13 pinned v None)).
Proof. exact pinned_versions_agree_refuted. Qed.
Print Assumptions c04_pinned_versions_agree_refuted.
